import DvidModel.Model.Ann
/- Lemmas on `Elements.add` for the annotation model (C13). -/
namespace Dvid.Ann

def PosNodup (l : List Elem) : Prop := (l.map (·.pos)).Nodup

def addStep (cur : List Elem) (acc : List Elem) (a : Elem) : List Elem :=
  if cur.any (·.pos == a.pos) then acc.map (fun c => if c.pos == a.pos then a else c) else acc ++ [a]

theorem addList_eq (cur add : List Elem) : addList cur add = add.foldl (addStep cur) cur := rfl

/-- what the accumulator of `Elements.add` holds after the elements `P` have been processed -/
structure AddInv (cur acc P : List Elem) : Prop where
  nodup : PosNodup acc
  mem : ∀ x, x ∈ acc ↔ (x ∈ P ∨ (x ∈ cur ∧ ∀ a ∈ P, a.pos ≠ x.pos))

theorem mem_pos_of_mem {l : List Elem} {x : Elem} (h : x ∈ l) : x.pos ∈ l.map (·.pos) := List.mem_map_of_mem h

theorem posNodup_eq {l : List Elem} (h : PosNodup l) {x y : Elem} (hx : x ∈ l) (hy : y ∈ l) (hp : x.pos = y.pos) : x = y := by
  unfold PosNodup at h
  induction l with
  | nil => simp at hx
  | cons c cs ih =>
    simp only [List.map_cons, List.nodup_cons] at h
    rcases List.mem_cons.1 hx with rfl | hx' <;> rcases List.mem_cons.1 hy with rfl | hy'
    · rfl
    · exact absurd (hp ▸ mem_pos_of_mem hy') h.1
    · exact absurd (hp ▸ mem_pos_of_mem hx') h.1
    · exact ih h.2 hx' hy'

theorem addStep_inv (cur acc P : List Elem) (a : Elem) (_hcur : PosNodup cur) (h : AddInv cur acc P)
    (ha : ∀ p ∈ P, p.pos ≠ a.pos) : AddInv cur (addStep cur acc a) (P ++ [a]) := by
  unfold addStep
  by_cases hc : cur.any (·.pos == a.pos) = true
  · simp only [hc, ↓reduceIte]
    obtain ⟨c0, hc0, hc0p⟩ := List.any_eq_true.1 hc
    have hc0p : c0.pos = a.pos := by simpa using hc0p
    -- c0 is still in acc (no processed element has its position)
    have hc0acc : c0 ∈ acc := (h.mem c0).2 (Or.inr ⟨hc0, fun p hp => by rw [hc0p]; exact ha p hp⟩)
    constructor
    · -- positions are unchanged by the replacement
      unfold PosNodup
      have : (acc.map (fun c => if c.pos == a.pos then a else c)).map (·.pos) = acc.map (·.pos) := by
        rw [List.map_map]; apply List.map_congr_left; intro c _
        simp only [Function.comp]; split
        · rename_i e; simpa using (by simpa using e : c.pos = a.pos).symm
        · rfl
      rw [this]; exact h.nodup
    · intro x
      constructor
      · intro hx
        obtain ⟨c, hcacc, hcx⟩ := List.mem_map.1 hx
        by_cases hcp : c.pos = a.pos
        · have e : (c.pos == a.pos) = true := by simpa using hcp
          simp only [e, ↓reduceIte] at hcx
          exact Or.inl (List.mem_append.2 (Or.inr (by simp [hcx])))
        · have e : (c.pos == a.pos) = false := by simpa using hcp
          simp only [e, Bool.false_eq_true, ↓reduceIte] at hcx
          subst hcx
          rcases (h.mem c).1 hcacc with hP | ⟨hcur', hno⟩
          · exact Or.inl (List.mem_append.2 (Or.inl hP))
          · refine Or.inr ⟨hcur', ?_⟩
            intro p hp
            rcases List.mem_append.1 hp with hp | hp
            · exact hno p hp
            · have : p = a := by simpa using hp
              subst this; exact fun e => hcp e.symm
      · intro hx
        apply List.mem_map.2
        rcases hx with hx | ⟨hxc, hno⟩
        · rcases List.mem_append.1 hx with hP | hxa
          · refine ⟨x, (h.mem x).2 (Or.inl hP), ?_⟩
            have : (x.pos == a.pos) = false := by simpa using ha x hP
            simp only [this, Bool.false_eq_true, ↓reduceIte]
          · have : x = a := by simpa using hxa
            subst this
            exact ⟨c0, hc0acc, by simp [hc0p]⟩
        · refine ⟨x, (h.mem x).2 (Or.inr ⟨hxc, fun p hp => hno p (List.mem_append.2 (Or.inl hp))⟩), ?_⟩
          have hne : a.pos ≠ x.pos := hno a (List.mem_append.2 (Or.inr (by simp)))
          have : (x.pos == a.pos) = false := by simpa using fun e => hne e.symm
          simp only [this, Bool.false_eq_true, ↓reduceIte]
  · have hc' : cur.any (·.pos == a.pos) = false := by simpa using hc
    simp only [hc', Bool.false_eq_true, ↓reduceIte]
    have hnotcur : ∀ y ∈ cur, y.pos ≠ a.pos := by
      intro y hy e
      have := List.any_eq_false.1 hc' y hy
      simp [e] at this
    have hnotacc : ∀ y ∈ acc, y.pos ≠ a.pos := by
      intro y hy
      rcases (h.mem y).1 hy with hP | ⟨hyc, _⟩
      · exact ha y hP
      · exact hnotcur y hyc
    constructor
    · unfold PosNodup
      rw [List.map_append, List.nodup_append]
      refine ⟨h.nodup, by simp, ?_⟩
      intro p hp q hq
      have : q = a.pos := by simpa using hq
      subst this
      obtain ⟨y, hy, rfl⟩ := List.mem_map.1 hp
      exact hnotacc y hy
    · intro x
      constructor
      · intro hx
        rcases List.mem_append.1 hx with hx | hx
        · rcases (h.mem x).1 hx with hP | ⟨hxc, hno⟩
          · exact Or.inl (List.mem_append.2 (Or.inl hP))
          · refine Or.inr ⟨hxc, ?_⟩
            intro p hp
            rcases List.mem_append.1 hp with hp | hp
            · exact hno p hp
            · have : p = a := by simpa using hp
              subst this; exact fun e => hnotcur x hxc e.symm
        · exact Or.inl (List.mem_append.2 (Or.inr hx))
      · intro hx
        rcases hx with hx | ⟨hxc, hno⟩
        · rcases List.mem_append.1 hx with hP | hxa
          · exact List.mem_append.2 (Or.inl ((h.mem x).2 (Or.inl hP)))
          · exact List.mem_append.2 (Or.inr hxa)
        · exact List.mem_append.2 (Or.inl ((h.mem x).2 (Or.inr ⟨hxc, fun p hp => hno p (List.mem_append.2 (Or.inl hp))⟩)))

theorem fold_addStep_inv (cur : List Elem) (hcur : PosNodup cur) (rest acc P : List Elem) (h : AddInv cur acc P)
    (hnd : PosNodup (P ++ rest)) : AddInv cur (rest.foldl (addStep cur) acc) (P ++ rest) := by
  induction rest generalizing acc P with
  | nil => simpa using h
  | cons a rest ih =>
    rw [List.foldl_cons]
    have hap : ∀ p ∈ P, p.pos ≠ a.pos := by
      intro p hp e
      unfold PosNodup at hnd
      rw [List.map_append, List.map_cons, List.nodup_append] at hnd
      exact hnd.2.2 p.pos (mem_pos_of_mem hp) a.pos List.mem_cons_self e
    have := ih (addStep cur acc a) (P ++ [a]) (addStep_inv cur acc P a hcur h hap) (by simpa using hnd)
    simpa using this

/-- `Elements.add`: every added element is in the result, a stored element stays unless one with its position is
    added, and positions stay distinct -/
theorem addList_spec (cur add : List Elem) (hcur : PosNodup cur) (hadd : PosNodup add) :
    PosNodup (addList cur add) ∧
    ∀ x, x ∈ addList cur add ↔ (x ∈ add ∨ (x ∈ cur ∧ ∀ a ∈ add, a.pos ≠ x.pos)) := by
  have h0 : AddInv cur cur [] := ⟨hcur, fun x => by simp⟩
  have := fold_addStep_inv cur hcur add cur [] h0 (by simpa using hadd)
  rw [addList_eq]
  simp only [List.nil_append] at this
  exact ⟨this.nodup, this.mem⟩

end Dvid.Ann
