import DvidModel.Model.Bytes
/- Helper lemmas about big-endian ids and `bytes.Compare`. -/
namespace Dvid

theorem fromBe32_be32 (n : Nat) (h : n < 4294967296) : fromBe32 (be32 n) = n := by
  simp [fromBe32, be32]; omega

theorem fromBe32_be32_append (n : Nat) (h : n < 4294967296) (r : Bytes) : fromBe32 (be32 n ++ r) = n := by
  simp [fromBe32, be32]; omega

@[simp] theorem be32_length (n : Nat) : (be32 n).length = 4 := by simp [be32]

theorem be32_injective {a b : Nat} (ha : a < 4294967296) (hb : b < 4294967296) (h : be32 a = be32 b) : a = b := by
  have := congrArg fromBe32 h
  rwa [fromBe32_be32 a ha, fromBe32_be32 b hb] at this

@[simp] theorem cmpBytes_self (a : Bytes) : cmpBytes a a = .eq := by
  induction a with
  | nil => rfl
  | cons x xs ih => simp [cmpBytes, ih]

theorem cmpBytes_eq_iff (a b : Bytes) : cmpBytes a b = .eq ↔ a = b := by
  induction a generalizing b with
  | nil => cases b <;> simp [cmpBytes]
  | cons x xs ih =>
    cases b with
    | nil => simp [cmpBytes]
    | cons y ys =>
      simp only [cmpBytes]
      by_cases h1 : x < y
      · simp [h1]; intro h; subst h; exact absurd h1 (UInt8.lt_irrefl _)
      · by_cases h2 : y < x
        · simp [h1, h2]; intro h; subst h; exact absurd h2 (UInt8.lt_irrefl _)
        · have : x = y := UInt8.le_antisymm (UInt8.not_lt.mp h2) (UInt8.not_lt.mp h1)
          subst this; simp [ih]

theorem cmpBytes_append_left (p a b : Bytes) : cmpBytes (p ++ a) (p ++ b) = cmpBytes a b := by
  induction p with
  | nil => rfl
  | cons x xs ih => simp [cmpBytes, ih]

theorem cmpBytes_swap (a b : Bytes) : cmpBytes b a = (cmpBytes a b).swap := by
  induction a generalizing b with
  | nil => cases b <;> rfl
  | cons x xs ih =>
    cases b with
    | nil => rfl
    | cons y ys =>
      simp only [cmpBytes]
      by_cases h1 : x < y
      · have : ¬ y < x := fun h => absurd (UInt8.lt_trans h1 h) (UInt8.lt_irrefl _)
        simp [h1, this]
      · by_cases h2 : y < x
        · simp [h1, h2]
        · simp [h1, h2, ih]

/-- neither is a prefix of the other (covers: equal length and different) -/
def NoPrefix (a b : Bytes) : Prop := ¬ a <+: b ∧ ¬ b <+: a

theorem noPrefix_of_length_eq {a b : Bytes} (hl : a.length = b.length) (hne : a ≠ b) : NoPrefix a b := by
  constructor
  · intro h; exact hne (List.IsPrefix.eq_of_length h hl)
  · intro h; exact hne (List.IsPrefix.eq_of_length h hl.symm).symm

/-- With prefix-free first components the comparison is decided inside them. -/
theorem cmpBytes_append_noPrefix {a b : Bytes} (h : NoPrefix a b) (x y : Bytes) :
    cmpBytes (a ++ x) (b ++ y) = cmpBytes a b ∧ cmpBytes a b ≠ .eq := by
  induction a generalizing b with
  | nil => exact absurd (List.nil_prefix) h.1
  | cons p ps ih =>
    cases b with
    | nil => exact absurd (List.nil_prefix) h.2
    | cons q qs =>
      simp only [List.cons_append, cmpBytes]
      by_cases h1 : p < q
      · simp [h1]
      · by_cases h2 : q < p
        · simp [h1, h2]
        · have : p = q := UInt8.le_antisymm (UInt8.not_lt.mp h2) (UInt8.not_lt.mp h1)
          subst this
          simp only [h1, if_false]
          apply ih
          constructor
          · intro hp; exact h.1 (by simpa using hp)
          · intro hp; exact h.2 (by simpa using hp)

theorem cmpBytes_be32 (a b : Nat) (ha : a < 4294967296) (hb : b < 4294967296) (x y : Bytes) :
    cmpBytes (be32 a ++ x) (be32 b ++ y) =
      if a < b then .lt else if b < a then .gt else cmpBytes x y := by
  by_cases hab : a = b
  · subst hab; simp [cmpBytes_append_left]
  · have hl : (be32 a).length = (be32 b).length := by simp
    have hne : be32 a ≠ be32 b := fun h => hab (be32_injective ha hb h)
    have := cmpBytes_append_noPrefix (noPrefix_of_length_eq hl hne) x y
    rw [this.1]
    -- numeric order = byte order on the four digits
    simp only [be32, cmpBytes, UInt8.lt_iff_toNat_lt, UInt8.toNat_ofNat']
    by_cases h : a < b
    · simp only [h, if_true]
      repeat' split
      all_goals first | rfl | (exfalso; omega)
    · have h' : b < a := by omega
      simp only [h, h', if_true, if_false]
      repeat' split
      all_goals first | rfl | (exfalso; omega)

end Dvid
