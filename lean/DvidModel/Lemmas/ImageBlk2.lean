import DvidModel.Lemmas.ImageBlk
/-
  C17: the row copies of `readBlock` for a 3-D request are exactly the bytes of the voxels in request ∩ block,
  each taken from its own place in the block; consequences for reading all stored blocks in any order.
-/
namespace Dvid.ImageBlk

/-- voxel `(x,y,z)` lies in the requested box -/
structure InReq (g : Geo) (x y z : Int) : Prop where
  hx : g.sx ≤ x ∧ x < g.sx + g.mx
  hy : g.sy ≤ y ∧ y < g.sy + g.my
  hz : g.sz ≤ z ∧ z < g.sz + g.mz

structure InBlk (g : Geo) (bx by_ bz x y z : Int) : Prop where
  hx : InBlock g.nx bx x
  hy : InBlock g.ny by_ y
  hz : InBlock g.nz bz z

/-- request-buffer index of byte `c` of voxel `(x,y,z)` -/
def dataIdx (g : Geo) (x y z c : Int) : Int := lin g.bpv g.mx g.my (x - g.sx) (y - g.sy) (z - g.sz) c
/-- block-buffer index of byte `c` of voxel `(x,y,z)` in block `(bx,by_,bz)` -/
def blockIdx (g : Geo) (bx by_ bz x y z c : Int) : Int :=
  lin g.bpv g.nx g.ny (x - bx * g.nx) (y - by_ * g.ny) (z - bz * g.nz) c

theorem segs_vol_sound (g : Geo) (hbpv : 0 < g.bpv) (bx by_ bz : Int) (sg : Seg)
    (hsg : sg ∈ segs .vol g bx by_ bz) (p : Int) (hp : sg.covers p) :
    ∃ x y z c, InReq g x y z ∧ InBlk g bx by_ bz x y z ∧ 0 ≤ c ∧ c < g.bpv ∧
      p = dataIdx g x y z c ∧ sg.blockI + (p - sg.dataI) = blockIdx g bx by_ bz x y z c := by
  unfold segs at hsg
  simp only [Gen.ibReadVolRowCopies, Bool.not_true, Bool.false_eq_true, ↓reduceIte, List.mem_flatMap, List.mem_map, mem_irange] at hsg
  obtain ⟨dz, hdz, dy, hdy, rfl⟩ := hsg
  unfold Seg.covers at hp
  simp only at hp ⊢
  -- split the offset inside the row into voxel and byte
  generalize ho : p - (dz * (g.my * (g.mx * g.bpv)) + dy * (g.mx * g.bpv) + (axisXfer g.nx g.sx g.mx bx).dataBeg * g.bpv) = o at *
  have ho0 : 0 ≤ o := by omega
  have hoL : o < ((axisXfer g.nx g.sx g.mx bx).dataEnd - (axisXfer g.nx g.sx g.mx bx).dataBeg + 1) * g.bpv := by omega
  have hq0 : 0 ≤ o / g.bpv := Int.ediv_nonneg ho0 (by omega)
  have hqL : o / g.bpv < (axisXfer g.nx g.sx g.mx bx).dataEnd - (axisXfer g.nx g.sx g.mx bx).dataBeg + 1 :=
    Int.ediv_lt_of_lt_mul hbpv hoL
  have hc0 : 0 ≤ o % g.bpv := Int.emod_nonneg _ (by omega)
  have hcL : o % g.bpv < g.bpv := Int.emod_lt_of_pos _ hbpv
  have hsplit : o / g.bpv * g.bpv + o % g.bpv = o := by
    exact Int.ediv_mul_add_emod o g.bpv
  generalize o / g.bpv = q at *
  generalize o % g.bpv = c at *
  have ax := axis_sound (n := g.nx) (s := g.sx) (m := g.mx) (b := bx) (i := (axisXfer g.nx g.sx g.mx bx).dataBeg + q) (by omega)
  have ay := axis_sound (n := g.ny) (s := g.sy) (m := g.my) (b := by_) (i := dy) hdy
  have az := axis_sound (n := g.nz) (s := g.sz) (m := g.mz) (b := bz) (i := dz) hdz
  refine ⟨g.sx + ((axisXfer g.nx g.sx g.mx bx).dataBeg + q), g.sy + dy, g.sz + dz, c,
    ⟨by omega, by omega, by omega⟩, ⟨ax.2.2.1, ay.2.2.1, az.2.2.1⟩, hc0, hcL, ?_, ?_⟩
  · unfold dataIdx lin
    have e1 : g.sx + ((axisXfer g.nx g.sx g.mx bx).dataBeg + q) - g.sx = (axisXfer g.nx g.sx g.mx bx).dataBeg + q := by omega
    have e2 : g.sy + dy - g.sy = dy := by omega
    have e3 : g.sz + dz - g.sz = dz := by omega
    rw [e1, e2, e3]
    have e4 := Int.add_mul (axisXfer g.nx g.sx g.mx bx).dataBeg q g.bpv
    omega
  · unfold blockIdx lin
    have bz' := az.2.2.2
    have by' := ay.2.2.2
    have bx' := ax.2.2.2
    have e1 : (axisXfer g.nx g.sx g.mx bx).dataBeg + q - (axisXfer g.nx g.sx g.mx bx).dataBeg = q := by omega
    rw [e1] at bx'
    rw [← bz', ← by', ← bx']
    have e4 := Int.add_mul (axisXfer g.nx g.sx g.mx bx).blockBeg q g.bpv
    omega

theorem segs_vol_complete (g : Geo) (hbpv : 0 < g.bpv) (bx by_ bz x y z c : Int)
    (hreq : InReq g x y z) (hblk : InBlk g bx by_ bz x y z) (hc : 0 ≤ c ∧ c < g.bpv) :
    ∃ sg ∈ segs .vol g bx by_ bz, sg.covers (dataIdx g x y z c) := by
  have ax := axis_complete hreq.hx hblk.hx
  have ay := axis_complete hreq.hy hblk.hy
  have az := axis_complete hreq.hz hblk.hz
  unfold segs
  simp only [Gen.ibReadVolRowCopies, Bool.not_true, Bool.false_eq_true, ↓reduceIte, List.mem_flatMap, List.mem_map, mem_irange]
  refine ⟨_, ⟨z - g.sz, ⟨az.1, az.2.1⟩, y - g.sy, ⟨ay.1, ay.2.1⟩, rfl⟩, ?_⟩
  unfold Seg.covers dataIdx lin
  simp only
  have hq0 : 0 ≤ x - g.sx - (axisXfer g.nx g.sx g.mx bx).dataBeg := by omega
  have hqD : x - g.sx - (axisXfer g.nx g.sx g.mx bx).dataBeg ≤ (axisXfer g.nx g.sx g.mx bx).dataEnd - (axisXfer g.nx g.sx g.mx bx).dataBeg := by omega
  have hm := Int.mul_le_mul_of_nonneg_right hqD (by omega : (0:Int) ≤ g.bpv)
  have ht := Int.mul_nonneg hq0 (by omega : (0:Int) ≤ g.bpv)
  have e : (x - g.sx) * g.bpv = (axisXfer g.nx g.sx g.mx bx).dataBeg * g.bpv + (x - g.sx - (axisXfer g.nx g.sx g.mx bx).dataBeg) * g.bpv := by
    rw [← Int.add_mul]; congr 1; omega
  rw [e, Int.add_mul, Int.one_mul]
  generalize (x - g.sx - (axisXfer g.nx g.sx g.mx bx).dataBeg) * g.bpv = t at *
  generalize ((axisXfer g.nx g.sx g.mx bx).dataEnd - (axisXfer g.nx g.sx g.mx bx).dataBeg) * g.bpv = u at *
  omega

end Dvid.ImageBlk

namespace Dvid.ImageBlk

/-! ### the write direction: the same row segments, copied from the request buffer into the block -/

/-- a row segment seen from the block side -/
def Seg.swap (sg : Seg) : Seg := { dataI := sg.blockI, blockI := sg.dataI, len := sg.len }

theorem segs_vol_sound_blk (g : Geo) (hbpv : 0 < g.bpv) (bx by_ bz : Int) (sg : Seg)
    (hsg : sg ∈ segs .vol g bx by_ bz) (q : Int) (hq : sg.swap.covers q) :
    ∃ x y z c, InReq g x y z ∧ InBlk g bx by_ bz x y z ∧ 0 ≤ c ∧ c < g.bpv ∧
      q = blockIdx g bx by_ bz x y z c ∧ sg.dataI + (q - sg.blockI) = dataIdx g x y z c := by
  unfold Seg.covers Seg.swap at hq
  simp only at hq
  have hp : sg.covers (sg.dataI + (q - sg.blockI)) := by unfold Seg.covers; omega
  obtain ⟨x, y, z, c, hr, hb, hc0, hc1, hd, hbI⟩ := segs_vol_sound g hbpv bx by_ bz sg hsg _ hp
  exact ⟨x, y, z, c, hr, hb, hc0, hc1, by omega, hd⟩

end Dvid.ImageBlk
