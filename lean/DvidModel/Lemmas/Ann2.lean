import DvidModel.Lemmas.Ann
namespace Dvid.Ann

theorem nr_pos (e : Elem) : (nr e).pos = e.pos := rfl
theorem nr_tags (e : Elem) : (nr e).tags = e.tags := rfl

theorem posNodup_sublist {l l' : List Elem} (h : l'.Sublist l) (hn : PosNodup l) : PosNodup l' := by
  unfold PosNodup at *; exact hn.sublist (h.map _)

theorem posNodup_map_nr (l : List Elem) (h : PosNodup l) : PosNodup (l.map nr) := by
  unfold PosNodup at *
  have : (l.map nr).map (·.pos) = l.map (·.pos) := by rw [List.map_map]; rfl
  rw [this]; exact h

theorem find_of_mem (new : List Elem) (hn : PosNodup new) (n : Elem) (h : n ∈ new) :
    new.find? (·.pos == n.pos) = some n := by
  cases hf : new.find? (·.pos == n.pos) with
  | none =>
    have := List.find?_eq_none.1 hf n h
    simp at this
  | some m =>
    have hm := List.mem_of_find?_eq_some hf
    have hp : m.pos = n.pos := by simpa using List.find?_some hf
    rw [posNodup_eq hn hm h hp]

theorem find_none (new : List Elem) (p : Pos) (h : new.find? (·.pos == p) = none) : ∀ n ∈ new, n.pos ≠ p := by
  intro n hn e
  have := List.find?_eq_none.1 h n hn
  simp [e] at this

/-- the denormalised state agrees with its element set -/
structure Inv (s : St) : Prop where
  blocks : PosNodup s.blocks
  tagNodup : ∀ t, PosNodup (s.tagIdx t)
  tagMem : ∀ t x, x ∈ s.tagIdx t ↔ ∃ b ∈ s.blocks, b.tags.contains t = true ∧ nr b = x

theorem mem_tagErases (cur new : List Elem) (t : String) (p : Pos) :
    p ∈ tagErases cur new t ↔ ∃ c ∈ cur, c.pos = p ∧ ∃ n, new.find? (·.pos == c.pos) = some n ∧
      c.tags.contains t = true ∧ n.tags.contains t = false := by
  unfold tagErases
  simp only [List.mem_map, List.mem_filter]
  constructor
  · rintro ⟨c, ⟨hc, hcond⟩, rfl⟩
    refine ⟨c, hc, rfl, ?_⟩
    cases hf : new.find? (·.pos == c.pos) with
    | none => simp [hf] at hcond
    | some n =>
      simp only [hf, Bool.and_eq_true, Bool.not_eq_true'] at hcond
      exact ⟨n, rfl, hcond.1, hcond.2⟩
  · rintro ⟨c, hc, rfl, n, hf, h1, h2⟩
    exact ⟨c, ⟨hc, by simp only [hf, h1, h2]; rfl⟩, rfl⟩

theorem addList_nil (cur : List Elem) : addList cur [] = cur := rfl

theorem newTagList_eq (old adds : List Elem) (erases : List Pos) :
    newTagList old adds erases = (addList old adds).filter fun e => !erases.contains e.pos := by
  unfold newTagList
  cases adds with
  | nil => simp [addList_nil]
  | cons a as => simp

def mv (p q : Pos) (e : Elem) : Elem := if e.pos == p then { e with pos := q } else e

theorem mv_pos (p q : Pos) (e : Elem) : (mv p q e).pos = if e.pos = p then q else e.pos := by
  unfold mv; by_cases h : e.pos = p <;> simp [h]

theorem posNodup_map_mv (l : List Elem) (p q : Pos) (f : Elem → Elem) (hf : ∀ e, (f e).pos = (mv p q e).pos)
    (hn : PosNodup l) (hq : ∀ b ∈ l, b.pos ≠ q) : PosNodup (l.map f) := by
  unfold PosNodup at *
  induction l with
  | nil => simp
  | cons c cs ih =>
    simp only [List.map_cons, List.nodup_cons] at hn ⊢
    refine ⟨?_, ih hn.2 (fun b hb => hq b (List.mem_cons_of_mem _ hb))⟩
    intro hm
    obtain ⟨y, hy, hye⟩ := List.mem_map.1 hm
    obtain ⟨b, hb, rfl⟩ := List.mem_map.1 hy
    rw [hf, hf, mv_pos, mv_pos] at hye
    have hbq := hq b (List.mem_cons_of_mem _ hb)
    have hcq := hq c List.mem_cons_self
    have hbc : b.pos ≠ c.pos := fun e => hn.1 (e ▸ mem_pos_of_mem hb)
    by_cases h1 : b.pos = p <;> by_cases h2 : c.pos = p <;> simp only [h1, h2, ↓reduceIte] at hye
    · exact hbc (h1.trans h2.symm)
    · exact hcq hye.symm
    · exact hbq hye
    · exact hbc hye

theorem find_some_spec {l : List Elem} {p : Pos} {d : Elem} (h : l.find? (·.pos == p) = some d) : d ∈ l ∧ d.pos = p :=
  ⟨List.mem_of_find?_eq_some h, by simpa using List.find?_some h⟩


end Dvid.Ann
