import DvidModel.Model.Block
/- Helper lemmas for the compressed label block model (C09, C10). -/
namespace Dvid.Block

theorem mask_eq (p : Nat) (h : p < 8) : mask p = 2 ^ (8 - p) - 1 := by
  have : p = 0 ∨ p = 1 ∨ p = 2 ∨ p = 3 ∨ p = 4 ∨ p = 5 ∨ p = 6 ∨ p = 7 := by omega
  rcases this with h | h | h | h | h | h | h | h <;> subst h <;> decide

theorem arith1 (b0 b1 bitPos bits : Nat) (_h0 : b0 < 256) (h1 : b1 < 256) (hp : bitPos < 8) (hle : bitPos + bits ≤ 8) :
    (b0 % 2 ^ (8 - bitPos)) / 2 ^ (8 - bitPos - bits) = (b0 * 256 + b1) / 2 ^ (16 - bitPos - bits) % 2 ^ bits := by
  have hp' : bitPos = 0 ∨ bitPos = 1 ∨ bitPos = 2 ∨ bitPos = 3 ∨ bitPos = 4 ∨ bitPos = 5 ∨ bitPos = 6 ∨ bitPos = 7 := by omega
  have hb' : bits = 0 ∨ bits = 1 ∨ bits = 2 ∨ bits = 3 ∨ bits = 4 ∨ bits = 5 ∨ bits = 6 ∨ bits = 7 ∨ bits = 8 := by omega
  rcases hp' with h | h | h | h | h | h | h | h <;> subst h <;>
  rcases hb' with h | h | h | h | h | h | h | h | h <;> subst h <;>
  first | omega | (simp only [Nat.reduceSub, Nat.reducePow]; omega)

theorem arith2 (b0 b1 bitPos bits : Nat) (_h0 : b0 < 256) (h1 : b1 < 256) (hp : bitPos < 8) (hgt : ¬ bitPos + bits ≤ 8)
    (hb : bitPos + bits ≤ 16) :
    ((b0 % 2 ^ (8 - bitPos)) * 2 ^ 8 + b1) / 2 ^ (16 - bitPos - bits) = (b0 * 256 + b1) / 2 ^ (16 - bitPos - bits) % 2 ^ bits := by
  have hp' : bitPos = 0 ∨ bitPos = 1 ∨ bitPos = 2 ∨ bitPos = 3 ∨ bitPos = 4 ∨ bitPos = 5 ∨ bitPos = 6 ∨ bitPos = 7 := by omega
  have hb' : bits = 1 ∨ bits = 2 ∨ bits = 3 ∨ bits = 4 ∨ bits = 5 ∨ bits = 6 ∨ bits = 7 ∨ bits = 8 ∨ bits = 9 ∨ bits = 10 ∨ bits = 11 ∨ bits = 12 ∨ bits = 13 ∨ bits = 14 ∨ bits = 15 ∨ bits = 16 := by omega
  rcases hp' with h | h | h | h | h | h | h | h <;> subst h <;>
  rcases hb' with h | h | h | h | h | h | h | h | h | h | h | h | h | h | h | h <;> subst h <;>
  first | omega | (simp only [Nat.reduceSub, Nat.reducePow]; omega)

theorem bitsForLoop_ge (f n b : Nat) : b ≤ bitsForLoop f n b := by
  induction f generalizing n b with
  | zero => simp [bitsForLoop]
  | succ f ih =>
    unfold bitsForLoop
    split
    · exact Nat.le_trans (Nat.le_succ b) (ih _ _)
    · exact Nat.le_refl b

theorem or_low (a x k : Nat) (ha : a % 2 ^ k = 0) (hx : x < 2 ^ k) : a ||| x = a + x := by
  have : a = (a / 2 ^ k) <<< k := by
    rw [Nat.shiftLeft_eq]; have := Nat.div_add_mod a (2 ^ k); rw [ha] at this; simp at this; rw [Nat.mul_comm]; exact this.symm
  rw [this, Nat.shiftLeft_add_eq_or_of_lt hx]

/-- the two bytes after the encoder's write, in arithmetic form -/
def putArith (b0 b1 bitPos bits idx : Nat) : Nat × Nat :=
  if bitPos + bits ≤ 8 then (b0 + (idx * 2 ^ (8 - bits - bitPos)) % 256, b1)
  else (b0 + (idx * 2 ^ (16 - bits - bitPos)) % 65536 / 256 % 256, (idx * 2 ^ (16 - bits - bitPos)) % 65536 % 256)

theorem hx1 (bitPos bits idx : Nat) (hp : bitPos < 8) (hle : bitPos + bits ≤ 8) (hi : idx < 2 ^ bits) :
    (idx * 2 ^ (8 - bits - bitPos)) % 256 < 2 ^ (8 - bitPos) := by
  have hp' : bitPos = 0 ∨ bitPos = 1 ∨ bitPos = 2 ∨ bitPos = 3 ∨ bitPos = 4 ∨ bitPos = 5 ∨ bitPos = 6 ∨ bitPos = 7 := by omega
  have hb' : bits = 0 ∨ bits = 1 ∨ bits = 2 ∨ bits = 3 ∨ bits = 4 ∨ bits = 5 ∨ bits = 6 ∨ bits = 7 ∨ bits = 8 := by omega
  rcases hp' with h | h | h | h | h | h | h | h <;> subst h <;>
  rcases hb' with h | h | h | h | h | h | h | h | h <;> subst h <;>
  first | omega | (simp only [Nat.reduceSub, Nat.reducePow] at *; omega)

theorem hx2 (bitPos bits idx : Nat) (hp : bitPos < 8) (hgt : ¬ bitPos + bits ≤ 8) (hb : bitPos + bits ≤ 16)
    (hi : idx < 2 ^ bits) :
    (idx * 2 ^ (16 - bits - bitPos)) % 65536 / 256 % 256 < 2 ^ (8 - bitPos) := by
  have hp' : bitPos = 0 ∨ bitPos = 1 ∨ bitPos = 2 ∨ bitPos = 3 ∨ bitPos = 4 ∨ bitPos = 5 ∨ bitPos = 6 ∨ bitPos = 7 := by omega
  have hb' : bits = 1 ∨ bits = 2 ∨ bits = 3 ∨ bits = 4 ∨ bits = 5 ∨ bits = 6 ∨ bits = 7 ∨ bits = 8 ∨ bits = 9 ∨ bits = 10 ∨ bits = 11 ∨ bits = 12 ∨ bits = 13 ∨ bits = 14 ∨ bits = 15 ∨ bits = 16 := by omega
  rcases hp' with h | h | h | h | h | h | h | h <;> subst h <;>
  rcases hb' with h | h | h | h | h | h | h | h | h | h | h | h | h | h | h | h <;> subst h <;>
  first | omega | (simp only [Nat.reduceSub, Nat.reducePow] at *; omega)

theorem putPacked2_arith (b0 b1 bitPos bits idx : Nat) (hp : bitPos < 8) (hb : bitPos + bits ≤ 16)
    (hi : idx < 2 ^ bits) (hz : b0 % 2 ^ (8 - bitPos) = 0) :
    putPacked2 b0 b1 bitPos bits idx = putArith b0 b1 bitPos bits idx := by
  unfold putPacked2 putArith
  split
  · rename_i hle
    rw [Nat.shiftLeft_eq, or_low _ _ (8 - bitPos) hz (hx1 bitPos bits idx hp hle hi)]
  · rename_i hgt
    have e1 : ∀ v : Nat, (v &&& 0xFF00) >>> 8 = v / 256 % 256 := by
      intro v
      rw [Nat.shiftRight_and_distrib, show (0xFF00 : Nat) >>> 8 = 2 ^ 8 - 1 from by decide,
        Nat.and_two_pow_sub_one_eq_mod, Nat.shiftRight_eq_div_pow]
    have e2 : ∀ v : Nat, v &&& 0xFF = v % 256 := by
      intro v
      rw [show (0xFF : Nat) = 2 ^ 8 - 1 from by decide, Nat.and_two_pow_sub_one_eq_mod]
    simp only [e1, e2, Nat.shiftLeft_eq]
    rw [or_low _ _ (8 - bitPos) hz (hx2 bitPos bits idx hp hgt hb hi)]

theorem put_get_arith (b0 b1 bitPos bits idx : Nat) (h0 : b0 < 256) (h1 : b1 < 256) (hp : bitPos < 8)
    (hb : bitPos + bits ≤ 16) (hi : idx < 2 ^ bits) (hz : b0 % 2 ^ (8 - bitPos) = 0) :
    (putArith b0 b1 bitPos bits idx).1 < 256 ∧ (putArith b0 b1 bitPos bits idx).2 < 256 ∧
    ((putArith b0 b1 bitPos bits idx).1 * 256 + (putArith b0 b1 bitPos bits idx).2) / 2 ^ (16 - bitPos - bits) % 2 ^ bits = idx ∧
    (putArith b0 b1 bitPos bits idx).1 / 2 ^ (8 - bitPos) = b0 / 2 ^ (8 - bitPos) := by
  have hp' : bitPos = 0 ∨ bitPos = 1 ∨ bitPos = 2 ∨ bitPos = 3 ∨ bitPos = 4 ∨ bitPos = 5 ∨ bitPos = 6 ∨ bitPos = 7 := by omega
  have hb' : bits = 0 ∨ bits = 1 ∨ bits = 2 ∨ bits = 3 ∨ bits = 4 ∨ bits = 5 ∨ bits = 6 ∨ bits = 7 ∨ bits = 8 ∨ bits = 9 ∨ bits = 10 ∨ bits = 11 ∨ bits = 12 ∨ bits = 13 ∨ bits = 14 ∨ bits = 15 ∨ bits = 16 := by omega
  rcases hp' with h | h | h | h | h | h | h | h <;> subst h <;>
  rcases hb' with h | h | h | h | h | h | h | h | h | h | h | h | h | h | h | h | h <;> subst h <;>
  first
  | omega
  | (simp only [putArith, Nat.reduceAdd, Nat.reduceLeDiff, ↓reduceIte, Nat.reduceSub, Nat.reducePow, Nat.mul_one, Nat.add_zero] at *; omega)

def scanStep (acc : Array (Nat × Nat) × (Nat × Nat)) (n : Nat) : Array (Nat × Nat) × (Nat × Nat) :=
  (acc.1.push acc.2, sbAdvance acc.2 n)

theorem scan_spec (l : List Nat) (acc : Array (Nat × Nat)) (st : Nat × Nat) :
    (l.foldl scanStep (acc, st)).1.size = acc.size + l.length ∧
    (∀ j, j < acc.size → (l.foldl scanStep (acc, st)).1[j]? = acc[j]?) ∧
    (∀ k, k < l.length → (l.foldl scanStep (acc, st)).1[acc.size + k]? = some ((l.take k).foldl sbAdvance st)) := by
  induction l generalizing acc st with
  | nil => simp
  | cons n ns ih =>
    have ih' := ih (acc.push st) (sbAdvance st n)
    simp only [List.foldl_cons, scanStep] at *
    obtain ⟨h1, h2, h3⟩ := ih'
    refine ⟨by rw [h1]; simp; omega, ?_, ?_⟩
    · intro j hj
      rw [h2 j (by simp; omega)]
      simp [Array.getElem?_push, Nat.ne_of_lt hj]
    · intro k hk
      cases k with
      | zero =>
        rw [Nat.add_zero, h2 acc.size (by simp)]
        simp
      | succ k =>
        have := h3 k (by simpa using hk)
        simp only [Array.size_push] at this
        rw [show acc.size + (k + 1) = acc.size + 1 + k from by omega, this]
        simp

theorem startsArr_getD (a : Array Nat) (k : Nat) (hk : k < a.size) :
    (startsArr a).getD k (0, 0) = sbStart a.toList k := by
  have := (scan_spec a.toList #[] (0, 0)).2.2 k (by simpa using hk)
  unfold startsArr sbStart
  rw [← Array.foldl_toList]
  simp only [List.size_toArray, List.length_nil, Nat.zero_add] at this
  show (List.foldl scanStep (#[], (0, 0)) a.toList).1.getD k (0, 0) = _
  rw [Array.getD_eq_getD_getElem?, this]
  rfl

theorem sbNum_lt (b : Block) (x y z : Nat) (hx : x < 8 * b.gx) (hy : y < 8 * b.gy) (hz : z < 8 * b.gz) :
    sbNum b x y z < b.gx * b.gy * b.gz := by
  unfold sbNum
  have hc : x / 8 < b.gx := by omega
  have hb : y / 8 < b.gy := by omega
  have ha : z / 8 < b.gz := by omega
  have h1 : y / 8 * b.gx + x / 8 < b.gy * b.gx := by
    have : (y / 8 + 1) * b.gx ≤ b.gy * b.gx := Nat.mul_le_mul_right _ hb
    rw [Nat.add_mul] at this; omega
  have h2 : (z / 8 + 1) * (b.gx * b.gy) ≤ b.gz * (b.gx * b.gy) := Nat.mul_le_mul_right _ ha
  rw [Nat.add_mul] at h2
  have e1 : z / 8 * b.gx * b.gy = z / 8 * (b.gx * b.gy) := Nat.mul_assoc _ _ _
  have e2 : b.gx * b.gy * b.gz = b.gz * (b.gx * b.gy) := Nat.mul_comm _ _
  have e3 : b.gy * b.gx = b.gx * b.gy := Nat.mul_comm _ _
  omega

theorem idx_decomp (sx sy x y z : Nat) (hx : x < sx) (hy : y < sy) :
    (z * sx * sy + y * sx + x) % sx = x ∧ (z * sx * sy + y * sx + x) / sx % sy = y ∧
    (z * sx * sy + y * sx + x) / (sx * sy) = z := by
  have hsx : 0 < sx := by omega
  have e : z * sx * sy + y * sx + x = x + sx * (y + sy * z) := by
    rw [Nat.mul_add, ← Nat.mul_assoc sx sy z]
    have : z * sx * sy = sx * sy * z := by rw [Nat.mul_assoc, Nat.mul_comm]
    have : y * sx = sx * y := Nat.mul_comm _ _
    omega
  rw [e]
  refine ⟨by rw [Nat.add_mul_mod_self_left]; exact Nat.mod_eq_of_lt hx, ?_, ?_⟩
  · rw [Nat.add_mul_div_left _ _ hsx, Nat.div_eq_of_lt hx, Nat.zero_add, Nat.add_mul_mod_self_left]
    exact Nat.mod_eq_of_lt hy
  · rw [← Nat.div_div_eq_div_mul, Nat.add_mul_div_left _ _ hsx, Nat.div_eq_of_lt hx, Nat.zero_add,
      Nat.add_mul_div_left _ _ (by omega : 0 < sy), Nat.div_eq_of_lt hy, Nat.zero_add]

end Dvid.Block
