import DvidModel.Props.C09
/- Helper lemmas for operations on compressed label blocks (C10). -/
namespace Dvid.Block
open Dvid.Props.C09

theorem wf_slot (b : Block) (h : wf b = true) (k : Nat) (hk : k < b.numSB.size) (i : Nat) (hi : i < 512) :
    slotAt b (sbStart b.numSB.toList k) (b.numSB.getD k 0) i < (sbStart b.numSB.toList k).1 + b.numSB.getD k 0 ∧
    (sbStart b.numSB.toList k).1 + b.numSB.getD k 0 ≤ b.sbIdx.size := by
  unfold wf at h; simp only [Bool.and_eq_true, decide_eq_true_eq, List.all_eq_true, List.mem_range] at h
  have := h.1.2 k hk
  unfold wfSB at this; simp only [Bool.and_eq_true, decide_eq_true_eq, List.all_eq_true, List.mem_range] at this
  exact ⟨this.2 i hi, this.1.2⟩

theorem wf_idx (b : Block) (h : wf b = true) (p : Nat) (hp : p < b.sbIdx.size) : b.sbIdx.getD p 0 < b.labels.size := by
  unfold wf at h; simp only [Bool.and_eq_true, decide_eq_true_eq, List.all_eq_true] at h
  have := h.2 (b.sbIdx[p]) (by simp)
  simpa [Array.getD_eq_getD_getElem?, hp] using this

theorem sbVox_lt (x y z : Nat) : sbVox x y z < 512 := by unfold sbVox; omega

/-- pointwise transfer: if two blocks share geometry and every voxel's label is related by `f`, so are the decoded arrays -/
theorem decode_map (b b' : Block) (f : Nat → Nat) (hg : b'.gx = b.gx ∧ b'.gy = b.gy ∧ b'.gz = b.gz)
    (h : ∀ x y z, x < 8 * b.gx → y < 8 * b.gy → z < 8 * b.gz →
      voxLabel b' (startsArr b'.numSB) x y z = f (voxLabel b (startsArr b.numSB) x y z)) :
    decode b' = (decode b).map f := by
  obtain ⟨h1, h2, h3⟩ := hg
  apply Array.ext
  · simp [decode, nvox, h1, h2, h3]
  · intro i hi1 hi2
    have hi : i < nvox b := by simpa [decode] using hi2
    simp only [decode, Array.getElem_ofFn, Array.getElem_map, h1, h2]
    by_cases hx0 : 8 * b.gx = 0
    · simp [nvox, hx0] at hi
    by_cases hy0 : 8 * b.gy = 0
    · simp [nvox, hy0] at hi
    apply h
    · exact Nat.mod_lt _ (by omega)
    · exact Nat.mod_lt _ (by omega)
    · unfold nvox at hi
      exact Nat.div_lt_of_lt_mul hi

theorem wfBlock_cases (b : Block) (h : wfBlock b = true) : b.labels.size = 1 ∨ (2 ≤ b.labels.size ∧ wf b = true) := by
  unfold wfBlock at h
  simp only [Bool.or_eq_true, beq_iff_eq, Bool.and_eq_true, decide_eq_true_eq] at h
  exact h

theorem getD_map_lt (a : Array Nat) (g : Nat → Nat) (j : Nat) (hj : j < a.size) :
    (a.map g).getD j 0 = g (a.getD j 0) := by
  simp [Array.getD_eq_getD_getElem?, hj]

/-- re-labelling the table re-labels every voxel -/
theorem voxLabel_relabel (b : Block) (g : Nat → Nat) (h : wfBlock b = true)
    (x y z : Nat) (hx : x < 8 * b.gx) (hy : y < 8 * b.gy) (hz : z < 8 * b.gz) :
    voxLabel { b with labels := b.labels.map g } (startsArr b.numSB) x y z = g (voxLabel b (startsArr b.numSB) x y z) := by
  unfold voxLabel
  rcases wfBlock_cases b h with h1 | ⟨h2, hw⟩
  · have : b.labels.size < 2 := by omega
    simp only [Array.size_map, this, ↓reduceIte]
    simp [Array.getD_eq_getD_getElem?, h1]
  · have : ¬ b.labels.size < 2 := by omega
    simp only [Array.size_map, this, ↓reduceIte]
    have hk : sbNum b x y z < b.numSB.size := by rw [wf_size b hw]; exact sbNum_lt b x y z hx hy hz
    have hk' : sbNum { b with labels := b.labels.map g } x y z = sbNum b x y z := rfl
    rw [hk', startsArr_getD _ _ hk]
    have hn := wf_n_pos b hw _ hk
    obtain ⟨hs1, hs2⟩ := wf_slot b hw _ hk (sbVox x y z) (sbVox_lt x y z)
    unfold labelSB
    have hne : ¬ b.numSB.getD (sbNum b x y z) 0 = 0 := by omega
    simp only [hne, ↓reduceIte]
    have hsl : slotAt { b with labels := b.labels.map g } (sbStart b.numSB.toList (sbNum b x y z)) (b.numSB.getD (sbNum b x y z) 0) (sbVox x y z)
        = slotAt b (sbStart b.numSB.toList (sbNum b x y z)) (b.numSB.getD (sbNum b x y z) 0) (sbVox x y z) := rfl
    rw [hsl]
    have hp : slotAt b (sbStart b.numSB.toList (sbNum b x y z)) (b.numSB.getD (sbNum b x y z) 0) (sbVox x y z) < b.sbIdx.size := by omega
    have hj := wf_idx b hw _ hp
    unfold labelOfPos
    exact getD_map_lt _ g _ hj

theorem lastIdx_fold_none (t : Nat) (l : List (Nat × Nat)) (acc : Option Nat) :
    l.foldl (fun acc p => if p.1 = t then some p.2 else acc) acc = none → acc = none ∧ ∀ p ∈ l, p.1 ≠ t := by
  induction l generalizing acc with
  | nil => intro h; exact ⟨h, by simp⟩
  | cons p ps ih =>
    intro h
    simp only [List.foldl_cons] at h
    have := ih _ h
    by_cases hp : p.1 = t
    · simp [hp] at this
    · simp only [hp, ↓reduceIte] at this
      exact ⟨this.1, by intro q hq; rcases List.mem_cons.1 hq with rfl | hq; exact hp; exact this.2 q hq⟩

theorem lastIdx_none (l : List Nat) (t : Nat) (h : lastIdx l t = none) : t ∉ l := by
  intro hm
  have := (lastIdx_fold_none t l.zipIdx none h).2
  obtain ⟨i, hi, rfl⟩ := List.getElem_of_mem hm
  exact this (l[i], i) (by simp [List.mem_zipIdx_iff_getElem?]) rfl

theorem sbList_getD (b : Block) (st : Nat × Nat) (n j : Nat) (hj : j < n) (d : Nat) :
    (sbList b st n).getD j d = b.sbIdx.getD (st.1 + j) 0 := by
  unfold sbList
  simp [List.getD_eq_getElem?_getD, hj]

theorem countP_const (p : Bool) (n : Nat) : (List.range n).countP (fun _ => p) = if p then n else 0 := by
  cases p <;> simp

/-- local well-formedness of one sub-block: every packed value names one of its `n` index positions -/
def SBok (b : Block) (st : Nat × Nat) (n : Nat) : Prop :=
  2 ≤ n → ∀ i, i < 512 → getPacked b.values (st.2 + i * bitsFor n) (bitsFor n) < n

theorem numVoxStep_spec (b : Block) (t : Nat) (st : Nat × Nat) (acc n : Nat) (hok : SBok b st n) :
    numVoxStep b t ⟨st, acc⟩ n = ⟨sbAdvance st n, acc + slotCountSB b t st n⟩ := by
  unfold numVoxStep sbAdvance slotCountSB
  by_cases h0 : n = 0
  · subst h0; simp
  by_cases h1 : n = 1
  · subst h1
    simp only [Nat.one_ne_zero, ↓reduceIte, Nat.lt_irrefl, slotAt, Nat.le_refl]
    rw [countP_const]
    by_cases hh : b.sbIdx.getD st.1 0 = t
    · simp only [hh, ↓reduceIte, beq_self_eq_true]
    · have : (b.sbIdx.getD st.1 0 == t) = false := by simpa using hh
      simp only [hh, this, ↓reduceIte, Bool.false_eq_true]
  have h2 : 2 ≤ n := by omega
  have hgt : n > 1 := by omega
  have hle : ¬ n ≤ 1 := by omega
  simp only [h0, h1, ↓reduceIte, hgt]
  have hpt : ∀ i, i < 512 → b.sbIdx.getD (slotAt b st n i) 0 =
      (sbList b st n).getD (getPacked b.values (st.2 + i * bitsFor n) (bitsFor n)) (t + 1) := by
    intro i hi
    rw [sbList_getD b st n _ (hok h2 i hi)]
    simp only [slotAt, hle, ↓reduceIte]
  cases hl : lastIdx (sbList b st n) t with
  | none =>
    have hnot := lastIdx_none _ _ hl
    have : (List.range 512).countP (fun i => b.sbIdx.getD (slotAt b st n i) 0 == t) = 0 := by
      rw [List.countP_eq_zero]
      intro i hi
      have hi' : i < 512 := List.mem_range.1 hi
      rw [hpt i hi', sbList_getD b st n _ (hok h2 i hi')]
      intro heq
      apply hnot
      have heq' : b.sbIdx.getD (st.1 + getPacked b.values (st.2 + i * bitsFor n) (bitsFor n)) 0 = t := by simpa using heq
      rw [← heq']
      unfold sbList
      exact List.mem_map.2 ⟨_, List.mem_range.2 (hok h2 i hi'), rfl⟩
    rw [this]; simp [Gen.numVoxAdvancesOnMiss]
  | some j =>
    have : countListed b st.2 (bitsFor n) (sbList b st n) t =
        (List.range 512).countP (fun i => b.sbIdx.getD (slotAt b st n i) 0 == t) := by
      unfold countListed
      apply List.countP_congr
      intro i hi
      rw [hpt i (List.mem_range.1 hi)]
    rw [← this]; simp [Gen.numVoxCountsEveryListing]

theorem numVox_fold (b : Block) (t : Nat) (suf : List Nat) (st : Nat × Nat) (acc : Nat)
    (hok : ∀ (pre' : List Nat) (n : Nat) (rest : List Nat), suf = pre' ++ n :: rest → SBok b (pre'.foldl sbAdvance st) n) :
    (suf.foldl (numVoxStep b t) ⟨st, acc⟩).acc = acc + slotCountFrom b t st suf := by
  induction suf generalizing st acc with
  | nil => simp [slotCountFrom]
  | cons n ns ih =>
    have h0 := hok [] n ns rfl
    simp only [List.foldl_nil] at h0
    rw [List.foldl_cons, numVoxStep_spec b t st acc n h0, ih]
    · simp [slotCountFrom]; omega
    · intro pre' m rest he
      have := hok (n :: pre') m rest (by rw [he]; rfl)
      simpa using this

theorem wf_SBok (b : Block) (h : wf b = true) (pre : List Nat) (n : Nat) (rest : List Nat)
    (he : b.numSB.toList = pre ++ n :: rest) : SBok b (pre.foldl sbAdvance (0, 0)) n := by
  intro h2 i hi
  have hk : pre.length < b.numSB.size := by
    have : b.numSB.toList.length = pre.length + (rest.length + 1) := by rw [he]; simp
    simp at this; omega
  have hst : sbStart b.numSB.toList pre.length = pre.foldl sbAdvance (0, 0) := by
    unfold sbStart; rw [he]; simp
  have hn : b.numSB.getD pre.length 0 = n := by
    have : b.numSB.toList[pre.length]? = some n := by rw [he]; simp
    simp [Array.getD_eq_getD_getElem?, ← Array.getElem?_toList, this]
  have := (wf_slot b h pre.length hk i hi).1
  rw [hst, hn] at this
  unfold slotAt at this
  have hle : ¬ n ≤ 1 := by omega
  simp only [hle, ↓reduceIte] at this
  omega

/-- `w` wins against or ties with `p`: more votes, or equal votes and the smaller (or same) label -/
def Beats (w p : Nat × Nat) : Prop := p.2 < w.2 ∨ (p.2 = w.2 ∧ w.1 ≤ p.1)

def better (w p : Nat × Nat) : Nat × Nat :=
  if w.2 < p.2 then p else if w.2 = p.2 ∧ p.1 < w.1 then p else w

theorem pickWinner_eq (m : List (Nat × Nat)) : pickWinner m = m.foldl better (0, 0) := rfl

theorem Beats.trans {a b c : Nat × Nat} (h1 : Beats a b) (h2 : Beats b c) : Beats a c := by
  unfold Beats at *; omega

theorem better_spec (w p : Nat × Nat) : (better w p = w ∨ better w p = p) ∧ Beats (better w p) w ∧ Beats (better w p) p := by
  unfold better Beats
  split
  · refine ⟨Or.inr rfl, ?_, ?_⟩ <;> omega
  · split
    · refine ⟨Or.inr rfl, ?_, ?_⟩ <;> omega
    · refine ⟨Or.inl rfl, ?_, ?_⟩ <;> omega

theorem fold_better (l : List (Nat × Nat)) (w : Nat × Nat) :
    (l.foldl better w = w ∨ l.foldl better w ∈ l) ∧ Beats (l.foldl better w) w ∧ ∀ p ∈ l, Beats (l.foldl better w) p := by
  induction l generalizing w with
  | nil => exact ⟨Or.inl rfl, by unfold Beats; simp, by simp⟩
  | cons q qs ih =>
    obtain ⟨hm, hw, hall⟩ := ih (better w q)
    obtain ⟨hc, bw, bq⟩ := better_spec w q
    simp only [List.foldl_cons]
    refine ⟨?_, hw.trans bw, ?_⟩
    · rcases hm with h | h
      · rcases hc with h' | h'
        · left; rw [h, h']
        · right; rw [h, h']; exact List.mem_cons_self
      · right; exact List.mem_cons_of_mem _ h
    · intro p hp
      rcases List.mem_cons.1 hp with rfl | hp
      · exact hw.trans bq
      · exact hall p hp

def ins (m : List (Nat × Nat)) (l : Nat) : List (Nat × Nat) :=
  if l = 0 then m else
    match m.find? (·.1 == l) with
    | some _ => m.map fun p => if p.1 == l then (p.1, p.2 + 1) else p
    | none => m ++ [(l, 1)]

theorem tally_eq (ls : List Nat) : tally ls = ls.foldl ins [] := rfl

/-- the vote map after seeing `seen`: distinct non-zero keys, each with its number of occurrences, none missing -/
structure TallyInv (m : List (Nat × Nat)) (seen : List Nat) : Prop where
  nodup : (m.map (·.1)).Nodup
  entries : ∀ p ∈ m, p.1 ≠ 0 ∧ p.2 = seen.count p.1 ∧ 1 ≤ p.2
  complete : ∀ l ∈ seen, l ≠ 0 → l ∈ m.map (·.1)

theorem ins_inv (m : List (Nat × Nat)) (seen : List Nat) (x : Nat) (h : TallyInv m seen) :
    TallyInv (ins m x) (seen ++ [x]) := by
  unfold ins
  by_cases hx : x = 0
  · subst hx
    simp only [↓reduceIte]
    refine ⟨h.nodup, ?_, ?_⟩
    · intro p hp
      obtain ⟨a, b, c⟩ := h.entries p hp
      refine ⟨a, ?_, c⟩
      rw [List.count_append, b]; simp [Ne.symm a]
    · intro l hl hl0
      rcases List.mem_append.1 hl with hl | hl
      · exact h.complete l hl hl0
      · simp at hl; omega
  · simp only [hx, ↓reduceIte]
    cases hf : m.find? (·.1 == x) with
    | some q =>
      simp only
      have hkeys : (m.map fun p => if p.1 == x then (p.1, p.2 + 1) else p).map (·.1) = m.map (·.1) := by
        rw [List.map_map]; apply List.map_congr_left; intro p _; simp only [Function.comp]; split <;> rfl
      refine ⟨by rw [hkeys]; exact h.nodup, ?_, ?_⟩
      · intro p hp
        obtain ⟨p0, hp0, rfl⟩ := List.mem_map.1 hp
        obtain ⟨a, b, c⟩ := h.entries p0 hp0
        by_cases he : p0.1 = x
        · simp only [he, beq_self_eq_true, ↓reduceIte]
          refine ⟨hx, ?_, by omega⟩
          rw [List.count_append, ← he, ← b]; simp
        · have : (p0.1 == x) = false := by simpa using he
          simp only [this, Bool.false_eq_true, ↓reduceIte]
          refine ⟨a, ?_, c⟩
          rw [List.count_append, b]; simp [Ne.symm he]
      · intro l hl hl0
        rw [hkeys]
        rcases List.mem_append.1 hl with hl | hl
        · exact h.complete l hl hl0
        · have : l = x := by simpa using hl
          subst this
          have := List.find?_some hf
          have hq := List.mem_of_find?_eq_some hf
          have : q.1 = l := by simpa using this
          rw [← this]; exact List.mem_map_of_mem hq
    | none =>
      simp only
      have hnot : x ∉ m.map (·.1) := by
        intro hm
        obtain ⟨p, hp, hpx⟩ := List.mem_map.1 hm
        have := List.find?_eq_none.1 hf p hp
        simp [hpx] at this
      refine ⟨?_, ?_, ?_⟩
      · rw [List.map_append, List.nodup_append]
        refine ⟨h.nodup, by simp, ?_⟩
        intro a ha b hb
        have : b = x := by simpa using hb
        subst this; intro hab; subst hab; exact hnot ha
      · intro p hp
        rcases List.mem_append.1 hp with hp | hp
        · obtain ⟨a, b, c⟩ := h.entries p hp
          have hne : p.1 ≠ x := fun he => hnot (he ▸ List.mem_map_of_mem hp)
          refine ⟨a, ?_, c⟩
          rw [List.count_append, b]; simp [Ne.symm hne]
        · have : p = (x, 1) := by simpa using hp
          subst this
          refine ⟨hx, ?_, Nat.le_refl _⟩
          have : seen.count x = 0 := by
            rw [List.count_eq_zero]
            intro hm
            exact hnot (h.complete x hm hx)
          simp [List.count_append, this]
      · intro l hl hl0
        rw [List.map_append]
        rcases List.mem_append.1 hl with hl | hl
        · exact List.mem_append_left _ (h.complete l hl hl0)
        · have : l = x := by simpa using hl
          subst this; simp

theorem fold_ins_inv (suf : List Nat) (m : List (Nat × Nat)) (seen : List Nat) (h : TallyInv m seen) :
    TallyInv (suf.foldl ins m) (seen ++ suf) := by
  induction suf generalizing m seen with
  | nil => simpa using h
  | cons x xs ih =>
    have := ih (ins m x) (seen ++ [x]) (ins_inv m seen x h)
    simpa using this

theorem tally_inv (ls : List Nat) : TallyInv (tally ls) ls := by
  have := fold_ins_inv ls [] [] ⟨by simp, by simp, by simp⟩
  simpa [tally_eq] using this

end Dvid.Block
