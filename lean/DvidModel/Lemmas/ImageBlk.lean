import DvidModel.Model.ImageBlk
/-
  Helper lemmas for C17: block membership, the per-axis transfer, row-major indices, folds of byte copies.
-/
namespace Dvid.ImageBlk

/-- voxel coordinate `x` lies in block `b` of a grid with block size `n` -/
def InBlock (n b x : Int) : Prop := b * n ≤ x ∧ x < (b + 1) * n

theorem inBlock_unique {n b b' x : Int} (hn : 0 < n) (h : InBlock n b x) (h' : InBlock n b' x) : b = b' := by
  unfold InBlock at *
  have h1 : b * n < (b' + 1) * n := by omega
  have h2 : b' * n < (b + 1) * n := by omega
  have := Int.lt_of_mul_lt_mul_right h1 (by omega : (0:Int) ≤ n)
  have := Int.lt_of_mul_lt_mul_right h2 (by omega : (0:Int) ≤ n)
  omega

/-- Go's `Point3d.Chunk` (floor division written by case on the sign) finds the block of a coordinate -/
theorem chunk_inBlock {n x : Int} (hn : 0 < n) : InBlock n (Geom.chunk x n) x := by
  unfold Geom.chunk InBlock
  split
  · rename_i hx
    have e : x - n + 1 = -(n - 1 - x) := by omega
    rw [e, Int.neg_tdiv, Int.tdiv_eq_ediv_of_nonneg (by omega : (0:Int) ≤ n - 1 - x)]
    have h1 : (n - 1 - x) / n * n ≤ n - 1 - x := Int.ediv_mul_le _ (by omega)
    have h2 : n - 1 - x < ((n - 1 - x) / n + 1) * n := Int.lt_ediv_add_one_mul_self _ hn
    rw [Int.add_mul, Int.one_mul] at h2
    rw [Int.add_mul, Int.one_mul, Int.neg_mul]
    generalize (n - 1 - x) / n * n = t at *
    omega
  · rename_i hx
    rw [Int.tdiv_eq_ediv_of_nonneg (by omega : (0:Int) ≤ x)]
    have h1 : x / n * n ≤ x := Int.ediv_mul_le _ (by omega)
    have h2 : x < (x / n + 1) * n := Int.lt_ediv_add_one_mul_self _ hn
    exact ⟨h1, h2⟩

/-- **completeness of one axis**: a requested coordinate that lies in block `b` is inside the transferred
    interval, and its offset in the block is the block start plus its distance from the interval start -/
theorem axis_complete {n s m b x : Int} (hx : s ≤ x ∧ x < s + m) (hb : InBlock n b x) :
    (axisXfer n s m b).dataBeg ≤ x - s ∧ x - s ≤ (axisXfer n s m b).dataEnd ∧
    (axisXfer n s m b).blockBeg + (x - s - (axisXfer n s m b).dataBeg) = x - b * n := by
  unfold InBlock at hb
  unfold axisXfer
  simp only [Gen.ibTransformIsIntersection, Gen.ibBlockBoxIsGrid, Bool.and_self, Bool.not_true, Bool.false_eq_true, ↓reduceIte]
  rw [Int.add_mul, Int.one_mul] at hb ⊢
  generalize b * n = B at *
  omega

/-- **soundness of one axis**: every transferred request position lies in the request and in block `b`, at
    the block offset the copy uses -/
theorem axis_sound {n s m b i : Int}
    (hi : (axisXfer n s m b).dataBeg ≤ i ∧ i ≤ (axisXfer n s m b).dataEnd) :
    0 ≤ i ∧ i < m ∧ InBlock n b (s + i) ∧
    (axisXfer n s m b).blockBeg + (i - (axisXfer n s m b).dataBeg) = s + i - b * n := by
  unfold InBlock
  unfold axisXfer at hi ⊢
  simp only [Gen.ibTransformIsIntersection, Gen.ibBlockBoxIsGrid, Bool.and_self, Bool.not_true, Bool.false_eq_true, ↓reduceIte] at hi ⊢
  rw [Int.add_mul, Int.one_mul] at hi ⊢
  generalize b * n = B at *
  omega

theorem mem_irange {a b i : Int} : i ∈ irange a b ↔ a ≤ i ∧ i ≤ b := by
  unfold irange
  simp only [List.mem_map, List.mem_range]
  constructor
  · rintro ⟨k, hk, rfl⟩
    omega
  · intro h
    exact ⟨(i - a).toNat, by omega, by omega⟩

/-- division with remainder is unique: the digits of a mixed-radix index are determined by the index -/
theorem digit_unique {n a a' r r' : Int} (hr : 0 ≤ r ∧ r < n) (hr' : 0 ≤ r' ∧ r' < n)
    (h : a * n + r = a' * n + r') : a = a' ∧ r = r' := by
  have hn : 0 < n := by omega
  have e1 : (a * n + r) % n = r := by
    rw [Int.add_comm, Int.add_mul_emod_self_right]; exact Int.emod_eq_of_lt hr.1 hr.2
  have e2 : (a' * n + r') % n = r' := by
    rw [Int.add_comm, Int.add_mul_emod_self_right]; exact Int.emod_eq_of_lt hr'.1 hr'.2
  have hrr : r = r' := by rw [← e1, ← e2, h]
  subst hrr
  have : a * n = a' * n := by omega
  exact ⟨Int.eq_of_mul_eq_mul_right (by omega) this, rfl⟩

/-- row-major byte index of byte `c` of the voxel at offset `(i,j,k)` in a buffer of `mx × my × …` voxels of
    `bpv` bytes: the closed form of the Go code's `z*dY + y*dX + x*bytesPerVoxel`, `dX = mx*bpv`, `dY = my*dX` -/
def lin (bpv mx my i j k c : Int) : Int := k * (my * (mx * bpv)) + j * (mx * bpv) + i * bpv + c

theorem lin_eq (bpv mx my i j k c : Int) : lin bpv mx my i j k c = ((k * my + j) * mx + i) * bpv + c := by
  unfold lin
  simp only [Int.add_mul, Int.mul_assoc]

/-- the row-major index is injective on in-range coordinates -/
theorem lin_inj {bpv mx my i j k c i' j' k' c' : Int}
    (hc : 0 ≤ c ∧ c < bpv) (hc' : 0 ≤ c' ∧ c' < bpv) (hi : 0 ≤ i ∧ i < mx) (hi' : 0 ≤ i' ∧ i' < mx)
    (hj : 0 ≤ j ∧ j < my) (hj' : 0 ≤ j' ∧ j' < my)
    (h : lin bpv mx my i j k c = lin bpv mx my i' j' k' c') : i = i' ∧ j = j' ∧ k = k' ∧ c = c' := by
  rw [lin_eq, lin_eq] at h
  obtain ⟨h1, hcc⟩ := digit_unique hc hc' h
  obtain ⟨h2, hii⟩ := digit_unique hi hi' h1
  obtain ⟨hkk, hjj⟩ := digit_unique hj hj' h2
  exact ⟨hii, hjj, hkk, hcc⟩

/-- one `copy(dst[d:d+len], src[s:s+len])` on buffers seen as functions of the byte index -/
def copySeg (src : Int → UInt8) (dst : Int → UInt8) (sg : Seg) : Int → UInt8 :=
  fun p => if sg.dataI ≤ p ∧ p < sg.dataI + sg.len then src (sg.blockI + (p - sg.dataI)) else dst p

def Seg.covers (sg : Seg) (p : Int) : Prop := sg.dataI ≤ p ∧ p < sg.dataI + sg.len

/-- reading one block into the request buffer: the row copies in the order the loops make them -/
def readSegs (src : Int → UInt8) (l : List Seg) (dst : Int → UInt8) : Int → UInt8 :=
  l.foldl (fun acc sg => copySeg src acc sg) dst

theorem readSegs_miss (src : Int → UInt8) (l : List Seg) (dst : Int → UInt8) (p : Int)
    (h : ∀ sg ∈ l, ¬ sg.covers p) : readSegs src l dst p = dst p := by
  induction l generalizing dst with
  | nil => rfl
  | cons sg l ih =>
    unfold readSegs at *
    simp only [List.foldl_cons]
    rw [ih _ (fun s hs => h s (List.mem_cons_of_mem _ hs))]
    unfold copySeg
    have := h sg (List.mem_cons_self ..)
    unfold Seg.covers at this
    simp [this]

/-- if every copy that covers byte `p` takes it from a source byte holding `v`, and some copy covers `p`, then
    after all copies — in any order — byte `p` holds `v` -/
theorem readSegs_hit (src : Int → UInt8) (l : List Seg) (dst : Int → UInt8) (p : Int) (v : UInt8)
    (hall : ∀ sg ∈ l, sg.covers p → src (sg.blockI + (p - sg.dataI)) = v)
    (hex : ∃ sg ∈ l, sg.covers p) : readSegs src l dst p = v := by
  induction l generalizing dst with
  | nil => obtain ⟨_, h, _⟩ := hex; cases h
  | cons sg l ih =>
    unfold readSegs at *
    simp only [List.foldl_cons]
    by_cases hl : ∃ s ∈ l, s.covers p
    · exact ih _ (fun s hs => hall s (List.mem_cons_of_mem _ hs)) hl
    · have hmiss : ∀ s ∈ l, ¬ s.covers p := fun s hs hc => hl ⟨s, hs, hc⟩
      have := readSegs_miss src l (copySeg src dst sg) p hmiss
      unfold readSegs at this
      rw [this]
      obtain ⟨s, hs, hc⟩ := hex
      have hsg : s = sg := by
        rcases List.mem_cons.1 hs with h | h
        · exact h
        · exact absurd hc (hmiss s h)
      subst hsg
      unfold copySeg
      have hc' := hc
      unfold Seg.covers at hc'
      simp only [hc', and_self, ↓reduceIte]
      exact hall s (List.mem_cons_self ..) hc

end Dvid.ImageBlk
