import DvidModel.Model.Manager
/-
  Lemmas about the association-list maps of the manager model (`lookup` = last write wins, `setKey`, `delKey`).
-/
namespace Dvid.Manager

theorem find?_ext {α : Type} (p q : α → Bool) (l : List α) (h : ∀ x ∈ l, p x = q x) : l.find? p = l.find? q := by
  induction l with
  | nil => rfl
  | cons a t ih =>
    simp only [List.find?_cons, h a (by simp)]
    rw [ih (fun x hx => h x (by simp [hx]))]

theorem lookup_setKey_eq {α β : Type} [DecidableEq α] (l : List (α × β)) (k : α) (v : β) :
    lookup (setKey l k v) k = some v := by
  simp [lookup, setKey]

theorem lookup_setKey_ne {α β : Type} [DecidableEq α] (l : List (α × β)) (k k' : α) (v : β) (h : k' ≠ k) :
    lookup (setKey l k v) k' = lookup l k' := by
  simp only [lookup, setKey, List.reverse_append, List.reverse_cons, List.reverse_nil, List.nil_append, List.singleton_append]
  rw [List.find?_cons_of_neg (by simpa using fun e => h e.symm)]
  rw [← List.filter_reverse, List.find?_filter]
  congr 1
  apply find?_ext
  intro x _
  by_cases hx : x.1 = k' <;> simp [hx, h]

theorem lookup_delKey_ne {α β : Type} [DecidableEq α] (l : List (α × β)) (k k' : α) (h : k' ≠ k) :
    lookup (delKey l k) k' = lookup l k' := by
  simp only [lookup, delKey]
  rw [← List.filter_reverse, List.find?_filter]
  congr 1
  apply find?_ext
  intro x _
  by_cases hx : x.1 = k' <;> simp [hx, h]

theorem lookup_delKey_eq {α β : Type} [DecidableEq α] (l : List (α × β)) (k : α) :
    lookup (delKey l k) k = none := by
  simp only [lookup, delKey]
  rw [← List.filter_reverse, List.find?_filter]
  simp

end Dvid.Manager
