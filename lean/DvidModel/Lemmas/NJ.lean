import DvidModel.Model.NJ
/- Association-list lemmas for the neuronjson model (C16). -/
namespace Dvid.NJ

theorem get_nil (k : Key) : get [] k = none := rfl

theorem get_cons (p : Key × Val) (ps : Obj) (k : Key) :
    get (p :: ps) k = if p.1 == k then some p.2 else get ps k := by
  unfold get; simp only [List.find?_cons]; cases (p.1 == k) <;> rfl

theorem has_cons (p : Key × Val) (ps : Obj) (k : Key) : has (p :: ps) k = (p.1 == k || has ps k) := by
  unfold has; simp only [List.any_cons]

theorem has_eq_get (o : Obj) (k : Key) : has o k = (get o k).isSome := by
  induction o with
  | nil => rfl
  | cons p ps ih => rw [has_cons, get_cons, ih]; cases (p.1 == k) <;> simp

theorem erase_cons (p : Key × Val) (ps : Obj) (k : Key) :
    erase (p :: ps) k = if p.1 != k then p :: erase ps k else erase ps k := by
  unfold erase; simp only [List.filter_cons]

theorem get_erase_self (o : Obj) (k : Key) : get (erase o k) k = none := by
  induction o with
  | nil => rfl
  | cons p ps ih =>
    rw [erase_cons]
    by_cases hp : p.1 = k
    · have : (p.1 != k) = false := by simp [hp]
      simp only [this, Bool.false_eq_true, ↓reduceIte]; exact ih
    · have h1 : (p.1 != k) = true := by simp [hp]
      have h2 : (p.1 == k) = false := by simp [hp]
      simp only [h1, ↓reduceIte, get_cons, h2, Bool.false_eq_true]; exact ih

theorem get_erase_ne (o : Obj) (k f : Key) (h : f ≠ k) : get (erase o k) f = get o f := by
  induction o with
  | nil => rfl
  | cons p ps ih =>
    rw [erase_cons, get_cons]
    by_cases hp : p.1 = k
    · have h1 : (p.1 != k) = false := by simp [hp]
      have h2 : (p.1 == f) = false := by simp [hp, Ne.symm h]
      simp only [h1, Bool.false_eq_true, ↓reduceIte, h2]; exact ih
    · have h1 : (p.1 != k) = true := by simp [hp]
      simp only [h1, ↓reduceIte, get_cons, ih]

def setMap (o : Obj) (k : Key) (v : Val) : Obj := o.map fun p => if p.1 == k then (k, v) else p

theorem get_setMap_ne (o : Obj) (k f : Key) (v : Val) (h : f ≠ k) : get (setMap o k v) f = get o f := by
  induction o with
  | nil => rfl
  | cons p ps ih =>
    have e : setMap (p :: ps) k v = (if p.1 == k then (k, v) else p) :: setMap ps k v := rfl
    rw [e, get_cons, get_cons, ih]
    by_cases hp : p.1 = k
    · have h1 : (p.1 == k) = true := by simp [hp]
      have h2 : (p.1 == f) = false := by simp [hp, Ne.symm h]
      have h3 : (k == f) = false := by simp [Ne.symm h]
      simp only [h1, ↓reduceIte, h2, h3, Bool.false_eq_true]
    · have h1 : (p.1 == k) = false := by simp [hp]
      simp only [h1, Bool.false_eq_true, ↓reduceIte]

theorem get_setMap_self (o : Obj) (k : Key) (v : Val) (hh : has o k = true) : get (setMap o k v) k = some v := by
  induction o with
  | nil => simp [has] at hh
  | cons p ps ih =>
    have e : setMap (p :: ps) k v = (if p.1 == k then (k, v) else p) :: setMap ps k v := rfl
    rw [e, get_cons]
    by_cases hp : p.1 = k
    · have h1 : (p.1 == k) = true := by simp [hp]
      simp only [h1, ↓reduceIte, beq_self_eq_true]
    · have h1 : (p.1 == k) = false := by simp [hp]
      rw [has_cons, h1, Bool.false_or] at hh
      simp only [h1, Bool.false_eq_true, ↓reduceIte]; exact ih hh

theorem get_append (a b : Obj) (k : Key) : get (a ++ b) k = (get a k).or (get b k) := by
  induction a with
  | nil => simp [get_nil]
  | cons p ps ih => rw [List.cons_append, get_cons, get_cons, ih]; cases (p.1 == k) <;> simp

theorem set_eq (o : Obj) (k : Key) (v : Val) : set o k v = if has o k then setMap o k v else o ++ [(k, v)] := rfl

theorem get_set_ne (o : Obj) (k f : Key) (v : Val) (h : f ≠ k) : get (set o k v) f = get o f := by
  rw [set_eq]
  split
  · exact get_setMap_ne o k f v h
  · rw [get_append, get_cons, get_nil]
    have : (k == f) = false := by simp [Ne.symm h]
    simp [this]

theorem get_set_self (o : Obj) (k : Key) (v : Val) : get (set o k v) k = some v := by
  rw [set_eq]
  split
  · rename_i hh; exact get_setMap_self o k v hh
  · rename_i hh
    have hn : get o k = none := by
      have := has_eq_get o k; cases hg : get o k <;> simp_all
    rw [get_append, hn, get_cons]; simp

end Dvid.NJ
