import DvidModel.Model.Key
import DvidModel.Lemmas.Bytes
/- Unfolding of the generated layouts into explicit concatenations. -/
namespace Dvid.Key
open Dvid

abbrev U32 (n : Nat) : Prop := n < 4294967296

theorem dataKey_eq (i v c : Nat) (tk : Bytes) (tomb : Bool) :
    dataKey i v c tk tomb =
      [1] ++ be32 i ++ tk ++ be32 v ++ be32 c ++ [if tomb then 79 else 3] := by
  cases tomb <;>
    simp [dataKey, constructDataKey, tombstoneKey, KF.build, KF.bytes,
      Gen.layoutConstructDataKey, Gen.layoutTombstoneKey] <;> rfl

theorem minVersionKey_eq (i : Nat) (tk : Bytes) :
    minVersionKey i tk = [1] ++ be32 i ++ tk ++ be32 0 ++ be32 0 ++ [0] := by
  simp [minVersionKey, KF.build, KF.bytes, Gen.layoutMinVersionKey]

theorem maxVersionKey_eq (i : Nat) (tk : Bytes) :
    maxVersionKey i tk = [1] ++ be32 i ++ tk ++ be32 4294967295 ++ be32 4294967295 ++ [255] := by
  simp [maxVersionKey, KF.build, KF.bytes, Gen.layoutMaxVersionKey]

theorem unversionedKeyPrefix_eq (i : Nat) (tk : Bytes) :
    unversionedKeyPrefix i tk = [1] ++ be32 i ++ tk := by
  simp [unversionedKeyPrefix, KF.build, KF.bytes, Gen.layoutUnversionedKeyPrefix]

theorem instanceRangeMin_eq (i : Nat) : instanceRangeMin i = [1] ++ be32 i := by
  simp [instanceRangeMin, KF.build, KF.bytes, Gen.layoutInstanceRangeMin]

theorem instanceRangeMax_eq (i : Nat) : instanceRangeMax i = [1] ++ be32 (u32succ i) := by
  simp [instanceRangeMax, KF.build, KF.bytes, Gen.layoutInstanceRangeMax]

theorem keyRange_eq_instanceRange (i : Nat) :
    keyRangeMin i = instanceRangeMin i ∧ keyRangeMax i = instanceRangeMax i := by
  constructor <;> rfl

theorem dataKey_length (i v c : Nat) (tk : Bytes) (tomb : Bool) :
    (dataKey i v c tk tomb).length = tk.length + 14 := by
  rw [dataKey_eq]; simp; omega

end Dvid.Key

namespace Dvid.Key
open Dvid

/-- slicing a key `P ++ tk ++ T` with a 5-byte head and a 9-byte trailer -/
theorem slice_mid (P tk T : Bytes) (hP : P.length = 5) (hT : T.length = 9) :
    ((P ++ tk ++ T).take ((P ++ tk ++ T).length - 9)).drop 5 = tk := by
  have hl : (P ++ tk ++ T).length - 9 = (P ++ tk).length := by simp; omega
  rw [hl, List.take_left' rfl]
  exact List.drop_left' hP

theorem slice_trailer (P tk T : Bytes) (hT : T.length = 9) :
    (P ++ tk ++ T).drop ((P ++ tk ++ T).length - 9) = T := by
  have hl : (P ++ tk ++ T).length - 9 = (P ++ tk).length := by simp; omega
  rw [hl]; exact List.drop_left' rfl

theorem slice_trailer4 (P tk A B : Bytes) (hA : A.length = 4) (hB : B.length = 5) :
    (P ++ tk ++ (A ++ B)).drop ((P ++ tk ++ (A ++ B)).length - 9 + 4) = B := by
  have hl : (P ++ tk ++ (A ++ B)).length - 9 + 4 = (P ++ tk ++ A).length := by simp; omega
  rw [hl, ← List.append_assoc]; exact List.drop_left' rfl

theorem dataKey_parts (i v c : Nat) (tk : Bytes) (tomb : Bool) :
    dataKey i v c tk tomb = ([1] ++ be32 i) ++ tk ++ (be32 v ++ (be32 c ++ [if tomb then 79 else 3])) := by
  rw [dataKey_eq]; simp

end Dvid.Key
