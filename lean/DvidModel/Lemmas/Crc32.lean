import DvidModel.Model.Crc32
/- CRC-32 injectivity facts: the per-byte register update is a bijection of the register for a fixed
   byte and injective in the byte for a fixed register. -/
namespace Dvid.Crc32

theorem xor_left_cancel {a x y : UInt8} (h : a ^^^ x = a ^^^ y) : x = y := by
  have : a ^^^ (a ^^^ x) = a ^^^ (a ^^^ y) := by rw [h]
  simpa [← UInt8.xor_assoc] using this

theorem xor_right_cancel {a x y : UInt8} (h : x ^^^ a = y ^^^ a) : x = y := by
  rw [UInt8.xor_comm x a, UInt8.xor_comm y a] at h
  exact xor_left_cancel h

/-- The most significant bytes of the 256 table entries are pairwise distinct (a finite table: the whole
    table is checked by kernel evaluation). -/
theorem top_distinct : ∀ i : Fin 256, ∀ j : Fin 256, i ≠ j →
    (entry i.val) / 16777216 ≠ (entry j.val) / 16777216 := by
  decide +kernel

theorem entry_lt : ∀ i : Fin 256, entry i.val < 4294967296 := by
  decide +kernel

theorem table_getD (i : UInt8) : table.getD i.toNat 0 = entry i.toNat := by
  have h : i.toNat < 256 := i.toNat_lt
  simp [table, Array.getD, h]

theorem T_b3_inj {i j : UInt8} (h : (T i).b3 = (T j).b3) : i = j := by
  apply Classical.byContradiction
  intro hne
  have hi : i.toNat < 256 := i.toNat_lt
  have hj : j.toNat < 256 := j.toNat_lt
  have hne' : (⟨i.toNat, hi⟩ : Fin 256) ≠ ⟨j.toNat, hj⟩ := by
    intro hh; apply hne; exact UInt8.toNat_inj.mp (Fin.mk.inj hh)
  have hd := top_distinct ⟨i.toNat, hi⟩ ⟨j.toNat, hj⟩ hne'
  have li := entry_lt ⟨i.toNat, hi⟩
  have lj := entry_lt ⟨j.toNat, hj⟩
  simp only [T, W.ofNat, table_getD] at h
  have := congrArg UInt8.toNat h
  simp only [UInt8.toNat_ofNat'] at this
  simp only at hd li lj
  omega

/-- fixed byte: the update is injective in the register -/
theorem upd_injective_state {c d : W} {b : UInt8} (h : upd c b = upd d b) : c = d := by
  cases c with | mk c3 c2 c1 c0 =>
  cases d with | mk d3 d2 d1 d0 =>
  simp only [upd, W.mk.injEq] at h
  obtain ⟨h3, h2, h1, h0⟩ := h
  have hidx : c0 ^^^ b = d0 ^^^ b := T_b3_inj h3
  have e0 : c0 = d0 := xor_right_cancel hidx
  rw [hidx] at h2 h1 h0
  have e3 := xor_left_cancel h2
  have e2 := xor_left_cancel h1
  have e1 := xor_left_cancel h0
  simp [e0, e1, e2, e3]

/-- fixed register: the update is injective in the byte -/
theorem upd_injective_byte {c : W} {a b : UInt8} (h : upd c a = upd c b) : a = b := by
  cases c with | mk c3 c2 c1 c0 =>
  simp only [upd, W.mk.injEq] at h
  exact xor_left_cancel (T_b3_inj h.1)

theorem foldl_upd_injective {c d : W} (bs : Bytes) (h : bs.foldl upd c = bs.foldl upd d) : c = d := by
  induction bs generalizing c d with
  | nil => simpa using h
  | cons b bs ih => exact upd_injective_state (ih h)

theorem fin_injective {c d : W} (h : fin c = fin d) : c = d := by
  cases c; cases d
  simp only [fin, W.mk.injEq] at h
  obtain ⟨h3, h2, h1, h0⟩ := h
  simp [xor_right_cancel h3, xor_right_cancel h2, xor_right_cancel h1, xor_right_cancel h0]

theorem le_injective {c d : W} (h : c.le = d.le) : c = d := by
  cases c; cases d; simp [W.le] at h; simp [h]

/-- Two payloads that differ in exactly one byte position have different CRC-32. -/
theorem crc32_single_byte (p s : Bytes) (a b : UInt8) (hab : a ≠ b) :
    crc32 (p ++ a :: s) ≠ crc32 (p ++ b :: s) := by
  intro h
  have h1 := fin_injective h
  simp only [List.foldl_append, List.foldl_cons] at h1
  exact hab (upd_injective_byte (foldl_upd_injective s h1))

end Dvid.Crc32
