import DvidModel.Spec.Visible
/- Lemmas about the resolver mirror: congruence (locality), soundness, fuel irrelevance. -/
namespace Dvid.Resolve

/-- reflexive-transitive ancestry -/
inductive Anc (d : Dag) : Nat → Nat → Prop
  | refl (v : Nat) : Anc d v v
  | step {v p a : Nat} : p ∈ d.parents v → Anc d p a → Anc d v a

theorem Anc.trans {d : Dag} {a b c : Nat} (h1 : Anc d a b) (h2 : Anc d b c) : Anc d a c := by
  induction h1 with
  | refl => exact h2
  | step hp _ ih => exact Anc.step hp (ih h2)

theorem foldl_congr_mem {α β : Type} (f g : β → α → β) (l : List α) (b : β)
    (h : ∀ acc, ∀ a ∈ l, f acc a = g acc a) : l.foldl f b = l.foldl g b := by
  induction l generalizing b with
  | nil => rfl
  | cons x xs ih =>
    simp only [List.foldl_cons]
    rw [h b x (by simp)]
    exact ih _ (fun acc a ha => h acc a (by simp [ha]))

/-- `invalidateAncestors` only looks at entries of ancestors -/
theorem invalidate_congr (d : Dag) (es es' : Entries) (fuel : Nat) (m : Marks) (v : Nat)
    (h : ∀ a, Anc d v a → es a = es' a) : invalidate d es fuel m v = invalidate d es' fuel m v := by
  induction fuel generalizing m v with
  | zero => rfl
  | succ n ih =>
    simp only [invalidate]
    apply foldl_congr_mem
    intro acc p hp
    have hpa : ∀ a, Anc d p a → es a = es' a := fun a ha => h a (Anc.step hp ha)
    rw [← h p (Anc.step hp (Anc.refl p))]
    cases es p with
    | none => exact ih acc p hpa
    | some e =>
      simp only
      split
      · rfl
      · exact ih _ p hpa

/-- **Locality.**  The result of `findMatch` at `v` (and the marks it leaves) depends only on the entries
    stored at `v` and its ancestors: entries of siblings, descendants, other branches or other repos —
    anything that is not an ancestor of `v` — cannot change it.  For every fuel, every incoming mark set and
    every post-loop decision function. -/
theorem findMatchWith_congr (pick : List (Nat × Nat) → Marks → Res) (d : Dag) (es es' : Entries)
    (fuel : Nat) (m : Marks) (v : Nat) (h : ∀ a, Anc d v a → es a = es' a) :
    findMatchWith pick d es fuel m v = findMatchWith pick d es' fuel m v := by
  induction fuel generalizing m v with
  | zero => rfl
  | succ n ih =>
    simp only [findMatchWith]
    rw [← h v (Anc.refl v)]
    cases hv : es v with
    | some e =>
      simp only
      rw [invalidate_congr d es es' n m v h]
    | none =>
      simp only
      split
      · rfl
      · rename_i p hp
        exact ih m p (fun a ha => h a (Anc.step (by rw [hp]; simp) ha))
      · have hloop : mergeLoop (findMatchWith pick d es n) (d.parents v) m =
            mergeLoop (findMatchWith pick d es' n) (d.parents v) m := by
          unfold mergeLoop
          apply foldl_congr_mem
          intro acc p hp
          unfold mergeStep
          rw [ih acc.2 p (fun a ha => h a (Anc.step hp ha))]
        rw [hloop]

end Dvid.Resolve

namespace Dvid.Resolve

/-- a property of every match collected by the parent loop -/
theorem foldl_mergeStep_inv (fm : Marks → Nat → Res × Marks) (P : Nat × Nat → Prop) (ps : List Nat)
    (h : ∀ m p a x m2, p ∈ ps → fm m p = (.found a x, m2) → P (a, x)) (acc : Acc)
    (hacc : ∀ fs, acc.1 = some fs → ∀ q ∈ fs, P q) :
    ∀ fs, (ps.foldl (mergeStep fm) acc).1 = some fs → ∀ q ∈ fs, P q := by
  induction ps generalizing acc with
  | nil => simpa using hacc
  | cons p ps ih =>
    simp only [List.foldl_cons]
    apply ih (fun m p' a x m2 hp' => h m p' a x m2 (by simp [hp']))
    intro fs hfs q hq
    unfold mergeStep at hfs
    cases hacc1 : acc.1 with
    | none => rw [hacc1] at hfs; simp only at hfs; rw [hacc1] at hfs; cases hfs
    | some fs0 =>
      rw [hacc1] at hfs
      simp only at hfs
      cases hfm : fm acc.2 p with
      | mk r m2 =>
        rw [hfm] at hfs
        cases r with
        | none => simp only at hfs; cases hfs; exact hacc _ hacc1 q hq
        | err => simp only at hfs; cases hfs
        | found a x =>
          simp only at hfs
          cases hfs
          rcases List.mem_append.mp hq with hq | hq
          · exact hacc _ hacc1 q hq
          · simp only [List.mem_singleton] at hq
            subst hq
            exact h acc.2 p a x m2 (by simp) hfm

theorem decide_sound {fs : List (Nat × Nat)} {m : Marks} {a x : Nat} (h : decide fs m = .found a x) : (a, x) ∈ fs := by
  unfold decide at h
  simp only at h
  split at h
  · cases h
  · split at h
    · rename_i v' x' hl
      cases h
      exact List.mem_of_getLast? hl
    · cases h
  · cases h

theorem decideSurvivor_sound {fs : List (Nat × Nat)} {m : Marks} {a x : Nat} (h : decideSurvivor fs m = .found a x) :
    (a, x) ∈ fs := by
  unfold decideSurvivor at h
  simp only at h
  split at h
  · cases h
  · split at h
    · rename_i v' x' hl
      cases h
      exact (List.mem_filter.mp (List.mem_of_find?_eq_some hl)).1
    · cases h
  · cases h

theorem pickCur_sound {fs : List (Nat × Nat)} {m : Marks} {a x : Nat} (h : pickCur fs m = .found a x) : (a, x) ∈ fs := by
  unfold pickCur at h
  split at h
  · exact decideSurvivor_sound h
  · exact decide_sound h

/-- **Soundness.**  Whatever `findMatch` returns was really written: the returned `(a, x)` is a value entry
    stored at `a`, and `a` is `v` or an ancestor of `v`.  A read never invents a value and never takes one
    from a sibling, a descendant, another branch or another repo. -/
theorem findMatchWith_sound (pick : List (Nat × Nat) → Marks → Res)
    (hpick : ∀ fs m a x, pick fs m = .found a x → (a, x) ∈ fs)
    (d : Dag) (es : Entries) (fuel : Nat) (m : Marks) (v a x : Nat) (m' : Marks)
    (h : findMatchWith pick d es fuel m v = (.found a x, m')) : es a = some (.val x) ∧ Anc d v a := by
  induction fuel generalizing m v m' a x with
  | zero => simp [findMatchWith] at h
  | succ n ih =>
    simp only [findMatchWith] at h
    cases hv : es v with
    | some e =>
      rw [hv] at h
      simp only at h
      split at h
      · cases h
      · cases e with
        | tomb => simp at h
        | val y =>
          simp only [Prod.mk.injEq, Res.found.injEq] at h
          obtain ⟨⟨rfl, rfl⟩, _⟩ := h
          exact ⟨hv, Anc.refl _⟩
    | none =>
      rw [hv] at h
      simp only at h
      split at h
      · cases h
      · rename_i p hp
        have := ih m p a x m' h
        exact ⟨this.1, Anc.step (by rw [hp]; simp) this.2⟩
      · split at h
        · cases h
        · rename_i fs hfs
          simp only [Prod.mk.injEq] at h
          have hmem := hpick _ _ _ _ h.1
          have hinv := foldl_mergeStep_inv (findMatchWith pick d es n)
            (fun q => es q.1 = some (.val q.2) ∧ Anc d v q.1) (d.parents v)
            (fun m0 p a0 x0 m2 hp hf => by
              have := ih m0 p a0 x0 m2 hf
              exact ⟨this.1, Anc.step hp this.2⟩)
            (some [], m) (by intro fs0 h0; cases h0; simp)
          exact hinv fs hfs (a, x) hmem

end Dvid.Resolve

namespace Dvid.Resolve

theorem parents_zero (d : Dag) (hwf : d.WF) : d.parents 0 = [] := by
  apply List.eq_nil_iff_forall_not_mem.mpr
  intro p hp
  have := hwf 0 p hp
  omega

theorem invalidate_zero (d : Dag) (hwf : d.WF) (es : Entries) (f : Nat) (m : Marks) : invalidate d es f m 0 = m := by
  cases f with
  | zero => rfl
  | succ k => simp [invalidate, parents_zero d hwf]

/-- With parents smaller than children, any fuel of at least `v` gives the same `invalidateAncestors`. -/
theorem invalidate_fuel (d : Dag) (hwf : d.WF) (es : Entries) (f1 f2 : Nat) (m : Marks) (v : Nat)
    (h1 : v ≤ f1) (h2 : v ≤ f2) : invalidate d es f1 m v = invalidate d es f2 m v := by
  induction f1 generalizing f2 m v with
  | zero =>
    have : v = 0 := by omega
    subst this
    rw [invalidate_zero d hwf, invalidate_zero d hwf]
  | succ n ih =>
    cases f2 with
    | zero =>
      have : v = 0 := by omega
      subst this
      rw [invalidate_zero d hwf, invalidate_zero d hwf]
    | succ k =>
      simp only [invalidate]
      apply foldl_congr_mem
      intro acc p hp
      have hpv := hwf v p hp
      rw [ih k acc p (by omega) (by omega), ih k (p :: acc) p (by omega) (by omega)]

/-- **Fuel is irrelevant** (so `read`, which uses fuel `v+1`, is the function the Go recursion computes,
    and an `.err` result never comes from running out of fuel). -/
theorem findMatchWith_fuel (pick : List (Nat × Nat) → Marks → Res) (d : Dag) (hwf : d.WF) (es : Entries)
    (f1 f2 : Nat) (m : Marks) (v : Nat) (h1 : v < f1) (h2 : v < f2) :
    findMatchWith pick d es f1 m v = findMatchWith pick d es f2 m v := by
  induction f1 generalizing f2 m v with
  | zero => omega
  | succ n ih =>
    cases f2 with
    | zero => omega
    | succ k =>
      simp only [findMatchWith]
      cases hv : es v with
      | some e =>
        simp only
        rw [invalidate_fuel d hwf es n k m v (by omega) (by omega)]
      | none =>
        simp only
        split
        · rfl
        · rename_i p hp
          have hpv := hwf v p (by rw [hp]; simp)
          exact ih k m p (by omega) (by omega)
        · have hloop : mergeLoop (findMatchWith pick d es n) (d.parents v) m =
              mergeLoop (findMatchWith pick d es k) (d.parents v) m := by
            unfold mergeLoop
            apply foldl_congr_mem
            intro acc p hp
            have hpv := hwf v p hp
            unfold mergeStep
            rw [ih k acc.2 p (by omega) (by omega)]
          rw [hloop]

/-- nearest entry along a chain of single parents -/
def nearest (d : Dag) (es : Entries) : Nat → Nat → Res
  | 0, _ => .err
  | fuel + 1, v =>
    match es v with
    | some (.val x) => .found v x
    | some .tomb => .none
    | none =>
      match d.parents v with
      | [p] => nearest d es fuel p
      | _ => .none

/-- every node reachable from `v` has at most one parent (no merge in the ancestry) -/
def Linear (d : Dag) (v : Nat) : Prop := ∀ a, Anc d v a → (d.parents a).length ≤ 1

theorem findMatchWith_linear (pick : List (Nat × Nat) → Marks → Res) (d : Dag) (es : Entries)
    (fuel : Nat) (v : Nat) (hl : Linear d v) :
    (findMatchWith pick d es fuel [] v).1 = nearest d es fuel v := by
  induction fuel generalizing v with
  | zero => rfl
  | succ n ih =>
    simp only [findMatchWith, nearest]
    cases hv : es v with
    | some e => cases e <;> simp
    | none =>
      simp only
      have hlen := hl v (Anc.refl v)
      split
      · rename_i h0; simp [h0]
      · rename_i p hp
        simp only [hp]
        exact ih p (fun a ha => hl a (Anc.step (by rw [hp]; simp) ha))
      · rename_i ps h0 h1
        exfalso
        match hps : d.parents v with
        | [] => exact h0 hps
        | [p] => exact h1 p hps
        | _ :: _ :: _ => rw [hps] at hlen; simp at hlen

end Dvid.Resolve
