import DvidModel.Lemmas.NJ
namespace Dvid.NJ

/-- a step that only ever `set`s or `erase`s keys other than `f` leaves `get · f` alone -/
theorem dropNull_get_plain (fu ft : List (String × String)) (user time : String) (st : Obj × Option Obj) (d f : Key)
    (hf : f.kind = .plain) :
    get (dropNull fu ft user time st d).1 f = if d = f then none else get st.1 f := by
  unfold dropNull
  have hu : f ≠ userOf d := by intro h; rw [h] at hf; simp [userOf] at hf
  have ht : f ≠ timeOf d := by intro h; rw [h] at hf; simp [timeOf] at hf
  by_cases hd : d = f
  · subst hd
    simp only [↓reduceIte]
    split
    · split <;> split <;> simp only [get_set_ne _ _ _ _ ht, get_set_ne _ _ _ _ hu, get_erase_self]
    · exact get_erase_self _ _
  · simp only [hd, ↓reduceIte]
    have hne : f ≠ d := fun h => hd h.symm
    split
    · split <;> split <;> simp only [get_set_ne _ _ _ _ ht, get_set_ne _ _ _ _ hu, get_erase_ne _ _ _ hne]
    · exact get_erase_ne _ _ _ hne

theorem dropNull_orig (fu ft : List (String × String)) (user time : String) (st : Obj × Option Obj) (d : Key) :
    (dropNull fu ft user time st d).2 = st.2.map (erase · d) := rfl

theorem fold_dropNull_get_plain (fu ft : List (String × String)) (user time : String) (ds : List Key)
    (st : Obj × Option Obj) (f : Key) (hf : f.kind = .plain) :
    get (ds.foldl (dropNull fu ft user time) st).1 f = if f ∈ ds then none else get st.1 f := by
  induction ds generalizing st with
  | nil => simp
  | cons d ds ih =>
    rw [List.foldl_cons, ih, dropNull_get_plain _ _ _ _ _ _ _ hf]
    by_cases h1 : f ∈ ds
    · simp [h1]
    · by_cases h2 : d = f
      · simp [h2]
      · have : f ≠ d := fun h => h2 h.symm
        simp [h1, h2, this]

theorem fold_dropNull_orig_get (fu ft : List (String × String)) (user time : String) (ds : List Key)
    (nw : Obj) (og : Obj) (f : Key) :
    ∃ og', (ds.foldl (dropNull fu ft user time) (nw, some og)).2 = some og' ∧
      get og' f = if f ∈ ds then none else get og f := by
  induction ds generalizing nw og with
  | nil => exact ⟨og, rfl, by simp⟩
  | cons d ds ih =>
    rw [List.foldl_cons]
    have e : dropNull fu ft user time (nw, some og) d = ((dropNull fu ft user time (nw, some og) d).1, some (erase og d)) := rfl
    rw [e]
    obtain ⟨og', h1, h2⟩ := ih (dropNull fu ft user time (nw, some og) d).1 (erase og d)
    refine ⟨og', h1, ?_⟩
    rw [h2]
    by_cases hd : f = d
    · subst hd; simp [get_erase_self]
    · rw [get_erase_ne _ _ _ hd]; simp [hd]

theorem fold_dropNull_orig_none (fu ft : List (String × String)) (user time : String) (ds : List Key) (nw : Obj) :
    (ds.foldl (dropNull fu ft user time) (nw, none)).2 = none := by
  induction ds generalizing nw with
  | nil => rfl
  | cons d ds ih => rw [List.foldl_cons]; exact ih _

/-- stamping only writes stamp keys -/
theorem stamp_get_plain (user time : String) (deleted newlySet : List Key) (nw : Obj) (g f : Key) (hf : f.kind = .plain) :
    get (stamp user time deleted newlySet nw g) f = get nw f := by
  unfold stamp
  have hu : f ≠ userOf g := by intro h; rw [h] at hf; simp [userOf] at hf
  have ht : f ≠ timeOf g := by intro h; rw [h] at hf; simp [timeOf] at hf
  split; · rfl
  split; · rfl
  split; · rfl
  split <;> split <;> simp only [get_set_ne _ _ _ _ ht, get_set_ne _ _ _ _ hu]

theorem fold_stamp_get_plain (user time : String) (deleted newlySet : List Key) (l : List Key) (nw : Obj) (f : Key)
    (hf : f.kind = .plain) : get (l.foldl (stamp user time deleted newlySet) nw) f = get nw f := by
  induction l generalizing nw with
  | nil => rfl
  | cons g gs ih => rw [List.foldl_cons, ih, stamp_get_plain _ _ _ _ _ _ _ hf]

theorem keepStamps_get_plain (user time : String) (deleted : List Key) (og nw : Obj) (g f : Key) (hf : f.kind = .plain) :
    get (keepStamps user time deleted og nw g) f = get nw f := by
  unfold keepStamps
  have hu : f ≠ userOf g := by intro h; rw [h] at hf; simp [userOf] at hf
  have ht : f ≠ timeOf g := by intro h; rw [h] at hf; simp [timeOf] at hf
  split; · rfl
  split; · rfl
  split <;> (dsimp only; split) <;> simp only [get_set_ne _ _ _ _ ht, get_set_ne _ _ _ _ hu]

theorem fold_keepStamps_get_plain (user time : String) (deleted : List Key) (og : Obj) (l : List Key) (nw : Obj) (f : Key)
    (hf : f.kind = .plain) : get (l.foldl (keepStamps user time deleted og) nw) f = get nw f := by
  induction l generalizing nw with
  | nil => rfl
  | cons g gs ih => rw [List.foldl_cons, ih, keepStamps_get_plain _ _ _ _ _ _ _ hf]

/-- carry-forward: what a key reads after the loop over the original's entries -/
theorem carry_get (cond : List Key) (st : Obj × List Key) (p : Key × Val) (f : Key) (hne : f ≠ p.1) :
    get (carry cond st p).1 f = get st.1 f := by
  unfold carry
  split
  · exact get_set_ne _ _ _ _ hne
  · split
    · exact get_set_ne _ _ _ _ hne
    · rfl

theorem fold_carry_get_absent (cond : List Key) (og : Obj) (st : Obj × List Key) (f : Key) (hf : get og f = none) :
    get (og.foldl (carry cond) st).1 f = get st.1 f := by
  induction og generalizing st with
  | nil => rfl
  | cons p ps ih =>
    rw [get_cons] at hf
    by_cases hp : p.1 = f
    · simp [hp] at hf
    · have h1 : (p.1 == f) = false := by simp [hp]
      simp only [h1, Bool.false_eq_true, ↓reduceIte] at hf
      rw [List.foldl_cons, ih _ hf, carry_get _ _ _ _ (fun h => hp h.symm)]

/-- an original field the request does not mention is carried over unchanged -/
theorem fold_carry_get_unmentioned (cond : List Key) (og : Obj) (st : Obj × List Key) (f : Key) (v : Val)
    (hog : get og f = some v) (hnew : get st.1 f = none) (hnd : (keys og).Nodup) :
    get (og.foldl (carry cond) st).1 f = some v := by
  induction og generalizing st with
  | nil => simp [get_nil] at hog
  | cons p ps ih =>
    rw [List.foldl_cons]
    have hnd' : (keys ps).Nodup := by
      have : keys (p :: ps) = p.1 :: keys ps := rfl
      rw [this] at hnd; exact (List.nodup_cons.1 hnd).2
    rw [get_cons] at hog
    by_cases hp : p.1 = f
    · have h1 : (p.1 == f) = true := by simp [hp]
      simp only [h1, ↓reduceIte, Option.some.injEq] at hog
      -- f is set here, and does not occur later
      have hlater : get ps f = none := by
        have : keys (p :: ps) = p.1 :: keys ps := rfl
        rw [this] at hnd
        have hnot := (List.nodup_cons.1 hnd).1
        cases hg : get ps f with
        | none => rfl
        | some w =>
          exfalso; apply hnot
          unfold get at hg
          cases hfind : List.find? (fun x => x.1 == f) ps with
          | none => simp [hfind] at hg
          | some q =>
            have hq := List.mem_of_find?_eq_some hfind
            have hqf : q.1 = f := by simpa using List.find?_some hfind
            rw [hp, ← hqf]; exact List.mem_map_of_mem hq
      rw [fold_carry_get_absent _ _ _ _ hlater]
      unfold carry
      have hhas : has st.1 p.1 = false := by rw [has_eq_get, hp, hnew]; rfl
      simp only [hhas, Bool.not_false, ↓reduceIte]
      rw [hp, get_set_self, hog]
    · have h1 : (p.1 == f) = false := by simp [hp]
      simp only [h1, Bool.false_eq_true, ↓reduceIte] at hog
      apply ih _ hog _ hnd'
      rw [carry_get _ _ _ _ (fun h => hp h.symm)]; exact hnew


theorem dropNull_get_far (fu ft : List (String × String)) (user time : String) (st : Obj × Option Obj) (d k : Key)
    (h1 : k ≠ d) (h2 : k ≠ userOf d) (h3 : k ≠ timeOf d) :
    get (dropNull fu ft user time st d).1 k = get st.1 k := by
  unfold dropNull
  dsimp only
  split
  · split <;> split <;> simp only [get_set_ne _ _ _ _ h3, get_set_ne _ _ _ _ h2, get_erase_ne _ _ _ h1]
  · exact get_erase_ne _ _ _ h1

theorem fold_dropNull_get_far (fu ft : List (String × String)) (user time : String) (ds : List Key)
    (st : Obj × Option Obj) (k : Key) (h : ∀ d ∈ ds, d.root ≠ k.root) :
    get (ds.foldl (dropNull fu ft user time) st).1 k = get st.1 k := by
  induction ds generalizing st with
  | nil => rfl
  | cons d ds ih =>
    rw [List.foldl_cons, ih _ (fun x hx => h x (List.mem_cons_of_mem _ hx))]
    have hd := h d List.mem_cons_self
    apply dropNull_get_far
    · intro e; apply hd; rw [e]
    · intro e; apply hd; rw [e]; rfl
    · intro e; apply hd; rw [e]; rfl

theorem stamp_get_other (user time : String) (deleted newlySet : List Key) (nw : Obj) (g k : Key)
    (h : isMeta g = true ∨ (k ≠ userOf g ∧ k ≠ timeOf g)) :
    get (stamp user time deleted newlySet nw g) k = get nw k := by
  unfold stamp
  split; · rfl
  split; · rfl
  split; · rfl
  rename_i hm
  rcases h with h | ⟨hu, ht⟩
  · exact absurd h hm
  · split <;> split <;> simp only [get_set_ne _ _ _ _ ht, get_set_ne _ _ _ _ hu]

theorem fold_stamp_get_other (user time : String) (deleted newlySet : List Key) (l : List Key) (nw : Obj) (k : Key)
    (h : ∀ g ∈ l, isMeta g = true ∨ (k ≠ userOf g ∧ k ≠ timeOf g)) :
    get (l.foldl (stamp user time deleted newlySet) nw) k = get nw k := by
  induction l generalizing nw with
  | nil => rfl
  | cons g gs ih =>
    rw [List.foldl_cons, ih _ (fun x hx => h x (List.mem_cons_of_mem _ hx)), stamp_get_other _ _ _ _ _ _ _ (h g List.mem_cons_self)]

theorem carry_newly_subset (cond : List Key) (st : Obj × List Key) (p : Key × Val) (x : Key)
    (h : x ∈ (carry cond st p).2) : x ∈ st.2 := by
  unfold carry at h
  split at h
  · exact h
  · split at h
    · exact (List.mem_filter.1 h).1
    · exact h

theorem fold_carry_newly_subset (cond : List Key) (og : Obj) (st : Obj × List Key) (x : Key)
    (h : x ∈ (og.foldl (carry cond) st).2) : x ∈ st.2 := by
  induction og generalizing st with
  | nil => exact h
  | cons p ps ih => rw [List.foldl_cons] at h; exact carry_newly_subset _ _ _ _ (ih _ h)

/-- after the carry loop an original key the request does not hold reads what the original reads -/
theorem fold_carry_get_from_orig (cond : List Key) (og : Obj) (st : Obj × List Key) (k : Key)
    (hnew : get st.1 k = none) (hnd : (keys og).Nodup) :
    get (og.foldl (carry cond) st).1 k = get og k := by
  cases hg : get og k with
  | none => rw [fold_carry_get_absent _ _ _ _ hg]; exact hnew
  | some t => exact fold_carry_get_unmentioned cond og st k t hg hnew hnd


theorem keys_erase_nodup (o : Obj) (d : Key) (h : (keys o).Nodup) : (keys (erase o d)).Nodup := by
  unfold keys erase at *
  induction o with
  | nil => simp
  | cons p ps ih =>
    simp only [List.map_cons, List.nodup_cons] at h
    simp only [List.filter_cons]
    split
    · simp only [List.map_cons, List.nodup_cons]
      refine ⟨?_, ih h.2⟩
      intro hm
      apply h.1
      obtain ⟨q, hq, hqe⟩ := List.mem_map.1 hm
      rw [← hqe]; exact List.mem_map_of_mem (List.mem_filter.1 hq).1
    · exact ih h.2

theorem fold_dropNull_orig_spec (fu ft : List (String × String)) (user time : String) (ds : List Key)
    (nw : Obj) (og : Obj) :
    ∃ og', (ds.foldl (dropNull fu ft user time) (nw, some og)).2 = some og' ∧
      (∀ f, get og' f = if f ∈ ds then none else get og f) ∧ ((keys og).Nodup → (keys og').Nodup) := by
  induction ds generalizing nw og with
  | nil => exact ⟨og, rfl, by simp, id⟩
  | cons d ds ih =>
    rw [List.foldl_cons]
    have e : dropNull fu ft user time (nw, some og) d = ((dropNull fu ft user time (nw, some og) d).1, some (erase og d)) := rfl
    rw [e]
    obtain ⟨og', h1, h2, h3⟩ := ih (dropNull fu ft user time (nw, some og) d).1 (erase og d)
    refine ⟨og', h1, ?_, fun hn => h3 (keys_erase_nodup og d hn)⟩
    intro f
    rw [h2]
    by_cases hd : f = d
    · subst hd; simp [get_erase_self]
    · rw [get_erase_ne _ _ _ hd]; simp [hd]

theorem get_none_of_not_mem_keys (o : Obj) (f : Key) (h : f ∉ keys o) : get o f = none := by
  induction o with
  | nil => rfl
  | cons p ps ih =>
    have : keys (p :: ps) = p.1 :: keys ps := rfl
    rw [this, List.mem_cons, not_or] at h
    rw [get_cons]
    have h1 : (p.1 == f) = false := by simp [Ne.symm h.1]
    simp only [h1, Bool.false_eq_true, ↓reduceIte]; exact ih h.2


/-- an original field named in the conditionals is carried over with its stored value, mentioned or not -/
theorem fold_carry_get_conditional (cond : List Key) (og : Obj) (st : Obj × List Key) (f : Key) (v : Val)
    (hog : get og f = some v) (hc : cond.contains f = true) (hnd : (keys og).Nodup) :
    get (og.foldl (carry cond) st).1 f = some v := by
  induction og generalizing st with
  | nil => simp [get_nil] at hog
  | cons p ps ih =>
    rw [List.foldl_cons]
    have hnd' : (keys ps).Nodup := by
      have : keys (p :: ps) = p.1 :: keys ps := rfl
      rw [this] at hnd; exact (List.nodup_cons.1 hnd).2
    rw [get_cons] at hog
    by_cases hp : p.1 = f
    · have h1 : (p.1 == f) = true := by simp [hp]
      simp only [h1, ↓reduceIte, Option.some.injEq] at hog
      have hlater : get ps f = none := by
        have : keys (p :: ps) = p.1 :: keys ps := rfl
        rw [this] at hnd
        have hnot := (List.nodup_cons.1 hnd).1
        cases hg : get ps f with
        | none => rfl
        | some w =>
          exfalso; apply hnot
          unfold get at hg
          cases hfind : List.find? (fun x => x.1 == f) ps with
          | none => simp [hfind] at hg
          | some q =>
            have hq := List.mem_of_find?_eq_some hfind
            have hqf : q.1 = f := by simpa using List.find?_some hfind
            rw [hp, ← hqf]; exact List.mem_map_of_mem hq
      rw [fold_carry_get_absent _ _ _ _ hlater]
      unfold carry
      rw [hp, hc]
      by_cases hh : has st.1 f = true
      · simp only [hh, Bool.not_true, Bool.false_eq_true, ↓reduceIte]
        rw [get_set_self, hog]
      · simp only [hh, Bool.not_false, ↓reduceIte]
        rw [get_set_self, hog]
    · have h1 : (p.1 == f) = false := by simp [hp]
      simp only [h1, Bool.false_eq_true, ↓reduceIte] at hog
      exact ih _ hog hnd'

end Dvid.NJ
