import DvidModel.Model.Store
import DvidModel.Props.C06
/- Effect of the two-key transactions on `entryAt`, from key injectivity (C06). -/
namespace Dvid.Store
open Dvid Dvid.Key Dvid.Resolve Dvid.Props.C06

theorem dataKey_ne_of {i v i' v' : Nat} {tk tk' : Bytes} {m m' : Bool}
    (hi : U32 i) (hv : U32 v) (hi' : U32 i') (hv' : U32 v')
    (h : ¬ (i = i' ∧ tk = tk' ∧ v = v' ∧ m = m')) : dataKey i v 0 tk m ≠ dataKey i' v' 0 tk' m' := by
  intro he
  have := construct_injective i v 0 i' v' 0 tk tk' m m' hi hv (by decide) hi' hv' (by decide) he
  exact h ⟨this.1, this.2.1, this.2.2.1, this.2.2.2.2⟩

theorem entryAt_putV_same (s : KV) (i ver : Nat) (tk val : Bytes) (hi : U32 i) (hv : U32 ver) :
    entryAt (putV s i ver tk val) i tk ver = some (.val ver) := by
  have hne : dataKey i ver 0 tk false ≠ dataKey i ver 0 tk true :=
    dataKey_ne_of hi hv hi hv (by simp)
  simp [entryAt, putV, Gen.storePutClearsTombstone, KV.set, KV.del, hne]

theorem entryAt_delV_same (s : KV) (i ver : Nat) (tk : Bytes) :
    entryAt (delV s i ver tk) i tk ver = some .tomb := by
  simp [entryAt, delV, Gen.storeDeleteWritesTombstone, KV.set, KV.del]

theorem entryAt_putV_other (s : KV) (i ver i' ver' : Nat) (tk tk' val : Bytes)
    (hi : U32 i) (hv : U32 ver) (hi' : U32 i') (hv' : U32 ver')
    (h : ¬ (i' = i ∧ tk' = tk ∧ ver' = ver)) :
    entryAt (putV s i ver tk val) i' tk' ver' = entryAt s i' tk' ver' := by
  have n1 : ∀ m m', dataKey i' ver' 0 tk' m ≠ dataKey i ver 0 tk m' := fun m m' =>
    dataKey_ne_of hi' hv' hi hv (fun hh => h ⟨hh.1, hh.2.1, hh.2.2.1⟩)
  simp [entryAt, putV, Gen.storePutClearsTombstone, KV.set, KV.del, n1]

theorem entryAt_delV_other (s : KV) (i ver i' ver' : Nat) (tk tk' : Bytes)
    (hi : U32 i) (hv : U32 ver) (hi' : U32 i') (hv' : U32 ver')
    (h : ¬ (i' = i ∧ tk' = tk ∧ ver' = ver)) :
    entryAt (delV s i ver tk) i' tk' ver' = entryAt s i' tk' ver' := by
  have n1 : ∀ m m', dataKey i' ver' 0 tk' m ≠ dataKey i ver 0 tk m' := fun m m' =>
    dataKey_ne_of hi' hv' hi hv (fun hh => h ⟨hh.1, hh.2.1, hh.2.2.1⟩)
  simp [entryAt, delV, Gen.storeDeleteWritesTombstone, KV.set, KV.del, n1]

theorem raw_putV_other (s : KV) (i ver i' ver' : Nat) (tk tk' val : Bytes) (m : Bool)
    (hi : U32 i) (hv : U32 ver) (hi' : U32 i') (hv' : U32 ver')
    (h : ¬ (i' = i ∧ tk' = tk ∧ ver' = ver)) :
    putV s i ver tk val (dataKey i' ver' 0 tk' m) = s (dataKey i' ver' 0 tk' m) := by
  have n1 : ∀ m', dataKey i' ver' 0 tk' m ≠ dataKey i ver 0 tk m' := fun m' =>
    dataKey_ne_of hi' hv' hi hv (fun hh => h ⟨hh.1, hh.2.1, hh.2.2.1⟩)
  simp [putV, Gen.storePutClearsTombstone, KV.set, KV.del, n1]

theorem raw_delV_other (s : KV) (i ver i' ver' : Nat) (tk tk' : Bytes) (m : Bool)
    (hi : U32 i) (hv : U32 ver) (hi' : U32 i') (hv' : U32 ver')
    (h : ¬ (i' = i ∧ tk' = tk ∧ ver' = ver)) :
    delV s i ver tk (dataKey i' ver' 0 tk' m) = s (dataKey i' ver' 0 tk' m) := by
  have n1 : ∀ m', dataKey i' ver' 0 tk' m ≠ dataKey i ver 0 tk m' := fun m' =>
    dataKey_ne_of hi' hv' hi hv (fun hh => h ⟨hh.1, hh.2.1, hh.2.2.1⟩)
  simp [delV, Gen.storeDeleteWritesTombstone, KV.set, KV.del, n1]

end Dvid.Store
