import DvidModel.Model.Roi
import DvidModel.Lemmas.Bytes
import DvidModel.Lemmas.ImageBlk
/-
  C18 — Spatial keys, packed block indices and run-length volumes preserve geometry.
-/
namespace Dvid.Props.C18
open Dvid Dvid.Geom Dvid.Rle Dvid.Roi

/-! ### block-coordinate keys -/

theorem zyxBytes_eq (x y z : Int) :
    zyxBytes x y z = be32 (offsetBinary z) ++ be32 (offsetBinary y) ++ be32 (offsetBinary x) := by
  simp [zyxBytes, Gen.zyxFieldOrder]

theorem offsetBinary_lt (c : Int) (h : I32 c) : offsetBinary c < 4294967296 := by
  unfold offsetBinary I32 at *; omega

/-- keys decode to the coordinate they were made from, for all int32 coordinates -/
theorem zyx_roundtrip (x y z : Int) (hx : I32 x) (hy : I32 y) (hz : I32 z) :
    zyxDecode (zyxBytes x y z) = some (x, y, z) := by
  rw [zyxBytes_eq]
  unfold zyxDecode
  have hl : (be32 (offsetBinary z) ++ be32 (offsetBinary y) ++ be32 (offsetBinary x)).length = 12 := by simp
  simp only [hl, ne_eq, not_true_eq_false, if_false]
  have e0 : (be32 (offsetBinary z) ++ be32 (offsetBinary y) ++ be32 (offsetBinary x)).drop (4 * 0)
      = be32 (offsetBinary z) ++ (be32 (offsetBinary y) ++ be32 (offsetBinary x)) := by simp
  have e1 : (be32 (offsetBinary z) ++ be32 (offsetBinary y) ++ be32 (offsetBinary x)).drop (4 * 1)
      = be32 (offsetBinary y) ++ be32 (offsetBinary x) := by simp [be32]
  have e2 : (be32 (offsetBinary z) ++ be32 (offsetBinary y) ++ be32 (offsetBinary x)).drop (4 * 2)
      = be32 (offsetBinary x) ++ [] := by simp [be32]
  rw [e0, e1, e2, fromBe32_be32_append _ (offsetBinary_lt z hz), fromBe32_be32_append _ (offsetBinary_lt y hy),
      fromBe32_be32_append _ (offsetBinary_lt x hx)]
  unfold offsetBinary I32 at *
  simp only [Option.some.injEq, Prod.mk.injEq]
  omega

/-- keys sort in (z, y, x) order for all signed int32 coordinates -/
theorem zyx_order (x y z x' y' z' : Int) (hx : I32 x) (hy : I32 y) (hz : I32 z) (hx' : I32 x') (hy' : I32 y') (hz' : I32 z') :
    cmpBytes (zyxBytes x y z) (zyxBytes x' y' z') =
      if z < z' then .lt else if z' < z then .gt else
      if y < y' then .lt else if y' < y then .gt else
      if x < x' then .lt else if x' < x then .gt else .eq := by
  rw [zyxBytes_eq, zyxBytes_eq]
  simp only [List.append_assoc]
  rw [cmpBytes_be32 _ _ (offsetBinary_lt z hz) (offsetBinary_lt z' hz'),
      cmpBytes_be32 _ _ (offsetBinary_lt y hy) (offsetBinary_lt y' hy')]
  have hlast := cmpBytes_be32 _ _ (offsetBinary_lt x hx) (offsetBinary_lt x' hx') [] []
  simp only [List.append_nil] at hlast
  rw [hlast]
  have o : ∀ a b : Int, I32 a → I32 b → ((offsetBinary a < offsetBinary b) ↔ a < b) := by
    intro a b ha hb; unfold offsetBinary I32 at *; omega
  simp only [o z z' hz hz', o z' z hz' hz, o y y' hy hy', o y' y hy' hy, o x x' hx hx', o x' x hx' hx]
  simp [cmpBytes]

/-! ### packed block index -/

def Mag20 (c : Int) : Prop := -1048576 < c ∧ c < 1048576

theorem decField_encField (c : Int) (h : Mag20 c) : decField (encField c) = c := by
  unfold decField encField Mag20 at *
  simp only [Gen.blockIndexSignBit, Gen.blockIndexMagMask]
  by_cases hc : c < 0
  · simp only [hc, if_true]
    have h1 : (-c).toNat % (1048575 + 1) = (-c).toNat := Nat.mod_eq_of_lt (by omega)
    rw [h1]
    have h2 : (1048576 + (-c).toNat) / 1048576 % 2 = 1 := by omega
    have h3 : (1048576 + (-c).toNat) % (1048575 + 1) = (-c).toNat := by omega
    simp only [h2, h3, if_true]
    omega
  · simp only [hc, if_false]
    have h1 : c.toNat % (1048575 + 1) = c.toNat := Nat.mod_eq_of_lt (by omega)
    rw [h1]
    have h2 : c.toNat / 1048576 % 2 = 0 := by omega
    simp only [h2, h1]
    simp
    omega

theorem encField_lt (c : Int) : encField c < 2097152 := by
  unfold encField
  simp only [Gen.blockIndexSignBit, Gen.blockIndexMagMask]
  split <;> omega

/-- the packed index round-trips over its documented range (every coordinate of magnitude below 2^20) -/
theorem blockIndex_roundtrip (x y z : Int) (hx : Mag20 x) (hy : Mag20 y) (hz : Mag20 z) :
    decodeBlockIndex (encodeBlockIndex x y z) = (x, y, z) := by
  unfold decodeBlockIndex encodeBlockIndex
  simp only [Gen.blockIndexShift]
  have lx := encField_lt x
  have ly := encField_lt y
  have lz := encField_lt z
  have e1 : ((encField z * 2 ^ 21 + encField y) * 2 ^ 21 + encField x) % 2 ^ 21 = encField x := by omega
  have e2 : ((encField z * 2 ^ 21 + encField y) * 2 ^ 21 + encField x) / 2 ^ 21 % 2 ^ 21 = encField y := by omega
  have e3 : ((encField z * 2 ^ 21 + encField y) * 2 ^ 21 + encField x) / 2 ^ 21 / 2 ^ 21 % 2 ^ 21 = encField z := by omega
  rw [e1, e2, e3, decField_encField x hx, decField_encField y hy, decField_encField z hz]

/-- … hence it is injective there -/
theorem blockIndex_injective (x y z x' y' z' : Int) (hx : Mag20 x) (hy : Mag20 y) (hz : Mag20 z)
    (hx' : Mag20 x') (hy' : Mag20 y') (hz' : Mag20 z')
    (h : encodeBlockIndex x y z = encodeBlockIndex x' y' z') : (x, y, z) = (x', y', z') := by
  rw [← blockIndex_roundtrip x y z hx hy hz, ← blockIndex_roundtrip x' y' z' hx' hy' hz', h]

/-- outside the documented range it aliases: 2^20 encodes like 0 (recorded, not claimed) -/
theorem blockIndex_alias_at_2pow20 : encodeBlockIndex 1048576 0 0 = encodeBlockIndex 0 0 0 := by decide

/-! ### run-length volumes: voxel sets are preserved -/

theorem within_iff (r : RLE) (p : Pos) :
    r.within p = true ↔ p.2.2 = r.z ∧ p.2.1 = r.y ∧ r.x ≤ p.1 ∧ p.1 < r.x + r.len := by
  simp [RLE.within, and_assoc]

theorem voxOf_append (a b : List RLE) (p : Pos) : voxOf (a ++ b) p = (voxOf a p || voxOf b p) := by
  simp [voxOf, List.any_append]

/-- `Excise`: the fragments are exactly the receiver's voxels outside the other run (when they intersect) -/
theorem excise_vox (r s : RLE) (fr : List RLE) (h : r.excise s = some fr) (p : Pos) :
    voxOf fr p = (r.within p && !s.within p) := by
  unfold RLE.excise at h
  split at h
  · cases h
  · rename_i hzy
    simp only at h
    split at h
    · cases h
    · rename_i hx
      cases h
      rw [voxOf_append]
      have hz : r.z = s.z := by omega
      have hy : r.y = s.y := by omega
      rw [Bool.eq_iff_iff]
      simp only [Bool.or_eq_true, Bool.and_eq_true, Bool.not_eq_true', ← Bool.not_eq_true, within_iff]
      by_cases c1 : s.x > r.x <;> by_cases c2 : s.x + s.len - 1 < r.x + r.len - 1 <;>
        simp [c1, c2, voxOf, within_iff] <;> omega

theorem clipMinX_vox (o : Option Int) (r : RLE) (p : Pos) :
    (match clipMinX o r with | some r' => r'.within p | none => false) = (r.within p && optLe o p.1) := by
  rw [Bool.eq_iff_iff]
  cases o with
  | none => simp [clipMinX, optLe]
  | some m =>
    by_cases h1 : r.x + r.len - 1 < m
    · simp [clipMinX, optLe, h1, within_iff]; omega
    · by_cases h2 : r.x < m
      · simp [clipMinX, optLe, h1, h2, within_iff]; omega
      · simp [clipMinX, optLe, h1, h2, within_iff]; omega

theorem clipMaxX_vox (o : Option Int) (r : RLE) (p : Pos) :
    (match clipMaxX o r with | some r' => r'.within p | none => false) = (r.within p && optGe o p.1) := by
  rw [Bool.eq_iff_iff]
  cases o with
  | none => simp [clipMaxX, optGe]
  | some m =>
    by_cases h1 : r.x > m
    · simp [clipMaxX, optGe, h1, within_iff]; omega
    · by_cases h2 : r.x + r.len - 1 > m
      · simp [clipMaxX, optGe, h1, h2, within_iff]; omega
      · simp [clipMaxX, optGe, h1, h2, within_iff]; omega

theorem optLt_eq (o : Option Int) (c : Int) : optLt o c = !optLe o c := by
  cases o with
  | none => rfl
  | some m => simp only [optLt, optLe]; rw [Bool.eq_iff_iff]; simp
theorem optGt_eq (o : Option Int) (c : Int) : optGt o c = !optGe o c := by
  cases o with
  | none => rfl
  | some m => simp only [optGt, optGe]; rw [Bool.eq_iff_iff]; simp

/-- the x clauses together -/
theorem clipX_vox (lo hi : Option Int) (r : RLE) (p : Pos) :
    (match (clipMinX lo r).bind (clipMaxX hi) with | some r' => r'.within p | none => false) =
      (r.within p && optLe lo p.1 && optGe hi p.1) := by
  have hm := clipMinX_vox lo r p
  cases hcm : clipMinX lo r with
  | none =>
    rw [hcm] at hm
    simp only [Option.bind]
    simp only at hm
    rw [← hm]; simp
  | some r1 =>
    rw [hcm] at hm
    simp only [Option.bind]
    simp only at hm
    rw [clipMaxX_vox hi r1 p, hm]

/-- `FitToBounds` with bounds, one run: exactly its voxels that lie inside the bounds -/
theorem fitOne_vox (b : Bounds) (r : RLE) (p : Pos) :
    (match fitOne b r with | some r' => r'.within p | none => false) = (r.within p && b.inside p) := by
  unfold fitOne Bounds.inside
  have hx := clipX_vox b.minx b.maxx r p
  rw [optLt_eq, optGt_eq, optLt_eq, optGt_eq]
  by_cases hw : r.within p = true
  · obtain ⟨h1, h2, _, _⟩ := (within_iff r p).mp hw
    rw [← h1, ← h2]
    cases optLe b.minz p.2.2 <;> cases optGe b.maxz p.2.2 <;> cases optLe b.miny p.2.1 <;>
      cases optGe b.maxy p.2.1 <;> simp_all
  · have hw' : r.within p = false := by simpa using hw
    rw [hw'] at hx ⊢
    simp only [Bool.false_and] at hx ⊢
    cases optLe b.minz r.z <;> cases optGe b.maxz r.z <;> cases optLe b.miny r.y <;>
      cases optGe b.maxy r.y <;> simp_all

theorem fitToBounds_vox (b : Bounds) (rs : List RLE) (p : Pos) :
    voxOf (fitToBounds (some b) rs) p = (voxOf rs p && b.inside p) := by
  induction rs with
  | nil => simp [fitToBounds, voxOf]
  | cons r rs ih =>
    have h1 := fitOne_vox b r p
    simp only [fitToBounds, voxOf] at ih ⊢
    simp only [List.filterMap_cons, List.any_cons]
    cases hf : fitOne b r with
    | none =>
      rw [hf] at h1
      simp only at h1
      rw [ih]
      generalize r.within p = W at h1 ⊢
      generalize b.inside p = B at h1 ⊢
      generalize (rs.any fun x => x.within p) = A
      cases W <;> cases B <;> cases A <;> first | rfl | (exact absurd h1 (by decide))
    | some r' =>
      rw [hf] at h1
      simp only at h1
      simp only [List.any_cons]
      rw [ih, h1]
      generalize r.within p = W
      generalize b.inside p = B
      generalize (rs.any fun x => x.within p) = A
      cases W <;> cases B <;> cases A <;> rfl

/-- `FitToBounds(nil)` keeps every run (depends on the regenerated fact; as first written it returned no
    runs at all — `copy` into a zero-length slice) -/
theorem fitToBounds_nil (rs : List RLE) : fitToBounds none rs = rs := by
  simp [fitToBounds, Gen.fitToBoundsNilCopies]

/-- the merging pass of `Normalize` preserves the voxel set (for runs of positive length) -/
theorem mergeAdjacent_vox (cur : Option RLE) (rs : List RLE) (p : Pos)
    (hc : ∀ c, cur = some c → 0 ≤ c.len) (hpos : ∀ r ∈ rs, 0 ≤ r.len) :
    voxOf (mergeAdjacent cur rs) p = ((match cur with | some c => c.within p | none => false) || voxOf rs p) := by
  induction rs generalizing cur with
  | nil => cases cur <;> simp [mergeAdjacent, voxOf]
  | cons r rest ih =>
    have hr := hpos r (by simp)
    have hrest : ∀ r' ∈ rest, 0 ≤ r'.len := fun r' h' => hpos r' (by simp [h'])
    cases cur with
    | none =>
      simp only [mergeAdjacent]
      rw [ih (some r) (by intro c h; cases h; exact hr) hrest]
      simp [voxOf]
    | some c =>
      have hcl := hc c rfl
      simp only [mergeAdjacent]
      split
      · simp only [voxOf, List.any_cons] at ih ⊢
        rw [ih (some r) (by intro c' h; cases h; exact hr) hrest]
      · rename_i hadj
        rw [ih (some { c with len := c.len + r.len }) (by intro c' h; cases h; simp; omega) hrest]
        simp only [voxOf, List.any_cons]
        rw [← Bool.or_assoc]
        congr 1
        rw [Bool.eq_iff_iff]
        simp only [Bool.or_eq_true, within_iff]
        have e1 : r.y = c.y := by omega
        have e2 : r.z = c.z := by omega
        have e3 : r.x = c.x + c.len := by omega
        constructor
        · rintro ⟨a, b, c1, d⟩
          by_cases hh : p.1 < c.x + c.len
          · left; exact ⟨a, b, c1, hh⟩
          · right; exact ⟨by omega, by omega, by omega, by omega⟩
        · rintro (⟨a, b, c1, d⟩ | ⟨a, b, c1, d⟩)
          · exact ⟨a, b, c1, by omega⟩
          · exact ⟨by omega, by omega, by omega, by omega⟩

/-- **Normalisation keeps exactly the same voxel set** (any order of the input, adjacent runs, single
    voxels, negative coordinates; runs of non-negative length). -/
theorem normalize_vox (rs : List RLE) (p : Pos) (hpos : ∀ r ∈ rs, 0 ≤ r.len) :
    voxOf (normalize rs) p = voxOf rs p := by
  unfold normalize
  have hperm := List.mergeSort_perm rs RLE.le
  rw [mergeAdjacent_vox none _ p (by intro c h; cases h) (fun r hr => hpos r (hperm.mem_iff.mp hr))]
  simp only [Bool.false_or]
  unfold voxOf
  rw [Bool.eq_iff_iff]
  simp only [List.any_eq_true]
  constructor
  · rintro ⟨r, hr, hw⟩; exact ⟨r, hperm.mem_iff.mp hr, hw⟩
  · rintro ⟨r, hr, hw⟩; exact ⟨r, hperm.mem_iff.mpr hr, hw⟩

/-- binary (de)serialisation of runs round-trips for all int32 values -/
theorem le32i_roundtrip (c : Int) (h : I32 c) (rest : Bytes) : fromLe32i (le32i c ++ rest) = c := by
  unfold le32i fromLe32i I32 at *
  simp only [List.cons_append, List.nil_append, UInt8.toNat_ofNat']
  split <;> omega

theorem marshal_roundtrip_one (r : RLE) (hx : I32 r.x) (hy : I32 r.y) (hz : I32 r.z) (hl : I32 r.len) :
    unmarshal (marshal [r]) = some [r] := by
  have hlen : (marshal [r]).length = 16 := by simp [marshal, le32i]
  unfold unmarshal
  simp only [hlen]
  simp only [unmarshalAux, marshal, List.flatMap_cons, List.flatMap_nil, List.append_nil]
  have d4 : (le32i r.x ++ le32i r.y ++ le32i r.z ++ le32i r.len).drop 4 = le32i r.y ++ (le32i r.z ++ le32i r.len) := by
    simp [le32i]
  have d8 : (le32i r.x ++ le32i r.y ++ le32i r.z ++ le32i r.len).drop 8 = le32i r.z ++ le32i r.len := by
    simp [le32i]
  have d12 : (le32i r.x ++ le32i r.y ++ le32i r.z ++ le32i r.len).drop 12 = le32i r.len ++ [] := by
    simp [le32i]
  have d0 : (le32i r.x ++ le32i r.y ++ le32i r.z ++ le32i r.len) = le32i r.x ++ (le32i r.y ++ (le32i r.z ++ le32i r.len)) := by
    simp
  rw [d4, d8, d12]
  conv => lhs; rw [d0]
  rw [le32i_roundtrip _ hx, le32i_roundtrip _ hy, le32i_roundtrip _ hz, le32i_roundtrip _ hl]
  simp

/-! ### ROI: mask range -/

/-- `voxelRange`: the returned offsets are exactly the voxels of blocks `[begBlock, endBlock]` that fall
    inside the requested voxel interval, relative to its start -/
theorem voxelRange_spec (bs b0 b1 v0 v1 : Int) (o : Int) :
    let r := voxelRange bs b0 b1 v0 v1
    (r.1 ≤ o ∧ o ≤ r.2) ↔ (b0 * bs ≤ o + v0 ∧ o + v0 ≤ (b1 + 1) * bs - 1 ∧ v0 ≤ o + v0 ∧ o + v0 ≤ v1) := by
  simp only [voxelRange]
  split <;> split <;> constructor <;> intro h <;> omega

/- Non-vacuity -/
example : I32 (-2147483648) ∧ I32 2147483647 ∧ Mag20 (-1048575) ∧ Mag20 1048575 := by
  unfold I32 Mag20; omega
example : voxOf (mergeAdjacent none [⟨-2, 0, 0, 7⟩, ⟨5, 0, 0, 3⟩, ⟨8, 0, 0, 1⟩]) (8, 0, 0) = true ∧
    mergeAdjacent none [⟨-2, 0, 0, 7⟩, ⟨5, 0, 0, 3⟩, ⟨8, 0, 0, 1⟩] = [⟨-2, 0, 0, 11⟩] := by decide

end Dvid.Props.C18

namespace Dvid.Props.C18
open Dvid Dvid.Rle Dvid.Geom Dvid.ImageBlk

/-! ### Partition: the fragments are exactly the voxels of the runs, each inside its block -/

theorem voxOf_cons (r : RLE) (rs : List RLE) (p : Pos) : voxOf (r :: rs) p = (r.within p || voxOf rs p) := by
  simp [voxOf]

theorem partitionRun_spec (bs : Int) (hbs : 0 < bs) (y z : Int) (fuel : Nat) :
    ∀ (bx bBegX rx remain : Int), bBegX = bx * bs → bBegX ≤ rx → rx < bBegX + bs → remain < fuel →
      (∀ p, voxOf ((partitionRun bs y z fuel bx bBegX rx remain).map (·.2)) p = (⟨rx, y, z, remain⟩ : RLE).within p) ∧
      (∀ cf ∈ partitionRun bs y z fuel bx bBegX rx remain,
        1 ≤ cf.2.len ∧ cf.2.y = y ∧ cf.2.z = z ∧ cf.1 * bs ≤ cf.2.x ∧ cf.2.x + cf.2.len ≤ (cf.1 + 1) * bs) := by
  induction fuel with
  | zero =>
    intro bx bBegX rx remain _ _ _ hr
    constructor
    · intro p
      simp only [partitionRun, List.map_nil]
      rw [Bool.eq_iff_iff]
      simp only [voxOf, List.any_nil, Bool.false_eq_true, within_iff, false_iff]
      simp at hr; omega
    · intro cf hcf; simp [partitionRun] at hcf
  | succ fuel ih =>
    intro bx bBegX rx remain hb h1 h2 hr
    unfold partitionRun
    by_cases hrem : remain < 1
    · simp only [hrem, if_true]
      constructor
      · intro p
        rw [Bool.eq_iff_iff]
        simp only [List.map_nil, voxOf, List.any_nil, Bool.false_eq_true, within_iff, false_iff]
        omega
      · intro cf hcf; cases hcf
    · simp only [hrem, if_false]
      have hb' : bBegX + bs = (bx + 1) * bs := by rw [Int.add_mul, Int.one_mul, hb]
      obtain ⟨ihv, ihb⟩ := ih (bx + 1) (bBegX + bs) (rx + (bBegX + bs - rx)) (remain - (bBegX + bs - rx)) hb'
        (by omega) (by omega) (by push_cast at hr ⊢; omega)
      constructor
      · intro p
        simp only [List.map_cons]
        rw [voxOf_cons, ihv p, Bool.eq_iff_iff]
        simp only [Bool.or_eq_true, within_iff]
        by_cases c : remain < bBegX + bs - rx
        · simp only [c, if_true]; omega
        · simp only [c, if_false]; omega
      · intro cf hcf
        rcases List.mem_cons.mp hcf with e | e
        · subst e
          simp only
          rw [← hb, ← hb']
          by_cases c : remain < bBegX + bs - rx
          · simp only [c, if_true]; exact ⟨by omega, trivial, trivial, by omega, by omega⟩
          · simp only [c, if_false]; exact ⟨by omega, trivial, trivial, by omega, by omega⟩
        · exact ihb cf e

theorem voxOf_flatMap {α : Type} (l : List α) (f : α → List RLE) (p : Pos) :
    voxOf (l.flatMap f) p = l.any (fun a => voxOf (f a) p) := by
  simp [voxOf, List.any_flatMap]

/-- **`Partition` keeps the voxel set**: for every block size with a positive x extent and every run list, a
    voxel is covered by some fragment exactly when it is covered by some run -/
theorem partition_vox (bsx bsy bsz : Int) (hbs : 0 < bsx) (rs : List RLE) (p : Pos) :
    voxOf ((partition bsx bsy bsz rs).map (·.2)) p = voxOf rs p := by
  unfold partition
  rw [List.map_flatMap, voxOf_flatMap]
  unfold voxOf
  congr 1
  funext r
  have hc := chunk_inBlock (x := r.x) hbs
  unfold InBlock at hc
  rw [Int.add_mul, Int.one_mul] at hc
  have := (partitionRun_spec bsx hbs r.y r.z (r.len.toNat + 1) (chunk r.x bsx) (chunk r.x bsx * bsx) r.x r.len rfl hc.1 hc.2
    (by have := Int.self_le_toNat r.len; push_cast; omega)).1 p
  simp only [List.map_map]
  have e : ((fun (x : (Int × Int × Int) × RLE) => x.2) ∘ fun (x : Int × RLE) => ((x.1, chunk r.y bsy, chunk r.z bsz), x.2)) = (·.2) := by
    funext x; rfl
  rw [e]
  exact this

/-- **every fragment lies inside the block it is filed under**: it is non-empty, its first and last voxel are in
    block x of the fragment's key, and the key's y and z are the blocks of the run's row -/
theorem partition_in_block (bsx bsy bsz : Int) (hbs : 0 < bsx) (rs : List RLE) :
    ∀ cf ∈ partition bsx bsy bsz rs,
      1 ≤ cf.2.len ∧ InBlock bsx cf.1.1 cf.2.x ∧ InBlock bsx cf.1.1 (cf.2.x + cf.2.len - 1) ∧
      cf.1.2.1 = chunk cf.2.y bsy ∧ cf.1.2.2 = chunk cf.2.z bsz := by
  intro cf hcf
  unfold partition at hcf
  obtain ⟨r, _, hr⟩ := List.mem_flatMap.mp hcf
  obtain ⟨x, hx, rfl⟩ := List.mem_map.mp hr
  have hc := chunk_inBlock (x := r.x) hbs
  unfold InBlock at hc
  rw [Int.add_mul, Int.one_mul] at hc
  have := (partitionRun_spec bsx hbs r.y r.z (r.len.toNat + 1) (chunk r.x bsx) (chunk r.x bsx * bsx) r.x r.len rfl hc.1 hc.2
    (by have := Int.self_le_toNat r.len; push_cast; omega)).2 x hx
  obtain ⟨a, b, c, d, e⟩ := this
  unfold InBlock
  simp only
  rw [b, c]
  refine ⟨a, ⟨d, by omega⟩, ⟨by omega, by omega⟩, rfl, rfl⟩

example : (partition 32 32 32 [⟨-3, 5, 40, 40⟩]).map (fun cf => (cf.1, cf.2.x, cf.2.len)) =
    [((-1, 0, 1), -3, 3), ((0, 0, 1), 0, 32), ((1, 0, 1), 32, 5)] := by decide

end Dvid.Props.C18
