import DvidModel.Model.Ids
import DvidModel.Gen.Fixes
import DvidModel.Props.C07
/-
  C12 — Server-issued identifiers are unique and only move forward.
-/
namespace Dvid.Props.C12
open Dvid Dvid.Ids

/-! ### mutation ids -/

/-- the counter never runs ahead of what the store holds -/
def MutInv (m : Mut) : Prop := m.cur < m.persisted ∧ m.saved = m.persisted

theorem stride_pos : 0 < Gen.strideMutationID := by decide

theorem init_inv (start p : Nat) : MutInv (Mut.init start p) := by
  have := stride_pos
  unfold Mut.init MutInv
  by_cases h : p < start <;> simp [h] <;> omega

theorem init_cur_ge (start p : Nat) : p ≤ (Mut.init start p).cur := by
  unfold Mut.init
  by_cases h : p < start <;> simp [h] <;> omega

theorem alloc_inv (m : Mut) (h : MutInv m) : MutInv m.alloc.1 ∧ m.alloc.2 = m.cur ∧ m.alloc.1.cur = m.cur + 1 := by
  unfold Mut.alloc MutInv at *
  have := stride_pos
  by_cases hc : m.cur + 1 ≥ m.saved <;> simp [hc] <;> omega

/-- every id handed out from state `m` onward is at least `m.cur`, and the ids are strictly increasing —
    for every interleaving of allocations, restarts (clean or abrupt) and crashes inside the allocation,
    including exactly at a stride boundary -/
theorem run_sorted (start : Nat) (m : Mut) (h : MutInv m) (es : List MutEv) :
    (∀ id ∈ Mut.run start m es, m.cur ≤ id) ∧ (Mut.run start m es).Pairwise (· < ·) := by
  induction es generalizing m with
  | nil => simp [Mut.run]
  | cons e es ih =>
    cases e with
    | alloc =>
      obtain ⟨hi, hid, hc⟩ := alloc_inv m h
      obtain ⟨h1, h2⟩ := ih m.alloc.1 hi
      simp only [Mut.run, Mut.step]
      constructor
      · intro id hmem
        rcases List.mem_cons.mp hmem with e | e
        · rw [e, hid]; exact Nat.le_refl _
        · have := h1 id e; omega
      · rw [List.pairwise_cons]
        refine ⟨?_, h2⟩
        intro id hmem
        have := h1 id hmem; omega
    | restart =>
      have hi := init_inv start m.persisted
      obtain ⟨h1, h2⟩ := ih _ hi
      simp only [Mut.run, Mut.step]
      refine ⟨?_, h2⟩
      intro id hmem
      have := h1 id hmem
      have := init_cur_ge start m.persisted
      unfold MutInv at h; omega
    | crashInAlloc =>
      have hi := init_inv start m.persisted
      obtain ⟨h1, h2⟩ := ih _ hi
      simp only [Mut.run, Mut.step]
      refine ⟨?_, h2⟩
      intro id hmem
      have := h1 id hmem
      have := init_cur_ge start m.persisted
      unfold MutInv at h; omega

/-- **Mutation ids are never issued twice and strictly increase in issue order, across restarts and
    crashes** (from a freshly created repo). -/
theorem mutid_strict_mono (start : Nat) (es : List MutEv) :
    (Mut.run start (Mut.init start 0) es).Pairwise (· < ·) :=
  (run_sorted start _ (init_inv start 0) es).2

/-- … and none is below the configured start -/
theorem mutid_ge_start (start : Nat) (es : List MutEv) : ∀ id ∈ Mut.run start (Mut.init start 0) es, start ≤ id := by
  intro id h
  have := (run_sorted start _ (init_inv start 0) es).1 id h
  have : start ≤ (Mut.init start 0).cur := by
    unfold Mut.init
    by_cases h : 0 < start <;> simp [h] <;> omega
  omega

/-! ### labels (no administrator repositioning: `next = 0` throughout) -/

/-- every label known to be present at some version is covered by the repo-wide maximum, in memory and in
    the store -/
def LabInv (l : Lab) : Prop :=
  l.next = 0 ∧ l.pNext = 0 ∧ (∀ v, l.maxVer v ≤ l.maxRepo) ∧ l.pVer = l.maxVer ∧ l.pRepo = l.maxRepo

theorem newLabels_spec (l : Lab) (v n : Nat) (h : LabInv l) (hn : 0 < n) :
    let r := l.newLabels v n
    LabInv r.1 ∧ r.2.1 = l.maxRepo + 1 ∧ r.2.2 = l.maxRepo + n ∧ r.1.maxRepo = l.maxRepo + n := by
  obtain ⟨h1, h2, h3, h4, h5⟩ := h
  unfold Lab.newLabels LabInv
  simp only [h1, ne_eq, not_true_eq_false, if_false, h2, h4, and_self, true_and, and_true]
  intro x
  simp only [upd]
  split
  · exact Nat.le_refl _
  · have := h3 x; omega

theorem ingest_spec (l : Lab) (v label : Nat) (h : LabInv l) :
    LabInv (l.ingest v label) ∧ label ≤ (l.ingest v label).maxRepo ∧ l.maxRepo ≤ (l.ingest v label).maxRepo := by
  obtain ⟨h1, h2, h3, h4, h5⟩ := h
  unfold Lab.ingest LabInv
  by_cases hlt : l.maxVer v < label
  · by_cases hgt : label > l.maxRepo
    · simp only [hlt, hgt, if_true, h1, h2, h4, true_and, and_true]
      refine ⟨?_, Nat.le_refl _, by omega⟩
      intro x; simp only [upd]; split
      · exact Nat.le_refl _
      · have := h3 x; omega
    · simp only [hlt, hgt, if_true, if_false, h1, h2, h4, h5, true_and, and_true]
      refine ⟨?_, by omega, Nat.le_refl _⟩
      intro x; simp only [upd]; split
      · omega
      · exact h3 x
  · simp only [hlt, if_false, h1, h2, h4, h5, true_and, and_true]
    refine ⟨h3, ?_, Nat.le_refl _⟩
    have := h3 v; omega

theorem reload_spec (l : Lab) (vs : List Nat) (h : LabInv l) :
    LabInv (l.reload vs) ∧ (l.reload vs).maxRepo = l.maxRepo := by
  obtain ⟨h1, h2, h3, h4, h5⟩ := h
  have hfold : ∀ (vs : List Nat) (a : Nat), a ≤ l.maxRepo → vs.foldl (fun m v => max m (l.pVer v)) a ≤ l.maxRepo := by
    intro vs
    induction vs with
    | nil => intro a ha; exact ha
    | cons x xs ih =>
      intro a ha
      simp only [List.foldl_cons]
      apply ih
      have := h3 x
      rw [h4]
      omega
  have hm : max l.pRepo (vs.foldl (fun m v => max m (l.pVer v)) 0) = l.maxRepo := by
    have := hfold vs 0 (Nat.zero_le _)
    rw [h5]; omega
  rw [h5, h4] at hm
  unfold Lab.reload LabInv
  simp only [h2, h4, h5, true_and, hm, and_true]
  exact h3

theorem lab_run_sorted (l : Lab) (h : LabInv l) (es : List LabEv) :
    (∀ x ∈ Lab.run l es, l.maxRepo < x) ∧ (Lab.run l es).Pairwise (· < ·) := by
  induction es generalizing l with
  | nil => simp [Lab.run]
  | cons e es ih =>
    cases e with
    | newLabels v n =>
      obtain ⟨hi, hb, he, hm⟩ := newLabels_spec l v (n + 1) h (by omega)
      obtain ⟨h1, h2⟩ := ih _ hi
      simp only [Lab.run, Lab.step]
      constructor
      · intro x hx
        rcases List.mem_append.mp hx with e | e
        · obtain ⟨k, _, rfl⟩ := List.mem_map.mp e
          rw [hb]; omega
        · have := h1 x e; rw [hm] at this; omega
      · rw [List.pairwise_append]
        refine ⟨?_, h2, ?_⟩
        · rw [List.pairwise_map]
          exact (List.pairwise_lt_range).imp (by intro a b hab; omega)
        · intro a ha b hb'
          obtain ⟨k, hk, rfl⟩ := List.mem_map.mp ha
          have hk' := List.mem_range.mp hk
          have := h1 b hb'
          rw [hm] at this; rw [hb]; omega
    | ingest v label =>
      obtain ⟨hi, _, hge⟩ := ingest_spec l v label h
      obtain ⟨h1, h2⟩ := ih _ hi
      simp only [Lab.run, Lab.step, List.nil_append]
      exact ⟨fun x hx => by have := h1 x hx; omega, h2⟩
    | restart vs =>
      obtain ⟨hi, hm⟩ := reload_spec l vs h
      obtain ⟨h1, h2⟩ := ih _ hi
      simp only [Lab.run, Lab.step, List.nil_append]
      exact ⟨fun x hx => by have := h1 x hx; omega, h2⟩

/-- **Allocated labels are never issued twice and strictly increase in issue order**, across ingests of
    arbitrary labels and restarts -/
theorem label_strict_mono (es : List LabEv) : (Lab.run Lab.init es).Pairwise (· < ·) :=
  (lab_run_sorted Lab.init ⟨rfl, rfl, fun _ => Nat.le_refl _, rfl, rfl⟩ es).2

/-- **A newly allocated label is greater than every label already present** in the volume at any version
    (every label that an earlier ingest announced), unless an administrator repositioned the counter -/
theorem newlabel_gt_present (pre post : List LabEv) (v label : Nat) :
    ∀ x ∈ Lab.run ((pre ++ [LabEv.ingest v label]).foldl (fun l e => (l.step e).1) Lab.init) post, label < x := by
  -- the state after `pre` and the ingest satisfies the invariant and has maxRepo ≥ label
  have hreach : ∀ (es : List LabEv) (l : Lab), LabInv l → LabInv (es.foldl (fun l e => (l.step e).1) l) := by
    intro es
    induction es with
    | nil => intro l h; exact h
    | cons e es ih =>
      intro l h
      simp only [List.foldl_cons]
      apply ih
      cases e with
      | newLabels v n => exact (newLabels_spec l v (n + 1) h (by omega)).1
      | ingest v label => exact (ingest_spec l v label h).1
      | restart vs => exact (reload_spec l vs h).1
  intro x hx
  rw [List.foldl_append] at hx
  simp only [List.foldl_cons, List.foldl_nil, Lab.step] at hx
  have hinv := hreach pre Lab.init ⟨rfl, rfl, fun _ => Nat.le_refl _, rfl, rfl⟩
  obtain ⟨hi, hle, _⟩ := ingest_spec _ v label hinv
  have := (lab_run_sorted _ hi post).1 x hx
  omega

/-! ### version ids -/

/-! ### labels after the counter was repositioned (`set-nextlabel`) -/

theorem nx_run_sorted (x : Nx) (h : x.pNext = x.next) (es : List NxEv) :
    (∀ l ∈ Nx.run x es, x.next < l) ∧ (Nx.run x es).Pairwise (· < ·) := by
  induction es generalizing x with
  | nil => simp [Nx.run]
  | cons e es ih =>
    unfold Nx.run
    cases e with
    | one =>
      have hs : (x.step .one).1 = ⟨x.next + 1, x.next + 1⟩ ∧ (x.step .one).2 = [x.next + 1] := by
        simp [Nx.step, Nx.alloc1, Gen.nextLabelPersistsIssued]
      rw [hs.1, hs.2]
      obtain ⟨h1, h2⟩ := ih ⟨x.next + 1, x.next + 1⟩ rfl
      simp only at h1
      refine ⟨?_, ?_⟩
      · intro l hl
        rcases List.mem_append.1 hl with hl | hl
        · simp at hl; omega
        · have := h1 l hl; omega
      · rw [List.pairwise_append]
        refine ⟨by simp, h2, ?_⟩
        intro a ha b hb
        simp at ha; subst ha
        exact h1 b hb
    | many n =>
      have hs : (x.step (.many n)).1 = ⟨x.next + (n + 1), x.next + (n + 1)⟩ ∧
          (x.step (.many n)).2 = (List.range (n + 1)).map (· + (x.next + 1)) := by
        simp [Nx.step, Nx.allocN]
      rw [hs.1, hs.2]
      obtain ⟨h1, h2⟩ := ih ⟨x.next + (n + 1), x.next + (n + 1)⟩ rfl
      simp only at h1
      refine ⟨?_, ?_⟩
      · intro l hl
        rcases List.mem_append.1 hl with hl | hl
        · simp only [List.mem_map, List.mem_range] at hl
          obtain ⟨k, _, rfl⟩ := hl; omega
        · have := h1 l hl; omega
      · rw [List.pairwise_append]
        refine ⟨?_, h2, ?_⟩
        · rw [List.pairwise_map]
          exact List.Pairwise.imp (fun {a b} (hab : a < b) => by omega) List.pairwise_lt_range
        · intro a ha b hb
          simp only [List.mem_map, List.mem_range] at ha
          obtain ⟨k, hk, rfl⟩ := ha
          have := h1 b hb; omega
    | restart =>
      have hs : (x.step .restart).1 = ⟨x.pNext, x.pNext⟩ ∧ (x.step .restart).2 = [] := by simp [Nx.step, Nx.restart]
      rw [hs.1, hs.2, h]
      simpa using ih ⟨x.next, x.next⟩ rfl

/-- **after `set-nextlabel n` no label is issued twice and labels strictly increase**, for every interleaving of
    single allocations (cleave, split), span allocations (nextlabel/k) and restarts or crashes at any point
    between requests — and every issued label is above `n` -/
theorem repositioned_labels_strict_mono (n : Nat) (es : List NxEv) :
    (Nx.run (Nx.set n) es).Pairwise (· < ·) ∧ ∀ l ∈ Nx.run (Nx.set n) es, n < l := by
  have := nx_run_sorted (Nx.set n) rfl es
  exact ⟨this.2, this.1⟩

example : Nx.run (Nx.set 1000) [.one, .restart, .many 1, .one, .restart, .one] = [1001, 1002, 1003, 1004, 1005] := by decide

/-- the version-id counter never moves backwards and every existing node's id is below it, for every request
    sequence (from C07's invariant): a version id is never issued twice -/
theorem version_ids_fresh (rs : List Manager.Req) :
    ∀ n ∈ (rs.foldl (fun s r => (Manager.step s r).1) Manager.init).nodes,
      n.v < (rs.foldl (fun s r => (Manager.step s r).1) Manager.init).nextV :=
  (Dvid.Props.C07.reachable_inv rs).1

/- Non-vacuity: a run that crosses a stride boundary with a crash exactly there -/
example : (Mut.run 1000 (Mut.init 1000 0)
    ((List.replicate 99 MutEv.alloc) ++ [.crashInAlloc, .alloc, .restart, .alloc])).getLast? = some 1200 := by
  decide

/-! ### Stored counters that lag behind the ids in use

`putNewIDs` stores the three id counters outside the id mutex, so with concurrent requests (or a crash between
two metadata writes) the stored value can be older than the ids already handed out.  What keeps ids unique then
is the start-up repair (`loadMetadata`: version ids and repo ids) and, for instance ids, the re-draw in
`newInstanceID` while the drawn id belongs to a live instance.  Both shapes are regenerated from the source. -/

def sup : List Nat → Nat
  | [] => 0
  | x :: xs => max x (sup xs)

theorem le_sup {x : Nat} {l : List Nat} (h : x ∈ l) : x ≤ sup l := by
  induction l with
  | nil => cases h
  | cons y ys ih =>
    simp only [sup]
    rcases List.mem_cons.mp h with rfl | h'
    · exact Nat.le_max_left _ _
    · exact Nat.le_trans (ih h') (Nat.le_max_right _ _)

/-- `loadMetadata`: the counter read from the store, raised above every stored id when the repair is present -/
def loadCounter (repair : Bool) (stored : Nat) (ids : List Nat) : Nat :=
  if repair then ids.foldl (fun c v => if v ≥ c then v + 1 else c) stored else stored

theorem foldl_repair_ge (ids : List Nat) (c : Nat) :
    c ≤ ids.foldl (fun c v => if v ≥ c then v + 1 else c) c ∧
    ∀ v ∈ ids, v < ids.foldl (fun c v => if v ≥ c then v + 1 else c) c := by
  induction ids generalizing c with
  | nil => exact ⟨Nat.le_refl _, fun _ h => by cases h⟩
  | cons x xs ih =>
    simp only [List.foldl_cons]
    have h1 := ih (if x ≥ c then x + 1 else c)
    refine ⟨?_, ?_⟩
    · refine Nat.le_trans ?_ h1.1
      split <;> omega
    · intro v hv
      rcases List.mem_cons.mp hv with rfl | hv'
      · refine Nat.lt_of_lt_of_le ?_ h1.1
        split <;> omega
      · exact h1.2 v hv'

/-- after start-up the repo id counter (and the version id counter) is above every stored id, however far the
    stored counter lagged: the next id issued is new -/
theorem reload_counter_above_stored (stored : Nat) (ids : List Nat) :
    ∀ v ∈ ids, v < loadCounter Gen.startupRepairsRepoCounter stored ids := by
  have hg : Gen.startupRepairsRepoCounter = true := by decide
  rw [hg]; exact (foldl_repair_ge ids stored).2

/-- without the repair a lagging counter re-issues an id in use (the defect fixed in 1f54ba4) -/
example : ¬ ∀ v ∈ [1, 2], v < loadCounter false 2 [1, 2] := by decide

/-- `newInstanceID`, sequential generator: draw, and draw again while the id belongs to a live instance -/
def drawInstance (skip : Bool) (live : List Nat) : Nat → Nat → Nat
  | ctr, 0 => ctr
  | ctr, fuel + 1 => if skip && live.contains ctr then drawInstance skip live (ctr + 1) fuel else ctr

theorem drawInstance_fresh (live : List Nat) (ctr fuel : Nat) (hf : sup live + 1 ≤ ctr + fuel) :
    drawInstance Gen.newInstanceIdSkipsLiveIds live ctr fuel ∉ live := by
  have hg : Gen.newInstanceIdSkipsLiveIds = true := by decide
  rw [hg]
  induction fuel generalizing ctr with
  | zero =>
    intro hm
    have := le_sup hm
    simp only [drawInstance] at this
    omega
  | succ n ih =>
    simp only [drawInstance, Bool.true_and]
    by_cases hc : live.contains ctr = true
    · rw [if_pos hc]; exact ih (ctr + 1) (by omega)
    · rw [if_neg hc]
      intro hm
      exact hc (List.contains_iff_mem.mpr hm)

/-- without the re-draw a lagging counter hands out a live instance's id (what the seeded change C06-6 does) -/
example : drawInstance false [1, 2] 1 5 ∈ [1, 2] := by decide
example : drawInstance true [1, 2] 1 5 = 3 := by decide

end Dvid.Props.C12
