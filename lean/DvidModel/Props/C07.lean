import DvidModel.Model.Manager
import DvidModel.Lemmas.Manager
/-
  C07 — The version DAG stays well formed and identifiers stay unique.
  Theorems about the mirror of the repo manager (Model/Manager.lean), whose behaviour-relevant shape facts
  (`Gen.*`: uuid uniqueness check, merge validation order, tag handler early return) are regenerated from
  the source on every run, and which is compared state-for-state with the real manager after every request
  by the harness.
-/
namespace Dvid.Props.C07
open Dvid Dvid.Manager

/-- the structural facts of the source this file's theorems are stated for -/
theorem manager_shape :
    Gen.newUUIDChecksExisting = true ∧ Gen.mergeValidatesFirst = true ∧ Gen.mergeRejectsDuplicateParents = true ∧
    Gen.tagCommitsOnlyOnSuccess = true ∧ Gen.tagRejectsEmpty = true := by decide

/-! ### a refused request leaves everything as it was -/

/-- every operation either returns the unchanged state with an error, or succeeds -/
def ErrOrOk (r : State × Resp) (s : State) : Prop := r = (s, .err) ∨ ∃ s' u, r = (s', .ok u)

theorem errOrOk_err {r : State × Resp} {s : State} (h : ErrOrOk r s) (he : r.2 = .err) : r.1 = s := by
  rcases h with h | ⟨s', u, h⟩
  · rw [h]
  · rw [h] at he; cases he

theorem newVersion_cases (s : State) (p b : String) (a : Option String) : ErrOrOk (newVersion s p b a) s := by
  unfold newVersion ErrOrOk
  repeat' split
  all_goals (try dsimp only)
  all_goals (repeat' split)
  all_goals first | (left; rfl) | (right; exact ⟨_, _, rfl⟩)

theorem commit_cases (s : State) (u : String) : ErrOrOk (commit s u) s := by
  unfold commit ErrOrOk
  repeat' split
  all_goals (try dsimp only)
  all_goals (repeat' split)
  all_goals first | (left; rfl) | (right; exact ⟨_, _, rfl⟩)

theorem newRepo_cases (s : State) (a : Option String) : ErrOrOk (newRepo s a) s := by
  unfold newRepo ErrOrOk
  repeat' split
  all_goals (try dsimp only)
  all_goals (repeat' split)
  all_goals first | (left; rfl) | (right; exact ⟨_, _, rfl⟩)

theorem merge_cases (s : State) (ps : List String) : ErrOrOk (merge s ps) s := by
  unfold merge ErrOrOk
  simp only [Gen.mergeValidatesFirst, if_true]
  repeat' split
  all_goals (try dsimp only)
  all_goals (repeat' split)
  all_goals first | (left; rfl) | (right; exact ⟨_, _, rfl⟩)

theorem deleteRepo_cases (s : State) (u : String) : ErrOrOk (deleteRepo s u) s := by
  unfold deleteRepo ErrOrOk
  repeat' split
  all_goals (try dsimp only)
  all_goals (repeat' split)
  all_goals first | (left; rfl) | (right; exact ⟨_, _, rfl⟩)

theorem newVersion_err (s : State) (p b : String) (a : Option String) (h : (newVersion s p b a).2 = .err) :
    (newVersion s p b a).1 = s := errOrOk_err (newVersion_cases s p b a) h
theorem commit_err (s : State) (u : String) (h : (commit s u).2 = .err) : (commit s u).1 = s :=
  errOrOk_err (commit_cases s u) h
theorem newRepo_err (s : State) (a : Option String) (h : (newRepo s a).2 = .err) : (newRepo s a).1 = s :=
  errOrOk_err (newRepo_cases s a) h
theorem merge_err (s : State) (ps : List String) (h : (merge s ps).2 = .err) : (merge s ps).1 = s :=
  errOrOk_err (merge_cases s ps) h
theorem deleteRepo_err (s : State) (u : String) (h : (deleteRepo s u).2 = .err) : (deleteRepo s u).1 = s :=
  errOrOk_err (deleteRepo_cases s u) h

theorem tag_err (s : State) (p t : String) (h : (tag s p t).2 = .err) : (tag s p t).1 = s := by
  unfold tag at h ⊢
  simp only [Gen.tagRejectsEmpty, Gen.tagCommitsOnlyOnSuccess, Bool.true_and] at h ⊢
  split
  · rfl
  · rename_i hne
    simp only [hne] at h
    rcases newVersion_cases s p ("tag-" ++ t) (some t) with hc | ⟨s', u, hc⟩
    · rw [hc]; simp
    · rw [hc] at h; simp at h

/-- **A request that is answered with an error leaves the graph, the branch heads and the identifier maps
    exactly as they were** — for every state and every request (any arguments). -/
theorem error_leaves_state (s : State) (r : Req) (h : (step s r).2 = .err) : (step s r).1 = s := by
  cases r with
  | newRepo a => exact newRepo_err s a h
  | commit u => exact commit_err s u h
  | newVersion p a =>
    simp only [step] at h ⊢
    cases a with
    | none => exact newVersion_err s p "" none h
    | some u =>
      simp only at h ⊢
      split
      · rename_i hv; simp only [hv, if_true] at h; exact newVersion_err s p "" (some u) h
      · rfl
  | branch p name a =>
    simp only [step] at h ⊢
    split
    · rfl
    · rename_i hn
      simp only [hn] at h
      cases a with
      | none => exact newVersion_err s p name none h
      | some u =>
        simp only at h ⊢
        split
        · rename_i hv; simp only [hv, if_true] at h; exact newVersion_err s p name (some u) h
        · rfl
  | tag p t => exact tag_err s p t h
  | merge ps => exact merge_err s ps h
  | deleteRepo u => exact deleteRepo_err s u h

end Dvid.Props.C07

namespace Dvid.Props.C07
open Dvid Dvid.Manager

/-! ### graph invariant: version ids only grow, parents are older, committed, and in the same repo -/

/-- every node's version id is below the allocation counter; every parent is an existing, committed node of
    the same repo with a smaller version id (so the graph is acyclic and a new version only ever hangs off
    a committed parent) -/
def InvN (ns : List Node) (nv : Nat) : Prop :=
  (∀ n ∈ ns, n.v < nv) ∧
  (∀ n ∈ ns, ∀ p ∈ n.parents, p < n.v ∧ ∃ m ∈ ns, m.v = p ∧ m.repo = n.repo ∧ m.locked = true)

def Inv (s : State) : Prop := InvN s.nodes s.nextV

/-- a node update that keeps identity, repo, parents and never un-commits -/
def Pres (g : Node → Node) : Prop :=
  ∀ n, (g n).v = n.v ∧ (g n).repo = n.repo ∧ (g n).parents = n.parents ∧ (n.locked = true → (g n).locked = true)

theorem invN_mono {ns : List Node} {a b : Nat} (h : InvN ns a) (hab : a ≤ b) : InvN ns b :=
  ⟨fun n hn => Nat.lt_of_lt_of_le (h.1 n hn) hab, h.2⟩

theorem invN_map {ns : List Node} {a : Nat} (g : Node → Node) (hg : Pres g) (h : InvN ns a) : InvN (ns.map g) a := by
  constructor
  · intro n hn
    obtain ⟨n0, hn0, rfl⟩ := List.mem_map.mp hn
    rw [(hg n0).1]; exact h.1 n0 hn0
  · intro n hn p hp
    obtain ⟨n0, hn0, rfl⟩ := List.mem_map.mp hn
    rw [(hg n0).2.2.1] at hp
    obtain ⟨hlt, m, hm, hmv, hmr, hml⟩ := h.2 n0 hn0 p hp
    refine ⟨by rw [(hg n0).1]; exact hlt, g m, List.mem_map.mpr ⟨m, hm, rfl⟩, ?_, ?_, ?_⟩
    · rw [(hg m).1]; exact hmv
    · rw [(hg m).2.1, (hg n0).2.1]; exact hmr
    · exact (hg m).2.2.2 hml

theorem pres_ite (c : Node → Prop) [DecidablePred c] (f : Node → Node) (hf : Pres f) :
    Pres (fun n => if c n then f n else n) := by
  intro n
  by_cases h : c n
  · simp only [h, if_true]; exact hf n
  · simp [h]

theorem updNode_inv (s : State) (repo : String) (v : Nat) (f : Node → Node) (hf : Pres f) (h : Inv s) :
    Inv (s.updNode repo v f) := by
  unfold Inv State.updNode
  exact invN_map _ (pres_ite (fun n => n.v = v ∧ n.repo = repo) f hf) h

theorem pres_addChild (c : Nat) : Pres (fun n => { n with children := n.children ++ [c] }) := by
  intro n; simp
theorem pres_lock : Pres (fun n => { n with locked := true }) := by
  intro n; simp

/-- appending a new node with the next version id whose parents are existing committed nodes of its repo -/
theorem invN_snoc {ns : List Node} {nv : Nat} (h : InvN ns nv) (c : Node) (hv : c.v = nv)
    (hp : ∀ p ∈ c.parents, ∃ m ∈ ns, m.v = p ∧ m.repo = c.repo ∧ m.locked = true) : InvN (ns ++ [c]) (nv + 1) := by
  constructor
  · intro n hn
    rcases List.mem_append.mp hn with hn | hn
    · exact Nat.lt_succ_of_lt (h.1 n hn)
    · simp only [List.mem_singleton] at hn; subst hn; omega
  · intro n hn p hpp
    rcases List.mem_append.mp hn with hn | hn
    · obtain ⟨hlt, m, hm, r⟩ := h.2 n hn p hpp
      exact ⟨hlt, m, List.mem_append_left _ hm, r⟩
    · simp only [List.mem_singleton] at hn; subst hn
      obtain ⟨m, hm, hmv, r⟩ := hp p hpp
      refine ⟨?_, m, List.mem_append_left _ hm, hmv, r⟩
      have := h.1 m hm
      omega

theorem node?_mem {s : State} {repo : String} {v : Nat} {n : Node} (h : s.node? repo v = some n) :
    n ∈ s.nodes ∧ n.v = v ∧ n.repo = repo := by
  unfold State.node? at h
  have hm := List.mem_of_find?_eq_some h
  have hp := List.find?_some h
  simp only [decide_eq_true_eq] at hp
  exact ⟨hm, hp.1, hp.2⟩

theorem newUUID_nodes {s s1 : State} {a : Option String} {u : String} {v : Nat} (h : newUUID s a = some (s1, u, v)) :
    s1.nodes = s.nodes ∧ s1.nextV = s.nextV + 1 ∧ v = s.nextV ∧ s1.repos = s.repos := by
  unfold newUUID at h
  split at h
  · cases h
  · simp only [Option.some.injEq, Prod.mk.injEq] at h
    obtain ⟨rfl, _, rfl⟩ := h
    exact ⟨rfl, rfl, rfl, rfl⟩

/-- no node carries the next version id, so the map-assignment filter in `newVersion` removes nothing -/
theorem filter_fresh {ns : List Node} {nv : Nat} (h : ∀ n ∈ ns, n.v < nv) (repo : String) :
    ns.filter (fun n => !(decide (n.v = nv ∧ n.repo = repo))) = ns := by
  apply List.filter_eq_self.mpr
  intro n hn
  have := h n hn
  simp only [Bool.not_eq_true', decide_eq_false_iff_not, not_and]
  intro e; omega

theorem newRepo_inv (s : State) (a : Option String) (h : Inv s) : Inv (newRepo s a).1 := by
  unfold newRepo
  split
  · exact h
  · split
    · exact h
    · rename_i s1 uuid v hu
      obtain ⟨hn, hv, hvv, _⟩ := newUUID_nodes hu
      unfold Inv at h ⊢
      simp only [hn, hv]
      exact invN_snoc h _ hvv (by intro p hp; simp at hp)

theorem commit_inv (s : State) (u : String) (h : Inv s) : Inv (commit s u).1 := by
  unfold commit
  repeat' split
  all_goals first | exact h | exact updNode_inv s _ _ _ pres_lock h

/-- linking a new child below an existing committed node keeps the invariant -/
theorem attachChild_inv (s s1 : State) (repo : String) (v : Nat) (cu : String) (cv : Nat) (bname : String)
    (node : Node) (h : Inv s) (hn : s1.nodes = s.nodes) (hnv : s1.nextV = s.nextV + 1) (hcv : cv = s.nextV)
    (hmem : node ∈ s.nodes) (hnodev : node.v = v) (hnoder : node.repo = repo) (hl : node.locked = true) :
    Inv (attachChild s1 repo v cu cv bname) := by
  unfold Inv at h ⊢
  unfold attachChild
  simp only [State.updNode, hn, hnv]
  have hfresh : ∀ n ∈ s.nodes.map (fun n => if n.v = v ∧ n.repo = repo then { n with children := n.children ++ [cv] } else n), n.v < cv := by
    intro n hn'
    obtain ⟨n0, hn0, rfl⟩ := List.mem_map.mp hn'
    have := h.1 n0 hn0
    split <;> first | omega | (simp; omega)
  rw [filter_fresh hfresh repo]
  have hbase : InvN (s.nodes.map (fun n => if n.v = v ∧ n.repo = repo then { n with children := n.children ++ [cv] } else n)) s.nextV :=
    invN_map _ (pres_ite (fun n => n.v = v ∧ n.repo = repo) _ (pres_addChild cv)) h
  apply invN_snoc hbase _ hcv
  intro p' hp'
  simp only [List.mem_singleton] at hp'
  rw [hp']
  refine ⟨(if node.v = v ∧ node.repo = repo then { node with children := node.children ++ [cv] } else node),
    List.mem_map.mpr ⟨node, hmem, rfl⟩, ?_, ?_, ?_⟩
  · split <;> simp [hnodev]
  · split <;> simp [hnoder]
  · split <;> simp [hl]

theorem newVersion_inv (s : State) (p b : String) (a : Option String) (h : Inv s) : Inv (newVersion s p b a).1 := by
  unfold newVersion
  cases hr : lookup s.repos p with
  | none => exact h
  | some repo =>
    cases hv : lookup s.u2v p with
    | none => exact h
    | some v =>
      simp only
      cases hnode : s.node? repo v with
      | none => exact h
      | some node =>
        simp only
        cases hl : node.locked with
        | false => simp; exact h
        | true =>
          simp only [Bool.not_true, Bool.false_eq_true, if_false]
          cases hb : branchOk s repo node b with
          | none => exact h
          | some bname =>
            simp only
            cases hu : newUUID s a with
            | none => exact h
            | some t =>
              obtain ⟨s1, cu, cv⟩ := t
              obtain ⟨hn, hnv, hcv, _⟩ := newUUID_nodes hu
              obtain ⟨hmem, hnodev, hnoder⟩ := node?_mem hnode
              exact attachChild_inv s s1 repo v cu cv bname node h hn hnv hcv hmem hnodev hnoder hl

theorem mergeParentOk_spec {s : State} {repo p : String} {v : Nat} (h : mergeParentOk s repo p = some v) :
    ∃ m ∈ s.nodes, m.v = v ∧ m.repo = repo ∧ m.locked = true := by
  unfold mergeParentOk at h
  split at h
  · split at h
    · rename_i n hn
      split at h
      · rename_i hl
        cases h
        obtain ⟨hm, hv, hr⟩ := node?_mem hn
        exact ⟨n, hm, hv, hr, hl⟩
      · cases h
    · cases h
  · cases h

theorem mapM_mergeParentOk {s : State} {repo : String} {ps : List String} {pvs : List Nat}
    (h : ps.mapM (mergeParentOk s repo) = some pvs) :
    ∀ v ∈ pvs, ∃ m ∈ s.nodes, m.v = v ∧ m.repo = repo ∧ m.locked = true := by
  induction ps generalizing pvs with
  | nil => simp at h; subst h; intro v hv; simp at hv
  | cons p rest ih =>
    simp only [List.mapM_cons, Option.bind_eq_bind, Option.pure_def] at h
    cases hp : mergeParentOk s repo p with
    | none => rw [hp] at h; simp at h
    | some v0 =>
      rw [hp] at h
      cases hr : rest.mapM (mergeParentOk s repo) with
      | none => rw [hr] at h; simp at h
      | some vs =>
        rw [hr] at h
        simp at h
        subst h
        intro v hv
        rcases List.mem_cons.mp hv with e | e
        · subst e; exact mergeParentOk_spec hp
        · exact ih hr v e

/-- adding the child to each parent's child list (a fold of `updNode`) is a node-wise update that keeps
    identity, repo, parents and commit flags -/
theorem foldl_updNode_nodes (repo : String) (cv : Nat) (pvs : List Nat) (s : State) :
    ∃ g : Node → Node, Pres g ∧
      (pvs.foldl (fun st pv => st.updNode repo pv (fun n => { n with children := n.children ++ [cv] })) s).nodes = s.nodes.map g ∧
      (pvs.foldl (fun st pv => st.updNode repo pv (fun n => { n with children := n.children ++ [cv] })) s).nextV = s.nextV := by
  induction pvs generalizing s with
  | nil => exact ⟨id, fun _ => ⟨rfl, rfl, rfl, id⟩, by simp, rfl⟩
  | cons pv rest ih =>
    simp only [List.foldl_cons]
    obtain ⟨g, hg, hn, hv⟩ := ih (s.updNode repo pv (fun n => { n with children := n.children ++ [cv] }))
    let f : Node → Node := fun n => if n.v = pv ∧ n.repo = repo then { n with children := n.children ++ [cv] } else n
    have hf : Pres f := pres_ite (fun n => n.v = pv ∧ n.repo = repo) _ (pres_addChild cv)
    refine ⟨g ∘ f, ?_, ?_, ?_⟩
    · intro n
      have a := hf n
      have b := hg (f n)
      exact ⟨by simp [Function.comp, b.1, a.1], by simp [Function.comp, b.2.1, a.2.1],
        by simp [Function.comp, b.2.2.1, a.2.2.1], fun hl => b.2.2.2 (a.2.2.2 hl)⟩
    · rw [hn]; simp [State.updNode, List.map_map, f]
    · rw [hv]; rfl

theorem linkMerge_inv (s s1 : State) (repo : String) (pvs : List Nat) (cu : String) (cv : Nat)
    (h : Inv s) (hn : s1.nodes = s.nodes) (hnv : s1.nextV = s.nextV + 1) (hcv : cv = s.nextV)
    (hp : ∀ v ∈ pvs, ∃ m ∈ s.nodes, m.v = v ∧ m.repo = repo ∧ m.locked = true) :
    Inv (linkMerge s1 repo pvs cu cv) := by
  unfold Inv at h ⊢
  unfold linkMerge
  obtain ⟨g, hg, hgn, hgv⟩ := foldl_updNode_nodes repo cv pvs { s1 with repos := setKey s1.repos cu repo }
  simp only
  rw [hgn, hgv]
  simp only [hn, hnv]
  apply invN_snoc (invN_map g hg h) _ hcv
  intro p hpm
  obtain ⟨m, hm, hmv, hmr, hml⟩ := hp p hpm
  exact ⟨g m, List.mem_map.mpr ⟨m, hm, rfl⟩, by rw [(hg m).1]; exact hmv, by rw [(hg m).2.1]; exact hmr, (hg m).2.2.2 hml⟩

theorem merge_inv (s : State) (ps : List String) (h : Inv s) : Inv (merge s ps).1 := by
  unfold merge
  simp only [Gen.mergeValidatesFirst, if_true]
  split
  · exact h
  · cases hrepo : (ps.head? >>= lookup s.repos) with
    | none => exact h
    | some repo =>
      simp only
      cases hpvs : ps.mapM (mergeParentOk s repo) with
      | none => exact h
      | some pvs =>
        simp only
        split
        · exact h
        · cases hu : newUUID s none with
          | none => exact h
          | some t =>
            obtain ⟨s1, cu, cv⟩ := t
            obtain ⟨hn, hnv, hcv, _⟩ := newUUID_nodes hu
            exact linkMerge_inv s s1 repo pvs cu cv h hn hnv hcv (mapM_mergeParentOk hpvs)

theorem tag_inv (s : State) (p t : String) (h : Inv s) : Inv (tag s p t).1 := by
  unfold tag
  split
  · exact h
  · have h1 := newVersion_inv s p ("tag-" ++ t) (some t) h
    cases hnv : newVersion s p ("tag-" ++ t) (some t) with
    | mk s1 r1 =>
      rw [hnv] at h1
      simp only at h1 ⊢
      cases r1 with
      | err => simp only [Gen.tagCommitsOnlyOnSuccess, if_true]; exact h1
      | ok u => exact commit_inv s1 t h1

theorem deleteRepo_inv (s : State) (u : String) (h : Inv s) : Inv (deleteRepo s u).1 := by
  unfold deleteRepo
  split
  · exact h
  · rename_i repo _
    split
    · exact h
    · -- the fold only edits the id maps
      have hfold : ∀ (l : List Node) (st : State),
          (l.foldl dropIds st).nodes = st.nodes ∧ (l.foldl dropIds st).nextV = st.nextV := by
        intro l
        induction l with
        | nil => intro st; exact ⟨rfl, rfl⟩
        | cons n rest ih =>
          intro st
          simp only [List.foldl_cons]
          have := ih (dropIds st n)
          rw [this.1, this.2]
          unfold dropIds
          split <;> exact ⟨rfl, rfl⟩
      obtain ⟨e1, e2⟩ := hfold (s.nodes.filter (·.repo = repo)) s
      unfold Inv at h ⊢
      simp only [e1, e2]
      constructor
      · intro n hn
        exact h.1 n (List.mem_filter.mp hn).1
      · intro n hn p hp
        have hn' := List.mem_filter.mp hn
        obtain ⟨hlt, m, hm, hmv, hmr, hml⟩ := h.2 n hn'.1 p hp
        refine ⟨hlt, m, List.mem_filter.mpr ⟨hm, ?_⟩, hmv, hmr, hml⟩
        have : n.repo ≠ repo := by simpa using hn'.2
        simp only [decide_eq_true_eq, ne_eq]
        rw [hmr]; exact this

/-- every request preserves the invariant -/
theorem step_inv (s : State) (r : Req) (h : Inv s) : Inv (step s r).1 := by
  cases r with
  | newRepo a => exact newRepo_inv s a h
  | commit u => exact commit_inv s u h
  | newVersion p a =>
    simp only [step]
    cases a with
    | none => exact newVersion_inv s p "" none h
    | some u => simp only; split <;> first | exact newVersion_inv s p "" (some u) h | exact h
  | branch p name a =>
    simp only [step]
    split
    · exact h
    · cases a with
      | none => exact newVersion_inv s p name none h
      | some u => simp only; split <;> first | exact newVersion_inv s p name (some u) h | exact h
  | tag p t => exact tag_inv s p t h
  | merge ps => exact merge_inv s ps h
  | deleteRepo u => exact deleteRepo_inv s u h

/-- **After any sequence of repo-level requests, valid or rejected,** every parent link points to an
    existing, committed, older node of the same repo: the graph is acyclic (`parents_lt`), and a new version
    only ever hangs off a committed parent. -/
theorem reachable_inv (rs : List Req) : Inv (rs.foldl (fun s r => (step s r).1) init) := by
  suffices h : ∀ s, Inv s → Inv (rs.foldl (fun s r => (step s r).1) s) by
    exact h init ⟨by intro n hn; simp [init] at hn, by intro n hn; simp [init] at hn⟩
  induction rs with
  | nil => intro s hs; exact hs
  | cons r rest ih => intro s hs; exact ih _ (step_inv s r hs)

/-- the DAG of every reachable manager state satisfies the well-formedness hypothesis (`Dag.WF`) under which
    C01's resolver theorems are stated: every parent id is smaller than its child's -/
theorem parents_lt (rs : List Req) :
    ∀ n ∈ (rs.foldl (fun s r => (step s r).1) init).nodes, ∀ p ∈ n.parents, p < n.v :=
  fun n hn p hp => ((reachable_inv rs).2 n hn p hp).1

/- Non-vacuity: a concrete history with a branch, a merge and refused requests reaches a state with a
   two-parent node. -/
example :
    let s := [Req.newRepo none, .commit "g1", .newVersion "g1" none, .branch "g1" "dev" none, .merge ["g2", "g3"],
              .commit "g2", .commit "g3", .merge ["g2", "g3"], .merge ["g2", "g2"]].foldl (fun s r => (step s r).1) init
    (s.nodes.map (fun n => (n.v, n.parents))) = [(1, []), (2, [1]), (3, [1]), (4, [2, 3])] := by
  decide

end Dvid.Props.C07

namespace Dvid.Props.C07
open Dvid Dvid.Manager

/-! ### identifiers: every version id and every UUID names exactly one node -/

/-- a version id names one node; the two identifier maps agree with the nodes -/
def IdL (ns : List Node) (u2v : List (String × Nat)) (v2u : List (Nat × String)) : Prop :=
  (∀ n ∈ ns, ∀ m ∈ ns, n.v = m.v → n = m) ∧
  (∀ n ∈ ns, lookup u2v n.uuid = some n.v) ∧
  (∀ n ∈ ns, lookup v2u n.v = some n.uuid)

def IdInv (s : State) : Prop := IdL s.nodes s.u2v s.v2u

def PresId (g : Node → Node) : Prop := ∀ n, (g n).v = n.v ∧ (g n).uuid = n.uuid

theorem idL_map {ns : List Node} {a : List (String × Nat)} {b : List (Nat × String)} (g : Node → Node)
    (hg : PresId g) (h : IdL ns a b) : IdL (ns.map g) a b := by
  refine ⟨?_, ?_, ?_⟩
  · intro n hn m hm e
    obtain ⟨n0, hn0, rfl⟩ := List.mem_map.mp hn
    obtain ⟨m0, hm0, rfl⟩ := List.mem_map.mp hm
    rw [(hg n0).1, (hg m0).1] at e
    rw [h.1 n0 hn0 m0 hm0 e]
  · intro n hn
    obtain ⟨n0, hn0, rfl⟩ := List.mem_map.mp hn
    rw [(hg n0).1, (hg n0).2]; exact h.2.1 n0 hn0
  · intro n hn
    obtain ⟨n0, hn0, rfl⟩ := List.mem_map.mp hn
    rw [(hg n0).1, (hg n0).2]; exact h.2.2 n0 hn0

theorem idL_snoc {ns : List Node} {a : List (String × Nat)} {b : List (Nat × String)} (h : IdL ns a b) (c : Node)
    (hfresh : ∀ n ∈ ns, n.v ≠ c.v) (hu : lookup a c.uuid = some c.v) (hv : lookup b c.v = some c.uuid) :
    IdL (ns ++ [c]) a b := by
  refine ⟨?_, ?_, ?_⟩
  · intro n hn m hm e
    rcases List.mem_append.mp hn with hn1 | hn1 <;> rcases List.mem_append.mp hm with hm1 | hm1
    · exact h.1 n hn1 m hm1 e
    · simp only [List.mem_singleton] at hm1; rw [hm1] at e; exact absurd e (hfresh n hn1)
    · simp only [List.mem_singleton] at hn1; rw [hn1] at e; exact absurd e.symm (hfresh m hm1)
    · simp only [List.mem_singleton] at hn1 hm1; rw [hn1, hm1]
  · intro n hn
    rcases List.mem_append.mp hn with hn | hn
    · exact h.2.1 n hn
    · simp only [List.mem_singleton] at hn; subst hn; exact hu
  · intro n hn
    rcases List.mem_append.mp hn with hn | hn
    · exact h.2.2 n hn
    · simp only [List.mem_singleton] at hn; subst hn; exact hv

theorem presId_ite (c : Node → Prop) [DecidablePred c] (f : Node → Node) (hf : PresId f) :
    PresId (fun n => if c n then f n else n) := by
  intro n
  by_cases h : c n
  · simp only [h, if_true]; exact hf n
  · simp [h]

theorem presId_addChild (c : Nat) : PresId (fun n => { n with children := n.children ++ [c] }) := by
  intro n; simp
theorem presId_lock : PresId (fun n => { n with locked := true }) := by
  intro n; simp

/-- allocating an identifier: the uuid is new (the existence check of `newUUID`, a regenerated fact), the version
    id is the counter; the maps then name the new pair and still name every old node -/
theorem newUUID_ids {s s1 : State} {a : Option String} {u : String} {v : Nat} (h : newUUID s a = some (s1, u, v))
    (hi : Inv s) (hid : IdInv s) :
    IdL s.nodes s1.u2v s1.v2u ∧ lookup s1.u2v u = some v ∧ lookup s1.v2u v = some u ∧ (∀ n ∈ s.nodes, n.v ≠ v) := by
  unfold newUUID at h
  simp only [Gen.newUUIDChecksExisting, Bool.true_and] at h
  split at h
  · cases h
  · rename_i hfree
    simp only [Option.some.injEq, Prod.mk.injEq] at h
    obtain ⟨rfl, rfl, rfl⟩ := h
    have hfree' : lookup s.u2v (uuidFor a s.nextV) = none := by
      cases hl : lookup s.u2v (uuidFor a s.nextV) with
      | none => rfl
      | some x => rw [hl] at hfree; simp at hfree
    have hvne : ∀ n ∈ s.nodes, n.v ≠ s.nextV := fun n hn => Nat.ne_of_lt (hi.1 n hn)
    refine ⟨⟨hid.1, ?_, ?_⟩, lookup_setKey_eq _ _ _, lookup_setKey_eq _ _ _, hvne⟩
    · intro n hn
      have hne : n.uuid ≠ uuidFor a s.nextV := by
        intro e
        have := hid.2.1 n hn
        rw [e, hfree'] at this; cases this
      simp only
      rw [lookup_setKey_ne _ _ _ _ hne]; exact hid.2.1 n hn
    · intro n hn
      simp only
      rw [lookup_setKey_ne _ _ _ _ (hvne n hn)]; exact hid.2.2 n hn

theorem newRepo_id (s : State) (a : Option String) (hi : Inv s) (hid : IdInv s) : IdInv (newRepo s a).1 := by
  unfold newRepo
  split
  · exact hid
  · split
    · exact hid
    · rename_i s1 uuid v hu
      obtain ⟨hn, _, _, _⟩ := newUUID_nodes hu
      obtain ⟨hl, h1, h2, h3⟩ := newUUID_ids hu hi hid
      unfold IdInv
      simp only [hn]
      exact idL_snoc hl _ h3 h1 h2

theorem updNode_id (s : State) (repo : String) (v : Nat) (f : Node → Node) (hf : PresId f) (h : IdInv s) :
    IdInv (s.updNode repo v f) := by
  unfold IdInv State.updNode
  exact idL_map _ (presId_ite (fun n => n.v = v ∧ n.repo = repo) f hf) h

theorem commit_id (s : State) (u : String) (h : IdInv s) : IdInv (commit s u).1 := by
  unfold commit
  repeat' split
  all_goals first | exact h | exact updNode_id s _ _ _ presId_lock h

theorem attachChild_id (s s1 : State) (repo : String) (v : Nat) (cu : String) (cv : Nat) (bname : String)
    (hn : s1.nodes = s.nodes) (hl : IdL s.nodes s1.u2v s1.v2u) (h1 : lookup s1.u2v cu = some cv)
    (h2 : lookup s1.v2u cv = some cu) (h3 : ∀ n ∈ s.nodes, n.v ≠ cv) :
    IdInv (attachChild s1 repo v cu cv bname) := by
  unfold IdInv attachChild
  simp only [State.updNode, hn]
  have hmapv : ∀ n ∈ s.nodes.map (fun n => if n.v = v ∧ n.repo = repo then { n with children := n.children ++ [cv] } else n), n.v ≠ cv := by
    intro n hn'
    obtain ⟨n0, hn0, rfl⟩ := List.mem_map.mp hn'
    have := h3 n0 hn0
    split <;> simpa using this
  have hfil : (s.nodes.map (fun n => if n.v = v ∧ n.repo = repo then { n with children := n.children ++ [cv] } else n)).filter
      (fun n => !(decide (n.v = cv ∧ n.repo = repo))) =
      s.nodes.map (fun n => if n.v = v ∧ n.repo = repo then { n with children := n.children ++ [cv] } else n) := by
    apply List.filter_eq_self.mpr
    intro n hn'
    have := hmapv n hn'
    simp only [Bool.not_eq_true', decide_eq_false_iff_not, not_and]
    intro e; exact absurd e this
  rw [hfil]
  exact idL_snoc (idL_map _ (presId_ite (fun n => n.v = v ∧ n.repo = repo) _ (presId_addChild cv)) hl) _ hmapv h1 h2

theorem newVersion_id (s : State) (p b : String) (a : Option String) (hi : Inv s) (h : IdInv s) :
    IdInv (newVersion s p b a).1 := by
  unfold newVersion
  cases hr : lookup s.repos p with
  | none => exact h
  | some repo =>
    cases hv : lookup s.u2v p with
    | none => exact h
    | some v =>
      simp only
      cases hnode : s.node? repo v with
      | none => exact h
      | some node =>
        simp only
        cases hl : node.locked with
        | false => simp; exact h
        | true =>
          simp only [Bool.not_true, Bool.false_eq_true, if_false]
          cases hb : branchOk s repo node b with
          | none => exact h
          | some bname =>
            simp only
            cases hu : newUUID s a with
            | none => exact h
            | some t =>
              obtain ⟨s1, cu, cv⟩ := t
              obtain ⟨hn, _, _, _⟩ := newUUID_nodes hu
              obtain ⟨hl', h1, h2, h3⟩ := newUUID_ids hu hi h
              exact attachChild_id s s1 repo v cu cv bname hn hl' h1 h2 h3

/-- the fold of `updNode` in `linkMerge` is one node-wise update that keeps identity, repo, parents, commit flags
    and uuids, leaves the identifier maps alone, and adds the child id to exactly the listed parents of the repo -/
theorem foldl_updNode_full (repo : String) (cv : Nat) (pvs : List Nat) (s : State) :
    ∃ g : Node → Node, Pres g ∧ PresId g ∧
      (∀ n x, x ∈ (g n).children ↔ x ∈ n.children ∨ (x = cv ∧ n.repo = repo ∧ n.v ∈ pvs)) ∧
      (pvs.foldl (fun st pv => st.updNode repo pv (fun n => { n with children := n.children ++ [cv] })) s).nodes = s.nodes.map g ∧
      (pvs.foldl (fun st pv => st.updNode repo pv (fun n => { n with children := n.children ++ [cv] })) s).nextV = s.nextV ∧
      (pvs.foldl (fun st pv => st.updNode repo pv (fun n => { n with children := n.children ++ [cv] })) s).u2v = s.u2v ∧
      (pvs.foldl (fun st pv => st.updNode repo pv (fun n => { n with children := n.children ++ [cv] })) s).v2u = s.v2u := by
  induction pvs generalizing s with
  | nil => exact ⟨id, fun _ => ⟨rfl, rfl, rfl, id⟩, fun _ => ⟨rfl, rfl⟩, by intro n x; simp, by simp, rfl, rfl, rfl⟩
  | cons pv rest ih =>
    simp only [List.foldl_cons]
    obtain ⟨g, hg, hgi, hgc, hn, hv, hu, hw⟩ := ih (s.updNode repo pv (fun n => { n with children := n.children ++ [cv] }))
    let f : Node → Node := fun n => if n.v = pv ∧ n.repo = repo then { n with children := n.children ++ [cv] } else n
    have hf : Pres f := pres_ite (fun n => n.v = pv ∧ n.repo = repo) _ (pres_addChild cv)
    have hfi : PresId f := presId_ite (fun n => n.v = pv ∧ n.repo = repo) _ (presId_addChild cv)
    refine ⟨g ∘ f, ?_, ?_, ?_, ?_, ?_, ?_, ?_⟩
    · intro n
      have a := hf n
      have b := hg (f n)
      exact ⟨by simp [Function.comp, b.1, a.1], by simp [Function.comp, b.2.1, a.2.1],
        by simp [Function.comp, b.2.2.1, a.2.2.1], fun hl => b.2.2.2 (a.2.2.2 hl)⟩
    · intro n
      have a := hfi n
      have b := hgi (f n)
      exact ⟨by simp [Function.comp, b.1, a.1], by simp [Function.comp, b.2, a.2]⟩
    · intro n x
      simp only [Function.comp]
      rw [hgc (f n) x, (hf n).1, (hf n).2.1]
      have hfc : x ∈ (f n).children ↔ x ∈ n.children ∨ (x = cv ∧ n.v = pv ∧ n.repo = repo) := by
        by_cases hc : n.v = pv ∧ n.repo = repo
        · simp [f, hc]
        · simp [f, hc]
      rw [hfc]
      simp only [List.mem_cons]
      constructor
      · rintro ((h | ⟨h1, h2, h3⟩) | ⟨h1, h2, h3⟩)
        · exact Or.inl h
        · exact Or.inr ⟨h1, h3, Or.inl h2⟩
        · exact Or.inr ⟨h1, h2, Or.inr h3⟩
      · rintro (h | ⟨h1, h2, h3 | h3⟩)
        · exact Or.inl (Or.inl h)
        · exact Or.inl (Or.inr ⟨h1, h3, h2⟩)
        · exact Or.inr ⟨h1, h2, h3⟩
    · rw [hn]; simp [State.updNode, List.map_map, f]
    · rw [hv]; rfl
    · rw [hu]; rfl
    · rw [hw]; rfl

theorem linkMerge_id (s s1 : State) (repo : String) (pvs : List Nat) (cu : String) (cv : Nat)
    (hn : s1.nodes = s.nodes) (hl : IdL s.nodes s1.u2v s1.v2u) (h1 : lookup s1.u2v cu = some cv)
    (h2 : lookup s1.v2u cv = some cu) (h3 : ∀ n ∈ s.nodes, n.v ≠ cv) :
    IdInv (linkMerge s1 repo pvs cu cv) := by
  unfold IdInv linkMerge
  obtain ⟨g, _, hgi, _, hgn, _, hgu, hgw⟩ := foldl_updNode_full repo cv pvs { s1 with repos := setKey s1.repos cu repo }
  simp only
  rw [hgn, hgu, hgw]
  simp only [hn]
  apply idL_snoc (idL_map g hgi hl) _ _ h1 h2
  intro n hn'
  obtain ⟨n0, hn0, rfl⟩ := List.mem_map.mp hn'
  rw [(hgi n0).1]; exact h3 n0 hn0

theorem merge_id (s : State) (ps : List String) (hi : Inv s) (h : IdInv s) : IdInv (merge s ps).1 := by
  unfold merge
  simp only [Gen.mergeValidatesFirst, if_true]
  split
  · exact h
  · cases hrepo : (ps.head? >>= lookup s.repos) with
    | none => exact h
    | some repo =>
      simp only
      cases hpvs : ps.mapM (mergeParentOk s repo) with
      | none => exact h
      | some pvs =>
        simp only
        split
        · exact h
        · cases hu : newUUID s none with
          | none => exact h
          | some t =>
            obtain ⟨s1, cu, cv⟩ := t
            obtain ⟨hn, _, _, _⟩ := newUUID_nodes hu
            obtain ⟨hl', h1, h2, h3⟩ := newUUID_ids hu hi h
            exact linkMerge_id s s1 repo pvs cu cv hn hl' h1 h2 h3

theorem tag_id (s : State) (p t : String) (hi : Inv s) (h : IdInv s) : IdInv (tag s p t).1 := by
  unfold tag
  split
  · exact h
  · have h1 := newVersion_id s p ("tag-" ++ t) (some t) hi h
    cases hnv : newVersion s p ("tag-" ++ t) (some t) with
    | mk s1 r1 =>
      rw [hnv] at h1
      simp only at h1 ⊢
      cases r1 with
      | err => simp only [Gen.tagCommitsOnlyOnSuccess, if_true]; exact h1
      | ok u => exact commit_id s1 t h1

/-- `deleteRepo`'s loop forgets the identifiers of the repo's own versions only: a node of another repo keeps
    both of its map entries, because no two nodes share a version id or a uuid -/
theorem dropIds_fold (repo : String) (s : State) (hid : IdInv s) (l : List Node) :
    ∀ st : State, (∀ m ∈ l, m ∈ s.nodes ∧ m.repo = repo) →
      (∀ n ∈ s.nodes, n.repo ≠ repo → lookup st.u2v n.uuid = some n.v ∧ lookup st.v2u n.v = some n.uuid) →
      (∀ k u, lookup st.v2u k = some u → lookup s.v2u k = some u) →
      (∀ n ∈ s.nodes, n.repo ≠ repo →
        lookup (l.foldl dropIds st).u2v n.uuid = some n.v ∧ lookup (l.foldl dropIds st).v2u n.v = some n.uuid) := by
  induction l with
  | nil => intro st _ h2 _; exact h2
  | cons m rest ih =>
    intro st hl h2 h3
    simp only [List.foldl_cons]
    obtain ⟨hm, hmr⟩ := hl m (by simp)
    apply ih (dropIds st m) (fun x hx => hl x (by simp [hx]))
    · intro n hn hnr
      unfold dropIds
      cases hlk : lookup st.v2u m.v with
      | none => exact h2 n hn hnr
      | some u =>
        have hu : u = m.uuid := by
          have a := h3 _ _ hlk
          rw [hid.2.2 m hm] at a
          exact (Option.some.inj a).symm
        have hvne : n.v ≠ m.v := by
          intro e
          have := hid.1 n hn m hm e
          rw [this] at hnr; exact hnr hmr
        have hune : n.uuid ≠ u := by
          rw [hu]
          intro e
          have a := hid.2.1 n hn
          rw [e, hid.2.1 m hm] at a
          exact hvne (Option.some.inj a).symm
        simp only
        rw [lookup_delKey_ne _ _ _ hune, lookup_delKey_ne _ _ _ hvne]
        exact h2 n hn hnr
    · intro k u hk
      unfold dropIds at hk
      cases hlk : lookup st.v2u m.v with
      | none => rw [hlk] at hk; exact h3 k u hk
      | some u' =>
        rw [hlk] at hk
        simp only at hk
        by_cases e : k = m.v
        · rw [e, lookup_delKey_eq] at hk; cases hk
        · rw [lookup_delKey_ne _ _ _ e] at hk; exact h3 k u hk

theorem dropIds_fold_nodes (l : List Node) (st : State) : (l.foldl dropIds st).nodes = st.nodes := by
  induction l generalizing st with
  | nil => rfl
  | cons n rest ih =>
    simp only [List.foldl_cons]
    rw [ih]
    unfold dropIds
    split <;> rfl

theorem deleteRepo_id (s : State) (u : String) (h : IdInv s) : IdInv (deleteRepo s u).1 := by
  unfold deleteRepo
  split
  · exact h
  · rename_i repo _
    split
    · exact h
    · have hf := dropIds_fold repo s h (s.nodes.filter (·.repo = repo)) s
        (by intro m hm; have := List.mem_filter.mp hm; exact ⟨this.1, by simpa using this.2⟩)
        (by intro n hn _; exact ⟨h.2.1 n hn, h.2.2 n hn⟩) (by intro k u hk; exact hk)
      unfold IdInv
      simp only [dropIds_fold_nodes]
      refine ⟨?_, ?_, ?_⟩
      · intro n hn m hm e
        exact h.1 n (List.mem_filter.mp hn).1 m (List.mem_filter.mp hm).1 e
      · intro n hn
        have hn' := List.mem_filter.mp hn
        exact (hf n hn'.1 (by simpa using hn'.2)).1
      · intro n hn
        have hn' := List.mem_filter.mp hn
        exact (hf n hn'.1 (by simpa using hn'.2)).2

theorem step_id (s : State) (r : Req) (hi : Inv s) (h : IdInv s) : IdInv (step s r).1 := by
  cases r with
  | newRepo a => exact newRepo_id s a hi h
  | commit u => exact commit_id s u h
  | newVersion p a =>
    simp only [step]
    cases a with
    | none => exact newVersion_id s p "" none hi h
    | some u => simp only; split <;> first | exact newVersion_id s p "" (some u) hi h | exact h
  | branch p name a =>
    simp only [step]
    split
    · exact h
    · cases a with
      | none => exact newVersion_id s p name none hi h
      | some u => simp only; split <;> first | exact newVersion_id s p name (some u) hi h | exact h
  | tag p t => exact tag_id s p t hi h
  | merge ps => exact merge_id s ps hi h
  | deleteRepo u => exact deleteRepo_id s u h

theorem reachable_id (rs : List Req) : IdInv (rs.foldl (fun s r => (step s r).1) init) := by
  suffices h : ∀ s, Inv s → IdInv s → Inv (rs.foldl (fun s r => (step s r).1) s) ∧ IdInv (rs.foldl (fun s r => (step s r).1) s) by
    exact (h init ⟨by intro n hn; simp [init] at hn, by intro n hn; simp [init] at hn⟩
      ⟨by intro n hn; simp [init] at hn, by intro n hn; simp [init] at hn, by intro n hn; simp [init] at hn⟩).2
  induction rs with
  | nil => intro s hs hid; exact ⟨hs, hid⟩
  | cons r rest ih => intro s hs hid; exact ih _ (step_inv s r hs) (step_id s r hs hid)

/-- **every UUID and every local version id names exactly one node**, after any sequence of requests (valid,
    rejected, caller-assigned or duplicate identifiers, repo deletions and re-use of a deleted repo's UUIDs) -/
theorem ids_name_one_node (rs : List Req) :
    let s := rs.foldl (fun s r => (step s r).1) init
    (∀ n ∈ s.nodes, ∀ m ∈ s.nodes, n.v = m.v → n = m) ∧
    (∀ n ∈ s.nodes, ∀ m ∈ s.nodes, n.uuid = m.uuid → n = m) ∧
    (∀ n ∈ s.nodes, lookup s.u2v n.uuid = some n.v ∧ lookup s.v2u n.v = some n.uuid) := by
  intro s
  have h := reachable_id rs
  refine ⟨h.1, ?_, fun n hn => ⟨h.2.1 n hn, h.2.2 n hn⟩⟩
  intro n hn m hm e
  have a := h.2.1 n hn
  rw [e, h.2.1 m hm] at a
  exact h.1 n hn m hm (Option.some.inj a).symm

/-! ### links: parent and child lists mirror each other, one root per repo -/

/-- every child id in a child list names a node of the same repo that lists this node as a parent, and the
    other way round; a node without parents is the root its repo is named after -/
def LinkL (ns : List Node) : Prop :=
  (∀ n ∈ ns, ∀ c ∈ n.children, ∃ m ∈ ns, m.v = c ∧ m.repo = n.repo ∧ n.v ∈ m.parents) ∧
  (∀ m ∈ ns, ∀ p ∈ m.parents, ∃ n ∈ ns, n.v = p ∧ n.repo = m.repo ∧ m.v ∈ n.children) ∧
  (∀ n ∈ ns, n.parents = [] → n.uuid = n.repo)

def LinkInv (s : State) : Prop := LinkL s.nodes

/-- linking a new node `c` below the nodes `pvs` of `repo`: the parents get the child id, the child lists them -/
theorem linkL_attach {ns : List Node} (h : LinkL ns) (g : Node → Node) (hg : Pres g) (hgi : PresId g)
    (repo : String) (cv : Nat) (pvs : List Nat)
    (hgc : ∀ n x, x ∈ (g n).children ↔ x ∈ n.children ∨ (x = cv ∧ n.repo = repo ∧ n.v ∈ pvs))
    (c : Node) (hcv : c.v = cv) (hcr : c.repo = repo) (hcp : c.parents = pvs) (hcc : c.children = [])
    (hne : pvs ≠ []) (hp : ∀ p ∈ pvs, ∃ m ∈ ns, m.v = p ∧ m.repo = repo) :
    LinkL (ns.map g ++ [c]) := by
  refine ⟨?_, ?_, ?_⟩
  · intro n hn x hx
    rcases List.mem_append.mp hn with hn1 | hn1
    · obtain ⟨n0, hn0, rfl⟩ := List.mem_map.mp hn1
      rcases (hgc n0 x).mp hx with hx1 | ⟨hx1, hx2, hx3⟩
      · obtain ⟨m, hm, hmv, hmr, hmp⟩ := h.1 n0 hn0 x hx1
        refine ⟨g m, List.mem_append_left _ (List.mem_map.mpr ⟨m, hm, rfl⟩), ?_, ?_, ?_⟩
        · rw [(hg m).1]; exact hmv
        · rw [(hg m).2.1, (hg n0).2.1]; exact hmr
        · rw [(hg m).2.2.1, (hg n0).1]; exact hmp
      · refine ⟨c, List.mem_append_right _ (by simp), ?_, ?_, ?_⟩
        · rw [hcv, hx1]
        · rw [hcr, (hg n0).2.1, hx2]
        · rw [hcp, (hg n0).1]; exact hx3
    · simp only [List.mem_singleton] at hn1
      rw [hn1, hcc] at hx; cases hx
  · intro m hm p hpm
    rcases List.mem_append.mp hm with hm1 | hm1
    · obtain ⟨m0, hm0, rfl⟩ := List.mem_map.mp hm1
      rw [(hg m0).2.2.1] at hpm
      obtain ⟨n, hn, hnv, hnr, hnc⟩ := h.2.1 m0 hm0 p hpm
      refine ⟨g n, List.mem_append_left _ (List.mem_map.mpr ⟨n, hn, rfl⟩), ?_, ?_, ?_⟩
      · rw [(hg n).1]; exact hnv
      · rw [(hg n).2.1, (hg m0).2.1]; exact hnr
      · rw [(hg m0).1]; exact (hgc n _).mpr (Or.inl hnc)
    · simp only [List.mem_singleton] at hm1
      rw [hm1, hcp] at hpm
      obtain ⟨n, hn, hnv, hnr⟩ := hp p hpm
      refine ⟨g n, List.mem_append_left _ (List.mem_map.mpr ⟨n, hn, rfl⟩), ?_, ?_, ?_⟩
      · rw [(hg n).1]; exact hnv
      · rw [(hg n).2.1, hm1, hcr]; exact hnr
      · rw [hm1, hcv]; exact (hgc n _).mpr (Or.inr ⟨rfl, hnr, hnv ▸ hpm⟩)
  · intro n hn hnp
    rcases List.mem_append.mp hn with hn1 | hn1
    · obtain ⟨n0, hn0, rfl⟩ := List.mem_map.mp hn1
      rw [(hg n0).2.2.1] at hnp
      rw [(hgi n0).2, (hg n0).2.1]; exact h.2.2 n0 hn0 hnp
    · simp only [List.mem_singleton] at hn1
      rw [hn1, hcp] at hnp; exact absurd hnp hne

/-- a node-wise update that keeps ids, repo, parents and children keeps the links -/
theorem linkL_map {ns : List Node} (h : LinkL ns) (g : Node → Node) (hg : Pres g) (hgi : PresId g)
    (hgc : ∀ n, (g n).children = n.children) : LinkL (ns.map g) := by
  refine ⟨?_, ?_, ?_⟩
  · intro n hn x hx
    obtain ⟨n0, hn0, rfl⟩ := List.mem_map.mp hn
    rw [hgc] at hx
    obtain ⟨m, hm, hmv, hmr, hmp⟩ := h.1 n0 hn0 x hx
    exact ⟨g m, List.mem_map.mpr ⟨m, hm, rfl⟩, by rw [(hg m).1]; exact hmv, by rw [(hg m).2.1, (hg n0).2.1]; exact hmr,
      by rw [(hg m).2.2.1, (hg n0).1]; exact hmp⟩
  · intro m hm p hpm
    obtain ⟨m0, hm0, rfl⟩ := List.mem_map.mp hm
    rw [(hg m0).2.2.1] at hpm
    obtain ⟨n, hn, hnv, hnr, hnc⟩ := h.2.1 m0 hm0 p hpm
    exact ⟨g n, List.mem_map.mpr ⟨n, hn, rfl⟩, by rw [(hg n).1]; exact hnv, by rw [(hg n).2.1, (hg m0).2.1]; exact hnr,
      by rw [hgc, (hg m0).1]; exact hnc⟩
  · intro n hn hnp
    obtain ⟨n0, hn0, rfl⟩ := List.mem_map.mp hn
    rw [(hg n0).2.2.1] at hnp
    rw [(hgi n0).2, (hg n0).2.1]; exact h.2.2 n0 hn0 hnp

theorem newRepo_link (s : State) (a : Option String) (h : LinkInv s) : LinkInv (newRepo s a).1 := by
  unfold newRepo
  split
  · exact h
  · split
    · exact h
    · rename_i s1 uuid v hu
      obtain ⟨hn, _, _, _⟩ := newUUID_nodes hu
      unfold LinkInv at h ⊢
      simp only [hn]
      refine ⟨?_, ?_, ?_⟩
      · intro n hn' x hx
        rcases List.mem_append.mp hn' with h1 | h1
        · obtain ⟨m, hm, r⟩ := h.1 n h1 x hx
          exact ⟨m, List.mem_append_left _ hm, r⟩
        · simp only [List.mem_singleton] at h1; rw [h1] at hx; cases hx
      · intro m hm p hp
        rcases List.mem_append.mp hm with h1 | h1
        · obtain ⟨n, hn', r⟩ := h.2.1 m h1 p hp
          exact ⟨n, List.mem_append_left _ hn', r⟩
        · simp only [List.mem_singleton] at h1; rw [h1] at hp; cases hp
      · intro n hn' hp
        rcases List.mem_append.mp hn' with h1 | h1
        · exact h.2.2 n h1 hp
        · simp only [List.mem_singleton] at h1; rw [h1]

theorem commit_link (s : State) (u : String) (h : LinkInv s) : LinkInv (commit s u).1 := by
  unfold commit
  repeat' split
  all_goals first
    | exact h
    | (unfold LinkInv State.updNode
       exact linkL_map h _ (pres_ite _ _ pres_lock) (presId_ite _ _ presId_lock) (by intro n; split <;> rfl))

theorem attachChild_link (s s1 : State) (repo : String) (v : Nat) (cu : String) (cv : Nat) (bname : String)
    (node : Node) (h : LinkInv s) (hn : s1.nodes = s.nodes) (h3 : ∀ n ∈ s.nodes, n.v ≠ cv)
    (hmem : node ∈ s.nodes) (hnodev : node.v = v) (hnoder : node.repo = repo) :
    LinkInv (attachChild s1 repo v cu cv bname) := by
  unfold LinkInv attachChild
  simp only [State.updNode, hn]
  have hmapv : ∀ n ∈ s.nodes.map (fun n => if n.v = v ∧ n.repo = repo then { n with children := n.children ++ [cv] } else n), n.v ≠ cv := by
    intro n hn'
    obtain ⟨n0, hn0, rfl⟩ := List.mem_map.mp hn'
    have := h3 n0 hn0
    split <;> simpa using this
  have hfil : (s.nodes.map (fun n => if n.v = v ∧ n.repo = repo then { n with children := n.children ++ [cv] } else n)).filter
      (fun n => !(decide (n.v = cv ∧ n.repo = repo))) =
      s.nodes.map (fun n => if n.v = v ∧ n.repo = repo then { n with children := n.children ++ [cv] } else n) := by
    apply List.filter_eq_self.mpr
    intro n hn'
    have := hmapv n hn'
    simp only [Bool.not_eq_true', decide_eq_false_iff_not, not_and]
    intro e; exact absurd e this
  rw [hfil]
  apply linkL_attach h _ (pres_ite (fun n => n.v = v ∧ n.repo = repo) _ (pres_addChild cv))
    (presId_ite (fun n => n.v = v ∧ n.repo = repo) _ (presId_addChild cv)) repo cv [v] _ _ rfl rfl rfl rfl (by simp)
  · intro p hp
    simp only [List.mem_singleton] at hp
    exact ⟨node, hmem, by rw [hp]; exact hnodev, hnoder⟩
  · intro n x
    by_cases hc : n.v = v ∧ n.repo = repo
    · simp [hc]
    · have hc' : ¬ (n.repo = repo ∧ n.v = v) := fun e => hc ⟨e.2, e.1⟩
      simp [hc, hc']

theorem newVersion_link (s : State) (p b : String) (a : Option String) (hi : Inv s) (hid : IdInv s) (h : LinkInv s) :
    LinkInv (newVersion s p b a).1 := by
  unfold newVersion
  cases hr : lookup s.repos p with
  | none => exact h
  | some repo =>
    cases hv : lookup s.u2v p with
    | none => exact h
    | some v =>
      simp only
      cases hnode : s.node? repo v with
      | none => exact h
      | some node =>
        simp only
        cases hl : node.locked with
        | false => simp; exact h
        | true =>
          simp only [Bool.not_true, Bool.false_eq_true, if_false]
          cases hb : branchOk s repo node b with
          | none => exact h
          | some bname =>
            simp only
            cases hu : newUUID s a with
            | none => exact h
            | some t =>
              obtain ⟨s1, cu, cv⟩ := t
              obtain ⟨hn, _, _, _⟩ := newUUID_nodes hu
              obtain ⟨_, _, _, h3⟩ := newUUID_ids hu hi hid
              obtain ⟨hmem, hnodev, hnoder⟩ := node?_mem hnode
              exact attachChild_link s s1 repo v cu cv bname node h hn h3 hmem hnodev hnoder

theorem mapM_length {α β : Type} (f : α → Option β) (l : List α) (r : List β) (h : l.mapM f = some r) :
    r.length = l.length := by
  induction l generalizing r with
  | nil => simp at h; subst h; rfl
  | cons a t ih =>
    simp only [List.mapM_cons, Option.bind_eq_bind, Option.pure_def] at h
    cases ha : f a with
    | none => rw [ha] at h; simp at h
    | some b =>
      rw [ha] at h
      cases ht : t.mapM f with
      | none => rw [ht] at h; simp at h
      | some bs =>
        rw [ht] at h; simp at h; subst h
        simp [ih bs ht]

theorem linkMerge_link (s s1 : State) (repo : String) (pvs : List Nat) (cu : String) (cv : Nat)
    (h : LinkInv s) (hn : s1.nodes = s.nodes) (hne : pvs ≠ [])
    (hp : ∀ v ∈ pvs, ∃ m ∈ s.nodes, m.v = v ∧ m.repo = repo ∧ m.locked = true) :
    LinkInv (linkMerge s1 repo pvs cu cv) := by
  unfold LinkInv linkMerge
  obtain ⟨g, hg, hgi, hgc, hgn, _, _, _⟩ := foldl_updNode_full repo cv pvs { s1 with repos := setKey s1.repos cu repo }
  simp only
  rw [hgn]
  simp only [hn]
  exact linkL_attach h g hg hgi repo cv pvs hgc _ rfl rfl rfl rfl hne
    (fun p hpm => by obtain ⟨m, hm, hmv, hmr, _⟩ := hp p hpm; exact ⟨m, hm, hmv, hmr⟩)

theorem merge_link (s : State) (ps : List String) (h : LinkInv s) : LinkInv (merge s ps).1 := by
  unfold merge
  simp only [Gen.mergeValidatesFirst, if_true]
  split
  · exact h
  · rename_i hlen
    cases hrepo : (ps.head? >>= lookup s.repos) with
    | none => exact h
    | some repo =>
      simp only
      cases hpvs : ps.mapM (mergeParentOk s repo) with
      | none => exact h
      | some pvs =>
        simp only
        split
        · exact h
        · cases hu : newUUID s none with
          | none => exact h
          | some t =>
            obtain ⟨s1, cu, cv⟩ := t
            obtain ⟨hn, _, _, _⟩ := newUUID_nodes hu
            have hl := mapM_length _ _ _ hpvs
            have hne : pvs ≠ [] := by
              intro e; rw [e] at hl; simp at hl; omega
            exact linkMerge_link s s1 repo pvs cu cv h hn hne (mapM_mergeParentOk hpvs)

theorem tag_link (s : State) (p t : String) (hi : Inv s) (hid : IdInv s) (h : LinkInv s) : LinkInv (tag s p t).1 := by
  unfold tag
  split
  · exact h
  · have h1 := newVersion_link s p ("tag-" ++ t) (some t) hi hid h
    cases hnv : newVersion s p ("tag-" ++ t) (some t) with
    | mk s1 r1 =>
      rw [hnv] at h1
      simp only at h1 ⊢
      cases r1 with
      | err => simp only [Gen.tagCommitsOnlyOnSuccess, if_true]; exact h1
      | ok u => exact commit_link s1 t h1

theorem deleteRepo_link (s : State) (u : String) (h : LinkInv s) : LinkInv (deleteRepo s u).1 := by
  unfold deleteRepo
  split
  · exact h
  · rename_i repo _
    split
    · exact h
    · unfold LinkInv
      simp only [dropIds_fold_nodes]
      refine ⟨?_, ?_, ?_⟩
      · intro n hn x hx
        have hn' := List.mem_filter.mp hn
        obtain ⟨m, hm, hmv, hmr, hmp⟩ := h.1 n hn'.1 x hx
        refine ⟨m, List.mem_filter.mpr ⟨hm, ?_⟩, hmv, hmr, hmp⟩
        have : n.repo ≠ repo := by simpa using hn'.2
        simp only [decide_eq_true_eq, ne_eq]; rw [hmr]; exact this
      · intro m hm p hp
        have hm' := List.mem_filter.mp hm
        obtain ⟨n, hn, hnv, hnr, hnc⟩ := h.2.1 m hm'.1 p hp
        refine ⟨n, List.mem_filter.mpr ⟨hn, ?_⟩, hnv, hnr, hnc⟩
        have : m.repo ≠ repo := by simpa using hm'.2
        simp only [decide_eq_true_eq, ne_eq]; rw [hnr]; exact this
      · intro n hn hp
        exact h.2.2 n (List.mem_filter.mp hn).1 hp

theorem step_link (s : State) (r : Req) (hi : Inv s) (hid : IdInv s) (h : LinkInv s) : LinkInv (step s r).1 := by
  cases r with
  | newRepo a => exact newRepo_link s a h
  | commit u => exact commit_link s u h
  | newVersion p a =>
    simp only [step]
    cases a with
    | none => exact newVersion_link s p "" none hi hid h
    | some u => simp only; split <;> first | exact newVersion_link s p "" (some u) hi hid h | exact h
  | branch p name a =>
    simp only [step]
    split
    · exact h
    · cases a with
      | none => exact newVersion_link s p name none hi hid h
      | some u => simp only; split <;> first | exact newVersion_link s p name (some u) hi hid h | exact h
  | tag p t => exact tag_link s p t hi hid h
  | merge ps => exact merge_link s ps h
  | deleteRepo u => exact deleteRepo_link s u h

theorem reachable_all (rs : List Req) :
    Inv (rs.foldl (fun s r => (step s r).1) init) ∧ IdInv (rs.foldl (fun s r => (step s r).1) init) ∧
    LinkInv (rs.foldl (fun s r => (step s r).1) init) := by
  suffices h : ∀ s, Inv s → IdInv s → LinkInv s →
      Inv (rs.foldl (fun s r => (step s r).1) s) ∧ IdInv (rs.foldl (fun s r => (step s r).1) s) ∧
      LinkInv (rs.foldl (fun s r => (step s r).1) s) by
    exact h init ⟨by intro n hn; simp [init] at hn, by intro n hn; simp [init] at hn⟩
      ⟨by intro n hn; simp [init] at hn, by intro n hn; simp [init] at hn, by intro n hn; simp [init] at hn⟩
      ⟨by intro n hn; simp [init] at hn, by intro n hn; simp [init] at hn, by intro n hn; simp [init] at hn⟩
  induction rs with
  | nil => intro s a b c; exact ⟨a, b, c⟩
  | cons r rest ih => intro s a b c; exact ih _ (step_inv s r a) (step_id s r a b) (step_link s r a b c)

/-- **parent and child links mirror each other** after any sequence of requests: a child id in a node's child
    list names exactly one node, of the same repo, that lists the node among its parents, and every parent id
    names exactly one node, of the same repo, that lists the child -/
theorem links_mirror (rs : List Req) :
    let s := rs.foldl (fun s r => (step s r).1) init
    (∀ n ∈ s.nodes, ∀ c ∈ n.children, ∃ m ∈ s.nodes, m.v = c ∧ m.repo = n.repo ∧ n.v ∈ m.parents) ∧
    (∀ m ∈ s.nodes, ∀ p ∈ m.parents, ∃ n ∈ s.nodes, n.v = p ∧ n.repo = m.repo ∧ m.v ∈ n.children) :=
  ⟨(reachable_all rs).2.2.1, (reachable_all rs).2.2.2.1⟩

/-- **each repo's graph has a single root**: two nodes without parents in one repo are the same node (the root,
    whose uuid names the repo) -/
theorem single_root (rs : List Req) :
    let s := rs.foldl (fun s r => (step s r).1) init
    ∀ n ∈ s.nodes, ∀ m ∈ s.nodes, n.parents = [] → m.parents = [] → n.repo = m.repo → n = m := by
  intro s n hn m hm hnp hmp hr
  have hl := (reachable_all rs).2.2.2.2
  have e : n.uuid = m.uuid := by rw [hl n hn hnp, hl m hm hmp, hr]
  exact (ids_name_one_node rs).2.1 n hn m hm e

/- Non-vacuity: the history used above (branch, merge, refused requests) reaches a state whose links are
   non-trivial: node 4 has two parents, nodes 2 and 3 list it as a child. -/
example :
    let s := [Req.newRepo none, .commit "g1", .newVersion "g1" none, .branch "g1" "dev" none,
              .commit "g2", .commit "g3", .merge ["g2", "g3"], .deleteRepo "g9"].foldl (fun s r => (step s r).1) init
    (s.nodes.map (fun n => (n.v, n.uuid, n.parents, n.children))) =
      [(1, "g1", [], [2, 3]), (2, "g2", [1], [4]), (3, "g3", [1], [4]), (4, "g4", [2, 3], [])] := by
  decide

end Dvid.Props.C07

namespace Dvid.Props.C07
open Dvid Dvid.Manager

/-! ### named branches: no fork, one start -/

/-- `m` starts its branch: no parent of `m` in the same repo is on `m`'s branch -/
def Start (ns : List Node) (m : Node) : Prop := ∀ n ∈ ns, n.v ∈ m.parents → n.repo = m.repo → n.branch ≠ m.branch

/-- a node of a named branch has at most one child on that branch, and a named branch of a repo has one start -/
def BranchL (ns : List Node) : Prop :=
  (∀ m1 ∈ ns, ∀ m2 ∈ ns, ∀ n ∈ ns, m1.branch ≠ "" → m1.repo = n.repo → m2.repo = n.repo →
      m1.branch = n.branch → m2.branch = n.branch → n.v ∈ m1.parents → n.v ∈ m2.parents → m1 = m2) ∧
  (∀ m1 ∈ ns, ∀ m2 ∈ ns, m1.branch ≠ "" → m1.repo = m2.repo → m1.branch = m2.branch →
      Start ns m1 → Start ns m2 → m1 = m2)

def BranchInv (s : State) : Prop := BranchL s.nodes

def PresB (g : Node → Node) : Prop := ∀ n, (g n).branch = n.branch

theorem presB_ite (c : Node → Prop) [DecidablePred c] (f : Node → Node) (hf : PresB f) :
    PresB (fun n => if c n then f n else n) := by
  intro n; by_cases h : c n <;> simp [h, hf n]

theorem start_map {ns : List Node} (g : Node → Node) (hg : Pres g) (hb : PresB g) (m : Node) :
    Start (ns.map g) (g m) ↔ Start ns m := by
  unfold Start
  constructor
  · intro h n hn hp hr
    have := h (g n) (List.mem_map.mpr ⟨n, hn, rfl⟩) (by rw [(hg n).1, (hg m).2.2.1]; exact hp)
      (by rw [(hg n).2.1, (hg m).2.1]; exact hr)
    rw [hb n, hb m] at this; exact this
  · intro h n' hn' hp hr
    obtain ⟨n, hn, rfl⟩ := List.mem_map.mp hn'
    rw [(hg n).1, (hg m).2.2.1] at hp
    rw [(hg n).2.1, (hg m).2.1] at hr
    rw [hb n, hb m]; exact h n hn hp hr

theorem branchL_map {ns : List Node} (g : Node → Node) (hg : Pres g) (hb : PresB g)
    (h : BranchL ns) : BranchL (ns.map g) := by
  constructor
  · intro m1' h1 m2' h2 n' hn
    obtain ⟨m1, hm1, rfl⟩ := List.mem_map.mp h1
    obtain ⟨m2, hm2, rfl⟩ := List.mem_map.mp h2
    obtain ⟨n, hn0, rfl⟩ := List.mem_map.mp hn
    rw [hb m1, hb m2, hb n, (hg m1).2.1, (hg m2).2.1, (hg n).2.1, (hg n).1, (hg m1).2.2.1, (hg m2).2.2.1]
    intro a b c d e f k
    rw [h.1 m1 hm1 m2 hm2 n hn0 a b c d e f k]
  · intro m1' h1 m2' h2
    obtain ⟨m1, hm1, rfl⟩ := List.mem_map.mp h1
    obtain ⟨m2, hm2, rfl⟩ := List.mem_map.mp h2
    rw [hb m1, hb m2, (hg m1).2.1, (hg m2).2.1, start_map g hg hb m1, start_map g hg hb m2]
    intro a b c d e
    rw [h.2 m1 hm1 m2 hm2 a b c d e]

/-- appending a node whose version id is not a parent of any existing node -/
theorem branchL_snoc {ns : List Node} (h : BranchL ns) (c : Node)
    (hfresh : ∀ n ∈ ns, c.v ∉ n.parents) (hself : c.v ∉ c.parents)
    (hF : c.branch ≠ "" → ∀ m ∈ ns, ∀ n ∈ ns, m.repo = n.repo → c.repo = n.repo → m.branch = n.branch →
      c.branch = n.branch → n.v ∈ m.parents → n.v ∈ c.parents → False)
    (hS : c.branch ≠ "" → (¬ Start ns c) ∨ (∀ m ∈ ns, m.repo = c.repo → m.branch ≠ c.branch)) :
    BranchL (ns ++ [c]) := by
  have hstart_old : ∀ m ∈ ns, Start (ns ++ [c]) m ↔ Start ns m := by
    intro m hm
    unfold Start
    constructor
    · intro hs n hn; exact hs n (List.mem_append_left _ hn)
    · intro hs n hn hp
      rcases List.mem_append.mp hn with hn1 | hn1
      · exact hs n hn1 hp
      · simp only [List.mem_singleton] at hn1; rw [hn1] at hp; exact absurd hp (hfresh m hm)
  have hstart_c : Start (ns ++ [c]) c ↔ Start ns c := by
    unfold Start
    constructor
    · intro hs n hn; exact hs n (List.mem_append_left _ hn)
    · intro hs n hn hp
      rcases List.mem_append.mp hn with hn1 | hn1
      · exact hs n hn1 hp
      · simp only [List.mem_singleton] at hn1; rw [hn1] at hp; exact absurd hp hself
  constructor
  · intro m1 h1 m2 h2 n hn hb r1 r2 b1 b2 p1 p2
    rcases List.mem_append.mp hn with hn1 | hn1
    · rcases List.mem_append.mp h1 with a | a <;> rcases List.mem_append.mp h2 with b | b
      · exact h.1 m1 a m2 b n hn1 hb r1 r2 b1 b2 p1 p2
      · simp only [List.mem_singleton] at b; subst b
        exact (hF (by rw [b2, ← b1]; exact hb) m1 a n hn1 r1 r2 b1 b2 p1 p2).elim
      · simp only [List.mem_singleton] at a; subst a
        exact (hF hb m2 b n hn1 r2 r1 b2 b1 p2 p1).elim
      · simp only [List.mem_singleton] at a b; rw [a, b]
    · simp only [List.mem_singleton] at hn1; subst hn1
      rcases List.mem_append.mp h1 with a | a
      · exact absurd p1 (hfresh m1 a)
      · simp only [List.mem_singleton] at a; subst a; exact absurd p1 hself
  · intro m1 h1 m2 h2 hb r b s1 s2
    rcases List.mem_append.mp h1 with a | a <;> rcases List.mem_append.mp h2 with b' | b'
    · exact h.2 m1 a m2 b' hb r b ((hstart_old m1 a).mp s1) ((hstart_old m2 b').mp s2)
    · simp only [List.mem_singleton] at b'; subst b'
      rcases hS (by rw [← b]; exact hb) with hs | hs
      · exact absurd (hstart_c.mp s2) hs
      · exact absurd b (hs m1 a r)
    · simp only [List.mem_singleton] at a; subst a
      rcases hS hb with hs | hs
      · exact absurd (hstart_c.mp s1) hs
      · exact absurd b.symm (hs m2 b' r.symm)
    · simp only [List.mem_singleton] at a b'; rw [a, b']

theorem presB_addChild (c : Nat) : PresB (fun n => { n with children := n.children ++ [c] }) := by
  intro n; rfl
theorem presB_lock : PresB (fun n => { n with locked := true }) := by
  intro n; rfl

theorem newRepo_branch (s : State) (a : Option String) (hi : Inv s) (h : BranchInv s) : BranchInv (newRepo s a).1 := by
  unfold newRepo
  split
  · exact h
  · split
    · exact h
    · rename_i s1 uuid v hu
      obtain ⟨hn, _, hv, _⟩ := newUUID_nodes hu
      unfold BranchInv at h ⊢
      simp only [hn]
      apply branchL_snoc h
      · intro n hn' hp
        have hp' : v ∈ n.parents := hp
        have := (hi.2 n hn' v hp').1
        have := hi.1 n hn'
        omega
      · simp
      · intro hb; exact absurd rfl hb
      · intro hb; exact absurd rfl hb

theorem commit_branch (s : State) (u : String) (h : BranchInv s) : BranchInv (commit s u).1 := by
  unfold commit
  repeat' split
  all_goals first
    | exact h
    | (unfold BranchInv State.updNode
       exact branchL_map _ (pres_ite _ _ pres_lock) (presB_ite _ _ presB_lock) h)

/-- what the branch check of `newVersion` established -/
theorem branchOk_spec {s : State} {repo : String} {node : Node} {b bname : String} (h : branchOk s repo node b = some bname) :
    (bname = node.branch ∧ ∀ c ∈ node.children, ∃ sis, s.node? repo c = some sis ∧ sis.branch ≠ node.branch) ∨
    (bname ≠ node.branch ∧ ∀ n ∈ s.nodes, n.repo = repo → n.branch ≠ bname) := by
  unfold branchOk at h
  split at h
  · split at h
    · rename_i hall
      cases h
      left
      refine ⟨rfl, ?_⟩
      intro c hc
      have := List.all_eq_true.mp hall c hc
      cases hq : s.node? repo c with
      | none => rw [hq] at this; cases this
      | some sis => rw [hq] at this; exact ⟨sis, rfl, by simpa using this⟩
    · cases h
  · rename_i hne
    split at h
    · rename_i hall
      cases h
      right
      constructor
      · intro e; apply hne; simp [e]
      · intro n hn hr
        have := List.all_eq_true.mp hall n (List.mem_filter.mpr ⟨hn, by simpa using hr⟩)
        simpa using this
    · cases h

theorem attachChild_branch (s s1 : State) (repo : String) (v : Nat) (cu : String) (cv : Nat) (b bname : String)
    (node : Node) (hi : Inv s) (hid : IdInv s) (hl : LinkInv s) (h : BranchInv s) (hn : s1.nodes = s.nodes)
    (hcv : cv = s.nextV) (hmem : node ∈ s.nodes) (hnodev : node.v = v) (hnoder : node.repo = repo)
    (hb : branchOk s repo node b = some bname) :
    BranchInv (attachChild s1 repo v cu cv bname) := by
  unfold BranchInv attachChild
  simp only [State.updNode, hn]
  let g : Node → Node := fun n => if n.v = v ∧ n.repo = repo then { n with children := n.children ++ [cv] } else n
  have hg : Pres g := pres_ite (fun n => n.v = v ∧ n.repo = repo) _ (pres_addChild cv)
  have hgb : PresB g := presB_ite (fun n => n.v = v ∧ n.repo = repo) _ (presB_addChild cv)
  have hfreshv : ∀ n ∈ s.nodes.map g, n.v < cv := by
    intro n hn'
    obtain ⟨n0, hn0, rfl⟩ := List.mem_map.mp hn'
    rw [(hg n0).1, hcv]; exact hi.1 n0 hn0
  rw [filter_fresh hfreshv repo]
  apply branchL_snoc (branchL_map g hg hgb h)
  · intro n hn' hp
    obtain ⟨n0, hn0, rfl⟩ := List.mem_map.mp hn'
    rw [(hg n0).2.2.1] at hp
    have hp' : cv ∈ n0.parents := hp
    have := (hi.2 n0 hn0 cv hp').1
    have := hi.1 n0 hn0
    omega
  · simp only [List.mem_singleton]
    have := hi.1 node hmem
    omega
  · -- no existing node of the branch hangs off the parent
    intro hbn m' hm' n' hn' r1 r2 b1 b2 p1 p2
    obtain ⟨m, hm, rfl⟩ := List.mem_map.mp hm'
    obtain ⟨n, hn0, rfl⟩ := List.mem_map.mp hn'
    simp only [List.mem_singleton] at p2
    rw [(hg n).1] at p2 p1
    rw [(hg m).2.2.1] at p1
    rw [(hg n).2.1] at r1 r2
    rw [(hg m).2.1] at r1
    rw [hgb n] at b1 b2
    rw [hgb m] at b1
    simp only at r2 b2
    have hnnode : n = node := hid.1 n hn0 node hmem (by rw [p2, hnodev])
    rcases branchOk_spec hb with ⟨e, hall⟩ | ⟨_, hnone⟩
    · -- continuing the parent's branch: the check saw every child of the parent
      obtain ⟨n2, hn2, hn2v, hn2r, hmc⟩ := hl.2.1 m hm _ p1
      have : n2 = node := hid.1 n2 hn2 node hmem (by rw [hn2v, p2, hnodev])
      rw [this] at hmc
      obtain ⟨sis, hsis, hsb⟩ := hall _ hmc
      obtain ⟨hsm, hsv, hsr⟩ := node?_mem hsis
      have : sis = m := hid.1 sis hsm m hm hsv
      rw [this] at hsb
      apply hsb
      rw [b1, hnnode]
    · exact hnone n hn0 r2.symm b2.symm
  · intro hbn
    rcases branchOk_spec hb with ⟨e, _⟩ | ⟨_, hnone⟩
    · left
      intro hs
      have := hs (g node) (List.mem_map.mpr ⟨node, hmem, rfl⟩) (by rw [(hg node).1]; simp [hnodev])
        (by rw [(hg node).2.1]; exact hnoder)
      rw [hgb node] at this
      exact this e.symm
    · right
      intro m' hm' hr
      obtain ⟨m, hm, rfl⟩ := List.mem_map.mp hm'
      rw [(hg m).2.1] at hr
      rw [hgb m]
      exact hnone m hm hr

theorem newVersion_branch (s : State) (p b : String) (a : Option String) (hi : Inv s) (hid : IdInv s) (hl : LinkInv s)
    (h : BranchInv s) : BranchInv (newVersion s p b a).1 := by
  unfold newVersion
  cases hr : lookup s.repos p with
  | none => exact h
  | some repo =>
    cases hv : lookup s.u2v p with
    | none => exact h
    | some v =>
      simp only
      cases hnode : s.node? repo v with
      | none => exact h
      | some node =>
        simp only
        cases hlk : node.locked with
        | false => simp; exact h
        | true =>
          simp only [Bool.not_true, Bool.false_eq_true, if_false]
          cases hb : branchOk s repo node b with
          | none => exact h
          | some bname =>
            simp only
            cases hu : newUUID s a with
            | none => exact h
            | some t =>
              obtain ⟨s1, cu, cv⟩ := t
              obtain ⟨hn, _, hcv, _⟩ := newUUID_nodes hu
              obtain ⟨hmem, hnodev, hnoder⟩ := node?_mem hnode
              exact attachChild_branch s s1 repo v cu cv b bname node hi hid hl h hn hcv hmem hnodev hnoder hb

theorem foldl_updNode_presB (repo : String) (cv : Nat) (pvs : List Nat) (s : State) :
    ∃ g : Node → Node, Pres g ∧ PresB g ∧
      (pvs.foldl (fun st pv => st.updNode repo pv (fun n => { n with children := n.children ++ [cv] })) s).nodes = s.nodes.map g := by
  induction pvs generalizing s with
  | nil => exact ⟨id, fun _ => ⟨rfl, rfl, rfl, id⟩, fun _ => rfl, by simp⟩
  | cons pv rest ih =>
    simp only [List.foldl_cons]
    obtain ⟨g, hg, hgb, hn⟩ := ih (s.updNode repo pv (fun n => { n with children := n.children ++ [cv] }))
    let f : Node → Node := fun n => if n.v = pv ∧ n.repo = repo then { n with children := n.children ++ [cv] } else n
    have hf : Pres f := pres_ite (fun n => n.v = pv ∧ n.repo = repo) _ (pres_addChild cv)
    have hfb : PresB f := presB_ite (fun n => n.v = pv ∧ n.repo = repo) _ (presB_addChild cv)
    refine ⟨g ∘ f, ?_, ?_, ?_⟩
    · intro n
      have a := hf n
      have b := hg (f n)
      exact ⟨by simp [Function.comp, b.1, a.1], by simp [Function.comp, b.2.1, a.2.1],
        by simp [Function.comp, b.2.2.1, a.2.2.1], fun hl => b.2.2.2 (a.2.2.2 hl)⟩
    · intro n; simp [Function.comp, hgb (f n), hfb n]
    · rw [hn]; simp [State.updNode, List.map_map, f]

theorem linkMerge_branch (s s1 : State) (repo : String) (pvs : List Nat) (cu : String) (cv : Nat)
    (hi : Inv s) (h : BranchInv s) (hn : s1.nodes = s.nodes) (hcv : cv = s.nextV)
    (hp : ∀ v ∈ pvs, ∃ m ∈ s.nodes, m.v = v ∧ m.repo = repo ∧ m.locked = true) :
    BranchInv (linkMerge s1 repo pvs cu cv) := by
  unfold BranchInv linkMerge
  obtain ⟨g, hg, hgb, hgn⟩ := foldl_updNode_presB repo cv pvs { s1 with repos := setKey s1.repos cu repo }
  simp only
  rw [hgn]
  simp only [hn]
  apply branchL_snoc (branchL_map g hg hgb h)
  · intro n hn' hpp
    obtain ⟨n0, hn0, rfl⟩ := List.mem_map.mp hn'
    rw [(hg n0).2.2.1] at hpp
    have hp' : cv ∈ n0.parents := hpp
    have := (hi.2 n0 hn0 cv hp').1
    have := hi.1 n0 hn0
    omega
  · intro hm
    obtain ⟨m, hmm, hmv, _⟩ := hp cv hm
    have := hi.1 m hmm
    omega
  · intro hb; exact absurd rfl hb
  · intro hb; exact absurd rfl hb

theorem merge_branch (s : State) (ps : List String) (hi : Inv s) (h : BranchInv s) : BranchInv (merge s ps).1 := by
  unfold merge
  simp only [Gen.mergeValidatesFirst, if_true]
  split
  · exact h
  · cases hrepo : (ps.head? >>= lookup s.repos) with
    | none => exact h
    | some repo =>
      simp only
      cases hpvs : ps.mapM (mergeParentOk s repo) with
      | none => exact h
      | some pvs =>
        simp only
        split
        · exact h
        · cases hu : newUUID s none with
          | none => exact h
          | some t =>
            obtain ⟨s1, cu, cv⟩ := t
            obtain ⟨hn, _, hcv, _⟩ := newUUID_nodes hu
            exact linkMerge_branch s s1 repo pvs cu cv hi h hn hcv (mapM_mergeParentOk hpvs)

theorem tag_branch (s : State) (p t : String) (hi : Inv s) (hid : IdInv s) (hl : LinkInv s) (h : BranchInv s) :
    BranchInv (tag s p t).1 := by
  unfold tag
  split
  · exact h
  · have h1 := newVersion_branch s p ("tag-" ++ t) (some t) hi hid hl h
    cases hnv : newVersion s p ("tag-" ++ t) (some t) with
    | mk s1 r1 =>
      rw [hnv] at h1
      simp only at h1 ⊢
      cases r1 with
      | err => simp only [Gen.tagCommitsOnlyOnSuccess, if_true]; exact h1
      | ok u => exact commit_branch s1 t h1

theorem deleteRepo_branch (s : State) (u : String) (h : BranchInv s) : BranchInv (deleteRepo s u).1 := by
  unfold deleteRepo
  split
  · exact h
  · rename_i repo _
    split
    · exact h
    · unfold BranchInv
      simp only [dropIds_fold_nodes]
      have hst : ∀ m ∈ s.nodes, m.repo ≠ repo → (Start (s.nodes.filter (·.repo ≠ repo)) m ↔ Start s.nodes m) := by
        intro m _ hmr
        unfold Start
        constructor
        · intro hs n hn hp hr
          exact hs n (List.mem_filter.mpr ⟨hn, by simp only [decide_eq_true_eq, ne_eq]; rw [hr]; exact hmr⟩) hp hr
        · intro hs n hn; exact hs n (List.mem_filter.mp hn).1
      constructor
      · intro m1 h1 m2 h2 n hn
        exact h.1 m1 (List.mem_filter.mp h1).1 m2 (List.mem_filter.mp h2).1 n (List.mem_filter.mp hn).1
      · intro m1 h1 m2 h2 hb r b s1 s2
        have a1 := List.mem_filter.mp h1
        have a2 := List.mem_filter.mp h2
        exact h.2 m1 a1.1 m2 a2.1 hb r b ((hst m1 a1.1 (by simpa using a1.2)).mp s1) ((hst m2 a2.1 (by simpa using a2.2)).mp s2)

theorem step_branch (s : State) (r : Req) (hi : Inv s) (hid : IdInv s) (hl : LinkInv s) (h : BranchInv s) :
    BranchInv (step s r).1 := by
  cases r with
  | newRepo a => exact newRepo_branch s a hi h
  | commit u => exact commit_branch s u h
  | newVersion p a =>
    simp only [step]
    cases a with
    | none => exact newVersion_branch s p "" none hi hid hl h
    | some u => simp only; split <;> first | exact newVersion_branch s p "" (some u) hi hid hl h | exact h
  | branch p name a =>
    simp only [step]
    split
    · exact h
    · cases a with
      | none => exact newVersion_branch s p name none hi hid hl h
      | some u => simp only; split <;> first | exact newVersion_branch s p name (some u) hi hid hl h | exact h
  | tag p t => exact tag_branch s p t hi hid hl h
  | merge ps => exact merge_branch s ps hi h
  | deleteRepo u => exact deleteRepo_branch s u h

theorem reachable_branch (rs : List Req) : BranchInv (rs.foldl (fun s r => (step s r).1) init) := by
  suffices h : ∀ s, Inv s → IdInv s → LinkInv s → BranchInv s →
      BranchInv (rs.foldl (fun s r => (step s r).1) s) by
    exact h init ⟨by intro n hn; simp [init] at hn, by intro n hn; simp [init] at hn⟩
      ⟨by intro n hn; simp [init] at hn, by intro n hn; simp [init] at hn, by intro n hn; simp [init] at hn⟩
      ⟨by intro n hn; simp [init] at hn, by intro n hn; simp [init] at hn, by intro n hn; simp [init] at hn⟩
      ⟨by intro n hn; simp [init] at hn, by intro n hn; simp [init] at hn⟩
  induction rs with
  | nil => intro s _ _ _ d; exact d
  | cons r rest ih =>
    intro s a b c d
    exact ih _ (step_inv s r a) (step_id s r a b) (step_link s r a b c) (step_branch s r a b c d)

/-- **a named branch never forks and starts once**: after any sequence of requests, two nodes of one named
    branch of a repo that hang off the same node of that branch are the same node, and so are two nodes of the
    branch whose parent is on another branch — so the nodes of a named branch form one chain from its start -/
theorem named_branches_linear (rs : List Req) :
    let s := rs.foldl (fun s r => (step s r).1) init
    (∀ m1 ∈ s.nodes, ∀ m2 ∈ s.nodes, ∀ n ∈ s.nodes, m1.branch ≠ "" → m1.repo = n.repo → m2.repo = n.repo →
      m1.branch = n.branch → m2.branch = n.branch → n.v ∈ m1.parents → n.v ∈ m2.parents → m1 = m2) ∧
    (∀ m1 ∈ s.nodes, ∀ m2 ∈ s.nodes, m1.branch ≠ "" → m1.repo = m2.repo → m1.branch = m2.branch →
      Start s.nodes m1 → Start s.nodes m2 → m1 = m2) :=
  reachable_branch rs

/- Non-vacuity: branch "dev" continued twice (a chain of three nodes), a second attempt to continue it from its
   middle node refused, master continued beside it -/
example :
    let s := [Req.newRepo none, .commit "g1", .branch "g1" "dev" none, .commit "g2", .branch "g2" "dev" none,
              .commit "g3", .newVersion "g3" none, .newVersion "g2" none, .branch "g2" "dev" none,
              .newVersion "g1" none].foldl (fun s r => (step s r).1) init
    (s.nodes.map (fun n => (n.v, n.parents, n.branch))) =
      [(1, [], ""), (2, [1], "dev"), (3, [2], "dev"), (4, [3], "dev"), (5, [1], "")] := by
  decide

end Dvid.Props.C07
