import DvidModel.Model.Manager
/-
  C07 — The version DAG stays well formed and identifiers stay unique.
  Theorems about the mirror of the repo manager (Model/Manager.lean), whose behaviour-relevant shape facts
  (`Gen.*`: uuid uniqueness check, merge validation order, tag handler early return) are regenerated from
  the source on every run, and which is compared state-for-state with the real manager after every request
  by the harness.
-/
namespace Dvid.Props.C07
open Dvid Dvid.Manager

/-- the structural facts of the source this file's theorems are stated for -/
theorem manager_shape :
    Gen.newUUIDChecksExisting = true ∧ Gen.mergeValidatesFirst = true ∧ Gen.mergeRejectsDuplicateParents = true ∧
    Gen.tagCommitsOnlyOnSuccess = true ∧ Gen.tagRejectsEmpty = true := by decide

/-! ### a refused request leaves everything as it was -/

/-- every operation either returns the unchanged state with an error, or succeeds -/
def ErrOrOk (r : State × Resp) (s : State) : Prop := r = (s, .err) ∨ ∃ s' u, r = (s', .ok u)

theorem errOrOk_err {r : State × Resp} {s : State} (h : ErrOrOk r s) (he : r.2 = .err) : r.1 = s := by
  rcases h with h | ⟨s', u, h⟩
  · rw [h]
  · rw [h] at he; cases he

theorem newVersion_cases (s : State) (p b : String) (a : Option String) : ErrOrOk (newVersion s p b a) s := by
  unfold newVersion ErrOrOk
  repeat' split
  all_goals (try dsimp only)
  all_goals (repeat' split)
  all_goals first | (left; rfl) | (right; exact ⟨_, _, rfl⟩)

theorem commit_cases (s : State) (u : String) : ErrOrOk (commit s u) s := by
  unfold commit ErrOrOk
  repeat' split
  all_goals (try dsimp only)
  all_goals (repeat' split)
  all_goals first | (left; rfl) | (right; exact ⟨_, _, rfl⟩)

theorem newRepo_cases (s : State) (a : Option String) : ErrOrOk (newRepo s a) s := by
  unfold newRepo ErrOrOk
  repeat' split
  all_goals (try dsimp only)
  all_goals (repeat' split)
  all_goals first | (left; rfl) | (right; exact ⟨_, _, rfl⟩)

theorem merge_cases (s : State) (ps : List String) : ErrOrOk (merge s ps) s := by
  unfold merge ErrOrOk
  simp only [Gen.mergeValidatesFirst, if_true]
  repeat' split
  all_goals (try dsimp only)
  all_goals (repeat' split)
  all_goals first | (left; rfl) | (right; exact ⟨_, _, rfl⟩)

theorem deleteRepo_cases (s : State) (u : String) : ErrOrOk (deleteRepo s u) s := by
  unfold deleteRepo ErrOrOk
  repeat' split
  all_goals (try dsimp only)
  all_goals (repeat' split)
  all_goals first | (left; rfl) | (right; exact ⟨_, _, rfl⟩)

theorem newVersion_err (s : State) (p b : String) (a : Option String) (h : (newVersion s p b a).2 = .err) :
    (newVersion s p b a).1 = s := errOrOk_err (newVersion_cases s p b a) h
theorem commit_err (s : State) (u : String) (h : (commit s u).2 = .err) : (commit s u).1 = s :=
  errOrOk_err (commit_cases s u) h
theorem newRepo_err (s : State) (a : Option String) (h : (newRepo s a).2 = .err) : (newRepo s a).1 = s :=
  errOrOk_err (newRepo_cases s a) h
theorem merge_err (s : State) (ps : List String) (h : (merge s ps).2 = .err) : (merge s ps).1 = s :=
  errOrOk_err (merge_cases s ps) h
theorem deleteRepo_err (s : State) (u : String) (h : (deleteRepo s u).2 = .err) : (deleteRepo s u).1 = s :=
  errOrOk_err (deleteRepo_cases s u) h

theorem tag_err (s : State) (p t : String) (h : (tag s p t).2 = .err) : (tag s p t).1 = s := by
  unfold tag at h ⊢
  simp only [Gen.tagRejectsEmpty, Gen.tagCommitsOnlyOnSuccess, Bool.true_and] at h ⊢
  split
  · rfl
  · rename_i hne
    simp only [hne] at h
    rcases newVersion_cases s p ("tag-" ++ t) (some t) with hc | ⟨s', u, hc⟩
    · rw [hc]; simp
    · rw [hc] at h; simp at h

/-- **A request that is answered with an error leaves the graph, the branch heads and the identifier maps
    exactly as they were** — for every state and every request (any arguments). -/
theorem error_leaves_state (s : State) (r : Req) (h : (step s r).2 = .err) : (step s r).1 = s := by
  cases r with
  | newRepo a => exact newRepo_err s a h
  | commit u => exact commit_err s u h
  | newVersion p a =>
    simp only [step] at h ⊢
    cases a with
    | none => exact newVersion_err s p "" none h
    | some u =>
      simp only at h ⊢
      split
      · rename_i hv; simp only [hv, if_true] at h; exact newVersion_err s p "" (some u) h
      · rfl
  | branch p name a =>
    simp only [step] at h ⊢
    split
    · rfl
    · rename_i hn
      simp only [hn] at h
      cases a with
      | none => exact newVersion_err s p name none h
      | some u =>
        simp only at h ⊢
        split
        · rename_i hv; simp only [hv, if_true] at h; exact newVersion_err s p name (some u) h
        · rfl
  | tag p t => exact tag_err s p t h
  | merge ps => exact merge_err s ps h
  | deleteRepo u => exact deleteRepo_err s u h

end Dvid.Props.C07

namespace Dvid.Props.C07
open Dvid Dvid.Manager

/-! ### graph invariant: version ids only grow, parents are older, committed, and in the same repo -/

/-- every node's version id is below the allocation counter; every parent is an existing, committed node of
    the same repo with a smaller version id (so the graph is acyclic and a new version only ever hangs off
    a committed parent) -/
def InvN (ns : List Node) (nv : Nat) : Prop :=
  (∀ n ∈ ns, n.v < nv) ∧
  (∀ n ∈ ns, ∀ p ∈ n.parents, p < n.v ∧ ∃ m ∈ ns, m.v = p ∧ m.repo = n.repo ∧ m.locked = true)

def Inv (s : State) : Prop := InvN s.nodes s.nextV

/-- a node update that keeps identity, repo, parents and never un-commits -/
def Pres (g : Node → Node) : Prop :=
  ∀ n, (g n).v = n.v ∧ (g n).repo = n.repo ∧ (g n).parents = n.parents ∧ (n.locked = true → (g n).locked = true)

theorem invN_mono {ns : List Node} {a b : Nat} (h : InvN ns a) (hab : a ≤ b) : InvN ns b :=
  ⟨fun n hn => Nat.lt_of_lt_of_le (h.1 n hn) hab, h.2⟩

theorem invN_map {ns : List Node} {a : Nat} (g : Node → Node) (hg : Pres g) (h : InvN ns a) : InvN (ns.map g) a := by
  constructor
  · intro n hn
    obtain ⟨n0, hn0, rfl⟩ := List.mem_map.mp hn
    rw [(hg n0).1]; exact h.1 n0 hn0
  · intro n hn p hp
    obtain ⟨n0, hn0, rfl⟩ := List.mem_map.mp hn
    rw [(hg n0).2.2.1] at hp
    obtain ⟨hlt, m, hm, hmv, hmr, hml⟩ := h.2 n0 hn0 p hp
    refine ⟨by rw [(hg n0).1]; exact hlt, g m, List.mem_map.mpr ⟨m, hm, rfl⟩, ?_, ?_, ?_⟩
    · rw [(hg m).1]; exact hmv
    · rw [(hg m).2.1, (hg n0).2.1]; exact hmr
    · exact (hg m).2.2.2 hml

theorem pres_ite (c : Node → Prop) [DecidablePred c] (f : Node → Node) (hf : Pres f) :
    Pres (fun n => if c n then f n else n) := by
  intro n
  by_cases h : c n
  · simp only [h, if_true]; exact hf n
  · simp [h]

theorem updNode_inv (s : State) (repo : String) (v : Nat) (f : Node → Node) (hf : Pres f) (h : Inv s) :
    Inv (s.updNode repo v f) := by
  unfold Inv State.updNode
  exact invN_map _ (pres_ite (fun n => n.v = v ∧ n.repo = repo) f hf) h

theorem pres_addChild (c : Nat) : Pres (fun n => { n with children := n.children ++ [c] }) := by
  intro n; simp
theorem pres_lock : Pres (fun n => { n with locked := true }) := by
  intro n; simp

/-- appending a new node with the next version id whose parents are existing committed nodes of its repo -/
theorem invN_snoc {ns : List Node} {nv : Nat} (h : InvN ns nv) (c : Node) (hv : c.v = nv)
    (hp : ∀ p ∈ c.parents, ∃ m ∈ ns, m.v = p ∧ m.repo = c.repo ∧ m.locked = true) : InvN (ns ++ [c]) (nv + 1) := by
  constructor
  · intro n hn
    rcases List.mem_append.mp hn with hn | hn
    · exact Nat.lt_succ_of_lt (h.1 n hn)
    · simp only [List.mem_singleton] at hn; subst hn; omega
  · intro n hn p hpp
    rcases List.mem_append.mp hn with hn | hn
    · obtain ⟨hlt, m, hm, r⟩ := h.2 n hn p hpp
      exact ⟨hlt, m, List.mem_append_left _ hm, r⟩
    · simp only [List.mem_singleton] at hn; subst hn
      obtain ⟨m, hm, hmv, r⟩ := hp p hpp
      refine ⟨?_, m, List.mem_append_left _ hm, hmv, r⟩
      have := h.1 m hm
      omega

theorem node?_mem {s : State} {repo : String} {v : Nat} {n : Node} (h : s.node? repo v = some n) :
    n ∈ s.nodes ∧ n.v = v ∧ n.repo = repo := by
  unfold State.node? at h
  have hm := List.mem_of_find?_eq_some h
  have hp := List.find?_some h
  simp only [decide_eq_true_eq] at hp
  exact ⟨hm, hp.1, hp.2⟩

theorem newUUID_nodes {s s1 : State} {a : Option String} {u : String} {v : Nat} (h : newUUID s a = some (s1, u, v)) :
    s1.nodes = s.nodes ∧ s1.nextV = s.nextV + 1 ∧ v = s.nextV ∧ s1.repos = s.repos := by
  unfold newUUID at h
  split at h
  · cases h
  · simp only [Option.some.injEq, Prod.mk.injEq] at h
    obtain ⟨rfl, _, rfl⟩ := h
    exact ⟨rfl, rfl, rfl, rfl⟩

/-- no node carries the next version id, so the map-assignment filter in `newVersion` removes nothing -/
theorem filter_fresh {ns : List Node} {nv : Nat} (h : ∀ n ∈ ns, n.v < nv) (repo : String) :
    ns.filter (fun n => !(decide (n.v = nv ∧ n.repo = repo))) = ns := by
  apply List.filter_eq_self.mpr
  intro n hn
  have := h n hn
  simp only [Bool.not_eq_true', decide_eq_false_iff_not, not_and]
  intro e; omega

theorem newRepo_inv (s : State) (a : Option String) (h : Inv s) : Inv (newRepo s a).1 := by
  unfold newRepo
  split
  · exact h
  · split
    · exact h
    · rename_i s1 uuid v hu
      obtain ⟨hn, hv, hvv, _⟩ := newUUID_nodes hu
      unfold Inv at h ⊢
      simp only [hn, hv]
      exact invN_snoc h _ hvv (by intro p hp; simp at hp)

theorem commit_inv (s : State) (u : String) (h : Inv s) : Inv (commit s u).1 := by
  unfold commit
  repeat' split
  all_goals first | exact h | exact updNode_inv s _ _ _ pres_lock h

/-- linking a new child below an existing committed node keeps the invariant -/
theorem attachChild_inv (s s1 : State) (repo : String) (v : Nat) (cu : String) (cv : Nat) (bname : String)
    (node : Node) (h : Inv s) (hn : s1.nodes = s.nodes) (hnv : s1.nextV = s.nextV + 1) (hcv : cv = s.nextV)
    (hmem : node ∈ s.nodes) (hnodev : node.v = v) (hnoder : node.repo = repo) (hl : node.locked = true) :
    Inv (attachChild s1 repo v cu cv bname) := by
  unfold Inv at h ⊢
  unfold attachChild
  simp only [State.updNode, hn, hnv]
  have hfresh : ∀ n ∈ s.nodes.map (fun n => if n.v = v ∧ n.repo = repo then { n with children := n.children ++ [cv] } else n), n.v < cv := by
    intro n hn'
    obtain ⟨n0, hn0, rfl⟩ := List.mem_map.mp hn'
    have := h.1 n0 hn0
    split <;> first | omega | (simp; omega)
  rw [filter_fresh hfresh repo]
  have hbase : InvN (s.nodes.map (fun n => if n.v = v ∧ n.repo = repo then { n with children := n.children ++ [cv] } else n)) s.nextV :=
    invN_map _ (pres_ite (fun n => n.v = v ∧ n.repo = repo) _ (pres_addChild cv)) h
  apply invN_snoc hbase _ hcv
  intro p' hp'
  simp only [List.mem_singleton] at hp'
  rw [hp']
  refine ⟨(if node.v = v ∧ node.repo = repo then { node with children := node.children ++ [cv] } else node),
    List.mem_map.mpr ⟨node, hmem, rfl⟩, ?_, ?_, ?_⟩
  · split <;> simp [hnodev]
  · split <;> simp [hnoder]
  · split <;> simp [hl]

theorem newVersion_inv (s : State) (p b : String) (a : Option String) (h : Inv s) : Inv (newVersion s p b a).1 := by
  unfold newVersion
  cases hr : lookup s.repos p with
  | none => exact h
  | some repo =>
    cases hv : lookup s.u2v p with
    | none => exact h
    | some v =>
      simp only
      cases hnode : s.node? repo v with
      | none => exact h
      | some node =>
        simp only
        cases hl : node.locked with
        | false => simp; exact h
        | true =>
          simp only [Bool.not_true, Bool.false_eq_true, if_false]
          cases hb : branchOk s repo node b with
          | none => exact h
          | some bname =>
            simp only
            cases hu : newUUID s a with
            | none => exact h
            | some t =>
              obtain ⟨s1, cu, cv⟩ := t
              obtain ⟨hn, hnv, hcv, _⟩ := newUUID_nodes hu
              obtain ⟨hmem, hnodev, hnoder⟩ := node?_mem hnode
              exact attachChild_inv s s1 repo v cu cv bname node h hn hnv hcv hmem hnodev hnoder hl

theorem mergeParentOk_spec {s : State} {repo p : String} {v : Nat} (h : mergeParentOk s repo p = some v) :
    ∃ m ∈ s.nodes, m.v = v ∧ m.repo = repo ∧ m.locked = true := by
  unfold mergeParentOk at h
  split at h
  · split at h
    · rename_i n hn
      split at h
      · rename_i hl
        cases h
        obtain ⟨hm, hv, hr⟩ := node?_mem hn
        exact ⟨n, hm, hv, hr, hl⟩
      · cases h
    · cases h
  · cases h

theorem mapM_mergeParentOk {s : State} {repo : String} {ps : List String} {pvs : List Nat}
    (h : ps.mapM (mergeParentOk s repo) = some pvs) :
    ∀ v ∈ pvs, ∃ m ∈ s.nodes, m.v = v ∧ m.repo = repo ∧ m.locked = true := by
  induction ps generalizing pvs with
  | nil => simp at h; subst h; intro v hv; simp at hv
  | cons p rest ih =>
    simp only [List.mapM_cons, Option.bind_eq_bind, Option.pure_def] at h
    cases hp : mergeParentOk s repo p with
    | none => rw [hp] at h; simp at h
    | some v0 =>
      rw [hp] at h
      cases hr : rest.mapM (mergeParentOk s repo) with
      | none => rw [hr] at h; simp at h
      | some vs =>
        rw [hr] at h
        simp at h
        subst h
        intro v hv
        rcases List.mem_cons.mp hv with e | e
        · subst e; exact mergeParentOk_spec hp
        · exact ih hr v e

/-- adding the child to each parent's child list (a fold of `updNode`) is a node-wise update that keeps
    identity, repo, parents and commit flags -/
theorem foldl_updNode_nodes (repo : String) (cv : Nat) (pvs : List Nat) (s : State) :
    ∃ g : Node → Node, Pres g ∧
      (pvs.foldl (fun st pv => st.updNode repo pv (fun n => { n with children := n.children ++ [cv] })) s).nodes = s.nodes.map g ∧
      (pvs.foldl (fun st pv => st.updNode repo pv (fun n => { n with children := n.children ++ [cv] })) s).nextV = s.nextV := by
  induction pvs generalizing s with
  | nil => exact ⟨id, fun _ => ⟨rfl, rfl, rfl, id⟩, by simp, rfl⟩
  | cons pv rest ih =>
    simp only [List.foldl_cons]
    obtain ⟨g, hg, hn, hv⟩ := ih (s.updNode repo pv (fun n => { n with children := n.children ++ [cv] }))
    let f : Node → Node := fun n => if n.v = pv ∧ n.repo = repo then { n with children := n.children ++ [cv] } else n
    have hf : Pres f := pres_ite (fun n => n.v = pv ∧ n.repo = repo) _ (pres_addChild cv)
    refine ⟨g ∘ f, ?_, ?_, ?_⟩
    · intro n
      have a := hf n
      have b := hg (f n)
      exact ⟨by simp [Function.comp, b.1, a.1], by simp [Function.comp, b.2.1, a.2.1],
        by simp [Function.comp, b.2.2.1, a.2.2.1], fun hl => b.2.2.2 (a.2.2.2 hl)⟩
    · rw [hn]; simp [State.updNode, List.map_map, f]
    · rw [hv]; rfl

theorem linkMerge_inv (s s1 : State) (repo : String) (pvs : List Nat) (cu : String) (cv : Nat)
    (h : Inv s) (hn : s1.nodes = s.nodes) (hnv : s1.nextV = s.nextV + 1) (hcv : cv = s.nextV)
    (hp : ∀ v ∈ pvs, ∃ m ∈ s.nodes, m.v = v ∧ m.repo = repo ∧ m.locked = true) :
    Inv (linkMerge s1 repo pvs cu cv) := by
  unfold Inv at h ⊢
  unfold linkMerge
  obtain ⟨g, hg, hgn, hgv⟩ := foldl_updNode_nodes repo cv pvs { s1 with repos := setKey s1.repos cu repo }
  simp only
  rw [hgn, hgv]
  simp only [hn, hnv]
  apply invN_snoc (invN_map g hg h) _ hcv
  intro p hpm
  obtain ⟨m, hm, hmv, hmr, hml⟩ := hp p hpm
  exact ⟨g m, List.mem_map.mpr ⟨m, hm, rfl⟩, by rw [(hg m).1]; exact hmv, by rw [(hg m).2.1]; exact hmr, (hg m).2.2.2 hml⟩

theorem merge_inv (s : State) (ps : List String) (h : Inv s) : Inv (merge s ps).1 := by
  unfold merge
  simp only [Gen.mergeValidatesFirst, if_true]
  split
  · exact h
  · cases hrepo : (ps.head? >>= lookup s.repos) with
    | none => exact h
    | some repo =>
      simp only
      cases hpvs : ps.mapM (mergeParentOk s repo) with
      | none => exact h
      | some pvs =>
        simp only
        split
        · exact h
        · cases hu : newUUID s none with
          | none => exact h
          | some t =>
            obtain ⟨s1, cu, cv⟩ := t
            obtain ⟨hn, hnv, hcv, _⟩ := newUUID_nodes hu
            exact linkMerge_inv s s1 repo pvs cu cv h hn hnv hcv (mapM_mergeParentOk hpvs)

theorem tag_inv (s : State) (p t : String) (h : Inv s) : Inv (tag s p t).1 := by
  unfold tag
  split
  · exact h
  · have h1 := newVersion_inv s p ("tag-" ++ t) (some t) h
    cases hnv : newVersion s p ("tag-" ++ t) (some t) with
    | mk s1 r1 =>
      rw [hnv] at h1
      simp only at h1 ⊢
      cases r1 with
      | err => simp only [Gen.tagCommitsOnlyOnSuccess, if_true]; exact h1
      | ok u => exact commit_inv s1 t h1

theorem deleteRepo_inv (s : State) (u : String) (h : Inv s) : Inv (deleteRepo s u).1 := by
  unfold deleteRepo
  split
  · exact h
  · rename_i repo _
    split
    · exact h
    · -- the fold only edits the id maps
      have hfold : ∀ (l : List Node) (st : State),
          (l.foldl dropIds st).nodes = st.nodes ∧ (l.foldl dropIds st).nextV = st.nextV := by
        intro l
        induction l with
        | nil => intro st; exact ⟨rfl, rfl⟩
        | cons n rest ih =>
          intro st
          simp only [List.foldl_cons]
          have := ih (dropIds st n)
          rw [this.1, this.2]
          unfold dropIds
          split <;> exact ⟨rfl, rfl⟩
      obtain ⟨e1, e2⟩ := hfold (s.nodes.filter (·.repo = repo)) s
      unfold Inv at h ⊢
      simp only [e1, e2]
      constructor
      · intro n hn
        exact h.1 n (List.mem_filter.mp hn).1
      · intro n hn p hp
        have hn' := List.mem_filter.mp hn
        obtain ⟨hlt, m, hm, hmv, hmr, hml⟩ := h.2 n hn'.1 p hp
        refine ⟨hlt, m, List.mem_filter.mpr ⟨hm, ?_⟩, hmv, hmr, hml⟩
        have : n.repo ≠ repo := by simpa using hn'.2
        simp only [decide_eq_true_eq, ne_eq]
        rw [hmr]; exact this

/-- every request preserves the invariant -/
theorem step_inv (s : State) (r : Req) (h : Inv s) : Inv (step s r).1 := by
  cases r with
  | newRepo a => exact newRepo_inv s a h
  | commit u => exact commit_inv s u h
  | newVersion p a =>
    simp only [step]
    cases a with
    | none => exact newVersion_inv s p "" none h
    | some u => simp only; split <;> first | exact newVersion_inv s p "" (some u) h | exact h
  | branch p name a =>
    simp only [step]
    split
    · exact h
    · cases a with
      | none => exact newVersion_inv s p name none h
      | some u => simp only; split <;> first | exact newVersion_inv s p name (some u) h | exact h
  | tag p t => exact tag_inv s p t h
  | merge ps => exact merge_inv s ps h
  | deleteRepo u => exact deleteRepo_inv s u h

/-- **After any sequence of repo-level requests, valid or rejected,** every parent link points to an
    existing, committed, older node of the same repo: the graph is acyclic (`parents_lt`), and a new version
    only ever hangs off a committed parent. -/
theorem reachable_inv (rs : List Req) : Inv (rs.foldl (fun s r => (step s r).1) init) := by
  suffices h : ∀ s, Inv s → Inv (rs.foldl (fun s r => (step s r).1) s) by
    exact h init ⟨by intro n hn; simp [init] at hn, by intro n hn; simp [init] at hn⟩
  induction rs with
  | nil => intro s hs; exact hs
  | cons r rest ih => intro s hs; exact ih _ (step_inv s r hs)

/-- the DAG of every reachable manager state satisfies the well-formedness hypothesis (`Dag.WF`) under which
    C01's resolver theorems are stated: every parent id is smaller than its child's -/
theorem parents_lt (rs : List Req) :
    ∀ n ∈ (rs.foldl (fun s r => (step s r).1) init).nodes, ∀ p ∈ n.parents, p < n.v :=
  fun n hn p hp => ((reachable_inv rs).2 n hn p hp).1

/- Non-vacuity: a concrete history with a branch, a merge and refused requests reaches a state with a
   two-parent node. -/
example :
    let s := [Req.newRepo none, .commit "g1", .newVersion "g1" none, .branch "g1" "dev" none, .merge ["g2", "g3"],
              .commit "g2", .commit "g3", .merge ["g2", "g3"], .merge ["g2", "g2"]].foldl (fun s r => (step s r).1) init
    (s.nodes.map (fun n => (n.v, n.parents))) = [(1, []), (2, [1]), (3, [1]), (4, [2, 3])] := by
  decide

end Dvid.Props.C07
