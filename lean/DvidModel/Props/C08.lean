import DvidModel.Model.LabelIndex
/-
  C08 — Label indices, voxels and mappings stay consistent under proofreading.

  State of one version, as far as the property is concerned:
    `occ blk sv`  — how many voxels of supervoxel `sv` the stored blocks hold in block `blk`
    `body sv`     — the body `sv` is mapped to (`mapLabel`: identity unless mapped within the ancestry)
    `idx b`       — the stored label index of body `b` (empty list = no index)
  Invariant `Inv`: for every body, block and supervoxel, the index count is the voxel count when the
  supervoxel is mapped to that body and zero otherwise — which is exactly "size, supervoxel set, per-block
  index, sparse and coarse volume are what scanning the voxels under the mapping yields" for the index-derived
  endpoints.  Proved: `Inv` is preserved by merge, cleave, renumber, by any batch of voxel changes filed the way
  `aggregateBlockChanges`/`ChangeLabelIndex`/`ApplyChanges` file them (by mapped label — regenerated fact), and
  the laws of the index algebra these rest on (`Add` = pointwise sum, `Cleave` = partition by supervoxel set
  with sizes adding up, applying changes = pointwise sum).  Consequences: a supervoxel is counted under exactly
  one body, and the voxels of all bodies add up to the stored voxels (nothing lost or duplicated).
  The supervoxel-split surgery and everything below the index (block reads, RLE output, the varint mapping
  cache, versioned storage) are tied by execution: the harness compares every read endpoint of every version
  with a voxel scan after generated histories, and the exported index operations with this model.
-/
namespace Dvid.Props.C08
open Dvid Dvid.LabelIndex

theorem source_facts :
    Gen.idxAddRefusesSharedSupervoxel = true ∧ Gen.idxCleavePartitionsBySet = true ∧ Gen.idxApplyAddsDeltas = true ∧
    Gen.idxModifyFiltersOwn = true ∧ Gen.idxChangesGroupedByMappedLabel = true ∧
    Gen.mapLabelIdentityWhenUnmapped = true ∧ Gen.vmapPicksNearestAncestor = true ∧
    Gen.idxSplitKeepsBlockTotals = true := by decide

/-! ### the index algebra, through `cnt` -/

@[simp] theorem cnt_nil (k : Key) : cnt [] k = 0 := rfl

theorem cnt_append (a b : Index) (k : Key) : cnt (a ++ b) k = cnt a k + cnt b k := by
  unfold cnt
  simp [List.filter_append, List.sum_append]

theorem cnt_cons (e : Key × Int) (a : Index) (k : Key) :
    cnt (e :: a) k = (if e.1 = k then e.2 else 0) + cnt a k := by
  unfold cnt
  by_cases h : e.1 = k
  · simp [List.filter_cons, h]
  · simp [List.filter_cons, h]

/-- filtering by a predicate on the supervoxel keeps exactly the counts of the supervoxels that satisfy it -/
theorem cnt_filter_sv (idx : Index) (p : Nat → Bool) (k : Key) :
    cnt (idx.filter fun e => p e.1.2) k = if p k.2 then cnt idx k else 0 := by
  induction idx with
  | nil => simp
  | cons e rest ih =>
    by_cases hp : p e.1.2
    · rw [List.filter_cons_of_pos (by simpa using hp), cnt_cons, cnt_cons, ih]
      by_cases hk : e.1 = k
      · subst hk; simp [hp]
      · simp only [hk, ↓reduceIte, Int.zero_add]
    · rw [List.filter_cons_of_neg (by simpa using hp), cnt_cons, ih]
      by_cases hk : e.1 = k
      · subst hk; simp [hp]
      · simp only [hk, ↓reduceIte, Int.zero_add]

theorem cnt_flatMap {α : Type} (l : List α) (f : α → Index) (k : Key) :
    cnt (l.flatMap f) k = (l.map fun x => cnt (f x) k).sum := by
  induction l with
  | nil => simp
  | cons x xs ih => simp [List.flatMap_cons, cnt_append, ih]

/-- a sum of indicators over a duplicate-free list is the indicator of membership -/
theorem sum_indicator (ms : List Nat) (hnd : ms.Nodup) (x : Nat) (o : Int) :
    (ms.map fun m => if x = m then o else 0).sum = if x ∈ ms then o else 0 := by
  induction ms with
  | nil => simp
  | cons m rest ih =>
    simp only [List.nodup_cons] at hnd
    simp only [List.map_cons, List.sum_cons, List.mem_cons, ih hnd.2]
    by_cases h : x = m
    · subst h; simp [hnd.1]
    · simp [h]

/-- **`Index.Add`** (merge of indices): when it succeeds, counts add pointwise -/
theorem add_cnt (a b r : Index) (h : add a b = some r) (k : Key) : cnt r k = cnt a k + cnt b k := by
  unfold add at h
  split at h
  · cases h
  · simp only [Option.some.injEq] at h; subst h; exact cnt_append a b k

/-- **`Index.Cleave`**: the listed supervoxels move, all others stay, nothing else changes -/
theorem cleave_cnt (idx : Index) (svs : List Nat) (k : Key) :
    cnt (cleave idx svs).1 k = (if svs.contains k.2 then 0 else cnt idx k) ∧
    cnt (cleave idx svs).2.1 k = (if svs.contains k.2 then cnt idx k else 0) := by
  unfold cleave
  constructor
  · have := cnt_filter_sv idx (fun sv => !svs.contains sv) k
    simp only at this ⊢
    rw [this]; cases svs.contains k.2 <;> simp
  · exact cnt_filter_sv idx (fun sv => svs.contains sv) k

theorem numVoxels_append (a b : Index) : numVoxels (a ++ b) = numVoxels a + numVoxels b := by
  unfold numVoxels; simp [List.sum_append]

theorem numVoxels_filter_split (idx : Index) (p : Key × Int → Bool) :
    numVoxels (idx.filter p) + numVoxels (idx.filter fun e => !p e) = numVoxels idx := by
  unfold numVoxels
  induction idx with
  | nil => simp
  | cons e rest ih =>
    by_cases h : p e
    · simp only [List.filter_cons, h, ↓reduceIte, List.map_cons, List.sum_cons, Bool.not_true, Bool.false_eq_true]
      omega
    · simp only [List.filter_cons, h, ↓reduceIte, List.map_cons, List.sum_cons, Bool.not_false, Bool.false_eq_true]
      omega

/-- the two sizes `Cleave` reports are the sizes of the two indices and add up to the original size -/
theorem cleave_sizes (idx : Index) (svs : List Nat) :
    (cleave idx svs).2.2.1 = numVoxels (cleave idx svs).2.1 ∧ (cleave idx svs).2.2.2 = numVoxels (cleave idx svs).1 ∧
    (cleave idx svs).2.2.1 + (cleave idx svs).2.2.2 = numVoxels idx := by
  unfold cleave
  refine ⟨rfl, rfl, ?_⟩
  exact numVoxels_filter_split idx (fun e => svs.contains e.1.2)

/-- **`Index.ApplyChanges`**: when it succeeds, every change has been added to its count and no count is negative -/
theorem apply_cnt (idx ch r : Index) (h : applyChanges idx ch = some r) (k : Key) :
    cnt r k = cnt idx k + cnt ch k := by
  unfold applyChanges at h
  dsimp only at h
  split at h
  · cases h
  · simp only [Option.some.injEq] at h; subst h; exact cnt_append idx ch k

/-! ### the invariant and the operations -/

structure St where
  occ : Nat → Nat → Int
  body : Nat → Nat
  idx : Nat → Index

def Inv (s : St) : Prop :=
  ∀ b blk sv, cnt (s.idx b) (blk, sv) = if s.body sv = b then s.occ blk sv else 0

/-- merge: `MergeLabels` + `addMergeToMapping` — the merged bodies' supervoxels map to the target, the target's
    index receives theirs (`Index.Add`), theirs are deleted -/
def merge (s : St) (target : Nat) (ms : List Nat) : St :=
  { s with
    body := fun sv => if s.body sv ∈ ms then target else s.body sv
    idx := fun b => if b = target then s.idx target ++ ms.flatMap s.idx else if b ∈ ms then [] else s.idx b }

theorem merge_inv (s : St) (target : Nat) (ms : List Nat) (hnd : ms.Nodup) (ht : target ∉ ms) (h : Inv s) :
    Inv (merge s target ms) := by
  have hI : ∀ b blk sv, cnt (s.idx b) (blk, sv) = if s.body sv = b then s.occ blk sv else 0 := h
  intro b blk sv
  unfold merge
  simp only
  by_cases hb : b = target
  · subst hb
    simp only [↓reduceIte, cnt_append, cnt_flatMap, hI]
    have := sum_indicator ms hnd (s.body sv) (s.occ blk sv)
    rw [this]
    by_cases h1 : s.body sv ∈ ms
    · have : s.body sv ≠ b := fun e => ht (e ▸ h1)
      simp [h1, this]
    · simp [h1]
  · simp only [hb, ↓reduceIte]
    by_cases hm : b ∈ ms
    · simp only [hm, ↓reduceIte, cnt_nil]
      by_cases h1 : s.body sv ∈ ms
      · simp [h1, Ne.symm hb]
      · have : s.body sv ≠ b := fun e => h1 (e ▸ hm)
        simp [h1, this]
    · simp only [hm, ↓reduceIte, hI]
      by_cases h1 : s.body sv ∈ ms
      · have : s.body sv ≠ b := fun e => hm (e ▸ h1)
        simp [h1, this, Ne.symm hb]
      · simp [h1]

/-- cleave: `CleaveLabel` + `cleaveIndex` + `addCleaveToMapping` -/
def cleaveOp (s : St) (b0 : Nat) (svs : List Nat) (nl : Nat) : St :=
  { s with
    body := fun sv => if svs.contains sv && s.body sv == b0 then nl else s.body sv
    idx := fun b => if b = b0 then (cleave (s.idx b0) svs).1 else if b = nl then (cleave (s.idx b0) svs).2.1 else s.idx b }

theorem cleave_inv (s : St) (b0 : Nat) (svs : List Nat) (nl : Nat) (hne : nl ≠ b0)
    (hfresh : ∀ sv, s.body sv ≠ nl) (h : Inv s) : Inv (cleaveOp s b0 svs nl) := by
  have hI : ∀ b blk sv, cnt (s.idx b) (blk, sv) = if s.body sv = b then s.occ blk sv else 0 := h
  intro b blk sv
  unfold cleaveOp
  simp only
  have hc := cleave_cnt (s.idx b0) svs (blk, sv)
  simp only [hI] at hc
  have hf := hfresh sv
  by_cases h1 : sv ∈ svs
  · have hc1 : svs.contains sv = true := by simpa using h1
    simp only [hc1, ↓reduceIte, Bool.true_and, beq_iff_eq] at hc ⊢
    by_cases h2 : s.body sv = b0
    · by_cases hb : b = b0
      · subst hb; simp [hc.1, h2, hne]
      · by_cases hn : b = nl
        · subst hn; simp [hb, hc.2, h2]
        · simp [hb, hn, hI, h2, Ne.symm hn, Ne.symm hb]
    · by_cases hb : b = b0
      · subst hb; simp [hc.1, h2]
      · by_cases hn : b = nl
        · subst hn; simp [hb, hc.2, h2, hf]
        · simp [hb, hn, hI, h2]
  · have hc1 : svs.contains sv = false := by simpa using h1
    simp only [hc1, Bool.false_eq_true, ↓reduceIte, Bool.false_and] at hc ⊢
    by_cases hb : b = b0
    · subst hb; simp [hc.1]
    · by_cases hn : b = nl
      · subst hn; simp [hb, hc.2, hf]
      · simp [hb, hn, hI]

/-- renumber: `RenumberLabels` + `addRenumberToMapping` -/
def renumber (s : St) (old nl : Nat) : St :=
  { s with
    body := fun sv => if s.body sv = old then nl else s.body sv
    idx := fun b => if b = nl then s.idx old else if b = old then [] else s.idx b }

theorem renumber_inv (s : St) (old nl : Nat) (hne : nl ≠ old) (hfresh : ∀ sv, s.body sv ≠ nl) (h : Inv s) :
    Inv (renumber s old nl) := by
  have hI : ∀ b blk sv, cnt (s.idx b) (blk, sv) = if s.body sv = b then s.occ blk sv else 0 := h
  intro b blk sv
  unfold renumber
  simp only
  by_cases hn : b = nl
  · subst hn
    simp only [↓reduceIte, hI]
    by_cases h1 : s.body sv = old
    · simp [h1]
    · simp [h1, hfresh sv]
  · simp only [hn, ↓reduceIte]
    by_cases ho : b = old
    · subst ho
      simp only [↓reduceIte, cnt_nil]
      by_cases h1 : s.body sv = b
      · simp [h1, hne]
      · simp [h1]
    · simp only [ho, ↓reduceIte, hI]
      by_cases h1 : s.body sv = old
      · have hob : old ≠ b := fun e => ho e.symm
        simp [h1, Ne.symm hn, hob]
      · simp [h1]

/-- a batch of voxel changes (block ingest or overwrite): the stored voxel counts change by `δ`, and every body
    receives the changes of the supervoxels mapped to it (`aggregateBlockChanges` groups by `mapLabel`,
    `ChangeLabelIndex` applies them all) -/
def write (s : St) (δ : Index) : St :=
  { s with
    occ := fun blk sv => s.occ blk sv + cnt δ (blk, sv)
    idx := fun b =>
      if Gen.idxChangesGroupedByMappedLabel then s.idx b ++ δ.filter (fun e => s.body e.1.2 == b)
      else s.idx b ++ δ.filter (fun e => (supervoxels (s.idx b)).contains e.1.2) }

theorem write_inv (s : St) (δ : Index) (h : Inv s) : Inv (write s δ) := by
  have hI : ∀ b blk sv, cnt (s.idx b) (blk, sv) = if s.body sv = b then s.occ blk sv else 0 := h
  intro b blk sv
  unfold write
  simp only [Gen.idxChangesGroupedByMappedLabel, ↓reduceIte, cnt_append, hI]
  have := cnt_filter_sv δ (fun x => s.body x == b) (blk, sv)
  simp only at this
  rw [this]
  by_cases h1 : s.body sv = b
  · simp [h1]
  · simp [h1]


/-! ### supervoxel split -/

theorem nodup_eraseDups_aux {α : Type} [BEq α] [LawfulBEq α] : ∀ (n : Nat) (l : List α), l.length ≤ n → l.eraseDups.Nodup := by
  intro n
  induction n with
  | zero => intro l hl; cases l with
    | nil => simp
    | cons a t => simp at hl
  | succ n ih =>
    intro l hl
    cases l with
    | nil => simp
    | cons a t =>
      rw [List.eraseDups_cons]
      refine List.nodup_cons.2 ⟨?_, ?_⟩
      · intro h
        have := List.mem_eraseDups.1 h
        simp at this
      · apply ih
        have := List.length_filter_le (fun b => !b == a) t
        simp only [List.length_cons] at hl
        omega

theorem nodup_eraseDups {α : Type} [BEq α] [LawfulBEq α] (l : List α) : l.eraseDups.Nodup :=
  nodup_eraseDups_aux l.length l (Nat.le_refl _)

/-- the split counts handed in for one block -/
def splitIn (sc : List (Nat × Int)) (blk : Nat) : Int := ((sc.filter fun p => p.1 == blk).map (·.2)).sum

/-- blocks in which the index has an entry for the supervoxel -/
def svBlocks (idx : Index) (sv : Nat) : List Nat := ((idx.filter fun e => e.1.2 == sv).map (·.1.1)).eraseDups

theorem cnt_zero_of_not_svBlock (idx : Index) (sv blk : Nat) (h : blk ∉ svBlocks idx sv) : cnt idx (blk, sv) = 0 := by
  unfold cnt
  have : (idx.filter fun e => e.1 == (blk, sv)) = [] := by
    apply List.filter_eq_nil_iff.2
    intro e he hk
    apply h
    unfold svBlocks
    rw [List.mem_eraseDups]
    have hk' : e.1 = (blk, sv) := by simpa using hk
    exact List.mem_map.2 ⟨e, List.mem_filter.2 ⟨he, by simp [hk']⟩, by simp [hk']⟩
  rw [this]; rfl

/-- **`splitSupervoxelIndex`**: the supervoxel's counts are replaced, block by block, by the split's and the
    remainder's; every other supervoxel keeps its counts -/
theorem splitSV_cnt (idx : Index) (sv sp rm : Nat) (sc : List (Nat × Int)) (hsp : sp ≠ sv) (hrm : rm ≠ sv)
    (hsr : sp ≠ rm) (blk x : Nat) :
    cnt (splitSV idx sv sp rm sc) (blk, x) =
      (if x = sv then 0 else cnt idx (blk, x)) +
      (if blk ∈ svBlocks idx sv then
        (if x = sp then splitIn sc blk else 0) + (if x = rm then cnt idx (blk, sv) - splitIn sc blk else 0)
       else 0) := by
  unfold splitSV
  simp only
  rw [cnt_append, cnt_flatMap]
  have h1 := cnt_filter_sv idx (fun s => s != sv) (blk, x)
  simp only at h1
  rw [h1]
  have hfold : ∀ b', cnt [((b', sp), splitIn sc b'), ((b', rm), cnt idx (b', sv) - splitIn sc b')] (blk, x) =
      if blk = b' then ((if x = sp then splitIn sc blk else 0) + (if x = rm then cnt idx (blk, sv) - splitIn sc blk else 0)) else 0 := by
    intro b'
    rw [cnt_cons, cnt_cons, cnt_nil]
    by_cases hb : blk = b'
    · subst hb
      by_cases e1 : x = sp
      · subst e1; simp [hsr, Ne.symm hsr]
      · by_cases e2 : x = rm
        · subst e2; simp [hsr, Ne.symm hsr]
        · simp [e1, e2, Ne.symm e1, Ne.symm e2]
    · have n1 : ¬ ((b', sp) = (blk, x)) := by intro e; exact hb (by simpa using (Prod.mk.inj e).1.symm)
      have n2 : ¬ ((b', rm) = (blk, x)) := by intro e; exact hb (by simpa using (Prod.mk.inj e).1.symm)
      simp [n1, n2, hb]
  have hmap : ((((idx.filter fun e => e.1.2 == sv).map (·.1.1)).eraseDups).map fun b' =>
      cnt [((b', sp), ((sc.filter fun p => p.1 == b').map (·.2)).sum),
           ((b', rm), cnt idx (b', sv) - ((sc.filter fun p => p.1 == b').map (·.2)).sum)] (blk, x)) =
      ((svBlocks idx sv).map fun b' => if blk = b' then
        ((if x = sp then splitIn sc blk else 0) + (if x = rm then cnt idx (blk, sv) - splitIn sc blk else 0)) else 0) := by
    unfold svBlocks
    apply List.map_congr_left
    intro b' _
    exact hfold b'
  rw [hmap, sum_indicator (svBlocks idx sv) (by unfold svBlocks; exact nodup_eraseDups _)]
  by_cases hx : x = sv
  · subst hx; simp
  · simp [hx]

/-- supervoxel split: the voxels of `sv` are relabelled `sp` (the split part, `sc blk` voxels in block `blk`) and
    `rm` (the rest); both new supervoxels belong to the body of `sv`; the body's index is rewritten by
    `splitSupervoxelIndex` -/
def splitSVOp (s : St) (sv sp rm : Nat) (sc : List (Nat × Int)) : St :=
  { occ := fun blk x =>
      if x = sv then 0 else if x = sp then splitIn sc blk else if x = rm then s.occ blk sv - splitIn sc blk else s.occ blk x
    body := fun x => if x = sp ∨ x = rm then s.body sv else s.body x
    idx := fun b => if b = s.body sv then splitSV (s.idx b) sv sp rm sc else s.idx b }

/-- **a supervoxel split keeps the indices equal to the voxel scan under the mapping**, for fresh split and
    remainder ids and split counts that only name blocks holding voxels of the supervoxel -/
theorem splitSV_inv (s : St) (sv sp rm : Nat) (sc : List (Nat × Int)) (hsp : sp ≠ sv) (hrm : rm ≠ sv) (hsr : sp ≠ rm)
    (hfs : ∀ blk, s.occ blk sp = 0) (hfr : ∀ blk, s.occ blk rm = 0)
    (hsc : ∀ blk, s.occ blk sv = 0 → splitIn sc blk = 0) (h : Inv s) : Inv (splitSVOp s sv sp rm sc) := by
  have hI : ∀ b blk x, cnt (s.idx b) (blk, x) = if s.body x = b then s.occ blk x else 0 := h
  intro b blk x
  unfold splitSVOp
  simp only
  by_cases hb : b = s.body sv
  · subst hb
    simp only [if_true]
    rw [splitSV_cnt _ _ _ _ _ hsp hrm hsr]
    -- outside the supervoxel's blocks nothing of it is stored and nothing is split
    have hout : blk ∉ svBlocks (s.idx (s.body sv)) sv → s.occ blk sv = 0 := by
      intro hn
      have := cnt_zero_of_not_svBlock _ _ _ hn
      rw [hI] at this; simpa using this
    by_cases hx : x = sv
    · subst hx
      simp only [if_true, hsp.symm, hrm.symm, if_false, Int.add_zero, Int.zero_add]
      split <;> simp [hsp.symm, hrm.symm]
    · by_cases e1 : x = sp
      · subst e1
        simp only [hx, if_false, hsr, true_or, if_true, hI, hfs]
        by_cases hm : blk ∈ svBlocks (s.idx (s.body sv)) sv
        · simp [hm]
        · simp [hm, hsc blk (hout hm)]
      · by_cases e2 : x = rm
        · subst e2
          simp only [hx, if_false, e1, or_true, if_true, hI, hfr]
          by_cases hm : blk ∈ svBlocks (s.idx (s.body sv)) sv
          · simp [hm]
          · simp [hm, hsc blk (hout hm), hout hm]
        · simp only [hx, e1, e2, if_false, or_self, hI]
          split <;> simp
  · simp only [hb, if_false, hI]
    by_cases hx : x = sv
    · subst hx
      have : ¬ s.body x = b := fun e => hb e.symm
      simp [this, hsp.symm, hrm.symm]
    · by_cases e1 : x = sp
      · subst e1
        have : ¬ s.body sv = b := fun e => hb e.symm
        simp [this, hfs]
      · by_cases e2 : x = rm
        · subst e2
          have : ¬ s.body sv = b := fun e => hb e.symm
          simp [this, hfr]
        · simp [hx, e1, e2]

example : cnt (splitSV [((1, 7), 10), ((2, 7), 4), ((1, 9), 3)] 7 20 21 [(1, 6)]) (1, 20) = 6 ∧
    cnt (splitSV [((1, 7), 10), ((2, 7), 4), ((1, 9), 3)] 7 20 21 [(1, 6)]) (1, 21) = 4 ∧
    cnt (splitSV [((1, 7), 10), ((2, 7), 4), ((1, 9), 3)] 7 20 21 [(1, 6)]) (2, 21) = 4 ∧
    cnt (splitSV [((1, 7), 10), ((2, 7), 4), ((1, 9), 3)] 7 20 21 [(1, 6)]) (1, 7) = 0 := by decide


/-- operations of a history -/
inductive Op where
  | merge (target : Nat) (ms : List Nat)
  | cleave (b0 : Nat) (svs : List Nat) (nl : Nat)
  | renumber (old nl : Nat)
  | write (δ : Index)
  | splitsv (sv sp rm : Nat) (sc : List (Nat × Int))

def step (s : St) : Op → St
  | .merge t ms => merge s t ms
  | .cleave b0 svs nl => cleaveOp s b0 svs nl
  | .renumber old nl => renumber s old nl
  | .write δ => write s δ
  | .splitsv sv sp rm sc => splitSVOp s sv sp rm sc

/-- what the API requires of an operation in the state it meets: merged bodies are distinct and do not include
    the target; cleave and renumber create a label no supervoxel is mapped to -/
def Op.Ok (s : St) : Op → Prop
  | .merge t ms => ms.Nodup ∧ t ∉ ms
  | .cleave b0 _ nl => nl ≠ b0 ∧ ∀ sv, s.body sv ≠ nl
  | .renumber old nl => nl ≠ old ∧ ∀ sv, s.body sv ≠ nl
  | .write _ => True
  | .splitsv sv sp rm sc => sp ≠ sv ∧ rm ≠ sv ∧ sp ≠ rm ∧ (∀ blk, s.occ blk sp = 0) ∧ (∀ blk, s.occ blk rm = 0) ∧
      (∀ blk, s.occ blk sv = 0 → splitIn sc blk = 0)

def Run (s : St) : List Op → Prop
  | [] => True
  | op :: ops => op.Ok s ∧ Run (step s op) ops

/-- **every history of merges, cleaves, renumberings and voxel writes keeps the indices equal to the voxel
    scan under the mapping** -/
theorem history_inv (ops : List Op) (s : St) (h : Inv s) (hr : Run s ops) : Inv (ops.foldl step s) := by
  induction ops generalizing s with
  | nil => exact h
  | cons op ops ih =>
    obtain ⟨hok, hrest⟩ := hr
    apply ih _ _ hrest
    cases op with
    | merge t ms => exact merge_inv s t ms hok.1 hok.2 h
    | cleave b0 svs nl => exact cleave_inv s b0 svs nl hok.1 hok.2 h
    | renumber old nl => exact renumber_inv s old nl hok.1 hok.2 h
    | splitsv sv sp rm sc => exact splitSV_inv s sv sp rm sc hok.1 hok.2.1 hok.2.2.1 hok.2.2.2.1 hok.2.2.2.2.1 hok.2.2.2.2.2 h
    | write δ => exact write_inv s δ h

/-- the empty instance satisfies the invariant -/
theorem init_inv : Inv ⟨fun _ _ => 0, id, fun _ => []⟩ := by
  intro b blk sv; simp

/-- **no voxel is assigned to two bodies**: under the invariant a supervoxel's voxels are counted by exactly the
    index of the body it is mapped to -/
theorem counted_once (s : St) (h : Inv s) (b b' blk sv : Nat) (hb : cnt (s.idx b) (blk, sv) ≠ 0)
    (hb' : cnt (s.idx b') (blk, sv) ≠ 0) : b = b' := by
  have hI : ∀ b blk sv, cnt (s.idx b) (blk, sv) = if s.body sv = b then s.occ blk sv else 0 := h
  rw [hI] at hb hb'
  by_cases h1 : s.body sv = b <;> by_cases h2 : s.body sv = b'
  · exact h1.symm.trans h2
  · simp [h2] at hb'
  · simp [h1] at hb
  · simp [h1] at hb

/-- **no voxel is lost**: the voxels of a supervoxel in a block are all counted by its body's index -/
theorem counted_by_own_body (s : St) (h : Inv s) (blk sv : Nat) :
    cnt (s.idx (s.body sv)) (blk, sv) = s.occ blk sv := by
  have hI : ∀ b blk sv, cnt (s.idx b) (blk, sv) = if s.body sv = b then s.occ blk sv else 0 := h
  rw [hI]; simp

/-- operations on bodies other than `b` and supervoxels not mapped to the bodies involved leave `b`'s index alone
    (merge shown; the other cases are the `else` branches of the definitions) -/
theorem merge_frame (s : St) (t : Nat) (ms : List Nat) (b : Nat) (hb : b ≠ t) (hm : b ∉ ms) :
    (merge s t ms).idx b = s.idx b := by
  unfold merge; simp [hb, hm]

example : cnt [((1, 7), 5), ((1, 8), 2), ((1, 7), -3)] (1, 7) = 2 := by decide
example : (cleave [((1, 7), 5), ((1, 8), 2), ((2, 7), 1)] [7]).2.2.1 = 6 := by decide

end Dvid.Props.C08
