import DvidModel.Lemmas.NJ2
/-
  C16 — Neuron annotations: in-memory head equals the store; updates merge fields.
  Proved here over a mirror of `updateJSON` (field names read as the Go code reads them: one `_user`/`_time`
  suffix level): a partial update keeps every field it does not mention; a null removes the field's value
  whatever else the request holds; repeating a stored value leaves that field's user and time stamps as they
  were.  For the head's sorted id list: Go's `sort.Search` on a monotone predicate returns the least index,
  and `deleteBodyID` (whose predicate is regenerated from the source) removes exactly the given id from a
  sorted list and keeps it sorted — with a decided witness that the equality predicate misses.
  That every read endpoint answers identically through the in-memory head and through the store is decided
  by the harness on generated histories (DESIGN.md §4 C16).
-/
namespace Dvid.Props.C16
open Dvid Dvid.NJ

/-- a null in the request removes the field's value -/
theorem null_removes (orig : Option Obj) (new : Obj) (user time : String) (cond : List Key) (replace : Bool)
    (f : Key) (hf : f.kind = .plain) (hnull : (f, Val.null) ∈ new) :
    get (updateJSON orig new user time cond replace) f = none := by
  have hdel : f ∈ (new.filter (·.2 == .null)).map (·.1) :=
    List.mem_map.2 ⟨(f, .null), List.mem_filter.2 ⟨hnull, by simp⟩, rfl⟩
  unfold updateJSON
  simp only
  have hnw := fold_dropNull_get_plain (explicitStamps new .user) (explicitStamps new .time) user time
    ((new.filter (·.2 == .null)).map (·.1)) (new, orig) f hf
  simp only [hdel, ↓reduceIte] at hnw
  cases orig with
  | none =>
    rw [fold_dropNull_orig_none]
    simp only
    rw [fold_stamp_get_plain _ _ _ _ _ _ _ hf]; exact hnw
  | some og =>
    obtain ⟨og', h1, h2, _⟩ := fold_dropNull_orig_spec (explicitStamps new .user) (explicitStamps new .time) user time
      ((new.filter (·.2 == .null)).map (·.1)) new og
    rw [h1]
    simp only
    have hog : get og' f = none := by rw [h2]; simp [hdel]
    cases replace with
    | true =>
      simp only [↓reduceIte]
      rw [fold_keepStamps_get_plain _ _ _ _ _ _ _ hf, fold_stamp_get_plain _ _ _ _ _ _ _ hf]; exact hnw
    | false =>
      simp only [Bool.false_eq_true, ↓reduceIte]
      rw [fold_stamp_get_plain _ _ _ _ _ _ _ hf, fold_carry_get_absent _ _ _ _ hog]; exact hnw

/-- a partial update keeps the fields it does not mention -/
theorem keeps_unmentioned (og new : Obj) (user time : String) (cond : List Key) (f : Key) (v : Val)
    (hf : f.kind = .plain) (hnd : (keys og).Nodup) (hog : get og f = some v) (hnm : f ∉ keys new) :
    get (updateJSON (some og) new user time cond false) f = some v := by
  have hdel : f ∉ (new.filter (·.2 == .null)).map (·.1) := by
    intro h
    obtain ⟨q, hq, hqe⟩ := List.mem_map.1 h
    apply hnm; rw [← hqe]; exact List.mem_map_of_mem (List.mem_filter.1 hq).1
  unfold updateJSON
  simp only
  have hnw := fold_dropNull_get_plain (explicitStamps new .user) (explicitStamps new .time) user time
    ((new.filter (·.2 == .null)).map (·.1)) (new, some og) f hf
  simp only [hdel, ↓reduceIte, get_none_of_not_mem_keys new f hnm] at hnw
  obtain ⟨og', h1, h2, h3⟩ := fold_dropNull_orig_spec (explicitStamps new .user) (explicitStamps new .time) user time
    ((new.filter (·.2 == .null)).map (·.1)) new og
  rw [h1]
  simp only [Bool.false_eq_true, ↓reduceIte]
  have hog' : get og' f = some v := by rw [h2]; simp [hdel, hog]
  rw [fold_stamp_get_plain _ _ _ _ _ _ _ hf]
  exact fold_carry_get_unmentioned cond og' _ f v hog' hnw (h3 hnd)

theorem get_of_mem_nodup (o : Obj) (p : Key × Val) (hp : p ∈ o) (hnd : (keys o).Nodup) : get o p.1 = some p.2 := by
  induction o with
  | nil => simp at hp
  | cons q qs ih =>
    have hk : keys (q :: qs) = q.1 :: keys qs := rfl
    rw [hk, List.nodup_cons] at hnd
    rw [get_cons]
    rcases List.mem_cons.1 hp with e | e
    · subst e; simp
    · have hne : q.1 ≠ p.1 := by
        intro e2; apply hnd.1; rw [e2]; exact List.mem_map_of_mem e
      have : (q.1 == p.1) = false := by simp [hne]
      simp only [this, Bool.false_eq_true, ↓reduceIte]
      exact ih e hnd.2

theorem mem_keys_of_get (o : Obj) (k : Key) (v : Val) (h : get o k = some v) : k ∈ keys o := by
  induction o with
  | nil => simp [get_nil] at h
  | cons q qs ih =>
    have hk : keys (q :: qs) = q.1 :: keys qs := rfl
    rw [hk]
    rw [get_cons] at h
    by_cases hq : q.1 = k
    · rw [hq]; exact List.mem_cons_self
    · have : (q.1 == k) = false := by simp [hq]
      simp only [this, Bool.false_eq_true, ↓reduceIte] at h
      exact List.mem_cons_of_mem _ (ih h)

/-- a field's stamps do not change when the request repeats its stored value (and gives no explicit stamps) -/
theorem stamps_unchanged (og new : Obj) (user time : String) (cond : List Key) (f k : Key) (v : Val)
    (hf : f.kind = .plain) (hk : k = userOf f ∨ k = timeOf f)
    (hndo : (keys og).Nodup) (hndn : (keys new).Nodup)
    (hv : v ≠ .null) (hog : get og f = some v) (hnew : get new f = some v)
    (hnu : userOf f ∉ keys new) (hnt : timeOf f ∉ keys new) :
    get (updateJSON (some og) new user time cond false) k = get og k := by
  have hkroot : k.root = f.root := by rcases hk with h | h <;> rw [h] <;> rfl
  have hkmeta : k.kind ≠ .plain := by rcases hk with h | h <;> rw [h] <;> simp [userOf, timeOf]
  have hknew : k ∉ keys new := by rcases hk with h | h <;> rw [h] <;> assumption
  -- deleted keys have another root than f
  have hroot : ∀ d ∈ (new.filter (·.2 == .null)).map (·.1), d.root ≠ k.root := by
    intro d hd hr
    rw [hkroot] at hr
    obtain ⟨q, hq, hqe⟩ := List.mem_map.1 hd
    have hqm := (List.mem_filter.1 hq).1
    have hqn : q.2 = .null := by simpa using (List.mem_filter.1 hq).2
    have hdk : d ∈ keys new := by rw [← hqe]; exact List.mem_map_of_mem hqm
    have hdf : d = f ∨ d = userOf f ∨ d = timeOf f := by
      cases d with | mk r kd =>
      cases f with | mk fr fk =>
      simp only at hr hf; subst hr; subst hf
      cases kd <;> simp [userOf, timeOf]
    rcases hdf with h | h | h
    · have := get_of_mem_nodup new q hqm hndn
      rw [hqe, h, hnew, hqn] at this
      exact hv (Option.some.inj this)
    · exact hnu (h ▸ hdk)
    · exact hnt (h ▸ hdk)
  have hfdel : f ∉ (new.filter (·.2 == .null)).map (·.1) := fun h => hroot f h hkroot.symm
  have hkdel : k ∉ (new.filter (·.2 == .null)).map (·.1) := fun h => hroot k h rfl
  unfold updateJSON
  simp only
  obtain ⟨og', h1, h2, h3⟩ := fold_dropNull_orig_spec (explicitStamps new .user) (explicitStamps new .time) user time
    ((new.filter (·.2 == .null)).map (·.1)) new og
  rw [h1]
  simp only [Bool.false_eq_true, ↓reduceIte]
  -- the request after the null loop
  have hnwk := fold_dropNull_get_far (explicitStamps new .user) (explicitStamps new .time) user time
    ((new.filter (·.2 == .null)).map (·.1)) (new, some og) k hroot
  rw [show (new, some og).1 = new from rfl, get_none_of_not_mem_keys new k hknew] at hnwk
  have hnwf := fold_dropNull_get_plain (explicitStamps new .user) (explicitStamps new .time) user time
    ((new.filter (·.2 == .null)).map (·.1)) (new, some og) f hf
  simp only [hfdel, ↓reduceIte, hnew] at hnwf
  have hogf : get og' f = some v := by rw [h2]; simp [hfdel, hog]
  have hogk : get og' k = get og k := by rw [h2]; simp [hkdel]
  -- f is not newly set, before or after the carry loop
  have hfns : ∀ ns, f ∈ (og'.foldl (carry cond) ((List.foldl (dropNull (explicitStamps new .user) (explicitStamps new .time) user time) (new, some og)
      ((new.filter (·.2 == .null)).map (·.1))).1, ns)).2 → f ∈ ns := fun ns h => fold_carry_newly_subset _ _ _ _ h
  rw [fold_stamp_get_other]
  · rw [fold_carry_get_from_orig cond og' _ k hnwk (h3 hndo), hogk]
  · intro g hg
    by_cases hm : isMeta g = true
    · exact Or.inl hm
    · right
      have hgp : g.kind = .plain := by
        unfold isMeta at hm; cases hgk : g.kind <;> simp_all
      have hgf : g ≠ f := by
        intro e
        have := hfns _ (e ▸ hg)
        have := (List.mem_filter.1 this).2
        have hhas : has og' f = true := by rw [has_eq_get, hogf]; rfl
        have hmf : isMeta f = false := by unfold isMeta; simp [hf]
        rw [hhas, hmf, hnwf, hogf] at this
        simp at this
      have hgr : g.root ≠ f.root := by
        intro e; apply hgf
        cases g with | mk r kd => cases f with | mk fr fk => simp_all
      constructor
      · intro e; apply hgr; rw [← hkroot, e]; rfl
      · intro e; apply hgr; rw [← hkroot, e]; rfl

/-- `sort.Search` on a monotone predicate returns the least index where it holds (or n) -/
theorem searchLoop_spec (f : Nat → Bool) (n : Nat) (hmono : ∀ i j, i ≤ j → j < n → f i = true → f j = true)
    (fuel lo hi : Nat) (hlh : lo ≤ hi) (hhn : hi ≤ n) (hfuel : hi - lo < fuel)
    (hlo : ∀ j, j < lo → f j = false) (hhi : ∀ j, hi ≤ j → j < n → f j = true) :
    let r := searchLoop f fuel lo hi
    r ≤ n ∧ (∀ j, j < r → f j = false) ∧ (∀ j, r ≤ j → j < n → f j = true) := by
  induction fuel generalizing lo hi with
  | zero => omega
  | succ fuel ih =>
    unfold searchLoop
    by_cases hlt : lo < hi
    · simp only [hlt, ↓reduceIte]
      cases hfh : f ((lo + hi) / 2) with
      | false =>
        simp only [Bool.not_false, ↓reduceIte]
        apply ih (((lo + hi) / 2) + 1) hi (by omega) hhn (by omega)
        · intro j hj
          cases hfj : f j with
          | false => rfl
          | true =>
            have := hmono j ((lo + hi) / 2) (by omega) (by omega) hfj
            rw [hfh] at this; exact absurd this (by simp)
        · exact hhi
      | true =>
        simp only [Bool.not_true, Bool.false_eq_true, ↓reduceIte]
        apply ih lo ((lo + hi) / 2) (by omega) (by omega) (by omega) hlo
        intro j hj hjn
        exact hmono ((lo + hi) / 2) j hj hjn hfh
    · simp only [hlt, ↓reduceIte]
      have : lo = hi := by omega
      subst this
      exact ⟨hhn, hlo, hhi⟩

theorem search_spec (f : Nat → Bool) (n : Nat) (hmono : ∀ i j, i ≤ j → j < n → f i = true → f j = true) :
    search n f ≤ n ∧ (∀ j, j < search n f → f j = false) ∧ (∀ j, search n f ≤ j → j < n → f j = true) := by
  unfold search
  exact searchLoop_spec f n hmono (n + 1) 0 n (Nat.zero_le _) (Nat.le_refl _) (by omega) (by intro j hj; omega) (by intro j hj hjn; omega)

abbrev Sorted (l : List Nat) : Prop := l.Pairwise (· < ·)

theorem sorted_getD_lt (l : List Nat) (hs : Sorted l) (i j : Nat) (hij : i < j) (hj : j < l.length) :
    l.getD i 0 < l.getD j 0 := by
  have hi : i < l.length := by omega
  rw [List.getD_eq_getElem?_getD, List.getD_eq_getElem?_getD, List.getElem?_eq_getElem hi, List.getElem?_eq_getElem hj]
  exact List.pairwise_iff_getElem.1 hs i j hi hj hij

theorem ge_mono (l : List Nat) (hs : Sorted l) (b : Nat) :
    ∀ i j, i ≤ j → j < l.length → decide (l.getD i 0 ≥ b) = true → decide (l.getD j 0 ≥ b) = true := by
  intro i j hij hj h
  simp only [decide_eq_true_eq] at *
  rcases Nat.lt_or_eq_of_le hij with h1 | h1
  · have := sorted_getD_lt l hs i j h1 hj; omega
  · subst h1; exact h

/-- removing an id from the sorted id list removes exactly that id and keeps the list sorted -/
theorem deleteBodyID_spec (ids : List Nat) (b : Nat) (hs : Sorted ids) :
    Sorted (deleteBodyID ids b) ∧ ∀ x, x ∈ deleteBodyID ids b ↔ (x ∈ ids ∧ x ≠ b) := by
  unfold deleteBodyID
  simp only [Gen.njDeleteSearchMonotone, ↓reduceIte]
  obtain ⟨hle, hlo, hhi⟩ := search_spec (fun i => decide (ids.getD i 0 ≥ b)) ids.length (ge_mono ids hs b)
  generalize search ids.length (fun i => decide (ids.getD i 0 ≥ b)) = i at *
  -- b is not in the list unless ids[i] = b
  have hnotmem : (i = ids.length ∨ ids.getD i 0 ≠ b) → b ∉ ids := by
    intro hc hm
    obtain ⟨j, hj, hjb⟩ := List.getElem_of_mem hm
    have hjd : ids.getD j 0 = b := by rw [List.getD_eq_getElem?_getD, List.getElem?_eq_getElem hj]; exact hjb
    by_cases hji : j < i
    · have := hlo j hji; simp only [decide_eq_false_iff_not] at this; omega
    · have hi : i < ids.length := by omega
      have h2 := hhi i (Nat.le_refl _) hi; simp only [decide_eq_true_eq] at h2
      rcases hc with hc | hc
      · omega
      · rcases Nat.lt_or_eq_of_le (Nat.le_of_not_lt hji) with h3 | h3
        · have := sorted_getD_lt ids hs i j h3 hj; omega
        · subst h3; exact hc hjd
  by_cases hc : i = ids.length ∨ ids.getD i 0 ≠ b
  · have hcond : (i == ids.length || ids.getD i 0 != b) = true := by
      rcases hc with h | h
      · simp [h]
      · have : (ids.getD i 0 != b) = true := by simpa using h
        rw [this]; simp
    simp only [hcond, ↓reduceIte]
    refine ⟨hs, fun x => ⟨fun hx => ⟨hx, fun e => hnotmem hc (e ▸ hx)⟩, fun hx => hx.1⟩⟩
  · have hi : i < ids.length := by omega
    have hib : ids.getD i 0 = b := by
      cases Decidable.em (ids.getD i 0 = b) with
      | inl h => exact h
      | inr h => exact absurd (Or.inr h) hc
    have hcond : (i == ids.length || ids.getD i 0 != b) = false := by
      have h1 : (i == ids.length) = false := by simp; omega
      have h2 : (ids.getD i 0 != b) = false := by rw [hib]; simp
      rw [h1, h2]; rfl
    simp only [hcond, Bool.false_eq_true, ↓reduceIte]
    refine ⟨hs.sublist (List.eraseIdx_sublist ids i), ?_⟩
    intro x
    rw [List.mem_eraseIdx_iff_getElem]
    constructor
    · rintro ⟨j, hj, hne, hx⟩
      refine ⟨hx ▸ List.getElem_mem hj, ?_⟩
      intro e
      have hjd : ids.getD j 0 = b := by rw [List.getD_eq_getElem?_getD, List.getElem?_eq_getElem hj, hx, e]; rfl
      rcases Nat.lt_or_gt_of_ne hne with h | h
      · have := sorted_getD_lt ids hs j i h hi; omega
      · have := sorted_getD_lt ids hs i j h hj; omega
    · rintro ⟨hm, hne⟩
      obtain ⟨j, hj, hjx⟩ := List.getElem_of_mem hm
      refine ⟨j, hj, ?_, hjx⟩
      intro e
      subst e
      apply hne
      rw [← hjx, ← hib, List.getD_eq_getElem?_getD, List.getElem?_eq_getElem hj]; rfl


/-- why the predicate matters: with `ids[i] == bodyid` the search for 1 in [1,2,3] probes 2 first, moves right and
    reports "not found" (the defect fixed in /repo, KNOWN_FINDINGS.txt) -/
theorem equality_predicate_misses : search 3 (fun i => [1, 2, 3].getD i 0 == 1) = 3 := by decide

/-- premises satisfiable: a stored annotation, a request repeating `status` and changing `group` -/
def ogDemo : Obj := [(⟨"bodyid", .plain⟩, .other "5"), (⟨"status", .plain⟩, .str "\"Traced\""), (⟨"status", .time⟩, .str "\"t0\""),
  (⟨"status", .user⟩, .str "\"alice\""), (⟨"group", .plain⟩, .other "1"), (⟨"name", .plain⟩, .str "\"n\"")]
def newDemo : Obj := [(⟨"bodyid", .plain⟩, .other "5"), (⟨"status", .plain⟩, .str "\"Traced\""), (⟨"group", .plain⟩, .null)]
example : (keys ogDemo).Nodup ∧ (keys newDemo).Nodup := by decide
example : get (updateJSON (some ogDemo) newDemo "\"bob\"" "\"t1\"" [] false) ⟨"status", .time⟩ = some (.str "\"t0\"") ∧
    get (updateJSON (some ogDemo) newDemo "\"bob\"" "\"t1\"" [] false) ⟨"group", .plain⟩ = none ∧
    get (updateJSON (some ogDemo) newDemo "\"bob\"" "\"t1\"" [] false) ⟨"group", .user⟩ = some (.str "\"bob\"") ∧
    get (updateJSON (some ogDemo) newDemo "\"bob\"" "\"t1\"" [] false) ⟨"name", .plain⟩ = some (.str "\"n\"") := by decide

/-- a conditional field that is already stored keeps its value and both stamps; one that is not stored yet is set
    with the caller's stamps (a decided instance — the general statement is exercised against the server by the
    harness on every POST with conditionals) -/
def condDemo : Obj := [(⟨"bodyid", .plain⟩, .other "5"), (⟨"status", .plain⟩, .str "\"Other\""), (⟨"newf", .plain⟩, .str "\"n1\"")]
example :
    let r := updateJSON (some ogDemo) condDemo "\"bob\"" "\"t1\"" [⟨"status", .plain⟩, ⟨"newf", .plain⟩] false
    get r ⟨"status", .plain⟩ = some (.str "\"Traced\"") ∧ get r ⟨"status", .user⟩ = some (.str "\"alice\"") ∧
    get r ⟨"status", .time⟩ = some (.str "\"t0\"") ∧ get r ⟨"newf", .plain⟩ = some (.str "\"n1\"") ∧
    get r ⟨"newf", .user⟩ = some (.str "\"bob\"") := by decide

/-- **a conditional field keeps its stored value**: in a partial update (not replace) a field listed in the
    conditionals that the stored annotation holds keeps the stored value — whatever value the request carries for
    it (unless the request deletes it with a null) — for every original, request, user and time -/
theorem conditional_keeps_stored (og new : Obj) (user time : String) (cond : List Key) (f : Key) (v : Val)
    (hf : f.kind = .plain) (hnd : (keys og).Nodup) (hog : get og f = some v) (hc : cond.contains f = true)
    (hnn : ∀ p ∈ new, p.1 = f → p.2 ≠ .null) :
    get (updateJSON (some og) new user time cond false) f = some v := by
  have hdel : f ∉ (new.filter (·.2 == .null)).map (·.1) := by
    intro h
    obtain ⟨q, hq, hqe⟩ := List.mem_map.1 h
    have hm := List.mem_filter.1 hq
    exact hnn q hm.1 hqe (by simpa using hm.2)
  unfold updateJSON
  simp only
  obtain ⟨og', h1, h2, h3⟩ := fold_dropNull_orig_spec (explicitStamps new .user) (explicitStamps new .time) user time
    ((new.filter (·.2 == .null)).map (·.1)) new og
  rw [h1]
  simp only [Bool.false_eq_true, ↓reduceIte]
  have hog' : get og' f = some v := by rw [h2]; simp [hdel, hog]
  rw [fold_stamp_get_plain _ _ _ _ _ _ _ hf]
  exact fold_carry_get_conditional cond og' _ f v hog' hc (h3 hnd)

/-- the decided example above is an instance: "status" is conditional, stored "Traced", requested "Other" -/
example : get (updateJSON (some ogDemo) condDemo "\"bob\"" "\"t1\"" [⟨"status", .plain⟩] false) ⟨"status", .plain⟩
    = some (.str "\"Traced\"") :=
  conditional_keeps_stored ogDemo condDemo _ _ _ _ _ rfl (by decide) (by decide) (by decide) (by decide)

end Dvid.Props.C16
