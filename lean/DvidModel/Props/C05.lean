import DvidModel.Model.Range
import DvidModel.Props.C01
/-
  C05 — Range and listing queries agree with point reads.
  What is proved here: (1) the per-datum step of a range scan (`sendKV` on the group of all stored versions of
  one datum) is the same resolution a point read performs; (2) for the key-value data type, datum keys made
  from NUL-free strings are pairwise prefix-free and sort exactly like the strings, so C06's contiguity and
  order theorems apply to them (listing order = ascending key order; one datum's versions are contiguous);
  (3) the prefix-free hypothesis is necessary: with prefix-related datum keys the scan merges two datums
  into one group (decided witness; the harness runs the real code at that excluded point).
  (4) the grouping loop itself: when the iterator delivers the groups of distinct datums in scan order (each
  inside its own version bracket and beyond the bracket of every earlier datum — C06 `versions_in_bracket`,
  `later_datum_beyond_bracket`), `versionedRange` emits exactly the resolution of every datum of the range, in
  order (`versionedRange_eq_groups`); the loop's mirror is tied to the code by differential execution on raw
  key dumps.
-/
namespace Dvid.Props.C05
open Dvid Dvid.Key Dvid.Resolve Dvid.Range Dvid.Store

/-- **One datum of a range scan = a point read.**  If the group handed to `sendKV` presents, version by
    version, exactly what the store holds for datum `(i, tk)`, then the scan emits that datum iff the point
    read finds a value, and emits the key of the version the point read resolves to. -/
theorem sendKV_eq_point (d : Dag) (s : KV) (i v : Nat) (tk : Bytes) (grp : List Bytes) (hne : grp ≠ [])
    (h : ∀ ver, (groupEntries grp ver).map (·.2) = entryAt s i tk ver) :
    sendKV d v grp =
      match readAt d (entryAt s i tk) v with
      | .found a _ => match groupEntries grp a with
                      | some (k, _) => [.kv k]
                      | none => []
      | .none => []
      | .err => [.err] := by
  have hes : (fun ver => (groupEntries grp ver).map (·.2)) = entryAt s i tk := funext h
  have : grp.isEmpty = false := by cases grp <;> simp_all
  unfold sendKV
  simp only [this, hes]
  rfl

/-- a range scan fails on a datum exactly when the point read of that datum fails (a conflict left behind by
    a "conflict-free" merge): the two paths never disagree about *whether* a datum is readable.
    (Depends on the regenerated fact that `GetBestKeyVersion` propagates the resolver's error.) -/
theorem range_err_iff_point_err (d : Dag) (s : KV) (i v : Nat) (tk : Bytes) (grp : List Bytes) (hne : grp ≠ [])
    (h : ∀ ver, (groupEntries grp ver).map (·.2) = entryAt s i tk ver) :
    sendKV d v grp = [.err] ↔ pointRead d (entryAt s i tk) v = .err := by
  rw [sendKV_eq_point d s i v tk grp hne h]
  unfold pointRead
  cases hr : readAt d (entryAt s i tk) v with
  | none => simp
  | err => simp [Gen.bestKeyPropagatesError]
  | found a x =>
    simp only
    cases groupEntries grp a with
    | none => simp
    | some p => simp

/-- `DeleteRange` reporting success means every datum the scan produced was tombstoned: a scan error is
    never swallowed.  (Depends on the regenerated fact about the order of the two checks in its loop.) -/
theorem deleteRange_success_complete (items : List Item) (h : (deleteRangeConsume items).1 = true) :
    ∀ k tk, Item.kv k ∈ items → tkeyFromKey k = some tk → tk ∈ (deleteRangeConsume items).2 := by
  induction items with
  | nil => intro k tk hk; simp at hk
  | cons it rest ih =>
    intro k tk hk htk
    cases it with
    | err => simp [deleteRangeConsume, Gen.deleteRangeChecksErrorFirst] at h
    | kv k0 =>
      simp only [deleteRangeConsume] at h ⊢
      rcases List.mem_cons.mp hk with e | e
      · cases e; simp [htk]
      · have := ih h k tk e htk
        cases tkeyFromKey k0 <;> simp [this]

/-- a group never yields more than one item: each datum appears at most once in a listing -/
theorem sendKV_length_le_one (d : Dag) (v : Nat) (grp : List Bytes) : (sendKV d v grp).length ≤ 1 := by
  unfold sendKV
  split
  · simp
  · simp only
    split
    · split <;> simp
    · simp
    · simp

/-- `keyvalue.NewTKey(key)`: class byte 177, the standard byte, the key, a terminating 0x00 -/
def kvTKey (key : Bytes) : Bytes := newTKey 177 (key ++ [0])

theorem cmp_terminated (k k' : Bytes) (h : (0 : UInt8) ∉ k) (h' : (0 : UInt8) ∉ k') :
    cmpBytes (k ++ [0]) (k' ++ [0]) = cmpBytes k k' := by
  induction k generalizing k' with
  | nil =>
    cases k' with
    | nil => simp [cmpBytes]
    | cons b bs =>
      have hb : b ≠ 0 := fun e => h' (by simp [e])
      have : (0 : UInt8) < b := by
        rw [UInt8.lt_iff_toNat_lt]
        have : b.toNat ≠ 0 := fun e => hb (UInt8.toNat_inj.mp (by simpa using e))
        simp; omega
      simp [cmpBytes, this]
  | cons a as ih =>
    cases k' with
    | nil =>
      have ha : a ≠ 0 := fun e => h (by simp [e])
      have h1 : (0 : UInt8) < a := by
        rw [UInt8.lt_iff_toNat_lt]
        have : a.toNat ≠ 0 := fun e => ha (UInt8.toNat_inj.mp (by simpa using e))
        simp; omega
      have h2 : ¬ a < 0 := fun hh => absurd (UInt8.lt_trans h1 hh) (UInt8.lt_irrefl _)
      simp [cmpBytes, h1, h2]
    | cons b bs =>
      simp only [List.cons_append, cmpBytes]
      rw [ih bs (fun hh => h (by simp [hh])) (fun hh => h' (by simp [hh]))]

/-- listing order: datum keys of NUL-free strings sort exactly like the strings -/
theorem kvTKey_order (k k' : Bytes) (h : (0 : UInt8) ∉ k) (h' : (0 : UInt8) ∉ k') :
    cmpBytes (kvTKey k) (kvTKey k') = cmpBytes k k' := by
  simp only [kvTKey, newTKey, cmpBytes, UInt8.lt_irrefl, if_false]
  exact cmp_terminated k k' h h'

theorem terminated_prefix {k k' : Bytes} (h : (0 : UInt8) ∉ k) (h' : (0 : UInt8) ∉ k')
    (hp : (k ++ [0]) <+: (k' ++ [0])) : k = k' := by
  induction k generalizing k' with
  | nil =>
    cases k' with
    | nil => rfl
    | cons b bs =>
      have hh : ([0] : Bytes) <+: (b :: (bs ++ [0])) := by simpa using hp
      rw [List.cons_prefix_cons] at hh
      exact absurd (by simp [← hh.1]) h'
  | cons a as ih =>
    cases k' with
    | nil =>
      have hh : (a :: (as ++ [0])) <+: [0] := by simpa using hp
      have := List.IsPrefix.length_le hh
      simp at this
    | cons b bs =>
      have hh : (a :: (as ++ [0])) <+: (b :: (bs ++ [0])) := by simpa using hp
      rw [List.cons_prefix_cons] at hh
      rw [hh.1, ih (fun x => h (by simp [x])) (fun x => h' (by simp [x])) hh.2]

/-- distinct NUL-free key strings give prefix-free datum keys — also when one *string* is a prefix of the
    other ("a" / "ab"): the documented TKey rule holds for the key-value type on NUL-free keys -/
theorem kvTKey_noPrefix (k k' : Bytes) (h : (0 : UInt8) ∉ k) (h' : (0 : UInt8) ∉ k') (hne : k ≠ k') :
    NoPrefix (kvTKey k) (kvTKey k') := by
  constructor
  · intro hp
    apply hne
    simp only [kvTKey, newTKey, List.cons_prefix_cons, true_and] at hp
    exact terminated_prefix h h' hp
  · intro hp
    apply hne
    simp only [kvTKey, newTKey, List.cons_prefix_cons, true_and] at hp
    exact (terminated_prefix h' h hp).symm

/-- every pair of distinct keys the key-value API accepts gets prefix-free datum keys (keys containing the
    terminator byte are rejected — a regenerated fact about `keyvalue.NewTKey`) -/
theorem kv_api_keys_prefix_free (k k' t t' : Bytes) (h : kvNewTKey k = some t) (h' : kvNewTKey k' = some t')
    (hne : k ≠ k') : NoPrefix t t' := by
  unfold kvNewTKey at h h'
  simp only [Gen.kvRejectsNul, Bool.true_and] at h h'
  split at h
  · cases h
  · split at h'
    · cases h'
    · rename_i hk hk'
      cases h; cases h'
      have n1 : (0 : UInt8) ∉ k := by intro x; exact hk (by simpa using x)
      have n2 : (0 : UInt8) ∉ k' := by intro x; exact hk' (by simpa using x)
      exact kvTKey_noPrefix k k' n1 n2 hne

/-- … hence all versions of one key-value datum are contiguous and no other key-value datum of the
    instance falls inside its version bracket (C06.versions_contiguous instantiated) -/
theorem kv_versions_contiguous (i v' c' : Nat) (k k' : Bytes) (m' : Bool) (hi : U32 i)
    (h : (0 : UInt8) ∉ k) (h' : (0 : UInt8) ∉ k')
    (hlo : bytesLE (minVersionKey i (kvTKey k)) (dataKey i v' c' (kvTKey k') m') = true)
    (hhi : bytesLE (dataKey i v' c' (kvTKey k') m') (maxVersionKey i (kvTKey k)) = true) : k' = k := by
  by_cases e : k = k'
  · exact e.symm
  · have := Dvid.Props.C06.versions_contiguous i i v' c' (kvTKey k) (kvTKey k') m' hi hi
      (Or.inr (kvTKey_noPrefix k k' h h' e)) hlo hhi
    have h2 := this.2
    simp only [kvTKey, newTKey, List.cons.injEq, true_and] at h2
    exact (List.append_cancel_right h2)

/-- **The prefix-free hypothesis is necessary.**  Datum keys `a\0` and `a\0b\0` (the key-value encoding
    of the strings "a" and "a\0b") are prefix-related; the scan puts their entries into one group, so a
    value stored under "a\0b" at version 1 is what the group resolves to and the listing at version 1
    reports a single datum — here the tombstone of "a\0b" hides the live value of "a". -/
theorem range_prefix_counterexample :
    let d := Dag.ofList [[], []]
    let ka := kvTKey [97]
    let kab := kvTKey [97, 0, 98]
    let raw := [constructDataKey 1 1 0 ka, tombstoneKey 1 1 0 kab]
    keysInRange d 1 1 (minTKey 177) (maxTKey 177) raw = some [] := by
  decide

/-- invariant of `DeleteRange`'s batching loop: nothing is dropped, and the open batch holds the remainder -/
theorem batch_inv (B : Nat) (hB : 0 < B) (n : Nat) :
    let s := (List.range n).foldl (fun s _ => Range.batchStep B s) (⟨0, 0, 0⟩ : Range.Batching)
    s.numKV = n ∧ s.committed + s.pending = n ∧ s.pending = n % B := by
  induction n with
  | zero => simp [Nat.zero_mod]
  | succ n ih =>
    simp only [List.range_succ, List.foldl_append, List.foldl_cons, List.foldl_nil]
    obtain ⟨h1, h2, h3⟩ := ih
    generalize (List.range n).foldl (fun s _ => Range.batchStep B s) (⟨0, 0, 0⟩ : Range.Batching) = s at *
    unfold Range.batchStep
    simp only [Gen.deleteRangeFlushesAfterAdd, ↓reduceIte]
    rw [h1]
    by_cases hm : (n + 1) % B = 0
    · simp only [hm, ↓reduceIte]
      exact ⟨trivial, by omega, trivial⟩
    · simp only [hm, ↓reduceIte]
      refine ⟨trivial, by omega, ?_⟩
      rw [h3]
      have hlt : n % B < B := Nat.mod_lt _ hB
      have hB2 : 2 ≤ B := by
        rcases Nat.lt_or_ge B 2 with h | h
        · have : B = 1 := by omega
          subst this; exact absurd (Nat.mod_one _) hm
        · exact h
      have e : (n + 1) % B = (n % B + 1) % B := by
        rw [Nat.add_mod, Nat.mod_eq_of_lt (show 1 < B by omega)]
      by_cases hs : n % B + 1 < B
      · rw [e, Nat.mod_eq_of_lt hs]
      · have : n % B + 1 = B := by omega
        rw [e, this, Nat.mod_self] at hm
        exact absurd rfl hm

/-- **every delete of a `DeleteRange` reaches a committed batch**, for every number of keys in the range —
    exact multiples of the batch size included -/
theorem deleteRange_commits_all (n : Nat) : Range.deleteRangeCommitted Gen.deleteRangeBatchSize n = n := by
  have hB : 0 < Gen.deleteRangeBatchSize := by decide
  have := batch_inv Gen.deleteRangeBatchSize hB n
  simp only at this
  obtain ⟨h1, h2, h3⟩ := this
  unfold Range.deleteRangeCommitted
  simp only
  rw [h1]
  split
  · omega
  · rename_i h
    have : n % Gen.deleteRangeBatchSize = 0 := by omega
    omega

end Dvid.Props.C05

namespace Dvid.Props.C05
open Dvid Dvid.Key Dvid.Resolve Dvid.Range Dvid.Store

/-! ### the grouping loop of `versionedRange` -/

/-- a datum's group: its keys are data keys of that datum inside its version bracket -/
def GroupOK (i : Nat) (g : Bytes × List Bytes) : Prop :=
  g.2 ≠ [] ∧ ∀ k ∈ g.2, isDataKey k = true ∧ tkeyFromKey k = some g.1 ∧ cmpBytes k (maxVersionKey i g.1) ≠ .gt

/-- groups in scan order: every key of a later group lies beyond the version bracket of an earlier datum -/
def Chain (i : Nat) : List (Bytes × List Bytes) → Prop
  | [] => True
  | g :: rest => GroupOK i g ∧ (∀ g' ∈ rest, ∀ k ∈ g'.2, cmpBytes k (maxVersionKey i g.1) = .gt) ∧ Chain i rest

/-- what the scan has emitted once the iterator is exhausted -/
def final (d : Dag) (v : Nat) (st : St) : List Item := if st.done then st.out else st.out ++ sendKV d v st.values

theorem sendKV_nil (d : Dag) (v : Nat) : sendKV d v [] = [] := by simp [sendKV]

theorem fold_done (d : Dag) (i v : Nat) (maxKey : Bytes) (ks : List Bytes) (st : St) (h : st.done = true) :
    ks.foldl (stepKey d i v maxKey) st = st := by
  induction ks with
  | nil => rfl
  | cons k rest ih => simp only [List.foldl_cons, stepKey, h, if_true]; exact ih

/-- keys inside the current bracket and inside the range are collected -/
theorem fold_collect (d : Dag) (i v : Nat) (maxKey : Bytes) (ks : List Bytes) :
    ∀ st : St, st.done = false → (∀ k ∈ ks, cmpBytes k st.maxVK ≠ .gt ∧ cmpBytes k maxKey ≠ .gt) →
      ks.foldl (stepKey d i v maxKey) st = { st with values := st.values ++ ks } := by
  induction ks with
  | nil => intro st _ _; simp
  | cons k rest ih =>
    intro st hd h
    obtain ⟨h1, h2⟩ := h k (by simp)
    have hs : stepKey d i v maxKey st k = { st with values := st.values ++ [k] } := by
      unfold stepKey
      simp only [hd, Bool.false_eq_true, if_false, beq_iff_eq, h1, h2]
    simp only [List.foldl_cons, hs]
    rw [ih { st with values := st.values ++ [k] } hd (fun k' hk' => h k' (by simp [hk']))]
    simp

/-- a key beyond the current bracket starts the next datum: the pending group is resolved and emitted -/
theorem fold_group (d : Dag) (i v : Nat) (maxKey : Bytes) (g : Bytes × List Bytes) (st : St) (hd : st.done = false)
    (hg : GroupOK i g) (hnew : ∀ k ∈ g.2, cmpBytes k st.maxVK = .gt) (hin : ∀ k ∈ g.2, cmpBytes k maxKey ≠ .gt) :
    g.2.foldl (stepKey d i v maxKey) st =
      { maxVK := maxVersionKey i g.1, values := g.2, out := st.out ++ sendKV d v st.values, done := false } := by
  obtain ⟨tk, ks⟩ := g
  cases ks with
  | nil => exact absurd rfl hg.1
  | cons k rest =>
    obtain ⟨a, b, c⟩ := hg.2 k (by simp)
    have hs : stepKey d i v maxKey st k =
        { maxVK := maxVersionKey i tk, values := [k], out := st.out ++ sendKV d v st.values, done := false } := by
      unfold stepKey
      simp only [hd, Bool.false_eq_true, if_false, hnew k (by simp), beq_self_eq_true, if_true, a, b, beq_iff_eq,
        hin k (by simp), List.nil_append]
    simp only [List.foldl_cons, hs]
    rw [fold_collect d i v maxKey rest _ rfl (fun k' hk' => ⟨(hg.2 k' (by simp [hk'])).2.2, hin k' (by simp [hk'])⟩)]
    simp

/-- the first key beyond the range ends the scan after the pending group was resolved -/
theorem step_outside (d : Dag) (i v : Nat) (maxKey : Bytes) (st : St) (k : Bytes) (hd : st.done = false)
    (hout : cmpBytes k maxKey = .gt) :
    (stepKey d i v maxKey st k).done = true ∧ (stepKey d i v maxKey st k).out = st.out ++ sendKV d v st.values := by
  unfold stepKey
  simp only [hd, Bool.false_eq_true, if_false, hout, beq_self_eq_true, if_true]
  split
  · simp [sendKV_nil]
  · simp

theorem scan_groups (d : Dag) (i v : Nat) (maxKey : Bytes) (ins outs : List (Bytes × List Bytes)) :
    ∀ st : St, st.done = false → Chain i (ins ++ outs) →
      (∀ g ∈ ins ++ outs, ∀ k ∈ g.2, cmpBytes k st.maxVK = .gt) →
      (∀ g ∈ ins, ∀ k ∈ g.2, cmpBytes k maxKey ≠ .gt) → (∀ g ∈ outs, ∀ k ∈ g.2, cmpBytes k maxKey = .gt) →
      final d v (((ins ++ outs).flatMap (·.2)).foldl (stepKey d i v maxKey) st) =
        st.out ++ sendKV d v st.values ++ ins.flatMap (fun g => sendKV d v g.2) := by
  induction ins with
  | nil =>
    intro st hd hc hnew _ hout
    simp only [List.nil_append, List.flatMap_nil, List.append_nil]
    cases outs with
    | nil => simp [final, hd]
    | cons g rest =>
      obtain ⟨tk, ks⟩ := g
      cases ks with
      | nil => exact absurd rfl hc.1.1
      | cons k ks' =>
        simp only [List.flatMap_cons, List.cons_append, List.foldl_cons]
        obtain ⟨h1, h2⟩ := step_outside d i v maxKey st k hd (hout (tk, k :: ks') (by simp) k (by simp))
        rw [fold_done d i v maxKey _ _ h1]
        simp [final, h1, h2]
  | cons g ins' ih =>
    intro st hd hc hnew hin hout
    simp only [List.cons_append, List.flatMap_cons, List.foldl_append]
    simp only [List.cons_append] at hc hnew
    rw [fold_group d i v maxKey g st hd hc.1 (hnew g (by simp)) (hin g (by simp))]
    rw [ih _ rfl hc.2.2 (fun g' hg' k hk => hc.2.1 g' hg' k hk) (fun g' hg' => hin g' (by simp [hg'])) hout]
    simp [List.append_assoc]

/-- **`versionedRange` = group by datum, resolve each group**: when the keys the iterator delivers from
    `Seek(minKey)` on are the groups of distinct datums in scan order (each group inside its own version bracket
    and beyond the bracket of every earlier datum — what sortedness and prefix-freeness of the datum keys give,
    `kv_versions_contiguous`), `ins` the datums up to the end of the range and `outs` the ones beyond it, then
    the scan emits exactly the resolution of every datum of the range, in order, and nothing else -/
theorem versionedRange_eq_groups (d : Dag) (i v : Nat) (beg fin : Bytes) (raw : List Bytes)
    (ins outs : List (Bytes × List Bytes))
    (hstart : raw.dropWhile (fun k => cmpBytes k (minVersionKey i beg) == .lt) = (ins ++ outs).flatMap (·.2))
    (hc : Chain i (ins ++ outs))
    (hnew : ∀ g ∈ ins ++ outs, ∀ k ∈ g.2, cmpBytes k (maxVersionKey i beg) = .gt)
    (hin : ∀ g ∈ ins, ∀ k ∈ g.2, cmpBytes k (maxVersionKey i fin) ≠ .gt)
    (hout : ∀ g ∈ outs, ∀ k ∈ g.2, cmpBytes k (maxVersionKey i fin) = .gt) :
    versionedRange d i v beg fin raw = ins.flatMap (fun g => sendKV d v g.2) := by
  have h := scan_groups d i v (maxVersionKey i fin) ins outs
    { maxVK := maxVersionKey i beg, values := [], out := [], done := false } rfl hc hnew hin hout
  unfold versionedRange
  simp only [hstart]
  unfold final at h
  simp only [sendKV_nil, List.append_nil, List.nil_append] at h
  exact h

/-- the same when the first datum of the scan is `beg` itself (its keys lie inside the initial bracket) -/
theorem versionedRange_eq_groups_from_beg (d : Dag) (i v : Nat) (beg fin : Bytes) (raw : List Bytes)
    (ks : List Bytes) (ins outs : List (Bytes × List Bytes))
    (hstart : raw.dropWhile (fun k => cmpBytes k (minVersionKey i beg) == .lt) = ks ++ (ins ++ outs).flatMap (·.2))
    (hks : ∀ k ∈ ks, cmpBytes k (maxVersionKey i beg) ≠ .gt ∧ cmpBytes k (maxVersionKey i fin) ≠ .gt)
    (hc : Chain i (ins ++ outs))
    (hnew : ∀ g ∈ ins ++ outs, ∀ k ∈ g.2, cmpBytes k (maxVersionKey i beg) = .gt)
    (hin : ∀ g ∈ ins, ∀ k ∈ g.2, cmpBytes k (maxVersionKey i fin) ≠ .gt)
    (hout : ∀ g ∈ outs, ∀ k ∈ g.2, cmpBytes k (maxVersionKey i fin) = .gt) :
    versionedRange d i v beg fin raw = sendKV d v ks ++ ins.flatMap (fun g => sendKV d v g.2) := by
  unfold versionedRange
  simp only [hstart, List.foldl_append]
  rw [fold_collect d i v (maxVersionKey i fin) ks _ rfl hks]
  have h := scan_groups d i v (maxVersionKey i fin) ins outs
    { maxVK := maxVersionKey i beg, values := [] ++ ks, out := [], done := false } rfl hc hnew hin hout
  unfold final at h
  simp only [List.nil_append] at h
  exact h


instance (i : Nat) (g : Bytes × List Bytes) : Decidable (GroupOK i g) := by unfold GroupOK; infer_instance
instance chainDec (i : Nat) : (gs : List (Bytes × List Bytes)) → Decidable (Chain i gs)
  | [] => isTrue trivial
  | g :: rest => by
    unfold Chain
    have := chainDec i rest
    infer_instance

/- Non-vacuity: two key-value datums "a" (versions 1 and 2) and "b" (a tombstone at version 2) of instance 1, a
   range from the lowest to the highest key-value datum key: the hypotheses of `versionedRange_eq_groups` hold for
   the real key encodings, and the scan is the resolution of the two groups. -/
example :
    let ka := kvTKey [97]
    let kb := kvTKey [98]
    let a1 := constructDataKey 1 1 0 ka
    let a2 := constructDataKey 1 2 0 ka
    let b2 := tombstoneKey 1 2 0 kb
    let ins : List (Bytes × List Bytes) := [(ka, [a1, a2]), (kb, [b2])]
    Chain 1 (ins ++ []) ∧
    (∀ g ∈ ins ++ [], ∀ k ∈ g.2, cmpBytes k (maxVersionKey 1 (minTKey 177)) = .gt) ∧
    (∀ g ∈ ins, ∀ k ∈ g.2, cmpBytes k (maxVersionKey 1 (maxTKey 177)) ≠ .gt) ∧
    [a1, a2, b2].dropWhile (fun k => cmpBytes k (minVersionKey 1 (minTKey 177)) == .lt) = (ins ++ []).flatMap (fun (g : Bytes × List Bytes) => g.2) := by
  decide

end Dvid.Props.C05
