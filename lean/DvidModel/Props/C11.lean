import DvidModel.Model.Sched
import DvidModel.Gen.Locks
import DvidModel.Gen.Fixes
/-
  C11 — Concurrent acknowledged mutations are never lost or half applied.

  Proved here, for any number of request handlers, any per-request update functions and EVERY schedule
  (preemption between any two steps):
  * if the read-modify-write sequence of every handler lies inside one critical section of one mutex, then once
    all handlers have finished the shared value is what running the requests one after the other — in the
    order of their writes, each exactly once — produces (`covered_serializable`);
  * without the lock there is a schedule (read, read, write, write) after which an acknowledged update is lost
    and the result is not what any sequential order produces (`uncovered_loses_update`).
  Which read-modify-write sites of the code are covered (a write lock taken before the read and released after
  the write, on a mutex every handler of that datum shares) is regenerated from the source on every run
  (`Gen.Locks.sites`); `all_sites_covered` fails when one is not.
  PARTIAL: the model preempts at lock / read / write granularity; Go data races inside maps and slices, Badger's
  transaction isolation and the order of asynchronous sync events are outside it.  The harness forces the
  two-handler lost-update interleaving on the real code through yield points placed between the read and the
  write of every site (N handlers too), and compares the quiescent state with the sequential outcomes.
-/
namespace Dvid.Props.C11
open Dvid Dvid.Sched

variable {α : Type}

structure Inv (n : Nat) (f : Nat → α → α) (v0 : α) (s : St α) : Prop where
  holds : ∀ t, s.holder = some t → 1 ≤ (s.ths t).pc ∧ (s.ths t).pc ≤ 3
  inside : ∀ t, 1 ≤ (s.ths t).pc → (s.ths t).pc ≤ 3 → s.holder = some t
  cell : s.cell = sequential f v0 s.order
  fresh : ∀ t, (s.ths t).pc = 2 → (s.ths t).reg = s.cell
  wrote : ∀ t, t ∈ s.order ↔ 3 ≤ (s.ths t).pc
  nodup : s.order.Nodup
  outside : ∀ t, n ≤ t → (s.ths t).pc = 0

theorem init_inv (n : Nat) (f : Nat → α → α) (v0 : α) : Inv n f v0 (init v0) := by
  refine ⟨?_, ?_, rfl, ?_, ?_, List.nodup_nil, ?_⟩ <;> intro t <;> simp [init]

theorem sequential_snoc (f : Nat → α → α) (v0 : α) (order : List Nat) (t : Nat) :
    sequential f v0 (order ++ [t]) = f t (sequential f v0 order) := by
  unfold sequential; simp [List.foldl_append]

theorem step_inv (n : Nat) (f : Nat → α → α) (v0 : α) (s s' : St α) (t : Nat) (h : Inv n f v0 s)
    (hs : step n f true s t = some s') : Inv n f v0 s' := by
  unfold step at hs
  split at hs
  · cases hs
  rename_i htn
  simp only at hs
  split at hs
  · -- pc 0: take the lock
    rename_i hpc
    simp only [↓reduceIte] at hs
    split at hs
    · cases hs
    rename_i hfree
    simp only [Option.some.injEq] at hs
    subst hs
    have hnone : ∀ u, ¬ (1 ≤ (s.ths u).pc ∧ (s.ths u).pc ≤ 3) := by
      intro u hu
      have := h.inside u hu.1 hu.2
      rw [hfree] at this; cases this
    refine ⟨?_, ?_, h.cell, ?_, ?_, h.nodup, ?_⟩
    · intro u hu
      simp only [St.setTh, Option.some.injEq] at hu ⊢
      subst hu; simp
    · intro u h1 h3
      simp only [St.setTh] at h1 h3 ⊢
      by_cases hu : u = t
      · subst hu; rfl
      · simp only [hu, ↓reduceIte] at h1 h3
        exact absurd ⟨h1, h3⟩ (hnone u)
    · intro u hu
      simp only [St.setTh] at hu ⊢
      by_cases hut : u = t
      · subst hut; simp at hu
      · simp only [hut, ↓reduceIte] at hu ⊢; exact h.fresh u hu
    · intro u
      simp only [St.setTh]
      by_cases hut : u = t
      · subst hut
        have := (h.wrote u)
        simp only [↓reduceIte]
        constructor
        · intro hm; have := this.1 hm; omega
        · intro h3; omega
      · simp only [hut, ↓reduceIte]; exact h.wrote u
    · intro u hu
      simp only [St.setTh]
      have : u ≠ t := by omega
      simp only [this, ↓reduceIte]; exact h.outside u hu
  · -- pc 1: read
    rename_i hpc
    simp only [Option.some.injEq] at hs
    subst hs
    have hme : s.holder = some t := h.inside t (by omega) (by omega)
    refine ⟨?_, ?_, h.cell, ?_, ?_, h.nodup, ?_⟩
    · intro u hu
      simp only [St.setTh] at hu ⊢
      have : u = t := by rw [hme] at hu; exact (Option.some.inj hu).symm
      subst this; simp
    · intro u h1 h3
      simp only [St.setTh] at h1 h3 ⊢
      by_cases hu : u = t
      · subst hu; exact hme
      · simp only [hu, ↓reduceIte] at h1 h3; exact h.inside u h1 h3
    · intro u hu
      simp only [St.setTh] at hu ⊢
      by_cases hut : u = t
      · subst hut; simp
      · simp only [hut, ↓reduceIte] at hu ⊢; exact h.fresh u hu
    · intro u
      simp only [St.setTh]
      by_cases hut : u = t
      · subst hut
        simp only [↓reduceIte]
        have := h.wrote u
        constructor
        · intro hm; have := this.1 hm; omega
        · intro h3; omega
      · simp only [hut, ↓reduceIte]; exact h.wrote u
    · intro u hu
      simp only [St.setTh]
      have : u ≠ t := by omega
      simp only [this, ↓reduceIte]; exact h.outside u hu
  · -- pc 2: write
    rename_i hpc
    simp only [Option.some.injEq] at hs
    subst hs
    have hme : s.holder = some t := h.inside t (by omega) (by omega)
    have hreg := h.fresh t hpc
    have hnot : t ∉ s.order := fun hm => by have := (h.wrote t).1 hm; omega
    refine ⟨?_, ?_, ?_, ?_, ?_, ?_, ?_⟩
    · intro u hu
      simp only [St.setTh] at hu ⊢
      have : u = t := by rw [hme] at hu; exact (Option.some.inj hu).symm
      subst this; simp
    · intro u h1 h3
      simp only [St.setTh] at h1 h3 ⊢
      by_cases hu : u = t
      · subst hu; exact hme
      · simp only [hu, ↓reduceIte] at h1 h3; exact h.inside u h1 h3
    · simp only [St.setTh]
      rw [sequential_snoc, ← h.cell, hreg]
    · intro u hu
      simp only [St.setTh] at hu ⊢
      by_cases hut : u = t
      · subst hut; simp at hu
      · simp only [hut, ↓reduceIte] at hu
        -- another handler between read and write would hold the lock too
        have := h.inside u (by omega) (by omega)
        rw [hme] at this
        exact absurd (Option.some.inj this).symm hut
    · intro u
      simp only [St.setTh, List.mem_append, List.mem_singleton]
      by_cases hut : u = t
      · subst hut; simp
      · simp only [hut, ↓reduceIte, or_false]; exact h.wrote u
    · simp only [St.setTh]
      exact List.nodup_append.2 ⟨h.nodup, (by simp : [t].Nodup), by
        intro a ha b hb; simp only [List.mem_singleton] at hb; subst hb; intro e; subst e; exact hnot ha⟩
    · intro u hu
      simp only [St.setTh]
      have : u ≠ t := by omega
      simp only [this, ↓reduceIte]; exact h.outside u hu
  · -- pc 3: release
    rename_i hpc
    simp only [↓reduceIte, Option.some.injEq] at hs
    subst hs
    have hme : s.holder = some t := h.inside t (by omega) (by omega)
    refine ⟨?_, ?_, h.cell, ?_, ?_, h.nodup, ?_⟩
    · intro u hu; simp [St.setTh] at hu
    · intro u h1 h3
      simp only [St.setTh] at h1 h3 ⊢
      by_cases hu : u = t
      · subst hu; simp at h3
      · simp only [hu, ↓reduceIte] at h1 h3
        have := h.inside u h1 h3
        rw [hme] at this
        exact absurd (Option.some.inj this).symm hu
    · intro u hu
      simp only [St.setTh] at hu ⊢
      by_cases hut : u = t
      · subst hut; simp at hu
      · simp only [hut, ↓reduceIte] at hu ⊢; exact h.fresh u hu
    · intro u
      simp only [St.setTh]
      by_cases hut : u = t
      · subst hut
        simp only [↓reduceIte]
        have := h.wrote u
        constructor
        · intro _; omega
        · intro _; exact this.2 (by omega)
      · simp only [hut, ↓reduceIte]; exact h.wrote u
    · intro u hu
      simp only [St.setTh]
      have : u ≠ t := by omega
      simp only [this, ↓reduceIte]; exact h.outside u hu
  · cases hs

theorem exec_inv (n : Nat) (f : Nat → α → α) (v0 : α) (sched : List Nat) (s s' : St α) (h : Inv n f v0 s)
    (he : exec n f true s sched = some s') : Inv n f v0 s' := by
  induction sched generalizing s with
  | nil => simp only [exec, Option.some.injEq] at he; subst he; exact h
  | cons t ts ih =>
    unfold exec at he
    split at he
    · cases he
    · rename_i s1 hs1
      exact ih s1 (step_inv n f v0 s s1 t h hs1) he

/-- **a covered read-modify-write is serializable**: for every number of handlers, every update functions and
    every schedule, when all handlers have finished the shared value is the result of running the requests one
    after the other in some order, each exactly once -/
theorem covered_serializable (n : Nat) (f : Nat → α → α) (v0 : α) (sched : List Nat) (s : St α)
    (he : exec n f true (init v0) sched = some s) (hdone : ∀ t, t < n → (s.ths t).pc = 4) :
    ∃ order : List Nat, order.Nodup ∧ (∀ t, t ∈ order ↔ t < n) ∧ s.cell = sequential f v0 order := by
  have h := exec_inv n f v0 sched (init v0) s (init_inv n f v0) he
  refine ⟨s.order, h.nodup, ?_, h.cell⟩
  intro t
  constructor
  · intro hm
    have h3 := (h.wrote t).1 hm
    by_cases hlt : t < n
    · exact hlt
    · have := h.outside t (by omega); omega
  · intro hlt
    exact (h.wrote t).2 (by rw [hdone t hlt]; omega)

/-- **without the lock an acknowledged update is lost**: two handlers that each add 1, schedule
    read₀ read₁ write₁ … write₀: both finish, the value is 1, every sequential order gives 2 -/
theorem uncovered_loses_update :
    (exec 2 (fun _ v => v + 1) false (init (0 : Nat)) [0, 0, 1, 1, 1, 1, 0, 0]).map (fun s => (s.cell, (s.ths 0).pc, (s.ths 1).pc))
      = some (1, 4, 4) ∧
    sequential (fun _ v => v + 1) (0 : Nat) [0, 1] = 2 ∧ sequential (fun _ v => v + 1) (0 : Nat) [1, 0] = 2 := by
  decide

/-- the same schedule is not executable when the sequence is covered: the second handler cannot take the lock -/
theorem covered_blocks_that_schedule :
    (exec 2 (fun _ v => v + 1) true (init (0 : Nat)) [0, 0, 1, 1, 1, 1, 0, 0]).isNone = true := by decide

/-- every read-modify-write site named by the property is covered in the current source -/
theorem all_sites_covered : ∀ site ∈ Gen.Locks.sites, site.2 = true := by decide

example : Gen.Locks.sites.length ≥ 8 := by decide

/-- the repaired shape of saveToStore / GobEncode is present: the repo read lock is not taken twice -/
theorem repaired_shape_present : Gen.saveDoesNotNestReadLock = true := by decide

end Dvid.Props.C11
