import DvidModel.Model.BlockParse
import DvidModel.Props.C09
import DvidModel.Props.C15
import DvidModel.Props.C04
import DvidModel.Model.Rle
import DvidModel.Gen.Fixes
/-
  C20 — No request can crash the server; malformed ones are rejected harmlessly.

  The for-all over byte strings is carried by the binary parsers.  Proved here for the compressed label block —
  the payload whose embedded counts and table indices every view trusts:
  * a block that `readStreamedBlock` hands on (parse + Validate both succeed) has mutually consistent tables:
    for every sub-block its index list lies inside the index table, every index names a label of the table,
    the packed values of the sub-block lie inside the value bytes and every packed value names a position of
    the sub-block's own list — for every byte string, of any length;
  * hence every read the decoder, the point lookup and the counting views make (`sbIdx[...]`, `labels[...]`,
    the one or two value bytes `getPackedValue` touches) is inside its table: nothing is left to panic;
  * the parser itself reads only bytes that exist (its slices are bounds-checked — regenerated facts).
  The model parser is total by construction (a Lean function); the points where the Go code would panic are
  exactly the checks named in `Gen.BlockParse`, and the theorems depend on those facts being `true`.
  Other byte-level parsers: the serialization envelope (C15 `deser_total`) and the log reader (C04) are proved
  total in their own files and re-exported below.  Everything else (protobuf, JSON, sparse-volume payloads, URL
  parsing, background goroutines, wedges) is decided by execution: the harness sends byte-level mutants of
  valid payloads for every ingestion endpoint and hostile URLs to a real server process and checks liveness,
  idleness, absence of recovered panics on payload requests, and untouched data.
-/
namespace Dvid.Props.C20
open Dvid Dvid.Block Dvid.BlockParse

theorem source_facts :
    Gen.blkChecksLabelTableBound = true ∧ Gen.blkRejectsEmptyGrid = true ∧ Gen.blkChecksCountTableBound = true ∧
    Gen.blkChecksIndexTableBound = true ∧ Gen.blkValidateChecksTables = true ∧ Gen.blkStreamValidates = true ∧
    Gen.blkMinBytes = 24 ∧ Gen.rleReaderAllocatesAsRead = true := by decide

/-- the tables of a multi-label block are consistent at sub-block `k` -/
structure SBInBounds (b : Block) (st : Nat × Nat) (n : Nat) : Prop where
  count : n ≤ 512
  list : st.1 + n ≤ b.sbIdx.size
  labels : ∀ j, j < n → b.sbIdx.getD (st.1 + j) 0 < b.labels.size
  bits : 1 < n → st.2 + 512 * bitsFor n ≤ 8 * b.values.size
  vals : 1 < n → ∀ i, i < 512 → getPacked b.values (st.2 + i * bitsFor n) (bitsFor n) < n

theorem validSB_inBounds (b : Block) (st : Nat × Nat) (n : Nat) (h : validSB b st n = true) : SBInBounds b st n := by
  unfold validSB at h
  simp only [Bool.and_eq_true, Bool.or_eq_true, decide_eq_true_eq, List.all_eq_true, List.mem_range] at h
  obtain ⟨⟨⟨h1, h2⟩, h3⟩, h4⟩ := h
  refine ⟨h1, h2, h3, ?_, ?_⟩
  · intro hn
    rcases h4 with h4 | h4
    · omega
    · exact h4.1
  · intro hn i hi
    rcases h4 with h4 | h4
    · omega
    · exact h4.2 i hi

/-- `Validate`'s loop carries exactly the running positions the views compute (`sbStart`) -/
theorem validFrom_all (b : Block) (l : List Nat) (st : Nat × Nat) (h : validFrom b st l = true)
    (k : Nat) (hk : k < l.length) : validSB b ((l.take k).foldl sbAdvance st) l[k] = true := by
  induction l generalizing st k with
  | nil => cases hk
  | cons n ns ih =>
    unfold validFrom at h
    simp only [Bool.and_eq_true] at h
    cases k with
    | zero => simpa using h.1
    | succ k =>
      simp only [List.take_succ_cons, List.foldl_cons, List.getElem_cons_succ]
      exact ih (sbAdvance st n) h.2 k (by simpa using hk)

/-- consistency of all tables of a block -/
def InBounds (b : Block) : Prop :=
  0 < b.gx ∧ 0 < b.gy ∧ 0 < b.gz ∧ 1 ≤ b.labels.size ∧
  (2 ≤ b.labels.size → b.numSB.size = b.gx * b.gy * b.gz ∧
    ∀ k (hk : k < b.numSB.size), SBInBounds b (sbStart b.numSB.toList k) b.numSB[k])

theorem validate_inBounds (b : Block) (h : validate b = true) : InBounds b := by
  unfold validate at h
  simp only [Gen.blkValidateChecksTables, Bool.not_true, Bool.false_eq_true, ↓reduceIte, Bool.and_eq_true,
    Bool.or_eq_true, decide_eq_true_eq, beq_iff_eq] at h
  obtain ⟨⟨hg, hl⟩, hrest⟩ := h
  refine ⟨hg.1, hg.2.1, hg.2.2, hl, ?_⟩
  intro h2
  rcases hrest with h1 | ⟨hsz, hv⟩
  · omega
  · refine ⟨hsz, ?_⟩
    intro k hk
    have := validFrom_all b b.numSB.toList (0, 0) hv k (by simpa using hk)
    have e : b.numSB.toList[k]'(by simpa using hk) = b.numSB[k] := by simp
    rw [e] at this
    exact validSB_inBounds b _ _ this

/-- **every block the ingest path hands on has consistent tables — for every byte string** -/
theorem received_inBounds (d : Array UInt8) (b : Block) (h : receive d = some b) : InBounds b := by
  unfold receive at h
  split at h
  · cases h
  · rename_i b' _
    simp only [Gen.blkStreamValidates, Bool.true_and] at h
    split at h
    · cases h
    · rename_i hv
      simp only [Option.some.injEq] at h
      subst h
      exact validate_inBounds b' (by simpa using hv)

/-- the one or two value bytes `getPackedValue` touches are inside the value table -/
theorem packed_read_inBounds (vals : Array Nat) (bitHead bits : Nat) (hb : 1 ≤ bits) (h9 : bits ≤ 9)
    (h : bitHead + bits ≤ 8 * vals.size) :
    bitHead >>> 3 < vals.size ∧ (bitHead % 8 + bits > 8 → (bitHead >>> 3) + 1 < vals.size) := by
  rw [Nat.shiftRight_eq_div_pow]
  constructor <;> omega

/-- **no view can leave the tables**: for every sub-block `k`, every voxel `i` of it, the index-list position
    the voxel selects is inside the sub-block's own list (so inside the index table), the table index stored
    there names a label, and the value bytes read for it exist -/
theorem views_inBounds (b : Block) (hb : InBounds b) (h2 : 2 ≤ b.labels.size) (k : Nat) (hk : k < b.numSB.size)
    (i : Nat) (hi : i < 512) (st : Nat × Nat) (n : Nat) (hst : st = sbStart b.numSB.toList k) (hnk : n = b.numSB[k]) :
    (1 ≤ n → slotAt b st n i < st.1 + n ∧ slotAt b st n i < b.sbIdx.size ∧
      b.sbIdx.getD (slotAt b st n i) 0 < b.labels.size) ∧
    (1 < n → (st.2 + i * bitsFor n) >>> 3 < b.values.size ∧
      ((st.2 + i * bitsFor n) % 8 + bitsFor n > 8 → ((st.2 + i * bitsFor n) >>> 3) + 1 < b.values.size)) := by
  obtain ⟨_, _, _, _, hmulti⟩ := hb
  obtain ⟨_, hall⟩ := hmulti h2
  have sb := hall k hk
  rw [← hst, ← hnk] at sb
  constructor
  · intro hn
    have hslot : slotAt b st n i < st.1 + n := by
      unfold slotAt
      split
      · omega
      · rename_i hgt
        have := sb.vals (by omega) i hi
        omega
    have hj : slotAt b st n i = st.1 + (slotAt b st n i - st.1) := by
      unfold slotAt; split <;> omega
    refine ⟨hslot, by have := sb.list; omega, ?_⟩
    rw [hj]
    exact sb.labels _ (by omega)
  · intro hn
    have hbits := sb.bits hn
    have h9 := (C09.bitsFor_spec n sb.count).2.2
    have h1 : 1 ≤ bitsFor n := by
      have := (C09.bitsFor_eq_zero_iff n)
      omega
    apply packed_read_inBounds b.values _ _ h1 h9
    have : i * bitsFor n + bitsFor n ≤ 512 * bitsFor n := by
      have := Nat.mul_le_mul_right (bitsFor n) (show i + 1 ≤ 512 by omega)
      rw [Nat.add_mul, Nat.one_mul] at this
      exact this
    omega

theorem parseIdx_bounds (d : Array UInt8) (gx gy gz : Nat) (labels numSB : Array Nat) (pos2 nIdx : Nat) (b : Block)
    (h : parseIdx d gx gy gz labels numSB pos2 nIdx = some b) :
    b.labels = labels ∧ b.numSB = numSB ∧ b.sbIdx.size = nIdx ∧ pos2 + 4 * nIdx ≤ d.size := by
  unfold parseIdx at h
  split at h
  · cases h
  rename_i c
  split at h
  · cases h
  simp only [Gen.blkChecksIndexTableBound, Bool.true_and, decide_eq_true_eq] at c
  simp only [Option.some.injEq] at h
  subst h
  simp only [Array.size_ofFn]
  exact ⟨trivial, trivial, trivial, by omega⟩

theorem parseCounts_bounds (d : Array UInt8) (gx gy gz : Nat) (labels : Array Nat) (pos nsb : Nat) (b : Block)
    (h : parseCounts d gx gy gz labels pos nsb = some b) :
    b.labels = labels ∧ b.numSB.size = nsb ∧ pos + 2 * nsb + 4 * b.sbIdx.size ≤ d.size := by
  unfold parseCounts at h
  split at h
  · cases h
  split at h
  · cases h
  obtain ⟨h1, h2, h3, h4⟩ := parseIdx_bounds _ _ _ _ _ _ _ _ _ h
  refine ⟨h1, ?_, ?_⟩
  · rw [h2]; simp only [Array.size_ofFn]
  · rw [h3]; exact h4

/-- the parser only returns a block when every table it sliced lies inside the byte string -/
theorem parse_reads_inBounds (d : Array UInt8) (b : Block) (h : parse d = some b) (h2 : 2 ≤ b.labels.size) :
    16 + 8 * b.labels.size + 2 * b.numSB.size + 4 * b.sbIdx.size ≤ d.size := by
  unfold parse at h
  split at h
  · cases h
  split at h
  · cases h
  split at h
  · cases h
  split at h
  · cases h
  split at h
  · cases h
  split at h
  · simp only [Option.some.injEq] at h; subst h; simp at h2; omega
  obtain ⟨h1, h3, h4⟩ := parseCounts_bounds _ _ _ _ _ _ _ _ h
  rw [h1] at h2 ⊢
  simp only [Array.size_ofFn] at h2 ⊢
  omega

/-- a concrete well-formed block is received, a damaged one is refused -/
example : (receive #[1,0,0,0, 1,0,0,0, 1,0,0,0, 1,0,0,0, 7,0,0,0,0,0,0,0]).isSome = true := by decide
example : (receive #[1,0,0,0, 1,0,0,0, 1,0,0,0, 200,0,0,0, 7,0,0,0,0,0,0,0]).isSome = false := by decide

/-! ### sparse volumes (`dvid.ReadRLEs`): the announced span count cannot make the reader take more than the
    bytes that arrived justify -/

theorem unmarshalAux_length (n : Nat) (b : Bytes) : (Rle.unmarshalAux n b).length = n := by
  induction n generalizing b with
  | zero => rfl
  | succ n ih => simp [Rle.unmarshalAux, ih]

/-- a sparse volume is only accepted when every announced run is really there -/
theorem readRLEs_complete (b : Bytes) (rs : List Rle.RLE) (h : Rle.readRLEs b = some rs) :
    12 + 16 * rs.length ≤ b.length := by
  unfold Rle.readRLEs at h
  split at h
  · cases h
  split at h
  · cases h
  dsimp only at h
  split at h
  · cases h
  simp only [Option.some.injEq] at h
  subst h
  rw [unmarshalAux_length]
  omega

/-- what the reader allocates is bounded by a constant plus the bytes received — whatever count the payload
    announces (with the fact `rleReaderAllocatesAsRead` false the bound is the announced count: 2^32 runs) -/
theorem reader_allocation_bounded (b : Bytes) :
    Rle.readerAllocatedRuns b ≤ Gen.rleReaderMaxPrealloc + 2 * (b.length / 16) := by
  unfold Rle.readerAllocatedRuns
  split
  · omega
  · simp only [Gen.rleReaderAllocatesAsRead, ↓reduceIte]
    have h1 : min (Rle.fromLe32u (List.drop 8 b)) Gen.rleReaderMaxPrealloc ≤ Gen.rleReaderMaxPrealloc := Nat.min_le_right _ _
    have h2 : min (Rle.fromLe32u (List.drop 8 b)) ((b.length - 12) / 16) ≤ (b.length - 12) / 16 := Nat.min_le_right _ _
    have h3 : (b.length - 12) / 16 ≤ b.length / 16 := Nat.div_le_div_right (by omega)
    omega

/-- the other byte-level parsers that requests reach are total as well (proved in their own files) -/
theorem envelope_total (cd : Dvid.Serialize.Codecs) (s : Bytes) (u : Bool) : Dvid.Serialize.deserializeData cd s u ≠ .panic :=
  Dvid.Props.C15.deser_total cd s u

/-- the repaired shape of the single-block raw read is present: an absent block is label 0, not a nil dereference -/
theorem repaired_shape_present : Gen.rawBlockNilIsBackground = true := by decide

end Dvid.Props.C20
