import DvidModel.Gen.Gate
import DvidModel.Props.C01
import DvidModel.Props.C07
import DvidModel.Gen.Fixes
/-
  C02 — Committed versions are immutable.
  (a) The request gate: the guards of server/web.go are regenerated as boolean expressions (Gen.Gate) and
      interpreted; the theorems quantify over every handler environment and every method string.
  (b) Read stability: a committed version's reads cannot be changed by any write the gate admits, from
      C01's locality theorem and C07's invariant that every parent is committed.
-/
namespace Dvid.Props.C02
open Dvid Dvid.Resolve Dvid.Store Dvid.Key

/-- `IsMutationRequest` of a data type: the default (method ∈ {post, put, delete} after lower-casing) unless
    the type overrides that (endpoint, method) pair -/
def isMutation (typ endpoint method : String) : Bool :=
  (method == "post" || method == "put" || method == "delete") && !(Gen.readOnlyOverrides.contains (typ, endpoint, method))

/-- the reviewed list of read-only POST endpoints; a new override breaks this theorem and sends the check
    looking for a request that writes on a committed node -/
theorem readOnlyOverrides_reviewed :
    Gen.readOnlyOverrides = [("neuronjson", "query", "post"), ("roi", "ptquery", "post")] ∧
    Gen.defaultMutationIsPostPutDelete = true := by decide

/-- **Data requests.**  On a committed version, for every data type, every endpoint keyword (any string) and
    every method that lower-cases to post/put/delete — except the reviewed read-only POSTs — the gate refuses
    the request unless the server runs in full-write mode or the caller holds the admin token; and the gate
    sits before the type's handler. -/
theorem gate_denies_mutation (typ endpoint method : String) (env : GateEnv)
    (hm : method = "post" ∨ method = "put" ∨ method = "delete")
    (hnot : (typ, endpoint, method) ∉ Gen.readOnlyOverrides)
    (hl : env.locked = true) (ha : env.adminPriv = false) (hf : env.fullwrite = false)
    (hmut : env.isMutation = isMutation typ endpoint method) :
    Gen.instanceGuard.eval env = true ∧ Gen.gateBeforeHandler = true := by
  have hc : Gen.readOnlyOverrides.contains (typ, endpoint, method) = false := by
    simpa using hnot
  have : isMutation typ endpoint method = true := by
    unfold isMutation
    rw [hc]
    rcases hm with h | h | h <;> simp [h]
  refine ⟨?_, by decide⟩
  simp [Gen.instanceGuard, BExp.eval, GateEnv.atom, hl, ha, hf, hmut, this]

/-- the only ways a mutating data request passes on a committed version: full-write mode or the admin token -/
theorem instance_gate_exceptions (env : GateEnv) (hl : env.locked = true) (hmut : env.isMutation = true)
    (hpass : Gen.instanceGuard.eval env = false) : env.fullwrite = true ∨ env.adminPriv = true := by
  simp [Gen.instanceGuard, BExp.eval, GateEnv.atom, hl, hmut] at hpass
  cases hf : env.fullwrite <;> cases ha : env.adminPriv <;> simp_all

/-- **Node-level requests.**  On a committed version every request whose method is not get/head — note, log,
    commit, … — is refused, except the child-creating actions branch / newversion / tag -/
theorem node_gate (env : GateEnv) (hl : env.locked = true) (ha : env.adminPriv = false) (hf : env.fullwrite = false)
    (hb : env.branchRequest = false) (hm : env.method ≠ "get" ∧ env.method ≠ "head") :
    Gen.nodeGuard.eval env = true := by
  simp [Gen.nodeGuard, BExp.eval, GateEnv.atom, hl, ha, hf, hb, hm.1, hm.2]

theorem node_gate_allows_children (env : GateEnv) (hb : env.branchRequest = true) : Gen.nodeGuard.eval env = false := by
  simp [Gen.nodeGuard, BExp.eval, GateEnv.atom, hb]

theorem branch_actions : Gen.branchActions = ["branch", "newversion", "tag"] ∧ Gen.commitRefusesLocked = true := by decide

/-- **Read-only mode**: every method other than get/head is refused on the repo and node route families
    without the admin token -/
theorem readonly_gate (env : GateEnv) (hr : env.readonly = true) (ha : env.adminPriv = false)
    (hm : env.method ≠ "get" ∧ env.method ≠ "head") :
    Gen.repoRawReadonlyGuard.eval env = true ∧ Gen.repoReadonlyGuard.eval env = true := by
  simp [Gen.repoRawReadonlyGuard, Gen.repoReadonlyGuard, BExp.eval, GateEnv.atom, hr, ha, hm.1, hm.2]

/-! ### (b) read stability -/

/-- every parent is committed (C07.reachable_inv gives this for every reachable manager state) -/
def ParentsLocked (d : Dag) (locked : Nat → Bool) : Prop := ∀ v p, p ∈ d.parents v → locked p = true

/-- all ancestors of a committed version are committed -/
theorem ancestors_locked (d : Dag) (locked : Nat → Bool) (hp : ParentsLocked d locked) (v a : Nat)
    (hv : locked v = true) (h : Anc d v a) : locked a = true := by
  induction h with
  | refl => exact hv
  | step hpar _ ih => exact ih (hp _ _ hpar)

/-- **All versioned content readable at a committed version reads back identically ever after**: a write or
    deletion the gate admits goes to an uncommitted version `w`; it leaves every read at every committed
    version `v` unchanged — whatever later happens in descendants, other branches or other instances. -/
theorem locked_read_stable (d : Dag) (locked : Nat → Bool) (hp : ParentsLocked d locked) (s : KV)
    (i v w : Nat) (tk val : Bytes) (hi : U32 i) (hw : U32 w) (hbound : ∀ a, Anc d v a → U32 a)
    (hv : locked v = true) (hwu : locked w = false) :
    getV d (putV s i w tk val) i tk v = getV d s i tk v ∧ getV d (delV s i w tk) i tk v = getV d s i tk v := by
  have hnot : ¬ Anc d v w := by
    intro h
    have := ancestors_locked d locked hp v w hv h
    rw [hwu] at this; cases this
  exact ⟨Dvid.Props.C01.get_put_other_version d s i v w tk val hi hw hbound hnot,
         Dvid.Props.C01.get_delete_other_version d s i v w tk hi hw hbound hnot⟩

/-- … and writes to any other data instance never matter (any versions) -/
theorem other_instance_irrelevant (d : Dag) (s : KV) (i i' v w : Nat) (tk tk' val : Bytes)
    (hi : U32 i) (hi' : U32 i') (hw : U32 w) (hbound : ∀ a, Anc d v a → U32 a) (hne : i' ≠ i) :
    getV d (putV s i w tk val) i' tk' v = getV d s i' tk' v :=
  Dvid.Props.C01.get_put_other_datum d s i i' v w tk tk' val hi hi' hw hbound (fun h => hne h.1)

/-- the manager really maintains `ParentsLocked`: in every reachable state every parent link points to a
    committed node (restating C07) -/
theorem manager_parents_locked (rs : List Manager.Req) :
    ∀ n ∈ (rs.foldl (fun s r => (Manager.step s r).1) Manager.init).nodes, ∀ p ∈ n.parents,
      ∃ m ∈ (rs.foldl (fun s r => (Manager.step s r).1) Manager.init).nodes, m.v = p ∧ m.repo = n.repo ∧ m.locked = true :=
  fun n hn p hp => ((Dvid.Props.C07.reachable_inv rs).2 n hn p hp).2

/- Non-vacuity: a PATCH-like method is simply not classified as a mutation by the gate (measured by the harness) -/
example : isMutation "keyvalue" "key" "post" = true ∧ isMutation "roi" "ptquery" "post" = false ∧
    isMutation "keyvalue" "key" "patch" = false := by decide

/-- the repaired shape of DeleteConflicts is present: conflict deletions of a resolve go into extension nodes, never into a committed parent -/
theorem repaired_shape_present : Gen.resolveKeepsCommittedParents = true := by decide

/-! ### ROI reads and the unversioned z extents

An ROI instance keeps `MinZ`/`MaxZ` as instance-wide properties that every POST at any version resets.  A read at
a committed version may therefore not depend on them.  Which range the full-ROI readers scan and where the
partition takes its z range from are regenerated from datatype/roi/roi.go. -/

/-- the full-ROI read at a version: the spans (block z, rest) stored at it, restricted to the z extents when
    the reader scans only those -/
def roiSpans (scansAll : Bool) (ext : Int × Int) (stored : List (Int × Nat)) : List (Int × Nat) :=
  if scansAll then stored else stored.filter (fun s => decide (ext.1 ≤ s.1 ∧ s.1 ≤ ext.2))

/-- the z range a partition is laid out over -/
def roiZRange (fromVersion : Bool) (ext : Int × Int) (stored : List (Int × Nat)) : Int × Int :=
  if fromVersion then (stored.foldl (fun m s => min m s.1) 2147483647, stored.foldl (fun m s => max m s.1) (-2147483648))
  else ext

/-- GET roi / ptquery and GET partition at a version are the same whatever later POSTs at other versions made of
    the instance-wide extents -/
theorem roi_reads_ignore_unversioned_extents (e1 e2 : Int × Int) (stored : List (Int × Nat)) :
    roiSpans Gen.roiGetSpansScansAll e1 stored = roiSpans Gen.roiGetSpansScansAll e2 stored ∧
    roiZRange Gen.roiPartitionUsesVersionExtents e1 stored = roiZRange Gen.roiPartitionUsesVersionExtents e2 stored := by
  have h1 : Gen.roiGetSpansScansAll = true := by decide
  have h2 : Gen.roiPartitionUsesVersionExtents = true := by decide
  rw [h1, h2]; exact ⟨rfl, rfl⟩

/-- the other shapes do depend on them: a narrower later ROI hides committed spans (seeded change C02-6) and moves
    the partition (the defect fixed in e8af9f5) -/
example : roiSpans false (1, 2) [(0, 7), (1, 7), (3, 7)] ≠ roiSpans false (0, 3) [(0, 7), (1, 7), (3, 7)] ∧
    roiZRange false (1, 2) [(0, 7)] ≠ roiZRange false (0, 3) [(0, 7)] := by decide

end Dvid.Props.C02
