import DvidModel.Model.Pyramid
import DvidModel.Props.C10
/-
  C14 — Lower-resolution label levels always match the documented down-sampling.
  Proved here: a lower-resolution voxel depends only on the eight voxels beneath it; those voxels lie in blocks
  whose parent (coordinate halved with floor, i.e. Go's >> 1, also for negative coordinates) is the voxel's own
  block; therefore recomputing exactly the parent blocks of the changed blocks and keeping every other stored
  block restores "level k+1 is the vote over level k" — for one level and, chaining the changed-block sets as
  Mutation.Execute does, for every level.  What a vote is (most frequent non-zero label, ties to the smaller,
  zero iff all zero, independent of map iteration order) is C10's `vote_spec`.  The shape of getHiresChanges,
  downresOctant and Execute is regenerated from the source.  The served levels of real instances are compared
  level to level by the harness (DESIGN.md §4 C14).
-/
namespace Dvid.Props.C14
open Dvid Dvid.Block Dvid.Pyramid

theorem half_block (B x : Int) (hB : 0 < B) (i : Int) (hi0 : 0 ≤ i) (hi1 : i < 2) : (2 * x + i) / B / 2 = x / B := by
  rw [Int.ediv_ediv_of_nonneg (by omega : (0:Int) ≤ B), Int.ediv_eq_iff_of_pos (by omega : 0 < B * 2)]
  have h1 : x / B * B ≤ x := Int.ediv_mul_le x (by omega)
  have h2 : x < (x / B + 1) * B := Int.lt_ediv_add_one_mul_self x hB
  rw [Int.add_mul, Int.one_mul] at h2
  have e : x / B * (B * 2) = x / B * B * 2 := (Int.mul_assoc _ _ _).symm
  rw [e]
  generalize x / B * B = t at *
  omega

/-- the voxels beneath a lower-resolution voxel lie in blocks whose parent is that voxel's block -/
theorem under_block (B : Int) (hB : 0 < B) (x y z i j k : Int) (hi : 0 ≤ i ∧ i < 2) (hj : 0 ≤ j ∧ j < 2) (hk : 0 ≤ k ∧ k < 2) :
    parentOf (blockOf B (2 * x + i) (2 * y + j) (2 * z + k)) = blockOf B x y z := by
  unfold parentOf blockOf
  simp only [Gen.downresParentIsHalf, ↓reduceIte]
  rw [half_block B x hB i hi.1 hi.2, half_block B y hB j hj.1 hj.2, half_block B z hB k hk.1 hk.2]

/-- **locality**: a lower-resolution voxel depends only on the eight voxels beneath it -/
theorem level1_local (v v' : Vol) (x y z : Int)
    (h : ∀ i j k : Int, 0 ≤ i ∧ i < 2 → 0 ≤ j ∧ j < 2 → 0 ≤ k ∧ k < 2 → v (2*x+i) (2*y+j) (2*z+k) = v' (2*x+i) (2*y+j) (2*z+k)) :
    level1 v x y z = level1 v' x y z := by
  unfold level1 under
  have a := h 0 0 0 (by omega) (by omega) (by omega)
  have b := h 1 0 0 (by omega) (by omega) (by omega)
  have c := h 0 1 0 (by omega) (by omega) (by omega)
  have d := h 1 1 0 (by omega) (by omega) (by omega)
  have e := h 0 0 1 (by omega) (by omega) (by omega)
  have f := h 1 0 1 (by omega) (by omega) (by omega)
  have g := h 0 1 1 (by omega) (by omega) (by omega)
  have i := h 1 1 1 (by omega) (by omega) (by omega)
  simp only [Int.add_zero] at a b c d e f g i
  rw [a, b, c, d, e, f, g, i]

/-- **the incremental update is complete**: if the stored level was the vote over the old level below, the level
    below changed only inside the blocks `T`, and exactly the parent blocks of `T` are recomputed, then the
    stored level is again the vote over the new level below — at every voxel, negative coordinates included -/
theorem updateLevel_sound (B : Int) (hB : 0 < B) (below below' stored : Vol) (T : BCoord → Prop)
    [DecidablePred (parents T)]
    (hstored : ∀ x y z, stored x y z = level1 below x y z)
    (hchg : ∀ x y z, ¬ T (blockOf B x y z) → below' x y z = below x y z) :
    ∀ x y z, updateLevel B stored below' (parents T) x y z = level1 below' x y z := by
  intro x y z
  unfold updateLevel
  split
  · rfl
  · rename_i hnp
    rw [hstored]
    apply level1_local
    intro i j k hi hj hk
    symm
    apply hchg
    intro hT
    exact hnp ⟨_, hT, under_block B hB x y z i j k hi hj hk⟩

open Classical in
/-- `Mutation.Execute`: level by level, recompute the parents of what changed below -/
noncomputable def exec (B : Int) (lv : Nat → Vol) (v0' : Vol) (T : BCoord → Prop) : Nat → Vol × (BCoord → Prop)
  | 0 => (v0', T)
  | k + 1 =>
    let r := exec B lv v0' T k
    (updateLevel B (lv (k + 1)) r.1 (parents r.2), parents r.2)

open Classical in
/-- after `Execute` every level is the vote over the level below it, whatever blocks the mutation touched -/
theorem pyramid_consistent (B : Int) (hB : 0 < B) (lv : Nat → Vol) (v0' : Vol) (T : BCoord → Prop)
    (hcons : ∀ k x y z, lv (k + 1) x y z = level1 (lv k) x y z)
    (hchg : ∀ x y z, ¬ T (blockOf B x y z) → v0' x y z = lv 0 x y z) (k : Nat) :
    (∀ x y z, (exec B lv v0' T (k + 1)).1 x y z = level1 (exec B lv v0' T k).1 x y z) ∧
    (∀ x y z, ¬ (exec B lv v0' T k).2 (blockOf B x y z) → (exec B lv v0' T k).1 x y z = lv k x y z) := by
  induction k with
  | zero =>
    refine ⟨?_, hchg⟩
    intro x y z
    exact updateLevel_sound B hB (lv 0) v0' (lv 1) T (hcons 0) hchg x y z
  | succ k ih =>
    obtain ⟨ih1, ih2⟩ := ih
    have hout : ∀ x y z, ¬ (exec B lv v0' T (k + 1)).2 (blockOf B x y z) →
        (exec B lv v0' T (k + 1)).1 x y z = lv (k + 1) x y z := by
      intro x y z hn
      show updateLevel B (lv (k + 1)) (exec B lv v0' T k).1 (parents (exec B lv v0' T k).2) x y z = _
      unfold updateLevel
      have : ¬ parents (exec B lv v0' T k).2 (blockOf B x y z) := hn
      simp only [this, ↓reduceIte]
    refine ⟨?_, hout⟩
    intro x y z
    exact updateLevel_sound B hB (lv (k + 1)) (exec B lv v0' T (k + 1)).1 (lv (k + 2)) (exec B lv v0' T (k + 1)).2
      (hcons (k + 1)) hout x y z


theorem vote_const (ls : List Nat) (l : Nat) (hne : ls ≠ []) (h : ∀ v ∈ ls, v = l) : vote ls = l := by
  rcases C10.vote_spec ls with ⟨h0, hall⟩ | ⟨_, hm, _⟩
  · cases ls with
    | nil => exact absurd rfl hne
    | cons a t =>
      have := hall a (by simp)
      have := h a (by simp)
      omega
  · exact h _ hm

/-- **`Block.Downres` on a subset of octants is sound**: if the stored block was the vote over the old level
    below and the level below changed only inside the octants handed in, the block after `Downres` is the vote
    over the new level below at every voxel — including the solid-block shortcut -/
theorem blockDownres_sound (stored below below' : Vol) (given : Nat → Bool) (solid : Nat → Option Nat)
    (octOf : Int → Int → Int → Nat)
    (hstored : ∀ x y z, stored x y z = level1 below x y z)
    (hchg : ∀ x y z, given (octOf x y z) = false → under below' x y z = under below x y z)
    (hoct : ∀ x y z, octOf x y z < 8)
    (hsolid : ∀ o l, given o = true → solid o = some l → ∀ x y z, octOf x y z = o → ∀ v ∈ under below' x y z, v = l) :
    ∀ x y z, blockDownres stored below' given solid octOf x y z = level1 below' x y z := by
  intro x y z
  have hslow : (if given (octOf x y z) then level1 below' x y z else stored x y z) = level1 below' x y z := by
    split
    · rfl
    · rename_i hg
      rw [hstored]; unfold level1
      rw [hchg x y z (by simpa using hg)]
  unfold blockDownres blockDownresWith
  simp only [Gen.downresSolidNeedsAllOctants, ↓reduceIte]
  cases hs : solid 0 with
  | none => exact hslow
  | some l =>
    simp only
    by_cases hall : ((List.range 8).all fun o => given o && solid o == some l) = true
    · rw [if_pos hall]
      rw [List.all_eq_true] at hall
      have ho := hall (octOf x y z) (List.mem_range.2 (hoct x y z))
      simp only [Bool.and_eq_true, beq_iff_eq] at ho
      unfold level1
      symm
      apply vote_const
      · simp [under]
      · exact hsolid _ l ho.1 ho.2 x y z rfl
    · rw [if_neg hall]; exact hslow

/-- **the earlier shape of `setBlank` is unsound**: one solid label-0 octant handed in, the seven others untouched
    and holding label 5: the block was replaced by a solid 0 block although the vote over the level below is 5
    in the untouched octants -/
theorem nil_octant_as_zero_blanks_siblings :
    let below' : Vol := fun x _ _ => if x < 2 then 0 else 5
    let octOf : Int → Int → Int → Nat := fun x _ _ => if x < 1 then 0 else 1
    let given : Nat → Bool := fun o => o == 0
    let solid : Nat → Option Nat := fun o => if o == 0 then some 0 else none
    blockDownresWith false (level1 below') below' given solid octOf 1 0 0 = 0 ∧ level1 below' 1 0 0 = 5 ∧
    blockDownresWith true (level1 below') below' given solid octOf 1 0 0 = 5 := by
  decide

/-- the regenerated shape facts the model relies on -/
theorem shape_facts : Gen.downresParentIsHalf = true ∧ Gen.downresOctantFromLowBits = true ∧
    Gen.downresChainsLevels = true ∧ Gen.downresKeepsUntouchedOctants = true ∧
    Gen.downresSolidNeedsAllOctants = true ∧ Gen.downresIdleLooksAtComputedScales = true := by decide

/-- what each voxel of a level is: C10's vote over the eight voxels beneath -/
theorem level_voxel_is_vote (v : Vol) (x y z : Int) :
    level1 v x y z = vote (under v x y z) := rfl

/-- concrete: blocks (-1,-3,5) and (-2,-3,4) (odd and even negative) have the parent (-1,-2,2) -/
example : parentOf (-1, -3, 5) = (-1, -2, 2) ∧ parentOf (-2, -3, 4) = (-1, -2, 2) := by decide

end Dvid.Props.C14
