import DvidModel.Model.Copy
import DvidModel.Props.C06
import DvidModel.Props.C01
/-
  C19 — Copying a data instance preserves its versioned content.
  Proved here over the raw-store model: after a full copy every read of the copy at every version of every DAG
  equals the source's read and the source's reads are unchanged; after a flattened copy at version v the copy's
  read at v equals the source's read at v, and the source is unchanged.  The shape of copyData (which range
  is scanned, that keys are rewritten before being stored, that the flattened copy resolves and stores at the
  copy's version) is regenerated from the Go source on every run.  Reads through every data type's endpoints
  on real stores are compared by the harness (DESIGN.md §4 C19).
-/
namespace Dvid.Props.C19
open Dvid Dvid.Key Dvid.Store Dvid.Resolve Dvid.Copy Dvid.Props.C06

theorem instanceOf_dataKey (i v c : Nat) (tk : Bytes) (tomb : Bool) (hi : U32 i) (hv : U32 v) (hc : U32 c) :
    instanceOf (dataKey i v c tk tomb) = some i := by
  unfold instanceOf; rw [(parse_construct i v c tk tomb hi hv hc).2.1]; rfl

/-- rewriting the instance field of a data key gives the same datum, version, client and marker in the other instance -/
theorem changeInstance_dataKey (i j v c : Nat) (tk : Bytes) (tomb : Bool) :
    changeInstance (dataKey j v c tk tomb) i = some (dataKey i v c tk tomb) := by
  unfold changeInstance
  rw [dataKey_eq, dataKey_eq]
  simp [Gen.dataKeyPrefix, Gen.instanceIDSize, be32]

/-- the rewrite is invertible on an instance's keys: distinct source keys stay distinct -/
theorem changeInstance_roundtrip (i j v c : Nat) (tk : Bytes) (tomb : Bool) :
    (changeInstance (dataKey i v c tk tomb) j).bind (changeInstance · i) = some (dataKey i v c tk tomb) := by
  rw [changeInstance_dataKey]; simp [changeInstance_dataKey]

theorem be32_mod (n : Nat) : be32 n = be32 (n % 4294967296) := by
  unfold be32
  have h1 : UInt8.ofNat (n / 16777216) = UInt8.ofNat (n % 4294967296 / 16777216) := by
    apply UInt8.toNat_inj.1; simp only [UInt8.toNat_ofNat']; omega
  have h2 : UInt8.ofNat (n / 65536) = UInt8.ofNat (n % 4294967296 / 65536) := by
    apply UInt8.toNat_inj.1; simp only [UInt8.toNat_ofNat']; omega
  have h3 : UInt8.ofNat (n / 256) = UInt8.ofNat (n % 4294967296 / 256) := by
    apply UInt8.toNat_inj.1; simp only [UInt8.toNat_ofNat']; omega
  have h4 : UInt8.ofNat n = UInt8.ofNat (n % 4294967296) := by
    apply UInt8.toNat_inj.1; simp only [UInt8.toNat_ofNat']; omega
  rw [h1, h2, h3, h4]

/-- version ids are stored in 32 bits: a key only depends on the version modulo 2^32 -/
theorem dataKey_version_mod (i v c : Nat) (tk : Bytes) (tomb : Bool) :
    dataKey i v c tk tomb = dataKey i (v % 4294967296) c tk tomb := by
  rw [dataKey_eq, dataKey_eq, be32_mod v]

theorem copyRaw_at (s : KV) (i j v : Nat) (tk : Bytes) (tomb : Bool) (hj : U32 j) :
    copyRaw s i j (dataKey j v 0 tk tomb) = s (dataKey i v 0 tk tomb) := by
  rw [dataKey_version_mod j v, dataKey_version_mod i v]
  unfold copyRaw
  rw [instanceOf_dataKey j _ 0 tk tomb hj (Nat.mod_lt _ (by decide)) (by decide), changeInstance_dataKey]
  simp [Gen.copyRawScansInstanceRange, Gen.copyRawRewritesInstance, Gen.updateInstanceOverwritesIdField]

theorem copyRaw_source (s : KV) (i j v : Nat) (tk : Bytes) (tomb : Bool) (hi : U32 i) (hne : i ≠ j) :
    copyRaw s i j (dataKey i v 0 tk tomb) = s (dataKey i v 0 tk tomb) := by
  rw [dataKey_version_mod i v]
  unfold copyRaw
  rw [instanceOf_dataKey i _ 0 tk tomb hi (Nat.mod_lt _ (by decide)) (by decide)]
  simp [hne]

theorem entryAt_congr (s t : KV) (i j : Nat) (tk : Bytes)
    (h : ∀ v tomb, t (dataKey j v 0 tk tomb) = s (dataKey i v 0 tk tomb)) (v : Nat) :
    entryAt t j tk v = entryAt s i tk v := by
  unfold entryAt; rw [h v true, h v false]

theorem getV_congr (d : Dag) (s t : KV) (i j : Nat) (tk : Bytes)
    (h : ∀ v tomb, t (dataKey j v 0 tk tomb) = s (dataKey i v 0 tk tomb)) (v : Nat) :
    getV d t j tk v = getV d s i tk v := by
  unfold getV
  have : entryAt t j tk = entryAt s i tk := funext (entryAt_congr s t i j tk h)
  rw [this]
  cases readAt d (entryAt s i tk) v <;> simp [h]

/-- full copy: the copy reads like the source at every version of every DAG, for every datum and store -/
theorem copy_reads_equal (d : Dag) (s : KV) (i j : Nat) (tk : Bytes) (v : Nat) (hj : U32 j) :
    getV d (copyRaw s i j) j tk v = getV d s i tk v :=
  getV_congr d s _ i j tk (fun w tomb => copyRaw_at s i j w tk tomb hj) v

/-- full copy: the source's reads are unchanged -/
theorem copy_source_unchanged (d : Dag) (s : KV) (i j : Nat) (tk : Bytes) (v : Nat) (hi : U32 i) (hne : i ≠ j) :
    getV d (copyRaw s i j) i tk v = getV d s i tk v :=
  getV_congr d s _ i i tk (fun w tomb => copyRaw_source s i j w tk tomb hi hne) v

/-- what the flattened copy holds for a datum: the value resolved at v, stored at v, nothing else -/
theorem flatten_at (d : Dag) (s : KV) (i j v w : Nat) (tk : Bytes) (tomb : Bool) (hj : U32 j) (_hv : U32 v) (hw : U32 w) :
    flatten d s i j v (dataKey j w 0 tk tomb) = if w = v ∧ tomb = false then getV d s i tk v else none := by
  unfold flatten
  obtain ⟨p1, p2, _, p4, _⟩ := parse_construct j w 0 tk tomb hj hw (by decide)
  rw [instanceOf_dataKey j w 0 tk tomb hj hw (by decide), p1, p2, p4]
  cases tomb <;> simp [Gen.copyFlattenResolvesAtCtx]

/-- flattened copy at v: reading the copy at v gives what the source gives at v -/
theorem flatten_read_at_v (d : Dag) (s : KV) (i j v : Nat) (tk : Bytes) (hj : U32 j) (hv : U32 v) :
    getV d (flatten d s i j v) j tk v = getV d s i tk v := by
  have htomb : ∀ w, flatten d s i j v (dataKey j w 0 tk true) = none := by
    intro w
    rw [dataKey_version_mod j w, flatten_at d s i j v _ tk true hj hv (Nat.mod_lt _ (by decide))]
    simp
  have hval : ∀ w, (flatten d s i j v (dataKey j w 0 tk false)).isSome → (getV d s i tk v).isSome := by
    intro w h
    rw [dataKey_version_mod j w, flatten_at d s i j v _ tk false hj hv (Nat.mod_lt _ (by decide))] at h
    split at h
    · exact h
    · simp at h
  have hself : flatten d s i j v (dataKey j v 0 tk false) = getV d s i tk v := by
    rw [flatten_at d s i j v v tk false hj hv hv]; simp
  cases hsrc : getV d s i tk v with
  | some val =>
    have he : entryAt (flatten d s i j v) j tk v = some (.val v) := by
      unfold entryAt; rw [htomb v, hself, hsrc]; simp
    unfold getV
    rw [C01.read_own_write d _ v v he]
    simp only
    rw [hself, hsrc]
  | none =>
    unfold getV
    cases hr : readAt d (entryAt (flatten d s i j v) j tk) v with
    | found a x =>
      exfalso
      have := (C01.read_sound d _ v a x hr).1
      unfold entryAt at this
      rw [htomb a] at this
      simp only [Option.isSome_none, Bool.false_eq_true, ↓reduceIte] at this
      split at this
      · rename_i h
        have := hval a h
        rw [hsrc] at this; simp at this
      · simp at this
    | none => rfl
    | err => rfl

theorem flatten_source_unchanged (d : Dag) (s : KV) (i j v : Nat) (tk : Bytes) (w : Nat) (hi : U32 i) (hne : i ≠ j) :
    getV d (flatten d s i j v) i tk w = getV d s i tk w := by
  apply getV_congr
  intro x tomb
  rw [dataKey_version_mod i x]
  unfold flatten
  rw [instanceOf_dataKey i _ 0 tk tomb hi (Nat.mod_lt _ (by decide)) (by decide)]
  simp [hne]

/-- concrete instance: a value at version 2 and a tombstone at version 3 of instance 5 appear under instance 6 -/
example :
    let s := KV.set (KV.set empty (dataKey 5 2 0 [7, 3] false) [9]) (dataKey 5 3 0 [7, 3] true) []
    copyRaw s 5 6 (dataKey 6 2 0 [7, 3] false) = some [9] ∧ copyRaw s 5 6 (dataKey 6 3 0 [7, 3] true) = some [] ∧
    copyRaw s 5 6 (dataKey 6 3 0 [7, 3] false) = none := by decide

end Dvid.Props.C19
