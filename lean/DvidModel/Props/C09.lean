import DvidModel.Lemmas.Block
/-
  C09 — The compressed label block codec is lossless and its views agree.
  Proved here, for all inputs: the bit-level contract of the packed index stream (what `getPackedValue` reads
  is exactly the bit slice, what the encoder's write puts there is read back and leaves earlier values alone),
  the width function `bitsFor`, and the agreement of the point view (`Block.Value`, prefix sums over the
  sub-block table) with the streaming decoder (`MakeLabelVolume`) on every well-formed block.
  The whole-array round trip MakeBlock -> MakeLabelVolume, (un)marshalling, counts, RLE and binary-block views
  are decided by the correspondence harness on the real code (DESIGN.md §4 C09).
-/
namespace Dvid.Props.C09
open Dvid Dvid.Block

/-- `bitsFor` over every label count a sub-block can have: enough bits, no more than needed, at most 9 -/
theorem bitsFor_table : ∀ n : Fin 513,
    n.val ≤ 2 ^ bitsFor n.val ∧ (2 ≤ n.val → 2 ^ (bitsFor n.val - 1) < n.val) ∧ bitsFor n.val ≤ 9 := by
  decide +kernel

theorem bitsFor_spec (n : Nat) (h : n ≤ 512) :
    n ≤ 2 ^ bitsFor n ∧ (2 ≤ n → 2 ^ (bitsFor n - 1) < n) ∧ bitsFor n ≤ 9 :=
  bitsFor_table ⟨n, by omega⟩

theorem bitsFor_eq_zero_iff (n : Nat) : bitsFor n = 0 ↔ n ≤ 1 := by
  unfold bitsFor
  split
  · omega
  · rename_i h
    have h1 : n - 1 > 0 := by omega
    have : 1 ≤ bitsForLoop 17 (n - 1) 0 := by
      rw [show (17 : Nat) = 16 + 1 from rfl, bitsForLoop]
      simp only [h1, ↓reduceIte]
      exact bitsForLoop_ge _ _ _
    omega

/-- `getPackedValue` returns exactly the `bits`-wide slice starting `bitPos` bits into the two bytes -/
theorem getPacked2_spec (b0 b1 bitPos bits : Nat) (h0 : b0 < 256) (h1 : b1 < 256) (hp : bitPos < 8)
    (hb : bitPos + bits ≤ 16) :
    getPacked2 b0 b1 bitPos bits = (b0 * 256 + b1) / 2 ^ (16 - bitPos - bits) % 2 ^ bits := by
  unfold getPacked2
  rw [mask_eq bitPos hp, Nat.and_two_pow_sub_one_eq_mod]
  split
  · rename_i hle
    rw [Nat.shiftRight_eq_div_pow]
    exact arith1 b0 b1 bitPos bits h0 h1 hp hle
  · rename_i hgt
    have : b1 < 2 ^ 8 := by simpa using h1
    rw [← Nat.shiftLeft_add_eq_or_of_lt this, Nat.shiftRight_eq_div_pow, Nat.shiftLeft_eq]
    exact arith2 b0 b1 bitPos bits h0 h1 hp hgt hb

/-- what the encoder writes at a bit position is what the decoder reads there, and the bits before the
    position (the values already written) are untouched; `hz` says the bits from the position on are still 0,
    which holds because the encoder fills a zeroed buffer front to back -/
theorem put_get (b0 b1 bitPos bits idx : Nat) (h0 : b0 < 256) (h1 : b1 < 256) (hp : bitPos < 8)
    (hb : bitPos + bits ≤ 16) (hi : idx < 2 ^ bits) (hz : b0 % 2 ^ (8 - bitPos) = 0) :
    getPacked2 (putPacked2 b0 b1 bitPos bits idx).1 (putPacked2 b0 b1 bitPos bits idx).2 bitPos bits = idx
    ∧ (putPacked2 b0 b1 bitPos bits idx).1 / 2 ^ (8 - bitPos) = b0 / 2 ^ (8 - bitPos) := by
  rw [putPacked2_arith b0 b1 bitPos bits idx hp hb hi hz]
  obtain ⟨c0, c1, hg, hpre⟩ := put_get_arith b0 b1 bitPos bits idx h0 h1 hp hb hi hz
  exact ⟨by rw [getPacked2_spec _ _ _ _ c0 c1 hp hb]; exact hg, hpre⟩

theorem voxLabel_eq_value (b : Block) (hsz : b.numSB.size = b.gx * b.gy * b.gz)
    (hn : ∀ k, k < b.numSB.size → 1 ≤ b.numSB.getD k 0)
    (x y z : Nat) (hx : x < 8 * b.gx) (hy : y < 8 * b.gy) (hz : z < 8 * b.gz) :
    voxLabel b (startsArr b.numSB) x y z = valueNat b x y z := by
  unfold voxLabel valueNat
  by_cases h0 : b.labels.size = 0
  · simp [h0, Array.getD_eq_getD_getElem?]
  by_cases h1 : b.labels.size = 1
  · simp [h1]
  have h2 : ¬ b.labels.size < 2 := by omega
  simp only [h2, h0, h1, ↓reduceIte]
  have hk : sbNum b x y z < b.numSB.size := by rw [hsz]; exact sbNum_lt b x y z hx hy hz
  rw [startsArr_getD _ _ hk]
  have hn1 := hn _ hk
  unfold labelSB slotAt
  have : ¬ b.numSB.getD (sbNum b x y z) 0 = 0 := by omega
  simp only [this, ↓reduceIte]
  by_cases hb : bitsFor (b.numSB.getD (sbNum b x y z) 0) = 0
  · have := (bitsFor_eq_zero_iff _).1 hb
    simp only [hb, this, ↓reduceIte]
  · have : ¬ b.numSB.getD (sbNum b x y z) 0 ≤ 1 := fun h => hb ((bitsFor_eq_zero_iff _).2 h)
    simp only [hb, this, ↓reduceIte]

theorem value_eq_decode (b : Block) (hsz : b.numSB.size = b.gx * b.gy * b.gz)
    (hn : ∀ k, k < b.numSB.size → 1 ≤ b.numSB.getD k 0)
    (x y z : Nat) (hx : x < 8 * b.gx) (hy : y < 8 * b.gy) (hz : z < 8 * b.gz) :
    (decode b)[z * (8 * b.gx) * (8 * b.gy) + y * (8 * b.gx) + x]? = some (valueNat b x y z) := by
  have hlt : z * (8 * b.gx) * (8 * b.gy) + y * (8 * b.gx) + x < nvox b := by
    unfold nvox
    have h1 : y * (8 * b.gx) + x < 8 * b.gy * (8 * b.gx) := by
      have : (y + 1) * (8 * b.gx) ≤ 8 * b.gy * (8 * b.gx) := Nat.mul_le_mul_right _ hy
      rw [Nat.add_mul] at this; omega
    have h2 : (z + 1) * (8 * b.gx * (8 * b.gy)) ≤ 8 * b.gz * (8 * b.gx * (8 * b.gy)) := Nat.mul_le_mul_right _ hz
    rw [Nat.add_mul] at h2
    have e1 : z * (8 * b.gx) * (8 * b.gy) = z * (8 * b.gx * (8 * b.gy)) := Nat.mul_assoc _ _ _
    have e2 : 8 * b.gx * (8 * b.gy) * (8 * b.gz) = 8 * b.gz * (8 * b.gx * (8 * b.gy)) := Nat.mul_comm _ _
    have e3 : 8 * b.gy * (8 * b.gx) = 8 * b.gx * (8 * b.gy) := Nat.mul_comm _ _
    omega
  obtain ⟨d1, d2, d3⟩ := idx_decomp (8 * b.gx) (8 * b.gy) x y z hx hy
  unfold decode
  simp only [Array.getElem?_ofFn, hlt, ↓reduceDIte, d1, d2, d3]
  rw [voxLabel_eq_value b hsz hn x y z hx hy hz]

theorem wf_size (b : Block) (h : wf b = true) : b.numSB.size = b.gx * b.gy * b.gz := by
  unfold wf at h; simp only [Bool.and_eq_true, decide_eq_true_eq] at h; exact h.1.1

theorem wf_n_pos (b : Block) (h : wf b = true) (k : Nat) (hk : k < b.numSB.size) : 1 ≤ b.numSB.getD k 0 := by
  unfold wf at h; simp only [Bool.and_eq_true, decide_eq_true_eq, List.all_eq_true, List.mem_range] at h
  have := h.1.2 k hk
  unfold wfSB at this; simp only [Bool.and_eq_true, decide_eq_true_eq] at this
  exact this.1.1

/-- the point view equals the decoded array at that point, for every well-formed block and in-range point -/
theorem value_eq_decode_wf (b : Block) (h : wf b = true)
    (x y z : Nat) (hx : x < 8 * b.gx) (hy : y < 8 * b.gy) (hz : z < 8 * b.gz) :
    (decode b)[z * (8 * b.gx) * (8 * b.gy) + y * (8 * b.gx) + x]? = some (value b x y z) := by
  have e : value b x y z = valueNat b x y z := by
    unfold value
    have : ¬ ((x : Int) < 0 ∨ (x : Int) ≥ 8 * (b.gx : Int) ∨ (y : Int) < 0 ∨ (y : Int) ≥ 8 * (b.gy : Int) ∨
        (z : Int) < 0 ∨ (z : Int) ≥ 8 * (b.gz : Int)) := by omega
    simp only [this, ↓reduceIte, Int.toNat_natCast]
  rw [e]
  exact value_eq_decode b (wf_size b h) (wf_n_pos b h) x y z hx hy hz

/-- outside the block the point view is 0 -/
theorem value_outside (b : Block) (x y z : Int)
    (h : x < 0 ∨ x ≥ 8 * b.gx ∨ y < 0 ∨ y ≥ 8 * b.gy ∨ z < 0 ∨ z ≥ 8 * b.gz) : value b x y z = 0 := by
  unfold value; simp only [h, ↓reduceIte]

/-- the premises are satisfiable: a 16x8x8 block, first sub-block two labels (1 bit per voxel), second solid -/
def demo : Block := ⟨2, 1, 1, #[5, 7, 9], #[2, 1], #[0, 2, 1], Array.replicate 64 0xAA⟩
example : wf demo = true := by decide +kernel
example : value demo 0 0 0 = 9 ∧ value demo 1 0 0 = 5 ∧ value demo 8 0 0 = 7 := by decide +kernel

end Dvid.Props.C09
