import DvidModel.Model.MapLog
import DvidModel.Props.C12
/-
  C03 — A restart changes nothing observable.
  Proved here: state that is *rebuilt* at start-up answers like the state it replaces, for
  (1) the labelmap's supervoxel→body mapping and split list (replay of the mutation log = the live state,
      for every sequence of merges, cleaves, supervoxel splits and renumberings),
  (2) the label counters (C12.reload_spec) and the version-id counter (C04.reload_counter_fresh).
  Everything else (DAG, notes, instance settings, every read endpoint of every data type at every version)
  is compared byte-for-byte before and after clean and abrupt restarts of real server processes by the
  harness on generated histories.
-/
namespace Dvid.Props.C03
open Dvid Dvid.MapLog

/-- observational equality of mapping states -/
def Same (a b : St) : Prop := (∀ x, a.m x = b.m x) ∧ a.splits = b.splits

theorem Same.refl (a : St) : Same a a := ⟨fun _ => rfl, rfl⟩
theorem Same.trans {a b c : St} (h1 : Same a b) (h2 : Same b c) : Same a c :=
  ⟨fun x => (h1.1 x).trans (h2.1 x), h1.2.trans h2.2⟩

theorem set_same {a b : St} (h : Same a b) (k v : Nat) : Same (set a k v) (set b k v) := by
  constructor
  · intro x; simp only [MapLog.set]; split <;> first | rfl | exact h.1 x
  · exact h.2

theorem setAll_same {a b : St} (h : Same a b) (ks : List Nat) (v : Nat) : Same (setAll a ks v) (setAll b ks v) := by
  induction ks generalizing a b with
  | nil => exact h
  | cons k ks ih => exact ih (set_same h k v)

theorem replayRec_same {a b : St} (h : Same a b) (r : Rec) : Same (replayRec a r) (replayRec b r) := by
  cases r with
  | mapping orig mapped => exact setAll_same h orig mapped
  | svsplit mid sv remain split =>
    simp only [replayRec]
    apply set_same
    exact ⟨h.1, by simp [h.2]⟩
  | cleave c => exact set_same h c 0
  | renumber n => exact set_same h n 0

theorem replay_same {a b : St} (h : Same a b) (log : List Rec) : Same (replay a log) (replay b log) := by
  induction log generalizing a b with
  | nil => exact h
  | cons r rs ih => exact ih (replayRec_same h r)

theorem replay_append (st : St) (l1 l2 : List Rec) : replay st (l1 ++ l2) = replay (replay st l1) l2 := by
  simp [replay, List.foldl_append]

/-- updates at distinct keys commute -/
theorem set_comm (st : St) (k1 v1 k2 v2 : Nat) (hne : k1 ≠ k2) :
    Same (set (set st k1 v1) k2 v2) (set (set st k2 v2) k1 v1) := by
  constructor
  · intro x
    simp only [MapLog.set]
    by_cases h1 : x = k1 <;> by_cases h2 : x = k2
    · exact absurd (h1.symm.trans h2) hne
    · subst h1; simp [hne]
    · subst h2; simp [Ne.symm hne]
    · simp [h1, h2]
  · rfl

theorem setAll_set_comm (st : St) (ks : List Nat) (v k v' : Nat) (hk : k ∉ ks) :
    Same (setAll (set st k v') ks v) (set (setAll st ks v) k v') := by
  induction ks generalizing st with
  | nil => exact Same.refl _
  | cons x xs ih =>
    have hx : k ≠ x := fun e => hk (by simp [e])
    have hxs : k ∉ xs := fun e => hk (by simp [e])
    simp only [setAll, List.foldl_cons]
    have h1 : Same (set (set st k v') x v) (set (set st x v) k v') := set_comm st k v' x v hx
    exact Same.trans (setAll_same h1 xs v) (ih (set st x v) hxs)

/-- one operation: replaying what it logged gives the state it left in memory
    (depends on the regenerated number of split records per split request) -/
theorem replay_logOf (st : St) (op : Op) (hok : op.Ok) : Same (replay st (logOf st op)) (live st op) := by
  cases op with
  | merge to svs => exact Same.refl _
  | cleave cleaved svs => exact Same.refl _
  | renumber nl svs =>
    simp only [logOf, live, replay, List.foldl_cons, List.foldl_nil, replayRec]
    exact setAll_set_comm st svs nl nl 0 hok
  | svsplit mid sv split remain =>
    obtain ⟨h1, h2, h3⟩ := hok
    simp only [logOf, live, replay, Gen.svSplitLogAppends, List.replicate, List.cons_append, List.nil_append,
      List.foldl_cons, List.foldl_nil, replayRec, setAll]
    constructor
    · intro x
      simp only [MapLog.set, St.bodyOf]
      by_cases a : x = remain <;> by_cases b : x = split <;> by_cases c : x = sv <;> simp_all
    · rfl

theorem bodyOf_same {a b : St} (h : Same a b) (sv : Nat) : a.bodyOf sv = b.bodyOf sv := by
  simp [St.bodyOf, h.1 sv]

theorem live_same {a b : St} (h : Same a b) (op : Op) : Same (live a op) (live b op) := by
  cases op with
  | merge to svs => exact setAll_same h svs to
  | cleave cleaved svs => exact set_same (setAll_same h svs cleaved) cleaved 0
  | renumber nl svs => exact set_same (setAll_same h svs nl) nl 0
  | svsplit mid sv split remain =>
    simp only [live, bodyOf_same h sv]
    have := set_same (set_same (set_same h split (b.bodyOf sv)) remain (b.bodyOf sv)) sv 0
    exact ⟨this.1, by simp [this.2]⟩

theorem logOf_same {a b : St} (h : Same a b) (op : Op) : logOf a op = logOf b op := by
  cases op <;> simp [logOf, bodyOf_same h]

/-- **The mapping and split records rebuilt from the mutation log answer exactly as the live state they
    replace**, after any sequence of merges, cleaves, supervoxel splits and renumberings. -/
theorem replay_eq_live (st0 st : St) (h0 : Same st0 st) (ops : List Op) (hok : ∀ op ∈ ops, op.Ok) :
    Same (replay st0 (run st ops).2) (run st ops).1 := by
  induction ops generalizing st0 st with
  | nil => exact h0
  | cons op ops ih =>
    simp only [run]
    rw [replay_append]
    apply ih
    · have h1 : Same (replay st0 (logOf st op)) (replay st (logOf st op)) := replay_same h0 _
      exact Same.trans h1 (replay_logOf st op (hok op (by simp)))
    · intro o ho; exact hok o (by simp [ho])

/-- from an empty instance: a restart (replay of the whole log onto the empty state) gives the live state -/
theorem restart_mapping (ops : List Op) (hok : ∀ op ∈ ops, op.Ok) :
    Same (replay St.init (run St.init ops).2) (run St.init ops).1 :=
  replay_eq_live St.init St.init (Same.refl _) ops hok

/-- label counters: what `loadLabelIDs` rebuilds equals the live counters (C12) -/
theorem restart_label_counters (l : Ids.Lab) (vs : List Nat) (h : Dvid.Props.C12.LabInv l) :
    (l.reload vs).maxRepo = l.maxRepo := (Dvid.Props.C12.reload_spec l vs h).2

/- Non-vacuity -/
example : (Op.svsplit 7 12 16 17).Ok ∧ (Op.cleave 30 [12, 13]).Ok := by
  constructor
  · exact ⟨by decide, by decide, by decide⟩
  · simp [Op.Ok]

/-! ### Extents saved with the instance

`Extents.AdjustIndices` widens the stored block-index extents by the span just written and tells the caller
whether anything moved; only then is the instance saved.  One axis of it, with the shape of the returned flag
regenerated from the source. -/

def adjustIdx (bothFlags : Bool) (mn mx b e : Int) : Int × Int × Bool :=
  (min mn b, max mx e, if bothFlags then decide (b < mn) || decide (mx < e) else decide (mx < e))

/-- whenever the flag says "unchanged" (no save), the extents in memory are the extents already saved: a restart
    brings back the same extents -/
theorem unsaved_extents_unchanged (mn mx b e : Int)
    (h : (adjustIdx Gen.extentsIndexChangeKeepsMin mn mx b e).2.2 = false) :
    (adjustIdx Gen.extentsIndexChangeKeepsMin mn mx b e).1 = mn ∧
    (adjustIdx Gen.extentsIndexChangeKeepsMin mn mx b e).2.1 = mx := by
  have hg : Gen.extentsIndexChangeKeepsMin = true := by decide
  rw [hg] at h ⊢
  simp only [adjustIdx, if_true, Bool.or_eq_false_iff, decide_eq_false_iff_not] at h ⊢
  omega

/-- the earlier shape (the flag of the maximum overwrote the flag of the minimum) loses a lowered minimum
    (the defect fixed in ec65a94) -/
example : (adjustIdx false 1 1 0 0).2.2 = false ∧ (adjustIdx false 1 1 0 0).1 ≠ 1 := by decide

/-! ### Branch heads rebuilt at start-up

The running server moves a branch's head only when a child *on that branch* is created; the table rebuilt at
start-up (`branchHeads`, shape regenerated) must agree. -/

/-- is a node (its branch, the branches of its children) the head of its branch in the rebuilt table? -/
def rebuiltHead (sameBranchOnly : Bool) (branch : String) (children : List String) : Bool :=
  if sameBranchOnly then !(children.any (· == branch)) else children.isEmpty

/-- what the running server has: the tip of a branch stays its head until a child continues the branch -/
def liveHead (branch : String) (children : List String) : Bool := !(children.any (· == branch))

theorem rebuilt_heads_agree_with_live (branch : String) (children : List String) :
    rebuiltHead Gen.branchHeadIgnoresOtherBranchChildren branch children = liveHead branch children := by
  have hg : Gen.branchHeadIgnoresOtherBranchChildren = true := by decide
  rw [hg]; rfl

/-- the earlier shape (only childless nodes) loses master's head after POST branch on its tip (fixed in 00afb16) -/
example : rebuiltHead false "" ["side"] = false ∧ liveHead "" ["side"] = true := by decide

end Dvid.Props.C03
