import DvidModel.Lemmas.ImageBlk2
/-
  C17 — Image volumes return exactly the voxels that were written.

  Proved here, for every block size, voxel width, request position/size (negative coordinates included) and
  every set of stored blocks:
  * the per-axis transfer of `ComputeTransform` selects exactly request ∩ block, at the right block offset;
  * a 3-D read (`readBlock` for every stored block, in ANY order — the implementation runs one goroutine per
    block) leaves in the request buffer, for every requested voxel, the bytes of that voxel in the stored block
    that contains it, or the initial (background) byte when no stored block contains it;
  * the three 2-D slice shapes are the 3-D transfer of a box that is one voxel thick;
  * `Point3d.Chunk` (floor by case on the sign) finds the containing block, so the block iteration reaches it;
  * the advertised extents cover every box written through either write path (`raw`, `blocks`).
  The index arithmetic of `readBlock`/`writeBlock`, the shape of `ComputeTransform`, the block byte size used by
  `POST blocks`, the calls to `PostExtents` and the background prefill are regenerated from the source
  (`Gen.ImageBlk`) and the model is conditioned on them; the byte-to-byte transfer map of the real
  `ReadBlock`/`WriteBlock` is compared with `segs` on generated geometries by the harness, which also compares
  every read geometry of the HTTP API with an element-wise oracle.
  * the write direction copies the same row segments the other way (`writeBlock_own`), and a voxel written
    through one request and read through any other request of the instance comes back unchanged
    (`write_then_read`).
  Not proved: PNG encoding of 2-D slices,
  ROI masking (roi membership is C18), storage (C01/C05).
-/
namespace Dvid.Props.C17
open Dvid Dvid.ImageBlk

/-- the regenerated source facts the model is conditioned on all hold on this tree -/
theorem source_facts :
    Gen.ibTransformIsIntersection = true ∧ Gen.ibBlockBoxIsGrid = true ∧ Gen.ibReadVolRowCopies = true ∧
    Gen.ibWriteVolRowCopies = true ∧ Gen.ibPutBlocksWholeBlocks = true ∧ Gen.ibPutBlocksPostsExtents = true ∧
    Gen.ibPutVoxelsPostsExtents = true ∧ Gen.ibPutVoxelsRequiresAlignment = true ∧ Gen.ibExtentsOnlyGrow = true ∧
    Gen.ibReadPrefillsBackground = true ∧ Gen.ibChunkFloorByCase = true := by decide

/-- the block iteration finds the block of every coordinate: Go's floor-by-case `Chunk` is the containing block,
    for negative coordinates as well -/
theorem chunk_is_containing_block (n x : Int) (hn : 0 < n) : InBlock n (Geom.chunk x n) x := chunk_inBlock hn

/-- a coordinate lies in exactly one block -/
theorem containing_block_unique (n b b' x : Int) (hn : 0 < n) (h : InBlock n b x) (h' : InBlock n b' x) : b = b' :=
  inBlock_unique hn h h'

/-- per axis: a requested coordinate in block `b` is transferred, from its own offset in the block -/
theorem transform_complete (n s m b x : Int) (hx : s ≤ x ∧ x < s + m) (hb : InBlock n b x) :
    (axisXfer n s m b).dataBeg ≤ x - s ∧ x - s ≤ (axisXfer n s m b).dataEnd ∧
    (axisXfer n s m b).blockBeg + (x - s - (axisXfer n s m b).dataBeg) = x - b * n := axis_complete hx hb

/-- per axis: nothing else is transferred — every transferred position is a requested coordinate of block `b` -/
theorem transform_sound (n s m b i : Int)
    (hi : (axisXfer n s m b).dataBeg ≤ i ∧ i ≤ (axisXfer n s m b).dataEnd) :
    0 ≤ i ∧ i < m ∧ InBlock n b (s + i) ∧
    (axisXfer n s m b).blockBeg + (i - (axisXfer n s m b).dataBeg) = s + i - b * n := axis_sound hi

example : axisXfer 16 (-20) 30 (-1) = { blockBeg := 0, dataBeg := 4, dataEnd := 19 } := by decide
example : axisXfer 16 (-20) 30 (-2) = { blockBeg := 12, dataBeg := 0, dataEnd := 3 } := by decide

/-- the request-buffer index is injective on the voxels and bytes of the request -/
theorem dataIdx_inj (g : Geo) (hmx : 0 < g.mx) (x y z c x' y' z' c' : Int)
    (h : InReq g x y z) (h' : InReq g x' y' z') (hc : 0 ≤ c ∧ c < g.bpv) (hc' : 0 ≤ c' ∧ c' < g.bpv)
    (e : dataIdx g x y z c = dataIdx g x' y' z' c') : x = x' ∧ y = y' ∧ z = z' ∧ c = c' := by
  have _ := hmx
  unfold dataIdx at e
  have := lin_inj hc hc' (i := x - g.sx) (i' := x' - g.sx) (j := y - g.sy) (j' := y' - g.sy)
    (by have := h.hx; omega) (by have := h'.hx; omega) (by have := h.hy; omega) (by have := h'.hy; omega) e
  omega

/-- reading one stored block into the request buffer -/
def readBlock (g : Geo) (b : Int × Int × Int) (blk : Int → UInt8) (data : Int → UInt8) : Int → UInt8 :=
  readSegs blk (segs .vol g b.1 b.2.1 b.2.2) data

/-- reading every stored block, in the order of the list (any order: see `readBox_hit`) -/
def readAll (g : Geo) (stored : List ((Int × Int × Int) × (Int → UInt8))) (data : Int → UInt8) : Int → UInt8 :=
  stored.foldl (fun acc e => readBlock g e.1 e.2 acc) data

structure GeoOK (g : Geo) : Prop where
  bpv : 0 < g.bpv
  nx : 0 < g.nx
  ny : 0 < g.ny
  nz : 0 < g.nz
  mx : 0 < g.mx

/-- a block that does not contain the voxel leaves its bytes in the request buffer alone -/
theorem readBlock_other (g : Geo) (ok : GeoOK g) (b : Int × Int × Int) (blk data : Int → UInt8)
    (x y z c : Int) (hreq : InReq g x y z) (hc : 0 ≤ c ∧ c < g.bpv)
    (hnot : ¬ InBlk g b.1 b.2.1 b.2.2 x y z) :
    readBlock g b blk data (dataIdx g x y z c) = data (dataIdx g x y z c) := by
  unfold readBlock
  apply readSegs_miss
  intro sg hsg hcov
  obtain ⟨x', y', z', c', hr', hb', hc0, hc1, hp, _⟩ := segs_vol_sound g ok.bpv _ _ _ sg hsg _ hcov
  obtain ⟨rfl, rfl, rfl, rfl⟩ := dataIdx_inj g ok.mx x y z c x' y' z' c' hreq hr' hc ⟨hc0, hc1⟩ hp
  exact hnot hb'

/-- the block that contains the voxel delivers the voxel's own bytes -/
theorem readBlock_own (g : Geo) (ok : GeoOK g) (b : Int × Int × Int) (blk data : Int → UInt8)
    (x y z c : Int) (hreq : InReq g x y z) (hc : 0 ≤ c ∧ c < g.bpv)
    (hin : InBlk g b.1 b.2.1 b.2.2 x y z) :
    readBlock g b blk data (dataIdx g x y z c) = blk (blockIdx g b.1 b.2.1 b.2.2 x y z c) := by
  unfold readBlock
  apply readSegs_hit
  · intro sg hsg hcov
    obtain ⟨x', y', z', c', hr', _, hc0, hc1, hp, hsrc⟩ := segs_vol_sound g ok.bpv _ _ _ sg hsg _ hcov
    obtain ⟨rfl, rfl, rfl, rfl⟩ := dataIdx_inj g ok.mx x y z c x' y' z' c' hreq hr' hc ⟨hc0, hc1⟩ hp
    rw [hsrc]
  · exact segs_vol_complete g ok.bpv _ _ _ x y z c hreq hin hc

/-- **unwritten voxels**: if no stored block contains the voxel, its bytes are what the buffer started with
    (the background prefill) -/
theorem readBox_miss (g : Geo) (ok : GeoOK g) (stored : List ((Int × Int × Int) × (Int → UInt8)))
    (data : Int → UInt8) (x y z c : Int) (hreq : InReq g x y z) (hc : 0 ≤ c ∧ c < g.bpv)
    (hnone : ∀ e ∈ stored, ¬ InBlk g e.1.1 e.1.2.1 e.1.2.2 x y z) :
    readAll g stored data (dataIdx g x y z c) = data (dataIdx g x y z c) := by
  induction stored generalizing data with
  | nil => rfl
  | cons e rest ih =>
    unfold readAll at *
    simp only [List.foldl_cons]
    rw [ih _ (fun e' he' => hnone e' (List.mem_cons_of_mem _ he'))]
    exact readBlock_other g ok e.1 e.2 data x y z c hreq hc (hnone e (List.mem_cons_self ..))

/-- **written voxels**: whatever the order in which the stored blocks are processed, every requested voxel that
    lies in a stored block reads as that block's bytes at the voxel's own offset -/
theorem readBox_hit (g : Geo) (ok : GeoOK g) (stored : List ((Int × Int × Int) × (Int → UInt8)))
    (hnodup : (stored.map (·.1)).Nodup) (data : Int → UInt8) (x y z c : Int) (hreq : InReq g x y z)
    (hc : 0 ≤ c ∧ c < g.bpv) (e : (Int × Int × Int) × (Int → UInt8)) (he : e ∈ stored)
    (hin : InBlk g e.1.1 e.1.2.1 e.1.2.2 x y z) :
    readAll g stored data (dataIdx g x y z c) = e.2 (blockIdx g e.1.1 e.1.2.1 e.1.2.2 x y z c) := by
  induction stored generalizing data with
  | nil => cases he
  | cons e0 rest ih =>
    simp only [List.map_cons, List.nodup_cons] at hnodup
    unfold readAll at *
    simp only [List.foldl_cons]
    rcases List.mem_cons.1 he with rfl | hrest
    · -- e is processed first; no later block contains the voxel
      have hothers : ∀ e' ∈ rest, ¬ InBlk g e'.1.1 e'.1.2.1 e'.1.2.2 x y z := by
        intro e' he' hin'
        have h1 := inBlock_unique ok.nx hin.hx hin'.hx
        have h2 := inBlock_unique ok.ny hin.hy hin'.hy
        have h3 := inBlock_unique ok.nz hin.hz hin'.hz
        have : e.1 = e'.1 := by
          rcases e with ⟨⟨a, b, c⟩, _⟩; rcases e' with ⟨⟨a', b', c'⟩, _⟩
          simp only at h1 h2 h3 ⊢; rw [h1, h2, h3]
        exact hnodup.1 (this ▸ List.mem_map_of_mem (f := (·.1)) he')
      have := readBox_miss g ok rest (readBlock g e.1 e.2 data) x y z c hreq hc hothers
      unfold readAll at this
      rw [this]
      exact readBlock_own g ok e.1 e.2 data x y z c hreq hc hin
    · exact ih hnodup.2 _ hrest

/-! ### the write direction and write-then-read -/

/-- the block-buffer index is injective on the voxels of the block -/
theorem blockIdx_inj (g : Geo) (bx by_ bz x y z c x' y' z' c' : Int)
    (h : InBlk g bx by_ bz x y z) (h' : InBlk g bx by_ bz x' y' z') (hc : 0 ≤ c ∧ c < g.bpv) (hc' : 0 ≤ c' ∧ c' < g.bpv)
    (e : blockIdx g bx by_ bz x y z c = blockIdx g bx by_ bz x' y' z' c') : x = x' ∧ y = y' ∧ z = z' ∧ c = c' := by
  unfold blockIdx at e
  have hx := h.hx; have hx' := h'.hx; have hy := h.hy; have hy' := h'.hy
  unfold InBlock at hx hx' hy hy'
  rw [Int.add_mul, Int.one_mul] at hx hx' hy hy'
  have := lin_inj hc hc' (i := x - bx * g.nx) (i' := x' - bx * g.nx) (j := y - by_ * g.ny) (j' := y' - by_ * g.ny)
    (by omega) (by omega) (by omega) (by omega) e
  omega

/-- `writeBlock`: the row segments copied from the request buffer into the block -/
def writeBlock (g : Geo) (b : Int × Int × Int) (data : Int → UInt8) (blk : Int → UInt8) : Int → UInt8 :=
  readSegs data ((segs .vol g b.1 b.2.1 b.2.2).map Seg.swap) blk

/-- after a write every voxel of request ∩ block holds, in the block, the bytes the request carried for it -/
theorem writeBlock_own (g : Geo) (ok : GeoOK g) (b : Int × Int × Int) (data blk : Int → UInt8)
    (x y z c : Int) (hreq : InReq g x y z) (hc : 0 ≤ c ∧ c < g.bpv) (hin : InBlk g b.1 b.2.1 b.2.2 x y z) :
    writeBlock g b data blk (blockIdx g b.1 b.2.1 b.2.2 x y z c) = data (dataIdx g x y z c) := by
  unfold writeBlock
  apply readSegs_hit
  · intro sg hsg hcov
    obtain ⟨sg0, hsg0, rfl⟩ := List.mem_map.1 hsg
    obtain ⟨x', y', z', c', _, hb', hc0, hc1, hq, hsrc⟩ := segs_vol_sound_blk g ok.bpv _ _ _ sg0 hsg0 _ hcov
    obtain ⟨rfl, rfl, rfl, rfl⟩ := blockIdx_inj g _ _ _ x y z c x' y' z' c' hin hb' hc ⟨hc0, hc1⟩ hq
    simp only [Seg.swap] at hsrc ⊢
    rw [hsrc]
  · obtain ⟨sg0, hsg0, hcov0⟩ := segs_vol_complete g ok.bpv _ _ _ x y z c hreq hin hc
    refine ⟨sg0.swap, List.mem_map_of_mem hsg0, ?_⟩
    obtain ⟨x', y', z', c', hr', _, hc0, hc1, hp, hbI⟩ := segs_vol_sound g ok.bpv _ _ _ sg0 hsg0 _ hcov0
    obtain ⟨rfl, rfl, rfl, rfl⟩ := dataIdx_inj g ok.mx x y z c x' y' z' c' hreq hr' hc ⟨hc0, hc1⟩ hp
    unfold Seg.covers at hcov0 ⊢
    simp only [Seg.swap]
    omega

/-- a write leaves the bytes of the block that belong to no requested voxel alone -/
theorem writeBlock_other (g : Geo) (ok : GeoOK g) (b : Int × Int × Int) (data blk : Int → UInt8) (q : Int)
    (hq : ∀ x y z c, InReq g x y z → InBlk g b.1 b.2.1 b.2.2 x y z → 0 ≤ c ∧ c < g.bpv → q ≠ blockIdx g b.1 b.2.1 b.2.2 x y z c) :
    writeBlock g b data blk q = blk q := by
  unfold writeBlock
  apply readSegs_miss
  intro sg hsg hcov
  obtain ⟨sg0, hsg0, rfl⟩ := List.mem_map.1 hsg
  obtain ⟨x, y, z, c, hr, hb, hc0, hc1, hqe, _⟩ := segs_vol_sound_blk g ok.bpv _ _ _ sg0 hsg0 _ hcov
  exact hq x y z c hr hb ⟨hc0, hc1⟩ hqe

/-- **what was written is what is read**: a voxel written through request `gw` into block `b` and later read
    through any request `gr` of the same instance (same voxel width and block size) comes back with the bytes
    it was written with — whatever the alignment of the read box, for negative coordinates as well -/
theorem write_then_read (gw gr : Geo) (okw : GeoOK gw) (okr : GeoOK gr)
    (hsame : gr.bpv = gw.bpv ∧ gr.nx = gw.nx ∧ gr.ny = gw.ny ∧ gr.nz = gw.nz)
    (b : Int × Int × Int) (wdata blk0 rdata : Int → UInt8) (x y z c : Int)
    (hw : InReq gw x y z) (hr : InReq gr x y z) (hc : 0 ≤ c ∧ c < gw.bpv) (hin : InBlk gw b.1 b.2.1 b.2.2 x y z) :
    readBlock gr b (writeBlock gw b wdata blk0) rdata (dataIdx gr x y z c) = wdata (dataIdx gw x y z c) := by
  obtain ⟨h1, h2, h3, h4⟩ := hsame
  have hin' : InBlk gr b.1 b.2.1 b.2.2 x y z := ⟨by rw [h2]; exact hin.hx, by rw [h3]; exact hin.hy, by rw [h4]; exact hin.hz⟩
  rw [readBlock_own gr okr b _ rdata x y z c hr (by rw [h1]; exact hc) hin']
  have e : blockIdx gr b.1 b.2.1 b.2.2 x y z c = blockIdx gw b.1 b.2.1 b.2.2 x y z c := by
    unfold blockIdx; rw [h1, h2, h3, h4]
  rw [e]
  exact writeBlock_own gw okw b wdata blk0 x y z c hw hc hin

/-- the 2-D slice shapes are the 3-D transfer of a one-voxel-thick box (when the block meets the slice) -/
theorem xy_is_thin_box (g : Geo) (bx by_ bz : Int) (hm : g.mz = 1) (hz : InBlock g.nz bz g.sz) :
    segs .xy g bx by_ bz = segs .vol g bx by_ bz := by
  have a := axis_complete (n := g.nz) (s := g.sz) (m := g.mz) (b := bz) (x := g.sz) (by omega) hz
  have s0 := axis_sound (n := g.nz) (s := g.sz) (m := g.mz) (b := bz) (i := (axisXfer g.nz g.sz g.mz bz).dataEnd) (by omega)
  have hb : (axisXfer g.nz g.sz g.mz bz).dataBeg = 0 := by
    have := axis_sound (n := g.nz) (s := g.sz) (m := g.mz) (b := bz) (i := (axisXfer g.nz g.sz g.mz bz).dataBeg) (by omega)
    omega
  have he : (axisXfer g.nz g.sz g.mz bz).dataEnd = 0 := by omega
  unfold segs
  simp only [Gen.ibReadVolRowCopies, Bool.not_true, Bool.false_eq_true, ↓reduceIte, hb, he]
  have : irange 0 0 = [0] := by decide
  simp [this]

theorem xz_is_thin_box (g : Geo) (bx by_ bz : Int) (hm : g.my = 1) (hy : InBlock g.ny by_ g.sy) :
    segs .xz g bx by_ bz = segs .vol g bx by_ bz := by
  have a := axis_complete (n := g.ny) (s := g.sy) (m := g.my) (b := by_) (x := g.sy) (by omega) hy
  have s0 := axis_sound (n := g.ny) (s := g.sy) (m := g.my) (b := by_) (i := (axisXfer g.ny g.sy g.my by_).dataEnd) (by omega)
  have hb : (axisXfer g.ny g.sy g.my by_).dataBeg = 0 := by
    have := axis_sound (n := g.ny) (s := g.sy) (m := g.my) (b := by_) (i := (axisXfer g.ny g.sy g.my by_).dataBeg) (by omega)
    omega
  have he : (axisXfer g.ny g.sy g.my by_).dataEnd = 0 := by omega
  unfold segs
  have : irange 0 0 = [0] := by decide
  simp only [Gen.ibReadVolRowCopies, Bool.not_true, Bool.false_eq_true, ↓reduceIte, hb, he, this, List.map_cons, List.map_nil]
  rw [hm]
  simp [List.map_eq_flatMap]

theorem yz_is_thin_box (g : Geo) (bx by_ bz : Int) (hm : g.mx = 1) (hx : InBlock g.nx bx g.sx) :
    segs .yz g bx by_ bz = segs .vol g bx by_ bz := by
  have a := axis_complete (n := g.nx) (s := g.sx) (m := g.mx) (b := bx) (x := g.sx) (by omega) hx
  have s0 := axis_sound (n := g.nx) (s := g.sx) (m := g.mx) (b := bx) (i := (axisXfer g.nx g.sx g.mx bx).dataEnd) (by omega)
  have hb : (axisXfer g.nx g.sx g.mx bx).dataBeg = 0 := by
    have := axis_sound (n := g.nx) (s := g.sx) (m := g.mx) (b := bx) (i := (axisXfer g.nx g.sx g.mx bx).dataBeg) (by omega)
    omega
  have he : (axisXfer g.nx g.sx g.mx bx).dataEnd = 0 := by omega
  unfold segs
  simp only [Gen.ibReadVolRowCopies, Bool.not_true, Bool.false_eq_true, ↓reduceIte, hb, he]
  rw [hm]
  simp

/-- the advertised extent covers every write that was made through either write path -/
theorem extents_cover (ws : List Write) (w : Write) (hw : w ∈ ws) :
    ∃ a b, advertised ws = some (a, b) ∧ a ≤ w.lo ∧ w.hi ≤ b := by
  have hposts : ∀ k, postsExtents k = true := by intro k; cases k <;> rfl
  -- invariant of the fold: once covered, always covered; the step for `w` itself covers it
  have step : ∀ (e : Option (Int × Int)) (v : Write), ∃ a b, adjust e v.lo v.hi = some (a, b) ∧ a ≤ v.lo ∧ v.hi ≤ b ∧
      (∀ a0 b0, e = some (a0, b0) → a ≤ a0 ∧ b0 ≤ b) := by
    intro e v
    unfold adjust
    simp only [Gen.ibExtentsOnlyGrow, Bool.not_true, Bool.false_eq_true, ↓reduceIte]
    cases e with
    | none => exact ⟨v.lo, v.hi, rfl, by omega, by omega, by intro _ _ h; cases h⟩
    | some p =>
      obtain ⟨a0, b0⟩ := p
      refine ⟨min a0 v.lo, max b0 v.hi, rfl, by omega, by omega, ?_⟩
      intro a1 b1 h; cases h; omega
  have key : ∀ (l : List Write) (e : Option (Int × Int)),
      ((∃ a b, e = some (a, b) ∧ a ≤ w.lo ∧ w.hi ≤ b) ∨ w ∈ l) →
      ∃ a b, l.foldl (fun e w => adjust e w.lo w.hi) e = some (a, b) ∧ a ≤ w.lo ∧ w.hi ≤ b := by
    intro l
    induction l with
    | nil =>
      intro e h
      rcases h with h | h
      · exact h
      · cases h
    | cons v l ih =>
      intro e h
      simp only [List.foldl_cons]
      apply ih
      obtain ⟨a, b, hab, hlo, hhi, hmono⟩ := step e v
      rcases h with ⟨a0, b0, he, h1, h2⟩ | h
      · left
        have := hmono a0 b0 he
        exact ⟨a, b, hab, by omega, by omega⟩
      · rcases List.mem_cons.1 h with rfl | h
        · left; exact ⟨a, b, hab, hlo, hhi⟩
        · right; exact h
  have hfold : advertised ws = ws.foldl (fun e w => adjust e w.lo w.hi) none := by
    unfold advertised
    simp only [hposts, ↓reduceIte]
  rw [hfold]
  exact key ws none (Or.inr hw)

example : advertised [⟨.raw, 0, 15⟩, ⟨.blocks, -32, -17⟩, ⟨.raw, 16, 47⟩] = some (-32, 47) := by decide

/-- `POST blocks` consumes whole blocks of every voxel width, and an unwritten 1-byte voxel reads as the
    instance's background value -/
theorem posted_block_is_whole (vox bpv : Int) : postedBlockBytes vox bpv = vox * bpv := by
  unfold postedBlockBytes; simp [Gen.ibPutBlocksWholeBlocks]

theorem unwritten_reads_background (bg : UInt8) : initByte bg = bg := by
  unfold initByte; simp [Gen.ibReadPrefillsBackground]

end Dvid.Props.C17
