import DvidModel.Model.Serialize
import DvidModel.Lemmas.Crc32
/-
  C15 — The serialization envelope round-trips and detects corruption.
  Compression libraries are parameters with their round-trip behaviour as hypotheses (`Lossless`);
  CRC-32 is modelled bit-exactly and tied to hash/crc32 by the correspondence harness.
-/
namespace Dvid.Props.C15
open Dvid Dvid.Serialize Dvid.Crc32

/-- what is assumed of the libraries: decompress ∘ compress = id, and compressing a non-empty input gives
    a non-empty output (snappy emits at least the length varint, gzip at least its header) -/
structure Lossless (cd : Codecs) : Prop where
  snappy : ∀ x, cd.snappyDec (cd.snappyEnc x) = some x
  snappyNe : ∀ x, x ≠ [] → cd.snappyEnc x ≠ []
  lz4 : ∀ x, cd.lz4Dec (cd.lz4Enc x) x.length = some x
  gzip : ∀ lvl x, cd.gzipDec (cd.gzipEnc lvl x) = some x
  gzipNe : ∀ lvl x, x ≠ [] → cd.gzipEnc lvl x ≠ []

/-- the lossless formats: none, snappy, gzip, lz4 -/
def LosslessFormat (f : Nat) : Prop :=
  f = Gen.compUncompressed ∨ f = Gen.compSnappy ∨ f = Gen.compGzip ∨ f = Gen.compLZ4

/-- format byte: all 8 compression codes × 4 checksum codes survive encode/decode -/
theorem format_roundtrip : ∀ f : Fin 8, ∀ c : Fin 4, decodeFormat (encodeFormat f.val c.val) = (f.val, c.val) := by
  decide

theorem format_roundtrip_nat (f c : Nat) (hf : f < 8) (hc : c < 4) : decodeFormat (encodeFormat f c) = (f, c) :=
  format_roundtrip ⟨f, hf⟩ ⟨c, hc⟩

theorem fromLe32_le32 (n : Nat) (h : n < 4294967296) (r : Bytes) : fromLe32 (le32 n ++ r) = n := by
  simp [fromLe32, le32]; omega

/-- the envelope written by `SerializePrecompressedData` for a non-empty (compressed) payload -/
def envelope (f c : Nat) (cdata : Bytes) : Bytes :=
  encodeFormat f c :: ((if c = Gen.cksumCRC32 then (crc32 cdata).le else []) ++ cdata)

theorem precompressed_eq (cdata : Bytes) (f c : Nat) (hne : cdata ≠ []) (hc : c = 0 ∨ c = 1) :
    serializePrecompressed cdata f c = some (envelope f (if f = Gen.compGzip then 0 else c) cdata) := by
  have : cdata.isEmpty = false := by cases cdata <;> simp_all
  unfold serializePrecompressed envelope
  simp only [this]
  by_cases hg : f = Gen.compGzip
  · simp [hg, Gen.cksumNone, Gen.cksumCRC32]
  · rcases hc with h | h <;> subst h <;> simp [hg, Gen.cksumNone, Gen.cksumCRC32]

/-- reading an envelope back: the header and checksum are consumed and verified, the compressed payload
    reaches the decompression switch unchanged -/
theorem deser_envelope (cd : Codecs) (f c : Nat) (hf : f < 8) (hc : c = 0 ∨ c = 1) (cdata : Bytes) (u : Bool) :
    deserializeData cd (envelope f c cdata) u = decompressStage cd f cdata u := by
  have hc4 : c < 4 := by rcases hc with h | h <;> omega
  unfold deserializeData envelope
  simp only [format_roundtrip_nat f c hf hc4]
  rcases hc with h | h <;> subst h
  · simp [checkedBody, Gen.cksumNone, Gen.cksumCRC32]
  · have hl : ¬ (cdata.length + 1 + 1 + 1 + 1 < 4) := by omega
    simp [checkedBody, Gen.cksumNone, Gen.cksumCRC32, W.le, hl]

/-- **Round trip.**  Any non-empty byte string (shorter than 4 GiB: the LZ4 length prefix is a uint32)
    serialised with any lossless compression and checksum setting deserialises to the identical bytes and
    reports the format it was written with. -/
theorem deser_ser (cd : Codecs) (hcd : Lossless cd) (data : Bytes) (f lvl c : Nat)
    (hf : LosslessFormat f) (hc : c = 0 ∨ c = 1) (hne : data ≠ []) (hlen : data.length < 4294967296) :
    ∃ s, serializeData cd data f lvl c = some s ∧ deserializeData cd s true = .ok data f := by
  have hemp : data.isEmpty = false := by cases data <;> simp_all
  have hmod : data.length % 4294967296 = data.length := Nat.mod_eq_of_lt hlen
  have hpos : data.length ≠ 0 := by cases data <;> simp_all
  have hc' : ∀ g : Nat, ((if g = Gen.compGzip then 0 else c) = 0 ∨ (if g = Gen.compGzip then 0 else c) = 1) := by
    intro g; by_cases h : g = Gen.compGzip <;> simp [h, hc]
  unfold serializeData
  simp only [hemp]
  rcases hf with h | h | h | h <;> subst h
  · -- uncompressed
    refine ⟨_, by simp [compress, Gen.compUncompressed]; exact precompressed_eq data _ c hne hc, ?_⟩
    rw [deser_envelope cd _ _ (by decide) (hc' _)]
    simp [decompressStage, Gen.compUncompressed]
  · -- snappy
    refine ⟨_, by simp [compress, Gen.compUncompressed, Gen.compSnappy]; exact precompressed_eq _ _ c (hcd.snappyNe data hne) hc, ?_⟩
    rw [deser_envelope cd _ _ (by decide) (hc' _)]
    simp [decompressStage, Gen.compUncompressed, Gen.compSnappy, hcd.snappy]
  · -- gzip
    refine ⟨_, by simp [compress, Gen.compUncompressed, Gen.compSnappy, Gen.compLZ4, Gen.compGzip]; exact precompressed_eq _ _ c (hcd.gzipNe lvl data hne) hc, ?_⟩
    rw [deser_envelope cd _ _ (by decide) (hc' _)]
    simp [decompressStage, Gen.compUncompressed, Gen.compSnappy, Gen.compLZ4, Gen.compGzip, Gen.compJPEG, hcd.gzip]
  · -- lz4
    have hne' : le32 (data.length % 4294967296) ++ cd.lz4Enc data ≠ [] := by simp [le32]
    refine ⟨_, by simp [compress, Gen.compUncompressed, Gen.compSnappy, Gen.compLZ4]; exact precompressed_eq _ _ c hne' hc, ?_⟩
    rw [deser_envelope cd _ _ (by decide) (hc' _)]
    have hdrop : (le32 data.length ++ cd.lz4Enc data).drop 4 = cd.lz4Enc data := by simp [le32]
    simp [decompressStage, Gen.compUncompressed, Gen.compSnappy, Gen.compLZ4, hmod, fromLe32_le32 _ hlen, hpos, hdrop, hcd.lz4]
    intro h; simp [le32] at h; omega

/-- Without decompression requested the stored (compressed) bytes come back unchanged with their format. -/
theorem deser_ser_raw (cd : Codecs) (cdata : Bytes) (f c : Nat) (hf : f < 8) (hc : c = 0 ∨ c = 1) (hne : cdata ≠ []) :
    ∃ s, serializePrecompressed cdata f c = some s ∧ deserializeData cd s false = .ok cdata f := by
  have hc' : ((if f = Gen.compGzip then 0 else c) = 0 ∨ (if f = Gen.compGzip then 0 else c) = 1) := by
    by_cases h : f = Gen.compGzip <;> simp [h, hc]
  refine ⟨_, precompressed_eq cdata f c hne hc, ?_⟩
  rw [deser_envelope cd f _ hf hc']
  simp [decompressStage]

/-- The empty value: serialises to the empty string, which deserialises to the empty value. -/
theorem empty_roundtrip (cd : Codecs) (f lvl c : Nat) (u : Bool) :
    serializeData cd [] f lvl c = some [] ∧ deserializeData cd [] u = .ok [] Gen.compUncompressed := by
  simp [serializeData, deserializeData, Gen.serializeEmptyShortCircuit]

/-- **Corruption is detected** (the provable core: a 32-bit checksum cannot detect *every* alteration —
    pigeonhole — so the statement is for alterations confined to one byte, which covers every single-bit
    and single-byte corruption of the payload): with CRC-32 enabled, a stored value whose payload differs
    from what was written in exactly one byte is rejected with an error, never returned as data. -/
theorem single_byte_corruption_rejected (cd : Codecs) (f : Nat) (hf : f < 8) (p s : Bytes) (a b : UInt8)
    (hab : a ≠ b) (u : Bool) :
    deserializeData cd (encodeFormat f 1 :: ((crc32 (p ++ a :: s)).le ++ (p ++ b :: s))) u = .err := by
  unfold deserializeData
  simp only [format_roundtrip_nat f 1 hf (by decide)]
  have hne : (crc32 (p ++ b :: s)).le ≠ (crc32 (p ++ a :: s)).le := by
    intro h; exact crc32_single_byte p s a b hab (le_injective h).symm
  have hl : ((crc32 (p ++ a :: s)).le ++ (p ++ b :: s)).length ≥ 4 := by simp [W.le]
  have hd : ((crc32 (p ++ a :: s)).le ++ (p ++ b :: s)).drop 4 = p ++ b :: s := by simp [W.le]
  have ht : ((crc32 (p ++ a :: s)).le ++ (p ++ b :: s)).take 4 = (crc32 (p ++ a :: s)).le := by simp [W.le]
  simp only [checkedBody, Gen.cksumNone, Gen.cksumCRC32, Gen.crcVerifiedOnRead]
  have hl' : ¬ ((crc32 (p ++ a :: s)).le ++ (p ++ b :: s)).length < 4 := by omega
  simp [hd, ht, hne]

/-- A checksum that is itself damaged (payload intact) is rejected as well. -/
theorem wrong_checksum_rejected (cd : Codecs) (f : Nat) (hf : f < 8) (cdata crc : Bytes) (hlen : crc.length = 4)
    (hne : crc ≠ (crc32 cdata).le) (u : Bool) :
    deserializeData cd (encodeFormat f 1 :: (crc ++ cdata)) u = .err := by
  unfold deserializeData
  simp only [format_roundtrip_nat f 1 hf (by decide)]
  have hd : (crc ++ cdata).drop 4 = cdata := by rw [← hlen]; simp
  have ht : (crc ++ cdata).take 4 = crc := by rw [← hlen]; simp
  have hl' : ¬ (crc ++ cdata).length < 4 := by simp; omega
  simp only [checkedBody, Gen.cksumNone, Gen.cksumCRC32, Gen.crcVerifiedOnRead]
  simp [hd, ht, Ne.symm hne]

/-- **No input makes deserialisation crash**: for every byte string, every behaviour of the libraries and
    either setting of `uncompress`, the outcome is data or an error, never a run-time panic.  (Holds only
    because the source checks the LZ4 length prefix and the JPEG image type: `Gen.lz4LenChecked`,
    `Gen.jpegGrayChecked` are regenerated from dvid/serialize.go.) -/
theorem deser_total (cd : Codecs) (s : Bytes) (u : Bool) : deserializeData cd s u ≠ .panic := by
  unfold deserializeData
  cases s with
  | nil => simp
  | cons f rest =>
    simp only
    cases checkedBody (decodeFormat f).2 rest with
    | none => simp
    | some cdata =>
      simp only
      unfold decompressStage
      simp only [Gen.lz4LenChecked, Gen.jpegGrayChecked]
      repeat' split
      all_goals simp_all

/- Non-vacuity: the identity codecs satisfy `Lossless`; the hypotheses of `deser_ser` are met. -/
def idCodecs : Codecs :=
  { snappyEnc := id, snappyDec := some, lz4Enc := id, lz4Dec := fun x _ => some x,
    gzipEnc := fun _ x => x, gzipDec := some, jpegDec := fun _ => none }
example : Lossless idCodecs := ⟨fun _ => rfl, fun _ h => h, fun _ => rfl, fun _ _ => rfl, fun _ _ h => h⟩
example : deserializeData idCodecs ((serializeData idCodecs [1, 2, 3] 4 0 1).getD []) true = .ok [1, 2, 3] 4 := by
  decide +kernel

end Dvid.Props.C15
