import DvidModel.Lemmas.BlockOps
/-
  C10 — Operations on compressed label blocks equal the voxel-wise reference.
  Proved here for every well-formed block (`wfBlock`, which the driver evaluates on every block the harness
  feeds it): the table-level edits `ReplaceLabels` and `ReplaceLabel` decode to the voxel-wise relabelling of
  the decoded array whatever aliasing the table has; `getNumVoxels` is the number of voxels encoded through a
  table slot, including sub-blocks that list the slot several times or not at all; the 2x2x2 down-sampling
  vote does not depend on the order in which Go iterates its vote map and is the most frequent non-zero label
  with ties to the smaller label.  `MergeLabels`, the RLE splits and the octant assembly of `Downres` are
  decided by the correspondence harness against a voxel-wise reference (DESIGN.md §4 C10).
-/
namespace Dvid.Props.C10
open Dvid Dvid.Block Dvid.Props.C09

/-- `ReplaceLabels` decodes to the voxel-wise replacement: simultaneous (no chaining), label 0 included,
    duplicates in the table allowed -/
theorem replaceLabels_decode (m : Nat → Option Nat) (b : Block) (h : wfBlock b = true) :
    decode (replaceLabels m b) = (decode b).map fun l => (m l).getD l :=
  decode_map b (replaceLabels m b) _ ⟨rfl, rfl, rfl⟩ (fun x y z hx hy hz => voxLabel_relabel b _ h x y z hx hy hz)

/-- `ReplaceLabel` decodes to the voxel-wise replacement of one label -/
theorem replaceLabel_decode (b : Block) (target newLabel : Nat) (h : wfBlock b = true) :
    decode (replaceLabel b target newLabel).1 = (decode b).map fun l => if l = target then newLabel else l :=
  decode_map b (replaceLabel b target newLabel).1 _ ⟨rfl, rfl, rfl⟩ (fun x y z hx hy hz => voxLabel_relabel b _ h x y z hx hy hz)

/-- `getNumVoxels` for a table slot is the number of voxels encoded through that slot -/
theorem getNumVoxels_eq_slotCount (b : Block) (h2 : 2 ≤ b.labels.size) (h : wf b = true) (t : Nat) :
    getNumVoxels b t = slotCount b t := by
  unfold getNumVoxels slotCount
  have h0 : ¬ b.labels.size = 0 := by omega
  have h1 : ¬ b.labels.size = 1 := by omega
  simp only [h0, h1, ↓reduceIte]
  rw [numVox_fold b t b.numSB.toList (0, 0) 0 (fun pre' n rest he => wf_SBok b h pre' n rest he)]
  simp

/-- the count `ReplaceLabel` reports is the number of voxels encoded through the table slots holding the target -/
theorem replaceLabel_size (b : Block) (target newLabel : Nat) (h2 : 2 ≤ b.labels.size) (h : wf b = true) :
    (replaceLabel b target newLabel).2 =
      ((List.range b.labels.size).filter fun i => b.labels.getD i 0 == target).foldl (fun acc i => acc + slotCount b i) 0 := by
  unfold replaceLabel
  simp only [getNumVoxels_eq_slotCount b h2 h]

/-- the winner does not depend on the order in which the vote map is iterated -/
theorem pickWinner_perm (m m' : List (Nat × Nat)) (h : m'.Perm m) : pickWinner m' = pickWinner m := by
  rw [pickWinner_eq, pickWinner_eq]
  obtain ⟨hm1, hw1, ha1⟩ := fold_better m (0, 0)
  obtain ⟨hm2, hw2, ha2⟩ := fold_better m' (0, 0)
  have b12 : Beats (m.foldl better (0, 0)) (m'.foldl better (0, 0)) := by
    rcases hm2 with h2 | h2
    · rw [h2]; exact hw1
    · exact ha1 _ (h.mem_iff.1 h2)
  have b21 : Beats (m'.foldl better (0, 0)) (m.foldl better (0, 0)) := by
    rcases hm1 with h1 | h1
    · rw [h1]; exact hw2
    · exact ha2 _ (h.mem_iff.2 h1)
  unfold Beats at b12 b21
  apply Prod.ext <;> omega

/-- the winner has the most votes, and among those with as many votes the smallest label -/
theorem pickWinner_max (m : List (Nat × Nat)) :
    (pickWinner m = (0, 0) ∨ pickWinner m ∈ m) ∧ ∀ p ∈ m, Beats (pickWinner m) p := by
  obtain ⟨hm, _, ha⟩ := fold_better m (0, 0)
  exact ⟨hm, ha⟩

/-- whatever order Go's `range votemap` takes, the vote is the model's -/
theorem vote_any_iteration_order (ls : List Nat) (m' : List (Nat × Nat)) (h : m'.Perm (tally ls)) :
    (pickWinner m').1 = vote ls := by
  unfold vote; rw [pickWinner_perm _ _ h]

/-- the 2x2x2 vote: 0 iff no non-zero label; otherwise a label of the input with the most occurrences among
    non-zero labels, the smallest such label on ties -/
theorem vote_spec (ls : List Nat) :
    (vote ls = 0 ∧ ∀ l ∈ ls, l = 0) ∨
    (vote ls ≠ 0 ∧ vote ls ∈ ls ∧ ∀ l ∈ ls, l ≠ 0 →
      ls.count l < ls.count (vote ls) ∨ (ls.count l = ls.count (vote ls) ∧ vote ls ≤ l)) := by
  have inv := tally_inv ls
  obtain ⟨hm, hall⟩ := pickWinner_max (tally ls)
  unfold vote
  rcases hm with h0 | hmem
  · left
    refine ⟨by rw [h0], ?_⟩
    intro l hl
    by_cases hl0 : l = 0
    · exact hl0
    · obtain ⟨p, hp, hpl⟩ := List.mem_map.1 (inv.complete l hl hl0)
      have := hall p hp
      have := (inv.entries p hp).2.2
      rw [h0] at *
      unfold Beats at *; simp at *; omega
  · right
    obtain ⟨a, b, c⟩ := inv.entries _ hmem
    refine ⟨a, ?_, ?_⟩
    · have : 0 < ls.count (pickWinner (tally ls)).1 := by omega
      exact List.count_pos_iff.1 this
    · intro l hl hl0
      obtain ⟨p, hp, hpl⟩ := List.mem_map.1 (inv.complete l hl hl0)
      have hb := hall p hp
      obtain ⟨_, b', _⟩ := inv.entries p hp
      unfold Beats at hb
      rw [← hpl, ← b', ← b]
      omega

/-- premises satisfiable / concrete values -/
example : vote [3, 0, 7, 7, 3, 0, 0, 9] = 3 ∧ vote [0, 0, 0, 0, 0, 0, 0, 0] = 0 ∧ vote [5, 5, 5, 2, 2, 2, 2, 0] = 2 := by decide
example : wfBlock demo = true ∧ getNumVoxels demo 2 = 256 ∧ getNumVoxels demo 0 = 256 ∧ getNumVoxels demo 1 = 512 := by decide +kernel

end Dvid.Props.C10
