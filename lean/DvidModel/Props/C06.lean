import DvidModel.Lemmas.Key
import DvidModel.Props.C12
/-
  C06 — Storage keys isolate data instances, data and versions.
  Property theorems only.  All ids range over the full 32-bit space (`U32 n := n < 2^32`, including 0
  and max); tkeys are arbitrary byte strings.  The key builders are the layouts regenerated from
  storage/context.go (Gen.Keys), so these theorems are re-checked against the current source.
-/
namespace Dvid.Props.C06
open Dvid Dvid.Key

/-- the id encodings the model's `be32` stands for are still big-endian 4-byte encodings in the source
    (regenerated facts from dvid/data.go) -/
theorem id_encodings_big_endian :
    Gen.instanceIDBigEndian = true ∧ Gen.versionIDBigEndian = true ∧ Gen.clientIDBigEndian = true ∧
    Gen.instanceIDSize = 4 ∧ Gen.versionIDSize = 4 ∧ Gen.clientIDSize = 4 := by decide

/-- All components are recovered from any data/tombstone key. -/
theorem parse_construct (i v c : Nat) (tk : Bytes) (tomb : Bool) (hi : U32 i) (hv : U32 v) (hc : U32 c) :
    tkeyFromKey (dataKey i v c tk tomb) = some tk ∧
    dataKeyToLocalIDs (dataKey i v c tk tomb) = some (i, v, c) ∧
    versionFromKey (dataKey i v c tk tomb) = some v ∧
    isTombstone (dataKey i v c tk tomb) = tomb ∧
    isDataKey (dataKey i v c tk tomb) = true := by
  have hlen := dataKey_length i v c tk tomb
  have hparts := dataKey_parts i v c tk tomb
  have hT : (be32 v ++ (be32 c ++ [if tomb then 79 else 3]) : Bytes).length = 9 := by simp
  have hP : ([1] ++ be32 i : Bytes).length = 5 := by simp
  have hhead : (dataKey i v c tk tomb).head? = some 1 := by rw [dataKey_eq]; simp
  have htrail := slice_trailer ([1] ++ be32 i) tk _ hT
  rw [← hparts] at htrail
  refine ⟨?_, ?_, ?_, ?_, ?_⟩
  · unfold tkeyFromKey
    simp only [hhead, trailerLen, Gen.instanceIDSize, Gen.versionIDSize, Gen.clientIDSize, Gen.dataKeyPrefix]
    have := slice_mid ([1] ++ be32 i) tk _ hP hT
    rw [← hparts] at this
    have hn : ¬ (dataKey i v c tk tomb).length < 1 + 4 + (4 + 4 + 1) := by omega
    simp [hn, this]
  · unfold dataKeyToLocalIDs
    simp only [hhead, trailerLen, Gen.instanceIDSize, Gen.versionIDSize, Gen.clientIDSize, Gen.dataKeyPrefix]
    have e1 : (dataKey i v c tk tomb).drop 1 = be32 i ++ (tk ++ (be32 v ++ (be32 c ++ [if tomb then 79 else 3]))) := by
      rw [hparts]; simp
    have e3 := slice_trailer4 ([1] ++ be32 i) tk (be32 v) (be32 c ++ [if tomb then 79 else 3]) (by simp) (by simp)
    rw [← hparts] at e3
    have hle : 1 + 4 + (4 + 4 + 1) ≤ (dataKey i v c tk tomb).length := by omega
    rw [e1, htrail, e3, fromBe32_be32_append i hi, fromBe32_be32_append v hv, fromBe32_be32_append c hc]
    simp [hle]
  · unfold versionFromKey
    simp only [hhead, trailerLen, Gen.instanceIDSize, Gen.versionIDSize, Gen.clientIDSize, Gen.dataKeyPrefix]
    have hle : 4 + 4 + 4 + 2 ≤ (dataKey i v c tk tomb).length := by omega
    rw [htrail, fromBe32_be32_append v hv]
    simp [hle]
  · unfold isTombstone
    rw [dataKey_eq, List.getLast?_concat]
    cases tomb <;> simp [Gen.markTombstone]
  · unfold isDataKey
    simp only [hlen, hhead, Gen.isDataKeyMinLen, Gen.dataKeyPrefix]
    simp

/-- Distinct (instance, datum key, version, client, marker) tuples never share a storage key. -/
theorem construct_injective (i v c i' v' c' : Nat) (tk tk' : Bytes) (m m' : Bool)
    (hi : U32 i) (hv : U32 v) (hc : U32 c) (hi' : U32 i') (hv' : U32 v') (hc' : U32 c')
    (h : dataKey i v c tk m = dataKey i' v' c' tk' m') :
    i = i' ∧ tk = tk' ∧ v = v' ∧ c = c' ∧ m = m' := by
  have p := parse_construct i v c tk m hi hv hc
  have p' := parse_construct i' v' c' tk' m' hi' hv' hc'
  rw [h] at p
  obtain ⟨a1, a2, _, a4, _⟩ := p
  obtain ⟨b1, b2, _, b4, _⟩ := p'
  have e1 : tk = tk' := by rw [a1] at b1; exact (Option.some.inj b1)
  have e2 : (i, v, c) = (i', v', c') := by rw [a2] at b2; exact Option.some.inj b2
  have e4 : m = m' := by rw [a4] at b4; exact b4
  simp only [Prod.mk.injEq] at e2
  exact ⟨e2.1, e1, e2.2.1, e2.2.2, e4⟩

/-- marker byte order: data (0x03) sorts before tombstone (0x4F) -/
def markOrd (m m' : Bool) : Ordering := if m = m' then .eq else if m' then .lt else .gt

/-- Keys sort by instance first … -/
theorem compare_instance (i v c i' v' c' : Nat) (tk tk' : Bytes) (m m' : Bool)
    (hi : U32 i) (hi' : U32 i') (hne : i ≠ i') :
    cmpBytes (dataKey i v c tk m) (dataKey i' v' c' tk' m') = if i < i' then .lt else .gt := by
  rw [dataKey_eq, dataKey_eq]
  simp only [List.append_assoc, cmpBytes_append_left]
  rw [cmpBytes_be32 i i' hi hi']
  by_cases h : i < i'
  · simp [h]
  · have : i' < i := by omega
    simp [h, this]

/-- … then by datum key, whenever the two datum keys are not prefix-related (the documented TKey rule:
    identical length or no shared prefix) … -/
theorem compare_tkey (i v c v' c' : Nat) (tk tk' : Bytes) (m m' : Bool) (hp : NoPrefix tk tk') :
    cmpBytes (dataKey i v c tk m) (dataKey i v' c' tk' m') = cmpBytes tk tk' ∧ cmpBytes tk tk' ≠ .eq := by
  rw [dataKey_eq, dataKey_eq]
  simp only [List.append_assoc, cmpBytes_append_left]
  exact cmpBytes_append_noPrefix hp _ _

/-- … then by version, then client, then marker. -/
theorem compare_version (i v c v' c' : Nat) (tk : Bytes) (m m' : Bool)
    (hv : U32 v) (hc : U32 c) (hv' : U32 v') (hc' : U32 c') :
    cmpBytes (dataKey i v c tk m) (dataKey i v' c' tk m') =
      if v < v' then .lt else if v' < v then .gt else
      if c < c' then .lt else if c' < c then .gt else markOrd m m' := by
  rw [dataKey_eq, dataKey_eq]
  simp only [List.append_assoc, cmpBytes_append_left]
  rw [cmpBytes_be32 v v' hv hv', cmpBytes_be32 c c' hc hc']
  cases m <;> cases m' <;> simp [markOrd, cmpBytes] <;> decide

/-- The prefix-free hypothesis of `compare_tkey` is necessary: when one datum key is a proper prefix of
    another the byte order interleaves their versions (here datum `[7]` v=0x08000000 sorts *after*
    datum `[7,8]` v=0, although `[7] < [7,8]`). -/
theorem compare_tkey_prefix_counterexample :
    cmpBytes [7] [7, 8] = .lt ∧
    cmpBytes (dataKey 1 0x09000000 0 [7] false) (dataKey 1 0 0 [7, 8] false) = .gt := by
  decide

/-- All versions of one datum lie inside `[MinVersionKey, MaxVersionKey]` … -/
theorem versions_in_bracket (i v c : Nat) (tk : Bytes) (m : Bool) (hv : U32 v) (hc : U32 c) :
    bytesLE (minVersionKey i tk) (dataKey i v c tk m) = true ∧
    bytesLE (dataKey i v c tk m) (maxVersionKey i tk) = true := by
  rw [dataKey_eq, minVersionKey_eq, maxVersionKey_eq]
  simp only [bytesLE, List.append_assoc, cmpBytes_append_left]
  rw [cmpBytes_be32 0 v (by decide) hv, cmpBytes_be32 0 c (by decide) hc,
      cmpBytes_be32 v 4294967295 hv (by decide), cmpBytes_be32 c 4294967295 hc (by decide)]
  constructor
  · by_cases h0 : 0 < v
    · simp [h0]
    · have : v = 0 := by omega
      subst this
      by_cases h1 : 0 < c
      · simp [h1]
      · have : c = 0 := by omega
        subst this
        cases m <;> simp [cmpBytes] <;> decide
  · by_cases h0 : v < 4294967295
    · simp [h0]
    · have : v = 4294967295 := by unfold U32 at hv; omega
      subst this
      by_cases h1 : c < 4294967295
      · simp [h1]
      · have : c = 4294967295 := by unfold U32 at hc; omega
        subst this
        cases m <;> simp [cmpBytes] <;> decide

/-- … and the bracket of one datum contains no key of another instance, nor of another datum key that is
    not prefix-related to it: versions of one datum are contiguous. -/
theorem versions_contiguous (i i' v' c' : Nat) (tk tk' : Bytes) (m' : Bool)
    (hi : U32 i) (hi' : U32 i')
    (hp : tk = tk' ∨ NoPrefix tk tk')
    (hlo : bytesLE (minVersionKey i tk) (dataKey i' v' c' tk' m') = true)
    (hhi : bytesLE (dataKey i' v' c' tk' m') (maxVersionKey i tk) = true) :
    i' = i ∧ tk' = tk := by
  rw [dataKey_eq, minVersionKey_eq] at hlo
  rw [dataKey_eq, maxVersionKey_eq] at hhi
  simp only [bytesLE, List.append_assoc, cmpBytes_append_left] at hlo hhi
  rw [cmpBytes_be32 i i' hi hi'] at hlo
  rw [cmpBytes_be32 i' i hi' hi] at hhi
  have hii : i' = i := by
    by_cases h1 : i < i'
    · have : ¬ i' < i := by omega
      simp [h1, this] at hhi
    · by_cases h2 : i' < i
      · simp [h1, h2] at hlo
      · omega
  subst hii
  refine ⟨rfl, ?_⟩
  rcases hp with h | h
  · exact h.symm
  · exfalso
    simp only [Nat.lt_irrefl, if_false] at hlo hhi
    have a := cmpBytes_append_noPrefix h (be32 0 ++ (be32 0 ++ [0])) (be32 v' ++ (be32 c' ++ [if m' then 79 else 3]))
    have b := cmpBytes_append_noPrefix (a := tk') (b := tk) ⟨h.2, h.1⟩
      (be32 v' ++ (be32 c' ++ [if m' then 79 else 3])) (be32 4294967295 ++ (be32 4294967295 ++ [255]))
    rw [a.1] at hlo
    rw [b.1, cmpBytes_swap tk tk'] at hhi
    cases hc : cmpBytes tk tk' <;> simp_all [Ordering.swap]

/-- Scans over one instance never meet another's entries: for `i < 2^32 - 1` every key of instance `i`
    lies in `[min, max)` of `DataInstanceKeyRange(i)` / `KeyRange()`, and no key of another instance does. -/
theorem instance_range_exact (i i' v c : Nat) (tk : Bytes) (m : Bool) (hi : i < 4294967295) (hi' : U32 i') :
    (bytesLE (instanceRangeMin i) (dataKey i' v c tk m) = true ∧
     bytesLT (dataKey i' v c tk m) (instanceRangeMax i) = true) ↔ i' = i := by
  rw [dataKey_eq, instanceRangeMin_eq, instanceRangeMax_eq]
  have hs : u32succ i = i + 1 := by unfold u32succ; omega
  rw [hs]
  simp only [bytesLE, bytesLT, List.append_assoc, cmpBytes_append_left]
  have e1 := cmpBytes_be32 i i' (by omega) hi' [] (tk ++ (be32 v ++ (be32 c ++ [if m then 79 else 3])))
  have e2 := cmpBytes_be32 i' (i+1) hi' (by omega) (tk ++ (be32 v ++ (be32 c ++ [if m then 79 else 3]))) []
  simp only [List.append_nil] at e1 e2
  rw [e1, e2]
  constructor
  · rintro ⟨h1, h2⟩
    by_cases a : i < i'
    · have b : ¬ i' < i + 1 := by omega
      have b' : i + 1 < i' ∨ ¬ (i + 1 < i') := by omega
      rcases b' with b' | b' <;> simp [b, b'] at h2
      cases hx : (tk ++ (be32 v ++ (be32 c ++ [if m then 79 else 3]))) <;> simp [hx, cmpBytes] at h2
    · by_cases a' : i' < i
      · simp [a, a'] at h1
      · omega
  · intro h; subst h
    have : i' < i' + 1 := by omega
    simp [this]
    cases hx : (tk ++ (be32 v ++ (be32 c ++ [if m then 79 else 3]))) <;> simp [cmpBytes]

/-- At the maximal instance id the `id+1` of the Go code wraps to 0 and the range is inverted
    (`max < min`): the exactness above really needs `i < 2^32 - 1`.  Instance ids are allocated from a
    counter starting at 1, so this point is unreachable in practice; it is recorded, not claimed. -/
theorem instance_range_overflow :
    bytesLT (instanceRangeMax 4294967295) (instanceRangeMin 4294967295) = true := by decide

/-- `DeleteAll` on a versioned instance scans `[MinVersionKey(MinTKey(0)), MaxVersionKey(MaxTKey(255))]`.
    Every key whose datum key was made by `storage.NewTKey` (class byte, 0x01, body) of that instance is
    inside, and no key of any other instance is. -/
theorem deleteAll_range_exact (i i' v c cls : Nat) (body : Bytes) (m : Bool)
    (hi : U32 i) (hi' : U32 i') :
    (bytesLE (minVersionKey i (minTKey Gen.tkeyMinClass)) (dataKey i' v c (newTKey cls body) m) = true ∧
     bytesLE (dataKey i' v c (newTKey cls body) m) (maxVersionKey i (maxTKey Gen.tkeyMaxClass)) = true)
    ↔ i' = i := by
  rw [dataKey_eq, minVersionKey_eq, maxVersionKey_eq]
  simp only [bytesLE, List.append_assoc, cmpBytes_append_left]
  rw [cmpBytes_be32 i i' hi hi', cmpBytes_be32 i' i hi' hi]
  constructor
  · rintro ⟨h1, h2⟩
    by_cases a : i < i'
    · have : ¬ i' < i := by omega
      simp [a, this] at h2
    · by_cases a' : i' < i
      · simp [a, a'] at h1
      · omega
  · intro h; subst h
    simp only [Nat.lt_irrefl, if_false]
    simp only [minTKey, maxTKey, newTKey, Gen.tkeyMinClass, Gen.tkeyMaxClass, Gen.tkeyMinByte,
      Gen.tkeyMaxByte, Gen.tkeyStandardByte, List.cons_append, List.nil_append, cmpBytes]
    have h0 : ∀ x : UInt8, ¬ x < 0 := by intro x; exact UInt8.not_lt.mpr (by simp [UInt8.le_iff_toNat_le])
    have h255 : ∀ x : UInt8, ¬ (255 : UInt8) < x := by
      intro x; rw [UInt8.lt_iff_toNat_lt]; have := x.toNat_lt; simp; omega
    constructor
    · by_cases hc0 : (0 : UInt8) < UInt8.ofNat cls
      · simp [hc0]
      · simp [hc0, h0]
    · by_cases hc1 : UInt8.ofNat cls < 255
      · simp [hc1]
      · simp [hc1, h255]

/- Non-vacuity: the hypotheses are met by concrete boundary values (0 and max ids, empty tkey). -/
example : U32 0 ∧ U32 4294967295 ∧
    tkeyFromKey (dataKey 4294967295 0 4294967295 [] true) = some [] ∧
    dataKeyToLocalIDs (dataKey 4294967295 0 4294967295 [] true) = some (4294967295, 0, 4294967295) := by
  decide
example : NoPrefix ([1, 1, 97, 0] : Bytes) [1, 1, 97, 98, 0] := by
  constructor <;> decide

/-- a key of a later, not prefix-related datum lies beyond the version bracket of an earlier datum (what lets a
    range scan close a datum's group when it sees the key: C05 `versionedRange_eq_groups`) -/
theorem later_datum_beyond_bracket (i v' c' : Nat) (tk tk' : Bytes) (m' : Bool) (hp : NoPrefix tk' tk)
    (hgt : cmpBytes tk' tk = .gt) : cmpBytes (dataKey i v' c' tk' m') (maxVersionKey i tk) = .gt := by
  rw [dataKey_eq, maxVersionKey_eq]
  simp only [List.append_assoc, cmpBytes_append_left]
  rw [(cmpBytes_append_noPrefix hp _ _).1]; exact hgt

/-- a new data instance never receives the id of a live instance, however far the stored id counter lags behind
    (concurrent requests store the counters out of order): instance ids stay distinct, and with them — by the key
    layout theorems above — the storage of two instances stays disjoint.  The re-draw in `newInstanceID` is
    regenerated from the source (C12.drawInstance_fresh). -/
theorem new_instance_id_not_live (live : List Nat) (ctr fuel : Nat)
    (hf : Dvid.Props.C12.sup live + 1 ≤ ctr + fuel) :
    Dvid.Props.C12.drawInstance Gen.newInstanceIdSkipsLiveIds live ctr fuel ∉ live :=
  Dvid.Props.C12.drawInstance_fresh live ctr fuel hf

end Dvid.Props.C06
