import DvidModel.Model.FileLog
import DvidModel.Model.Ids
import DvidModel.Gen.Fixes
/-
  C04 — A crash at any write point is recoverable and loses no acknowledged work.
  Proved here: the append-only log part — the reader yields exactly the records that were completely
  written, for every record list and every way the tail record can be left torn (any strict prefix of its
  encoding: partial header, header only, partial payload).  The key-value and repo-metadata parts are
  enumerated by the harness on real server processes (crash before and after every store write of a
  workload, second crash during recovery), see DESIGN.md §4 C04.
-/
namespace Dvid.Props.C04
open Dvid Dvid.FileLog

/-- a record the format can hold: 16-bit entry type, payload shorter than 4 GiB -/
def Rec.WF (r : Rec) : Prop := r.typ < 65536 ∧ r.data.length < 4294967296

theorem fromLe16_le16 (n : Nat) (h : n < 65536) (rest : Bytes) : fromLe16 (le16 n ++ rest) = n := by
  simp [fromLe16, le16]; omega

theorem fromLe32_le32 (n : Nat) (h : n < 4294967296) (rest : Bytes) : fromLe32 (le32 n ++ rest) = n := by
  simp [fromLe32, le32]; omega

theorem encode_length (r : Rec) : (encode r).length = 6 + r.data.length := by
  simp [encode, le16, le32]; omega

/-- one complete record followed by anything: the reader emits it and continues after it -/
theorem decode_cons (fuel : Nat) (r : Rec) (h : Rec.WF r) (rest : Bytes) :
    decode (fuel + 1) (encode r ++ rest) = .msg r :: decode fuel rest := by
  have hne : (encode r ++ rest).isEmpty = false := by simp [encode, le16]
  have hlen : ¬ (encode r ++ rest).length < 6 := by simp [encode_length]; omega
  have e0 : encode r ++ rest = le16 r.typ ++ (le32 r.data.length ++ (r.data ++ rest)) := by simp [encode]
  have htyp : fromLe16 (encode r ++ rest) = r.typ := by rw [e0]; exact fromLe16_le16 _ h.1 _
  have hd2 : (encode r ++ rest).drop 2 = le32 r.data.length ++ (r.data ++ rest) := by rw [e0]; simp [le16]
  have hd6 : (encode r ++ rest).drop 6 = r.data ++ rest := by rw [e0]; simp [le16, le32]
  have hsize : fromLe32 ((encode r ++ rest).drop 2) = r.data.length := by rw [hd2]; exact fromLe32_le32 _ h.2 _
  have hb : ¬ (r.data ++ rest).length < r.data.length := by simp
  simp only [decode, hne, Gen.filelogHeaderSize, hlen, if_false, htyp, hsize, hd6, Bool.false_eq_true]
  simp only [hb, ↓reduceIte]
  simp

/-- a strict prefix of a record's encoding: nothing is emitted (requires the reader's bounds check —
    regenerated fact; as first written the reader sliced past the end of the data and returned the torn record
    padded from the slice's capacity, or panicked) -/
theorem decode_torn (fuel : Nat) (r : Rec) (h : Rec.WF r) (k : Nat) (hk : k < (encode r).length) :
    decode fuel ((encode r).take k) = [] := by
  cases fuel with
  | zero => rfl
  | succ fuel =>
    simp only [decode, Gen.filelogHeaderSize]
    by_cases he : ((encode r).take k).isEmpty = true
    · simp only [he, ↓reduceIte]
    · simp only [he, ↓reduceIte]
      by_cases h6 : ((encode r).take k).length < 6
      · simp only [h6, ↓reduceIte]; simp
      · simp only [h6, ↓reduceIte]
        -- the whole header is there: the size field is the real one, the payload is incomplete
        have hlen := encode_length r
        have hk6 : 6 ≤ k := by
          simp only [List.length_take] at h6
          omega
        have e0 : encode r = (le16 r.typ ++ le32 r.data.length) ++ r.data := by simp [encode]
        have hhdr : (le16 r.typ ++ le32 r.data.length).length = 6 := by simp [le16, le32]
        have htake : (encode r).take k = (le16 r.typ ++ le32 r.data.length) ++ r.data.take (k - 6) := by
          rw [e0, List.take_append, hhdr]
          congr 1
          exact List.take_of_length_le (by omega)
        have hd2 : ((encode r).take k).drop 2 = le32 r.data.length ++ r.data.take (k - 6) := by
          rw [htake]; simp [le16]
        have hd6 : ((encode r).take k).drop 6 = r.data.take (k - 6) := by
          rw [htake]; simp [le16, le32]
        have hsize : fromLe32 (((encode r).take k).drop 2) = r.data.length := by
          rw [hd2]; exact fromLe32_le32 _ h.2 _
        have hshort : (r.data.take (k - 6)).length < r.data.length := by
          simp only [List.length_take]
          omega
        simp only [hsize, hd6, hshort, ↓reduceIte]
        simp [Gen.filelogBoundsChecked]

/-- **Append-only logs yield exactly the records that were completely written** — never a truncated,
    padded or invented record: for every list of complete records and every torn tail (any strict prefix of
    one more record's encoding, including the empty one). -/
theorem filelog_prefix (rs : List Rec) (hrs : ∀ r ∈ rs, Rec.WF r) (t : Rec) (ht : Rec.WF t) (k : Nat)
    (hk : k < (encode t).length) (extra : Nat) :
    decode ((encodeAll rs ++ (encode t).take k).length + 1 + extra) (encodeAll rs ++ (encode t).take k) = rs.map Item.msg := by
  induction rs generalizing extra with
  | nil =>
    simp only [encodeAll, List.flatMap_nil, List.nil_append, List.map_nil]
    exact decode_torn _ t ht k hk
  | cons r rest ih =>
    have hr := hrs r (by simp)
    have hrest : ∀ r' ∈ rest, Rec.WF r' := fun r' h' => hrs r' (by simp [h'])
    have e : encodeAll (r :: rest) ++ (encode t).take k = encode r ++ (encodeAll rest ++ (encode t).take k) := by
      simp [encodeAll]
    rw [e]
    have hl : (encode r ++ (encodeAll rest ++ (encode t).take k)).length + 1 + extra =
        ((encodeAll rest ++ (encode t).take k).length + 1 + (extra + (encode r).length - 1 + 1 - 1)) + 1 := by
      have := encode_length r
      simp only [List.length_append]
      omega
    rw [hl, decode_cons _ r hr]
    simp only [List.map_cons]
    congr 1
    exact ih hrest _

/-- the intact file: exactly the records appended -/
theorem filelog_roundtrip (rs : List Rec) (hrs : ∀ r ∈ rs, Rec.WF r) : readAll (encodeAll rs) = rs.map Item.msg := by
  have := filelog_prefix rs hrs ⟨0, []⟩ ⟨by decide, by decide⟩ 0 (by simp [encode, le16, le32]) 0
  simpa [readAll] using this

/-- **Version ids survive a crash between the two writes of an allocation**: whatever the store holds
    (in particular: the map already contains the id the stored counter still points at), the counter the
    loader arrives at is above every stored version id, so no stored id is issued again.
    (Depends on the regenerated fact that the loader's repair fires for `v >= counter`.) -/
theorem reload_counter_fresh (p : Ids.VerP) : p.mapMax < p.reload := by
  unfold Ids.VerP.reload
  simp only [Gen.loaderRepairsEqualVersion, if_true]
  split <;> omega

/-- the crash point in question is reachable: after the first write of `newUUID` the stored map holds the
    id the stored counter points at -/
example : (Ids.VerP.afterMapWrite ⟨5, 4⟩).mapMax = (Ids.VerP.afterMapWrite ⟨5, 4⟩).counter := by decide

/- Non-vacuity: a record with a payload, torn after its header -/
example : Rec.WF ⟨7, [1, 2, 3]⟩ ∧ (6 : Nat) < (encode ⟨7, [1, 2, 3]⟩).length := by
  constructor
  · constructor <;> decide
  · decide

/-- the repaired shape of the store opening is present: files left empty by a kill during their creation are removed -/
theorem repaired_shape_present : Gen.badgerRemovesEmptyLogFiles = true := by decide

/-! ### Single-key writes of a version are one store transaction

A versioned key has, per version, a value entry and a deletion marker; a read takes the value if there is one,
nothing if the marker is there, and otherwise what the ancestors give.  `BadgerDB.Put` writes the value and clears
the marker, `BadgerDB.Delete` removes the value and sets the marker.  Whether each pair is one transaction is
regenerated from storage/badger/badger.go. -/

structure Slot where
  val  : Option Nat
  tomb : Bool
deriving DecidableEq, Repr

def Slot.read (anc : Option Nat) (s : Slot) : Option Nat :=
  match s.val with
  | some v => some v
  | none => if s.tomb then none else anc

inductive Step | setVal (v : Nat) | clearVal | setTomb | clearTomb

def Step.apply : Step → Slot → Slot
  | .setVal v, s => { s with val := some v }
  | .clearVal, s => { s with val := none }
  | .setTomb, s => { s with tomb := true }
  | .clearTomb, s => { s with tomb := false }

def putSteps (v : Nat) : List Step := [.setVal v, .clearTomb]
def delSteps : List Step := [.clearVal, .setTomb]

/-- the store after a crash (or as seen by another request) once `k` of the steps are done: with one transaction
    nothing is visible before all of them are -/
def partialRun (singleTxn : Bool) (steps : List Step) (k : Nat) (s : Slot) : Slot :=
  if singleTxn then (if steps.length ≤ k then steps.foldl (fun s st => st.apply s) s else s)
  else (steps.take k).foldl (fun s st => st.apply s) s

/-- at every crash point inside a single-key delete or put of a version, a read at that version gives what it
    gave before the request or what it gives after it — for every prior content of the slot and every ancestor
    value -/
theorem single_key_write_atomic (anc : Option Nat) (s : Slot) (k v : Nat) :
    ((partialRun Gen.badgerPutDeleteSingleTxn delSteps k s).read anc = s.read anc ∨
      (partialRun Gen.badgerPutDeleteSingleTxn delSteps k s).read anc = none) ∧
    ((partialRun Gen.badgerPutDeleteSingleTxn (putSteps v) k s).read anc = s.read anc ∨
      (partialRun Gen.badgerPutDeleteSingleTxn (putSteps v) k s).read anc = some v) := by
  have hg : Gen.badgerPutDeleteSingleTxn = true := by decide
  rw [hg]
  constructor
  · by_cases h : delSteps.length ≤ k
    · right
      have h2 : 2 ≤ k := h
      simp [partialRun, delSteps, Step.apply, Slot.read, h2]
    · left; simp [partialRun, h]
  · by_cases h : (putSteps v).length ≤ k
    · right
      have h2 : 2 ≤ k := h
      simp [partialRun, putSteps, Step.apply, Slot.read, h2]
    · left; simp [partialRun, h]

/-- with two transactions a crash (or another request) between them shows the ancestor's value: neither the value
    before the delete nor "deleted" (seeded changes C04-6, C11-5) -/
example : (partialRun false delSteps 1 ⟨some 1, false⟩).read (some 9) = some 9 ∧
    (⟨some 1, false⟩ : Slot).read (some 9) = some 1 := by decide

end Dvid.Props.C04
