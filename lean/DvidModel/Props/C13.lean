import DvidModel.Lemmas.Ann2
import DvidModel.Model.AnnLabel
/-
  C13 — Annotation indexes are views of one element set.
  Proved here over a mirror of the block store and the per-tag index: `Elements.add` keeps positions distinct,
  holds every added element and keeps a stored element exactly when nothing with its position was added; a POST
  of elements (through addTagDelta / modifyTagElements, incl. overwriting a position with other tags), a delete
  and a move to a free position each keep the invariant "every tag list holds exactly the relationship-free
  copies of the elements that carry the tag, once each"; hence so does every history of such requests.
  The per-body lists under the label events merge and cleave are proved to stay exactly the elements on each body
  (`mergeSync_inv`, `cleaveSync_inv`, over regenerated shape facts of sync.go).  Per-body lists under element
  edits and supervoxel splits, spatial queries, relationship rewrites and the synced counts are
  decided by the harness against an element-set oracle and the model is compared with the server's tag and
  all-elements answers after every request (DESIGN.md §4 C13).
-/
namespace Dvid.Props.C13
open Dvid Dvid.Ann

/-- a POST of elements with distinct positions keeps every tag list equal to the tagged part of the element set -/
theorem store_inv (s : St) (new : List Elem) (h : Inv s) (hn : PosNodup new) : Inv (store s new) := by
  obtain ⟨hbn, hbm⟩ := addList_spec s.blocks new h.blocks hn
  have key : ∀ t,
      PosNodup ((addList (s.tagIdx t) (tagAdds new t)).filter fun e => !(tagErases s.blocks new t).contains e.pos) ∧
      ∀ x, x ∈ (addList (s.tagIdx t) (tagAdds new t)).filter (fun e => !(tagErases s.blocks new t).contains e.pos) ↔
        ∃ b ∈ addList s.blocks new, b.tags.contains t = true ∧ nr b = x := by
    intro t
    have haddsN : PosNodup (tagAdds new t) := posNodup_map_nr _ (posNodup_sublist List.filter_sublist hn)
    obtain ⟨htn, htm⟩ := addList_spec (s.tagIdx t) (tagAdds new t) (h.tagNodup t) haddsN
    have hadds : ∀ x, x ∈ tagAdds new t ↔ ∃ n ∈ new, n.tags.contains t = true ∧ nr n = x := by
      intro x; unfold tagAdds; simp only [List.mem_map, List.mem_filter]
      constructor
      · rintro ⟨n, ⟨h1, h2⟩, rfl⟩; exact ⟨n, h1, h2, rfl⟩
      · rintro ⟨n, h1, h2, rfl⟩; exact ⟨n, ⟨h1, h2⟩, rfl⟩
    refine ⟨posNodup_sublist List.filter_sublist htn, ?_⟩
    intro x
    rw [List.mem_filter, htm]
    constructor
    · rintro ⟨hx, hne⟩
      have hne : x.pos ∉ tagErases s.blocks new t := by simpa using hne
      rcases hx with hx | ⟨hxo, hno⟩
      · obtain ⟨n, hnn, hnt, rfl⟩ := (hadds x).1 hx
        exact ⟨n, (hbm n).2 (Or.inl hnn), hnt, rfl⟩
      · obtain ⟨b, hb, hbt, rfl⟩ := (h.tagMem t x).1 hxo
        refine ⟨b, (hbm b).2 (Or.inr ⟨hb, ?_⟩), hbt, rfl⟩
        intro n hnn e
        -- a replacement n of b exists: either it carries t (then it is among the adds) or b's position is erased
        cases hnt : n.tags.contains t with
        | true => exact hno (nr n) ((hadds _).2 ⟨n, hnn, hnt, rfl⟩) (by rw [nr_pos, nr_pos]; exact e)
        | false =>
          apply hne
          rw [mem_tagErases]
          refine ⟨b, hb, rfl, n, ?_, hbt, hnt⟩
          rw [← e]; exact find_of_mem new hn n hnn
    · rintro ⟨b', hb', hbt, rfl⟩
      rcases (hbm b').1 hb' with hnew | ⟨hcur, hno⟩
      · refine ⟨Or.inl ((hadds _).2 ⟨b', hnew, hbt, rfl⟩), ?_⟩
        have : (nr b').pos ∉ tagErases s.blocks new t := by
          rw [mem_tagErases]
          rintro ⟨c, _, hcp, n, hf, _, hnt⟩
          have hn' := List.mem_of_find?_eq_some hf
          have hnp : n.pos = c.pos := by simpa using List.find?_some hf
          have : n = b' := posNodup_eq hn hn' hnew (by rw [hnp, hcp]; rfl)
          rw [this, hbt] at hnt; exact absurd hnt (by simp)
        simpa using this
      · refine ⟨Or.inr ⟨(h.tagMem t _).2 ⟨b', hcur, hbt, rfl⟩, ?_⟩, ?_⟩
        · intro a ha
          obtain ⟨n, hnn, _, rfl⟩ := (hadds a).1 ha
          rw [nr_pos, nr_pos]; exact hno n hnn
        · have : (nr b').pos ∉ tagErases s.blocks new t := by
            rw [mem_tagErases]
            rintro ⟨c, hc, hcp, n, hf, _, _⟩
            have hn' := List.mem_of_find?_eq_some hf
            have hnp : n.pos = c.pos := by simpa using List.find?_some hf
            exact hno n hn' (by rw [hnp, hcp]; rfl)
          simpa using this
  constructor
  · exact hbn
  · intro t
    show PosNodup ((store s new).tagIdx t)
    unfold store; simp only
    split
    · exact h.tagNodup t
    · rw [newTagList_eq]; exact (key t).1
  · intro t x
    show x ∈ (store s new).tagIdx t ↔ ∃ b ∈ (store s new).blocks, b.tags.contains t = true ∧ nr b = x
    unfold store; simp only
    split
    · rename_i hunt
      -- untouched tag: no added element carries it, no replaced element lost it
      simp only [Bool.and_eq_true, List.isEmpty_iff] at hunt
      have := (key t).2 x
      rw [hunt.1, hunt.2] at this
      simp only [addList_nil, List.contains_nil, Bool.not_false] at this
      have e : List.filter (fun _ : Elem => true) (s.tagIdx t) = s.tagIdx t := by simp
      rw [e] at this
      exact this
    · rw [newTagList_eq]; exact (key t).2 x

/-- deleting an element keeps every tag list equal to the tagged part of the element set -/
theorem delete_inv (s : St) (p : Pos) (h : Inv s) : Inv (delete s p) := by
  unfold delete
  cases hf : s.blocks.find? (·.pos == p) with
  | none => exact h
  | some d =>
    obtain ⟨hd, hdp⟩ := find_some_spec hf
    simp only
    have hblocks : ∀ b', b' ∈ (removePos s.blocks p).map (fun e => { e with rels := e.rels.filter (·.2 != p) }) ↔
        ∃ b ∈ s.blocks, b.pos ≠ p ∧ b' = { b with rels := b.rels.filter (·.2 != p) } := by
      intro b'
      simp only [List.mem_map, removePos, List.mem_filter]
      constructor
      · rintro ⟨b, ⟨hb, hbp⟩, rfl⟩; exact ⟨b, hb, by simpa using hbp, rfl⟩
      · rintro ⟨b, hb, hbp, rfl⟩; exact ⟨b, ⟨hb, by simpa using hbp⟩, rfl⟩
    constructor
    · show PosNodup _
      unfold PosNodup
      rw [List.map_map]
      have : ((fun e : Elem => e.pos) ∘ fun (e : Elem) => { e with rels := e.rels.filter (·.2 != p) }) = fun e => e.pos := rfl
      rw [this]
      exact (posNodup_sublist List.filter_sublist h.blocks)
    · intro t
      show PosNodup (if d.tags.contains t = true then removePos (s.tagIdx t) p else s.tagIdx t)
      split
      · exact posNodup_sublist List.filter_sublist (h.tagNodup t)
      · exact h.tagNodup t
    · intro t x
      show x ∈ (if d.tags.contains t = true then removePos (s.tagIdx t) p else s.tagIdx t) ↔
        ∃ b ∈ (removePos s.blocks p).map (fun e => { e with rels := e.rels.filter (·.2 != p) }), b.tags.contains t = true ∧ nr b = x
      have hrhs : (∃ b ∈ (removePos s.blocks p).map (fun e => { e with rels := e.rels.filter (·.2 != p) }), b.tags.contains t = true ∧ nr b = x) ↔
          ∃ b ∈ s.blocks, b.pos ≠ p ∧ b.tags.contains t = true ∧ nr b = x := by
        constructor
        · rintro ⟨b', hb', ht, hx⟩
          obtain ⟨b, hb, hbp, rfl⟩ := (hblocks b').1 hb'
          exact ⟨b, hb, hbp, ht, hx⟩
        · rintro ⟨b, hb, hbp, ht, hx⟩
          exact ⟨_, (hblocks _).2 ⟨b, hb, hbp, rfl⟩, ht, hx⟩
      rw [hrhs]
      split
      · simp only [removePos, List.mem_filter]
        rw [h.tagMem t x]
        constructor
        · rintro ⟨⟨b, hb, ht, rfl⟩, hxp⟩
          exact ⟨b, hb, by simpa [nr_pos] using hxp, ht, rfl⟩
        · rintro ⟨b, hb, hbp, ht, rfl⟩
          exact ⟨⟨b, hb, ht, rfl⟩, by simpa [nr_pos] using hbp⟩
      · rename_i hdt
        rw [h.tagMem t x]
        constructor
        · rintro ⟨b, hb, ht, rfl⟩
          refine ⟨b, hb, ?_, ht, rfl⟩
          intro e
          have : b = d := posNodup_eq h.blocks hb hd (by rw [e, hdp])
          rw [this] at ht; exact hdt ht
        · rintro ⟨b, hb, _, ht, rfl⟩
          exact ⟨b, hb, ht, rfl⟩

/-- moving an element to a free position keeps every tag list equal to the tagged part of the element set -/
theorem move_inv (s : St) (p q : Pos) (h : Inv s) (hq : ∀ b ∈ s.blocks, b.pos ≠ q) : Inv (move s p q) := by
  unfold move
  cases hf : s.blocks.find? (·.pos == p) with
  | none => exact h
  | some m =>
    obtain ⟨hm, hmp⟩ := find_some_spec hf
    simp only
    let g : Elem → Elem := fun e =>
      let e := if e.pos == p then { e with pos := q } else e
      { e with rels := e.rels.map fun r => if r.2 == p then (r.1, q) else r }
    have hg_pos : ∀ e, (g e).pos = (mv p q e).pos := by intro e; unfold mv; by_cases h : e.pos = p <;> simp [g, h]
    have hg_nr : ∀ e, nr (g e) = mv p q (nr e) := by
      intro e; unfold mv nr; by_cases h : e.pos = p <;> simp [g, h]
    have hg_tags : ∀ e, (g e).tags = e.tags := by intro e; by_cases h : e.pos = p <;> simp [g, h]
    have htagq : ∀ t, ∀ y ∈ s.tagIdx t, y.pos ≠ q := by
      intro t y hy
      obtain ⟨b, hb, _, rfl⟩ := (h.tagMem t y).1 hy
      rw [nr_pos]; exact hq b hb
    constructor
    · exact posNodup_map_mv s.blocks p q g hg_pos h.blocks hq
    · intro t
      show PosNodup (if m.tags.contains t = true then (s.tagIdx t).map (fun e => if e.pos == p then { e with pos := q } else e) else s.tagIdx t)
      split
      · exact posNodup_map_mv (s.tagIdx t) p q _ (fun e => rfl) (h.tagNodup t) (htagq t)
      · exact h.tagNodup t
    · intro t x
      show x ∈ (if m.tags.contains t = true then (s.tagIdx t).map (mv p q) else s.tagIdx t) ↔
        ∃ b ∈ s.blocks.map g, b.tags.contains t = true ∧ nr b = x
      have hrhs : (∃ b ∈ s.blocks.map g, b.tags.contains t = true ∧ nr b = x) ↔
          ∃ b ∈ s.blocks, b.tags.contains t = true ∧ mv p q (nr b) = x := by
        constructor
        · rintro ⟨b', hb', ht, hx⟩
          obtain ⟨b, hb, rfl⟩ := List.mem_map.1 hb'
          rw [hg_tags] at ht; rw [hg_nr] at hx
          exact ⟨b, hb, ht, hx⟩
        · rintro ⟨b, hb, ht, hx⟩
          exact ⟨g b, List.mem_map_of_mem hb, by rw [hg_tags]; exact ht, by rw [hg_nr]; exact hx⟩
      rw [hrhs]
      split
      · rw [List.mem_map]
        constructor
        · rintro ⟨y, hy, rfl⟩
          obtain ⟨b, hb, ht, rfl⟩ := (h.tagMem t y).1 hy
          exact ⟨b, hb, ht, rfl⟩
        · rintro ⟨b, hb, ht, rfl⟩
          exact ⟨nr b, (h.tagMem t _).2 ⟨b, hb, ht, rfl⟩, rfl⟩
      · rename_i hmt
        rw [h.tagMem t x]
        have hnomove : ∀ b ∈ s.blocks, b.tags.contains t = true → mv p q (nr b) = nr b := by
          intro b hb ht
          have hbp : b.pos ≠ p := by
            intro e
            have : b = m := posNodup_eq h.blocks hb hm (by rw [e, hmp])
            rw [this] at ht; exact hmt ht
          unfold mv
          have : ((nr b).pos == p) = false := by rw [nr_pos]; simpa using hbp
          simp only [this, Bool.false_eq_true, ↓reduceIte]
        constructor
        · rintro ⟨b, hb, ht, rfl⟩; exact ⟨b, hb, ht, hnomove b hb ht⟩
        · rintro ⟨b, hb, ht, rfl⟩; exact ⟨b, hb, ht, (hnomove b hb ht).symm⟩


/-- requests and the conditions the handlers rely on -/
inductive Req where
  | store (new : List Elem)
  | delete (p : Pos)
  | move (p q : Pos)

def Req.apply (s : St) : Req → St
  | .store new => Ann.store s new
  | .delete p => Ann.delete s p
  | .move p q => Ann.move s p q

/-- a POST lists each position once; a move goes to a free position (the handler refuses nothing else) -/
def Req.Ok (s : St) : Req → Prop
  | .store new => PosNodup new
  | .delete _ => True
  | .move _ q => ∀ b ∈ s.blocks, b.pos ≠ q

def runReqs : St → List Req → St
  | s, [] => s
  | s, r :: rs => runReqs (r.apply s) rs

def AllOk : St → List Req → Prop
  | _, [] => True
  | s, r :: rs => r.Ok s ∧ AllOk (r.apply s) rs

theorem init_inv : Inv init := ⟨by simp [PosNodup, init], fun t => by simp [PosNodup, init], fun t x => by simp [init]⟩

/-- after any history of posts, deletes and moves every tag view is the tagged part of the element set -/
theorem views_after_any_history (rs : List Req) (s : St) (h : Inv s) (hok : AllOk s rs) : Inv (runReqs s rs) := by
  induction rs generalizing s with
  | nil => exact h
  | cons r rs ih =>
    obtain ⟨h1, h2⟩ := hok
    apply ih _ _ h2
    cases r with
    | store new => exact store_inv s new h h1
    | delete p => exact delete_inv s p h
    | move p q => exact move_inv s p q h h1

/-- premises satisfiable: post two tagged elements, overwrite one with other tags, move the other -/
def e1 : Elem := ⟨(1, 2, 3), 1, ["t1", "t2"], "a", []⟩
def e2 : Elem := ⟨(-70, 0, 64), 2, ["t2"], "b", []⟩
def e1' : Elem := ⟨(1, 2, 3), 3, ["t3"], "c", []⟩
def demoReqs : List Req := [.store [e1, e2], .store [e1'], .move (-70, 0, 64) (5, 5, 5)]
example : ((runReqs init demoReqs).tagIdx "t2").map (·.pos) = [(5, 5, 5)] ∧
    ((runReqs init demoReqs).tagIdx "t1") = [] ∧ ((runReqs init demoReqs).tagIdx "t3").map (·.prop) = ["c"] := by decide +kernel

/-! ### the per-body lists under label events of the synced volume -/

section LabelEvents
open Dvid.AnnLabel

/-- every body's list holds exactly the relationship-free copies of the elements on a voxel of that body -/
def LInv (s : LSt) : Prop :=
  ∀ b x, b ≠ 0 → (x ∈ s.idx b ↔ ∃ e ∈ s.elems, s.labelOf e.pos = b ∧ x = nr e)

/-- **merge**: after `mergeLabels` the target's list is the union of the lists, the merged bodies have none, and
    every list is again exactly the elements on that body under the new mapping -/
theorem mergeSync_inv (s : LSt) (target : Nat) (ms : List Nat) (ht : target ≠ 0) (htm : target ∉ ms)
    (h0 : (0 : Nat) ∉ ms) (h : LInv s) : LInv (mergeSync s target ms) := by
  intro b x hb
  have _ := ht
  -- the new label of a position
  have hlab : ∀ p, (mergeSync s target ms).labelOf p = if s.labelOf p ∈ ms then target else s.labelOf p := by
    intro p; rfl
  have hidx : ∀ c, (mergeSync s target ms).idx c =
      if c = target then s.idx target ++ ms.flatMap s.idx else if c ∈ ms then [] else s.idx c := by
    intro c; unfold mergeSync; simp only [Gen.annMergeAppendsAndDeletes, ↓reduceIte]
  have helems : (mergeSync s target ms).elems = s.elems := rfl
  rw [hidx, helems]
  simp only [hlab]
  by_cases hbt : b = target
  · subst hbt
    simp only [↓reduceIte, List.mem_append, List.mem_flatMap]
    constructor
    · rintro (hx | ⟨m, hm, hx⟩)
      · obtain ⟨e, he, hl, rfl⟩ := (h b x hb).1 hx
        exact ⟨e, he, by rw [hl, if_neg htm], rfl⟩
      · have hm0 : m ≠ 0 := fun e => h0 (e ▸ hm)
        obtain ⟨e, he, hl, rfl⟩ := (h m x hm0).1 hx
        exact ⟨e, he, by rw [hl, if_pos hm], rfl⟩
    · rintro ⟨e, he, hl, rfl⟩
      by_cases hc : s.labelOf e.pos ∈ ms
      · right
        have hm0 : s.labelOf e.pos ≠ 0 := fun e0 => h0 (e0 ▸ hc)
        exact ⟨s.labelOf e.pos, hc, (h _ _ hm0).2 ⟨e, he, rfl, rfl⟩⟩
      · left
        rw [if_neg hc] at hl
        exact (h b _ hb).2 ⟨e, he, hl, rfl⟩
  · rw [if_neg hbt]
    by_cases hbm : b ∈ ms
    · rw [if_pos hbm]
      simp only [List.not_mem_nil, false_iff]
      rintro ⟨e, _, hl, _⟩
      by_cases hc : s.labelOf e.pos ∈ ms
      · rw [if_pos hc] at hl; exact hbt hl.symm
      · rw [if_neg hc] at hl; exact hc (hl ▸ hbm)
    · rw [if_neg hbm, h b x hb]
      constructor
      · rintro ⟨e, he, hl, rfl⟩
        exact ⟨e, he, by rw [hl, if_neg hbm], rfl⟩
      · rintro ⟨e, he, hl, rfl⟩
        by_cases hc : s.labelOf e.pos ∈ ms
        · rw [if_pos hc] at hl; exact absurd hl.symm hbt
        · rw [if_neg hc] at hl; exact ⟨e, he, hl, rfl⟩

/-- **cleave**: after `cleaveLabels` the elements whose position lies in a cleaved supervoxel are listed under the
    new body and no longer under the target — also when that empties the target's list -/
theorem cleaveSync_inv (s : LSt) (target cleaved : Nat) (svs : List Nat) (ht : target ≠ 0) (hc0 : cleaved ≠ 0)
    (hne : cleaved ≠ target) (hfresh : ∀ sv, s.body sv ≠ cleaved)
    (hsvs : ∀ sv ∈ svs, s.body sv = target) (h : LInv s) : LInv (cleaveSync s target cleaved svs) := by
  intro b x hb
  have hT := h target
  have hempty : (s.idx target).isEmpty = true → ∀ e ∈ s.elems, s.labelOf e.pos ≠ target := by
    intro he e hee hl
    have := (hT (nr e) ht).2 ⟨e, hee, hl, rfl⟩
    simp only [List.isEmpty_iff] at he
    rw [he] at this; cases this
  have hcl : s.idx cleaved = [] := by
    apply List.eq_nil_iff_forall_not_mem.2
    intro y hy
    obtain ⟨e, _, hl, _⟩ := (h cleaved y hc0).1 hy
    exact hfresh _ hl
  have hlab : ∀ p, (cleaveSync s target cleaved svs).labelOf p =
      if s.svAt p ∈ svs then cleaved else s.labelOf p := by
    intro p
    show (if s.svAt p ∈ svs ∧ s.body (s.svAt p) = target then cleaved else s.body (s.svAt p)) = _
    by_cases hin : s.svAt p ∈ svs
    · rw [if_pos ⟨hin, hsvs _ hin⟩, if_pos hin]
    · rw [if_neg (fun hh => hin hh.1), if_neg hin]; rfl
  have helems : (cleaveSync s target cleaved svs).elems = s.elems := rfl
  rw [helems]
  simp only [hlab]
  have hon : ∀ e ∈ s.elems, s.svAt e.pos ∈ svs → s.labelOf e.pos = target := fun e _ hin => hsvs _ hin
  -- membership in the two filtered lists
  have hmoved : ∀ y, y ∈ (s.idx target).filter (fun e => decide (s.svAt e.pos ∈ svs)) ↔
      ∃ e ∈ s.elems, s.svAt e.pos ∈ svs ∧ y = nr e := by
    intro y
    simp only [List.mem_filter, decide_eq_true_eq]
    constructor
    · rintro ⟨hy, hs⟩
      obtain ⟨e, he, _, rfl⟩ := (hT y ht).1 hy
      exact ⟨e, he, hs, rfl⟩
    · rintro ⟨e, he, hs, rfl⟩
      exact ⟨(hT _ ht).2 ⟨e, he, hon e he hs, rfl⟩, hs⟩
  have hkept : ∀ y, y ∈ (s.idx target).filter (fun e => !decide (s.svAt e.pos ∈ svs)) ↔
      ∃ e ∈ s.elems, s.labelOf e.pos = target ∧ s.svAt e.pos ∉ svs ∧ y = nr e := by
    intro y
    simp only [List.mem_filter, Bool.not_eq_true', decide_eq_false_iff_not]
    constructor
    · rintro ⟨hy, hs⟩
      obtain ⟨e, he, hl, rfl⟩ := (hT y ht).1 hy
      exact ⟨e, he, hl, hs, rfl⟩
    · rintro ⟨e, he, hl, hs, rfl⟩
      exact ⟨(hT _ ht).2 ⟨e, he, hl, rfl⟩, hs⟩
  have hidx : (cleaveSync s target cleaved svs).idx b =
      if (s.idx target).isEmpty then s.idx b
      else if b = cleaved then
        (if ((s.idx target).filter (fun e => decide (s.svAt e.pos ∈ svs))).isEmpty then s.idx cleaved
         else (s.idx target).filter (fun e => decide (s.svAt e.pos ∈ svs)))
      else if b = target then
        (if ((s.idx target).filter (fun e => !decide (s.svAt e.pos ∈ svs))).isEmpty then []
         else (s.idx target).filter (fun e => !decide (s.svAt e.pos ∈ svs)))
      else s.idx b := by
    unfold cleaveSync; simp only [Gen.annCleaveDeletesEmptiedTarget, ↓reduceIte]
  rw [hidx]
  by_cases hte : (s.idx target).isEmpty = true
  · rw [if_pos hte, h b x hb]
    constructor
    · rintro ⟨e, he, hl, rfl⟩
      refine ⟨e, he, ?_, rfl⟩
      by_cases hin : s.svAt e.pos ∈ svs
      · exact absurd (hon e he hin) (hempty hte e he)
      · rw [if_neg hin]; exact hl
    · rintro ⟨e, he, hl, rfl⟩
      refine ⟨e, he, ?_, rfl⟩
      by_cases hin : s.svAt e.pos ∈ svs
      · exact absurd (hon e he hin) (hempty hte e he)
      · rw [if_neg hin] at hl; exact hl
  · rw [if_neg hte]
    by_cases hbc : b = cleaved
    · subst hbc
      rw [if_pos rfl]
      have key : x ∈ (s.idx target).filter (fun e => decide (s.svAt e.pos ∈ svs)) ↔
          ∃ e ∈ s.elems, (if s.svAt e.pos ∈ svs then b else s.labelOf e.pos) = b ∧ x = nr e := by
        rw [hmoved]
        constructor
        · rintro ⟨e, he, hs, rfl⟩; exact ⟨e, he, by rw [if_pos hs], rfl⟩
        · rintro ⟨e, he, hl, rfl⟩
          by_cases hin : s.svAt e.pos ∈ svs
          · exact ⟨e, he, hin, rfl⟩
          · rw [if_neg hin] at hl; exact absurd hl (hfresh _)
      by_cases hme : ((s.idx target).filter (fun e => decide (s.svAt e.pos ∈ svs))).isEmpty = true
      · rw [if_pos hme, hcl]
        simp only [List.isEmpty_iff] at hme
        rw [hme] at key
        exact key
      · rw [if_neg hme]; exact key
    · rw [if_neg hbc]
      by_cases hbt : b = target
      · subst hbt
        rw [if_pos rfl]
        have key : x ∈ (s.idx b).filter (fun e => !decide (s.svAt e.pos ∈ svs)) ↔
            ∃ e ∈ s.elems, (if s.svAt e.pos ∈ svs then cleaved else s.labelOf e.pos) = b ∧ x = nr e := by
          rw [hkept]
          constructor
          · rintro ⟨e, he, hl, hs, rfl⟩; exact ⟨e, he, by rw [if_neg hs]; exact hl, rfl⟩
          · rintro ⟨e, he, hl, rfl⟩
            by_cases hin : s.svAt e.pos ∈ svs
            · rw [if_pos hin] at hl; exact absurd hl hne
            · rw [if_neg hin] at hl; exact ⟨e, he, hl, hin, rfl⟩
        by_cases hke : ((s.idx b).filter (fun e => !decide (s.svAt e.pos ∈ svs))).isEmpty = true
        · rw [if_pos hke]
          simp only [List.isEmpty_iff] at hke
          rw [hke] at key
          exact key
        · rw [if_neg hke]; exact key
      · rw [if_neg hbt, h b x hb]
        constructor
        · rintro ⟨e, he, hl, rfl⟩
          refine ⟨e, he, ?_, rfl⟩
          by_cases hin : s.svAt e.pos ∈ svs
          · exact absurd ((hon e he hin).symm.trans hl) (fun e0 => hbt e0.symm)
          · rw [if_neg hin]; exact hl
        · rintro ⟨e, he, hl, rfl⟩
          refine ⟨e, he, ?_, rfl⟩
          by_cases hin : s.svAt e.pos ∈ svs
          · rw [if_pos hin] at hl; exact absurd hl.symm hbc
          · rw [if_neg hin] at hl; exact hl

end LabelEvents

section LabelEdits
open Dvid.AnnLabel

/-- the label lists are exactly the elements on each body, and positions are distinct in every list -/
def LInv2 (s : LSt) : Prop := PosNodup s.elems ∧ (∀ b, b ≠ 0 → PosNodup (s.idx b)) ∧ LInv s

/-- **POST of elements** keeps every body's list the exact view of the element set -/
theorem postLabels_inv (s : LSt) (new : List Elem) (hn : PosNodup new) (h : LInv2 s) : LInv2 (postLabels s new) := by
  obtain ⟨he, hi, hl⟩ := h
  have hE := addList_spec s.elems new he hn
  have hadds : ∀ b, PosNodup ((new.filter fun e => decide (s.labelOf e.pos = b)).map nr) := fun b =>
    posNodup_map_nr _ (posNodup_sublist List.filter_sublist hn)
  have hlab : ∀ p, (postLabels s new).labelOf p = s.labelOf p := fun _ => rfl
  refine ⟨hE.1, ?_, ?_⟩
  · intro b hb
    show PosNodup (if Gen.annLabelSkipsZero && decide (b = 0) then s.idx b else _)
    simp only [hb, decide_false, Bool.and_false, Bool.false_eq_true, if_false, Gen.annLabelPostReplacesSamePos, if_true]
    split
    · exact hi b hb
    · exact (addList_spec _ _ (hi b hb) (hadds b)).1
  · intro b x hb
    show x ∈ (if Gen.annLabelSkipsZero && decide (b = 0) then s.idx b else _) ↔ ∃ e ∈ addList s.elems new, (postLabels s new).labelOf e.pos = b ∧ x = nr e
    simp only [hb, decide_false, Bool.and_false, Bool.false_eq_true, if_false, hlab, Gen.annLabelPostReplacesSamePos, if_true]
    have memAdds : ∀ y, y ∈ (new.filter fun e => decide (s.labelOf e.pos = b)).map nr ↔ ∃ n ∈ new, s.labelOf n.pos = b ∧ y = nr n := by
      intro y
      simp only [List.mem_map, List.mem_filter, decide_eq_true_eq]
      constructor
      · rintro ⟨n, ⟨hn1, hn2⟩, rfl⟩; exact ⟨n, hn1, hn2, rfl⟩
      · rintro ⟨n, hn1, hn2, rfl⟩; exact ⟨n, ⟨hn1, hn2⟩, rfl⟩
    split
    · rename_i hemp
      have hnone : ∀ n ∈ new, s.labelOf n.pos ≠ b := by
        intro n hn1 hn2
        have : nr n ∈ (new.filter fun e => decide (s.labelOf e.pos = b)).map nr := (memAdds _).2 ⟨n, hn1, hn2, rfl⟩
        rw [List.isEmpty_iff] at hemp
        rw [hemp] at this; cases this
      constructor
      · intro hx
        obtain ⟨e, hee, hlb, rfl⟩ := (hl b x hb).1 hx
        refine ⟨e, (hE.2 e).2 (Or.inr ⟨hee, ?_⟩), hlb, rfl⟩
        intro a ha hpa
        exact hnone a ha (by rw [hpa]; exact hlb)
      · rintro ⟨e, hee, hlb, rfl⟩
        rcases (hE.2 e).1 hee with hnew | ⟨hold, _⟩
        · exact absurd hlb (hnone e hnew)
        · exact (hl b _ hb).2 ⟨e, hold, hlb, rfl⟩
    · rw [(addList_spec _ _ (hi b hb) (hadds b)).2 x]
      constructor
      · rintro (hx | ⟨hx, hno⟩)
        · obtain ⟨n, hn1, hn2, rfl⟩ := (memAdds x).1 hx
          exact ⟨n, (hE.2 n).2 (Or.inl hn1), hn2, rfl⟩
        · obtain ⟨e, hee, hlb, rfl⟩ := (hl b x hb).1 hx
          refine ⟨e, (hE.2 e).2 (Or.inr ⟨hee, ?_⟩), hlb, rfl⟩
          intro a ha hpa
          exact hno (nr a) ((memAdds _).2 ⟨a, ha, by rw [hpa]; exact hlb, rfl⟩) (by rw [nr_pos, nr_pos]; exact hpa)
      · rintro ⟨e, hee, hlb, rfl⟩
        rcases (hE.2 e).1 hee with hnew | ⟨hold, hno⟩
        · exact Or.inl ((memAdds _).2 ⟨e, hnew, hlb, rfl⟩)
        · refine Or.inr ⟨(hl b _ hb).2 ⟨e, hold, hlb, rfl⟩, ?_⟩
          intro a ha
          obtain ⟨n, hn1, _, rfl⟩ := (memAdds a).1 ha
          rw [nr_pos, nr_pos]; exact hno n hn1

theorem mem_removePos (l : List Elem) (p : Pos) (x : Elem) : x ∈ removePos l p ↔ x ∈ l ∧ x.pos ≠ p := by
  simp [removePos]

/-- **DELETE of an element** keeps every body's list the exact view of the element set -/
theorem deleteLabels_inv (s : LSt) (p : Pos) (h : LInv2 s) : LInv2 (deleteLabels s p) := by
  obtain ⟨he, hi, hl⟩ := h
  refine ⟨posNodup_sublist List.filter_sublist he, ?_, ?_⟩
  · intro b hb
    show PosNodup (if Gen.annLabelDeleteRemovesAtPoint && decide (b = s.labelOf p) then removePos (s.idx b) p else s.idx b)
    simp only [Gen.annLabelDeleteRemovesAtPoint, Bool.true_and, decide_eq_true_eq]
    split
    · exact posNodup_sublist List.filter_sublist (hi b hb)
    · exact hi b hb
  · intro b x hb
    show x ∈ (if Gen.annLabelDeleteRemovesAtPoint && decide (b = s.labelOf p) then removePos (s.idx b) p else s.idx b) ↔
      ∃ e ∈ removePos s.elems p, s.labelOf e.pos = b ∧ x = nr e
    simp only [Gen.annLabelDeleteRemovesAtPoint, Bool.true_and, decide_eq_true_eq]
    split
    · rw [mem_removePos]
      constructor
      · rintro ⟨hx, hxp⟩
        obtain ⟨e, hee, hlb, rfl⟩ := (hl b x hb).1 hx
        exact ⟨e, (mem_removePos _ _ _).2 ⟨hee, hxp⟩, hlb, rfl⟩
      · rintro ⟨e, hee, hlb, rfl⟩
        have := (mem_removePos _ _ _).1 hee
        exact ⟨(hl b _ hb).2 ⟨e, this.1, hlb, rfl⟩, this.2⟩
    · rename_i hne
      constructor
      · intro hx
        obtain ⟨e, hee, hlb, rfl⟩ := (hl b x hb).1 hx
        refine ⟨e, (mem_removePos _ _ _).2 ⟨hee, ?_⟩, hlb, rfl⟩
        intro hp; apply hne; rw [← hlb, hp]
      · rintro ⟨e, hee, hlb, rfl⟩
        exact (hl b _ hb).2 ⟨e, ((mem_removePos _ _ _).1 hee).1, hlb, rfl⟩


end LabelEdits

end Dvid.Props.C13
