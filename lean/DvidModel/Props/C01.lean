import DvidModel.Lemmas.Resolve
import DvidModel.Lemmas.Store
/-
  C01 — Versioned reads resolve to the nearest ancestor write in the version DAG.
  Property theorems only.  `findMatch` below is the literal mirror of datastore/repo_local.go
  (tied by fingerprint + differential execution against the real resolver on real DAGs).
-/
namespace Dvid.Props.C01
open Dvid Dvid.Resolve Dvid.Spec Dvid.Store Dvid.Key

/-- **Locality**: writes at versions that are neither `v` nor an ancestor of `v` (siblings, descendants,
    other branches, other repos) never affect what a read at `v` returns. -/
theorem findMatch_locality (d : Dag) (es es' : Entries) (fuel : Nat) (m : Marks) (v : Nat)
    (h : ∀ a, Anc d v a → es a = es' a) : findMatch d es fuel m v = findMatch d es' fuel m v :=
  findMatchWith_congr pickCur d es es' fuel m v h

theorem read_locality (d : Dag) (es es' : Entries) (v : Nat) (h : ∀ a, Anc d v a → es a = es' a) :
    readAt d es v = readAt d es' v := by
  unfold readAt; rw [findMatch_locality d es es' _ _ v h]

/-- **Soundness**: a read only ever returns a value that was written at `v` or at an ancestor of `v`. -/
theorem read_sound (d : Dag) (es : Entries) (v a x : Nat) (h : readAt d es v = .found a x) :
    es a = some (.val x) ∧ Anc d v a := by
  unfold readAt at h
  cases hf : findMatch d es (v + 1) [] v with
  | mk r m' =>
    rw [hf] at h; simp only at h; subst h
    exact findMatchWith_sound pickCur (fun _ _ _ _ h => pickCur_sound h) d es _ _ _ _ _ _ hf

/-- what was written (or deleted) at `v` itself is what a read at `v` returns; a deletion hides every
    older value -/
theorem read_own_write (d : Dag) (es : Entries) (v x : Nat) (h : es v = some (.val x)) : readAt d es v = .found v x := by
  simp [readAt, findMatch, findMatchWith, h]
theorem read_own_delete (d : Dag) (es : Entries) (v : Nat) (h : es v = some .tomb) : readAt d es v = .none := by
  simp [readAt, findMatch, findMatchWith, h]

/-- along an ancestry without merges the read is the nearest entry: the closest value, hidden by a closer
    deletion -/
theorem read_linear (d : Dag) (es : Entries) (v : Nat) (hl : Linear d v) : readAt d es v = nearest d es (v + 1) v :=
  findMatchWith_linear pickCur d es (v + 1) v hl

/-- the recursion is well founded on real DAGs: any fuel above `v` computes the same result -/
theorem fuel_irrelevant (d : Dag) (hwf : d.WF) (es : Entries) (f : Nat) (m : Marks) (v : Nat) (h : v < f) :
    findMatch d es f m v = findMatch d es (v + 1) m v :=
  findMatchWith_fuel pickCur d hwf es f (v + 1) m v h (by omega)

/-! ### the full statement does not hold: two shapes, as `decide`d witnesses (replayed on the real server
    by the harness; see KNOWN_FINDINGS.txt) -/

/-- shape (i) *last-found-superseded* — a 3-parent merge `6 = merge[3,4,5]`: parent 3 holds X, parent 4
    inherits Y from 2, parent 5 deleted it below 2.  The unsuperseded live value is X@3. -/
def dag_i : Dag := Dag.ofList [[], [], [1], [1], [2], [2], [3, 4, 5]]
def es_i : Entries := entriesOfList [none, none, some (.val 20), some (.val 10), none, some .tomb, none]

/-- the specification reads X@3 -/
theorem spec_i : specRead dag_i es_i 6 = .value 3 10 := by decide
/-- the resolver as the source has it now agrees with the specification on this shape.  (On the tree as
    first checked it did not: `case 1` returned the last match found, Y@2 — `lastfound_i` below; repaired
    by a `fix:` commit, see KNOWN_FINDINGS.txt.  `Gen.mergeReturnsSurvivor` is regenerated from the source,
    so this theorem fails again if the repair is lost.) -/
theorem shape_i_resolved : readAt dag_i es_i 6 = .found 3 10 := by decide
/-- the decision as originally written returned the deleted value Y@2 -/
theorem lastfound_i : (findMatchWith Resolve.decide dag_i es_i 7 [] 6).1 = .found 2 20 := by decide
/-- the structural facts the mirror relies on are still what the source says -/
theorem resolver_shape : Gen.mergeEagerError = true ∧ Gen.mergePrunesInvalid = true := by decide

/-- shape (ii) *inner conflict before supersession* — `5 = merge[2,3]` is conflicted by itself (2 and 3
    both hold values), `4` deletes below 2, `6 = merge[5,4]`: the specification reads the value of 3 at 6
    (the deletion at 4 supersedes 2), the resolver returns the inner merge's conflict error, and with the
    parents of 6 in the other order it returns the value of 3 — parent-order dependent. -/
def dag_ii : Dag := Dag.ofList [[], [], [1], [1], [2], [2, 3], [5, 4]]
def dag_ii' : Dag := Dag.ofList [[], [], [1], [1], [2], [2, 3], [4, 5]]
def es_ii : Entries := entriesOfList [none, none, some (.val 20), some (.val 10), some .tomb, none, none]
theorem witness_ii : specRead dag_ii es_ii 6 = .value 3 10 ∧ readAt dag_ii es_ii 6 = .err ∧
    readAt dag_ii' es_ii 6 = .found 3 10 := by decide

/-! ### store level: the two-key transactions of Put/Delete and reads through the DAG -/

/-- a read returns what was last written at that version -/
theorem get_put_same (d : Dag) (s : KV) (i v : Nat) (tk val : Bytes) (hi : U32 i) (hv : U32 v) :
    getV d (putV s i v tk val) i tk v = some val := by
  have he := entryAt_putV_same s i v tk val hi hv
  have hne : dataKey i v 0 tk false ≠ dataKey i v 0 tk true := dataKey_ne_of hi hv hi hv (by simp)
  unfold getV
  rw [read_own_write d _ v v he]
  simp [putV, Gen.storePutClearsTombstone, KV.set, KV.del, hne]

/-- a deletion at a version hides every older value at that version -/
theorem get_delete_same (d : Dag) (s : KV) (i v : Nat) (tk : Bytes) :
    getV d (delV s i v tk) i tk v = none := by
  unfold getV
  rw [read_own_delete d _ v (entryAt_delV_same s i v tk)]

/-- writing or deleting at a version that is not `v` or an ancestor of `v` leaves reads at `v` unchanged -/
theorem get_put_other_version (d : Dag) (s : KV) (i v w : Nat) (tk val : Bytes)
    (hi : U32 i) (hw : U32 w) (hbound : ∀ a, Anc d v a → U32 a) (hnot : ¬ Anc d v w) :
    getV d (putV s i w tk val) i tk v = getV d s i tk v := by
  have hloc : ∀ a, Anc d v a → entryAt (putV s i w tk val) i tk a = entryAt s i tk a := by
    intro a ha
    exact entryAt_putV_other s i w i a tk tk val hi hw hi (hbound a ha) (fun h => hnot (h.2.2 ▸ ha))
  unfold getV
  rw [read_locality d _ _ v hloc]
  cases hr : readAt d (entryAt s i tk) v with
  | found a x =>
    have hanc := (read_sound d _ v a x hr).2
    exact raw_putV_other s i w i a tk tk val false hi hw hi (hbound a hanc) (fun h => hnot (h.2.2 ▸ hanc))
  | none => rfl
  | err => rfl

theorem get_delete_other_version (d : Dag) (s : KV) (i v w : Nat) (tk : Bytes)
    (hi : U32 i) (hw : U32 w) (hbound : ∀ a, Anc d v a → U32 a) (hnot : ¬ Anc d v w) :
    getV d (delV s i w tk) i tk v = getV d s i tk v := by
  have hloc : ∀ a, Anc d v a → entryAt (delV s i w tk) i tk a = entryAt s i tk a := by
    intro a ha
    exact entryAt_delV_other s i w i a tk tk hi hw hi (hbound a ha) (fun h => hnot (h.2.2 ▸ ha))
  unfold getV
  rw [read_locality d _ _ v hloc]
  cases hr : readAt d (entryAt s i tk) v with
  | found a x =>
    have hanc := (read_sound d _ v a x hr).2
    exact raw_delV_other s i w i a tk tk false hi hw hi (hbound a hanc) (fun h => hnot (h.2.2 ▸ hanc))
  | none => rfl
  | err => rfl

/-- writes to another datum key or another data instance never affect the read (any versions) -/
theorem get_put_other_datum (d : Dag) (s : KV) (i i' v w : Nat) (tk tk' val : Bytes)
    (hi : U32 i) (hi' : U32 i') (hw : U32 w) (hbound : ∀ a, Anc d v a → U32 a) (hne : ¬ (i' = i ∧ tk' = tk)) :
    getV d (putV s i w tk val) i' tk' v = getV d s i' tk' v := by
  have hloc : ∀ a, Anc d v a → entryAt (putV s i w tk val) i' tk' a = entryAt s i' tk' a := by
    intro a ha
    exact entryAt_putV_other s i w i' a tk tk' val hi hw hi' (hbound a ha) (fun h => hne ⟨h.1, h.2.1⟩)
  unfold getV
  rw [read_locality d _ _ v hloc]
  cases hr : readAt d (entryAt s i' tk') v with
  | found a x =>
    have hanc := (read_sound d _ v a x hr).2
    exact raw_putV_other s i w i' a tk tk' val false hi hw hi' (hbound a hanc) (fun h => hne ⟨h.1, h.2.1⟩)
  | none => rfl
  | err => rfl

theorem get_delete_other_datum (d : Dag) (s : KV) (i i' v w : Nat) (tk tk' : Bytes)
    (hi : U32 i) (hi' : U32 i') (hw : U32 w) (hbound : ∀ a, Anc d v a → U32 a) (hne : ¬ (i' = i ∧ tk' = tk)) :
    getV d (delV s i w tk) i' tk' v = getV d s i' tk' v := by
  have hloc : ∀ a, Anc d v a → entryAt (delV s i w tk) i' tk' a = entryAt s i' tk' a := by
    intro a ha
    exact entryAt_delV_other s i w i' a tk tk' hi hw hi' (hbound a ha) (fun h => hne ⟨h.1, h.2.1⟩)
  unfold getV
  rw [read_locality d _ _ v hloc]
  cases hr : readAt d (entryAt s i' tk') v with
  | found a x =>
    have hanc := (read_sound d _ v a x hr).2
    exact raw_delV_other s i w i' a tk tk' false hi hw hi' (hbound a hanc) (fun h => hne ⟨h.1, h.2.1⟩)
  | none => rfl
  | err => rfl

/-- in every store reachable through Put/Delete no version holds both a value key and a tombstone key, so
    the version map built from the raw key list does not depend on the order the store returns them in -/
theorem noBoth_reachable (ops : List Op) (hwf : ∀ o ∈ ops, o.WF) : NoBoth (ops.foldl Op.apply empty) := by
  suffices h : ∀ s, NoBoth s → NoBoth (ops.foldl Op.apply s) by
    exact h empty (by intro i ver tk _ _ h; simp [empty] at h)
  induction ops with
  | nil => intro s hs; exact hs
  | cons o os ih =>
    intro s hs
    simp only [List.foldl_cons]
    apply ih (fun o' ho' => hwf o' (by simp [ho']))
    have ho := hwf o (by simp)
    intro i' ver' tk' hi' hv' hboth
    cases o with
    | put i ver tk val =>
      simp only [Op.WF] at ho
      simp only [Op.apply] at hboth
      by_cases hsame : i' = i ∧ tk' = tk ∧ ver' = ver
      · obtain ⟨rfl, rfl, rfl⟩ := hsame
        simp [putV, Gen.storePutClearsTombstone, KV.del] at hboth
      · rw [raw_putV_other s i ver i' ver' tk tk' val false ho.1 ho.2 hi' hv' hsame,
            raw_putV_other s i ver i' ver' tk tk' val true ho.1 ho.2 hi' hv' hsame] at hboth
        exact hs i' ver' tk' hi' hv' hboth
    | del i ver tk =>
      simp only [Op.WF] at ho
      simp only [Op.apply] at hboth
      by_cases hsame : i' = i ∧ tk' = tk ∧ ver' = ver
      · obtain ⟨rfl, rfl, rfl⟩ := hsame
        have hne : dataKey i' ver' 0 tk' false ≠ dataKey i' ver' 0 tk' true :=
          dataKey_ne_of hi' hv' hi' hv' (by simp)
        simp [delV, Gen.storeDeleteWritesTombstone, KV.set, KV.del, hne] at hboth
      · rw [raw_delV_other s i ver i' ver' tk tk' false ho.1 ho.2 hi' hv' hsame,
            raw_delV_other s i ver i' ver' tk tk' true ho.1 ho.2 hi' hv' hsame] at hboth
        exact hs i' ver' tk' hi' hv' hboth

/- Non-vacuity: a real diamond satisfies `Dag.WF`; a non-ancestor exists. -/
example : (Dag.ofList [[], [], [1], [1], [2, 3]]).WF := by
  intro v p hp
  simp only [Dag.ofList] at hp
  match v, hp with
  | 0, hp => simp at hp
  | 1, hp => simp at hp
  | 2, hp => simp at hp; omega
  | 3, hp => simp at hp; omega
  | 4, hp => simp at hp; omega
  | n + 5, hp => simp [List.getD] at hp

end Dvid.Props.C01
