import DvidModel.Model.Store
import DvidModel.Gen.Copy
/-
  Copying a data instance (datastore/copy_local.go `copyData`) at the level of the raw key-value store.
  Full copy: every raw key of the source instance's key range (all versions, tombstones included) is stored
  again, value verbatim, with the instance id field rewritten (`DataContext.UpdateInstance`).
  Flattened copy at version v: every datum is resolved at v (`ProcessRange` on a versioned context) and the
  resolved value is `Put` at version v of the new instance.
  The destination instance id is fresh (the manager never re-issues instance ids), so what the destination
  holds is exactly what the copy put there.
-/
namespace Dvid.Copy
open Dvid Dvid.Key Dvid.Store Dvid.Resolve

def instanceOf (k : Bytes) : Option Nat := (dataKeyToLocalIDs k).map (·.1)

/-- the store after a full copy of instance `i` into the fresh instance `j` -/
def copyRaw (s : KV) (i j : Nat) : KV := fun k =>
  if instanceOf k = some j then
    (if Gen.copyRawScansInstanceRange && Gen.copyRawRewritesInstance && Gen.updateInstanceOverwritesIdField
      then (changeInstance k i).bind s else none)
  else s k

/-- the store after a flattened copy at version `v` -/
def flatten (d : Dag) (s : KV) (i j v : Nat) : KV := fun k =>
  if instanceOf k = some j then
    match dataKeyToLocalIDs k, tkeyFromKey k with
    | some (_, ver, c), some tk =>
      if Gen.copyFlattenResolvesAtCtx && decide (ver = v) && decide (c = 0) && !isTombstone k then getV d s i tk v else none
    | _, _ => none
  else s k

end Dvid.Copy
