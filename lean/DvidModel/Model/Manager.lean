import DvidModel.Gen.Manager
/-
  Mirror of the repo manager's DAG bookkeeping (datastore/repo_local.go): `newRepo`, `newUUID`, `commit`,
  `newVersion`, `merge`, `deleteRepo`, and the argument handling of the HTTP handlers `newversion`, `branch`,
  `tag`, `merge` (server/web.go).  State is kept as association lists in insertion order; Go maps are
  modelled as "last write wins" lookups.  Core Lean only.

  UUID naming: a server-generated UUID for the node with version id `v` is the string "g<v>" (the harness
  renames real random UUIDs the same way); caller-assigned UUIDs are kept verbatim.
-/
namespace Dvid.Manager

structure Node where
  v : Nat
  uuid : String
  repo : String            -- root uuid of the repo object this node lives in
  parents : List Nat
  children : List Nat
  branch : String
  locked : Bool
  deriving DecidableEq, Repr

structure State where
  nodes : List Node                     -- all DAG nodes of all repos, in creation order
  v2u : List (Nat × String)             -- versionToUUID
  u2v : List (String × Nat)             -- uuidToVersion (later entries override earlier ones)
  repos : List (String × String)        -- m.repos: node uuid -> repo root uuid
  branches : List (String × String)     -- branchToUUID: repoRoot ++ name -> head uuid
  repoIds : List (Nat × String)         -- repoToUUID
  nextV : Nat
  nextRepo : Nat
  deriving Repr

def init : State := ⟨[], [], [], [], [], [], 1, 1⟩

def lookup {α β : Type} [DecidableEq α] (l : List (α × β)) (k : α) : Option β :=
  (l.reverse.find? (fun p => p.1 = k)).map (·.2)

def setKey {α β : Type} [DecidableEq α] (l : List (α × β)) (k : α) (v : β) : List (α × β) :=
  l.filter (fun p => p.1 ≠ k) ++ [(k, v)]

def delKey {α β : Type} [DecidableEq α] (l : List (α × β)) (k : α) : List (α × β) :=
  l.filter (fun p => p.1 ≠ k)

def State.node? (s : State) (repo : String) (v : Nat) : Option Node :=
  s.nodes.find? (fun n => n.v = v ∧ n.repo = repo)

def State.updNode (s : State) (repo : String) (v : Nat) (f : Node → Node) : State :=
  { s with nodes := s.nodes.map (fun n => if n.v = v ∧ n.repo = repo then f n else n) }

inductive Resp where
  | ok (uuid : String)
  | err
  deriving DecidableEq, Repr

/-- `newUUID(assign)`: allocate the next version id for a given or generated uuid.  Whether a caller-assigned
    uuid that already names a node is refused is a regenerated fact (`Gen.newUUIDChecksExisting`). -/
def uuidFor (assign : Option String) (v : Nat) : String :=
  match assign with | some u => u | none => "g" ++ toString v

def newUUID (s : State) (assign : Option String) : Option (State × String × Nat) :=
  if Gen.newUUIDChecksExisting && (lookup s.u2v (uuidFor assign s.nextV)).isSome then none
  else some ({ s with v2u := setKey s.v2u s.nextV (uuidFor assign s.nextV),
                      u2v := setKey s.u2v (uuidFor assign s.nextV) s.nextV, nextV := s.nextV + 1 },
             uuidFor assign s.nextV, s.nextV)

/-- `newRepo(alias, description, assign, passcode)` -/
def repoClash (s : State) (assign : Option String) : Bool :=
  match assign with | some u => (lookup s.repos u).isSome | none => false

def newRepo (s : State) (assign : Option String) : State × Resp :=
  if repoClash s assign then (s, .err)
  else match newUUID s assign with
    | none => (s, .err)
    | some (s1, uuid, v) =>
      ({ s1 with
        nextRepo := s1.nextRepo + 1,
        repoIds := setKey s1.repoIds s1.nextRepo uuid,
        repos := setKey s1.repos uuid uuid,
        branches := setKey s1.branches (uuid ++ "master") uuid,
        nodes := s1.nodes ++ [⟨v, uuid, uuid, [], [], "", false⟩] }, .ok uuid)

/-- `commit(uuid, …)` preceded by the handler's locked check -/
def commit (s : State) (uuid : String) : State × Resp :=
  match lookup s.u2v uuid, lookup s.repos uuid with
  | some v, some repo =>
    match s.node? repo v with
    | some n => if n.locked then (s, .err) else (s.updNode repo v (fun n => { n with locked := true }), .ok uuid)
    | none => (s, .err)
  | _, _ => (s, .err)

/-- the branch-uniqueness check of `newVersion`: `none` = ErrBranchUnique (or a missing sibling);
    otherwise the branch name the child gets -/
def branchOk (s : State) (repo : String) (node : Node) (branchname : String) : Option String :=
  if branchname == "" || branchname == node.branch then
    -- no existing child may already continue this branch
    if node.children.all (fun c => match s.node? repo c with
        | some sis => sis.branch != node.branch
        | none => false) then some node.branch else none
  else
    if (s.nodes.filter (·.repo = repo)).all (fun n => n.branch != branchname) then some branchname else none

/-- the mutations of `newVersion` once the child's uuid and version id exist -/
def attachChild (s1 : State) (repo : String) (v : Nat) (cu : String) (cv : Nat) (bname : String) : State :=
  let s2 := { s1 with
    branches := setKey s1.branches (repo ++ (if bname == "" then "master" else bname)) cu,
    repos := setKey s1.repos cu repo }
  let s3 := s2.updNode repo v (fun n => { n with children := n.children ++ [cv] })
  -- `r.dag.nodes[childV] = child`: a map assignment (replaces a node with the same version id)
  { s3 with nodes := s3.nodes.filter (fun n => !(decide (n.v = cv ∧ n.repo = repo))) ++
                [⟨cv, cu, repo, [v], [], bname, false⟩] }

/-- `newVersion(parent, note, branchname, assign)` -/
def newVersion (s : State) (parent : String) (branchname : String) (assign : Option String) : State × Resp :=
  match lookup s.repos parent, lookup s.u2v parent with
  | some repo, some v =>
    match s.node? repo v with
    | none => (s, .err)
    | some node =>
      if !node.locked then (s, .err)
      else match branchOk s repo node branchname with
        | none => (s, .err)
        | some bname =>
          match newUUID s assign with
          | none => (s, .err)
          | some (s1, cu, cv) => (attachChild s1 repo v cu cv bname, .ok cu)
  | _, _ => (s, .err)

/-- validation of one merge parent: its version, and that its node is in `repo` and committed -/
def mergeParentOk (s : State) (repo : String) (p : String) : Option Nat :=
  match lookup s.u2v p with
  | some v => match s.node? repo v with
    | some n => if n.locked then some v else none
    | none => none
  | none => none

/-- the mutations of `merge` once the parents are validated and the child's uuid and version id exist -/
def linkMerge (s1 : State) (repo : String) (pvs : List Nat) (cu : String) (cv : Nat) : State :=
  let s2 := { s1 with repos := setKey s1.repos cu repo }
  let s3 := pvs.foldl (fun st pv => st.updNode repo pv (fun n => { n with children := n.children ++ [cv] })) s2
  { s3 with nodes := s3.nodes ++ [⟨cv, cu, repo, pvs, [], "", false⟩] }

/-- `merge(parents, note, mt)` as the source has it now: when `Gen.mergeValidatesFirst` every parent is
    validated before anything is allocated; otherwise (as first written) the child is allocated and inserted
    first and parents are linked one by one until the first invalid one. -/
def merge (s : State) (parents : List String) : State × Resp :=
  if parents.length < 2 then (s, .err)
  else match parents.head? >>= lookup s.repos with
    | none => (s, .err)
    | some repo =>
      if Gen.mergeValidatesFirst then
        match parents.mapM (mergeParentOk s repo) with
        | none => (s, .err)
        | some pvs =>
          if Gen.mergeRejectsDuplicateParents && !pvs.Nodup then (s, .err) else
          match newUUID s none with
          | none => (s, .err)
          | some (s1, cu, cv) => (linkMerge s1 repo pvs cu cv, .ok cu)
      else
        match newUUID s none with
        | none => (s, .err)
        | some (s1, cu, cv) =>
          let s2 := { s1 with repos := setKey s1.repos cu repo, nodes := s1.nodes ++ [⟨cv, cu, repo, [], [], "", false⟩] }
          let rec link (st : State) : List String → State × Bool
            | [] => (st, true)
            | p :: rest =>
              match mergeParentOk st repo p with
              | none => (st, false)
              | some pv =>
                let st1 := st.updNode repo pv (fun n => { n with children := n.children ++ [cv] })
                let st2 := st1.updNode repo cv (fun n => { n with parents := n.parents ++ [pv] })
                link st2 rest
          let (s3, ok) := link s2 parents
          (s3, if ok then .ok cu else .err)

/-- the `tag` handler: `NewVersion(uuid, note, "tag-"+tag, &tag)` then `Commit(tag)` — whether the commit is
    skipped when the new version failed is a regenerated fact -/
def tag (s : State) (parent : String) (t : String) : State × Resp :=
  if Gen.tagRejectsEmpty && t == "" then (s, .err) else
  let (s1, r1) := newVersion s parent ("tag-" ++ t) (some t)
  match r1 with
  | .err => if Gen.tagCommitsOnlyOnSuccess then (s1, .err) else ((commit s1 t).1, .err)
  | .ok u => ((commit s1 t).1, .ok u)

/-- one iteration of `deleteRepo`'s loop over the repo's versions: forget the version's uuid everywhere -/
def dropIds (st : State) (n : Node) : State :=
  match lookup st.v2u n.v with
  | none => st
  | some u => { st with repos := delKey st.repos u, u2v := delKey st.u2v u, v2u := delKey st.v2u n.v }

/-- `deleteRepo(uuid, passcode)` (root uuid required) -/
def deleteRepo (s : State) (uuid : String) : State × Resp :=
  match lookup s.repos uuid with
  | none => (s, .err)
  | some repo =>
    if repo ≠ uuid then (s, .err)
    else
      let mine := s.nodes.filter (·.repo = repo)
      let s1 := mine.foldl dropIds s
      ({ s1 with nodes := s1.nodes.filter (·.repo ≠ repo),
                 repoIds := s1.repoIds.filter (fun p => p.2 ≠ repo) }, .ok uuid)

inductive Req where
  | newRepo (assign : Option String)
  | commit (uuid : String)
  | newVersion (parent : String) (assign : Option String)
  | branch (parent : String) (name : String) (assign : Option String)
  | tag (parent : String) (t : String)
  | merge (parents : List String)
  | deleteRepo (uuid : String)
  deriving Repr

/-- `dvid.StringToUUID`: 32 hexadecimal characters.  The line protocol writes a server-generated UUID as
    `g<version id>`; such a name stands for a 32-hex string and is valid as well (it matters when the UUID of a
    deleted repo's node is assigned again). -/
def validUUIDString (u : String) : Bool :=
  (u.length == 32 && u.toList.all (fun c => ('0' ≤ c && c ≤ '9') || ('a' ≤ c && c ≤ 'f') || ('A' ≤ c && c ≤ 'F'))) ||
  (match u.toList with
   | 'g' :: d :: ds => (d :: ds).all (fun c => '0' ≤ c && c ≤ '9')
   | _ => false)

def step (s : State) : Req → State × Resp
  | .newRepo a => newRepo s a
  | .commit u => commit s u
  | .newVersion p a =>
    match a with
    | some u => if validUUIDString u then newVersion s p "" a else (s, .err)
    | none => newVersion s p "" none
  | .branch p name a =>
    if name == "" || name == "master" then (s, .err)
    else match a with
      | some u => if validUUIDString u then newVersion s p name a else (s, .err)
      | none => newVersion s p name none
  | .tag p t => tag s p t
  | .merge ps => merge s ps
  | .deleteRepo u => deleteRepo s u

end Dvid.Manager
