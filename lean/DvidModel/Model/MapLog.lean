import DvidModel.Gen.MapLog
/-
  The labelmap's in-memory supervoxel→body mapping and split list versus what a start-up rebuilds from the
  mutation log: datatype/labelmap/equiv.go (`add*ToMapping`, what each operation sets in memory and what it
  logs) and vcache.go `loadVersionMapping` (what each record replays to).  One version's forward map.
-/
namespace Dvid.MapLog

structure St where
  m : Nat → Option Nat                   -- supervoxel/label -> mapped label (0 = "no longer a label")
  splits : List (Nat × Nat × Nat × Nat)  -- (mutid, supervoxel, remain, split)

def St.init : St := ⟨fun _ => none, []⟩

def set (st : St) (k v : Nat) : St := { st with m := fun x => if x = k then some v else st.m x }
def setAll (st : St) (ks : List Nat) (v : Nat) : St := ks.foldl (fun s k => set s k v) st

/-- mutation-log records -/
inductive Rec where
  | mapping (orig : List Nat) (mapped : Nat)
  | svsplit (mid sv remain split : Nat)
  | cleave (cleaved : Nat)
  | renumber (newlabel : Nat)
  deriving Repr

/-- `loadVersionMapping`: what one record does at start-up -/
def replayRec (st : St) : Rec → St
  | .mapping orig mapped => setAll st orig mapped
  | .svsplit mid sv remain split => set { st with splits := st.splits ++ [(mid, sv, remain, split)] } sv 0
  | .cleave cleaved => set st cleaved 0
  | .renumber nl => set st nl 0

def replay (st : St) (log : List Rec) : St := log.foldl replayRec st

/-- proofreading operations as far as the mapping is concerned -/
inductive Op where
  | merge (to : Nat) (svs : List Nat)
  | cleave (cleaved : Nat) (svs : List Nat)
  | svsplit (mid sv split remain : Nat)
  | renumber (newlabel : Nat) (svs : List Nat)
  deriving Repr

/-- the body a supervoxel currently maps to (`MappedLabel`, identity when unmapped) -/
def St.bodyOf (st : St) (sv : Nat) : Nat := match st.m sv with | some b => b | none => sv

/-- what the operation does to the live in-memory state (`add*ToMapping`) -/
def live (st : St) : Op → St
  | .merge to svs => setAll st svs to
  | .cleave cleaved svs => set (setAll st svs cleaved) cleaved 0
  | .svsplit mid sv split remain =>
    let label := st.bodyOf sv
    let s1 := set (set (set st split label) remain label) sv 0
    { s1 with splits := s1.splits ++ [(mid, sv, remain, split)] }
  | .renumber nl svs => set (setAll st svs nl) nl 0

/-- what the operation appends to the mutation log (`labels.Log*` calls of the mutation and of
    `add*ToMapping`), in order -/
def logOf (st : St) : Op → List Rec
  | .merge to svs => [.mapping svs to]
  | .cleave cleaved svs => [.mapping svs cleaved, .cleave cleaved]
  | .svsplit mid sv split remain =>
    List.replicate Gen.svSplitLogAppends (.svsplit mid sv remain split) ++
      [.mapping [sv] 0, .mapping [split, remain] (st.bodyOf sv)]
  | .renumber nl svs => [.renumber nl, .mapping svs nl]

/-- the live state and the log after a sequence of operations -/
def run (st : St) : List Op → St × List Rec
  | [] => (st, [])
  | op :: ops =>
    let r := run (live st op) ops
    (r.1, logOf st op ++ r.2)

/-- side conditions under which an operation is well formed: the labels it creates are new -/
def Op.Ok : Op → Prop
  | .merge _ _ => True
  | .cleave cleaved svs => cleaved ∉ svs
  | .svsplit _ sv split remain => sv ≠ split ∧ sv ≠ remain ∧ split ≠ remain
  | .renumber nl svs => nl ∉ svs


end Dvid.MapLog
