import DvidModel.Model.Ann
import DvidModel.Gen.AnnSync
/-
  The per-body annotation lists (label-indexed denormalisation) under label events of the synced volume:
  datatype/annotation/sync.go `mergeLabels` and `cleaveLabels`.  A body's list holds the relationship-free
  copies of the elements whose position lies on a voxel of the body.  `svAt` is the supervoxel under each
  position (label events do not change voxels), `body` the supervoxel→body mapping they change.
-/
namespace Dvid.AnnLabel
open Dvid Dvid.Ann

structure LSt where
  elems : List Elem
  svAt : Pos → Nat
  body : Nat → Nat
  idx : Nat → List Elem

def LSt.labelOf (s : LSt) (p : Pos) : Nat := s.body (s.svAt p)

/-- `mergeLabels(op)`: the merged bodies' lists are appended to the target's and deleted -/
def mergeSync (s : LSt) (target : Nat) (ms : List Nat) : LSt :=
  { s with
    body := fun sv => if s.body sv ∈ ms then target else s.body sv
    idx := fun b =>
      if Gen.annMergeAppendsAndDeletes then
        (if b = target then s.idx target ++ ms.flatMap s.idx else if b ∈ ms then [] else s.idx b)
      else s.idx b }

/-- `cleaveLabels(op)`: the target's elements whose position lies in a cleaved supervoxel move to the new body.
    The Go code collects both sides in a map that only has entries for non-empty sides, writes those, and deletes
    the target's key when it has no entry (regenerated fact). -/
def cleaveSync (s : LSt) (target cleaved : Nat) (svs : List Nat) : LSt :=
  let te := s.idx target
  let moved := te.filter fun e => decide (s.svAt e.pos ∈ svs)
  let kept := te.filter fun e => !decide (s.svAt e.pos ∈ svs)
  { s with
    body := fun sv => if sv ∈ svs ∧ s.body sv = target then cleaved else s.body sv
    idx := fun b =>
      if te.isEmpty then s.idx b                       -- nothing stored under the target: early return
      else if b = cleaved then (if moved.isEmpty then s.idx cleaved else moved)
      else if b = target then
        (if kept.isEmpty then (if Gen.annCleaveDeletesEmptiedTarget then [] else te) else kept)
      else s.idx b }


/-- `storeLabelElements`: the posted elements are grouped by the body under their position (label 0 is skipped)
    and added to that body's list, replacing an element at the same position -/
def postLabels (s : LSt) (new : List Elem) : LSt :=
  { s with
    elems := addList s.elems new
    idx := fun b =>
      if Gen.annLabelSkipsZero && decide (b = 0) then s.idx b else
      let adds := (new.filter fun e => decide (s.labelOf e.pos = b)).map nr
      if adds.isEmpty then s.idx b
      else if Gen.annLabelPostReplacesSamePos then addList (s.idx b) adds else s.idx b ++ adds }

/-- `deleteElementInLabel` after the block delete: the element at `p` leaves the list of the body under `p` -/
def deleteLabels (s : LSt) (p : Pos) : LSt :=
  { s with
    elems := removePos s.elems p
    idx := fun b => if Gen.annLabelDeleteRemovesAtPoint && decide (b = s.labelOf p) then removePos (s.idx b) p else s.idx b }


end Dvid.AnnLabel
