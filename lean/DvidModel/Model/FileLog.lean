import DvidModel.Model.Bytes
import DvidModel.Gen.FileLog
/-
  Append-only log framing: storage/filelog/filelog.go `writeHeader` + `Append`, and the record reader
  shared by `ReadAll` / `StreamAll`.  A record is a 2-byte little-endian entry type, a 4-byte little-endian
  payload length, the payload.
-/
namespace Dvid.FileLog
open Dvid

structure Rec where
  typ : Nat
  data : Bytes
  deriving DecidableEq, Repr

def le16 (n : Nat) : Bytes := [UInt8.ofNat n, UInt8.ofNat (n / 256)]
def le32 (n : Nat) : Bytes := [UInt8.ofNat n, UInt8.ofNat (n / 256), UInt8.ofNat (n / 65536), UInt8.ofNat (n / 16777216)]
def fromLe16 : Bytes → Nat
  | a :: b :: _ => a.toNat + b.toNat * 256
  | _ => 0
def fromLe32 : Bytes → Nat
  | a :: b :: c :: d :: _ => a.toNat + b.toNat * 256 + c.toNat * 65536 + d.toNat * 16777216
  | _ => 0

/-- `writeHeader(msg)` then `Write(msg.Data)` -/
def encode (r : Rec) : Bytes := le16 r.typ ++ le32 r.data.length ++ r.data

def encodeAll (rs : List Rec) : Bytes := rs.flatMap encode

inductive Item where
  | msg (r : Rec)
  | torn (typ : Nat) (have_ want : Nat)   -- the reader returned a record whose payload runs past the end of the
                                           -- file (padded from slice capacity, or a slice-bounds panic)
  deriving DecidableEq, Repr

/-- the reading loop of `ReadAll` / `StreamAll` (fuel = number of bytes, enough since every round consumes ≥ 6).
    Whether a payload that runs past the end of the data is dropped is a regenerated fact. -/
def decode : Nat → Bytes → List Item
  | 0, _ => []
  | fuel + 1, data =>
    if data.isEmpty then []
    else if data.length < Gen.filelogHeaderSize then []          -- "malformed filelog": break
    else
      let typ := fromLe16 data
      let size := fromLe32 (data.drop 2)
      let body := data.drop Gen.filelogHeaderSize
      if body.length < size then
        if Gen.filelogBoundsChecked then [] else [.torn typ body.length size]
      else .msg ⟨typ, body.take size⟩ :: decode fuel (body.drop size)

def readAll (data : Bytes) : List Item := decode (data.length + 1) data

end Dvid.FileLog
