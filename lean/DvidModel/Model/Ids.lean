import DvidModel.Gen.Manager
/-
  Identifier allocation state machines with crash / restart events.
  (a) mutation ids: datastore/repo_local.go `repoT.initMutationID`, `newMutationID`;
  (b) labels: datatype/labelmap/labelmap.go `newLabel(s)`, `updateMaxLabel`, `updateBlockMaxLabel`,
      `loadLabelIDs`, `SetNextLabelStart`.
  "persisted" fields are what the key-value store holds; a crash keeps only those.
-/
namespace Dvid.Ids

/-! ### (a) mutation ids -/

structure Mut where
  cur : Nat
  saved : Nat
  persisted : Nat     -- 0 = no value stored yet
  deriving DecidableEq, Repr

/-- `initMutationID(store, mutationIDStart, readOnly=false)`: at repo creation and at every start-up -/
def Mut.init (start persisted : Nat) : Mut :=
  let cur := if persisted < start then start else persisted
  ⟨cur, cur + Gen.strideMutationID, cur + Gen.strideMutationID⟩

/-- `newMutationID()`: returns the id and the new state -/
def Mut.alloc (m : Mut) : Mut × Nat :=
  let cur := m.cur + 1
  if cur ≥ m.saved then (⟨cur, m.saved + Gen.strideMutationID, m.saved + Gen.strideMutationID⟩, m.cur)
  else (⟨cur, m.saved, m.persisted⟩, m.cur)

inductive MutEv where
  | alloc                -- an id is handed out
  | restart              -- process stops (cleanly or not) and starts again on the same store
  | crashInAlloc         -- the process dies inside newMutationID after the counter was bumped and before the
                         -- put of the new bound: nothing is handed out, nothing is persisted
  deriving DecidableEq, Repr

def Mut.step (start : Nat) (m : Mut) : MutEv → Mut × Option Nat
  | .alloc => let (m', id) := m.alloc; (m', some id)
  | .restart => (Mut.init start m.persisted, none)
  | .crashInAlloc => (Mut.init start m.persisted, none)

/-- ids handed out along a run -/
def Mut.run (start : Nat) : Mut → List MutEv → List Nat
  | _, [] => []
  | m, e :: es =>
    match Mut.step start m e with
    | (m', some id) => id :: Mut.run start m' es
    | (m', none) => Mut.run start m' es

/-! ### (b) labels -/

structure Lab where
  maxRepo : Nat
  maxVer : Nat → Nat          -- MaxLabel[v] (0 = absent)
  next : Nat                  -- NextLabel (0 = not set)
  pRepo : Nat                 -- the repo-wide max label key (written at instance creation, so it always exists;
                              -- the `veryLargeLabel` fallback of `loadLabelIDs` for stores without it is not modelled)
  pVer : Nat → Nat
  pNext : Nat

def Lab.init : Lab := ⟨0, fun _ => 0, 0, 0, fun _ => 0, 0⟩


def upd (f : Nat → Nat) (k v : Nat) : Nat → Nat := fun x => if x = k then v else f x

/-- `newLabels(v, n)` (`newLabel` = n = 1): returns (begin, end) -/
def Lab.newLabels (l : Lab) (v n : Nat) : Lab × Nat × Nat :=
  if l.next ≠ 0 then
    ({ l with next := l.next + n, pNext := l.next + n }, l.next + 1, l.next + n)
  else
    let e := l.maxRepo + n
    ({ l with maxRepo := e, maxVer := upd l.maxVer v e, pVer := upd l.pVer v e, pRepo := e }, l.maxRepo + 1, e)

/-- `updateMaxLabel(v, label)` / `updateBlockMaxLabel` (sequential): an ingest of data containing `label` -/
def Lab.ingest (l : Lab) (v label : Nat) : Lab :=
  if l.maxVer v < label then
    let l1 := { l with maxVer := upd l.maxVer v label, pVer := upd l.pVer v label }
    if label > l1.maxRepo then { l1 with maxRepo := label, pRepo := label } else l1
  else l

/-- `loadLabelIDs` at start-up, with `vs` the versions that have a persisted per-version max -/
def Lab.reload (l : Lab) (vs : List Nat) : Lab :=
  let verMax := vs.foldl (fun m v => max m (l.pVer v)) 0
  { l with maxVer := l.pVer, maxRepo := max l.pRepo verMax, next := l.pNext }

inductive LabEv where
  | newLabels (v n : Nat)       -- n ≥ 1
  | ingest (v label : Nat)
  | restart (vs : List Nat)
  deriving Repr

def Lab.step (l : Lab) : LabEv → Lab × List Nat
  | .newLabels v n => let r := l.newLabels v (n + 1); (r.1, (List.range (n + 1)).map (· + r.2.1))
  | .ingest v label => (l.ingest v label, [])
  | .restart vs => (l.reload vs, [])

/-- labels handed out along a run, in issue order -/
def Lab.run : Lab → List LabEv → List Nat
  | _, [] => []
  | l, e :: es => (l.step e).2 ++ Lab.run (l.step e).1 es


/-! ### (b') labels after an administrator repositioned the counter (`set-nextlabel`): `NextLabel ≠ 0` -/

structure Nx where
  next : Nat
  pNext : Nat     -- the persisted next-label key
  deriving DecidableEq, Repr

/-- `SetNextLabelStart(n)` -/
def Nx.set (n : Nat) : Nx := ⟨n, n⟩

/-- `newLabel` (cleave, split without caller-supplied labels) -/
def Nx.alloc1 (x : Nx) : Nx × Nat :=
  if Gen.nextLabelPersistsIssued then (⟨x.next + 1, x.next + 1⟩, x.next + 1)
  else (⟨x.next + 1, x.next⟩, x.next + 1)   -- a shape that persists before advancing

/-- `newLabels(n)` (POST nextlabel/n), n ≥ 1 -/
def Nx.allocN (x : Nx) (n : Nat) : Nx × Nat × Nat := (⟨x.next + n, x.next + n⟩, x.next + 1, x.next + n)

/-- restart or crash: the counter is reloaded from its key -/
def Nx.restart (x : Nx) : Nx := ⟨x.pNext, x.pNext⟩

inductive NxEv where
  | one
  | many (n : Nat)     -- n+1 labels
  | restart
  deriving Repr

def Nx.step (x : Nx) : NxEv → Nx × List Nat
  | .one => let r := x.alloc1; (r.1, [r.2])
  | .many n => let r := x.allocN (n + 1); (r.1, (List.range (n + 1)).map (· + r.2.1))
  | .restart => (x.restart, [])

def Nx.run : Nx → List NxEv → List Nat
  | _, [] => []
  | x, e :: es => (x.step e).2 ++ Nx.run (x.step e).1 es

/-! ### (c) version ids: persistence order and the loader's repair -/

/-- what the store holds: the version-id counter (`newIDs` key) and the largest version id in the stored
    `versionToUUID` map (0 = empty) -/
structure VerP where
  counter : Nat
  mapMax : Nat
  deriving DecidableEq, Repr

/-- the two writes of `newUUID`, in the order the source performs them: first the map, then the counter -/
def VerP.afterMapWrite (p : VerP) : VerP := { p with mapMax := max p.mapMax p.counter }
def VerP.afterCounterWrite (p : VerP) : VerP := { p with counter := p.counter + 1 }

/-- the in-memory counter after `loadMetadata` -/
def VerP.reload (p : VerP) : Nat :=
  if Gen.loaderRepairsEqualVersion then (if p.mapMax ≥ p.counter then p.mapMax + 1 else p.counter)
  else (if p.mapMax > p.counter then p.mapMax + 1 else p.counter)

end Dvid.Ids
