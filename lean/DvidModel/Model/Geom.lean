import DvidModel.Model.Bytes
import DvidModel.Gen.Geom
/-
  Spatial key codecs.  dvid/point.go `Point3d.ToZYXBytes/FromZYXBytes` (offset-binary big-endian z,y,x);
  datatype/common/labels/index.go `EncodeBlockIndex/DecodeBlockIndex` (three 21-bit sign-magnitude fields).
  Coordinates are `Int`; the Go types are int32, so theorems carry an explicit range hypothesis.
-/
namespace Dvid.Geom
open Dvid

def I32 (c : Int) : Prop := -2147483648 ≤ c ∧ c < 2147483648

/-- `uint32(int64(c) - math.MinInt32)` -/
def offsetBinary (c : Int) : Nat := (c + 2147483648).toNat

/-- `Point3d.ToZYXBytes`: z, y, x in the generated field order -/
def zyxBytes (x y z : Int) : Bytes :=
  Gen.zyxFieldOrder.flatMap fun f => be32 (offsetBinary (if f = 2 then z else if f = 1 then y else x))

/-- `Point3d.FromZYXBytes` (12 bytes) -/
def zyxDecode (b : Bytes) : Option (Int × Int × Int) :=
  if b.length ≠ 12 then none
  else
    let f (i : Nat) : Int := (fromBe32 (b.drop (4 * i)) : Int) - 2147483648
    some (f 2, f 1, f 0)

/-- one 21-bit field of the packed block index: bit 20 = sign, low 20 bits = `(-c or c) & 0xFFFFF` -/
def encField (c : Int) : Nat :=
  if c < 0 then Gen.blockIndexSignBit + (-c).toNat % (Gen.blockIndexMagMask + 1)
  else c.toNat % (Gen.blockIndexMagMask + 1)

def decField (f : Nat) : Int :=
  let mag : Int := (f % (Gen.blockIndexMagMask + 1) : Nat)
  if f / Gen.blockIndexSignBit % 2 = 1 then -mag else mag

/-- `EncodeBlockIndex(x, y, z)` -/
def encodeBlockIndex (x y z : Int) : Nat :=
  (encField z * 2 ^ Gen.blockIndexShift + encField y) * 2 ^ Gen.blockIndexShift + encField x

/-- `DecodeBlockIndex(zyx)` -/
def decodeBlockIndex (n : Nat) : Int × Int × Int :=
  let fx := n % 2 ^ Gen.blockIndexShift
  let fy := n / 2 ^ Gen.blockIndexShift % 2 ^ Gen.blockIndexShift
  let fz := n / 2 ^ Gen.blockIndexShift / 2 ^ Gen.blockIndexShift % 2 ^ Gen.blockIndexShift
  (decField fx, decField fy, decField fz)

/-- Go's `Point3d.Chunk` per axis: floor division written by case on the sign (`/` truncates in Go) -/
def chunk (p size : Int) : Int :=
  if p < 0 then Int.tdiv (p - size + 1) size else Int.tdiv p size

end Dvid.Geom
