import DvidModel.Model.Block
import DvidModel.Gen.Pyramid
/-
  The multi-resolution label pyramid (datatype/common/downres, datatype/labelmap/downres.go).
  A level is a labelling of Z^3; the next level is the 2x2x2 vote (`downresArray`, modelled in Model/Block as
  `vote`).  A mutation changes some blocks at level 0; `Mutation.Execute` recomputes, level by level, exactly
  the parent blocks of the blocks changed at the level below and leaves every other block as stored.
-/
namespace Dvid.Pyramid
open Dvid.Block

abbrev Vol := Int → Int → Int → Nat
abbrev BCoord := Int × Int × Int

/-- the eight voxels beneath lower-resolution voxel (x,y,z), in `downresArray`'s iteration order -/
def under (v : Vol) (x y z : Int) : List Nat :=
  [v (2*x) (2*y) (2*z), v (2*x+1) (2*y) (2*z), v (2*x) (2*y+1) (2*z), v (2*x+1) (2*y+1) (2*z),
   v (2*x) (2*y) (2*z+1), v (2*x+1) (2*y) (2*z+1), v (2*x) (2*y+1) (2*z+1), v (2*x+1) (2*y+1) (2*z+1)]

def level1 (v : Vol) : Vol := fun x y z => vote (under v x y z)

def levelN : Nat → Vol → Vol
  | 0, v => v
  | k + 1, v => level1 (levelN k v)

/-- block of a voxel for cubic blocks of side `B` (Go: arithmetic on offset coordinates = floor division) -/
def blockOf (B : Int) (x y z : Int) : BCoord := (x / B, y / B, z / B)

/-- `getHiresChanges`: the lower-resolution block a changed block contributes to -/
def parentOf (h : BCoord) : BCoord :=
  if Gen.downresParentIsHalf then (h.1 / 2, h.2.1 / 2, h.2.2 / 2) else h

def parents (T : BCoord → Prop) : BCoord → Prop := fun b => ∃ h, T h ∧ parentOf h = b

/-- one level of `Execute`: blocks in `P` are recomputed from the new level below, all others stay as stored -/
def updateLevel (B : Int) (stored : Vol) (below' : Vol) (P : BCoord → Prop) [DecidablePred P] : Vol :=
  fun x y z => if P (blockOf B x y z) then level1 below' x y z else stored x y z

/-- `Block.Downres(octants)` on one lower-resolution block.  `given o`: octant `o` was handed in (non-nil);
    `solid o = some l`: that octant is a solid block of label `l`; `octOf`: the octant a voxel of the block lies in.
    `needsAll = true` is the current shape of `setBlank` (solid shortcut only with eight given solid octants of
    one label); `false` is the shape in which a nil octant counts as a solid label-0 octant. -/
def blockDownresWith (needsAll : Bool) (stored below' : Vol) (given : Nat → Bool) (solid : Nat → Option Nat)
    (octOf : Int → Int → Int → Nat) : Vol :=
  let slow : Vol := fun x y z => if given (octOf x y z) then level1 below' x y z else stored x y z
  if needsAll then
    match solid 0 with
    | some l => if (List.range 8).all (fun o => given o && solid o == some l) then fun _ _ _ => l else slow
    | none => slow
  else
    if (List.range 8).all (fun o => if given o then solid o == some 0 else true) then fun _ _ _ => 0 else slow

def blockDownres := blockDownresWith Gen.downresSolidNeedsAllOctants

end Dvid.Pyramid
