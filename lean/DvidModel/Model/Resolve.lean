import DvidModel.Gen.Resolver
/-
  Mirror of the version-DAG resolver: datastore/repo_local.go `findMatch` / `invalidateAncestors`,
  called through `kvVersions.FindMatch` by `VersionedCtx.GetBestKeyVersion` / `VersionedKeyValue`.
  Core Lean only.

  * a DAG is its parent function (`getParentsByVersion`); version ids are natural numbers;
  * the per-datum version map `kvv` is `es : Nat → Option Entry` plus the set of versions whose
    `invalid` flag has been set (`Marks`); the Go code sets the flag only on versions present in `kvv`;
  * recursion is on fuel; `fuel = v + 1` suffices when every parent id is smaller than its child
    (`Dag.WF`, an invariant of the manager: ids come from a counter and parents exist before children).
-/
namespace Dvid.Resolve

structure Dag where
  parents : Nat → List Nat

/-- what the store holds for one datum at one version -/
inductive Entry where
  | val (x : Nat)     -- a data key (value identity x)
  | tomb              -- a tombstone key
  deriving DecidableEq, Repr

abbrev Entries := Nat → Option Entry
abbrev Marks := List Nat

/-- outcome of `findMatch`: nil kv, a kv found at a version, or an error -/
inductive Res where
  | none
  | found (v : Nat) (x : Nat)
  | err
  deriving DecidableEq, Repr

/-- `invalidateAncestors(kvv, v)` -/
def invalidate (d : Dag) (es : Entries) : Nat → Marks → Nat → Marks
  | 0, m, _ => m
  | fuel + 1, m, v =>
    (d.parents v).foldl (fun m p =>
      match es p with
      | some _ => if p ∈ m then m else invalidate d es fuel (p :: m) p
      | none => invalidate d es fuel m p) m

/-- accumulator of the merge loop: `none` = a parent returned an error (the loop returns at once);
    otherwise the matches in the order found (the last one is Go's `foundKV`/`foundV`). -/
abbrev Acc := Option (List (Nat × Nat)) × Marks

/-- what the code does after the parent loop: drop matches whose version got invalidated, then switch on
    how many distinct versions remain.  **Literal mirror**: on exactly one remaining version it returns
    the *last* match found (`foundKV`), whether or not that is the remaining one. -/
def decide (found : List (Nat × Nat)) (m : Marks) : Res :=
  let vs := (found.map (·.1)).eraseDups
  let live := vs.filter (fun v => !(m.contains v))
  match live.length with
  | 0 => .none
  | 1 => match found.getLast? with
         | some (v, x) => .found v x
         | none => .none
  | _ => .err

/-- the variant that returns the surviving match (used to state what a repair achieves) -/
def decideSurvivor (found : List (Nat × Nat)) (m : Marks) : Res :=
  let live := found.filter (fun p => !(m.contains p.1))
  match (live.map (·.1)).eraseDups with
  | [] => .none
  | [v] => match live.find? (fun p => p.1 == v) with
           | some (v, x) => .found v x
           | none => .none
  | _ => .err

/-- one iteration of the parent loop of a merge node; `fm` is the recursive call -/
def mergeStep (fm : Marks → Nat → Res × Marks) (acc : Acc) (p : Nat) : Acc :=
  match acc.1 with
  | none => acc
  | some fs =>
    match fm acc.2 p with
    | (.err, m2) => (none, m2)
    | (.found a x, m2) => (some (fs ++ [(a, x)]), m2)
    | (.none, m2) => (some fs, m2)

def mergeLoop (fm : Marks → Nat → Res × Marks) (ps : List Nat) (m : Marks) : Acc :=
  ps.foldl (mergeStep fm) (some [], m)

/-- `findMatch(kvv, v)`; `pick` is the post-loop decision (`decide` for the code as written) -/
def findMatchWith (pick : List (Nat × Nat) → Marks → Res) (d : Dag) (es : Entries) : Nat → Marks → Nat → Res × Marks
  | 0, m, _ => (.err, m)
  | fuel + 1, m, v =>
    match es v with
    | some e =>
      if v ∈ m then (.none, m)
      else
        let m' := invalidate d es fuel m v
        match e with
        | .tomb => (.none, m')
        | .val x => (.found v x, m')
    | none =>
      match d.parents v with
      | [] => (.none, m)
      | [p] => findMatchWith pick d es fuel m p
      | ps =>
        let acc := mergeLoop (findMatchWith pick d es fuel) ps m
        match acc.1 with
        | none => (.err, acc.2)
        | some fs => (pick fs acc.2, acc.2)

/-- the post-loop decision the source currently has (regenerated fact `Gen.mergeReturnsSurvivor`) -/
def pickCur : List (Nat × Nat) → Marks → Res := if Gen.mergeReturnsSurvivor then decideSurvivor else decide

def findMatch := findMatchWith pickCur
def findMatchSurvivor := findMatchWith decideSurvivor

/-- a read at `v` with a fresh version map (each `Get` builds its own `kvv`) -/
def readAt (d : Dag) (es : Entries) (v : Nat) : Res := (findMatch d es (v + 1) [] v).1
def readAtSurvivor (d : Dag) (es : Entries) (v : Nat) : Res := (findMatchSurvivor d es (v + 1) [] v).1

/-- `VersionedCtx.GetBestKeyVersion` / `BadgerDB.Get`: what a point read observes — whether a conflict
    error from `findMatch` is reported or silently becomes "no value" is a regenerated fact -/
def pointRead (d : Dag) (es : Entries) (v : Nat) : Res :=
  match readAt d es v with
  | .err => if Gen.bestKeyPropagatesError then .err else .none
  | r => r

/-- every parent id is smaller than its child -/
def Dag.WF (d : Dag) : Prop := ∀ v p, p ∈ d.parents v → p < v

/-- finite presentation used by the driver and by `decide` witnesses: node i has parents `ps[i]` -/
def Dag.ofList (ps : List (List Nat)) : Dag := ⟨fun v => ps.getD v []⟩
def entriesOfList (es : List (Option Entry)) : Entries := fun v => es.getD v none

end Dvid.Resolve
