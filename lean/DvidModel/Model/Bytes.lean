/-
  Byte strings, big-endian 32-bit ids and the byte-wise lexicographic comparison that every
  DVID ordered key-value backend (Badger: bytes.Compare) sorts by.  Core Lean only.
-/
namespace Dvid

abbrev Bytes := List UInt8

/-- `dvid.{Instance,Version,Client,Repo}ID.Bytes()`: 4 bytes, big endian (binary.BigEndian.PutUint32). -/
def be32 (n : Nat) : Bytes :=
  [UInt8.ofNat (n / 16777216), UInt8.ofNat (n / 65536), UInt8.ofNat (n / 256), UInt8.ofNat n]

/-- `binary.BigEndian.Uint32` on the first four bytes. -/
def fromBe32 : Bytes → Nat
  | a :: b :: c :: d :: _ => a.toNat * 16777216 + b.toNat * 65536 + c.toNat * 256 + d.toNat
  | _ => 0

/-- `bytes.Compare`. -/
def cmpBytes : Bytes → Bytes → Ordering
  | [], [] => .eq
  | [], _ :: _ => .lt
  | _ :: _, [] => .gt
  | a :: as, b :: bs =>
    if a < b then .lt else if b < a then .gt else cmpBytes as bs

def bytesLE (a b : Bytes) : Bool := cmpBytes a b != .gt
def bytesLT (a b : Bytes) : Bool := cmpBytes a b == .lt

def hexDigit (n : Nat) : Char :=
  if n < 10 then Char.ofNat (48 + n) else Char.ofNat (87 + n)

def toHex (bs : Bytes) : String :=
  String.ofList (bs.flatMap fun b => [hexDigit (b.toNat / 16), hexDigit (b.toNat % 16)])

def hexVal (c : Char) : Option Nat :=
  if '0' ≤ c ∧ c ≤ '9' then some (c.toNat - 48)
  else if 'a' ≤ c ∧ c ≤ 'f' then some (c.toNat - 87)
  else if 'A' ≤ c ∧ c ≤ 'F' then some (c.toNat - 55)
  else none

def ofHexAux : List Char → Array UInt8 → Option (Array UInt8)
  | [], acc => some acc
  | [_], _ => none
  | a :: b :: rest, acc =>
    match hexVal a, hexVal b with
    | some x, some y => ofHexAux rest (acc.push (UInt8.ofNat (x * 16 + y)))
    | _, _ => none

/-- tail-recursive (megabyte payloads arrive on one protocol line) -/
def ofHexChars (cs : List Char) : Option Bytes := (ofHexAux cs #[]).map Array.toList

/-- "-" denotes the empty byte string in the line protocol. -/
def ofHex (s : String) : Option Bytes :=
  if s == "-" then some [] else ofHexChars s.toList

def showHex (bs : Bytes) : String := if bs.isEmpty then "-" else toHex bs

end Dvid
