import DvidModel.Model.Geom
import DvidModel.Gen.ImageBlk
/-
  Image volumes (datatype/imageblk): the transfer between a request buffer (3-D box or 2-D orthogonal slice)
  and one stored block.

  Go: `Voxels.ComputeTransform` (read.go) gives, per axis, where the intersection of request and block starts in
  the block (`blockBeg`) and where it starts/ends in the request (`dataBeg`, `dataEnd`);  `Voxels.readBlock`
  (read.go) and `Voxels.writeBlock` (write.go) then copy row segments between the two byte buffers with the
  index arithmetic mirrored in `segs` below (the Go loops keep running counters `blockY++`, `blockI += bX`;
  the closed forms here are the values those counters take).  Coordinates are `Int` (Go: int32 widened to int64
  before the index arithmetic), so there is no overflow in the modelled range.
-/
namespace Dvid.ImageBlk

structure Xfer where
  blockBeg : Int
  dataBeg : Int
  dataEnd : Int
deriving Repr, DecidableEq

/-- One axis of `ComputeTransform`: block `b` of size `n` against a request of `m` voxels starting at `s`.
    `ChunkPoint3d.MinPoint = b*n`, `MaxPoint = (b+1)*n - 1`, `Point.Max / Min`, then `Sub`. -/
def axisXfer (n s m b : Int) : Xfer :=
  if !(Gen.ibTransformIsIntersection && Gen.ibBlockBoxIsGrid) then { blockBeg := 0, dataBeg := 0, dataEnd := -1 } else
  let minB := b * n
  let maxB := (b + 1) * n - 1
  let beg := max s minB
  let en := min (s + m - 1) maxB
  { blockBeg := beg - minB, dataBeg := beg - s, dataEnd := en - s }

/-- the integers `a, a+1, …, b` (empty when `b < a`): `for i := a; i <= b; i++` -/
def irange (a b : Int) : List Int := (List.range (b - a + 1).toNat).map fun (i : Nat) => a + (i : Int)

/-- one `copy(dst[i:i+len], src[j:j+len])`: request-buffer index, block-buffer index, length in bytes -/
structure Seg where
  dataI : Int
  blockI : Int
  len : Int
deriving Repr, DecidableEq

inductive Shape | vol | xy | xz | yz
deriving Repr, DecidableEq

/-- everything the transfer looks at: bytes per voxel, block size, request start and size in voxels
    (size 1 along the normal of a 2-D slice) -/
structure Geo where
  bpv : Int
  nx : Int
  ny : Int
  nz : Int
  sx : Int
  sy : Int
  sz : Int
  mx : Int
  my : Int
  mz : Int
deriving Repr

/-- the row copies of `readBlock` / `writeBlock` for block `(bx,by_,bz)`, per data shape -/
def segs (sh : Shape) (g : Geo) (bx by_ bz : Int) : List Seg :=
  let tx := axisXfer g.nx g.sx g.mx bx
  let ty := axisXfer g.ny g.sy g.my by_
  let tz := axisXfer g.nz g.sz g.mz bz
  let bX := g.nx * g.bpv
  let bY := g.ny * bX
  let rowBytes := (tx.dataEnd - tx.dataBeg + 1) * g.bpv
  match sh with
  | .vol =>
    if !Gen.ibReadVolRowCopies then [] else
    let dX := g.mx * g.bpv
    let dY := g.my * dX
    (irange tz.dataBeg tz.dataEnd).flatMap fun dz =>
      (irange ty.dataBeg ty.dataEnd).map fun dy =>
        { dataI := dz * dY + dy * dX + tx.dataBeg * g.bpv,
          blockI := (tz.blockBeg + (dz - tz.dataBeg)) * bY + (ty.blockBeg + (dy - ty.dataBeg)) * bX + tx.blockBeg * g.bpv,
          len := rowBytes }
  | .xy =>
    let dX := g.mx * g.bpv
    (irange ty.dataBeg ty.dataEnd).map fun dy =>
      { dataI := dy * dX + tx.dataBeg * g.bpv,
        blockI := tz.blockBeg * bY + (ty.blockBeg + (dy - ty.dataBeg)) * bX + tx.blockBeg * g.bpv,
        len := rowBytes }
  | .xz =>
    let dX := g.mx * g.bpv
    (irange tz.dataBeg tz.dataEnd).map fun dz =>
      { dataI := dz * dX + tx.dataBeg * g.bpv,
        blockI := (tz.blockBeg + (dz - tz.dataBeg)) * bY + ty.blockBeg * bX + tx.blockBeg * g.bpv,
        len := rowBytes }
  | .yz =>
    let dX := g.my * g.bpv
    (irange tz.dataBeg tz.dataEnd).flatMap fun dz =>
      (irange ty.dataBeg ty.dataEnd).map fun dy =>
        { dataI := dz * dX + dy * g.bpv,
          blockI := (tz.blockBeg + (dz - tz.dataBeg)) * bY + (ty.blockBeg + (dy - ty.dataBeg)) * bX + tx.blockBeg * g.bpv,
          len := g.bpv }

/-- `Extents.AdjustPoints` on one axis: the advertised interval after a write of `[lo, hi]` -/
def adjust (e : Option (Int × Int)) (lo hi : Int) : Option (Int × Int) :=
  if !Gen.ibExtentsOnlyGrow then some (lo, hi) else
  match e with
  | none => some (lo, hi)
  | some (a, b) => some (min a lo, max b hi)

/-- the two voxel write paths of the API -/
inductive WriteKind | raw | blocks
deriving Repr, DecidableEq

/-- does the write path report its box to `PostExtents`?  (regenerated from `PutVoxels` / `PutBlocks`) -/
def postsExtents : WriteKind → Bool
  | .raw => Gen.ibPutVoxelsPostsExtents
  | .blocks => Gen.ibPutBlocksPostsExtents

structure Write where
  kind : WriteKind
  lo : Int
  hi : Int

/-- the advertised extent along one axis after a history of writes -/
def advertised (ws : List Write) : Option (Int × Int) :=
  ws.foldl (fun e w => if postsExtents w.kind then adjust e w.lo w.hi else e) none

/-- bytes the `blocks` endpoint consumes per block for `vox` voxels of `bpv` bytes -/
def postedBlockBytes (vox bpv : Int) : Int := if Gen.ibPutBlocksWholeBlocks then vox * bpv else vox

/-- what a raw read starts from where no block is stored (1-byte voxels; `bg` = the instance's Background) -/
def initByte (bg : UInt8) : UInt8 := if Gen.ibReadPrefillsBackground then bg else 0

/-- `dvid.BlockAligned` on one axis (Go `%` truncates; a multiple is a multiple either way) -/
def aligned (n s m : Int) : Bool := Int.tmod s n == 0 && Int.tmod (s + m - 1 + 1) n == 0

end Dvid.ImageBlk
