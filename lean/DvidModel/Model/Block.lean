import DvidModel.Gen.Block
/-
  DVID's compressed label block (datatype/common/labels/compressed.go): the decoder side
  (`getPackedValue`, `bitsFor`, `Block.Value`, `Block.MakeLabelVolume`), the direct views
  (`getNumVoxels`, per-label counts), the table-level edits (`MergeLabels`, `ReplaceLabel(s)`)
  and the down-sampling vote (`downresArray`, `DownresLabels`).

  A block is the five exported fields the Go code works on: the sub-block grid (gx,gy,gz), the block label
  table, the per-sub-block label counts, the concatenated per-sub-block index lists and the bit-packed values.
  Bytes are `Nat`s below 256.  Go panics on an out-of-range slice access; the model reads 0 there and every
  theorem that depends on it carries the explicit well-formedness check `wf`.
-/
namespace Dvid.Block

/-- `bitsFor`'s loop on a uint16: fuel 17 covers every 16-bit value -/
def bitsForLoop : Nat → Nat → Nat → Nat
  | 0, _, bits => bits
  | f + 1, n, bits => if n > 0 then bitsForLoop f (n >>> 1) (bits + 1) else bits

def bitsFor (n : Nat) : Nat := if n < 2 then 0 else bitsForLoop 17 (n - 1) 0

def mask (bitPos : Nat) : Nat := Gen.leftBitMask.getD bitPos 0

/-- `getPackedValue` on the (at most) two bytes it touches -/
def getPacked2 (b0 b1 bitPos bits : Nat) : Nat :=
  if bitPos + bits ≤ 8 then (b0 &&& mask bitPos) >>> (8 - bitPos - bits)
  else (((b0 &&& mask bitPos) <<< 8) ||| b1) >>> (16 - bitPos - bits)

def getPacked (vals : Array Nat) (bitHead bits : Nat) : Nat :=
  getPacked2 (vals.getD (bitHead >>> 3) 0) (vals.getD ((bitHead >>> 3) + 1) 0) (bitHead % 8) bits

/-- the encoder's write of one index (`encodeBlock`, second pass) on the two bytes it touches -/
def putPacked2 (b0 b1 bitPos bits idx : Nat) : Nat × Nat :=
  if bitPos + bits ≤ 8 then (b0 ||| ((idx <<< (8 - bits - bitPos)) % 256), b1)
  else
    let v := (idx <<< (16 - bits - bitPos)) % 65536
    (b0 ||| ((v &&& 0xFF00) >>> 8), v &&& 0xFF)

structure Block where
  gx : Nat
  gy : Nat
  gz : Nat
  labels : Array Nat
  numSB : Array Nat
  sbIdx : Array Nat
  values : Array Nat

def alignUp (bp : Nat) : Nat := if bp % 8 ≠ 0 then bp + (8 - bp % 8) else bp

/-- running (index position, bit position) after one sub-block with `n` labels -/
def sbAdvance (st : Nat × Nat) (n : Nat) : Nat × Nat :=
  (st.1 + n, if n > 1 then alignUp (st.2 + 512 * bitsFor n) else st.2)

/-- `Block.Value`'s prefix loop: where sub-block `k` starts -/
def sbStart (numSB : List Nat) (k : Nat) : Nat × Nat := (numSB.take k).foldl sbAdvance (0, 0)

/-- the same starts, computed once for all sub-blocks (what the streaming decoder carries along) -/
def startsArr (numSB : Array Nat) : Array (Nat × Nat) :=
  (numSB.foldl (fun (acc : Array (Nat × Nat) × (Nat × Nat)) n => (acc.1.push acc.2, sbAdvance acc.2 n))
    (#[], (0, 0))).1

/-- position in `sbIdx` that voxel `i` (0..511, x fastest) of a sub-block with `n` labels starting at `st` uses -/
def slotAt (b : Block) (st : Nat × Nat) (n i : Nat) : Nat :=
  if n ≤ 1 then st.1 else st.1 + getPacked b.values (st.2 + i * bitsFor n) (bitsFor n)

def labelOfPos (b : Block) (p : Nat) : Nat := b.labels.getD (b.sbIdx.getD p 0) 0

/-- `MakeLabelVolume`: an uninitialised sub-block (n = 0) is label 0 -/
def labelSB (b : Block) (st : Nat × Nat) (n i : Nat) : Nat :=
  if n = 0 then 0 else labelOfPos b (slotAt b st n i)

def sbNum (b : Block) (x y z : Nat) : Nat := (z / 8) * b.gx * b.gy + (y / 8) * b.gx + x / 8
def sbVox (x y z : Nat) : Nat := (z % 8) * 64 + (y % 8) * 8 + x % 8

def voxLabel (b : Block) (starts : Array (Nat × Nat)) (x y z : Nat) : Nat :=
  if b.labels.size < 2 then b.labels.getD 0 0
  else
    let k := sbNum b x y z
    labelSB b (starts.getD k (0, 0)) (b.numSB.getD k 0) (sbVox x y z)

def nvox (b : Block) : Nat := (8 * b.gx) * (8 * b.gy) * (8 * b.gz)

/-- `MakeLabelVolume`: labels in ZYX order (x fastest) -/
def decode (b : Block) : Array Nat :=
  let starts := startsArr b.numSB
  let sx := 8 * b.gx
  let sy := 8 * b.gy
  Array.ofFn (n := nvox b) fun i => voxLabel b starts (i.val % sx) (i.val / sx % sy) (i.val / (sx * sy))

/-- `Block.Value` on an in-range point -/
def valueNat (b : Block) (x y z : Nat) : Nat :=
  if b.labels.size = 0 then 0
  else if b.labels.size = 1 then b.labels.getD 0 0
  else
    let k := sbNum b x y z
    let st := sbStart b.numSB.toList k
    let n := b.numSB.getD k 0
    let bits := bitsFor n
    if bits = 0 then labelOfPos b st.1
    else labelOfPos b (st.1 + getPacked b.values (st.2 + sbVox x y z * bits) bits)

def value (b : Block) (x y z : Int) : Nat :=
  if x < 0 ∨ x ≥ 8 * b.gx ∨ y < 0 ∨ y ≥ 8 * b.gy ∨ z < 0 ∨ z ≥ 8 * b.gz then 0
  else valueNat b x.toNat y.toNat z.toNat

/-! ### well-formedness: what every block the encoder makes satisfies, checked by the driver on every block it sees -/

def wfSB (b : Block) (k : Nat) : Bool :=
  let n := b.numSB.getD k 0
  let st := sbStart b.numSB.toList k
  decide (1 ≤ n) && decide (st.1 + n ≤ b.sbIdx.size) &&
    (List.range 512).all fun i => decide (slotAt b st n i < st.1 + n)

/-- a multi-label block: every sub-block has labels, every packed value names one of its sub-block's index
    positions, every index names a table slot -/
def wf (b : Block) : Bool :=
  decide (b.numSB.size = b.gx * b.gy * b.gz) &&
  ((List.range b.numSB.size).all (wfSB b)) &&
  (b.sbIdx.toList.all fun s => decide (s < b.labels.size))

/-- a solid block (one label, no sub-block data) or a well-formed multi-label block -/
def wfBlock (b : Block) : Bool :=
  b.labels.size == 1 || (decide (2 ≤ b.labels.size) && wf b)

/-- no sub-block lists the same table slot twice (true of encoder output; `MergeLabels` can break it) -/
def sbList (b : Block) (st : Nat × Nat) (n : Nat) : List Nat :=
  (List.range n).map fun j => b.sbIdx.getD (st.1 + j) 0

def noDupSB (b : Block) : Bool :=
  (List.range b.numSB.size).all fun k =>
    decide ((sbList b (sbStart b.numSB.toList k) (b.numSB.getD k 0)).Nodup)

/-! ### per-slot voxel count (`getNumVoxels`) -/

/-- last position holding `t` (the Go loop keeps overwriting `targetIndex`) -/
def lastIdx (l : List Nat) (t : Nat) : Option Nat :=
  (l.zipIdx).foldl (fun acc p => if p.1 = t then some p.2 else acc) none

def countPacked (b : Block) (bitpos bits j : Nat) : Nat :=
  (List.range 512).countP fun i => getPacked b.values (bitpos + i * bits) bits == j

/-- voxels whose packed index names a position of `lst` holding `t` -/
def countListed (b : Block) (bitpos bits : Nat) (lst : List Nat) (t : Nat) : Nat :=
  (List.range 512).countP fun i => lst.getD (getPacked b.values (bitpos + i * bits) bits) (t + 1) == t

structure NV where
  st : Nat × Nat
  acc : Nat

def numVoxStep (b : Block) (t : Nat) (s : NV) (n : Nat) : NV :=
  if n = 0 then s
  else if n = 1 then ⟨(s.st.1 + 1, s.st.2), s.acc + (if b.sbIdx.getD s.st.1 0 = t then 512 else 0)⟩
  else
    match lastIdx (sbList b s.st n) t with
    | none =>
      ⟨(s.st.1 + n, if Gen.numVoxAdvancesOnMiss then alignUp (s.st.2 + 512 * bitsFor n) else s.st.2), s.acc⟩
    | some j =>
      ⟨(s.st.1 + n, alignUp (s.st.2 + 512 * bitsFor n)),
       s.acc + (if Gen.numVoxCountsEveryListing then countListed b s.st.2 (bitsFor n) (sbList b s.st n) t
                else countPacked b s.st.2 (bitsFor n) j)⟩

def getNumVoxels (b : Block) (t : Nat) : Nat :=
  if b.labels.size = 0 then 0
  else if b.labels.size = 1 then (if t = 0 then nvox b else 0)
  else (b.numSB.toList.foldl (numVoxStep b t) ⟨(0, 0), 0⟩).acc

/-- the reference: voxels of sub-block `k` whose table slot is `t` -/
def slotCountSB (b : Block) (t : Nat) (st : Nat × Nat) (n : Nat) : Nat :=
  if n = 0 then 0 else (List.range 512).countP fun i => b.sbIdx.getD (slotAt b st n i) 0 == t

def slotCountFrom (b : Block) (t : Nat) : Nat × Nat → List Nat → Nat
  | _, [] => 0
  | st, n :: ns => slotCountSB b t st n + slotCountFrom b t (sbAdvance st n) ns

def slotCount (b : Block) (t : Nat) : Nat := slotCountFrom b t (0, 0) b.numSB.toList

/-! ### table-level edits -/

def replaceLabels (m : Nat → Option Nat) (b : Block) : Block :=
  { b with labels := b.labels.map fun l => (m l).getD l }

/-- `ReplaceLabel`: the new block and the reported number of replaced voxels -/
def replaceLabel (b : Block) (target newLabel : Nat) : Block × Nat :=
  ({ b with labels := b.labels.map fun l => if l = target then newLabel else l },
   ((List.range b.labels.size).filter fun i => b.labels.getD i 0 == target).foldl
     (fun acc i => acc + getNumVoxels b i) 0)

def mergedIdx (b : Block) (merged : List Nat) : List Nat :=
  (List.range b.labels.size).filter fun i => merged.contains (b.labels.getD i 0)

/-- the last table slot holding `target` (the Go loop keeps overwriting) -/
def targetIdx (b : Block) (target : Nat) : Option Nat :=
  lastIdx b.labels.toList target

/-- `MergeLabels`.  When the target is absent Go reuses *some* merged slot (map iteration order); the model
    takes the first, and `mergeLabels_decode` shows the decoded volume does not depend on the choice made here. -/
def mergeLabels (b : Block) (target : Nat) (merged : List Nat) : Block :=
  let mi := mergedIdx b merged
  match mi with
  | [] => b
  | first :: _ =>
    let zeroed := b.labels.mapIdx fun i l => if mi.contains i then 0 else l
    let (ti, labels') := match targetIdx b target with
      | some ti => (ti, zeroed)
      | none => (first, zeroed.setIfInBounds first target)
    { b with labels := labels', sbIdx := b.sbIdx.map fun s => if mi.contains s then ti else s }

/-! ### the 2x2x2 down-sampling vote -/

/-- `votemap[lbl]++` for the non-zero labels, as an association list -/
def tally (ls : List Nat) : List (Nat × Nat) :=
  ls.foldl (fun m l => if l = 0 then m else
    match m.find? (·.1 == l) with
    | some _ => m.map fun p => if p.1 == l then (p.1, p.2 + 1) else p
    | none => m ++ [(l, 1)]) []

/-- the winner loop over the vote map, in whatever order the map is iterated -/
def pickWinner (m : List (Nat × Nat)) : Nat × Nat :=
  m.foldl (fun (w : Nat × Nat) p =>
    if w.2 < p.2 then p
    else if w.2 = p.2 ∧ p.1 < w.1 then p
    else w) (0, 0)

def vote (ls : List Nat) : Nat := (pickWinner (tally ls)).1

/-- `DownresLabels` on a ZYX array of size (sx,sy,sz), all even -/
def downresLabels (a : Array Nat) (sx sy sz : Nat) : Array Nat :=
  let lx := sx / 2
  let ly := sy / 2
  Array.ofFn (n := lx * ly * (sz / 2)) fun i =>
    let x := 2 * (i.val % lx)
    let y := 2 * (i.val / lx % ly)
    let z := 2 * (i.val / (lx * ly))
    vote ((List.range 8).map fun o =>
      a.getD ((z + o / 4) * sx * sy + (y + o / 2 % 2) * sx + x + o % 2) 0)

end Dvid.Block
