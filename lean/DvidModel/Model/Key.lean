import DvidModel.Model.KeyLayout
import DvidModel.Gen.Keys
/-
  Mirror of storage/context.go key construction and parsing.  Constructors are the *generated* layouts
  (Gen.Keys) interpreted by `KF.build`; parsers mirror the Go slicing arithmetic literally.
-/
namespace Dvid.Key
open Dvid

/-- `constructDataKey(i, v, c, tk)` -/
def constructDataKey (i v c : Nat) (tk : Bytes) : Bytes := KF.build Gen.layoutConstructDataKey i v c tk
/-- `DataContext.TombstoneKey(tk)` -/
def tombstoneKey (i v c : Nat) (tk : Bytes) : Bytes := KF.build Gen.layoutTombstoneKey i v c tk
/-- `DataContext.MinVersionKey(tk)` -/
def minVersionKey (i : Nat) (tk : Bytes) : Bytes := KF.build Gen.layoutMinVersionKey i 0 0 tk
/-- `DataContext.MaxVersionKey(tk)` -/
def maxVersionKey (i : Nat) (tk : Bytes) : Bytes := KF.build Gen.layoutMaxVersionKey i 0 0 tk
/-- `DataContext.UnversionedKeyPrefix(tk)` -/
def unversionedKeyPrefix (i : Nat) (tk : Bytes) : Bytes := KF.build Gen.layoutUnversionedKeyPrefix i 0 0 tk
/-- `DataInstanceKeyRange(d)` / `DataContext.KeyRange()` -/
def instanceRangeMin (i : Nat) : Bytes := KF.build Gen.layoutInstanceRangeMin i 0 0 []
def instanceRangeMax (i : Nat) : Bytes := KF.build Gen.layoutInstanceRangeMax i 0 0 []
def keyRangeMin (i : Nat) : Bytes := KF.build Gen.layoutKeyRangeMin i 0 0 []
def keyRangeMax (i : Nat) : Bytes := KF.build Gen.layoutKeyRangeMax i 0 0 []

/-- Either marker, as one builder: `tomb = false` is a data key. -/
def dataKey (i v c : Nat) (tk : Bytes) (tomb : Bool) : Bytes :=
  if tomb then tombstoneKey i v c tk else constructDataKey i v c tk

def isDataKey (k : Bytes) : Bool :=
  decide (Gen.isDataKeyMinLen ≤ k.length) && k.head? == some (UInt8.ofNat Gen.dataKeyPrefix)

/-- `Key.IsTombstone`: last byte; an illegal marker is reported `false` (the Go logs and returns false). -/
def isTombstone (k : Bytes) : Bool := k.getLast? == some (UInt8.ofNat Gen.markTombstone)

/-- trailing bytes after the tkey: version, client, marker -/
def trailerLen : Nat := Gen.versionIDSize + Gen.clientIDSize + 1

/-- `TKeyFromKey` on a data key: `key[1+InstanceIDSize : len-VersionIDSize-ClientIDSize-1]`.
    Go panics when the slice bounds are inverted (key shorter than 14 bytes): `none`. -/
def tkeyFromKey (k : Bytes) : Option Bytes :=
  if k.head? == some (UInt8.ofNat Gen.dataKeyPrefix) then
    let start := 1 + Gen.instanceIDSize
    let stop := k.length - trailerLen
    if k.length < start + trailerLen then none else some ((k.take stop).drop start)
  else none

/-- `DataKeyToLocalIDs` -/
def dataKeyToLocalIDs (k : Bytes) : Option (Nat × Nat × Nat) :=
  if k.head? == some (UInt8.ofNat Gen.dataKeyPrefix) ∧ 1 + Gen.instanceIDSize + trailerLen ≤ k.length then
    let inst := fromBe32 (k.drop 1)
    let start := k.length - trailerLen
    let ver := fromBe32 (k.drop start)
    let cl := fromBe32 (k.drop (start + Gen.versionIDSize))
    some (inst, ver, cl)
  else none

/-- `VersionFromDataKey` / `DataContext.VersionFromKey` -/
def versionFromKey (k : Bytes) : Option Nat :=
  if k.head? == some (UInt8.ofNat Gen.dataKeyPrefix) ∧
      Gen.instanceIDSize + Gen.versionIDSize + Gen.clientIDSize + 2 ≤ k.length then
    some (fromBe32 (k.drop (k.length - trailerLen)))
  else none

/-- `ChangeDataKeyInstance` / `DataContext.UpdateInstance`: overwrite bytes 1..4. -/
def changeInstance (k : Bytes) (i : Nat) : Option Bytes :=
  if k.head? == some (UInt8.ofNat Gen.dataKeyPrefix) ∧ 1 + Gen.instanceIDSize ≤ k.length then
    some (k.take 1 ++ be32 i ++ k.drop (1 + Gen.instanceIDSize))
  else none

/-- `storage.NewTKey(class, body)` -/
def newTKey (cls : Nat) (body : Bytes) : Bytes := UInt8.ofNat cls :: UInt8.ofNat Gen.tkeyStandardByte :: body
def minTKey (cls : Nat) : Bytes := [UInt8.ofNat cls, UInt8.ofNat Gen.tkeyMinByte]
def maxTKey (cls : Nat) : Bytes := [UInt8.ofNat cls, UInt8.ofNat Gen.tkeyMaxByte]

end Dvid.Key
