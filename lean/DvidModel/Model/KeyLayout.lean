import DvidModel.Model.Bytes
/-
  Field tokens of a storage key.  The extractor turns each `append` chain in storage/context.go into a
  `List KF`; `KF.build` interprets it.  A token the extractor cannot classify has no constructor here,
  so the generated file stops elaborating.
-/
namespace Dvid

inductive KF where
  | byte (n : Nat)
  | inst | instNext | tkey | ver | ver0 | verMax | client | client0 | clientMax
  deriving Repr, DecidableEq

/-- uint32 increment as in Go (`id++` / `d + 1` on a `uint32`): wraps at 2^32. -/
def u32succ (n : Nat) : Nat := (n + 1) % 4294967296

def KF.bytes (i v c : Nat) (tk : Bytes) : KF → Bytes
  | .byte n => [UInt8.ofNat n]
  | .inst => be32 i
  | .instNext => be32 (u32succ i)
  | .tkey => tk
  | .ver => be32 v
  | .ver0 => be32 0
  | .verMax => be32 4294967295
  | .client => be32 c
  | .client0 => be32 0
  | .clientMax => be32 4294967295

def KF.build (l : List KF) (i v c : Nat) (tk : Bytes) : Bytes :=
  l.flatMap (KF.bytes i v c tk)

end Dvid
