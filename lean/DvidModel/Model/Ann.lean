/-
  Point annotations: the block store and the per-tag index of datatype/annotation/annotation.go.
  `Elements.add` (replace an element at the same position, otherwise append), `addTagDelta` +
  `modifyTagElements` (what a POST of elements does to every tag's list), `DeleteElement` and
  `MoveElement` on the block list and the tag lists.  The block partition is abstracted: positions are
  unique across blocks, so the union of the block lists behaves like one list keyed by position.
-/
namespace Dvid.Ann

abbrev Pos := Int × Int × Int

structure Elem where
  pos : Pos
  kind : Nat
  tags : List String
  prop : String
  rels : List (String × Pos)
  deriving DecidableEq, Repr

/-- the copy kept in tag and label lists: no relationships -/
def nr (e : Elem) : Elem := { e with rels := [] }

/-- `Elements.add` / `ElementsNR.add`: the position map is built from the list as it was before the call -/
def addList (cur add : List Elem) : List Elem :=
  add.foldl (fun acc a =>
    if cur.any (·.pos == a.pos) then acc.map (fun c => if c.pos == a.pos then a else c) else acc ++ [a]) cur

def removePos (l : List Elem) (p : Pos) : List Elem := l.filter (·.pos != p)

/-- per-tag delta of a POST: what `addTagDelta` accumulates over all touched blocks -/
def tagAdds (new : List Elem) (t : String) : List Elem := (new.filter (·.tags.contains t)).map nr

/-- positions whose stored element had tag `t` and whose replacement does not -/
def tagErases (cur new : List Elem) (t : String) : List Pos :=
  (cur.filter fun c => match new.find? (·.pos == c.pos) with
    | some n => c.tags.contains t && !n.tags.contains t
    | none => false).map (·.pos)

structure St where
  blocks : List Elem
  tagIdx : String → List Elem

/-- `modifyTagElements` for one tag -/
def newTagList (old : List Elem) (adds : List Elem) (erases : List Pos) : List Elem :=
  (if adds.isEmpty then old else addList old adds).filter fun e => !erases.contains e.pos

/-- `StoreElements` (block list and tag lists) -/
def store (s : St) (new : List Elem) : St :=
  { blocks := addList s.blocks new,
    tagIdx := fun t =>
      let adds := tagAdds new t
      let erases := tagErases s.blocks new t
      if adds.isEmpty && erases.isEmpty then s.tagIdx t  -- the tag is not in the delta map: untouched
      else newTagList (s.tagIdx t) adds erases }

/-- `DeleteElement`: block list, the deleted element's tags, references to it -/
def delete (s : St) (p : Pos) : St :=
  match s.blocks.find? (·.pos == p) with
  | none => s
  | some d =>
    { blocks := (removePos s.blocks p).map fun e => { e with rels := e.rels.filter (·.2 != p) },
      tagIdx := fun t => if d.tags.contains t then removePos (s.tagIdx t) p else s.tagIdx t }

/-- `MoveElement` -/
def move (s : St) (p q : Pos) : St :=
  match s.blocks.find? (·.pos == p) with
  | none => s
  | some m =>
    { blocks := s.blocks.map fun e =>
        let e := if e.pos == p then { e with pos := q } else e
        { e with rels := e.rels.map fun r => if r.2 == p then (r.1, q) else r },
      tagIdx := fun t =>
        if m.tags.contains t then (s.tagIdx t).map fun e => if e.pos == p then { e with pos := q } else e
        else s.tagIdx t }

def init : St := ⟨[], fun _ => []⟩

end Dvid.Ann
