/-
  Concurrent read-modify-write of one shared cell (a stored list, index, annotation, child list …) by `n`
  request handlers.  Handler `t` runs   lock ; r := read ; write (f t r) ; unlock   where `f t` is what the
  request does to the value.  `covered = true`: lock/unlock are a real mutex shared by all handlers (a handler
  can take it only when free).  `covered = false`: the sequence runs without a lock (the two lock steps do
  nothing) — the shape of the code when a `d.Lock()` is commented out or a read lock is used for a write.
  A schedule is the list of handler ids in the order in which they take steps (preemption at every step).
-/
namespace Dvid.Sched

structure Th (α : Type) where
  pc : Nat          -- 0 start, 1 lock taken, 2 value read, 3 value written, 4 done
  reg : α           -- the value read

structure St (α : Type) where
  cell : α
  holder : Option Nat
  ths : Nat → Th α
  order : List Nat   -- handlers in the order of their writes

def St.setTh {α : Type} (s : St α) (t : Nat) (th : Th α) : St α :=
  { s with ths := fun i => if i = t then th else s.ths i }

/-- one step of handler `t`; `none` when the step is not enabled (lock taken by another handler, handler
    finished, or not a handler) -/
def step {α : Type} (n : Nat) (f : Nat → α → α) (covered : Bool) (s : St α) (t : Nat) : Option (St α) :=
  if t ≥ n then none else
  let th := s.ths t
  match th.pc with
  | 0 =>
    if covered then
      match s.holder with
      | some _ => none
      | none => some ({ s with holder := some t }.setTh t { th with pc := 1 })
    else some (s.setTh t { th with pc := 1 })
  | 1 => some (s.setTh t { pc := 2, reg := s.cell })
  | 2 => some ({ s with cell := f t th.reg, order := s.order ++ [t] }.setTh t { th with pc := 3 })
  | 3 =>
    if covered then some ({ s with holder := none }.setTh t { th with pc := 4 })
    else some (s.setTh t { th with pc := 4 })
  | _ => none

def exec {α : Type} (n : Nat) (f : Nat → α → α) (covered : Bool) (s : St α) : List Nat → Option (St α)
  | [] => some s
  | t :: ts =>
    match step n f covered s t with
    | none => none
    | some s' => exec n f covered s' ts

def init {α : Type} (v0 : α) : St α := { cell := v0, holder := none, ths := fun _ => { pc := 0, reg := v0 }, order := [] }

/-- the value after the handlers in `order` ran one after the other -/
def sequential {α : Type} (f : Nat → α → α) (v0 : α) (order : List Nat) : α := order.foldl (fun v t => f t v) v0

end Dvid.Sched
