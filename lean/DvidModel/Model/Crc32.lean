import DvidModel.Model.Bytes
/-
  CRC-32 (IEEE 802.3, reflected polynomial 0xEDB88320) exactly as `hash/crc32.ChecksumIEEE` computes it
  with the byte-at-a-time table.  The 32-bit register is kept as four bytes (c3 = most significant) so that
  every step is byte-wise xor; this is what makes the injectivity proofs elementary.  Core only.
-/
namespace Dvid.Crc32

/-- one bit of the table construction: `if c&1 == 1 { c = (c >> 1) ^ poly } else { c >>= 1 }` -/
def bitStep (c : Nat) : Nat := if c % 2 = 1 then (c / 2) ^^^ 0xEDB88320 else c / 2

/-- `simpleMakeTable(IEEE)[i]` -/
def entry (i : Nat) : Nat := bitStep (bitStep (bitStep (bitStep (bitStep (bitStep (bitStep (bitStep i)))))))

def table : Array Nat := Array.ofFn (n := 256) fun i => entry i.val

structure W where
  b3 : UInt8
  b2 : UInt8
  b1 : UInt8
  b0 : UInt8
  deriving DecidableEq, Repr

def W.ofNat (n : Nat) : W :=
  ⟨UInt8.ofNat (n / 16777216), UInt8.ofNat (n / 65536), UInt8.ofNat (n / 256), UInt8.ofNat n⟩

def W.toNat (w : W) : Nat := w.b3.toNat * 16777216 + w.b2.toNat * 65536 + w.b1.toNat * 256 + w.b0.toNat

/-- table lookup as a word -/
def T (i : UInt8) : W := W.ofNat (table.getD i.toNat 0)

/-- `crc = tab[byte(crc)^b] ^ (crc >> 8)` -/
def upd (c : W) (b : UInt8) : W :=
  let t := T (c.b0 ^^^ b)
  ⟨t.b3, t.b2 ^^^ c.b3, t.b1 ^^^ c.b2, t.b0 ^^^ c.b1⟩

def init : W := ⟨255, 255, 255, 255⟩

def fin (c : W) : W := ⟨c.b3 ^^^ 255, c.b2 ^^^ 255, c.b1 ^^^ 255, c.b0 ^^^ 255⟩

/-- `crc32.ChecksumIEEE(data)` -/
def crc32 (data : Bytes) : W := fin (data.foldl upd init)

/-- `binary.LittleEndian.PutUint32` -/
def W.le (w : W) : Bytes := [w.b0, w.b1, w.b2, w.b3]

end Dvid.Crc32
