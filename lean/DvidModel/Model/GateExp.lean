/-
  A tiny boolean expression language for the guards of the request gate (server/web.go).  The extractor
  turns each guard's Go condition into a `BExp`; `eval` interprets it.  A construct the extractor does not
  recognise has no constructor here, so the generated file stops elaborating.
-/
namespace Dvid

inductive BExp where
  | atom (name : String)            -- a boolean variable of the handler (adminPriv, fullwrite, readonly, locked, …)
  | methodIs (m : String)           -- `method == "…"` on the lower-cased HTTP method
  | not (e : BExp)
  | and (a b : BExp)
  | or (a b : BExp)
  deriving Repr

structure GateEnv where
  adminPriv : Bool
  fullwrite : Bool
  readonly : Bool
  locked : Bool
  branchRequest : Bool
  isMutation : Bool
  method : String            -- already lower-cased

def GateEnv.atom (env : GateEnv) : String → Bool
  | "adminPriv" => env.adminPriv
  | "fullwrite" => env.fullwrite
  | "readonly" => env.readonly
  | "locked" => env.locked
  | "branchRequest" => env.branchRequest
  | "isMutation" => env.isMutation
  | _ => false

def BExp.eval (env : GateEnv) : BExp → Bool
  | .atom n => env.atom n
  | .methodIs m => env.method == m
  | .not e => !(e.eval env)
  | .and a b => a.eval env && b.eval env
  | .or a b => a.eval env || b.eval env

end Dvid
