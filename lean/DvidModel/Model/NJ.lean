/-
  neuronjson field-merge rules: datatype/neuronjson/neuronjson.go `updateJSON`, and the in-memory head's
  bookkeeping (`storeAndUpdate`, `DeleteData`, memstore.go `addBodyID` / `deleteBodyID`).
  An annotation is an association list field -> value with distinct fields; a value is null, a string or any
  other JSON value, each carried as its canonical JSON text (Go compares with reflect.DeepEqual on values
  parsed by the same parser, which for canonical texts is text equality).
-/
namespace Dvid.NJ

inductive Val where
  | null
  | str (json : String)
  | other (json : String)
  deriving DecidableEq, Repr

abbrev Obj := List (String × Val)

def get (o : Obj) (k : String) : Option Val := (o.find? (·.1 == k)).map (·.2)
def has (o : Obj) (k : String) : Bool := o.any (·.1 == k)
def erase (o : Obj) (k : String) : Obj := o.filter (·.1 != k)
def set (o : Obj) (k : String) (v : Val) : Obj :=
  if has o k then o.map (fun p => if p.1 == k then (k, v) else p) else o ++ [(k, v)]
def keys (o : Obj) : List String := o.map (·.1)

def isMeta (f : String) : Bool := f.endsWith "_user" || f.endsWith "_time"
def rootOf (f : String) : String := String.ofList (f.toList.take (f.length - 5))

/-- the explicitly given `<field>_user` (or `_time`) strings of a request: root field -> JSON text ("" text when not a string) -/
def explicitStamps (new : Obj) (suffix : String) : List (String × String) :=
  new.filterMap fun p =>
    if p.1.endsWith suffix then
      some (rootOf p.1, match p.2 with | .str s => s | _ => "\"\"")
    else none

def lookupS (l : List (String × String)) (k : String) : Option String := (l.find? (·.1 == k)).map (·.2)

/-- the null loop: a null removes the field from request and original, and records who/when removed it -/
def dropNull (fu ft : List (String × String)) (user time : String) (st : Obj × Option Obj) (f : String) : Obj × Option Obj :=
  let nw := erase st.1 f
  let nw :=
    if !isMeta f then
      let setUser := (lookupS fu f).getD user
      let setTime := (lookupS ft f).getD time
      let nw := if setUser != "\"\"" then set nw (f ++ "_user") (.str setUser) else nw
      if setTime != "\"\"" then set nw (f ++ "_time") (.str setTime) else nw
    else nw
  (nw, st.2.map (erase · f))

/-- carry forward (non-replace): fields of the original the request does not mention, or that are protected -/
def carry (cond : List String) (st : Obj × List String) (p : String × Val) : Obj × List String :=
  if !has st.1 p.1 then (set st.1 p.1 p.2, st.2)
  else if cond.contains p.1 then (set st.1 p.1 p.2, st.2.filter (· != p.1))
  else st

def stamp (user time : String) (deleted newlySet : List String) (nw : Obj) (f : String) : Obj :=
  if f == "bodyid" || f == "user" then nw
  else if deleted.contains f then nw
  else if isMeta f then nw
  else
    let nw := if !newlySet.contains (f ++ "_user") && user != "\"\"" then set nw (f ++ "_user") (.str user) else nw
    if !newlySet.contains (f ++ "_time") then set nw (f ++ "_time") (.str time) else nw

def keepStamps (user time : String) (deleted : List String) (og : Obj) (nw : Obj) (f : String) : Obj :=
  if f == "bodyid" then nw
  else if deleted.contains f then nw
  else
    let nw := if !has nw (f ++ "_user") then set nw (f ++ "_user") ((get og (f ++ "_user")).getD (.str user)) else nw
    if !has nw (f ++ "_time") then set nw (f ++ "_time") ((get og (f ++ "_time")).getD (.str time)) else nw

/-- `updateJSON(origData, newData, user, conditionals, replace)`; `user` and `time` are JSON texts of strings -/
def updateJSON (orig : Option Obj) (new : Obj) (user time : String) (cond : List String) (replace : Bool) : Obj :=
  let fu := explicitStamps new "_user"
  let ft := explicitStamps new "_time"
  let deleted := (new.filter (·.2 == .null)).map (·.1)
  let st := deleted.foldl (dropNull fu ft user time) (new, orig)
  let nw := st.1
  match st.2 with
  | none =>
    let newlySet := keys nw ++ (keys nw).filterMap fun f => if f.endsWith "_user" then some (rootOf f) else none
    newlySet.foldl (stamp user time deleted newlySet) nw
  | some og =>
    let newlySet := (keys nw).filter fun f => !has og f || isMeta f || get nw f != get og f
    let newFields := (keys nw).filter fun f => !isMeta f
    let (nw, newlySet) := if replace then (nw, newlySet) else og.foldl (carry cond) (nw, newlySet)
    let nw := newlySet.foldl (stamp user time deleted newlySet) nw
    if replace then newFields.foldl (keepStamps user time deleted og) nw else nw

/-! ### the in-memory head: sorted id list with Go's `sort.Search` -/

/-- `sort.Search(n, f)`: binary search for the smallest index with `f` true, assuming `f` is monotone -/
def searchLoop (f : Nat → Bool) : Nat → Nat → Nat → Nat
  | 0, lo, _ => lo
  | fuel + 1, lo, hi =>
    if lo < hi then
      let h := (lo + hi) / 2
      if !f h then searchLoop f fuel (h + 1) hi else searchLoop f fuel lo h
    else lo

def search (n : Nat) (f : Nat → Bool) : Nat := searchLoop f (n + 1) 0 n

def addBodyID (ids : List Nat) (b : Nat) : List Nat :=
  let i := search ids.length fun i => decide (ids.getD i 0 ≥ b)
  if i < ids.length && ids.getD i 0 == b then ids else ids.take i ++ [b] ++ ids.drop i

end Dvid.NJ
