import DvidModel.Gen.NJ
/-
  neuronjson field-merge rules: datatype/neuronjson/neuronjson.go `updateJSON`, and the in-memory head's
  bookkeeping (`storeAndUpdate`, `DeleteData`, memstore.go `addBodyID` / `deleteBodyID`).
  An annotation is an association list field -> value with distinct fields; a value is null, a string or any
  other JSON value, each carried as its canonical JSON text (Go compares with reflect.DeepEqual on values
  parsed by the same parser, which for canonical texts is text equality).
-/
namespace Dvid.NJ

inductive Val where
  | null
  | str (json : String)
  | other (json : String)
  deriving DecidableEq, Repr

/-- a field name is read the way the Go code reads it: `<root>_user` and `<root>_time` are the stamps of `<root>`
    (one suffix level: `strings.HasSuffix`, `field[:len(field)-5]`), anything else is a plain field -/
inductive Kind where
  | plain | user | time
  deriving DecidableEq, Repr

structure Key where
  root : String
  kind : Kind
  deriving DecidableEq, Repr

abbrev Obj := List (Key × Val)

def get (o : Obj) (k : Key) : Option Val := (o.find? (·.1 == k)).map (·.2)
def has (o : Obj) (k : Key) : Bool := o.any (·.1 == k)
def erase (o : Obj) (k : Key) : Obj := o.filter (·.1 != k)
def set (o : Obj) (k : Key) (v : Val) : Obj :=
  if has o k then o.map (fun p => if p.1 == k then (k, v) else p) else o ++ [(k, v)]
def keys (o : Obj) : List Key := o.map (·.1)

def isMeta (f : Key) : Bool := f.kind != .plain
def userOf (f : Key) : Key := ⟨f.root, .user⟩
def timeOf (f : Key) : Key := ⟨f.root, .time⟩
def plainOf (f : Key) : Key := ⟨f.root, .plain⟩
def bodyidKey : Key := ⟨"bodyid", .plain⟩
def userKey : Key := ⟨"user", .plain⟩

/-- the explicitly given `<field>_user` (or `_time`) strings of a request: root -> JSON text ("" text when not a string) -/
def explicitStamps (new : Obj) (kind : Kind) : List (String × String) :=
  new.filterMap fun p =>
    if p.1.kind == kind then
      some (p.1.root, match p.2 with | .str s => s | _ => "\"\"")
    else none

def lookupS (l : List (String × String)) (k : String) : Option String := (l.find? (·.1 == k)).map (·.2)

/-- the null loop: a null removes the field from request and original, and records who/when removed it -/
def dropNull (fu ft : List (String × String)) (user time : String) (st : Obj × Option Obj) (f : Key) : Obj × Option Obj :=
  let nw := erase st.1 f
  let nw :=
    if !isMeta f then
      let setUser := (lookupS fu f.root).getD user
      let setTime := (lookupS ft f.root).getD time
      let nw := if setUser != "\"\"" then set nw (userOf f) (.str setUser) else nw
      if setTime != "\"\"" then set nw (timeOf f) (.str setTime) else nw
    else nw
  (nw, st.2.map (erase · f))

/-- carry forward (non-replace): fields of the original the request does not mention, or that are protected -/
def carry (cond : List Key) (st : Obj × List Key) (p : Key × Val) : Obj × List Key :=
  if !has st.1 p.1 then (set st.1 p.1 p.2, st.2)
  else if cond.contains p.1 then (set st.1 p.1 p.2, st.2.filter (· != p.1))
  else st

def stamp (user time : String) (deleted newlySet : List Key) (nw : Obj) (f : Key) : Obj :=
  if f == bodyidKey || f == userKey then nw
  else if deleted.contains f then nw
  else if isMeta f then nw
  else
    let nw := if !newlySet.contains (userOf f) && user != "\"\"" then set nw (userOf f) (.str user) else nw
    if !newlySet.contains (timeOf f) then set nw (timeOf f) (.str time) else nw

def keepStamps (user time : String) (deleted : List Key) (og : Obj) (nw : Obj) (f : Key) : Obj :=
  if f == bodyidKey then nw
  else if deleted.contains f then nw
  else
    let nw := if !has nw (userOf f) then set nw (userOf f) ((get og (userOf f)).getD (.str user)) else nw
    if !has nw (timeOf f) then set nw (timeOf f) ((get og (timeOf f)).getD (.str time)) else nw

/-- `updateJSON(origData, newData, user, conditionals, replace)`; `user` and `time` are JSON texts of strings -/
def updateJSON (orig : Option Obj) (new : Obj) (user time : String) (cond : List Key) (replace : Bool) : Obj :=
  let fu := explicitStamps new .user
  let ft := explicitStamps new .time
  let deleted := (new.filter (·.2 == .null)).map (·.1)
  let st := deleted.foldl (dropNull fu ft user time) (new, orig)
  let nw := st.1
  match st.2 with
  | none =>
    let newlySet := keys nw ++ (keys nw).filterMap fun f => if f.kind == .user then some (plainOf f) else none
    newlySet.foldl (stamp user time deleted newlySet) nw
  | some og =>
    let newlySet := (keys nw).filter fun f => !has og f || isMeta f || get nw f != get og f
    let newFields := (keys nw).filter fun f => !isMeta f
    let r := if replace then (nw, newlySet) else og.foldl (carry cond) (nw, newlySet)
    let nw := r.2.foldl (stamp user time deleted r.2) r.1
    if replace then newFields.foldl (keepStamps user time deleted og) nw else nw

/-- field name <-> key, as the Go code reads names -/
def keyOfName (f : String) : Key :=
  if f.endsWith "_user" then ⟨String.ofList (f.toList.take (f.length - 5)), .user⟩
  else if f.endsWith "_time" then ⟨String.ofList (f.toList.take (f.length - 5)), .time⟩
  else ⟨f, .plain⟩

def nameOfKey (k : Key) : String :=
  match k.kind with
  | .plain => k.root
  | .user => k.root ++ "_user"
  | .time => k.root ++ "_time"

/-! ### the in-memory head: sorted id list with Go's `sort.Search` -/

/-- `sort.Search(n, f)`: binary search for the smallest index with `f` true, assuming `f` is monotone -/
def searchLoop (f : Nat → Bool) : Nat → Nat → Nat → Nat
  | 0, lo, _ => lo
  | fuel + 1, lo, hi =>
    if lo < hi then
      let h := (lo + hi) / 2
      if !f h then searchLoop f fuel (h + 1) hi else searchLoop f fuel lo h
    else lo

def search (n : Nat) (f : Nat → Bool) : Nat := searchLoop f (n + 1) 0 n

def addBodyID (ids : List Nat) (b : Nat) : List Nat :=
  let i := search ids.length fun i => decide (ids.getD i 0 ≥ b)
  if i < ids.length && ids.getD i 0 == b then ids else ids.take i ++ [b] ++ ids.drop i

/-- `deleteBodyID`: the predicate handed to `sort.Search` is regenerated from the source -/
def deleteBodyID (ids : List Nat) (b : Nat) : List Nat :=
  if Gen.njDeleteSearchMonotone then
    let i := search ids.length fun i => decide (ids.getD i 0 ≥ b)
    if i == ids.length || ids.getD i 0 != b then ids else ids.eraseIdx i
  else
    let i := search ids.length fun i => ids.getD i 0 == b
    if i == ids.length then ids else ids.eraseIdx i

end Dvid.NJ
