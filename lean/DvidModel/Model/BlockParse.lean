import DvidModel.Model.Block
import DvidModel.Model.Bytes
import DvidModel.Gen.BlockParse
/-
  Parsing a compressed label block received from a client: `labels.Block.UnmarshalBinary` →
  `setExportedVars` (header, label table, per-sub-block counts, index lists, packed values, each slice
  bounds-checked) and `Block.Validate` (the tables checked against each other), as
  `labelmap.readStreamedBlock` applies them before a block is stored or handed to any goroutine.
  Which checks the source performs is regenerated (`Gen.BlockParse`); a check that is missing from the source
  is missing from the model, and the theorems in Props/C20 then fail.
-/
namespace Dvid.BlockParse
open Dvid Dvid.Block

def byteAt (d : Array UInt8) (i : Nat) : Nat := (d.getD i 0).toNat
def le16 (d : Array UInt8) (o : Nat) : Nat := byteAt d o + 256 * byteAt d (o + 1)
def le32 (d : Array UInt8) (o : Nat) : Nat := le16 d o + 65536 * le16 d (o + 2)
def le64 (d : Array UInt8) (o : Nat) : Nat := le32 d o + 4294967296 * le32 d (o + 4)

/-- third stage of `setExportedVars`: the index lists (`nIdx` entries starting at byte `pos2`) and the values -/
def parseIdx (d : Array UInt8) (gx gy gz : Nat) (labels numSB : Array Nat) (pos2 nIdx : Nat) : Option Block :=
  if Gen.blkChecksIndexTableBound && decide (pos2 + 4 * nIdx > d.size) then none
  -- dvid.AliasByteToUint32 refuses a table that does not start on a 4-byte boundary (odd sub-block count)
  else if nIdx > 0 ∧ pos2 % 4 ≠ 0 then none
  else some ⟨gx, gy, gz, labels, numSB, Array.ofFn (n := nIdx) fun k => le32 d (pos2 + 4 * k.val),
             (d.extract (pos2 + 4 * nIdx) d.size).map (·.toNat)⟩

/-- second stage: the per-sub-block label counts (`nsb` entries starting at byte `pos`) -/
def parseCounts (d : Array UInt8) (gx gy gz : Nat) (labels : Array Nat) (pos nsb : Nat) : Option Block :=
  if Gen.blkRejectsEmptyGrid && nsb == 0 then none
  else if Gen.blkChecksCountTableBound && decide (pos + 2 * nsb > d.size) then none
  else
    parseIdx d gx gy gz labels (Array.ofFn (n := nsb) fun k => le16 d (pos + 2 * k.val)) (pos + 2 * nsb)
      ((Array.ofFn (n := nsb) fun k => le16 d (pos + 2 * k.val)).foldl (· + ·) 0)

/-- `UnmarshalBinary` + `setExportedVars`: `none` = an error is returned -/
def parse (d : Array UInt8) : Option Block :=
  if d.size < Gen.blkMinBytes then none
  else if le32 d 12 = 0 then none
  else if le32 d 0 > Gen.blkMaxSubBlocks ∨ le32 d 4 > Gen.blkMaxSubBlocks ∨ le32 d 8 > Gen.blkMaxSubBlocks then none
  else if le32 d 12 > Gen.blkMaxLabels then none
  else if Gen.blkChecksLabelTableBound && decide (16 + le32 d 12 * 8 > d.size) then none
  else if le32 d 12 ≤ 1 then
    some ⟨le32 d 0, le32 d 4, le32 d 8, Array.ofFn (n := le32 d 12) fun i => le64 d (16 + 8 * i.val), #[], #[], #[]⟩
  else
    parseCounts d (le32 d 0) (le32 d 4) (le32 d 8) (Array.ofFn (n := le32 d 12) fun i => le64 d (16 + 8 * i.val))
      (16 + le32 d 12 * 8) (le32 d 0 * le32 d 4 * le32 d 8)

/-- `Block.Validate` for one sub-block with `n` labels whose index list starts at `st.1` and whose packed
    values start at bit `st.2` -/
def validSB (b : Block) (st : Nat × Nat) (n : Nat) : Bool :=
  decide (n ≤ 512) && decide (st.1 + n ≤ b.sbIdx.size) &&
  ((List.range n).all fun j => decide (b.sbIdx.getD (st.1 + j) 0 < b.labels.size)) &&
  (decide (n ≤ 1) ||
    (decide (st.2 + 512 * bitsFor n ≤ 8 * b.values.size) &&
     (List.range 512).all fun i => decide (getPacked b.values (st.2 + i * bitsFor n) (bitsFor n) < n)))

def validFrom (b : Block) : Nat × Nat → List Nat → Bool
  | _, [] => true
  | st, n :: ns => validSB b st n && validFrom b (sbAdvance st n) ns

/-- `Block.Validate` -/
def validate (b : Block) : Bool :=
  if !Gen.blkValidateChecksTables then true else
  decide (0 < b.gx ∧ 0 < b.gy ∧ 0 < b.gz) && decide (1 ≤ b.labels.size) &&
  (b.labels.size == 1 ||
    (decide (b.numSB.size = b.gx * b.gy * b.gz) && validFrom b (0, 0) b.numSB.toList))

/-- what `readStreamedBlock` does with the uncompressed bytes of one block -/
def receive (d : Array UInt8) : Option Block :=
  match parse d with
  | none => none
  | some b => if Gen.blkStreamValidates && !validate b then none else some b

end Dvid.BlockParse
