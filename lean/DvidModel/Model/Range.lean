import DvidModel.Model.Store
/-
  Mirror of storage/badger/badger.go `versionedRange` / `sendKV` and the consumers `GetRange`,
  `KeysInRange`, `DeleteRange`, over the raw key list in byte order (Badger's iteration order).
  Keys only: the value returned for a chosen key is whatever the store holds under that key.
-/
namespace Dvid.Range
open Dvid Dvid.Key Dvid.Resolve

inductive Item where
  | kv (k : Bytes)
  | err
  deriving DecidableEq, Repr

/-- the version map `VersionedKeyValue` builds from a group: later keys overwrite earlier ones -/
def groupEntries (grp : List Bytes) : Nat → Option (Bytes × Entry) := fun ver =>
  grp.foldl (fun acc k =>
    match versionFromKey k with
    | some v' => if v' = ver then some (k, if isTombstone k then Entry.tomb else Entry.val ver) else acc
    | none => acc) none

/-- `sendKV(vctx, values, ch)`: nothing for an empty group or a nil result; the kv; or an error item -/
def sendKV (d : Dag) (v : Nat) (grp : List Bytes) : List Item :=
  if grp.isEmpty then []
  else
    let es : Entries := fun ver => (groupEntries grp ver).map (·.2)
    match readAt d es v with
    | .found a _ => match groupEntries grp a with
                    | some (k, _) => [.kv k]
                    | none => []
    | .none => []
    | .err => [.err]

structure St where
  maxVK : Bytes
  values : List Bytes
  out : List Item
  done : Bool

/-- one iteration of the scan loop -/
def stepKey (d : Dag) (i v : Nat) (maxKey : Bytes) (st : St) (k : Bytes) : St :=
  if st.done then st
  else
    -- "Did we pass all versions for last key read?"
    let st1 : St :=
      if cmpBytes k st.maxVK == .gt then
        let mvk := if isDataKey k then
            match tkeyFromKey k with
            | some tk => maxVersionKey i tk
            | none => st.maxVK
          else st.maxVK
        { st with maxVK := mvk, out := st.out ++ sendKV d v st.values, values := [] }
      else st
    -- "Did we pass the final key?"
    if cmpBytes k maxKey == .gt then
      { st1 with out := st1.out ++ sendKV d v st1.values, values := [], done := true }
    else { st1 with values := st1.values ++ [k] }

/-- `versionedRange(vctx, begTKey, endTKey, …)` over the raw keys in ascending byte order -/
def versionedRange (d : Dag) (i v : Nat) (beg fin : Bytes) (raw : List Bytes) : List Item :=
  let minKey := minVersionKey i beg
  let maxKey := maxVersionKey i fin
  let start := raw.dropWhile (fun k => cmpBytes k minKey == .lt)   -- it.Seek(minKey)
  let st := start.foldl (stepKey d i v maxKey) { maxVK := maxVersionKey i beg, values := [], out := [], done := false }
  if st.done then st.out else st.out ++ sendKV d v st.values

/-- `KeysInRange` / `GetRange`: the first error aborts; otherwise the datum keys in scan order -/
def keysInRange (d : Dag) (i v : Nat) (beg fin : Bytes) (raw : List Bytes) : Option (List Bytes) :=
  let items := versionedRange d i v beg fin raw
  if items.any (· == .err) then none
  else some (items.filterMap fun it => match it with | .kv k => tkeyFromKey k | .err => none)

/-- consumer loop of `DeleteRange`: returns (reported success, datum keys it tombstones).  Whether the scan's
    error is looked at before the nil-kv end marker is a regenerated fact; as first written the loop broke out
    silently on an error item and reported success. -/
def deleteRangeConsume : List Item → Bool × List Bytes
  | [] => (true, [])
  | .err :: _ => (if Gen.deleteRangeChecksErrorFirst then false else true, [])
  | .kv k :: rest =>
    let (ok, ks) := deleteRangeConsume rest
    (ok, match tkeyFromKey k with | some tk => tk :: ks | none => ks)

/-- the batching of `DeleteRange`'s consumer loop: (deletes in the open batch, deletes committed, keys seen).
    As written: add the delete, commit when `(numKV+1) % B = 0`.  The other shape a refactoring produces —
    commit a full batch only when the next key arrives — is what the model takes when the regenerated fact says
    the source no longer has the first shape. -/
structure Batching where
  pending : Nat
  committed : Nat
  numKV : Nat

def batchStep (B : Nat) (s : Batching) : Batching :=
  if Gen.deleteRangeFlushesAfterAdd then
    if (s.numKV + 1) % B = 0 then ⟨0, s.committed + s.pending + 1, s.numKV + 1⟩ else ⟨s.pending + 1, s.committed, s.numKV + 1⟩
  else
    if s.numKV > 0 ∧ s.numKV % B = 0 then ⟨1, s.committed + s.pending, s.numKV + 1⟩ else ⟨s.pending + 1, s.committed, s.numKV + 1⟩

/-- number of deletes that reached a committed batch after `n` scanned keys (the trailing
    `if numKV % B != 0 { Commit }` included) -/
def deleteRangeCommitted (B n : Nat) : Nat :=
  let s := (List.range n).foldl (fun s _ => batchStep B s) ⟨0, 0, 0⟩
  if s.numKV % B ≠ 0 then s.committed + s.pending else s.committed

/-- `keyvalue.NewTKey(key)`; `none` = the key is rejected with an error -/
def kvNewTKey (key : Bytes) : Option Bytes :=
  if Gen.kvRejectsNul && key.contains 0 then none else some (newTKey 177 (key ++ [0]))

end Dvid.Range
