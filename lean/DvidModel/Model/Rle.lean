import DvidModel.Model.Geom
/-
  Run-length sparse volumes: mirror of dvid/volumes.go `RLE` / `RLEs`.
  A run is (x, y, z, length); coordinates are `Int` (int32 in Go: overflow is outside the model).
-/
namespace Dvid.Rle
open Dvid Dvid.Geom

structure RLE where
  x : Int
  y : Int
  z : Int
  len : Int
  deriving DecidableEq, Repr

abbrev Pos := Int × Int × Int   -- (x, y, z)

/-- `RLE.Within(pt)` -/
def RLE.within (r : RLE) (p : Pos) : Bool :=
  p.2.2 == r.z && p.2.1 == r.y && decide (r.x ≤ p.1) && decide (p.1 < r.x + r.len)

/-- voxel-set semantics of a run list -/
def voxOf (rs : List RLE) (p : Pos) : Bool := rs.any (·.within p)

/-- `RLE.Less` (start point only: z, then y, then x) -/
def RLE.less (a b : RLE) : Bool :=
  if a.z < b.z then true else if a.z > b.z then false
  else if a.y < b.y then true else if a.y > b.y then false
  else decide (a.x < b.x)

def RLE.le (a b : RLE) : Bool := !(b.less a)

/-- `RLE.Excise(rle2)`: `none` = no intersection (Go returns nil); otherwise the 0, 1 or 2 fragments -/
def RLE.excise (r s : RLE) : Option (List RLE) :=
  if r.z ≠ s.z ∨ r.y ≠ s.y then none
  else
    let x0 := r.x
    let x1 := x0 + r.len - 1
    let sx0 := s.x
    let sx1 := sx0 + s.len - 1
    if x0 > sx1 ∨ x1 < sx0 then none
    else
      some ((if sx0 > x0 then [⟨x0, r.y, r.z, sx0 - x0⟩] else []) ++
            (if sx1 < x1 then [⟨sx1 + 1, r.y, r.z, x1 - sx1⟩] else []))

/-- the merging pass of `Normalize` over the sorted runs: `cur` is Go's `old` -/
def mergeAdjacent : Option RLE → List RLE → List RLE
  | none, [] => []
  | some cur, [] => [cur]
  | none, r :: rest => mergeAdjacent (some r) rest
  | some cur, r :: rest =>
    if r.y ≠ cur.y ∨ r.z ≠ cur.z ∨ r.x ≠ cur.x + cur.len then cur :: mergeAdjacent (some r) rest
    else mergeAdjacent (some { cur with len := cur.len + r.len }) rest

/-- `RLEs.Normalize()`: sort by start, join directly adjacent runs -/
def normalize (rs : List RLE) : List RLE := mergeAdjacent none (rs.mergeSort RLE.le)

/-- optional bounds: `none` = unset -/
structure Bounds where
  minx : Option Int := none
  maxx : Option Int := none
  miny : Option Int := none
  maxy : Option Int := none
  minz : Option Int := none
  maxz : Option Int := none

/-- `bound == nil || *bound <= c` / `c <= *bound` -/
def optLe (o : Option Int) (c : Int) : Bool := match o with | some m => decide (m ≤ c) | none => true
def optGe (o : Option Int) (c : Int) : Bool := match o with | some m => decide (c ≤ m) | none => true

def Bounds.inside (b : Bounds) (p : Pos) : Bool :=
  optLe b.minx p.1 && optGe b.maxx p.1 && optLe b.miny p.2.1 && optGe b.maxy p.2.1 &&
  optLe b.minz p.2.2 && optGe b.maxz p.2.2

/-- `bound != nil && c < *bound` / `c > *bound` -/
def optLt (o : Option Int) (c : Int) : Bool := match o with | some m => decide (c < m) | none => false
def optGt (o : Option Int) (c : Int) : Bool := match o with | some m => decide (c > m) | none => false

/-- the `minx` clause of the loop body: `none` = `continue` -/
def clipMinX (o : Option Int) (r : RLE) : Option RLE :=
  match o with
  | some m =>
    if r.x + r.len - 1 < m then none
    else if r.x < m then some { r with len := r.len - (m - r.x), x := m } else some r
  | none => some r

/-- the `maxx` clause of the loop body -/
def clipMaxX (o : Option Int) (r : RLE) : Option RLE :=
  match o with
  | some m =>
    if r.x > m then none
    else if r.x + r.len - 1 > m then some { r with len := m - r.x + 1 } else some r
  | none => some r

/-- one run through the body of the `FitToBounds` loop: `none` = `continue` -/
def fitOne (b : Bounds) (r : RLE) : Option RLE :=
  if optLt b.minz r.z then none
  else if optGt b.maxz r.z then none
  else if optLt b.miny r.y then none
  else if optGt b.maxy r.y then none
  else (clipMinX b.minx r).bind (clipMaxX b.maxx)

/-- `RLEs.FitToBounds(bounds)`; `none` bounds = the Go nil pointer -/
def fitToBounds (b : Option Bounds) (rs : List RLE) : List RLE :=
  match b with
  | none => if Gen.fitToBoundsNilCopies then rs else []
  | some b => rs.filterMap (fitOne b)

/-- inner loop of `Partition` for one run: block-clipped fragments with their block x coordinate.
    `fuel` bounds the number of blocks crossed. -/
def partitionRun (bs : Int) (y z : Int) : Nat → Int → Int → Int → Int → List (Int × RLE)
  | 0, _, _, _, _ => []
  | fuel + 1, bx, bBegX, rx, remain =>
    if remain < 1 then []
    else
      let dx := bBegX + bs - rx
      let n := if remain < dx then remain else dx
      (bx, ⟨rx, y, z, n⟩) :: partitionRun bs y z fuel (bx + 1) (bBegX + bs) (rx + dx) (remain - dx)

/-- `RLEs.Partition(blockSize)` as a list of (block coordinate, fragment), in emission order -/
def partition (bsx bsy bsz : Int) (rs : List RLE) : List ((Int × Int × Int) × RLE) :=
  rs.flatMap fun r =>
    let bx := chunk r.x bsx
    let by' := chunk r.y bsy
    let bz := chunk r.z bsz
    (partitionRun bsx r.y r.z (r.len.toNat + 1) bx (bx * bsx) r.x r.len).map fun (cx, f) => ((cx, by', bz), f)

/-- little-endian int32 (two's complement) -/
def le32i (c : Int) : Bytes :=
  let n := (c % 4294967296).toNat
  [UInt8.ofNat n, UInt8.ofNat (n / 256), UInt8.ofNat (n / 65536), UInt8.ofNat (n / 16777216)]

def fromLe32i : Bytes → Int
  | a :: b :: c :: d :: _ =>
    let n : Nat := a.toNat + b.toNat * 256 + c.toNat * 65536 + d.toNat * 16777216
    if n ≥ 2147483648 then (n : Int) - 4294967296 else n
  | _ => 0

/-- `RLEs.MarshalBinary` -/
def marshal (rs : List RLE) : Bytes := rs.flatMap fun r => le32i r.x ++ le32i r.y ++ le32i r.z ++ le32i r.len

/-- `RLEs.UnmarshalBinary` (length must be a multiple of 16) -/
def unmarshalAux : Nat → Bytes → List RLE
  | 0, _ => []
  | n + 1, b => ⟨fromLe32i b, fromLe32i (b.drop 4), fromLe32i (b.drop 8), fromLe32i (b.drop 12)⟩ :: unmarshalAux n (b.drop 16)

def unmarshal (b : Bytes) : Option (List RLE) :=
  if b.length % 16 ≠ 0 then none else some (unmarshalAux (b.length / 16) b)

def fromLe32u : Bytes → Nat
  | a :: b :: c :: d :: _ => a.toNat + b.toNat * 256 + c.toNat * 65536 + d.toNat * 16777216
  | _ => 0

/-- `dvid.ReadRLEs` on a byte stream: 8 header bytes (the first must be `EncodingBinary` = 0), a uint32 span
    count, then that many 16-byte runs; an error when the stream ends early.  Trailing bytes are not read. -/
def readRLEs (b : Bytes) : Option (List RLE) :=
  if b.length < 12 then none
  else if b.head? ≠ some 0 then none
  else
    let n := fromLe32u (b.drop 8)
    if b.length - 12 < 16 * n then none else some (unmarshalAux n (b.drop 12))

/-- run slots the reader has allocated by the time it returns, success or error: with
    `Gen.rleReaderAllocatesAsRead` a bounded preallocation plus what `append` grows to for the runs that really
    arrived (at most twice their number); without it, the announced count -/
def readerAllocatedRuns (b : Bytes) : Nat :=
  if b.length < 12 then 0
  else
    let n := fromLe32u (b.drop 8)
    if Gen.rleReaderAllocatesAsRead then min n Gen.rleReaderMaxPrealloc + 2 * min n ((b.length - 12) / 16) else n

/-- removal of a sorted, normalised `splits` from sorted, normalised `orig` — `RLEs.Split` after both
    sides were normalised.  `none` = "not contained" error. -/
def splitSorted : List RLE → List RLE → Nat → Option (List RLE)
  | orig, [], _ => some orig
  | _, _ :: _, 0 => none
  | [], _ :: _, _ => none
  | o :: os, s :: ss, fuel + 1 =>
    match o.excise s with
    | none => (splitSorted os (s :: ss) fuel).map (o :: ·)
    | some [] => splitSorted os ss fuel
    | some [f] => splitSorted (f :: os) ss fuel
    | some [f1, f2] => (splitSorted (f2 :: os) ss fuel).map (f1 :: ·)
    | some _ => none

/-- `RLEs.Split(splits)` -/
def split (rs splits : List RLE) : Option (List RLE) :=
  if splits.isEmpty then some rs
  else
    let o := normalize rs
    let s := normalize splits
    splitSorted o s (o.length + 2 * s.length + 2)

end Dvid.Rle
