import DvidModel.Model.Crc32
import DvidModel.Gen.Codec
/-
  Mirror of dvid/serialize.go: the serialization envelope (format byte, optional CRC-32, payload).
  Compression libraries are parameters (`Codecs`); their round-trip behaviour appears only as hypotheses
  of theorems.  `Outcome.panic` marks exactly the places where the Go code indexes without a check.
-/
namespace Dvid.Serialize
open Dvid Dvid.Crc32

/-- the compression libraries, as functions.  `none` = the library returned an error. -/
structure Codecs where
  snappyEnc : Bytes → Bytes
  snappyDec : Bytes → Option Bytes
  lz4Enc : Bytes → Bytes
  /-- `lz4.Uncompress(src, dst)` with `len(dst) = origSize` -/
  lz4Dec : Bytes → Nat → Option Bytes
  gzipEnc : Nat → Bytes → Bytes
  gzipDec : Bytes → Option Bytes
  /-- jpeg.Decode followed by the `*image.Gray` assertion: `none` = decode error,
      `some none` = decoded to a non-gray image (the unchecked type assertion panics) -/
  jpegDec : Bytes → Option (Option Bytes)

def le32 (n : Nat) : Bytes := [UInt8.ofNat n, UInt8.ofNat (n / 256), UInt8.ofNat (n / 65536), UInt8.ofNat (n / 16777216)]
def fromLe32 : Bytes → Nat
  | a :: b :: c :: d :: _ => a.toNat + b.toNat * 256 + c.toNat * 65536 + d.toNat * 16777216
  | _ => 0

/-- `EncodeSerializationFormat`: `uint8(format&0x07)<<5 | uint8(checksum&0x03)<<3` (uint8 arithmetic) -/
def encodeFormat (format checksum : Nat) : UInt8 :=
  UInt8.ofNat (((format % 256) &&& Gen.fmtCompressMask) <<< Gen.fmtCompressShift % 256 |||
               ((checksum % 256) &&& Gen.fmtChecksumMask) <<< Gen.fmtChecksumShift % 256)

/-- `DecodeSerializationFormat` -/
def decodeFormat (s : UInt8) : Nat × Nat :=
  (s.toNat >>> Gen.fmtCompressShift, (s.toNat >>> Gen.fmtChecksumShift) &&& Gen.fmtChecksumMask)

/-- `SerializePrecompressedData` (`none` = returned error) -/
def serializePrecompressed (data : Bytes) (format checksum : Nat) : Option Bytes :=
  if data.isEmpty then some []
  else
    let checksum := if format = Gen.compGzip then Gen.cksumNone else checksum
    let hdr := encodeFormat format checksum
    if checksum = Gen.cksumNone then some (hdr :: data)
    else if checksum = Gen.cksumCRC32 then some (hdr :: ((crc32 data).le ++ data))
    else none

/-- the compression step of `SerializeData` for the lossless formats -/
def compress (cd : Codecs) (data : Bytes) (format level : Nat) : Option Bytes :=
  if format = Gen.compUncompressed then some data
  else if format = Gen.compSnappy then some (cd.snappyEnc data)
  else if format = Gen.compLZ4 then some (le32 (data.length % 4294967296) ++ cd.lz4Enc data)
  else if format = Gen.compGzip then some (cd.gzipEnc level data)
  else none

/-- `SerializeData` -/
def serializeData (cd : Codecs) (data : Bytes) (format level checksum : Nat) : Option Bytes :=
  if data.isEmpty && Gen.serializeEmptyShortCircuit then some []
  else match compress cd data format level with
    | none => none
    | some c => serializePrecompressed c format checksum

inductive Outcome where
  | ok (data : Bytes) (format : Nat)
  | err
  | panic
  deriving DecidableEq, Repr

/-- the decompression switch at the end of `DeserializeData` -/
def decompressStage (cd : Codecs) (compression : Nat) (cdata : Bytes) (uncompress : Bool) : Outcome :=
  if !uncompress || compression = Gen.compUncompressed then .ok cdata compression
  else if compression = Gen.compSnappy then
    match cd.snappyDec cdata with | some d => .ok d compression | none => .err
  else if compression = Gen.compLZ4 then
    -- `cdata[0:4]` / `cdata[4:]` on fewer than 4 bytes: a run-time panic unless the source checks the length
    if cdata.length < 4 then (if Gen.lz4LenChecked then .err else .panic)
    else
      let origSize := fromLe32 cdata
      if origSize = 0 then .ok (cdata.drop 4) compression
      else match cd.lz4Dec (cdata.drop 4) origSize with | some d => .ok d compression | none => .err
  else if compression = Gen.compJPEG then
    match cd.jpegDec cdata with
    | none => .err
    | some none => if Gen.jpegGrayChecked then .err else .panic
    | some (some d) => .ok d compression
  else if compression = Gen.compGzip then
    match cd.gzipDec cdata with | some d => .ok d compression | none => .err
  else .err

/-- checksum handling of `DeserializeData`: `none` = error return -/
def checkedBody (checksum : Nat) (rest : Bytes) : Option Bytes :=
  if checksum = Gen.cksumNone then some rest
  else if checksum = Gen.cksumCRC32 then
    if rest.length < 4 then none
    else
      let cdata := rest.drop 4
      if !Gen.crcVerifiedOnRead || (crc32 cdata).le = rest.take 4 then some cdata else none
  else none

/-- `DeserializeData(s, uncompress)` -/
def deserializeData (cd : Codecs) (s : Bytes) (uncompress : Bool) : Outcome :=
  match s with
  | [] => .ok [] Gen.compUncompressed
  | f :: rest =>
    match checkedBody (decodeFormat f).2 rest with
    | none => .err
    | some cdata => decompressStage cd (decodeFormat f).1 cdata uncompress

end Dvid.Serialize
