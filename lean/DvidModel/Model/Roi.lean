import DvidModel.Model.Rle
/-
  ROI span queries: mirror of datatype/roi/roi.go `seekSpan`, `PointQuery` (after the points were
  converted to block coordinates and sorted), `VoxelBoundsInside`, `voxelRange`, and dvid.Span helpers.
-/
namespace Dvid.Roi
open Dvid Dvid.Geom

/-- `dvid.Span` = [z, y, x0, x1] in block coordinates -/
structure Span where
  z : Int
  y : Int
  x0 : Int
  x1 : Int
  deriving DecidableEq, Repr

abbrev BPos := Int × Int × Int   -- block (x, y, z)

/-- `Span.LessChunkPoint3d` -/
def Span.lessPt (s : Span) (b : BPos) : Bool :=
  if s.z < b.2.2 then true else if s.z > b.2.2 then false
  else if s.y < b.2.1 then true else if s.y > b.2.1 then false
  else decide (s.x1 < b.1)

/-- `Span.Includes` -/
def Span.includes (s : Span) (b : BPos) : Bool :=
  s.z == b.2.2 && s.y == b.2.1 && !(decide (s.x0 > b.1) || decide (s.x1 < b.1))

/-- `seekSpan(pt, spans, cur)` with the cursor as the remaining suffix of the span list -/
def seekSpan (pt : BPos) : List Span → List Span × Bool
  | [] => ([], false)
  | s :: rest =>
    if s.lessPt pt then seekSpan pt rest
    else (s :: rest, s.includes pt)

/-- the loop of `PointQuery` over the points already sorted by (z, y, x) -/
def pointQuery (spans : List Span) : List BPos → List Bool
  | [] => []
  | p :: ps =>
    let (rest, inc) := seekSpan p spans
    inc :: pointQuery rest ps

/-- membership in the ROI -/
def inRoi (spans : List Span) (b : BPos) : Bool := spans.any (·.includes b)

/-- `VoxelBoundsInside(e, blocksize, spans)` with the extents already converted to block coordinates -/
def boundsInside (emin emax : BPos) : List Span → Bool
  | [] => false
  | s :: rest =>
    if s.z > emax.2.2 then false
    else if s.z < emin.2.2 ∨ s.y < emin.2.1 ∨ s.x1 < emin.1 then boundsInside emin emax rest
    else if s.y > emax.2.1 ∨ s.x0 > emax.1 then boundsInside emin emax rest
    else true

/-- `voxelRange(blockSize, begBlock, endBlock, begVoxel, endVoxel)` -/
def voxelRange (bs begBlock endBlock begVoxel endVoxel : Int) : Int × Int :=
  let v0 := if begBlock * bs < begVoxel then begVoxel else begBlock * bs
  let v1 := if (endBlock + 1) * bs - 1 > endVoxel then endVoxel else (endBlock + 1) * bs - 1
  (v0 - begVoxel, v1 - begVoxel)

end Dvid.Roi
