import DvidModel.Gen.LabelIndex
/-
  The label index (datatype/common/labels/index.go): for one body, how many voxels of each of its supervoxels
  lie in each block.  Go keeps `map[block]map[supervoxel]uint32`; the model keeps a flat list of
  `((block, supervoxel), count)` entries and reads it through `cnt` (the sum of the entries of a key), so an
  index is determined by its `cnt` function and list order / duplicate keys never matter.  Counts are `Int` so
  that a batch of voxel changes (`SupervoxelChanges`, signed) is itself a list of entries.

  Mirrors: `Index.NumVoxels`, `GetSupervoxels`, `GetSupervoxelCount(s)`, `Add`, `Cleave`, `ModifyBlocks`, and the
  index surgery of `labelmap.splitSupervoxelIndex`.
-/
namespace Dvid.LabelIndex

abbrev Key := Nat × Nat          -- (block index zyx, supervoxel)
abbrev Index := List (Key × Int)

def cnt (idx : Index) (k : Key) : Int := ((idx.filter fun e => e.1 == k).map (·.2)).sum

/-- `Index.NumVoxels` -/
def numVoxels (idx : Index) : Int := (idx.map (·.2)).sum

def keys (idx : Index) : List Key := (idx.map (·.1)).eraseDups

/-- `Index.GetSupervoxels`: supervoxels with a non-zero count somewhere -/
def supervoxels (idx : Index) : List Nat :=
  (((keys idx).filter fun k => cnt idx k != 0).map (·.2)).eraseDups

/-- `Index.GetSupervoxelCount` -/
def svCount (idx : Index) (sv : Nat) : Int := ((idx.filter fun e => e.1.2 == sv).map (·.2)).sum

/-- `Index.Add` (merge): refuses when a supervoxel of `b` is already in the same block of `a` -/
def add (a b : Index) : Option Index :=
  if Gen.idxAddRefusesSharedSupervoxel &&
     (keys b).any (fun k => cnt b k != 0 && (keys a).any fun k' => k' == k && cnt a k' != 0) then none
  else some (a ++ b)

/-- `Index.Cleave`: (remaining index, cleaved index, cleaved size, remaining size) -/
def cleave (idx : Index) (svs : List Nat) : Index × Index × Int × Int :=
  let rem := idx.filter fun e => !svs.contains e.1.2
  let cl := idx.filter fun e => svs.contains e.1.2
  (rem, cl, numVoxels cl, numVoxels rem)

/-- `Index.ModifyBlocks`: the changes of supervoxels that belong to this index (`inSet`; a new index owns its
    own label) are added; a count that would go negative is an error -/
def modifyBlocks (idx : Index) (label : Nat) (changes : Index) : Option Index :=
  let own := if (supervoxels idx).isEmpty then [label] else supervoxels idx
  let applied := changes.filter fun e => own.contains e.1.2
  let res := idx ++ applied
  if (keys res).any (fun k => cnt res k < 0) then none else some res

/-- `Index.ApplyChanges`: every given change is added -/
def applyChanges (idx changes : Index) : Option Index :=
  let res := idx ++ changes
  if (keys res).any (fun k => cnt res k < 0) then none else some res

/-- `splitSupervoxelIndex`: the entries of `sv` are replaced, block by block, by the split and the remainder -/
def splitSV (idx : Index) (sv split remain : Nat) (splitCounts : List (Nat × Int)) : Index :=
  let others := idx.filter fun e => e.1.2 != sv
  let blocks := ((idx.filter fun e => e.1.2 == sv).map (·.1.1)).eraseDups
  others ++ blocks.flatMap fun blk =>
    let s := ((splitCounts.filter fun p => p.1 == blk).map (·.2)).sum
    [((blk, split), s), ((blk, remain), cnt idx (blk, sv) - s)]

/-- canonical text form: non-zero keys in ascending order -/
def canon (idx : Index) : List (Key × Int) :=
  let ks := ((keys idx).filter fun k => cnt idx k != 0).mergeSort fun a b => a.1 < b.1 || (a.1 == b.1 && a.2 ≤ b.2)
  ks.map fun k => (k, cnt idx k)

end Dvid.LabelIndex
