import DvidModel.Model.Key
import DvidModel.Model.Resolve
/-
  The versioned store layer of storage/badger/badger.go at the level of point operations:
  a key-value store is a finite map from raw keys to values (here a function); `Put` / `Delete` on a
  versioned context are the two-key transactions of the Go code (`txn.Set(key) ; txn.Delete(tombstone)` and
  `txn.Delete(key) ; txn.Set(tombstone, empty)`), and `Get` resolves through the version DAG.
-/
namespace Dvid.Store
open Dvid Dvid.Key Dvid.Resolve

abbrev KV := Bytes → Option Bytes

def KV.set (s : KV) (k v : Bytes) : KV := fun k' => if k' = k then some v else s k'
def KV.del (s : KV) (k : Bytes) : KV := fun k' => if k' = k then none else s k'

/-- `BadgerDB.Put(ctx, tk, v)` for a versioned context (one transaction) -/
def putV (s : KV) (i ver : Nat) (tk val : Bytes) : KV :=
  if Gen.storePutClearsTombstone then (s.set (dataKey i ver 0 tk false) val).del (dataKey i ver 0 tk true)
  else s.set (dataKey i ver 0 tk false) val

/-- `BadgerDB.Delete(ctx, tk)` for a versioned context (one transaction); `goBatch.Delete` is the same pair -/
def delV (s : KV) (i ver : Nat) (tk : Bytes) : KV :=
  if Gen.storeDeleteWritesTombstone then (s.del (dataKey i ver 0 tk false)).set (dataKey i ver 0 tk true) []
  else if (s (dataKey i ver 0 tk false)).isSome then s.del (dataKey i ver 0 tk false)   -- a conditional shape
  else s.set (dataKey i ver 0 tk true) []

/-- what the store holds for datum `(i, tk)` at version `ver`, in the form the resolver consumes.
    If both keys were present the tombstone would win or lose depending on iteration order; `NoBoth`
    below says that never happens in a reachable store. -/
def entryAt (s : KV) (i : Nat) (tk : Bytes) (ver : Nat) : Option Entry :=
  if (s (dataKey i ver 0 tk true)).isSome then some .tomb
  else if (s (dataKey i ver 0 tk false)).isSome then some (.val ver)
  else none

/-- `BadgerDB.Get(ctx, tk)` for a versioned context: resolve the best key version, then fetch its value -/
def getV (d : Dag) (s : KV) (i : Nat) (tk : Bytes) (v : Nat) : Option Bytes :=
  match readAt d (entryAt s i tk) v with
  | .found a _ => s (dataKey i a 0 tk false)
  | _ => none

/-- no version of any datum holds both a data key and a tombstone key -/
def NoBoth (s : KV) : Prop :=
  ∀ i ver tk, i < 4294967296 → ver < 4294967296 →
    ¬ ((s (dataKey i ver 0 tk false)).isSome ∧ (s (dataKey i ver 0 tk true)).isSome)

inductive Op where
  | put (i ver : Nat) (tk val : Bytes)
  | del (i ver : Nat) (tk : Bytes)

def Op.apply (s : KV) : Op → KV
  | .put i ver tk val => putV s i ver tk val
  | .del i ver tk => delV s i ver tk

def Op.WF : Op → Prop
  | .put i ver _ _ => i < 4294967296 ∧ ver < 4294967296
  | .del i ver _ => i < 4294967296 ∧ ver < 4294967296

def empty : KV := fun _ => none

end Dvid.Store
