import DvidModel.Model.Resolve
/-
  The specification C01 states: an entry (value or deletion) written at an ancestor `a` of `v` is
  *superseded at v* when some other ancestor `b` of `v` that also holds an entry has `a` as a proper
  ancestor.  The read returns the one live value among the unsuperseded entries; two or more distinct
  unsuperseded live values are a conflict (the read must not succeed with either).
-/
namespace Dvid.Spec
open Dvid.Resolve

/-- reflexive-transitive ancestors of `v` (as a list, possibly with repeats), by fuel -/
def anc (d : Dag) : Nat → Nat → List Nat
  | 0, v => [v]
  | fuel + 1, v => v :: (d.parents v).flatMap (anc d fuel)

def properAnc (d : Dag) (fuel : Nat) (b : Nat) : List Nat := (d.parents b).flatMap (anc d fuel)

inductive SpecRes where
  | none
  | value (v : Nat) (x : Nat)
  | conflict
  deriving DecidableEq, Repr

def visible (d : Dag) (es : Entries) (v : Nat) : List Nat :=
  let as := (anc d v v).eraseDups
  let holders := as.filter (fun a => (es a).isSome)
  holders.filter (fun a => !(holders.any (fun b => b != a && (properAnc d v b).contains a)))

def specRead (d : Dag) (es : Entries) (v : Nat) : SpecRes :=
  let live := (visible d es v).filterMap (fun a => match es a with | some (.val x) => some (a, x) | _ => none)
  match live with
  | [] => .none
  | [(a, x)] => .value a x
  | _ => .conflict

end Dvid.Spec
