import Driver.Proto
import DvidModel.Spec.Visible
namespace Driver
open Dvid.Resolve Dvid.Spec

/-- "_;_;1;1;2,3" -> parents per node index -/
def parseParents (s : String) : Option (List (List Nat)) :=
  (s.splitOn ";").mapM fun part =>
    if part == "_" || part == "" then some []
    else (part.splitOn ",").mapM (·.toNat?)

/-- one char per node: '-' nothing, 'T' tombstone, 'V' value (identity = node index) -/
def parseEntries (s : String) : Option (List (Option Entry)) :=
  (s.toList.zipIdx).mapM fun (c, i) =>
    if c == '-' then some none
    else if c == 'T' then some (some .tomb)
    else if c == 'V' then some (some (.val i))
    else none

def resStr : Res → String
  | .none => "ok none"
  | .found a _ => s!"ok found {a}"
  | .err => "err"

def specStr : SpecRes → String
  | .none => "ok none"
  | .value a _ => s!"ok found {a}"
  | .conflict => "conflict"

def dagOps (w : List String) : Option String :=
  match w with
  | ["resolve", ps, es, v] =>
    match parseParents ps, parseEntries es, v.toNat? with
    | some ps, some es, some v => some (resStr (readAt (Dag.ofList ps) (entriesOfList es) v))
    | _, _, _ => some "bad-op"
  | ["resolve.point", ps, es, v] =>
    match parseParents ps, parseEntries es, v.toNat? with
    | some ps, some es, some v => some (resStr (pointRead (Dag.ofList ps) (entriesOfList es) v))
    | _, _, _ => some "bad-op"
  | ["resolve.survivor", ps, es, v] =>
    match parseParents ps, parseEntries es, v.toNat? with
    | some ps, some es, some v => some (resStr (readAtSurvivor (Dag.ofList ps) (entriesOfList es) v))
    | _, _, _ => some "bad-op"
  | ["spec", ps, es, v] =>
    match parseParents ps, parseEntries es, v.toNat? with
    | some ps, some es, some v => some (specStr (specRead (Dag.ofList ps) (entriesOfList es) v))
    | _, _, _ => some "bad-op"
  | _ => none

end Driver
