import Driver.Proto
import DvidModel.Model.Key
namespace Driver
open Dvid Dvid.Key

/-- stateless key/codec ops; `none` = not mine -/
def keyOps (w : List String) : Option String :=
  match w with
  | ["key.make", i, v, c, tk, m] =>
    match natArg i, natArg v, natArg c, ofHex tk with
    | some i, some v, some c, some tk =>
      if m == "T" then some ("ok " ++ showHex (tombstoneKey i v c tk))
      else if m == "D" then some ("ok " ++ showHex (constructDataKey i v c tk))
      else some "bad-op"
    | _, _, _, _ => some "bad-op"
  | ["key.parse", k] =>
    match ofHex k with
    | some k =>
      match tkeyFromKey k, dataKeyToLocalIDs k with
      | some tk, some (i, v, c) =>
        some s!"ok {showHex tk} {i} {v} {c} {boolStr (isTombstone k)} {boolStr (isDataKey k)}"
      | _, _ => some "err badkey"
    | none => some "bad-op"
  | ["key.cmp", a, b] =>
    match ofHex a, ofHex b with
    | some a, some b => some ("ok " ++ ordStr (cmpBytes a b))
    | _, _ => some "bad-op"
  | ["key.minv", i, tk] =>
    match natArg i, ofHex tk with
    | some i, some tk => some ("ok " ++ showHex (minVersionKey i tk))
    | _, _ => some "bad-op"
  | ["key.maxv", i, tk] =>
    match natArg i, ofHex tk with
    | some i, some tk => some ("ok " ++ showHex (maxVersionKey i tk))
    | _, _ => some "bad-op"
  | ["key.irange", i] =>
    match natArg i with
    | some i => some s!"ok {showHex (instanceRangeMin i)} {showHex (instanceRangeMax i)}"
    | _ => some "bad-op"
  | ["key.chinst", k, i] =>
    match ofHex k, natArg i with
    | some k, some i =>
      match changeInstance k i with
      | some k' => some ("ok " ++ showHex k')
      | none => some "err badkey"
    | _, _ => some "bad-op"
  | ["tkey.new", cls, body] =>
    match natArg cls, ofHex body with
    | some cls, some body => some ("ok " ++ showHex (newTKey cls body))
    | _, _ => some "bad-op"
  | _ => none

end Driver
