import Driver.Proto
import DvidModel.Model.FileLog
namespace Driver
open Dvid Dvid.FileLog

def itemStr : Item → String
  | .msg r => s!"{r.typ}:{showHex r.data}"
  | .torn t h w => s!"TORN({t},{h}/{w})"

def flogOps (w : List String) : Option String :=
  match w with
  | ["flog.read", h] =>
    match ofHex h with
    | some b => let items := readAll b; some ("ok " ++ (if items.isEmpty then "-" else ",".intercalate (items.map itemStr)))
    | none => some "bad-op"
  | _ => none

end Driver
