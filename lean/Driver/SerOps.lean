import Driver.Proto
import DvidModel.Model.Serialize
namespace Driver
open Dvid Dvid.Serialize Dvid.Crc32

def hex8 (n : Nat) : String :=
  toHex [UInt8.ofNat (n / 16777216), UInt8.ofNat (n / 65536), UInt8.ofNat (n / 256), UInt8.ofNat n]

/-- the library result observed by the harness for this compressed payload, as constant codecs -/
def oracleCodecs (lib : String) : Option Codecs :=
  let mk (r : Option (Option Bytes)) : Codecs :=
    { snappyEnc := id, snappyDec := fun _ => r.bind id, lz4Enc := id, lz4Dec := fun _ _ => r.bind id,
      gzipEnc := fun _ x => x, gzipDec := fun _ => r.bind id, jpegDec := fun _ => r }
  if lib == "-" || lib == "E" then some (mk none)
  else if lib == "N" then some (mk (some none))
  else if lib.startsWith "D" then (ofHex (lib.drop 1).toString).map fun d => mk (some (some d))
  else none

def outcomeStr : Outcome → String
  | .ok d f => s!"ok {f} {showHex d}"
  | .err => "err"
  | .panic => "panic"

def serOps (w : List String) : Option String :=
  match w with
  | ["crc", h] =>
    match ofHex h with
    | some d => some ("ok " ++ hex8 (crc32 d).toNat)
    | none => some "bad-op"
  | ["fmt.enc", f, c] =>
    match natArg f, natArg c with
    | some f, some c => some s!"ok {(encodeFormat f c).toNat}"
    | _, _ => some "bad-op"
  | ["fmt.dec", b] =>
    match natArg b with
    | some b => let (f, c) := decodeFormat (UInt8.ofNat b); some s!"ok {f} {c}"
    | none => some "bad-op"
  | ["ser.pre", f, c, h] =>
    match natArg f, natArg c, ofHex h with
    | some f, some c, some d =>
      match serializePrecompressed d f c with
      | some s => some ("ok " ++ showHex s)
      | none => some "err"
    | _, _, _ => some "bad-op"
  | ["deser", u, h, lib] =>
    match ofHex h, oracleCodecs lib with
    | some s, some cd => some (outcomeStr (deserializeData cd s (u == "1")))
    | _, _ => some "bad-op"
  | _ => none

end Driver
