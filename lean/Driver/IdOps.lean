import Driver.Proto
import DvidModel.Model.Ids
namespace Driver
open Dvid.Ids

structure IdSt where
  mu : Mut := Mut.init 0 0
  lab : Lab := Lab.init
  nx : Nx := Nx.set 0

def idOps (st : IdSt) (w : List String) : Option (IdSt × String) :=
  match w with
  | ["mut.init", s, p] =>
    match natArg s, natArg p with
    | some s, some p => some ({ st with mu := Mut.init s p }, "ok")
    | _, _ => some (st, "bad-op")
  | ["mut.alloc"] => let (m, id) := st.mu.alloc; some ({ st with mu := m }, s!"ok {id}")
  | ["mut.restart", s] =>
    match natArg s with
    | some s => some ({ st with mu := Mut.init s st.mu.persisted }, "ok")
    | none => some (st, "bad-op")
  | ["mut.state"] => some (st, s!"ok {st.mu.cur} {st.mu.saved} {st.mu.persisted}")
  | ["lab.reset"] => some ({ st with lab := Lab.init }, "ok")
  | ["lab.new", v, n] =>
    match natArg v, natArg n with
    | some v, some n => let r := st.lab.newLabels v n; some ({ st with lab := r.1 }, s!"ok {r.2.1} {r.2.2}")
    | _, _ => some (st, "bad-op")
  | ["lab.ingest", v, l] =>
    match natArg v, natArg l with
    | some v, some l => some ({ st with lab := st.lab.ingest v l }, "ok")
    | _, _ => some (st, "bad-op")
  | ["lab.restart", vs] =>
    match (if vs == "-" then some [] else (vs.splitOn ",").mapM natArg) with
    | some vs => some ({ st with lab := st.lab.reload vs }, "ok")
    | none => some (st, "bad-op")
  | ["nx.set", n] =>
    match natArg n with
    | some n => some ({ st with nx := Nx.set n }, "ok")
    | none => some (st, "bad-op")
  | ["nx.one"] => let r := st.nx.alloc1; some ({ st with nx := r.1 }, s!"ok {r.2}")
  | ["nx.many", n] =>
    match natArg n with
    | some n => let r := st.nx.allocN n; some ({ st with nx := r.1 }, s!"ok {r.2.1} {r.2.2}")
    | none => some (st, "bad-op")
  | ["nx.restart"] => some ({ st with nx := st.nx.restart }, "ok")
  | ["lab.max"] => some (st, s!"ok {st.lab.maxRepo}")
  | _ => none

end Driver
