import Driver.KeyOps
import Driver.SerOps
import Driver.DagOps
import Driver.RangeOps
import Driver.GeomOps
import Driver.MgrOps
import Driver.IdOps
import Driver.FlogOps
import Driver.GateOps
import Driver.BlockOps
import Driver.NJOps
import Driver.AnnOps
import Driver.ImgOps
import Driver.IdxOps
/-
  Line-protocol driver: one operation per input line, one canonical result line per operation.
  Imports Model only (core Lean), so it links as a `lean_exe`.
-/
open Driver

structure St where
  mgr : Dvid.Manager.State := Dvid.Manager.init
  ids : Driver.IdSt := {}
  blk : Dvid.Block.Block := Driver.emptyBlock
  ann : Dvid.Ann.St := Dvid.Ann.init

def step (st : St) (line : String) : St × String :=
  let w := words line
  match keyOps w with
  | some r => (st, r)
  | none =>
  match serOps w with
  | some r => (st, r)
  | none =>
  match dagOps w with
  | some r => (st, r)
  | none =>
  match rangeOps w with
  | some r => (st, r)
  | none =>
  match geomOps w with
  | some r => (st, r)
  | none =>
  match mgrOps st.mgr w with
  | some (m, r) => ({ st with mgr := m }, r)
  | none =>
  match idOps st.ids w with
  | some (i, r) => ({ st with ids := i }, r)
  | none =>
  match flogOps w with
  | some r => (st, r)
  | none =>
  match gateOps w with
  | some r => (st, r)
  | none =>
  match blockOps st.blk w with
  | some (b, r) => ({ st with blk := b }, r)
  | none =>
  match njOps w with
  | some r => (st, r)
  | none =>
  match annOps st.ann w with
  | some (a, r) => ({ st with ann := a }, r)
  | none =>
  match imgOps w with
  | some r => (st, r)
  | none =>
  match idxOps w with
  | some r => (st, r)
  | none => (st, "bad-op")

partial def loop (h : IO.FS.Stream) (out : IO.FS.Stream) (st : St) : IO Unit := do
  let line ← h.getLine
  if line.isEmpty then return ()
  let l := line.trimAsciiEnd.toString
  let (st', o) := step st l
  out.putStrLn o
  out.flush
  loop h out st'

def main : IO Unit := do
  loop (← IO.getStdin) (← IO.getStdout) {}
