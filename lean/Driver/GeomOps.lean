import Driver.Proto
import DvidModel.Model.Roi
namespace Driver
open Dvid Dvid.Geom Dvid.Rle Dvid.Roi

def parseInts (s : String) (sep : String) : Option (List Int) := (s.splitOn sep).mapM intArg

def parseRuns (s : String) : Option (List RLE) :=
  if s == "-" then some []
  else (s.splitOn ";").mapM fun part =>
    match parseInts part "," with
    | some [x, y, z, n] => some ⟨x, y, z, n⟩
    | _ => none

def showRuns (rs : List RLE) : String :=
  if rs.isEmpty then "-" else ";".intercalate (rs.map fun r => s!"{r.x},{r.y},{r.z},{r.len}")

def parseOptInt (s : String) : Option (Option Int) := if s == "_" then some none else (intArg s).map some

def parseBounds (s : String) : Option (Option Bounds) :=
  if s == "nil" then some none
  else match (s.splitOn ",").mapM parseOptInt with
    | some [a, b, c, d, e, f] => some (some ⟨a, b, c, d, e, f⟩)
    | _ => none

def parseSpans (s : String) : Option (List Span) :=
  if s == "-" then some []
  else (s.splitOn ";").mapM fun part =>
    match parseInts part "," with
    | some [z, y, x0, x1] => some ⟨z, y, x0, x1⟩
    | _ => none

def parsePts (s : String) : Option (List (Int × Int × Int)) :=
  if s == "-" then some []
  else (s.splitOn ";").mapM fun part =>
    match parseInts part "," with
    | some [x, y, z] => some (x, y, z)
    | _ => none

def geomOps (w : List String) : Option String :=
  match w with
  | ["zyx.enc", x, y, z] =>
    match intArg x, intArg y, intArg z with
    | some x, some y, some z => some ("ok " ++ showHex (zyxBytes x y z))
    | _, _, _ => some "bad-op"
  | ["zyx.dec", h] =>
    match ofHex h with
    | some b => match zyxDecode b with
      | some (x, y, z) => some s!"ok {x} {y} {z}"
      | none => some "err"
    | none => some "bad-op"
  | ["bidx.enc", x, y, z] =>
    match intArg x, intArg y, intArg z with
    | some x, some y, some z => some s!"ok {encodeBlockIndex x y z}"
    | _, _, _ => some "bad-op"
  | ["bidx.dec", n] =>
    match natArg n with
    | some n => let (x, y, z) := decodeBlockIndex n; some s!"ok {x} {y} {z}"
    | none => some "bad-op"
  | ["chunk", p, s] =>
    match intArg p, intArg s with
    | some p, some s => some s!"ok {chunk p s}"
    | _, _ => some "bad-op"
  | ["rle.norm", rs] =>
    match parseRuns rs with
    | some rs => some ("ok " ++ showRuns (normalize rs))
    | none => some "bad-op"
  | ["rle.fit", b, rs] =>
    match parseBounds b, parseRuns rs with
    | some b, some rs => some ("ok " ++ showRuns (fitToBounds b rs))
    | _, _ => some "bad-op"
  | ["rle.part", bx, by', bz, rs] =>
    match intArg bx, intArg by', intArg bz, parseRuns rs with
    | some bx, some by', some bz, some rs =>
      let parts := partition bx by' bz rs
      some ("ok " ++ (if parts.isEmpty then "-" else
        ";".intercalate (parts.map fun ((cx, cy, cz), r) => s!"{cx},{cy},{cz}:{r.x},{r.y},{r.z},{r.len}")))
    | _, _, _, _ => some "bad-op"
  | ["rle.split", rs, ss] =>
    match parseRuns rs, parseRuns ss with
    | some rs, some ss =>
      match split rs ss with
      | some out => some ("ok " ++ showRuns out)
      | none => some "err"
    | _, _ => some "bad-op"
  | ["rle.marshal", rs] =>
    match parseRuns rs with
    | some rs => some ("ok " ++ showHex (marshal rs))
    | none => some "bad-op"
  | ["rle.read", h] =>
    match ofHex h with
    | some b => match readRLEs b with
      | some rs => some ("ok " ++ showRuns rs)
      | none => some "err"
    | none => some "bad-op"
  | ["rle.unmarshal", h] =>
    match ofHex h with
    | some b => match unmarshal b with
      | some rs => some ("ok " ++ showRuns rs)
      | none => some "err"
    | none => some "bad-op"
  | ["roi.pq", sp, pts] =>
    match parseSpans sp, parsePts pts with
    | some sp, some pts => some ("ok " ++ String.ofList ((pointQuery sp pts).map fun b => if b then '1' else '0'))
    | _, _ => some "bad-op"
  | ["roi.in", sp, pts] =>
    match parseSpans sp, parsePts pts with
    | some sp, some pts => some ("ok " ++ String.ofList (pts.map fun p => if inRoi sp p then '1' else '0'))
    | _, _ => some "bad-op"
  | ["roi.inside", e0, e1, sp] =>
    match parsePts e0, parsePts e1, parseSpans sp with
    | some [a], some [b], some sp => some ("ok " ++ boolStr (boundsInside a b sp))
    | _, _, _ => some "bad-op"
  | ["roi.vrange", bs, b0, b1, v0, v1] =>
    match intArg bs, intArg b0, intArg b1, intArg v0, intArg v1 with
    | some bs, some b0, some b1, some v0, some v1 =>
      let (a, b) := voxelRange bs b0 b1 v0 v1; some s!"ok {a} {b}"
    | _, _, _, _, _ => some "bad-op"
  | _ => none

end Driver
