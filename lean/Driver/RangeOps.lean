import Driver.DagOps
import DvidModel.Model.Range
namespace Driver
open Dvid Dvid.Resolve Dvid.Range

def parseHexList (s : String) : Option (List Bytes) :=
  if s == "-" || s == "" then some [] else (s.splitOn ",").mapM ofHex

/-- `range <inst> <v> <begtk> <endtk> <parents> <rawkeys>` → datum keys returned, or err -/
def rangeOps (w : List String) : Option String :=
  match w with
  | ["range", i, v, b, e, ps, raw] =>
    match i.toNat?, v.toNat?, ofHex b, ofHex e, parseParents ps, parseHexList raw with
    | some i, some v, some b, some e, some ps, some raw =>
      match keysInRange (Dag.ofList ps) i v b e raw with
      | some ks => some ("ok " ++ (if ks.isEmpty then "-" else ",".intercalate (ks.map showHex)))
      | none => some "err"
    | _, _, _, _, _, _ => some "bad-op"
  | _ => none

end Driver
