import Driver.Proto
import DvidModel.Model.Ann
namespace Driver
open Dvid Dvid.Ann

def kindNum (s : String) : Nat :=
  match s with | "PostSyn" => 1 | "PreSyn" => 2 | "Gap" => 3 | "Note" => 4 | _ => 0
def kindName (n : Nat) : String :=
  match n with | 1 => "PostSyn" | 2 => "PreSyn" | 3 => "Gap" | 4 => "Note" | _ => "Unknown"

def parsePos (s : String) : Option Pos :=
  match s.splitOn "," with
  | [x, y, z] => do pure ((← intArg x), (← intArg y), (← intArg z))
  | _ => none

/-- element token: `x,y,z/Kind/tag;tag|~/prop/Rel>x,y,z;...|~` -/
def parseRel (r : String) : Option (String × Pos) :=
  match r.splitOn ">" with
  | [n, q] => (parsePos q).map fun q => (n, q)
  | _ => none

def parseElem (s : String) : Option Elem :=
  match s.splitOn "/" with
  | [p, k, ts, pr, rs] =>
    let tags := if ts == "~" then [] else ts.splitOn ";"
    let rels := if rs == "~" then some [] else (rs.splitOn ";").mapM parseRel
    match parsePos p, rels with
    | some pos, some rels => some ⟨pos, kindNum k, tags, pr, rels⟩
    | _, _ => none
  | _ => none

def showPos (p : Pos) : String := s!"{p.1},{p.2.1},{p.2.2}"

def sortStrs (l : List String) : List String := (l.toArray.qsort (· < ·)).toList

def showElem (e : Elem) (withRels : Bool) : String :=
  let tags := ",".intercalate (sortStrs e.tags)
  let rels := if withRels then ",".intercalate (sortStrs (e.rels.map fun r => s!"{r.1}>{showPos r.2}")) else ""
  s!"({showPos e.pos}){kindName e.kind}[{tags}]{e.prop}[{rels}]"

def showElems (l : List Elem) (withRels : Bool) : String :=
  if l.isEmpty then "-" else ";".intercalate (sortStrs (l.map (showElem · withRels)))

def annOps (st : St) (w : List String) : Option (St × String) :=
  match w with
  | ["ann.reset"] => some (init, "ok")
  | ["ann.store", es] =>
    match (es.splitOn "+").mapM parseElem with
    | some es => some (store st es, "ok")
    | none => some (st, "bad-op")
  | ["ann.delete", p] =>
    match parsePos p with
    | some p => some (Ann.delete st p, "ok")
    | none => some (st, "bad-op")
  | ["ann.move", p, q] =>
    match parsePos p, parsePos q with
    | some p, some q => some (move st p q, "ok")
    | _, _ => some (st, "bad-op")
  | ["ann.all"] => some (st, "ok " ++ showElems st.blocks true)
  | ["ann.tag", t] => some (st, "ok " ++ showElems (st.tagIdx t) false)
  | _ => none

end Driver
