import Driver.Proto
import DvidModel.Gen.Gate
namespace Driver
open Dvid

def isMutationReq (typ endpoint method : String) : Bool :=
  (method == "post" || method == "put" || method == "delete") && !(Gen.readOnlyOverrides.contains (typ, endpoint, method))

/-- `gate.instance <type> <keyword> <method>` on a committed node in the default server mode without admin
    token; `gate.node <action> <method>` likewise -/
def gateOps (w : List String) : Option String :=
  match w with
  | ["gate.instance", typ, kw, m] =>
    let env : GateEnv := ⟨false, false, false, true, false, isMutationReq typ kw m, m⟩
    some (if Gen.instanceGuard.eval env then "ok deny" else "ok pass")
  | ["gate.node", action, m] =>
    let env : GateEnv := ⟨false, false, false, true, Gen.branchActions.contains action, false, m⟩
    let denied := Gen.nodeGuard.eval env || (action == "commit" && Gen.commitRefusesLocked)
    some (if denied then "ok deny" else "ok pass")
  | _ => none

end Driver
