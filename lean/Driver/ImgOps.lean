import Driver.Proto
import DvidModel.Model.ImageBlk
namespace Driver
open Dvid Dvid.ImageBlk

def parseShape : String → Option Shape
  | "vol" => some .vol | "xy" => some .xy | "xz" => some .xz | "yz" => some .yz | _ => none

/-- canonical form of a transfer map: (dst, src, len) runs sorted by dst, adjacent runs merged -/
def canonRuns (rs : List (Int × Int × Int)) : List (Int × Int × Int) :=
  let sorted := (rs.filter fun r => r.2.2 > 0).mergeSort fun a b => a.1 ≤ b.1
  let merged := sorted.foldl (fun (acc : List (Int × Int × Int)) r =>
    match acc with
    | (d, s, l) :: rest => if d + l == r.1 && s + l == r.2.1 then (d, s, l + r.2.2) :: rest else r :: acc
    | [] => [r]) []
  merged.reverse

def showRuns3 (rs : List (Int × Int × Int)) : String :=
  if rs.isEmpty then "-" else ",".intercalate (rs.map fun r => s!"{r.1}:{r.2.1}:{r.2.2}")

def imgOps (w : List String) : Option String :=
  match w with
  | ["ib.axis", n, s, m, b] =>
    match intArg n, intArg s, intArg m, intArg b with
    | some n, some s, some m, some b =>
      let t := axisXfer n s m b
      some s!"ok {t.blockBeg} {t.dataBeg} {t.dataEnd}"
    | _, _, _, _ => some "bad-op"
  | "ib.map" :: dir :: sh :: rest =>
    match parseShape sh, rest.mapM intArg with
    | some sh, some [bpv, nx, ny, nz, sx, sy, sz, mx, my, mz, bx, by_, bz] =>
      let g : Geo := { bpv, nx, ny, nz, sx, sy, sz, mx, my, mz }
      let ss := segs sh g bx by_ bz
      let runs := if dir == "write" then ss.map fun s => (s.blockI, s.dataI, s.len)
                  else ss.map fun s => (s.dataI, s.blockI, s.len)
      some ("ok " ++ showRuns3 (canonRuns runs))
    | _, _ => some "bad-op"
  | _ => none

end Driver
