import DvidModel.Model.Bytes
/- Line-protocol helpers shared by the per-area handlers. Core only. -/
namespace Driver
open Dvid

def words (s : String) : List String :=
  (s.splitOn " ").filter (· ≠ "")

def natArg (s : String) : Option Nat := s.toNat?

def intArg (s : String) : Option Int :=
  if s.startsWith "-" then (s.drop 1).toNat?.map (fun n => - (Int.ofNat n)) else s.toNat?.map Int.ofNat

def ordStr : Ordering → String
  | .lt => "lt" | .eq => "eq" | .gt => "gt"

def boolStr (b : Bool) : String := if b then "1" else "0"

end Driver
