import Driver.Proto
import DvidModel.Model.LabelIndex
namespace Driver
open Dvid Dvid.LabelIndex

def parseIdx (s : String) : Option Index :=
  if s == "-" then some []
  else (s.splitOn ";").mapM fun e =>
    match e.splitOn ":" with
    | [b, sv, c] => match natArg b, natArg sv, intArg c with
      | some b, some sv, some c => some ((b, sv), c)
      | _, _, _ => none
    | _ => none

def showIdx (idx : Index) : String :=
  let c := canon idx
  if c.isEmpty then "-" else ";".intercalate (c.map fun e => s!"{e.1.1}:{e.1.2}:{e.2}")

def parseNats (s : String) : Option (List Nat) :=
  if s == "-" then some [] else (s.splitOn ",").mapM natArg

def showNats (l : List Nat) : String := if l.isEmpty then "-" else ",".intercalate (l.map toString)

def idxOps (w : List String) : Option String :=
  match w with
  | ["idx.add", a, b] =>
    match parseIdx a, parseIdx b with
    | some a, some b => match add a b with
      | some r => some ("ok " ++ showIdx r)
      | none => some "err"
    | _, _ => some "bad-op"
  | ["idx.cleave", a, svs] =>
    match parseIdx a, parseNats svs with
    | some a, some svs =>
      let (rem, cl, csz, rsz) := cleave a svs
      some s!"ok {showIdx rem} {showIdx cl} {csz} {rsz}"
    | _, _ => some "bad-op"
  | ["idx.modify", a, l, ch] =>
    match parseIdx a, natArg l, parseIdx ch with
    | some a, some l, some ch => match modifyBlocks a l ch with
      | some r => some ("ok " ++ showIdx r)
      | none => some "err"
    | _, _, _ => some "bad-op"
  | ["idx.apply", a, ch] =>
    match parseIdx a, parseIdx ch with
    | some a, some ch => match applyChanges a ch with
      | some r => some ("ok " ++ showIdx r)
      | none => some "err"
    | _, _ => some "bad-op"
  | ["idx.stats", a] =>
    match parseIdx a with
    | some a =>
      let svs := (supervoxels a).mergeSort (· ≤ ·)
      some s!"ok {numVoxels a} {showNats svs} {showNats (svs.map fun sv => (svCount a sv).toNat)}"
    | none => some "bad-op"
  | ["idx.splitsv", a, sv, sp, rm, sc] =>
    match parseIdx a, natArg sv, natArg sp, natArg rm, parseIdx sc with
    | some a, some sv, some sp, some rm, some sc =>
      some ("ok " ++ showIdx (splitSV a sv sp rm (sc.map fun e => (e.1.1, e.2))))
    | _, _, _, _, _ => some "bad-op"
  | _ => none

end Driver
