import Driver.Proto
import DvidModel.Model.Manager
namespace Driver
open Dvid Dvid.Manager

/-- strings travel as hex of their UTF-8 bytes ("-" = empty) -/
def strArg (s : String) : Option String :=
  (ofHex s).bind fun b => String.fromUTF8? (ByteArray.mk b.toArray)

def optStrArg (s : String) : Option (Option String) :=
  if s == "none" then some none else (strArg s).map some

def goQuote (s : String) : String := "\"" ++ s ++ "\""

def natList (l : List Nat) : String := "[" ++ " ".intercalate (l.map toString) ++ "]"

/-- insertion sort of strings (small dumps) -/
def insertSorted (x : String) : List String → List String
  | [] => [x]
  | y :: ys => if x < y then x :: y :: ys else y :: insertSorted x ys
def sortStrings (l : List String) : List String := l.foldl (fun acc x => insertSorted x acc) []

def dumpState (s : State) : String :=
  let ls : List String :=
    s.nodes.map (fun n => s!"node repo={goQuote n.repo} v={n.v} uuid={goQuote n.uuid} parents={natList n.parents} children={natList n.children} branch={goQuote n.branch} locked={n.locked}") ++
    s.v2u.map (fun p => s!"v2u {p.1} {goQuote p.2}") ++
    s.u2v.map (fun p => s!"u2v {goQuote p.1} {p.2}") ++
    s.repos.map (fun p => s!"repos {goQuote p.1} -> {goQuote p.2}") ++
    s.branches.map (fun p => s!"branch {goQuote p.1} {goQuote p.2}") ++
    s.repoIds.map (fun p => s!"repoid {p.1} {goQuote p.2}") ++
    [s!"counters version={s.nextV} repo={s.nextRepo}"]
  "|".intercalate (sortStrings ls)

def respStr : Resp → String
  | .ok u => "ok " ++ (if u.isEmpty then "-" else toHex u.toUTF8.toList)
  | .err => "err"

def mgrOps (st : State) (w : List String) : Option (State × String) :=
  let run (r : Option Req) : Option (State × String) :=
    match r with
    | some r => let (s', resp) := step st r; some (s', respStr resp)
    | none => some (st, "bad-op")
  match w with
  | ["mgr.reset"] => some (init, "ok")
  | ["mgr.dump"] => some (st, "ok " ++ dumpState st)
  | ["mgr.newrepo", a] => run ((optStrArg a).map Req.newRepo)
  | ["mgr.commit", u] => run ((strArg u).map Req.commit)
  | ["mgr.newversion", p, a] => run (do let p ← strArg p; let a ← optStrArg a; pure (Req.newVersion p a))
  | ["mgr.branch", p, n, a] => run (do let p ← strArg p; let n ← strArg n; let a ← optStrArg a; pure (Req.branch p n a))
  | ["mgr.tag", p, t] => run (do let p ← strArg p; let t ← strArg t; pure (Req.tag p t))
  | ["mgr.merge", ps] => run (((ps.splitOn ",").mapM strArg).map Req.merge)
  | ["mgr.delrepo", u] => run ((strArg u).map Req.deleteRepo)
  | _ => none

end Driver
