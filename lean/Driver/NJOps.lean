import Driver.Proto
import DvidModel.Model.NJ
namespace Driver
open Dvid Dvid.NJ

def hexStr (s : String) : Option String := (ofHex s).bind fun bs => String.fromUTF8? ⟨bs.toArray⟩

def strHex (s : String) : String := toHex s.toUTF8.toList

def parseObj (s : String) : Option Obj :=
  if s == "-" then some [] else
  (s.splitOn ",").mapM fun tok =>
    match tok.splitOn "=" with
    | [k, kv] =>
      match kv.splitOn ":" with
      | [kind, v] =>
        match hexStr k, hexStr v with
        | some k, some v =>
          match kind with
          | "n" => some (keyOfName k, Val.null)
          | "s" => some (keyOfName k, Val.str v)
          | "o" => some (keyOfName k, Val.other v)
          | _ => none
        | _, _ => none
      | _ => none
    | _ => none

def showObj (o : Obj) : String :=
  if o.isEmpty then "-" else
  let named := o.map fun p => (nameOfKey p.1, p.2)
  let sorted := named.toArray.qsort (fun a b => a.1 < b.1)
  ",".intercalate (sorted.toList.map fun p =>
    let (kind, v) := match p.2 with | .null => ("n", "null") | .str s => ("s", s) | .other s => ("o", s)
    strHex p.1 ++ "=" ++ kind ++ ":" ++ strHex v)

def njOps (w : List String) : Option String :=
  match w with
  | ["nj.update", orig, new, user, rep, cond] =>
    let og := if orig == "-" then some none else (parseObj orig).map some
    let cs := if cond == "-" then some [] else ((cond.splitOn ",").mapM hexStr).map (·.map keyOfName)
    match og, parseObj new, hexStr user, cs with
    | some og, some nw, some user, some cs =>
      some ("ok " ++ showObj (updateJSON og nw ("\"" ++ user ++ "\"") "\"T\"" cs (rep == "1")))
    | _, _, _, _ => some "bad-op"
  | _ => none

end Driver
