import Driver.Proto
import Std.Data.HashMap
import DvidModel.Model.Block
import DvidModel.Model.BlockParse
namespace Driver
open Dvid Dvid.Block

def csvNats (s : String) : Option (Array Nat) :=
  if s == "-" then some #[] else ((s.splitOn ",").mapM natArg).map List.toArray

def fnvStep (h : UInt64) (byte : UInt64) : UInt64 := (h ^^^ byte) * 1099511628211

/-- FNV-1a over the little-endian 8 bytes of each label -/
def fnvLabels (a : Array Nat) : UInt64 :=
  a.foldl (fun h l =>
    let v := UInt64.ofNat l
    (List.range 8).foldl (fun h i => fnvStep h ((v >>> (UInt64.ofNat (8 * i))) &&& 255)) h) 14695981039346656037

def countsStr (a : Array Nat) : String :=
  let m : Std.HashMap Nat Nat := a.foldl (fun m l => if l = 0 then m else m.insert l (m.getD l 0 + 1)) {}
  let ks := (m.toArray.map (·.1)).qsort (· < ·)
  if ks.isEmpty then "-" else ",".intercalate (ks.toList.map fun k => s!"{k}:{m.getD k 0}")

def parsePairs (s : String) : Option (List (Nat × Nat)) :=
  if s == "-" then some [] else
  (s.splitOn ",").mapM fun kv =>
    match kv.splitOn ":" with
    | [k, v] => match natArg k, natArg v with
      | some k, some v => some (k, v)
      | _, _ => none
    | _ => none

def emptyBlock : Block := ⟨0, 0, 0, #[], #[], #[], #[]⟩

def blockOps (b : Block) (w : List String) : Option (Block × String) :=
  match w with
  | ["blk.load", gx, gy, gz, ls, ns, is, vs] =>
    match natArg gx, natArg gy, natArg gz, csvNats ls, csvNats ns, csvNats is, ofHex vs with
    | some gx, some gy, some gz, some ls, some ns, some is, some vs =>
      let b' : Block := ⟨gx, gy, gz, ls, ns, is, (vs.map (·.toNat)).toArray⟩
      let w := wfBlock b'
      let nd := if ls.size < 2 then true else noDupSB b'
      some (b', s!"ok wf={boolStr w} nodup={boolStr nd}")
    | _, _, _, _, _, _, _ => some (b, "bad-op")
  | ["blk.parse", h] =>
    match ofHex h with
    | some bs =>
      match BlockParse.receive bs.toArray with
      | some pb => let d := decode pb; some (b, s!"ok {d.size} {fnvLabels d}")
      | none => some (b, "err")
    | none => some (b, "bad-op")
  | ["blk.hash"] => let d := decode b; some (b, s!"ok {d.size} {fnvLabels d}")
  | ["blk.value", x, y, z] =>
    match intArg x, intArg y, intArg z with
    | some x, some y, some z => some (b, s!"ok {value b x y z}")
    | _, _, _ => some (b, "bad-op")
  | ["blk.counts"] => some (b, s!"ok {countsStr (decode b)}")
  | ["blk.numvox", i] =>
    match natArg i with
    | some i => some (b, s!"ok {getNumVoxels b i} {if b.labels.size < 2 then (if i = 0 ∧ b.labels.size = 1 then nvox b else 0) else slotCount b i}")
    | none => some (b, "bad-op")
  | ["blk.replace", m] =>
    match parsePairs m with
    | some m => some (replaceLabels (fun l => (m.find? (·.1 == l)).map (·.2)) b, "ok")
    | none => some (b, "bad-op")
  | ["blk.replace1", t, n] =>
    match natArg t, natArg n with
    | some t, some n => let r := replaceLabel b t n; some (r.1, s!"ok {r.2}")
    | _, _ => some (b, "bad-op")
  | ["blk.merge", t, ms] =>
    match natArg t, csvNats ms with
    | some t, some ms => some (mergeLabels b t ms.toList, "ok")
    | _, _ => some (b, "bad-op")
  | ["blk.labels"] => some (b, s!"ok {if b.labels.isEmpty then "-" else ",".intercalate (b.labels.toList.map toString)}")
  | ["blk.bitsfor", n] =>
    match natArg n with
    | some n => some (b, s!"ok {bitsFor n}")
    | none => some (b, "bad-op")
  | ["blk.getpacked", b0, b1, p, bits] =>
    match natArg b0, natArg b1, natArg p, natArg bits with
    | some b0, some b1, some p, some bits => some (b, s!"ok {getPacked2 b0 b1 p bits}")
    | _, _, _, _ => some (b, "bad-op")
  | ["blk.vote", ls] =>
    match csvNats ls with
    | some ls => some (b, s!"ok {vote ls.toList}")
    | none => some (b, "bad-op")
  | ["blk.downres", sx, sy, sz, ls] =>
    match natArg sx, natArg sy, natArg sz, csvNats ls with
    | some sx, some sy, some sz, some ls =>
      if ls.size ≠ sx * sy * sz ∨ sx % 2 ≠ 0 ∨ sy % 2 ≠ 0 ∨ sz % 2 ≠ 0 then some (b, "err")
      else let d := downresLabels ls sx sy sz; some (b, s!"ok {d.size} {fnvLabels d}")
    | _, _, _, _ => some (b, "bad-op")
  | _ => none

end Driver
