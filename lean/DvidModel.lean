-- Root of the `DvidModel` library: every model, lemma and property module.
import DvidModel.Model.Bytes
import DvidModel.Model.KeyLayout
import DvidModel.Model.Key
import DvidModel.Lemmas.Bytes
import DvidModel.Lemmas.Key
import DvidModel.Props.C06
