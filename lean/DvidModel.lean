-- Root of the `DvidModel` library: every model, lemma and property module.
import DvidModel.Props.C01
import DvidModel.Props.C06
import DvidModel.Props.C15
import DvidModel.Props.C05
import DvidModel.Props.C18
import DvidModel.Props.C07
import DvidModel.Props.C12
import DvidModel.Props.C04
import DvidModel.Props.C03
import DvidModel.Props.C02
import DvidModel.Props.C09
import DvidModel.Props.C10
import DvidModel.Props.C19
import DvidModel.Props.C16
import DvidModel.Props.C13
import DvidModel.Props.C14
import DvidModel.Props.C17
