module verifharness

go 1.23.0

toolchain go1.24.1

require (
	github.com/blang/semver v3.5.1+incompatible
	github.com/golang/snappy v0.0.4
	github.com/janelia-flyem/dvid v0.0.0
	github.com/janelia-flyem/go v0.0.0-20180718195536-d388bdc31871
	google.golang.org/protobuf v1.33.0
)

require (
	cloud.google.com/go v0.110.0 // indirect
	cloud.google.com/go/compute/metadata v0.2.3 // indirect
	cloud.google.com/go/iam v0.13.0 // indirect
	cloud.google.com/go/storage v1.28.1 // indirect
	github.com/BurntSushi/toml v1.0.0 // indirect
	github.com/DmitriyVTitov/size v1.5.0 // indirect
	github.com/Shopify/sarama v1.32.0 // indirect
	github.com/aws/aws-sdk-go v1.40.34 // indirect
	github.com/aws/aws-sdk-go-v2 v1.9.0 // indirect
	github.com/aws/aws-sdk-go-v2/config v1.7.0 // indirect
	github.com/aws/aws-sdk-go-v2/credentials v1.4.0 // indirect
	github.com/aws/aws-sdk-go-v2/feature/ec2/imds v1.5.0 // indirect
	github.com/aws/aws-sdk-go-v2/internal/ini v1.2.2 // indirect
	github.com/aws/aws-sdk-go-v2/service/internal/presigned-url v1.3.0 // indirect
	github.com/aws/aws-sdk-go-v2/service/sso v1.4.0 // indirect
	github.com/aws/aws-sdk-go-v2/service/sts v1.7.0 // indirect
	github.com/aws/smithy-go v1.8.0 // indirect
	github.com/cespare/xxhash v1.1.0 // indirect
	github.com/cespare/xxhash/v2 v2.2.0 // indirect
	github.com/coocood/freecache v1.2.1 // indirect
	github.com/davecgh/go-spew v1.1.1 // indirect
	github.com/dgraph-io/badger/v3 v3.2103.2 // indirect
	github.com/dgraph-io/ristretto v0.1.0 // indirect
	github.com/dustin/go-humanize v1.0.0 // indirect
	github.com/eapache/go-resiliency v1.2.0 // indirect
	github.com/eapache/go-xerial-snappy v0.0.0-20180814174437-776d5712da21 // indirect
	github.com/eapache/queue v1.1.0 // indirect
	github.com/gogo/protobuf v1.3.2 // indirect
	github.com/golang-jwt/jwt/v4 v4.5.2 // indirect
	github.com/golang/glog v1.2.4 // indirect
	github.com/golang/groupcache v0.0.0-20210331224755-41bb18bfe9da // indirect
	github.com/golang/protobuf v1.5.3 // indirect
	github.com/google/flatbuffers v1.12.1 // indirect
	github.com/google/go-cmp v0.6.0 // indirect
	github.com/google/uuid v1.3.0 // indirect
	github.com/google/wire v0.5.0 // indirect
	github.com/googleapis/enterprise-certificate-proxy v0.2.3 // indirect
	github.com/googleapis/gax-go/v2 v2.7.1 // indirect
	github.com/hashicorp/go-uuid v1.0.2 // indirect
	github.com/janelia-flyem/protolog v0.0.0-20191102211808-ce1a9ba02c03 // indirect
	github.com/jcmturner/aescts/v2 v2.0.0 // indirect
	github.com/jcmturner/dnsutils/v2 v2.0.0 // indirect
	github.com/jcmturner/gofork v1.0.0 // indirect
	github.com/jcmturner/gokrb5/v8 v8.4.2 // indirect
	github.com/jcmturner/rpc/v2 v2.0.3 // indirect
	github.com/jmespath/go-jmespath v0.4.0 // indirect
	github.com/klauspost/compress v1.14.4 // indirect
	github.com/natefinch/lumberjack v2.0.0+incompatible // indirect
	github.com/pierrec/lz4 v2.6.1+incompatible // indirect
	github.com/pkg/errors v0.9.1 // indirect
	github.com/rcrowley/go-metrics v0.0.0-20201227073835-cf1acfcdf475 // indirect
	github.com/rs/cors v1.8.2 // indirect
	github.com/santhosh-tekuri/jsonschema/v5 v5.0.1 // indirect
	github.com/twinj/uuid v1.0.0 // indirect
	github.com/valyala/gorpc v0.0.0-20160519171614-908281bef774 // indirect
	github.com/zenazn/goji v1.0.1 // indirect
	go.opencensus.io v0.24.0 // indirect
	gocloud.dev v0.24.0 // indirect
	golang.org/x/crypto v0.36.0 // indirect
	golang.org/x/net v0.38.0 // indirect
	golang.org/x/oauth2 v0.7.0 // indirect
	golang.org/x/sys v0.31.0 // indirect
	golang.org/x/text v0.23.0 // indirect
	golang.org/x/xerrors v0.0.0-20220907171357-04be3eba64a2 // indirect
	google.golang.org/api v0.114.0 // indirect
	google.golang.org/genproto v0.0.0-20230410155749-daa745c078e1 // indirect
	google.golang.org/grpc v1.56.3 // indirect
)

replace github.com/janelia-flyem/dvid => /repo
