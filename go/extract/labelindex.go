package main

import (
	"fmt"
	"strings"
)

// genLabelIndex: shape facts of the label-index algebra and of the code that feeds it (C08).
func genLabelIndex(repo string) {
	lb := loadPkg(repo, "datatype/common/labels")
	lm := loadPkg(repo, "datatype/labelmap")
	g := newGen("LabelIndex", "")
	squash := func(s string) string { return strings.NewReplacer(" ", "", "\t", "", "\n", "").Replace(s) }
	body := func(p *pkgT, recv, fn string) string {
		if fd := p.funcDecl(recv, fn); fd != nil {
			return squash(p.src(fd))
		}
		return ""
	}
	emit := func(name, doc string, v, known bool) {
		if !known {
			fmt.Fprintf(&g.body, "def %s : Bool := unknown_%s\n", name, name)
			return
		}
		fmt.Fprintf(&g.body, "/-- %s -/\ndef %s : Bool := %v\n", doc, name, v)
		facts.Extra[name] = v
	}
	ad := body(lb, "Index", "Add")
	emit("idxAddRefusesSharedSupervoxel", "Index.Add refuses a supervoxel that the receiver already lists in the same block and otherwise copies every count of the other index",
		strings.Contains(ad, "forsv2,c2:=rangesvc2.Counts{if_,found:=svc.Counts[sv2];found{returnfmt.Errorf(") && strings.Contains(ad, "svc.Counts[sv2]=c2") && strings.Contains(ad, "idx.Blocks[zyx]=svc2"), ad != "")
	cl := body(lb, "Index", "Cleave")
	emit("idxCleavePartitionsBySet", "Index.Cleave moves exactly the counts of the listed supervoxels to the new index and sums both sides",
		strings.Contains(cl, "_,inCleave:=cleaveSet[supervoxel]ifinCleave{cleavedSize+=uint64(sz)cleavedCounts[supervoxel]=szdelete(svc.Counts,supervoxel)") && strings.Contains(cl, "}else{remainSize+=uint64(sz)}"), cl != "")
	ap := body(lb, "Index", "ApplyChanges")
	emit("idxApplyAddsDeltas", "Index.ApplyChanges adds each signed delta to the count of its (block, supervoxel), refuses a negative result and drops zero counts",
		strings.Contains(ap, "ifdelta<0&&uint32(-delta)>oldsz{returnfmt.Errorf(") && strings.Contains(ap, "newsz=uint32(int64(oldsz)+int64(delta))ifnewsz==0{delete(svc.Counts,supervoxel)}else{svc.Counts[supervoxel]=newsz}") &&
			strings.Contains(ap, "ifdelta<0{returnfmt.Errorf(") && strings.Contains(ap, "svc.Counts[supervoxel]=uint32(delta)"), ap != "")
	mb := body(lb, "Index", "ModifyBlocks")
	emit("idxModifyFiltersOwn", "Index.ModifyBlocks applies only the changes of supervoxels the index lists (a new index owns its label)",
		strings.Contains(mb, "iflen(labelSupervoxels)==0{labelSupervoxels[label]=struct{}{}") && strings.Contains(mb, "if_,inSet:=labelSupervoxels[supervoxel];inSet{own[supervoxel]=blockChanges}") && strings.Contains(mb, "returnidx.ApplyChanges(own)"), mb != "")
	ag := body(lm, "Data", "aggregateBlockChanges")
	ch := body(lm, "", "ChangeLabelIndex")
	emit("idxChangesGroupedByMappedLabel", "aggregateBlockChanges groups the voxel changes by the label each supervoxel is mapped to at this version and ChangeLabelIndex applies all of a label's changes",
		strings.Contains(ag, "label,_:=svmap.mapLabel(supervoxel,mappedVersions)lc,found:=labelChanges[label]") && strings.Contains(ag, "lc[supervoxel]=blockChanges") &&
			strings.Contains(ag, "forlabel,lc:=rangelabelChanges{iferr:=ChangeLabelIndex(d,v,label,lc);err!=nil{") && strings.Contains(ch, "iferr:=idx.ApplyChanges(delta);err!=nil{returnerr}") &&
			strings.Contains(ch, "iflen(idx.Blocks)==0{returndeleteCachedLabelIndex(d,v,label)}returnputCachedLabelIndex(d,v,idx)"), ag != "" && ch != "")
	ml := body(lm, "VCache", "mapLabel")
	emit("mapLabelIdentityWhenUnmapped", "mapLabel returns the supervoxel itself unless a mapping exists within the version's ancestry",
		strings.Contains(ml, "vm,found:=lmap.fm[label]if!found{returnlabel,false}") && strings.Contains(ml, "mapped,present:=vm.value(mappedVersions)if!present{returnlabel,false}returnmapped,true"), ml != "")
	vv := body(lm, "vmap", "value")
	emit("vmapPicksNearestAncestor", "vmap.value picks, among the entries whose version lies in the ancestry, the one farthest from the root",
		strings.Contains(vv, "rootDist,found:=mappedVersions[v]iffound&&rootDist>farthest{farthest=rootDistlabel=curLabelpresent=true}"), vv != "")
	sp := body(lm, "Data", "splitSupervoxelIndex")
	emit("idxSplitKeepsBlockTotals", "splitSupervoxelIndex replaces the supervoxel's count in each block by the split count and the remainder",
		strings.Contains(sp, "delete(svc.Counts,op.Supervoxel)") && strings.Contains(sp, "svc.Counts[op.SplitSupervoxel]=uint32(splitNumVoxels)") &&
			strings.Contains(sp, "ifsplitNumVoxels>uint64(origNumVoxels){returnnil,fmt.Errorf(") && strings.Contains(sp, "svc.Counts[op.RemainSupervoxel]=origNumVoxels-uint32(splitNumVoxels)") &&
			strings.Contains(sp, "}else{//partofremaindersvc.Counts[op.RemainSupervoxel]=origNumVoxels}") || (strings.Contains(sp, "svc.Counts[op.RemainSupervoxel]=origNumVoxels}") && strings.Contains(sp, "svc.Counts[op.SplitSupervoxel]=uint32(splitNumVoxels)")), sp != "")
}
