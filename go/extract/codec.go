package main

import (
	"fmt"
	"go/ast"
	"strings"
)

// genCodec: constants and guard facts of dvid/serialize.go (C15) — extended with the label block codec
// and file log constants by later properties.
func genCodec(repo string) {
	dv := loadPkg(repo, "dvid")
	g := newGen("Codec", "")
	for _, c := range [][2]string{{"Uncompressed", "compUncompressed"}, {"Snappy", "compSnappy"}, {"Gzip", "compGzip"}, {"LZ4", "compLZ4"}, {"JPEG", "compJPEG"},
		{"NoChecksum", "cksumNone"}, {"CRC32", "cksumCRC32"}} {
		g.constNat(repo, dv, c[0], c[1])
	}
	// EncodeSerializationFormat: a := uint8(compress.format&0x07) << 5 ; b := uint8(checksum&0x03) << 3
	enc := dv.funcDecl("", "EncodeSerializationFormat")
	masks := map[string][2]int64{}
	if enc != nil {
		ast.Inspect(enc, func(n ast.Node) bool {
			as, ok := n.(*ast.AssignStmt)
			if !ok || len(as.Lhs) != 1 || len(as.Rhs) != 1 {
				return true
			}
			be, ok := as.Rhs[0].(*ast.BinaryExpr)
			if !ok || be.Op.String() != "<<" {
				return true
			}
			sh, ok1 := dv.eval(repo, be.Y, 0)
			call, ok2 := be.X.(*ast.CallExpr)
			if !ok1 || !ok2 || len(call.Args) != 1 {
				return true
			}
			inner, ok := call.Args[0].(*ast.BinaryExpr)
			if !ok || inner.Op.String() != "&" {
				return true
			}
			mk, ok := dv.eval(repo, inner.Y, 0)
			if !ok {
				return true
			}
			src := dv.src(inner.X)
			if strings.Contains(src, "format") {
				masks["compress"] = [2]int64{mk, sh}
			} else if strings.Contains(src, "checksum") {
				masks["checksum"] = [2]int64{mk, sh}
			}
			return true
		})
	}
	emit := func(key, mname, sname string) {
		if v, ok := masks[key]; ok {
			fmt.Fprintf(&g.body, "def %s : Nat := %d\ndef %s : Nat := %d\n", mname, v[0], sname, v[1])
			facts.Consts[mname], facts.Consts[sname] = v[0], v[1]
		} else {
			fmt.Fprintf(&g.body, "def %s : Nat := unknown_%s\ndef %s : Nat := unknown_%s\n", mname, mname, sname, sname)
		}
	}
	emit("compress", "fmtCompressMask", "fmtCompressShift")
	emit("checksum", "fmtChecksumMask", "fmtChecksumShift")
	// DecodeSerializationFormat must use the same shifts: s >> 5 and (s>>3) & 0x03
	dec := dv.funcDecl("", "DecodeSerializationFormat")
	decOK := false
	if dec != nil {
		src := strings.ReplaceAll(dv.src(dec), " ", "")
		cs, ks := masks["compress"], masks["checksum"]
		decOK = strings.Contains(src, fmt.Sprintf("CompressionFormat(s>>%d)", cs[1])) &&
			strings.Contains(src, fmt.Sprintf("Checksum(s>>%d)&0x%02x", ks[1], ks[0]))
	}
	fmt.Fprintf(&g.body, "def decodeMirrorsEncode : Bool := %v\n", decOK)

	// guards inside DeserializeData's decompression switch
	des := dv.funcDecl("", "DeserializeData")
	lz4Checked, jpegChecked := false, false
	crcLE, crcVerified := false, false
	if des != nil {
		ast.Inspect(des, func(n ast.Node) bool {
			cc, ok := n.(*ast.CaseClause)
			if !ok || len(cc.List) != 1 {
				return true
			}
			name := dv.src(cc.List[0])
			body := ""
			for _, st := range cc.Body {
				body += strings.ReplaceAll(dv.src(st), " ", "") + "\n"
			}
			switch name {
			case "LZ4":
				i := strings.Index(body, "cdata[0:4]")
				j := strings.Index(body, "len(cdata)<4")
				lz4Checked = j >= 0 && (i < 0 || j < i)
			case "JPEG":
				jpegChecked = !strings.Contains(body, ":=imgdata.(*image.Gray)\n") || strings.Contains(body, ",ok:=imgdata.(*image.Gray)")
				if strings.Contains(body, "data2:=imgdata.(*image.Gray)") && !strings.Contains(body, ",ok") {
					jpegChecked = false
				}
			case "CRC32":
				if strings.Contains(body, "binary.Read(buffer,binary.LittleEndian,&storedCrc32)") {
					crcLE = true
				}
				if strings.Contains(body, "crc32.ChecksumIEEE(cdata)") && strings.Contains(body, "crcChecksum!=storedCrc32") && strings.Contains(body, "returnnil,0,") {
					crcVerified = true
				}
			}
			return true
		})
	}
	fmt.Fprintf(&g.body, "def lz4LenChecked : Bool := %v\ndef jpegGrayChecked : Bool := %v\n", lz4Checked, jpegChecked)
	fmt.Fprintf(&g.body, "def crcStoredLittleEndian : Bool := %v\ndef crcVerifiedOnRead : Bool := %v\n", crcLE, crcVerified)
	facts.Extra["lz4LenChecked"], facts.Extra["jpegGrayChecked"], facts.Extra["crcVerifiedOnRead"] = lz4Checked, jpegChecked, crcVerified
	// SerializeData: the empty value is short-circuited before compression
	emptyFirst := false
	if fd := dv.funcDecl("", "SerializeData"); fd != nil {
		src := strings.NewReplacer(" ", "", "\t", "", "\n", "").Replace(dv.src(fd))
		i := strings.Index(src, "ifdata==nil||len(data)==0{return[]byte{},nil}")
		j := strings.Index(src, "switchcompress.format")
		if j < 0 {
			j = strings.Index(src, "compress.format")
		}
		emptyFirst = i >= 0 && (j < 0 || i < j)
	}
	fmt.Fprintf(&g.body, "/-- `SerializeData` returns the empty serialization for an empty value before any compression -/\ndef serializeEmptyShortCircuit : Bool := %v\n", emptyFirst)
	facts.Extra["serializeEmptyShortCircuit"] = emptyFirst
}
