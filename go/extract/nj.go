package main

import (
	"fmt"
	"strings"
)

// genNJ: shape facts of the neuronjson in-memory bookkeeping (C16).
func genNJ(repo string) {
	nj := loadPkg(repo, "datatype/neuronjson")
	g := newGen("NJ", "")
	squash := func(s string) string { return strings.NewReplacer(" ", "", "\t", "", "\n", "").Replace(s) }
	emit := func(name, doc string, v, known bool) {
		if !known {
			fmt.Fprintf(&g.body, "def %s : Bool := unknown_%s\n", name, name)
			return
		}
		fmt.Fprintf(&g.body, "/-- %s -/\ndef %s : Bool := %v\n", doc, name, v)
		facts.Extra[name] = v
	}
	del := ""
	if fd := nj.funcDecl("memdb", "deleteBodyID"); fd != nil {
		del = squash(nj.src(fd))
	}
	ge := strings.Contains(del, "returnmdb.ids[i]>=bodyid}") && strings.Contains(del, "ifi==len(mdb.ids)||mdb.ids[i]!=bodyid{return}")
	eq := strings.Contains(del, "returnmdb.ids[i]==bodyid}") && strings.Contains(del, "ifi==len(mdb.ids){return}")
	emit("njDeleteSearchMonotone", "`deleteBodyID` gives sort.Search the monotone predicate ids[i] >= bodyid and then checks equality", ge, ge != eq)
	sau := ""
	if fd := nj.funcDecl("Data", "storeAndUpdate"); fd != nil {
		sau = squash(nj.src(fd))
	}
	iOrig := strings.Index(sau, "forfield:=rangeorigData{origFields=append(origFields,field)}")
	iUpd := strings.Index(sau, "updateJSON(origData,newData,")
	iDec := strings.Index(sau, "for_,field:=rangeorigFields{mdb.decrementField(field)}")
	emit("njCountsUseOriginalFields", "`storeAndUpdate` decrements the cached field counts over the original's fields as they were before updateJSON removed nulled ones",
		iOrig >= 0 && iUpd > iOrig && iDec > iUpd, sau != "")
}
