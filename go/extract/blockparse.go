package main

import (
	"fmt"
	"strings"
)

// genBlockParse: which checks the block parser and the ingest path perform (C20).
func genBlockParse(repo string) {
	lb := loadPkg(repo, "datatype/common/labels")
	lm := loadPkg(repo, "datatype/labelmap")
	g := newGen("BlockParse", "")
	squash := func(s string) string { return strings.NewReplacer(" ", "", "\t", "", "\n", "").Replace(s) }
	body := func(p *pkgT, recv, fn string) string {
		if fd := p.funcDecl(recv, fn); fd != nil {
			return squash(p.src(fd))
		}
		return ""
	}
	emit := func(name, doc string, v, known bool) {
		if !known {
			fmt.Fprintf(&g.body, "def %s : Bool := unknown_%s\n", name, name)
			return
		}
		fmt.Fprintf(&g.body, "/-- %s -/\ndef %s : Bool := %v\n", doc, name, v)
		facts.Extra[name] = v
	}
	g.constNat(repo, lb, "MaxSubBlockSize", "blkMaxSubBlocks")
	if v, ok := lb.constVal(repo, "MaxBlockSize"); ok {
		fmt.Fprintf(&g.body, "def blkMaxLabels : Nat := %d\n", v*v*v)
	} else {
		g.body.WriteString("def blkMaxLabels : Nat := unknown_MaxBlockSize\n")
	}
	um := body(lb, "Block", "UnmarshalBinary")
	min := int64(-1)
	if i := strings.Index(um, "iflen(data)<"); i >= 0 {
		fmt.Sscanf(um[i+len("iflen(data)<"):], "%d", &min)
	}
	if min >= 0 && strings.Contains(um, "returnb.setExportedVars()") {
		fmt.Fprintf(&g.body, "def blkMinBytes : Nat := %d\n", min)
	} else {
		g.body.WriteString("def blkMinBytes : Nat := unknown_blkMinBytes\n")
	}
	sv := body(lb, "Block", "setExportedVars")
	before := func(a, b string) bool {
		i, j := strings.Index(sv, a), strings.Index(sv, b)
		return i >= 0 && j >= 0 && i < j
	}
	emit("blkChecksLabelTableBound", "setExportedVars refuses a block too short for its label table before slicing it",
		before("if16+uint64(numLabels)*8>numBytes{returnfmt.Errorf(", "b.Labels,err=dvid.AliasByteToUint64(b.data[16:16+numLabels*8])") && strings.Contains(sv, "numBytes:=uint64(len(b.data))"), sv != "")
	emit("blkRejectsEmptyGrid", "setExportedVars refuses a multi-label block without sub-blocks",
		before("ifnumSubBlocks==0{returnfmt.Errorf(", "b.NumSBLabels,err=dvid.AliasByteToUint16("), sv != "")
	emit("blkChecksCountTableBound", "setExportedVars refuses a block too short for its per-sub-block label counts before slicing them",
		before("ifuint64(pos)+uint64(nbytes)>numBytes{returnfmt.Errorf(", "b.NumSBLabels,err=dvid.AliasByteToUint16(b.data[pos:pos+nbytes])"), sv != "")
	emit("blkChecksIndexTableBound", "setExportedVars refuses a block too short for its index lists before slicing them, and does not alias an empty list",
		before("ifuint64(pos)+uint64(subBlockIndexBytes)>numBytes{returnfmt.Errorf(", "dvid.AliasByteToUint32(b.data[pos:pos+subBlockIndexBytes])") &&
			strings.Contains(sv, "ifsubBlockIndexBytes==0{b.SBIndices=nil}elseifb.SBIndices,err=dvid.AliasByteToUint32(b.data[pos:pos+subBlockIndexBytes]);err!=nil{return}"), sv != "")
	va := body(lb, "Block", "Validate")
	emit("blkValidateChecksTables", "Block.Validate checks grid, sub-block count, per-sub-block label count <= 512, index list bounds, every index < number of labels, packed-value bounds and every packed value < the sub-block's label count",
		strings.Contains(va, "ifgx<=0||gy<=0||gz<=0{returnfmt.Errorf(") && strings.Contains(va, "iflen(b.Labels)==0{returnfmt.Errorf(") &&
			strings.Contains(va, "iflen(b.Labels)==1{returnnil}") && strings.Contains(va, "iflen(b.NumSBLabels)!=numSubBlocks{returnfmt.Errorf(") &&
			strings.Contains(va, "ifn>SubBlockSize*SubBlockSize*SubBlockSize{returnfmt.Errorf(") && strings.Contains(va, "ifindexPos+int(n)>len(b.SBIndices){returnfmt.Errorf(") &&
			strings.Contains(va, "ifb.SBIndices[indexPos+i]>=numLabels{returnfmt.Errorf(") &&
			strings.Contains(va, "ifbitpos+bits*SubBlockSize*SubBlockSize*SubBlockSize>numValueBits{returnfmt.Errorf(") &&
			strings.Contains(va, "ifgetPackedValue(b.SBValues,uint32(bitpos),uint32(bits))>=n{returnfmt.Errorf(") &&
			strings.Contains(va, "ifn>1{bits:=uint64(bitsFor(n))") && strings.Contains(va, "ifbitpos%8!=0{bitpos+=8-(bitpos%8)}"), va != "")
	rs := body(lm, "", "readStreamedBlock")
	emit("blkStreamValidates", "readStreamedBlock validates every received block before returning it to the code that stores it and starts goroutines on it",
		strings.Contains(rs, "iferr=block.UnmarshalBinary(uncompressed);err!=nil{return}iferr=block.Validate();err!=nil{err=fmt.Errorf("), rs != "")
}
