package main

import (
	"fmt"
	"go/ast"
	"go/token"
	"os"
	"path/filepath"
	"sort"
	"strings"
)

// genGate: the guards of the request gate as boolean expression ASTs (C02), the per-type IsMutationRequest
// overrides, and the endpoint keywords each data type dispatches on.

// bexp turns a Go boolean condition into a Lean `BExp` term over named atoms.
func bexp(p *pkgT, e ast.Expr) string {
	switch x := e.(type) {
	case *ast.ParenExpr:
		return bexp(p, x.X)
	case *ast.UnaryExpr:
		if x.Op == token.NOT {
			return "(.not " + bexp(p, x.X) + ")"
		}
	case *ast.BinaryExpr:
		switch x.Op {
		case token.LAND:
			return "(.and " + bexp(p, x.X) + " " + bexp(p, x.Y) + ")"
		case token.LOR:
			return "(.or " + bexp(p, x.X) + " " + bexp(p, x.Y) + ")"
		case token.NEQ, token.EQL:
			// method != "get"
			l := strings.ReplaceAll(p.src(x.X), " ", "")
			if lit, ok := x.Y.(*ast.BasicLit); ok && lit.Kind == token.STRING && l == "method" {
				t := "(.methodIs " + lit.Value + ")"
				if x.Op == token.NEQ {
					return "(.not " + t + ")"
				}
				return t
			}
		}
	case *ast.Ident:
		return fmt.Sprintf("(.atom %q)", x.Name)
	case *ast.CallExpr:
		src := strings.ReplaceAll(p.src(x), " ", "")
		if src == `data.IsMutationRequest(r.Method,c.URLParams["keyword"])` {
			return `(.atom "isMutation")`
		}
	}
	return fmt.Sprintf("(.unknown_%s)", sanitize(p.src(e)))
}

// guardBefore finds, in function fn, the condition of the if-statement whose body's first statement is a
// BadRequest call containing the given message fragment.
func guardBefore(p *pkgT, fn, msg string) ast.Expr {
	fd := p.funcDecl("", fn)
	if fd == nil {
		return nil
	}
	var found ast.Expr
	ast.Inspect(fd, func(n ast.Node) bool {
		is, ok := n.(*ast.IfStmt)
		if !ok || found != nil || len(is.Body.List) == 0 {
			return true
		}
		if strings.Contains(p.src(is.Body.List[0]), msg) {
			found = is.Cond
		}
		return true
	})
	return found
}

func genGate(repo string) {
	sv := loadPkg(repo, "server")
	g := newGen("Gate", "import DvidModel.Model.GateExp\n")
	emit := func(name, fn, msg string) {
		e := guardBefore(sv, fn, msg)
		if e == nil {
			fmt.Fprintf(&g.body, "def %s : BExp := .unknown_missing_%s\n", name, fn)
			return
		}
		fmt.Fprintf(&g.body, "/-- %s: `%s` -/\ndef %s : BExp := %s\n", fn, strings.ReplaceAll(sv.src(e), "\n", " "), name, bexp(sv, e))
	}
	emit("instanceGuard", "instanceSelector", "of locked node")
	emit("nodeGuard", "nodeSelector", "on locked node")
	emit("repoRawReadonlyGuard", "repoRawSelector", "read-only mode")
	emit("repoReadonlyGuard", "repoSelector", "read-only mode")
	// branchRequest: the action names that are exempt from the node gate
	var exempt []string
	if fd := sv.funcDecl("", "nodeSelector"); fd != nil {
		ast.Inspect(fd, func(n ast.Node) bool {
			cc, ok := n.(*ast.CaseClause)
			if !ok {
				return true
			}
			sets := false
			for _, st := range cc.Body {
				if strings.Contains(strings.ReplaceAll(sv.src(st), " ", ""), "branchRequest=true") {
					sets = true
				}
			}
			if sets {
				for _, e := range cc.List {
					if lit, ok := e.(*ast.BasicLit); ok {
						exempt = append(exempt, lit.Value)
					}
				}
			}
			return true
		})
	}
	fmt.Fprintf(&g.body, "/-- node actions exempt from the locked-node gate -/\ndef branchActions : List String := [%s]\n", strings.Join(exempt, ", "))
	// commit handler: refuses a locked node itself
	ch := guardBefore(sv, "repoCommitHandler", "Could not post to locked node")
	fmt.Fprintf(&g.body, "def commitRefusesLocked : Bool := %v\n", ch != nil && strings.ReplaceAll(sv.src(ch), " ", "") == "locked")
	// the instance gate is applied before the handler is invoked and only skipped for unversioned data / blobstore
	is := sv.funcDecl("", "instanceSelector")
	order := false
	if is != nil {
		src := strings.ReplaceAll(sv.src(is), " ", "")
		i := strings.Index(src, "data.IsMutationRequest(r.Method,c.URLParams[\"keyword\"])")
		j := strings.Index(src, "data.ServeHTTP(uuid,ctx,")
		order = i >= 0 && j >= 0 && i < j
	}
	fmt.Fprintf(&g.body, "def gateBeforeHandler : Bool := %v\n", order)

	// IsMutationRequest: default + per-type overrides
	ds := loadPkg(repo, "datastore")
	def := false
	if fd := ds.funcDecl("Data", "IsMutationRequest"); fd != nil {
		src := strings.ReplaceAll(strings.ReplaceAll(ds.src(fd), " ", ""), "\t", "")
		def = strings.Contains(src, `lc:=strings.ToLower(action)`) && strings.Contains(src, `case"post","put","delete":`+"\n"+`returntrue`) && strings.Contains(src, "default:\nreturnfalse")
	}
	fmt.Fprintf(&g.body, "/-- default IsMutationRequest: lower-cased method ∈ {post, put, delete} -/\ndef defaultMutationIsPostPutDelete : Bool := %v\n", def)
	type ov struct{ typ, endpoint, method string }
	var ovs []ov
	var kws []string
	ents, _ := os.ReadDir(filepath.Join(repo, "datatype"))
	for _, e := range ents {
		if !e.IsDir() || e.Name() == "common" {
			continue
		}
		p := loadPkg(repo, "datatype/"+e.Name())
		if fd := p.funcDecl("Data", "IsMutationRequest"); fd != nil {
			recognised := false
			ast.Inspect(fd, func(n ast.Node) bool {
				is, ok := n.(*ast.IfStmt)
				if !ok {
					return true
				}
				c := strings.ReplaceAll(p.src(is.Cond), " ", "")
				var ep, m string
				if _, err := fmt.Sscanf(c, `endpoint==%q&&lc==%q`, &ep, &m); err == nil && strings.Contains(p.src(is.Body), "return false") {
					ovs = append(ovs, ov{e.Name(), ep, m})
					recognised = true
				}
				return true
			})
			if !recognised {
				ovs = append(ovs, ov{e.Name(), "unrecognised-override", "?"})
			}
		}
		// endpoint keywords: string case labels of `switch parts[3]` / `switch command` in ServeHTTP
		if fd := p.funcDecl("Data", "ServeHTTP"); fd != nil {
			ast.Inspect(fd, func(n ast.Node) bool {
				sw, ok := n.(*ast.SwitchStmt)
				if !ok || sw.Tag == nil {
					return true
				}
				tag := strings.ReplaceAll(p.src(sw.Tag), " ", "")
				if tag != "parts[3]" && tag != "command" {
					return true
				}
				for _, st := range sw.Body.List {
					if cc, ok := st.(*ast.CaseClause); ok {
						for _, l := range cc.List {
							if lit, ok := l.(*ast.BasicLit); ok && lit.Kind == token.STRING {
								kws = append(kws, e.Name()+"/"+strings.Trim(lit.Value, `"`))
							}
						}
					}
				}
				return false
			})
		}
	}
	sort.Slice(ovs, func(i, j int) bool { return ovs[i].typ+ovs[i].endpoint < ovs[j].typ+ovs[j].endpoint })
	var parts []string
	for _, o := range ovs {
		parts = append(parts, fmt.Sprintf("(%q, %q, %q)", o.typ, o.endpoint, o.method))
	}
	fmt.Fprintf(&g.body, "/-- (type, endpoint, method) triples a data type declares NOT to be mutations although the method is post/put/delete -/\ndef readOnlyOverrides : List (String × String × String) := [%s]\n", strings.Join(parts, ", "))
	sort.Strings(kws)
	facts.Extra["endpointKeywords"] = kws
	var overr []string
	for _, o := range ovs {
		overr = append(overr, o.typ+"/"+o.endpoint+"/"+o.method)
	}
	facts.Extra["readOnlyOverrides"] = overr
}
