// Package main: fact extractor.  Reads /repo's current Go source with go/parser (no type checking,
// stdlib only) and regenerates lean/DvidModel/Gen/*.lean plus out/facts.json.  It recognises the specific
// syntactic shapes present today; anything it cannot recognise is emitted as `unknown…`, which makes the
// dependent Lean theorem fail to elaborate (the tie breaks loudly instead of keeping a stale value).
package main

import (
	"bytes"
	"crypto/sha256"
	"fmt"
	"go/ast"
	"go/parser"
	"go/printer"
	"go/token"
	"os"
	"path/filepath"
	"sort"
	"strconv"
	"strings"
)

type pkgT struct {
	dir   string
	fset  *token.FileSet
	files map[string]*ast.File
	// const name -> (expr, iota value, inherited expr)
	consts map[string]constDef
}

type constDef struct {
	expr ast.Expr
	iota int64
}

var pkgCache = map[string]*pkgT{}

func loadPkg(repo, rel string) *pkgT {
	if p, ok := pkgCache[rel]; ok {
		return p
	}
	dir := filepath.Join(repo, rel)
	p := &pkgT{dir: dir, fset: token.NewFileSet(), files: map[string]*ast.File{}, consts: map[string]constDef{}}
	ents, err := os.ReadDir(dir)
	if err != nil {
		fatalf("cannot read %s: %v", dir, err)
	}
	for _, e := range ents {
		n := e.Name()
		if e.IsDir() || !strings.HasSuffix(n, ".go") || strings.HasSuffix(n, "_test.go") || strings.HasSuffix(n, "_verif.go") {
			continue
		}
		f, err := parser.ParseFile(p.fset, filepath.Join(dir, n), nil, parser.SkipObjectResolution)
		if err != nil {
			fatalf("parse %s: %v", n, err)
		}
		p.files[n] = f
	}
	for _, f := range p.files {
		for _, d := range f.Decls {
			gd, ok := d.(*ast.GenDecl)
			if !ok || gd.Tok != token.CONST {
				continue
			}
			var last []ast.Expr
			for i, s := range gd.Specs {
				vs := s.(*ast.ValueSpec)
				vals := vs.Values
				if len(vals) == 0 {
					vals = last
				} else {
					last = vals
				}
				for j, nm := range vs.Names {
					if j < len(vals) {
						p.consts[nm.Name] = constDef{vals[j], int64(i)}
					}
				}
			}
		}
	}
	pkgCache[rel] = p
	return p
}

func fatalf(f string, a ...interface{}) {
	fmt.Fprintf(os.Stderr, "extract: "+f+"\n", a...)
	os.Exit(2)
}

// constant evaluation: integer literals, char literals, iota, parenthesised, unary -, ^, binary
// + - * / % << >> | & ^ &^, conversions T(x), references to other constants of the same package and
// dvid.X references (looked up in package dvid).
func (p *pkgT) eval(repo string, e ast.Expr, iota int64) (int64, bool) {
	switch x := e.(type) {
	case *ast.BasicLit:
		switch x.Kind {
		case token.INT:
			v, err := strconv.ParseUint(strings.ReplaceAll(x.Value, "_", ""), 0, 64)
			if err != nil {
				return 0, false
			}
			return int64(v), true
		case token.CHAR:
			r, _, _, err := strconv.UnquoteChar(x.Value[1:len(x.Value)-1], '\'')
			if err != nil {
				return 0, false
			}
			return int64(r), true
		}
		return 0, false
	case *ast.Ident:
		if x.Name == "iota" {
			return iota, true
		}
		if cd, ok := p.consts[x.Name]; ok {
			return p.eval(repo, cd.expr, cd.iota)
		}
		return 0, false
	case *ast.ParenExpr:
		return p.eval(repo, x.X, iota)
	case *ast.SelectorExpr:
		if id, ok := x.X.(*ast.Ident); ok && id.Name == "dvid" {
			dp := loadPkg(repo, "dvid")
			if cd, ok := dp.consts[x.Sel.Name]; ok {
				return dp.eval(repo, cd.expr, cd.iota)
			}
		}
		return 0, false
	case *ast.CallExpr:
		if len(x.Args) == 1 {
			return p.eval(repo, x.Args[0], iota)
		}
		return 0, false
	case *ast.UnaryExpr:
		v, ok := p.eval(repo, x.X, iota)
		if !ok {
			return 0, false
		}
		switch x.Op {
		case token.SUB:
			return -v, true
		case token.XOR:
			return ^v, true
		case token.ADD:
			return v, true
		}
		return 0, false
	case *ast.BinaryExpr:
		a, ok1 := p.eval(repo, x.X, iota)
		b, ok2 := p.eval(repo, x.Y, iota)
		if !ok1 || !ok2 {
			return 0, false
		}
		switch x.Op {
		case token.ADD:
			return a + b, true
		case token.SUB:
			return a - b, true
		case token.MUL:
			return a * b, true
		case token.QUO:
			if b == 0 {
				return 0, false
			}
			return a / b, true
		case token.REM:
			if b == 0 {
				return 0, false
			}
			return a % b, true
		case token.SHL:
			return a << uint(b), true
		case token.SHR:
			return int64(uint64(a) >> uint(b)), true
		case token.OR:
			return a | b, true
		case token.AND:
			return a & b, true
		case token.XOR:
			return a ^ b, true
		case token.AND_NOT:
			return a &^ b, true
		}
	}
	return 0, false
}

func (p *pkgT) constVal(repo, name string) (int64, bool) {
	cd, ok := p.consts[name]
	if !ok {
		return 0, false
	}
	return p.eval(repo, cd.expr, cd.iota)
}

// funcDecl finds a function by receiver type name ("" for plain functions) and name.
func (p *pkgT) funcDecl(recv, name string) *ast.FuncDecl {
	for _, f := range p.files {
		for _, d := range f.Decls {
			fd, ok := d.(*ast.FuncDecl)
			if !ok || fd.Name.Name != name {
				continue
			}
			r := ""
			if fd.Recv != nil && len(fd.Recv.List) > 0 {
				r = typeName(fd.Recv.List[0].Type)
			}
			if r == recv {
				return fd
			}
		}
	}
	return nil
}

func typeName(e ast.Expr) string {
	switch x := e.(type) {
	case *ast.StarExpr:
		return typeName(x.X)
	case *ast.Ident:
		return x.Name
	case *ast.SelectorExpr:
		return typeName(x.X) + "." + x.Sel.Name
	case *ast.IndexExpr:
		return typeName(x.X)
	}
	return "?"
}

func (p *pkgT) src(n ast.Node) string {
	var buf bytes.Buffer
	printer.Fprint(&buf, p.fset, n)
	return buf.String()
}

// fingerprint: sha256 of the function printed without comments and with whitespace normalised.
func (p *pkgT) fingerprint(fd *ast.FuncDecl) string {
	if fd == nil {
		return "missing"
	}
	cp := *fd
	cp.Doc = nil
	var buf bytes.Buffer
	cfg := printer.Config{Mode: printer.RawFormat}
	fset := token.NewFileSet() // fresh fileset => no comments are interleaved, positions ignored
	_ = fset
	cfg.Fprint(&buf, p.fset, &cp)
	// strip comments lines conservatively and collapse whitespace
	var out []string
	for _, ln := range strings.Split(buf.String(), "\n") {
		if i := strings.Index(ln, "//"); i >= 0 && !strings.Contains(ln[:i], "\"") {
			ln = ln[:i]
		}
		ln = strings.Join(strings.Fields(ln), " ")
		if ln != "" {
			out = append(out, ln)
		}
	}
	h := sha256.Sum256([]byte(strings.Join(out, "\n")))
	return fmt.Sprintf("%x", h[:8])
}

func sortedKeys(m map[string]string) []string {
	ks := make([]string, 0, len(m))
	for k := range m {
		ks = append(ks, k)
	}
	sort.Strings(ks)
	return ks
}
