package main

// genAll: further generated files are added here property by property.
func genAll(repo string) {
	genCodec(repo)
	genResolver(repo)
	genGeom(repo)
	genManager(repo)
	genFileLog(repo)
	genMapLog(repo)
	genGate(repo)
	genBlock(repo)
	genCopy(repo)
	genNJ(repo)
	genPyramid(repo)
	genImageBlk(repo)
	genBlockParse(repo)
	genLabelIndex(repo)
	genLocks(repo)
	genAnnSync(repo)
	genFixes(repo)
}
