package main

import (
	"fmt"
	"strings"
)

// genCopy: shape facts of datastore/copy_local.go copyData and storage.DataContext.UpdateInstance (C19).
func genCopy(repo string) {
	ds := loadPkg(repo, "datastore")
	st := loadPkg(repo, "storage")
	g := newGen("Copy", "")
	squash := func(s string) string {
		return strings.NewReplacer(" ", "", "\t", "", "\n", "").Replace(s)
	}
	emit := func(name, doc string, v, known bool) {
		if !known {
			fmt.Fprintf(&g.body, "def %s : Bool := unknown_%s\n", name, name)
			return
		}
		fmt.Fprintf(&g.body, "/-- %s -/\ndef %s : Bool := %v\n", doc, name, v)
		facts.Extra[name] = v
	}
	src := ""
	if fd := ds.funcDecl("", "copyData"); fd != nil {
		src = squash(ds.src(fd))
	}
	known := src != "" && strings.Contains(src, "ifflatten{")
	rawIdx := strings.Index(src, "RawRangeQuery(")
	// the raw branch: scans the source instance's whole key range, rewrites the instance id of each key, stores key and value verbatim
	emit("copyRawScansInstanceRange", "the full copy scans `srcCtx.KeyRange()` with RawRangeQuery (all versions, tombstones included)",
		strings.Contains(src, "begKey,endKey:=srcCtx.KeyRange()") && strings.Contains(src, "oldKV.RawRangeQuery(begKey,endKey,keysOnly,ch,nil)") && strings.Contains(src, "keysOnly:=false"), known)
	upd := strings.Index(src, "dstCtx.UpdateInstance(kv.K)")
	put := strings.Index(src, "newKV.RawPut(kv.K,kv.V)")
	emit("copyRawRewritesInstance", "each raw key gets the destination instance id (`dstCtx.UpdateInstance`) before `RawPut(kv.K, kv.V)`",
		upd >= 0 && put > upd && rawIdx > put, known)
	emit("copyFlattenResolvesAtCtx", "the flattened copy resolves every datum at the copy's version (`ProcessRange(srcCtx, TKeyRange)`) and stores it with `Put(dstCtx, tkv.K, tkv.V)` at that version",
		strings.Contains(src, "begKey,endKey:=srcCtx.TKeyRange()") && strings.Contains(src, "oldKV.ProcessRange(srcCtx,begKey,endKey,") && strings.Contains(src, "ch<-c.TKeyValue") && strings.Contains(src, "newKV.Put(dstCtx,tkv.K,tkv.V)") &&
			strings.Contains(src, "srcCtx:=NewVersionedCtx(d1,v)") && strings.Contains(src, "dstCtx=NewVersionedCtx(d2,v)"), known)
	usrc := ""
	if fd := st.funcDecl("DataContext", "UpdateInstance"); fd != nil {
		usrc = squash(st.src(fd))
	}
	emit("updateInstanceOverwritesIdField", "`UpdateInstance` overwrites exactly the instance id field after the prefix byte",
		strings.Contains(usrc, "copy(k[1:1+dvid.InstanceIDSize],ctx.data.InstanceID().Bytes())") && strings.Count(usrc, "copy(") == 1, usrc != "")
}
