package main

import (
	"fmt"
	"regexp"
	"strings"
)

// genGeom: facts of the spatial codecs (C18).
func genGeom(repo string) {
	dv := loadPkg(repo, "dvid")
	lb := loadPkg(repo, "datatype/common/labels")
	g := newGen("Geom", "")
	// ToZYXBytes: which coordinate goes into which 4-byte slot, and the offset-binary form
	order := []string{"unknown_zyx_order"}
	if fd := dv.funcDecl("Point3d", "ToZYXBytes"); fd != nil {
		src := strings.ReplaceAll(dv.src(fd), " ", "")
		re := regexp.MustCompile(`binary\.BigEndian\.PutUint32\(buf\[(\d+):(\d+)\],uint32\(int64\(p\[(\d)\]\)-math\.MinInt32\)\)`)
		ms := re.FindAllStringSubmatch(src, -1)
		if len(ms) == 3 && ms[0][1] == "0" && ms[1][1] == "4" && ms[2][1] == "8" {
			order = []string{ms[0][3], ms[1][3], ms[2][3]}
		}
	}
	fmt.Fprintf(&g.body, "/-- coordinate index (0=x,1=y,2=z) stored in bytes 0-3, 4-7, 8-11 of `ToZYXBytes`, each as big-endian offset binary -/\ndef zyxFieldOrder : List Nat := [%s]\n", strings.Join(order, ", "))
	// EncodeBlockIndex: sign bit, magnitude mask, shift
	sign, mask, shift := int64(-1), int64(-1), int64(-1)
	if fd := lb.funcDecl("", "EncodeBlockIndex"); fd != nil {
		src := strings.ReplaceAll(lb.src(fd), " ", "")
		if m := regexp.MustCompile(`zyx\|=0x([0-9A-Fa-f]+)\n`).FindAllStringSubmatch(src, -1); len(m) == 3 && m[0][1] == m[1][1] && m[1][1] == m[2][1] {
			fmt.Sscanf(m[0][1], "%x", &sign)
		}
		if m := regexp.MustCompile(`zyx\|=uint64\([xyz]&0x([0-9A-Fa-f]+)\)`).FindAllStringSubmatch(src, -1); len(m) == 3 && m[0][1] == m[1][1] && m[1][1] == m[2][1] {
			fmt.Sscanf(m[0][1], "%x", &mask)
		}
		if m := regexp.MustCompile(`zyx<<=(\d+)`).FindAllStringSubmatch(src, -1); len(m) == 2 && m[0][1] == m[1][1] {
			fmt.Sscanf(m[0][1], "%d", &shift)
		}
		// field order z, y, x
		iz, iy, ix := strings.Index(src, "ifz<0"), strings.Index(src, "ify<0"), strings.Index(src, "ifx<0")
		if !(iz >= 0 && iz < iy && iy < ix) {
			shift = -1
		}
	}
	emit := func(name string, v int64) {
		if v < 0 {
			fmt.Fprintf(&g.body, "def %s : Nat := unknown_%s\n", name, name)
		} else {
			fmt.Fprintf(&g.body, "def %s : Nat := %d\n", name, v)
			facts.Consts[name] = v
		}
	}
	emit("blockIndexSignBit", sign)
	emit("blockIndexMagMask", mask)
	emit("blockIndexShift", shift)
	// RLEs.FitToBounds(nil): does it return the runs it was given?
	nilCopies := false
	if fd := dv.funcDecl("RLEs", "FitToBounds"); fd != nil {
		src := strings.ReplaceAll(dv.src(fd), " ", "")
		i := strings.Index(src, "ifbounds==nil{")
		if i >= 0 {
			rest := src[i:]
			j := strings.Index(rest, "}")
			blk := rest[:j]
			nilCopies = strings.Contains(blk, "append(newRLEs,rles...)") || strings.Contains(blk, "make(RLEs,len(rles))")
		}
	}
	fmt.Fprintf(&g.body, "/-- `RLEs.FitToBounds(nil)` returns a copy of all runs (not an empty slice) -/\ndef fitToBoundsNilCopies : Bool := %v\n", nilCopies)
	facts.Extra["fitToBoundsNilCopies"] = nilCopies
	// RLEs.UnmarshalBinaryReader: are runs allocated as they arrive (bounded preallocation + append)?
	asRead, maxPre := false, int64(-1)
	if fd := dv.funcDecl("RLEs", "UnmarshalBinaryReader"); fd != nil {
		src := strings.NewReplacer(" ", "", "\t", "", "\n", "").Replace(regexp.MustCompile(`//[^\n]*`).ReplaceAllString(dv.src(fd), ""))
		if m := regexp.MustCompile(`constmaxPrealloc=1<<(\d+)`).FindStringSubmatch(src); m != nil {
			var sh int64
			fmt.Sscanf(m[1], "%d", &sh)
			maxPre = 1 << uint(sh)
		}
		asRead = maxPre > 0 && strings.Contains(src, "prealloc:=numRLEsifprealloc>maxPrealloc{prealloc=maxPrealloc}*rles=make(RLEs,0,prealloc)") &&
			strings.Contains(src, "*rles=append(*rles,rle)") && !strings.Contains(src, "make(RLEs,numRLEs")
	}
	fmt.Fprintf(&g.body, "/-- `RLEs.UnmarshalBinaryReader` allocates runs as they arrive instead of trusting the announced count -/\ndef rleReaderAllocatesAsRead : Bool := %v\n", asRead)
	if maxPre > 0 {
		fmt.Fprintf(&g.body, "def rleReaderMaxPrealloc : Nat := %d\n", maxPre)
	} else {
		g.body.WriteString("def rleReaderMaxPrealloc : Nat := 0\n")
	}
	facts.Extra["rleReaderAllocatesAsRead"] = asRead
}
