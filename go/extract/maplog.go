package main

import (
	"fmt"
	"strings"
)

// genMapLog: how often the supervoxel-split path appends its record to the mutation log (C03).
func genMapLog(repo string) {
	lm := loadPkg(repo, "datatype/labelmap")
	g := newGen("MapLog", "")
	count := func(recv, fn, needle string) int {
		fd := lm.funcDecl(recv, fn)
		if fd == nil {
			return -1
		}
		return strings.Count(strings.ReplaceAll(lm.src(fd), " ", ""), needle)
	}
	a := count("Data", "SplitSupervoxel", "labels.LogSupervoxelSplit(")
	b := count("", "addSupervoxelSplitToMapping", "labels.LogSupervoxelSplit(")
	calls := count("Data", "SplitSupervoxel", "addSupervoxelSplitToMapping(")
	if a < 0 || b < 0 || calls != 1 {
		g.body.WriteString("def svSplitLogAppends : Nat := unknown_svsplit_log\n")
	} else {
		fmt.Fprintf(&g.body, "/-- number of SupervoxelSplit records one split-supervoxel request appends to the mutation log -/\ndef svSplitLogAppends : Nat := %d\n", a+b*calls)
		facts.Consts["svSplitLogAppends"] = int64(a + b*calls)
	}
}
