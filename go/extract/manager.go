package main

import (
	"fmt"
	"strings"
)

// genManager: structural facts of the repo manager and the DAG handlers (C07, C12, C03, C04).
func genManager(repo string) {
	ds := loadPkg(repo, "datastore")
	sv := loadPkg(repo, "server")
	g := newGen("Manager", "")
	norm := func(p *pkgT, recv, fn string) string {
		fd := p.funcDecl(recv, fn)
		if fd == nil {
			return ""
		}
		return strings.ReplaceAll(strings.ReplaceAll(p.src(fd), " ", ""), "\t", "")
	}
	// newUUID: does it refuse an assigned uuid that already has a version id?
	src := norm(ds, "repoManager", "newUUID")
	checks := false
	if i := strings.Index(src, "m.uuidToVersion[uuid]=curid"); i >= 0 {
		before := src[:i]
		checks = strings.Contains(before, "found:=m.uuidToVersion[uuid]") && strings.Contains(before, "ErrExistingUUID")
	}
	fmt.Fprintf(&g.body, "/-- `newUUID` refuses a caller-assigned UUID that already names a version -/\ndef newUUIDChecksExisting : Bool := %v\n", checks)
	// merge: are all parents validated before newUUID is called?
	src = norm(ds, "repoManager", "merge")
	first := false
	if i := strings.Index(src, "m.newUUID(nil)"); i >= 0 {
		before := src[:i]
		first = strings.Contains(before, "ErrBranchUnlockedNode") && strings.Contains(before, "m.versionFromUUID(parent)")
	}
	dups := first && strings.Contains(src, "parentVs[j]==v") && strings.Contains(src, "listedmorethanonce")
	fmt.Fprintf(&g.body, "/-- `merge` refuses a parent that is listed twice -/\ndef mergeRejectsDuplicateParents : Bool := %v\n", dups)
	fmt.Fprintf(&g.body, "/-- `merge` validates every parent (known, same repo, committed) before allocating the child -/\ndef mergeValidatesFirst : Bool := %v\n", first)
	// tag handler: is Commit(uuidTag) reached only when NewVersion succeeded?
	src = norm(sv, "", "repoTagHandler")
	only := false
	if i := strings.Index(src, "newuuid,err:=datastore.NewVersion("); i >= 0 {
		rest := strings.ReplaceAll(src[i:], "\n", "")
		j := strings.Index(rest, "iferr!=nil{BadRequest(w,r,err)return}")
		k := strings.Index(rest, "datastore.Commit(uuidTag")
		only = j >= 0 && k >= 0 && j < k
	}
	emptyRejected := false
	if i := strings.Index(src, "ifjsonData.Tag==\"\"{"); i >= 0 {
		k := strings.Index(src, "datastore.NewVersion(")
		emptyRejected = k > i && strings.Contains(src[i:k], "return")
	}
	fmt.Fprintf(&g.body, "/-- the tag handler refuses an empty tag (it would become the nil UUID) -/\ndef tagRejectsEmpty : Bool := %v\n", emptyRejected)
	fmt.Fprintf(&g.body, "/-- the tag handler commits the tag node only if creating it succeeded -/\ndef tagCommitsOnlyOnSuccess : Bool := %v\n", only)
	facts.Extra["newUUIDChecksExisting"], facts.Extra["mergeValidatesFirst"], facts.Extra["tagCommitsOnlyOnSuccess"] = checks, first, only
	// loadMetadata: the repair of the version id counter fires for v >= versionID
	src = norm(ds, "repoManager", "loadMetadata")
	ge := strings.Contains(strings.ReplaceAll(src, "\n", ""), "forv:=rangem.versionToUUID{ifv>=m.versionID{")
	fmt.Fprintf(&g.body, "/-- at start-up the version id counter is moved past every stored version id, including one equal to it -/\ndef loaderRepairsEqualVersion : Bool := %v\n", ge)
	facts.Extra["loaderRepairsEqualVersion"] = ge
	// mutation id stride / initial value
	for _, c := range [][2]string{{"StrideMutationID", "strideMutationID"}, {"InitialMutationID", "initialMutationID"}} {
		g.constNat(repo, ds, c[0], c[1])
	}
	// labelmap newLabel with a repositioned counter: the label handed out is the one persisted
	{
		lm := loadPkg(repo, "datatype/labelmap")
		sq := func(fn string) string {
			if fd := lm.funcDecl("Data", fn); fd != nil {
				return strings.NewReplacer(" ", "", "\t", "", "\n", "").Replace(lm.src(fd))
			}
			return ""
		}
		nl, nls, pn, sn := sq("newLabel"), sq("newLabels"), sq("persistNextLabel"), sq("SetNextLabelStart")
		ok := strings.Contains(nl, "ifd.NextLabel!=0{d.NextLabel++iferr:=d.persistNextLabel();err!=nil{returnd.NextLabel,err}returnd.NextLabel,nil}") &&
			strings.Contains(nls, "ifd.NextLabel!=0{begin=d.NextLabel+1end=d.NextLabel+numLabelsd.NextLabel=endiferr=d.persistNextLabel();err!=nil{return}return}") &&
			strings.Contains(pn, "binary.LittleEndian.PutUint64(buf,d.NextLabel)") && strings.Contains(pn, "store.Put(ctx,nextLabelTKey,buf)") &&
			strings.Contains(sn, "d.NextLabel=nextLabelIDiferr:=d.persistNextLabel();err!=nil{returnerr}")
		if nl == "" || nls == "" || pn == "" {
			g.body.WriteString("def nextLabelPersistsIssued : Bool := unknown_nextLabelPersistsIssued\n")
		} else {
			fmt.Fprintf(&g.body, "/-- with a repositioned counter, newLabel / newLabels advance NextLabel first and persist exactly that value before returning it -/\ndef nextLabelPersistsIssued : Bool := %v\n", ok)
			facts.Extra["nextLabelPersistsIssued"] = ok
		}
	}
}
