package main

import (
	"fmt"
	"go/ast"
	"go/token"
	"strings"
)

// ---- key layout extraction (storage/context.go) -------------------------------------------------
//
// Each key-building function is an `append` chain.  We turn it into a list of field tokens:
//   byte:<n> | inst | instNext | tkey | ver | ver0 | verMax | client | client0 | clientMax | unknown:<src>

type layoutCtx struct {
	p      *pkgT
	repo   string
	params map[string]string // ident -> field token (from parameter types / local assignments)
}

func (lc *layoutCtx) classify(e ast.Expr, spread bool) string {
	src := strings.ReplaceAll(lc.p.src(e), " ", "")
	if !spread {
		if v, ok := lc.p.eval(lc.repo, e, 0); ok {
			return fmt.Sprintf("byte:%d", v&0xff)
		}
		return "unknown:" + src
	}
	// x.Bytes()
	if strings.HasSuffix(src, ".Bytes()") {
		base := strings.TrimSuffix(src, ".Bytes()")
		switch base {
		case "ctx.data.InstanceID()":
			return "inst"
		case "ctx.version":
			return "ver"
		case "ctx.client":
			return "client"
		case "dvid.VersionID(0)":
			return "ver0"
		case "dvid.VersionID(dvid.MaxVersionID)":
			return "verMax"
		case "dvid.ClientID(0)":
			return "client0"
		case "dvid.ClientID(dvid.MaxClientID)":
			return "clientMax"
		}
		if strings.HasPrefix(base, "(") && strings.HasSuffix(base, "+1)") {
			inner := base[1 : len(base)-3]
			if lc.params[inner] == "inst" {
				return "instNext"
			}
		}
		if t, ok := lc.params[base]; ok {
			return t
		}
		return "unknown:" + src
	}
	if t, ok := lc.params[src]; ok && t == "tkey" {
		return "tkey"
	}
	return "unknown:" + src
}

// appendArgs flattens append(base, args...) into tokens; base must be the accumulated variable or a
// []byte{…} literal.
func (lc *layoutCtx) appendTokens(acc map[string][]string, call *ast.CallExpr) ([]string, bool) {
	fn, ok := call.Fun.(*ast.Ident)
	if !ok || fn.Name != "append" || len(call.Args) < 1 {
		return nil, false
	}
	var toks []string
	switch b := call.Args[0].(type) {
	case *ast.Ident:
		prev, ok := acc[b.Name]
		if !ok {
			return nil, false
		}
		toks = append(toks, prev...)
	case *ast.CompositeLit:
		for _, el := range b.Elts {
			toks = append(toks, lc.classify(el, false))
		}
	case *ast.CallExpr:
		// e.g. append(ctx.version.Bytes(), ctx.client.Bytes()...) or []byte(unvKey)
		toks = append(toks, lc.classify(b, true))
	default:
		return nil, false
	}
	rest := call.Args[1:]
	for i, a := range rest {
		spread := call.Ellipsis != token.NoPos && i == len(rest)-1
		toks = append(toks, lc.classify(a, spread))
	}
	return toks, true
}

// layouts returns, for a function, the token list of each named accumulator at the point of return
// (results: for `return Key(append(key, M))` style the returned expression under name "ret").
func extractLayouts(p *pkgT, repo string, fd *ast.FuncDecl) map[string][]string {
	res := map[string][]string{}
	if fd == nil || fd.Body == nil {
		return res
	}
	lc := &layoutCtx{p: p, repo: repo, params: map[string]string{}}
	if fd.Type.Params != nil {
		for _, f := range fd.Type.Params.List {
			t := typeName(f.Type)
			tok := ""
			switch t {
			case "dvid.InstanceID":
				tok = "inst"
			case "dvid.VersionID":
				tok = "ver"
			case "dvid.ClientID":
				tok = "client"
			case "TKey":
				tok = "tkey"
			}
			for _, n := range f.Names {
				if tok != "" {
					lc.params[n.Name] = tok
				}
			}
		}
	}
	acc := map[string][]string{}
	for _, st := range fd.Body.List {
		switch s := st.(type) {
		case *ast.AssignStmt:
			if len(s.Lhs) == 1 && len(s.Rhs) == 1 {
				lhs, ok := s.Lhs[0].(*ast.Ident)
				if !ok {
					continue
				}
				if call, ok := s.Rhs[0].(*ast.CallExpr); ok {
					if toks, ok := lc.appendTokens(acc, call); ok {
						acc[lhs.Name] = toks
						continue
					}
					src := strings.ReplaceAll(p.src(call), " ", "")
					if src == "ctx.data.InstanceID()" {
						lc.params[lhs.Name] = "inst"
					}
				}
			}
		case *ast.IncDecStmt:
			if id, ok := s.X.(*ast.Ident); ok && s.Tok == token.INC && lc.params[id.Name] == "inst" {
				lc.params[id.Name] = "instNext"
			}
		case *ast.ReturnStmt:
			for i, r := range s.Results {
				e := r
				// unwrap Key(...)
				if c, ok := e.(*ast.CallExpr); ok {
					if id, ok := c.Fun.(*ast.Ident); ok && (id.Name == "Key" || id.Name == "TKey") && len(c.Args) == 1 {
						e = c.Args[0]
					}
				}
				if c, ok := e.(*ast.CallExpr); ok {
					if toks, ok := lc.appendTokens(acc, c); ok {
						res[fmt.Sprintf("ret%d", i)] = toks
					}
				} else if id, ok := e.(*ast.Ident); ok {
					if toks, ok := acc[id.Name]; ok {
						res[fmt.Sprintf("ret%d", i)] = toks
					}
				}
			}
		}
	}
	for k, v := range acc {
		res[k] = v
	}
	return res
}

func leanKF(tok string) string {
	if strings.HasPrefix(tok, "byte:") {
		return "KF.byte " + strings.TrimPrefix(tok, "byte:")
	}
	switch tok {
	case "inst", "instNext", "tkey", "ver", "ver0", "verMax", "client", "client0", "clientMax":
		return "KF." + tok
	}
	return "KF.unknown_" + sanitize(tok) // does not exist in the model => elaboration error
}

func sanitize(s string) string {
	var b strings.Builder
	for _, r := range s {
		if (r >= 'a' && r <= 'z') || (r >= 'A' && r <= 'Z') || (r >= '0' && r <= '9') {
			b.WriteRune(r)
		} else {
			b.WriteRune('_')
		}
	}
	return b.String()
}

func leanLayout(name string, toks []string) string {
	if toks == nil {
		return fmt.Sprintf("def %s : List KF := [KF.unknown_missing]\n", name)
	}
	parts := make([]string, len(toks))
	for i, t := range toks {
		parts[i] = leanKF(t)
	}
	return fmt.Sprintf("def %s : List KF := [%s]\n", name, strings.Join(parts, ", "))
}
