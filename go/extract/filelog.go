package main

import (
	"fmt"
	"strings"
)

// genFileLog: header layout and the reader's bounds check (C04).
func genFileLog(repo string) {
	fl := loadPkg(repo, "storage/filelog")
	g := newGen("FileLog", "")
	norm := func(recv, fn string) string {
		fd := fl.funcDecl(recv, fn)
		if fd == nil {
			return ""
		}
		return strings.ReplaceAll(strings.ReplaceAll(strings.ReplaceAll(fl.src(fd), " ", ""), "\t", ""), "\n", "")
	}
	hdr := norm("fileLog", "writeHeader")
	size := -1
	if strings.Contains(hdr, "buf:=make([]byte,6)") && strings.Contains(hdr, "binary.LittleEndian.PutUint16(buf[:2],msg.EntryType)") &&
		strings.Contains(hdr, "binary.LittleEndian.PutUint32(buf[2:],size)") && strings.Contains(hdr, "size:=uint32(len(msg.Data))") {
		size = 6
	}
	if size < 0 {
		g.body.WriteString("def filelogHeaderSize : Nat := unknown_filelog_header\n")
	} else {
		fmt.Fprintf(&g.body, "/-- header = uint16 LE entry type, uint32 LE payload length -/\ndef filelogHeaderSize : Nat := %d\n", size)
	}
	// both readers must refuse a payload that runs past the end of the data before slicing it
	checked := true
	for _, fn := range []string{"ReadAll", "StreamAll"} {
		src := norm("fileLogs", fn)
		i := strings.Index(src, "databuf:=data[pos:pos+size]")
		j := strings.Index(src, "pos+size>")
		if k := strings.Index(src, "uint64(pos)+uint64(size)>"); j < 0 || (k >= 0 && k < j) {
			j = k
		}
		if i < 0 || j < 0 || j > i {
			checked = false
		}
	}
	fmt.Fprintf(&g.body, "/-- ReadAll and StreamAll stop at a record whose payload runs past the end of the file instead of slicing beyond it -/\ndef filelogBoundsChecked : Bool := %v\n", checked)
	facts.Extra["filelogBoundsChecked"] = checked
}
