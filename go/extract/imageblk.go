package main

import (
	"fmt"
	"strings"
)

// genImageBlk: shape facts of the image-volume transfer and of the write paths (C17).
func genImageBlk(repo string) {
	ib := loadPkg(repo, "datatype/imageblk")
	dv := loadPkg(repo, "dvid")
	g := newGen("ImageBlk", "")
	squash := func(s string) string { return strings.NewReplacer(" ", "", "\t", "", "\n", "").Replace(s) }
	body := func(p *pkgT, recv, fn string) string {
		if fd := p.funcDecl(recv, fn); fd != nil {
			return squash(p.src(fd))
		}
		return ""
	}
	emit := func(name, doc string, v, known bool) {
		if !known {
			fmt.Fprintf(&g.body, "def %s : Bool := unknown_%s\n", name, name)
			return
		}
		fmt.Fprintf(&g.body, "/-- %s -/\ndef %s : Bool := %v\n", doc, name, v)
		facts.Extra[name] = v
	}
	ct := body(ib, "Voxels", "ComputeTransform")
	emit("ibTransformIsIntersection", "ComputeTransform clips the request box with the block box (Max of the starts, Min of the ends) and subtracts the request start / the block start",
		strings.Contains(ct, "minBlockVoxel:=ptIndex.MinPoint(blockSize)") && strings.Contains(ct, "maxBlockVoxel:=ptIndex.MaxPoint(blockSize)") &&
			strings.Contains(ct, "begVolCoord,_:=minDataVoxel.Max(minBlockVoxel)") && strings.Contains(ct, "endVolCoord,_:=maxDataVoxel.Min(maxBlockVoxel)") &&
			strings.Contains(ct, "dataBeg=begVolCoord.Sub(v.StartPoint())") && strings.Contains(ct, "dataEnd=endVolCoord.Sub(v.StartPoint())") &&
			strings.Contains(ct, "blockBeg=begVolCoord.Sub(minBlockVoxel)"), ct != "")
	mn := body(dv, "ChunkPoint3d", "MinPoint")
	mx := body(dv, "ChunkPoint3d", "MaxPoint")
	emit("ibBlockBoxIsGrid", "block b spans voxels b*size .. (b+1)*size-1 on every axis",
		strings.Contains(mn, "c[0]*size.Value(0),c[1]*size.Value(1),c[2]*size.Value(2)") &&
			strings.Contains(mx, "(c[0]+1)*size.Value(0)-1,(c[1]+1)*size.Value(1)-1,(c[2]+1)*size.Value(2)-1"), mn != "" && mx != "")
	volRows := func(src string, read bool) bool {
		cp := "copy(data[dataI:dataI+bytes],block.V[blockI:blockI+bytes])"
		if !read {
			cp = "copy(block.V[blockI:blockI+bytes],data[dataI:dataI+bytes])"
		}
		i := strings.Index(src, "casev.DataShape().Equals(dvid.Vol3d):")
		if i < 0 {
			return false
		}
		s := src[i:]
		return strings.Contains(s, "blockOffset:=blockBegX*bytesPerVoxel") && strings.Contains(s, "dX:=int64(v.Size().Value(0))*bytesPerVoxel") &&
			strings.Contains(s, "dY:=int64(v.Size().Value(1))*dX") && strings.Contains(s, "dataOffset:=int64(dataBeg.Value(0))*bytesPerVoxel") &&
			strings.Contains(s, "bytes:=int64(dataEnd.Value(0)-dataBeg.Value(0)+1)*bytesPerVoxel") &&
			strings.Contains(s, "blockI:=blockZ*bY+blockY*bX+blockOffset") && strings.Contains(s, "dataI:=dataZ*dY+dataY*dX+dataOffset") &&
			strings.Contains(s, cp) && strings.Contains(src, "bX:=int64(blockSize.Value(0))*bytesPerVoxel") && strings.Contains(src, "bY:=int64(blockSize.Value(1))*bX")
	}
	rb := body(ib, "Voxels", "readBlock")
	wb := body(ib, "Voxels", "writeBlock")
	emit("ibReadVolRowCopies", "readBlock copies, for a 3-D request, one row segment per (z,y) of the intersection with row-major indices on both sides", volRows(rb, true), rb != "")
	emit("ibWriteVolRowCopies", "writeBlock copies the same row segments in the other direction", volRows(wb, false), wb != "")
	pb := body(ib, "Data", "PutBlocks")
	emit("ibPutBlocksWholeBlocks", "POST blocks reads voxels x bytes-per-voxel bytes per block", strings.Contains(pb, "numBlockBytes:=d.BlockSize().Prod()*int64(d.Values.BytesPerElement())"), pb != "")
	emit("ibPutBlocksPostsExtents", "POST blocks extends the advertised extents by the posted span before storing", strings.Contains(pb, "d.PostExtents(ctx,start.MinPoint(d.BlockSize()),last.MaxPoint(d.BlockSize()))") &&
		strings.Index(pb, "d.PostExtents(") < strings.Index(pb, "batch.Put("), pb != "")
	pv := body(ib, "Data", "PutVoxels")
	emit("ibPutVoxelsPostsExtents", "POST raw extends the advertised extents by the posted box", strings.Contains(pv, "d.PostExtents(ctx,vox.StartPoint(),vox.EndPoint())"), pv != "")
	emit("ibPutVoxelsRequiresAlignment", "POST raw refuses a box that is not aligned to the block grid", strings.Contains(pv, "if!dvid.BlockAligned(vox,d.BlockSize()){returnfmt.Errorf("), pv != "")
	pe := body(ib, "Data", "PostExtents")
	ap := body(dv, "Extents", "AdjustPoints")
	emit("ibExtentsOnlyGrow", "PostExtents merges the new box into the stored extents with AdjustPoints (component-wise min / max)",
		strings.Contains(pe, "extents.AdjustPoints(start,end)") && strings.Contains(ap, "ext.MinPoint,minChanged=ext.MinPoint.Min(pointBeg)") && strings.Contains(ap, "ext.MaxPoint,maxChanged=ext.MaxPoint.Max(pointEnd)") &&
			strings.Contains(ap, "ifext.MinPoint==nil{ext.MinPoint=pointBeg") && strings.Contains(ap, "ifext.MaxPoint==nil{ext.MaxPoint=pointEnd"), pe != "" && ap != "")
	gv := body(ib, "Data", "GetVoxels")
	emit("ibReadPrefillsBackground", "raw reads start from a buffer holding the background value", strings.Contains(gv, "ifd.Background!=0&&d.Values.BytesPerElement()==1{data:=vox.Data()fori:=rangedata{data[i]=d.Background}}"), gv != "")
	ch := body(dv, "Point3d", "Chunk")
	emit("ibChunkFloorByCase", "Point3d.Chunk divides with floor: (p - s + 1) / s for negative p, p / s otherwise, on every axis",
		strings.Contains(ch, "ifp[0]<0{c0=(p[0]-s0+1)/s0}else{c0=p[0]/s0}") && strings.Contains(ch, "ifp[1]<0{c1=(p[1]-s1+1)/s1}else{c1=p[1]/s1}") &&
			strings.Contains(ch, "ifp[2]<0{c2=(p[2]-s2+1)/s2}else{c2=p[2]/s2}"), ch != "")
}
