package main

import (
	"fmt"
	"go/ast"
	"regexp"
	"strings"
)

// genBlock: facts of the compressed label block code (C09, C10).
func genBlock(repo string) {
	lb := loadPkg(repo, "datatype/common/labels")
	g := newGen("Block", "")
	g.constNat(repo, lb, "SubBlockSize", "subBlockSize")
	g.constNat(repo, lb, "MaxBlockSize", "maxBlockSize")
	// leftBitMask table
	var mask []string
	for _, f := range lb.files {
		for _, d := range f.Decls {
			gd, ok := d.(*ast.GenDecl)
			if !ok {
				continue
			}
			for _, s := range gd.Specs {
				vs, ok := s.(*ast.ValueSpec)
				if !ok || len(vs.Names) != 1 || vs.Names[0].Name != "leftBitMask" || len(vs.Values) != 1 {
					continue
				}
				if cl, ok := vs.Values[0].(*ast.CompositeLit); ok {
					for _, e := range cl.Elts {
						if v, ok := lb.eval(repo, e, 0); ok {
							mask = append(mask, fmt.Sprint(v))
						}
					}
				}
			}
		}
	}
	if len(mask) != 8 {
		g.body.WriteString("def leftBitMask : List Nat := unknown_leftBitMask\n")
	} else {
		fmt.Fprintf(&g.body, "/-- `leftBitMask`: bits of a byte at and after a bit position -/\ndef leftBitMask : List Nat := [%s]\n", strings.Join(mask, ", "))
	}
	// getNumVoxels: when the label is not in a multi-label sub-block, is the bit position still advanced?
	adv := false
	known := false
	if fd := lb.funcDecl("Block", "getNumVoxels"); fd != nil {
		src := strings.ReplaceAll(lb.src(fd), " ", "")
		src = strings.ReplaceAll(src, "\t", "")
		if i := strings.Index(src, "if!found{"); i >= 0 {
			known = true
			rest := src[i+len("if!found{"):]
			depth, j := 1, 0
			for j = 0; j < len(rest) && depth > 0; j++ {
				if rest[j] == '{' {
					depth++
				} else if rest[j] == '}' {
					depth--
				}
			}
			body := rest[:j]
			adv = regexp.MustCompile(`bitpos\+?=`).MatchString(body)
			// or: the miss no longer skips the voxel loop at all
			if !strings.Contains(body, "continue") {
				adv = true
			}
		} else if !strings.Contains(src, "found") {
			known = false
		}
	}
	// getNumVoxels: does it count voxels through every listing of the label index in a sub-block, or only the last?
	every, everyKnown := false, false
	if fd := lb.funcDecl("Block", "getNumVoxels"); fd != nil {
		src := strings.ReplaceAll(strings.ReplaceAll(lb.src(fd), " ", ""), "\t", "")
		lastOnly := regexp.MustCompile(`ifindex==\w+\{`).MatchString(src)
		perSlot := regexp.MustCompile(`if\w+\[index\]\{`).MatchString(src)
		if lastOnly != perSlot {
			everyKnown, every = true, perSlot
		}
	}
	if !everyKnown {
		g.body.WriteString("def numVoxCountsEveryListing : Bool := unknown_getNumVoxels_match_shape\n")
	} else {
		fmt.Fprintf(&g.body, "/-- `getNumVoxels` counts voxels through every listing of the label index in a sub-block (not only the last) -/\ndef numVoxCountsEveryListing : Bool := %v\n", every)
		facts.Extra["numVoxCountsEveryListing"] = every
	}
	if !known {
		g.body.WriteString("def numVoxAdvancesOnMiss : Bool := unknown_getNumVoxels_shape\n")
	} else {
		fmt.Fprintf(&g.body, "/-- `getNumVoxels` advances its bit position past a multi-label sub-block that does not list the label -/\ndef numVoxAdvancesOnMiss : Bool := %v\n", adv)
		facts.Extra["numVoxAdvancesOnMiss"] = adv
	}
}
