package main

import (
	"fmt"
	"strings"
)

// genAnnSync: shape facts of the annotation handlers for label events (C13).
func genAnnSync(repo string) {
	an := loadPkg(repo, "datatype/annotation")
	g := newGen("AnnSync", "")
	sq := func(fn string) string {
		if fd := an.funcDecl("Data", fn); fd != nil {
			return strings.NewReplacer(" ", "", "\t", "", "\n", "").Replace(lineComment.ReplaceAllString(an.src(fd), ""))
		}
		return ""
	}
	emit := func(name, doc string, v, known bool) {
		if !known {
			fmt.Fprintf(&g.body, "def %s : Bool := unknown_%s\n", name, name)
			return
		}
		fmt.Fprintf(&g.body, "/-- %s -/\ndef %s : Bool := %v\n", doc, name, v)
		facts.Extra[name] = v
	}
	mg := sq("mergeLabels")
	emit("annMergeAppendsAndDeletes", "mergeLabels appends every merged body's element list to the target's list, deletes the merged body's key, and writes the target's list when anything was added",
		strings.Contains(mg, "forlabel:=rangeop.Merged{tk:=NewLabelTKey(label)elems,err:=getElementsNR(ctx,tk)") && strings.Contains(mg, "ifelems==nil||len(elems)==0{continue}batch.Delete(tk)elemsAdded+=len(elems)targetElems=append(targetElems,elems...)") &&
			strings.Contains(mg, "ifelemsAdded>0{val,err:=json.Marshal(targetElems)") && strings.Contains(mg, "batch.Put(targetTk,val)iferr:=batch.Commit()"), mg != "")
	cl := sq("cleaveLabels")
	emit("annCleaveDeletesEmptiedTarget", "cleaveLabels sorts the target's elements by whether their position lies in a cleaved supervoxel, writes the non-empty sides and deletes the target's key when nothing stays on the target",
		strings.Contains(cl, "ifcleaved{labelElems.add(op.CleavedLabel,elem)") && strings.Contains(cl, "}else{labelElems.add(op.Target,elem)}") &&
			strings.Contains(cl, "forlabel,elems:=rangelabelElems{labelTKey:=NewLabelTKey(label)val,err:=json.Marshal(elems)") && strings.Contains(cl, "batch.Put(labelTKey,val)}if_,found:=labelElems[op.Target];!found{batch.Delete(NewLabelTKey(op.Target))}") &&
			strings.Contains(cl, "iflen(targetElems)==0{returnnil}"), cl != "")
	sl := sq("storeLabelElements")
	emit("annLabelPostReplacesSamePos", "storeLabelElements adds each posted element to the list of the body under it, replacing the element at the same position and appending otherwise, then writes the list",
		strings.Contains(sl, "forlabel,additions:=rangetoAdd{tk:=NewLabelTKey(label)elems,err:=getElementsNR(ctx,tk)") &&
			strings.Contains(sl, "i,found:=emap[elem.Pos.MapKey()]if!found{elems=append(elems,elem)") && strings.Contains(sl, "elems[i]=elem") &&
			strings.Contains(sl, "putBatchElements(batch,tk,elems)"), sl != "")
	gl := sq("getLabelElements")
	emit("annLabelSkipsZero", "getLabelElements files an element under the label at its position unless that label is 0",
		strings.Contains(gl, "iflabels[i]!=0{"), gl != "")
	dl := sq("deleteElementInLabel")
	emit("annLabelDeleteRemovesAtPoint", "deleteElementInLabel removes the elements at the point from the list of the label under the point and writes the list",
		strings.Contains(dl, "label,err:=labelData.GetLabelAtPoint(ctx.VersionID(),pt)") && strings.Contains(dl, "ifpt.Equals(elem.Pos){") &&
			strings.Contains(dl, "elems=elems[:len(elems)-1]") && strings.Contains(dl, "putBatchElements(batch,tk,elems)"), dl != "")
}
