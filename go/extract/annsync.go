package main

import (
	"fmt"
	"strings"
)

// genAnnSync: shape facts of the annotation handlers for label events (C13).
func genAnnSync(repo string) {
	an := loadPkg(repo, "datatype/annotation")
	g := newGen("AnnSync", "")
	sq := func(fn string) string {
		if fd := an.funcDecl("Data", fn); fd != nil {
			return strings.NewReplacer(" ", "", "\t", "", "\n", "").Replace(lineComment.ReplaceAllString(an.src(fd), ""))
		}
		return ""
	}
	emit := func(name, doc string, v, known bool) {
		if !known {
			fmt.Fprintf(&g.body, "def %s : Bool := unknown_%s\n", name, name)
			return
		}
		fmt.Fprintf(&g.body, "/-- %s -/\ndef %s : Bool := %v\n", doc, name, v)
		facts.Extra[name] = v
	}
	mg := sq("mergeLabels")
	emit("annMergeAppendsAndDeletes", "mergeLabels appends every merged body's element list to the target's list, deletes the merged body's key, and writes the target's list when anything was added",
		strings.Contains(mg, "forlabel:=rangeop.Merged{tk:=NewLabelTKey(label)elems,err:=getElementsNR(ctx,tk)") && strings.Contains(mg, "ifelems==nil||len(elems)==0{continue}batch.Delete(tk)elemsAdded+=len(elems)targetElems=append(targetElems,elems...)") &&
			strings.Contains(mg, "ifelemsAdded>0{val,err:=json.Marshal(targetElems)") && strings.Contains(mg, "batch.Put(targetTk,val)iferr:=batch.Commit()"), mg != "")
	cl := sq("cleaveLabels")
	emit("annCleaveDeletesEmptiedTarget", "cleaveLabels sorts the target's elements by whether their position lies in a cleaved supervoxel, writes the non-empty sides and deletes the target's key when nothing stays on the target",
		strings.Contains(cl, "ifcleaved{labelElems.add(op.CleavedLabel,elem)") && strings.Contains(cl, "}else{labelElems.add(op.Target,elem)}") &&
			strings.Contains(cl, "forlabel,elems:=rangelabelElems{labelTKey:=NewLabelTKey(label)val,err:=json.Marshal(elems)") && strings.Contains(cl, "batch.Put(labelTKey,val)}if_,found:=labelElems[op.Target];!found{batch.Delete(NewLabelTKey(op.Target))}") &&
			strings.Contains(cl, "iflen(targetElems)==0{returnnil}"), cl != "")
}
