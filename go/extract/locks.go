package main

import (
	"fmt"
	"regexp"
	"strings"
)

var lineComment = regexp.MustCompile(`//[^\n]*`)

// genLocks: for each read-modify-write site named by C11, is a write lock shared by all handlers of the datum
// taken before the read and released after the write?  A commented-out lock does not count (comments are
// stripped before matching).
func genLocks(repo string) {
	g := newGen("Locks", "")
	code := func(rel, recv, fn string) string {
		p := loadPkg(repo, rel)
		fd := p.funcDecl(recv, fn)
		if fd == nil {
			return ""
		}
		src := lineComment.ReplaceAllString(p.src(fd), "")
		return strings.NewReplacer(" ", "", "\t", "", "\n", "").Replace(src)
	}
	before := func(s, a, b string) bool {
		i, j := strings.Index(s, a), strings.Index(s, b)
		return i >= 0 && j >= 0 && i < j
	}
	type site struct {
		name    string
		covered bool
		known   bool
	}
	var sites []site
	add := func(name string, covered, known bool) { sites = append(sites, site{name, covered, known}) }
	for _, fn := range []string{"StoreElements", "DeleteElement", "MoveElement", "StoreBlocks"} {
		s := code("datatype/annotation", "Data", fn)
		read := "getElements(ctx,"
		if fn == "StoreBlocks" {
			read = "putBatchElements(batch,"
		}
		add("annotation."+fn, before(s, "d.Lock()deferd.Unlock()", read) && (fn == "StoreBlocks" || before(s, read, "dvid.VerifYield(\"annotation."+fn+"\")")), s != "")
	}
	ml := code("datatype/labelmap", "Data", "MergeLabels")
	add("labelmap.MergeLabels", strings.Contains(ml, "shard:=op.Target%numIndexShardsindexMu[shard].Lock()") &&
		before(ml, "indexMu[shard].Lock()", "getCachedLabelIndex(d,v,op.Target)") && before(ml, "getCachedLabelIndex(d,v,op.Target)", "putCachedLabelIndex(d,v,targetIdx)") &&
		before(ml, "putCachedLabelIndex(d,v,targetIdx);err!=nil{return}", "indexMu[shard].Unlock()targetLocked=false") && !strings.Contains(ml, "GetLabelIndex(d,v,op.Target,false)"), ml != "")
	sp := code("datatype/labelmap", "Data", "SplitSupervoxel")
	add("labelmap.SplitSupervoxel", before(sp, "label=mapped", "shard:=label%numIndexShardsindexMu[shard].Lock()deferindexMu[shard].Unlock()") &&
		before(sp, "indexMu[shard].Lock()deferindexMu[shard].Unlock()", "getCachedLabelIndex(d,v,label)") && before(sp, "getCachedLabelIndex(d,v,label)", "dvid.VerifYield(\"labelmap.SplitSupervoxel\")"), sp != "")
	cl := code("datatype/labelmap", "Data", "cleaveIndex")
	add("labelmap.cleaveIndex", strings.Contains(cl, "shard:=op.Target%numIndexShardsindexMu[shard].Lock()deferindexMu[shard].Unlock()") &&
		before(cl, "deferindexMu[shard].Unlock()", "getCachedLabelIndex(d,v,op.Target)"), cl != "")
	ch := code("datatype/labelmap", "", "ChangeLabelIndex")
	add("labelmap.ChangeLabelIndex", strings.Contains(ch, "shard:=label%numIndexShardsindexMu[shard].Lock()deferindexMu[shard].Unlock()") &&
		before(ch, "deferindexMu[shard].Unlock()", "getCachedLabelIndex(d,v,label)"), ch != "")
	nv := code("datastore", "repoManager", "newVersion")
	add("datastore.newVersion", before(nv, "m.childMutex.Lock()deferm.childMutex.Unlock()", "fornode.children") || before(nv, "m.childMutex.Lock()deferm.childMutex.Unlock()", "range node.children") ||
		before(nv, "m.childMutex.Lock()deferm.childMutex.Unlock()", "rangenode.children"), nv != "")
	mg := code("datastore", "repoManager", "merge")
	add("datastore.merge", before(mg, "m.childMutex.Lock()deferm.childMutex.Unlock()", "m.repoMutex.RLock()"), mg != "")
	nj := code("datatype/neuronjson", "Data", "storeAndUpdate")
	add("neuronjson.storeAndUpdate", before(nj, "d.updateMu.Lock()deferd.updateMu.Unlock()", "d.getStoreData(ctx,keyStr)") && before(nj, "d.getStoreData(ctx,keyStr)", "d.putStoreData(ctx,keyStr,newData)"), nj != "")
	g.body.WriteString("namespace Locks\n\n/-- (site, a write lock shared by all handlers covers read and write) -/\ndef sites : List (String × Bool) := [\n")
	for i, s := range sites {
		v := fmt.Sprint(s.covered)
		if !s.known {
			v = "unknown_site_" + strings.ReplaceAll(s.name, ".", "_")
		}
		sep := ","
		if i == len(sites)-1 {
			sep = ""
		}
		fmt.Fprintf(&g.body, "  (%q, %s)%s\n", s.name, v, sep)
		facts.Extra["lock:"+s.name] = s.covered
	}
	g.body.WriteString("]\n\nend Locks\n")
}
