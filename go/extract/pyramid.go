package main

import (
	"fmt"
	"strings"
)

// genPyramid: shape facts of the incremental down-sampling (C14).
func genPyramid(repo string) {
	lm := loadPkg(repo, "datatype/labelmap")
	dr := loadPkg(repo, "datatype/common/downres")
	g := newGen("Pyramid", "")
	squash := func(s string) string { return strings.NewReplacer(" ", "", "\t", "", "\n", "").Replace(s) }
	emit := func(name, doc string, v, known bool) {
		if !known {
			fmt.Fprintf(&g.body, "def %s : Bool := unknown_%s\n", name, name)
			return
		}
		fmt.Fprintf(&g.body, "/-- %s -/\ndef %s : Bool := %v\n", doc, name, v)
		facts.Extra[name] = v
	}
	src := ""
	if fd := lm.funcDecl("Data", "getHiresChanges"); fd != nil {
		src = squash(lm.src(fd))
	}
	emit("downresParentIsHalf", "the lower-resolution block of a changed block is its coordinate shifted right by one (floor of half) on every axis",
		strings.Contains(src, "downresX:=hresCoord[0]>>1") && strings.Contains(src, "downresY:=hresCoord[1]>>1") && strings.Contains(src, "downresZ:=hresCoord[2]>>1") &&
			strings.Contains(src, "dvid.ChunkPoint3d{downresX,downresY,downresZ}"), src != "")
	emit("downresOctantFromLowBits", "the octant index is built from the low bit of each coordinate (z<<2 | y<<1 | x), valid for negative coordinates",
		strings.Contains(src, "octidx:=((hresCoord[2]&1)<<2)+((hresCoord[1]&1)<<1)+(hresCoord[0]&1)"), src != "")
	ex := ""
	if fd := dr.funcDecl("Mutation", "Execute"); fd != nil {
		ex = strings.ReplaceAll(squash(dr.src(fd)), `dvid.VerifYield("downres.Execute")`, "") // the guarded yield hook is not part of the shape
	}
	emit("downresChainsLevels", "Execute feeds the blocks computed at one level as the changed blocks of the next, for every level below the maximum",
		strings.Contains(ex, "bm:=m.hiresCache") && strings.Contains(ex, "forscale:=uint8(0);scale<m.d.GetMaxDownresLevel();scale++{bm,err=m.d.StoreDownres(m.v,scale,bm)"), ex != "")
	oc := ""
	if fd := lm.funcDecl("Data", "downresOctant"); fd != nil {
		oc = squash(lm.src(fd))
	}
	sb := ""
	if fd := loadPkg(repo, "datatype/common/labels").funcDecl("Block", "setBlank"); fd != nil {
		sb = squash(loadPkg(repo, "datatype/common/labels").src(fd))
	}
	emit("downresSolidNeedsAllOctants", "Block.Downres replaces the receiving block by a solid block only when all eight octants are given, solid and of one label (a nil octant leaves its portion as stored)",
		strings.Contains(sb, "ifoctants[0]==nil||len(octants[0].Labels)!=1{returnfalse}") &&
			strings.Contains(sb, "ifoctants[i]==nil||len(octants[i].Labels)!=1||lbl!=octants[i].Labels[0]{returnfalse}") &&
			strings.Count(sb, "MakeSolidBlock") == 1, sb != "")
	idle := ""
	if fd := lm.funcDecl("Data", "AnyScaleUpdating"); fd != nil {
		idle = squash(lineComment.ReplaceAllString(lm.src(fd), ""))
	}
	nm := ""
	if fd := dr.funcDecl("", "NewMutation"); fd != nil {
		nm = squash(dr.src(fd))
	}
	emit("downresIdleLooksAtComputedScales", "the scales a mutation marks as updating (1..MaxDownresLevel) are the scales AnyScaleUpdating looks at",
		strings.Contains(nm, "forscale:=uint8(1);scale<=d.GetMaxDownresLevel();scale++{d.StartScaleUpdate(scale)}") &&
			strings.Contains(idle, "forscale:=uint8(1);scale<=d.MaxDownresLevel;scale++{ifd.updates[scale]>0{"), idle != "" && nm != "")
	emit("downresKeepsUntouchedOctants", "when fewer than eight octants changed the stored lower-resolution block is loaded and only the changed octants are recomputed",
		strings.Contains(oc, "ifnumBlocks<8{") && strings.Contains(oc, "loresBlock,err=d.getSupervoxelBlock(v,chunkPt,hiresScale+1)") && strings.Contains(oc, "loresBlock.Downres(msg.octant)"), oc != "")
}
