package main

import (
	"fmt"
	"strings"
)

// genFixes: the shapes of repairs made to dvid in the course of this work, so that losing one of them is a
// broken proof obligation of the property it belongs to (C02, C04, C11, C20).
func genFixes(repo string) {
	g := newGen("Fixes", "")
	sq := func(rel, recv, fn string) string {
		p := loadPkg(repo, rel)
		fd := p.funcDecl(recv, fn)
		if fd == nil {
			return ""
		}
		return strings.NewReplacer(" ", "", "\t", "", "\n", "").Replace(lineComment.ReplaceAllString(p.src(fd), ""))
	}
	emit := func(name, doc string, v, known bool) {
		if !known {
			fmt.Fprintf(&g.body, "def %s : Bool := unknown_%s\n", name, name)
			return
		}
		fmt.Fprintf(&g.body, "/-- %s -/\ndef %s : Bool := %v\n", doc, name, v)
		facts.Extra[name] = v
	}
	dc := sq("datastore", "", "DeleteConflicts")
	emit("resolveKeepsCommittedParents", "DeleteConflicts treats a parent handed back as its own uuid as not yet extended, so conflict deletions never go into the committed parent (C02)",
		strings.Contains(dc, "ifnewParents[i]!=dvid.NilUUID&&newParents[i]!=oldUUID{"), dc != "")
	nd := sq("storage/badger", "Engine", "newDB")
	i, j := strings.Index(nd, "removeEmptyLogFiles(opts.Dir)"), strings.Index(nd, "badger.Open(*opts)")
	emit("badgerRemovesEmptyLogFiles", "the badger store removes zero-length memtable / value-log files (left by a kill during their creation) before opening (C04)",
		i >= 0 && j >= 0 && i < j, nd != "")
	sv := sq("datastore", "repoT", "saveToStore")
	ge := sq("datastore", "repoT", "GobEncode")
	k, l := strings.Index(sv, "r.RLock()"), strings.Index(sv, "dvid.Serialize(r,")
	emit("saveDoesNotNestReadLock", "repoT.saveToStore does not hold the repo's read lock across the encoding, which takes it itself for its whole duration (C11: no wedge with a queued writer)",
		l >= 0 && (k < 0 || k > l) && strings.Contains(ge, "r.RLock()deferr.RUnlock()"), sv != "" && ge != "")
	sb := sq("datatype/labelmap", "Data", "streamRawBlock")
	emit("rawBlockNilIsBackground", "labelmap's single-block raw read answers a never written block with label 0 instead of dereferencing a nil block (C20)",
		strings.Contains(sb, "ifblock==nil{") && strings.Contains(sb, "labels.MakeSolidBlock(0,blockSize)"), sb != "")
	ai := sq("dvid", "Extents", "AdjustIndices")
	emit("extentsIndexChangeKeepsMin", "Extents.AdjustIndices reports a change when either the minimum or the maximum block index moved (C03: the instance is saved, so the extents survive a restart)",
		strings.Contains(ai, "ext.MinIndex,minChanged=ext.MinIndex.Min(indexBeg)") && strings.Contains(ai, "returnminChanged||maxChanged") && !strings.Contains(ai, "ext.MaxIndex,minChanged"), ai != "")
	lm := sq("datastore", "repoManager", "loadMetadata")
	emit("startupRepairsRepoCounter", "loadMetadata raises the repo id counter above every stored repo id, as it does for version ids (C12: a lagging stored counter hands out no id twice)",
		strings.Contains(lm, "forid:=rangem.repoToUUID{ifid>=m.repoID{") && strings.Contains(lm, "m.repoID=id+1") && strings.Contains(lm, "ifv>=m.versionID{"), lm != "")
	ni := sq("datastore", "repoManager", "newInstanceID")
	emit("newInstanceIdSkipsLiveIds", "newInstanceID draws again while the drawn id belongs to a live instance, whichever generator is configured (C06/C12: a lagging stored counter never makes two instances share storage)",
		strings.Contains(ni, "_,found:=m.iids[curid]if!found{invalidID=false}"), ni != "")
	gs := sq("datatype/roi", "", "GetSpans") + "|" + sq("datatype/roi", "Data", "GetSpans")
	emit("roiGetSpansScansAll", "both full-ROI readers scan the whole index range of the version, not the instance-wide z extents (C02: later POSTs at other versions move those extents)",
		strings.Count(gs, "returngetSpans(ctx,minIndexRLE,maxIndexRLE)") == 2, gs != "|")
	pa, sp := sq("datatype/roi", "Data", "Partition"), sq("datatype/roi", "Data", "SimplePartition")
	emit("roiPartitionUsesVersionExtents", "Partition and SimplePartition lay out their layers from the z extents of the spans stored at the requested version (C02)",
		strings.Contains(pa, "minZ,maxZ,err:=d.zExtents(ctx)") && strings.Contains(sp, "minZ,maxZ,err:=d.zExtents(ctx)") && !strings.Contains(pa, "d.MinZ") && !strings.Contains(sp, "d.MinZ") && !strings.Contains(pa, "d.MaxZ") && !strings.Contains(sp, "d.MaxZ"), pa != "" && sp != "")
	bp, bd := sq("storage/badger", "BadgerDB", "Put"), sq("storage/badger", "BadgerDB", "Delete")
	emit("badgerPutDeleteSingleTxn", "a versioned single-key Put writes the value and clears the deletion marker in ONE badger transaction, a versioned Delete removes the value and sets the marker in ONE transaction (C04: no crash point between them; C11: no other request between them)",
		strings.Contains(bp, "db.bdp.Update(func(txn*badger.Txn)error{iferr:=txn.Set(key,v);err!=nil{returnerr}iferr:=txn.Delete(tombstoneKey);err!=nil{returnerr}returnnil})") &&
			strings.Contains(bd, "db.bdp.Update(func(txn*badger.Txn)error{iferr:=txn.Delete(key);err!=nil{returnerr}iferr:=txn.Set(tombstoneKey,dvid.EmptyValue());err!=nil{returnerr}returnnil})") &&
			strings.Count(bp, "db.bdp.Update(") == 2 && strings.Count(bd, "db.bdp.Update(") == 2 && !strings.Contains(bp, "Raw") && !strings.Contains(bd, "Raw"), bp != "" && bd != "")
	bh := sq("datastore", "repoT", "branchHeads")
	emit("branchHeadIgnoresOtherBranchChildren", "branchHeads (the table rebuilt at start-up) takes a node as the head of its branch unless one of its children continues that branch (C03/C07: POST branch on a tip does not cost the tip's branch its head after a restart)",
		strings.Contains(bh, "head:=truefor_,c:=rangenode.children{ifchild,found:=r.dag.nodes[c];found&&child.branch==node.branch{head=falsebreak}}ifhead{branchToUUID[node.branch]=node.uuid}"), bh != "")
}
