package main

import (
	"fmt"
	"go/ast"
	"strings"
)

// genResolver: structural facts of datastore.findMatch / invalidateAncestors consumed by Model/Resolve.lean.
func genResolver(repo string) {
	ds := loadPkg(repo, "datastore")
	g := newGen("Resolver", "")
	fm := ds.funcDecl("repoManager", "findMatch")
	survivor := false
	eagerErr := false
	prunes := false
	if fm != nil {
		ast.Inspect(fm, func(n ast.Node) bool {
			cc, ok := n.(*ast.CaseClause)
			if !ok || len(cc.List) != 1 {
				return true
			}
			if ds.src(cc.List[0]) == "1" {
				body := ""
				for _, st := range cc.Body {
					body += strings.ReplaceAll(ds.src(st), " ", "") + "\n"
				}
				if strings.Contains(body, "returnfoundKV,foundV,nil") {
					// is foundKV re-assigned from the surviving version before the return?
					survivor = strings.Contains(body, "forfv:=rangefoundVs{") && strings.Contains(body, "foundKV=kvv[fv].kv") && strings.Contains(body, "foundV=fv")
				}
			}
			return true
		})
		src := strings.ReplaceAll(ds.src(fm), " ", "")
		src = strings.ReplaceAll(src, "\t", "")
		eagerErr = strings.Contains(src, "matchKV,matchV,err:=m.findMatch(kvv,parent)\niferr!=nil{\nreturnnil,parent,err\n}")
		prunes = strings.Contains(src, "ifn.invalid{\nbadV=append(badV,fv)\n}") && strings.Contains(src, "delete(foundVs,bv)")
	}
	fmt.Fprintf(&g.body, "/-- `case 1:` of the post-loop switch re-selects the kv of the one version left in `foundVs` -/\ndef mergeReturnsSurvivor : Bool := %v\n", survivor)
	fmt.Fprintf(&g.body, "/-- an error from one parent aborts the merge loop at once -/\ndef mergeEagerError : Bool := %v\n", eagerErr)
	fmt.Fprintf(&g.body, "/-- matches at invalidated versions are removed from `foundVs` before the switch -/\ndef mergePrunesInvalid : Bool := %v\n", prunes)
	facts.Extra["mergeReturnsSurvivor"], facts.Extra["mergeEagerError"], facts.Extra["mergePrunesInvalid"] = survivor, eagerErr, prunes
}
