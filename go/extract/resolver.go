package main

import (
	"regexp"
	"fmt"
	"go/ast"
	"strings"
)

// genResolver: structural facts of datastore.findMatch / invalidateAncestors consumed by Model/Resolve.lean.
func genResolver(repo string) {
	ds := loadPkg(repo, "datastore")
	g := newGen("Resolver", "")
	fm := ds.funcDecl("repoManager", "findMatch")
	survivor := false
	eagerErr := false
	prunes := false
	if fm != nil {
		ast.Inspect(fm, func(n ast.Node) bool {
			cc, ok := n.(*ast.CaseClause)
			if !ok || len(cc.List) != 1 {
				return true
			}
			if ds.src(cc.List[0]) == "1" {
				body := ""
				for _, st := range cc.Body {
					body += strings.ReplaceAll(ds.src(st), " ", "") + "\n"
				}
				if strings.Contains(body, "returnfoundKV,foundV,nil") {
					// is foundKV re-assigned from the surviving version before the return?
					survivor = strings.Contains(body, "forfv:=rangefoundVs{") && strings.Contains(body, "foundKV=kvv[fv].kv") && strings.Contains(body, "foundV=fv")
				}
			}
			return true
		})
		src := strings.ReplaceAll(ds.src(fm), " ", "")
		src = strings.ReplaceAll(src, "\t", "")
		eagerErr = strings.Contains(src, "matchKV,matchV,err:=m.findMatch(kvv,parent)\niferr!=nil{\nreturnnil,parent,err\n}")
		prunes = strings.Contains(src, "ifn.invalid{\nbadV=append(badV,fv)\n}") && strings.Contains(src, "delete(foundVs,bv)")
	}
	fmt.Fprintf(&g.body, "/-- `case 1:` of the post-loop switch re-selects the kv of the one version left in `foundVs` -/\ndef mergeReturnsSurvivor : Bool := %v\n", survivor)
	fmt.Fprintf(&g.body, "/-- an error from one parent aborts the merge loop at once -/\ndef mergeEagerError : Bool := %v\n", eagerErr)
	fmt.Fprintf(&g.body, "/-- matches at invalidated versions are removed from `foundVs` before the switch -/\ndef mergePrunesInvalid : Bool := %v\n", prunes)
	// GetBestKeyVersion: is an error from FindMatch returned, or dropped when kv == nil?
	propagates := false
	if fd := ds.funcDecl("VersionedCtx", "GetBestKeyVersion"); fd != nil {
		src := strings.ReplaceAll(strings.ReplaceAll(ds.src(fd), " ", ""), "\t", "")
		i := strings.Index(src, "versionMap.FindMatch(")
		if i >= 0 {
			rest := src[i:]
			e := strings.Index(rest, "iferr!=nil{\nreturnnil,err")
			k := strings.Index(rest, "ifkv==nil{")
			propagates = e >= 0 && (k < 0 || e < k)
		}
	}
	fmt.Fprintf(&g.body, "/-- `GetBestKeyVersion` returns FindMatch's error instead of dropping it when no kv is returned -/\ndef bestKeyPropagatesError : Bool := %v\n", propagates)
	facts.Extra["bestKeyPropagatesError"] = propagates
	// badger DeleteRange: is the scan error looked at before the nil-kv end marker?
	bd := loadPkg(repo, "storage/badger")
	errFirst := false
	if fd := bd.funcDecl("BadgerDB", "DeleteRange"); fd != nil {
		src := strings.ReplaceAll(strings.ReplaceAll(bd.src(fd), " ", ""), "\t", "")
		e := strings.Index(src, "ifresult.error!=nil{")
		k := strings.Index(src, "ifresult.KeyValue==nil{")
		errFirst = e >= 0 && k >= 0 && e < k
	}
	fmt.Fprintf(&g.body, "/-- `DeleteRange` checks the scan's error before its end-of-range marker -/\ndef deleteRangeChecksErrorFirst : Bool := %v\n", errFirst)
	facts.Extra["deleteRangeChecksErrorFirst"] = errFirst
	// badger point writes: the two-key transactions of Put / Delete and their batch forms
	{
		sq := func(recv, fn string) string {
			if fd := bd.funcDecl(recv, fn); fd != nil {
				return strings.NewReplacer(" ", "", "\t", "", "\n", "").Replace(regexp.MustCompile(`//[^\n]*`).ReplaceAllString(bd.src(fd), ""))
			}
			return ""
		}
		put, del, bput, bdel := sq("BadgerDB", "Put"), sq("BadgerDB", "Delete"), sq("goBatch", "Put"), sq("goBatch", "Delete")
		putOK := strings.Contains(put, "err=db.bdp.Update(func(txn*badger.Txn)error{iferr:=txn.Set(key,v);err!=nil{returnerr}iferr:=txn.Delete(tombstoneKey);err!=nil{returnerr}returnnil})") &&
			strings.Contains(bput, "ifbatch.vctx!=nil{tombstone:=batch.vctx.TombstoneKey(tk)batch.WriteBatch.Delete(tombstone)}") && strings.Contains(bput, "batch.WriteBatch.Set(key,v)")
		delOK := strings.Contains(del, "err=db.bdp.Update(func(txn*badger.Txn)error{iferr:=txn.Delete(key);err!=nil{returnerr}iferr:=txn.Set(tombstoneKey,dvid.EmptyValue());err!=nil{returnerr}returnnil})") &&
			strings.Contains(bdel, "ifbatch.vctx!=nil{tombstone:=batch.vctx.TombstoneKey(tk)batch.WriteBatch.Set(tombstone,dvid.EmptyValue())}") && strings.Contains(bdel, "batch.WriteBatch.Delete(key)")
		fmt.Fprintf(&g.body, "/-- versioned `Put` (and `goBatch.Put`) sets the data key and deletes the tombstone key of the same version, in one transaction / batch -/\ndef storePutClearsTombstone : Bool := %v\n", putOK)
		fmt.Fprintf(&g.body, "/-- versioned `Delete` (and `goBatch.Delete`) unconditionally deletes the data key and sets the tombstone key of the same version, in one transaction / batch -/\ndef storeDeleteWritesTombstone : Bool := %v\n", delOK)
		facts.Extra["storePutClearsTombstone"], facts.Extra["storeDeleteWritesTombstone"] = putOK, delOK
	}
	// badger DeleteRange: shape of the batching of its deletes
	afterAdd, batch := false, int64(-1)
	if fd := bd.funcDecl("BadgerDB", "DeleteRange"); fd != nil {
		src := strings.NewReplacer(" ", "", "\t", "", "\n", "").Replace(bd.src(fd))
		fmt.Sscanf(src[strings.Index(src, "constBATCH_SIZE=")+len("constBATCH_SIZE="):], "%d", &batch)
		i := strings.Index(src, "wb.Delete(tk)")
		j := strings.Index(src, "if(numKV+1)%BATCH_SIZE==0{iferr:=wb.Commit();err!=nil{")
		k := strings.Index(src, "wb=db.NewBatch(ctx).(*goBatch)}numKV++}ifnumKV%BATCH_SIZE!=0{iferr:=wb.Commit();err!=nil{")
		afterAdd = i >= 0 && j > i && k > j && strings.Count(src, "wb.Delete(tk)") == 1 && strings.Count(src, "wb.Commit()") == 2
	}
	fmt.Fprintf(&g.body, "/-- `DeleteRange` adds each delete to the batch, commits the batch when it is full, and commits the remainder after the loop -/\ndef deleteRangeFlushesAfterAdd : Bool := %v\n", afterAdd)
	if batch > 0 {
		fmt.Fprintf(&g.body, "def deleteRangeBatchSize : Nat := %d\n", batch)
	} else {
		g.body.WriteString("def deleteRangeBatchSize : Nat := unknown_deleteRangeBatchSize\n")
	}
	facts.Extra["deleteRangeFlushesAfterAdd"] = afterAdd
	// keyvalue.NewTKey: are keys containing the terminator byte rejected?
	kvp := loadPkg(repo, "datatype/keyvalue")
	rejects := false
	if fd := kvp.funcDecl("", "NewTKey"); fd != nil {
		src := strings.ReplaceAll(kvp.src(fd), " ", "")
		rejects = (strings.Contains(src, "strings.IndexByte(key,0)") || strings.Contains(src, "strings.ContainsRune(key,0)") || strings.Contains(src, `strings.Contains(key,"\x00")`)) && strings.Contains(src, "returnnil,fmt.Errorf(")
	}
	fmt.Fprintf(&g.body, "/-- `keyvalue.NewTKey` rejects keys that contain the 0x00 terminator -/\ndef kvRejectsNul : Bool := %v\n", rejects)
	facts.Extra["kvRejectsNul"] = rejects
	facts.Extra["mergeReturnsSurvivor"], facts.Extra["mergeEagerError"], facts.Extra["mergePrunesInvalid"] = survivor, eagerErr, prunes
}
