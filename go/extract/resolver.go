package main

import (
	"fmt"
	"go/ast"
	"strings"
)

// genResolver: structural facts of datastore.findMatch / invalidateAncestors consumed by Model/Resolve.lean.
func genResolver(repo string) {
	ds := loadPkg(repo, "datastore")
	g := newGen("Resolver", "")
	fm := ds.funcDecl("repoManager", "findMatch")
	survivor := false
	eagerErr := false
	prunes := false
	if fm != nil {
		ast.Inspect(fm, func(n ast.Node) bool {
			cc, ok := n.(*ast.CaseClause)
			if !ok || len(cc.List) != 1 {
				return true
			}
			if ds.src(cc.List[0]) == "1" {
				body := ""
				for _, st := range cc.Body {
					body += strings.ReplaceAll(ds.src(st), " ", "") + "\n"
				}
				if strings.Contains(body, "returnfoundKV,foundV,nil") {
					// is foundKV re-assigned from the surviving version before the return?
					survivor = strings.Contains(body, "forfv:=rangefoundVs{") && strings.Contains(body, "foundKV=kvv[fv].kv") && strings.Contains(body, "foundV=fv")
				}
			}
			return true
		})
		src := strings.ReplaceAll(ds.src(fm), " ", "")
		src = strings.ReplaceAll(src, "\t", "")
		eagerErr = strings.Contains(src, "matchKV,matchV,err:=m.findMatch(kvv,parent)\niferr!=nil{\nreturnnil,parent,err\n}")
		prunes = strings.Contains(src, "ifn.invalid{\nbadV=append(badV,fv)\n}") && strings.Contains(src, "delete(foundVs,bv)")
	}
	fmt.Fprintf(&g.body, "/-- `case 1:` of the post-loop switch re-selects the kv of the one version left in `foundVs` -/\ndef mergeReturnsSurvivor : Bool := %v\n", survivor)
	fmt.Fprintf(&g.body, "/-- an error from one parent aborts the merge loop at once -/\ndef mergeEagerError : Bool := %v\n", eagerErr)
	fmt.Fprintf(&g.body, "/-- matches at invalidated versions are removed from `foundVs` before the switch -/\ndef mergePrunesInvalid : Bool := %v\n", prunes)
	// GetBestKeyVersion: is an error from FindMatch returned, or dropped when kv == nil?
	propagates := false
	if fd := ds.funcDecl("VersionedCtx", "GetBestKeyVersion"); fd != nil {
		src := strings.ReplaceAll(strings.ReplaceAll(ds.src(fd), " ", ""), "\t", "")
		i := strings.Index(src, "versionMap.FindMatch(")
		if i >= 0 {
			rest := src[i:]
			e := strings.Index(rest, "iferr!=nil{\nreturnnil,err")
			k := strings.Index(rest, "ifkv==nil{")
			propagates = e >= 0 && (k < 0 || e < k)
		}
	}
	fmt.Fprintf(&g.body, "/-- `GetBestKeyVersion` returns FindMatch's error instead of dropping it when no kv is returned -/\ndef bestKeyPropagatesError : Bool := %v\n", propagates)
	facts.Extra["bestKeyPropagatesError"] = propagates
	// badger DeleteRange: is the scan error looked at before the nil-kv end marker?
	bd := loadPkg(repo, "storage/badger")
	errFirst := false
	if fd := bd.funcDecl("BadgerDB", "DeleteRange"); fd != nil {
		src := strings.ReplaceAll(strings.ReplaceAll(bd.src(fd), " ", ""), "\t", "")
		e := strings.Index(src, "ifresult.error!=nil{")
		k := strings.Index(src, "ifresult.KeyValue==nil{")
		errFirst = e >= 0 && k >= 0 && e < k
	}
	fmt.Fprintf(&g.body, "/-- `DeleteRange` checks the scan's error before its end-of-range marker -/\ndef deleteRangeChecksErrorFirst : Bool := %v\n", errFirst)
	facts.Extra["deleteRangeChecksErrorFirst"] = errFirst
	// keyvalue.NewTKey: are keys containing the terminator byte rejected?
	kvp := loadPkg(repo, "datatype/keyvalue")
	rejects := false
	if fd := kvp.funcDecl("", "NewTKey"); fd != nil {
		src := strings.ReplaceAll(kvp.src(fd), " ", "")
		rejects = (strings.Contains(src, "strings.IndexByte(key,0)") || strings.Contains(src, "strings.ContainsRune(key,0)") || strings.Contains(src, `strings.Contains(key,"\x00")`)) && strings.Contains(src, "returnnil,fmt.Errorf(")
	}
	fmt.Fprintf(&g.body, "/-- `keyvalue.NewTKey` rejects keys that contain the 0x00 terminator -/\ndef kvRejectsNul : Bool := %v\n", rejects)
	facts.Extra["kvRejectsNul"] = rejects
	facts.Extra["mergeReturnsSurvivor"], facts.Extra["mergeEagerError"], facts.Extra["mergePrunesInvalid"] = survivor, eagerErr, prunes
}
