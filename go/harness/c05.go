package main

import (
	"archive/tar"
	"bytes"
	"encoding/json"
	"fmt"
	"io"
	"sort"
	"strings"

	pb "google.golang.org/protobuf/proto"

	"github.com/janelia-flyem/dvid/datastore"
	"github.com/janelia-flyem/dvid/datatype/common/proto"
	"github.com/janelia-flyem/dvid/datatype/keyvalue"
	"github.com/janelia-flyem/dvid/dvid"
	"github.com/janelia-flyem/dvid/storage"
)

func init() { register("C05", runC05) }

// keys with shared prefixes on purpose (string prefix does NOT mean tkey prefix: tkeys end in 0x00)
var c05Keys = []string{"a", "ab", "abc", "abd", "b", "b0", "ba", "c", "a0", "aa", "z", "0"}

type c05case struct {
	d     *tdag
	name  string
	data  datastore.DataService
	// latest op per key per version: 'V' with value, or 'T'
	ent   map[string]map[int]string // key -> version -> value ("" = tombstone)
	hist  []string
}

func c05val(v int, key string) string { return fmt.Sprintf("%d%03d", v, len(key)*7+int(key[0])) }

func buildC05Case(r *Rng, size int, name string, keys []string, c *Ctx) *c05case {
	cs := &c05case{name: name, ent: map[string]map[int]string{}}
	for _, k := range keys {
		cs.ent[k] = map[int]string{}
	}
	place := func(n *tnode) {
		if cs.data == nil {
			if resp := NewInstance(n.uuid, "keyvalue", name, nil); !resp.OK() {
				c.Report("H", "C05 cannot-create-instance", resp.String(), name)
			}
			cs.data, _ = datastore.GetDataByUUIDName(dvid.UUID(n.uuid), dvid.InstanceName(name))
		}
		nops := r.Intn(5)
		for j := 0; j < nops; j++ {
			key := keys[r.Intn(len(keys))]
			url := fmt.Sprintf("node/%s/%s/key/%s", n.uuid, name, strings.ReplaceAll(key, "\x00", "%00"))
			if r.Chance(0.65) {
				val := c05val(n.v, key)
				if resp := Post(url, []byte(val)); !resp.OK() {
					c.Report("H", "C05 post-failed", resp.String(), url)
				}
				cs.ent[key][n.v] = val
				cs.hist = append(cs.hist, fmt.Sprintf("POST %q=%s at v%d", key, val, n.v))
				c.Count("op.put")
			} else {
				if resp := Delete(url); !resp.OK() {
					c.Report("H", "C05 delete-failed", resp.String(), url)
				}
				cs.ent[key][n.v] = ""
				cs.hist = append(cs.hist, fmt.Sprintf("DELETE %q at v%d", key, n.v))
				c.Count("op.delete")
			}
		}
	}
	cs.d = genDag(r, size, place, c)
	return cs
}

// pointRead: individual GET of one key at one node: (value, found)
func (cs *c05case) pointRead(n *tnode, key string) (string, bool, int) {
	resp := Get(fmt.Sprintf("node/%s/%s/key/%s", n.uuid, cs.name, strings.ReplaceAll(key, "\x00", "%00")))
	return string(resp.Body), resp.Code == 200, resp.Code
}

func (cs *c05case) rawKeys() []storage.Key {
	store, err := datastore.GetOrderedKeyValueDB(cs.data)
	if err != nil {
		return nil
	}
	minK, maxK := storage.DataInstanceKeyRange(cs.data.InstanceID())
	ch := make(chan *storage.KeyValue, 1000)
	var out []storage.Key
	done := make(chan struct{})
	go func() {
		for kv := range ch {
			if kv == nil {
				break
			}
			out = append(out, kv.K)
		}
		close(done)
	}()
	store.RawRangeQuery(minK, maxK, true, ch, nil)
	<-done
	return out
}

func (cs *c05case) check(r *Rng, keys []string, c *Ctx, sigPrefix string) {
	d := cs.d
	store, _ := datastore.GetOrderedKeyValueDB(cs.data)
	raw := cs.rawKeys()
	var rawHex []string
	for _, k := range raw {
		rawHex = append(rawHex, hx(k))
	}
	rawSpec := strings.Join(rawHex, ",")
	if rawSpec == "" {
		rawSpec = "-"
	}
	sorted := append([]string{}, keys...)
	sort.Strings(sorted)
	for _, n := range d.nodes {
		// point reads = ground truth for this version
		point := map[string]string{}
		for _, k := range sorted {
			if v, ok, code := cs.pointRead(n, k); ok {
				point[k] = v
			} else if code != 404 {
				point[k] = "\x00ERR"
			}
		}
		type iv struct{ lo, hi string }
		ivs := []iv{{sorted[0], sorted[len(sorted)-1]}, {"", "\x7f"}}
		for j := 0; j < 4; j++ {
			a, b := sorted[r.Intn(len(sorted))], sorted[r.Intn(len(sorted))]
			switch r.Intn(5) {
			case 0:
				b = a // single key
			case 1:
				if a < b {
					a, b = b, a // empty (inverted) interval
				}
			case 2:
				a, b = a+"!", b+"~" // end points that are not keys
			}
			ivs = append(ivs, iv{a, b})
		}
		for _, x := range ivs {
			if x.lo == "" || strings.Contains(x.lo+x.hi, "\x00") {
				continue
			}
			// expected from point reads
			var want []string
			errAt := false
			for _, k := range sorted {
				if k >= x.lo && k <= x.hi {
					if v, ok := point[k]; ok {
						if v == "\x00ERR" {
							errAt = true
						}
						want = append(want, k)
					}
				}
			}
			tag := fmt.Sprintf("version=%d interval=[%q,%q]", n.v, x.lo, x.hi)
			kind := "nonempty"
			if x.lo > x.hi {
				kind = "inverted"
			} else if x.lo == x.hi {
				kind = "single"
			}
			c.Count("interval." + kind)
			// 1. storage KeysInRange  (X against the Lean mirror on the raw key dump; O against point reads)
			ctx := datastore.NewVersionedCtx(cs.data, dvid.VersionID(n.v+d.base))
			lo, _ := keyvalue.NewTKey(x.lo)
			hi, _ := keyvalue.NewTKey(x.hi)
			tks, err := store.KeysInRange(ctx, lo, hi)
			impl := "err"
			var got []string
			if err == nil {
				var hs []string
				for _, tk := range tks {
					hs = append(hs, hx(tk))
					s, _ := keyvalue.DecodeTKey(tk)
					got = append(got, s)
				}
				impl = "ok -"
				if len(hs) > 0 {
					impl = "ok " + strings.Join(hs, ",")
				}
			}
			if len(rawSpec) < 60000 {
				op := fmt.Sprintf("range %d %d %s %s %s %s", cs.data.InstanceID(), n.v+d.base, hx(lo), hx(hi), absParents(d), rawSpec)
				c.AskCmp("BadgerDB.versionedRange/KeysInRange", op, impl)
			}
			if !errAt {
				cs.oracle(c, sigPrefix, "KeysInRange", tag, want, got, err)
			}
			// 2. GetRange values
			kvs, err := store.GetRange(ctx, lo, hi)
			var gotKV []string
			if err == nil {
				for _, kv := range kvs {
					s, _ := keyvalue.DecodeTKey(kv.K)
					val, _, _ := dvid.DeserializeData(kv.V, true)
					gotKV = append(gotKV, s+"="+string(val))
				}
			}
			var wantKV []string
			for _, k := range want {
				wantKV = append(wantKV, k+"="+point[k])
			}
			if !errAt {
				cs.oracle(c, sigPrefix, "GetRange", tag, wantKV, gotKV, err)
			}
			// 3. HTTP keyrange (JSON)
			resp := Get(fmt.Sprintf("node/%s/%s/keyrange/%s/%s", n.uuid, cs.name, x.lo, x.hi))
			var hk []string
			jerr := json.Unmarshal(resp.Body, &hk)
			if !errAt {
				cs.oracle(c, sigPrefix, "HTTP keyrange", tag, want, hk, errIf(resp.Code != 200 || jerr != nil, resp.String()))
			}
			// 4. HTTP keyrangevalues json / tar / protobuf
			resp = Get(fmt.Sprintf("node/%s/%s/keyrangevalues/%s/%s?json=true", n.uuid, cs.name, x.lo, x.hi))
			if !errAt && len(want) > 0 {
				var m map[string]json.RawMessage
				jerr := json.Unmarshal(resp.Body, &m)
				var g []string
				for k, v := range m {
					g = append(g, k+"="+string(v))
				}
				sort.Strings(g)
				w2 := append([]string{}, wantKV...)
				sort.Strings(w2)
				cs.oracle(c, sigPrefix, "HTTP keyrangevalues?json", tag, w2, g, errIf(resp.Code != 200 || jerr != nil, resp.String()))
			}
			resp = Get(fmt.Sprintf("node/%s/%s/keyrangevalues/%s/%s?tar=true", n.uuid, cs.name, x.lo, x.hi))
			if !errAt {
				var g []string
				tr := tar.NewReader(bytes.NewReader(resp.Body))
				var terr error
				for {
					h, err := tr.Next()
					if err == io.EOF {
						break
					}
					if err != nil {
						terr = err
						break
					}
					b, _ := io.ReadAll(tr)
					g = append(g, h.Name+"="+string(b))
				}
				cs.oracle(c, sigPrefix, "HTTP keyrangevalues?tar", tag, wantKV, g, errIf(resp.Code != 200 || terr != nil, resp.String()))
			}
			resp = Get(fmt.Sprintf("node/%s/%s/keyrangevalues/%s/%s", n.uuid, cs.name, x.lo, x.hi))
			if !errAt {
				var pkv proto.KeyValues
				perr := pb.Unmarshal(resp.Body, &pkv)
				var g []string
				for _, kv := range pkv.Kvs {
					g = append(g, kv.Key+"="+string(kv.Value))
				}
				cs.oracle(c, sigPrefix, "HTTP keyrangevalues?protobuf", tag, wantKV, g, errIf(resp.Code != 200 || perr != nil, resp.String()))
			}
			c.Eval(fmt.Sprintf("%s|%s|%d", tag, absParents(d), len(rawSpec)), len(want) > 0 || kind != "nonempty")
		}
		// 5. HTTP keys (whole space) and keyvalues (explicit key list)
		resp := Get(fmt.Sprintf("node/%s/%s/keys", n.uuid, cs.name))
		var all []string
		json.Unmarshal(resp.Body, &all)
		var wantAll []string
		bad := false
		for _, k := range sorted {
			if v, ok := point[k]; ok {
				wantAll = append(wantAll, k)
				if v == "\x00ERR" {
					bad = true
				}
			}
		}
		if !bad {
			cs.oracle(c, sigPrefix, "HTTP keys", fmt.Sprintf("version=%d", n.v), wantAll, all, errIf(resp.Code != 200, resp.String()))
			body, _ := json.Marshal(sorted)
			resp = Do("GET", api(fmt.Sprintf("node/%s/%s/keyvalues?json=true", n.uuid, cs.name)), body)
			var m map[string]json.RawMessage
			json.Unmarshal(resp.Body, &m)
			var g, w []string
			for k, v := range m {
				// the explicit-key-list endpoint answers `{}` for a key that has no value (documented shape of the
				// response, not a listing); the histories only store numbers, so `{}` means "not found"
				if string(v) != "null" && string(v) != "{}" && len(v) > 0 {
					g = append(g, k+"="+string(v))
				}
			}
			for _, k := range wantAll {
				w = append(w, k+"="+point[k])
			}
			sort.Strings(g)
			sort.Strings(w)
			cs.oracle(c, sigPrefix, "HTTP keyvalues?json", fmt.Sprintf("version=%d", n.v), w, g, errIf(resp.Code != 200, resp.String()))
		}
	}
}

func errIf(b bool, s string) error {
	if b {
		return fmt.Errorf("%s", s)
	}
	return nil
}

func absParents(d *tdag) string {
	parts := make([]string, d.maxV()+d.base+1)
	for i := range parts {
		parts[i] = "_"
	}
	for _, n := range d.nodes {
		if len(n.parents) > 0 {
			var ps []string
			for _, p := range n.parents {
				ps = append(ps, fmt.Sprint(p+d.base))
			}
			parts[n.v+d.base] = strings.Join(ps, ",")
		}
	}
	return strings.Join(parts, ";")
}

func (cs *c05case) oracle(c *Ctx, sigPrefix, site, tag string, want, got []string, err error) {
	if err == nil && strings.Join(want, "\x01") == strings.Join(got, "\x01") {
		return
	}
	what := "range/listing result differs from the individual reads"
	shape := "content"
	if err != nil {
		shape = "error"
	} else if len(got) == len(want) {
		a, b := append([]string{}, got...), append([]string{}, want...)
		sort.Strings(a)
		sort.Strings(b)
		if strings.Join(a, "\x01") == strings.Join(b, "\x01") {
			shape = "order"
		}
	}
	c.Report("O", fmt.Sprintf("%s %s %s", sigPrefix, site, shape), what,
		fmt.Sprintf("%s %s\nwant (from point reads): %q\ngot: %q err=%v\nnodes: %s\nhistory:\n  %s", site, tag, want, got, err, cs.d.parentsSpec(), strings.Join(cs.hist, "\n  ")))
}

func runC05(c *Ctx) {
	c.Rule = "random put/delete histories over branched/merged DAGs built through the real API on Badger, keys with shared string prefixes; per version: whole-space, random, single-key, inverted and non-key-endpoint intervals; storage KeysInRange/GetRange, HTTP keyrange, keyrangevalues (json/tar/protobuf), keys, keyvalues, each compared with per-key GETs (oracle) and KeysInRange with the Lean mirror on the raw key dump; DeleteRange at leaves. non-trivial = interval hits at least one live key or is degenerate; distinct by (version, interval, DAG, store size)"
	OpenServer()
	defer CloseServer()
	r := c.Rng
	n, size := 80, 8
	if c.Thorough {
		n, size = 250, 10
	}
	for i := 0; i < n; i++ {
		if i > 0 && i%40 == 0 {
			CloseServer()
			OpenServer()
		}
		name := fmt.Sprintf("rk%d", i)
		cs := buildC05Case(r, 4+r.Intn(size-3), name, c05Keys, c)
		cs.check(r, c05Keys, c, "C05")
		cs.deleteRange(r, c05Keys, c)
	}
	// DeleteRange over exactly k x (batch size) live keys and its neighbours: the deletes are committed in batches
	c05BatchBoundaries(c)
	// the excluded point of the prefix-free hypothesis: keys containing NUL (the API accepts them)
	{
		keys := []string{"a", "b"}
		cs := buildC05Case(r, 4, "nul", keys, c)
		cs.nulCheck(keys, c)
	}
}

// c05BatchBoundaries: a parent version holds N keys; at its child DeleteRange removes an interval holding
// exactly M of them, M around multiples of the batch size; afterwards exactly those M read as deleted at the
// child, the rest and the parent are untouched, and listings agree with the point reads.
func c05BatchBoundaries(c *Ctx) {
	sizes := []int{999, 1000, 1001, 2000}
	if c.Thorough {
		sizes = append(sizes, 1, 1999, 2001, 3000)
	}
	for _, m := range sizes {
		root := NewRepo()
		name := fmt.Sprintf("bb%d", m)
		NewInstance(root, "keyvalue", name, nil)
		data, err := datastore.GetDataByUUIDName(dvid.UUID(root), dvid.InstanceName(name))
		if err != nil {
			c.Report("H", "C05 setup", "cannot get instance", err.Error())
			return
		}
		store, _ := datastore.GetOrderedKeyValueDB(data)
		_, v0, _ := datastore.MatchingUUID(root)
		ctx0 := datastore.NewVersionedCtx(data, v0)
		total := m + 7
		key := func(i int) string { return fmt.Sprintf("k%06d", i) }
		for i := 0; i < total; i++ {
			tk, _ := keyvalue.NewTKey(key(i))
			store.Put(ctx0, tk, []byte(fmt.Sprintf("v%d", i)))
		}
		Commit(root)
		child, _ := NewVersion(root)
		_, v1, _ := datastore.MatchingUUID(child)
		ctx1 := datastore.NewVersionedCtx(data, v1)
		lo, _ := keyvalue.NewTKey(key(3))
		hi, _ := keyvalue.NewTKey(key(3 + m - 1))
		derr := store.DeleteRange(ctx1, lo, hi)
		c.Eval(fmt.Sprintf("DeleteRange over %d live keys", m), true)
		c.Count("DeleteRange at a batch boundary size")
		if derr != nil {
			c.Report("O", "C05 DeleteRange error", "DeleteRange failed on readable keys", fmt.Sprintf("%d keys: %v", m, derr))
			continue
		}
		survivors, wrong := 0, ""
		for i := 0; i < total; i++ {
			tk, _ := keyvalue.NewTKey(key(i))
			v, _ := store.Get(ctx1, tk)
			inside := i >= 3 && i < 3+m
			if inside && v != nil {
				survivors++
				if wrong == "" {
					wrong = fmt.Sprintf("key %s still reads %q at the child", key(i), v)
				}
			}
			if !inside && string(v) != fmt.Sprintf("v%d", i) {
				wrong = fmt.Sprintf("key %s outside the interval reads %q at the child", key(i), v)
			}
			if p, _ := store.Get(ctx0, tk); string(p) != fmt.Sprintf("v%d", i) {
				wrong = fmt.Sprintf("key %s reads %q at the parent", key(i), p)
			}
		}
		keys, _ := store.KeysInRange(ctx1, lo, hi)
		if survivors > 0 || wrong != "" || len(keys) != 0 {
			c.Report("O", "C05 DeleteRange key-survives", "a key inside a deleted range is still readable at that version",
				fmt.Sprintf("parent holds %d keys k000000..; DeleteRange [%s,%s] (%d live keys) at its child: %d keys of the interval survive, KeysInRange lists %d; %s", total, key(3), key(3+m-1), m, survivors, len(keys), wrong))
		}
	}
}

// nulCheck: point reads at the keys "a" and "a\x00b" must not alias
func (cs *c05case) nulCheck(keys []string, c *Ctx) {
	n := cs.d.nodes[len(cs.d.nodes)-1]
	if n.locked {
		if ch := cs.d.child(n); ch != nil {
			n = ch
		}
	}
	base := fmt.Sprintf("node/%s/%s/key/", n.uuid, cs.name)
	Post(base+"a", []byte("1"))
	if resp := Post(base+"a%00b", []byte("2")); !resp.OK() {
		c.Count("nul-key.rejected") // the API refuses the key: nothing can alias
	}
	ga := Get(base + "a")
	if string(ga.Body) != "1" {
		c.Report("O", "C05 nul-key-alias read", "GET of key \"a\" returns the value of key \"a\\x00b\" (datum keys with an embedded NUL are prefix-related)",
			"POST key/a=1 ; POST key/a%00b=2 ; GET key/a -> "+ga.String())
	}
	Delete(base + "a%00b")
	ga = Get(base + "a")
	if string(ga.Body) != "1" {
		c.Report("O", "C05 nul-key-alias delete", "DELETE of key \"a\\x00b\" hides key \"a\"",
			"POST key/a=1 ; POST key/a%00b=2 ; DELETE key/a%00b ; GET key/a -> "+ga.String())
	}
	c.Eval("nul-alias", true)
}

// deleteRange: at an open leaf delete a key interval through the storage API; the keys in the interval are
// absent there, everything else (other keys at the leaf, all other versions) reads as before.
func (cs *c05case) deleteRange(r *Rng, keys []string, c *Ctx) {
	d := cs.d
	var open []*tnode
	for _, n := range d.nodes {
		if !n.locked {
			open = append(open, n)
		}
	}
	if len(open) == 0 {
		last := d.nodes[len(d.nodes)-1]
		if ch := d.child(last); ch != nil {
			open = append(open, ch)
		} else {
			return
		}
	}
	leaf := open[r.Intn(len(open))]
	sorted := append([]string{}, keys...)
	sort.Strings(sorted)
	snap := func() map[string]string {
		m := map[string]string{}
		for _, n := range d.nodes {
			for _, k := range sorted {
				v, ok, code := cs.pointRead(n, k)
				if ok {
					m[fmt.Sprintf("%d/%s", n.v, k)] = v
				} else if code != 404 {
					m[fmt.Sprintf("%d/%s", n.v, k)] = "ERR"
				}
			}
		}
		return m
	}
	before := snap()
	a, b := sorted[r.Intn(len(sorted))], sorted[r.Intn(len(sorted))]
	if a > b {
		a, b = b, a
	}
	store, _ := datastore.GetOrderedKeyValueDB(cs.data)
	ctx := datastore.NewVersionedCtx(cs.data, dvid.VersionID(leaf.v+d.base))
	lo, _ := keyvalue.NewTKey(a)
	hi, _ := keyvalue.NewTKey(b)
	if err := store.DeleteRange(ctx, lo, hi); err != nil {
		// legitimate only when some key of the interval is itself unreadable (conflict) at this version
		conflicted := false
		for _, k := range sorted {
			if k >= a && k <= b && before[fmt.Sprintf("%d/%s", leaf.v, k)] == "ERR" {
				conflicted = true
			}
		}
		if !conflicted {
			c.Report("O", "C05 DeleteRange error", "DeleteRange failed although every key of the interval is readable", err.Error()+"\n"+strings.Join(cs.hist, "\n"))
		}
		c.Count("op.deleterange.conflict-error")
		return
	}
	after := snap()
	desc := d.descendants(leaf.v)
	for _, n := range d.nodes {
		for _, k := range sorted {
			id := fmt.Sprintf("%d/%s", n.v, k)
			inIv := k >= a && k <= b
			if n.v == leaf.v && inIv {
				if _, ok := after[id]; ok && before[id] != "ERR" {
					c.Report("O", "C05 DeleteRange key-survives", "a key inside a deleted range is still readable at that version",
						fmt.Sprintf("DeleteRange [%q,%q] at v%d; key %q still reads %q\n%s", a, b, leaf.v, k, after[id], strings.Join(cs.hist, "\n")))
				}
			} else if !desc[n.v] {
				if before[id] != after[id] {
					c.Report("O", "C05 DeleteRange collateral", "deleting a key range changed a key outside the range or another version",
						fmt.Sprintf("DeleteRange [%q,%q] at v%d; %s: before %q after %q\n%s", a, b, leaf.v, id, before[id], after[id], strings.Join(cs.hist, "\n")))
				}
			}
		}
	}
	c.Eval(fmt.Sprintf("delrange %s %s %d %s", a, b, leaf.v, d.parentsSpec()), true)
	c.Count("op.deleterange")
}

func (d *tdag) descendants(v int) map[int]bool {
	out := map[int]bool{}
	for _, n := range d.nodes {
		if n.v != v && d.ancestors(n.v)[v] {
			out[n.v] = true
		}
	}
	return out
}
