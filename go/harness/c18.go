package main

import (
	"bufio"
	"bytes"
	"encoding/binary"
	"encoding/json"
	"fmt"
	"io"
	"sort"
	"strings"
	"testing/iotest"

	"github.com/janelia-flyem/dvid/datatype/common/labels"
	"github.com/janelia-flyem/dvid/datatype/roi"
	"github.com/janelia-flyem/dvid/dvid"
)

func init() { register("C18", runC18) }

var i32Bounds = []int64{-2147483648, -2147483647, -65537, -65536, -257, -256, -255, -2, -1, 0, 1, 2, 255, 256, 65535, 65536, 2147483646, 2147483647}

func genI32(r *Rng) int32 {
	switch r.Intn(4) {
	case 0:
		return int32(i32Bounds[r.Intn(len(i32Bounds))])
	case 1:
		return int32(r.Intn(600) - 300)
	default:
		return int32(r.U64())
	}
}

var mag20Bounds = []int32{-1048575, -1048574, -524288, -2, -1, 0, 1, 2, 524287, 524288, 1048574, 1048575}

func genMag20(r *Rng) int32 {
	if r.Intn(3) == 0 {
		return mag20Bounds[r.Intn(len(mag20Bounds))]
	}
	return int32(r.Intn(2097151)) - 1048575
}

type run struct{ x, y, z, n int32 }

func runsStr(rs []run) string {
	if len(rs) == 0 {
		return "-"
	}
	var p []string
	for _, r := range rs {
		p = append(p, fmt.Sprintf("%d,%d,%d,%d", r.x, r.y, r.z, r.n))
	}
	return strings.Join(p, ";")
}

func toRLEs(rs []run) dvid.RLEs {
	out := make(dvid.RLEs, 0, len(rs))
	for _, r := range rs {
		out = append(out, dvid.NewRLE(dvid.Point3d{r.x, r.y, r.z}, r.n))
	}
	return out
}

func fromRLEs(rs dvid.RLEs) []run {
	var out []run
	for _, r := range rs {
		s := r.StartPt()
		out = append(out, run{s[0], s[1], s[2], r.Length()})
	}
	return out
}

// genRuns: non-overlapping runs with positive length: a few (y,z) rows, per row disjoint x intervals,
// often directly adjacent, single-voxel runs, negative coordinates, then shuffled.
func genRuns(r *Rng, c *Ctx, maxRuns int) []run {
	var rs []run
	rows := 1 + r.Intn(4)
	for i := 0; i < rows && len(rs) < maxRuns; i++ {
		y, z := int32(r.Intn(9)-4), int32(r.Intn(9)-4)
		if r.Chance(0.15) {
			y, z = int32(r.Intn(200)-100), int32(r.Intn(200)-100)
		}
		dup := false
		for _, q := range rs {
			if q.y == y && q.z == z {
				dup = true
			}
		}
		if dup {
			continue
		}
		x := int32(r.Intn(80) - 60)
		k := 1 + r.Intn(6)
		for j := 0; j < k && len(rs) < maxRuns; j++ {
			n := int32(1 + r.Intn(12))
			if r.Chance(0.25) {
				n = 1
				c.Count("run.single-voxel")
			}
			if r.Chance(0.15) {
				n = int32(20 + r.Intn(70))
				c.Count("run.long")
			}
			rs = append(rs, run{x, y, z, n})
			x += n
			if r.Chance(0.5) {
				c.Count("run.adjacent-next")
			} else {
				x += int32(1 + r.Intn(5))
			}
		}
	}
	for i := len(rs) - 1; i > 0; i-- {
		j := r.Intn(i + 1)
		rs[i], rs[j] = rs[j], rs[i]
	}
	return rs
}

func voxSet(rs []run) map[[3]int32]int {
	m := map[[3]int32]int{}
	for _, r := range rs {
		for i := int32(0); i < r.n; i++ {
			m[[3]int32{r.x + i, r.y, r.z}]++
		}
	}
	return m
}

func sameVox(a, b map[[3]int32]int) bool {
	if len(a) != len(b) {
		return false
	}
	for k := range a {
		if _, ok := b[k]; !ok {
			return false
		}
	}
	return true
}

func floorDiv(a, b int32) int32 {
	q := a / b
	if (a%b != 0) && ((a < 0) != (b < 0)) {
		q--
	}
	return q
}

func runC18(c *Ctx) {
	c.Rule = "int32 coordinates incl. every sign/byte boundary for key codec and order (pairs); |c|<2^20 for the packed index; run sets of non-overlapping positive-length runs (adjacent, single voxel, long, negative, shuffled) x block sizes x subset splits x optional bounds incl. nil; ROI span sets with point queries and masks through HTTP. non-trivial = negative or boundary coordinate, adjacent/split runs, non-empty ROI; distinct by op text"
	r := c.Rng
	n := 4000
	if c.Thorough {
		n = 80000
	}
	// ---- key codec + order + packed index ----
	var prev *[3]int32
	for i := 0; i < n; i++ {
		p := [3]int32{genI32(r), genI32(r), genI32(r)}
		if prev != nil && r.Chance(0.5) { // share components so that deeper comparisons are reached
			p = *prev
			p[r.Intn(3)] = genI32(r)
		}
		b := dvid.Point3d{p[0], p[1], p[2]}.ToZYXBytes()
		idx := dvid.IndexZYX{p[0], p[1], p[2]}
		if !bytes.Equal(b, idx.Bytes()) {
			c.Report("O", "C18 IndexZYX.Bytes!=ToZYXBytes", "two key encoders disagree", fmt.Sprint(p))
		}
		op := fmt.Sprintf("zyx.enc %d %d %d", p[0], p[1], p[2])
		c.AskCmp("dvid.Point3d.ToZYXBytes", op, "ok "+hx(b))
		var q dvid.Point3d
		err := q.FromZYXBytes(b)
		c.AskCmp("dvid.Point3d.FromZYXBytes", "zyx.dec "+hx(b), fmt.Sprintf("ok %d %d %d", q[0], q[1], q[2]))
		if err != nil || q != (dvid.Point3d{p[0], p[1], p[2]}) {
			c.Report("O", "C18 zyx-roundtrip", "block-coordinate key does not decode to its coordinate", op)
		}
		if prev != nil {
			pb := dvid.Point3d{prev[0], prev[1], prev[2]}.ToZYXBytes()
			want := 0
			for _, ax := range []int{2, 1, 0} {
				if prev[ax] != p[ax] {
					if prev[ax] < p[ax] {
						want = -1
					} else {
						want = 1
					}
					break
				}
			}
			if sign(bytes.Compare(pb, b)) != want {
				c.Report("O", "C18 zyx-order", "block-coordinate keys do not sort in (z,y,x) order", fmt.Sprintf("a=%v b=%v", *prev, p))
			}
		}
		c.Eval(op, p[0] < 0 || p[1] < 0 || p[2] < 0)
		pp := p
		prev = &pp
		// packed index over its documented range
		m := [3]int32{genMag20(r), genMag20(r), genMag20(r)}
		enc := labels.EncodeBlockIndex(m[0], m[1], m[2])
		c.AskCmp("labels.EncodeBlockIndex", fmt.Sprintf("bidx.enc %d %d %d", m[0], m[1], m[2]), fmt.Sprintf("ok %d", enc))
		x, y, z := labels.DecodeBlockIndex(enc)
		c.AskCmp("labels.DecodeBlockIndex", fmt.Sprintf("bidx.dec %d", enc), fmt.Sprintf("ok %d %d %d", x, y, z))
		if x != m[0] || y != m[1] || z != m[2] {
			c.Report("O", "C18 blockindex-roundtrip", "packed block index does not round-trip inside its documented range", fmt.Sprint(m))
		}
		s := labels.BlockIndexToIZYXString(enc)
		if sx, sy, sz, err := s.Unpack(); err != nil || sx != m[0] || sy != m[1] || sz != m[2] {
			c.Report("O", "C18 BlockIndexToIZYXString", "packed block index to IZYX string disagrees", fmt.Sprint(m))
		}
		c.Evals++
	}
	// ---- runs ----
	nr := 600
	if c.Thorough {
		nr = 12000
	}
	for i := 0; i < nr; i++ {
		rs := genRuns(r, c, 18)
		vs := voxSet(rs)
		rstr := runsStr(rs)
		// Normalize
		norm := fromRLEs(toRLEs(rs).Normalize())
		c.AskCmp("dvid.RLEs.Normalize", "rle.norm "+rstr, "ok "+runsStr(norm))
		if !sameVox(vs, voxSet(norm)) {
			c.Report("O", "C18 normalize-voxels", "Normalize changed the voxel set", rstr+"\n-> "+runsStr(norm))
		}
		for j := 1; j < len(norm); j++ {
			a, b := norm[j-1], norm[j]
			if a.y == b.y && a.z == b.z && a.x+a.n == b.x {
				c.Report("O", "C18 normalize-adjacent", "Normalize left two directly adjacent runs", rstr)
			}
		}
		// Partition
		bs := []int32{4, 8, 16, 32}[r.Intn(4)]
		bsz := dvid.Point3d{bs, []int32{4, 8, 32}[r.Intn(3)], []int32{4, 8, 32}[r.Intn(3)]}
		brles, err := toRLEs(rs).Partition(bsz)
		if err != nil {
			c.Report("O", "C18 partition-error", err.Error(), rstr)
		} else {
			// canonical: model emits in input order; the Go result is a map of per-block lists in emission order.
			// Compare as multisets of (block, fragment).
			var got []string
			total := map[[3]int32]int{}
			for izyx, frs := range brles {
				cx, cy, cz, _ := izyx.Unpack()
				for _, f := range fromRLEs(frs) {
					got = append(got, fmt.Sprintf("%d,%d,%d:%d,%d,%d,%d", cx, cy, cz, f.x, f.y, f.z, f.n))
					for k := int32(0); k < f.n; k++ {
						total[[3]int32{f.x + k, f.y, f.z}]++
						if floorDiv(f.x+k, bsz[0]) != cx || floorDiv(f.y, bsz[1]) != cy || floorDiv(f.z, bsz[2]) != cz {
							c.Report("O", "C18 partition-wrong-block", "a partition fragment has a voxel outside its block", rstr+fmt.Sprintf(" bs=%v", bsz))
						}
					}
				}
			}
			sort.Strings(got)
			model := c.Model.Ask(fmt.Sprintf("rle.part %d %d %d %s", bsz[0], bsz[1], bsz[2], rstr))
			ms := strings.Split(strings.TrimPrefix(model, "ok "), ";")
			if model == "ok -" {
				ms = nil
			}
			sort.Strings(ms)
			c.Cmp("dvid.RLEs.Partition", fmt.Sprintf("rle.part %d %d %d %s", bsz[0], bsz[1], bsz[2], rstr), strings.Join(got, ";"), strings.Join(ms, ";"))
			if !sameVox(vs, total) {
				c.Report("O", "C18 partition-voxels", "Partition changed the voxel set", rstr+fmt.Sprintf(" bs=%v", bsz))
			}
			for _, cnt := range total {
				if cnt != 1 {
					c.Report("O", "C18 partition-duplicate", "Partition emitted a voxel twice", rstr)
					break
				}
			}
		}
		// Split: a subset made of sub-intervals of the runs
		var sub []run
		for _, q := range rs {
			switch r.Intn(4) {
			case 0:
				sub = append(sub, q)
			case 1:
				a := int32(r.Intn(int(q.n)))
				l := int32(1 + r.Intn(int(q.n-a)))
				sub = append(sub, run{q.x + a, q.y, q.z, l})
			}
		}
		for k := len(sub) - 1; k > 0; k-- {
			j := r.Intn(k + 1)
			sub[k], sub[j] = sub[j], sub[k]
		}
		rem, err := toRLEs(rs).Split(toRLEs(sub))
		impl := "err"
		if err == nil {
			impl = "ok " + runsStr(fromRLEs(rem))
		}
		c.AskCmp("dvid.RLEs.Split", "rle.split "+rstr+" "+runsStr(sub), impl)
		if err != nil {
			c.Report("O", "C18 split-error", "Split of a genuine subset failed", rstr+" minus "+runsStr(sub)+": "+err.Error())
		} else {
			want := voxSet(rs)
			for k := range voxSet(sub) {
				delete(want, k)
			}
			if !sameVox(want, voxSet(fromRLEs(rem))) {
				c.Report("O", "C18 split-voxels", "Split did not leave exactly the complement of the subset", rstr+" minus "+runsStr(sub)+" -> "+runsStr(fromRLEs(rem)))
			}
		}
		// FitToBounds
		var ob *dvid.OptionalBounds
		bstr := "nil"
		var lim [6]*int32
		if !r.Chance(0.12) {
			ob = new(dvid.OptionalBounds)
			parts := make([]string, 6)
			for k := 0; k < 6; k++ {
				parts[k] = "_"
				if r.Chance(0.5) {
					v := int32(r.Intn(60) - 40)
					if k >= 2 {
						v = int32(r.Intn(9) - 4)
					}
					lim[k] = &v
					parts[k] = fmt.Sprint(v)
					switch k {
					case 0:
						ob.SetMinX(v)
					case 1:
						ob.SetMaxX(v)
					case 2:
						ob.SetMinY(v)
					case 3:
						ob.SetMaxY(v)
					case 4:
						ob.SetMinZ(v)
					case 5:
						ob.SetMaxZ(v)
					}
				}
			}
			bstr = strings.Join(parts, ",")
		} else {
			c.Count("bounds.nil")
		}
		fit := fromRLEs(toRLEs(rs).FitToBounds(ob))
		c.AskCmp("dvid.RLEs.FitToBounds", "rle.fit "+bstr+" "+rstr, "ok "+runsStr(fit))
		want := map[[3]int32]int{}
		for k := range vs {
			in := true
			for a := 0; a < 3; a++ {
				if lim[2*a] != nil && k[a] < *lim[2*a] {
					in = false
				}
				if lim[2*a+1] != nil && k[a] > *lim[2*a+1] {
					in = false
				}
			}
			if in {
				want[k] = 1
			}
		}
		if !sameVox(want, voxSet(fit)) {
			sig := "C18 fitToBounds-voxels"
			if ob == nil {
				sig = "C18 fitToBounds-nil-drops-runs"
			}
			c.Report("O", sig, "FitToBounds does not return exactly the voxels inside the bounds", "bounds="+bstr+" runs="+rstr+" -> "+runsStr(fit))
		}
		// binary round trip
		mb, _ := toRLEs(rs).MarshalBinary()
		c.AskCmp("dvid.RLEs.MarshalBinary", "rle.marshal "+rstr, "ok "+hx(mb))
		var back dvid.RLEs
		if err := back.UnmarshalBinary(mb); err != nil || runsStr(fromRLEs(back)) != rstr {
			c.Report("O", "C18 marshal-roundtrip", "binary (de)serialisation of runs does not round-trip", rstr)
		}
		c.AskCmp("dvid.RLEs.UnmarshalBinary", "rle.unmarshal "+hx(mb), "ok "+runsStr(fromRLEs(back)))
		c.Eval("runs "+rstr+"|"+bstr, true)
	}
	c18Streams(c)
	c18Roi(c)
}

// c18Streams: the streaming decoder of sparse volumes (dvid.ReadRLEs, what a POSTed split volume goes through)
// on streams of a few to several hundred runs, delivered by readers that hand the bytes out in pieces: whole,
// buffered (4 KiB refills), half reads, one byte at a time, data together with EOF.  The decoded runs must be the
// encoded ones whatever the chunking.
func c18Streams(c *Ctx) {
	r := c.Rng.Fork()
	cases := 12
	if c.Thorough {
		cases = 80
	}
	for k := 0; k < cases; k++ {
		n := []int{1, 3, 17, 255, 256, 257, 300, 700}[r.Intn(8)]
		rs := make(dvid.RLEs, n)
		for i := range rs {
			rs[i] = dvid.NewRLE(dvid.Point3d{int32(r.Intn(4000) - 2000), int32(r.Intn(4000) - 2000), int32(r.Intn(4000) - 2000)}, int32(1+r.Intn(500)))
		}
		payload, _ := rs.MarshalBinary()
		var buf bytes.Buffer
		buf.Write([]byte{0, 3, 0, 0, 0, 0, 0, 0})
		binary.Write(&buf, binary.LittleEndian, uint32(n))
		buf.Write(payload)
		stream := buf.Bytes()
		want := runsStr(fromRLEs(rs))
		readers := map[string]func() io.Reader{
			"bytes.Reader":      func() io.Reader { return bytes.NewReader(stream) },
			"bufio 4096":        func() io.Reader { return bufio.NewReaderSize(iotest.OneByteReader(bytes.NewReader(stream)), 16) },
			"bufio over chunks": func() io.Reader { return bufio.NewReader(bytes.NewReader(stream)) },
			"half reads":        func() io.Reader { return iotest.HalfReader(bytes.NewReader(stream)) },
			"one byte":          func() io.Reader { return iotest.OneByteReader(bytes.NewReader(stream)) },
			"data with EOF":     func() io.Reader { return iotest.DataErrReader(bytes.NewReader(stream)) },
			"pipe 4k+1":         func() io.Reader { return &chunkReader{b: stream, n: 4097} },
			"pipe 7":            func() io.Reader { return &chunkReader{b: stream, n: 7} },
		}
		var names []string
		for nm := range readers {
			names = append(names, nm)
		}
		sort.Strings(names)
		for _, nm := range names {
			got, err := dvid.ReadRLEs(readers[nm]())
			c.Eval(fmt.Sprintf("stream %d runs via %s", n, nm), nm != "bytes.Reader")
			c.Count("rle-stream " + nm)
			if err != nil || runsStr(fromRLEs(got)) != want {
				first := -1
				for i := range rs {
					if err != nil || i >= len(got) || got[i] != rs[i] {
						first = i
						break
					}
				}
				c.Report("O", "C18 stream-decode-differs", "a sparse volume decoded from a stream delivered in pieces is not the encoded one",
					fmt.Sprintf("%d runs, reader: %s, error: %v, first differing run: %d\nstream (hex, first 96 bytes): %s", n, nm, err, first, hx(stream[:min(96, len(stream))])))
				return
			}
		}
	}
}

// chunkReader hands out at most n bytes per Read
type chunkReader struct {
	b []byte
	n int
}

func (c *chunkReader) Read(p []byte) (int, error) {
	if len(c.b) == 0 {
		return 0, io.EOF
	}
	k := c.n
	if k > len(p) {
		k = len(p)
	}
	if k > len(c.b) {
		k = len(c.b)
	}
	copy(p, c.b[:k])
	c.b = c.b[k:]
	return k, nil
}

// c18Roi: ROI span sets through the real API: POST roi, POST ptquery, GET mask, VoxelBoundsInside.
func c18Roi(c *Ctx) {
	OpenServer()
	defer CloseServer()
	r := c.Rng.Fork()
	uuid := NewRepo()
	n := 25
	if c.Thorough {
		n = 300
	}
	for i := 0; i < n; i++ {
		name := fmt.Sprintf("roi%d", i)
		bs := []int{8, 16, 32}[r.Intn(3)]
		if resp := NewInstance(uuid, "roi", name, map[string]string{"BlockSize": fmt.Sprintf("%d,%d,%d", bs, bs, bs)}); !resp.OK() {
			c.Report("H", "C18 roi-create", resp.String(), name)
			continue
		}
		// sorted, disjoint spans [z,y,x0,x1] in block coordinates; negative coordinates half of the time
		neg := r.Bool()
		var spans [][4]int32
		for z := int32(0); z < 3; z++ {
			for y := int32(0); y < 3; y++ {
				if r.Chance(0.45) {
					continue
				}
				x := int32(r.Intn(3))
				for k := 0; k < 1+r.Intn(2); k++ {
					l := int32(r.Intn(3))
					sz, sy, sx0 := z, y, x
					if neg {
						sz, sy, sx0 = z-2, y-1, x-3
					}
					spans = append(spans, [4]int32{sz, sy, sx0, sx0 + l})
					x += l + 2
				}
			}
		}
		sort.Slice(spans, func(a, b int) bool {
			for k := 0; k < 3; k++ {
				if spans[a][k] != spans[b][k] {
					return spans[a][k] < spans[b][k]
				}
			}
			return false
		})
		body, _ := json.Marshal(spans)
		if resp := Post(fmt.Sprintf("node/%s/%s/roi", uuid, name), body); !resp.OK() {
			c.Report("H", "C18 roi-post", resp.String(), string(body))
			continue
		}
		var sp []string
		for _, s := range spans {
			sp = append(sp, fmt.Sprintf("%d,%d,%d,%d", s[0], s[1], s[2], s[3]))
		}
		spstr := "-"
		if len(sp) > 0 {
			spstr = strings.Join(sp, ";")
		}
		inRoi := func(bx, by, bz int32) bool {
			for _, s := range spans {
				if s[0] == bz && s[1] == by && s[2] <= bx && bx <= s[3] {
					return true
				}
			}
			return false
		}
		// point query: voxel points in and around the ROI
		var pts [][3]int32
		for k := 0; k < 40; k++ {
			lo := int32(-1)
			if neg {
				lo = -4
			}
			pts = append(pts, [3]int32{(lo+int32(r.Intn(9)))*int32(bs) + int32(r.Intn(bs)), (lo+int32(r.Intn(6)))*int32(bs) + int32(r.Intn(bs)), (lo+int32(r.Intn(6)))*int32(bs) + int32(r.Intn(bs))})
		}
		pbody, _ := json.Marshal(pts)
		resp := Post(fmt.Sprintf("node/%s/%s/ptquery", uuid, name), pbody)
		var got []bool
		if err := json.Unmarshal(resp.Body, &got); err != nil || len(got) != len(pts) {
			c.Report("O", "C18 ptquery-bad-response", "ptquery did not answer one boolean per point", resp.String())
		} else {
			// model: the block coordinates sorted by (z,y,x), as the handler does, then scattered back
			type bp struct {
				b   [3]int32
				idx int
			}
			var bps []bp
			for k, p := range pts {
				bps = append(bps, bp{[3]int32{floorDiv(p[0], int32(bs)), floorDiv(p[1], int32(bs)), floorDiv(p[2], int32(bs))}, k})
			}
			sort.SliceStable(bps, func(a, b int) bool {
				for _, ax := range []int{2, 1, 0} {
					if bps[a].b[ax] != bps[b].b[ax] {
						return bps[a].b[ax] < bps[b].b[ax]
					}
				}
				return false
			})
			var ps []string
			for _, q := range bps {
				ps = append(ps, fmt.Sprintf("%d,%d,%d", q.b[0], q.b[1], q.b[2]))
			}
			model := strings.TrimPrefix(c.Model.Ask("roi.pq "+spstr+" "+strings.Join(ps, ";")), "ok ")
			implSorted := make([]byte, len(bps))
			for k, q := range bps {
				implSorted[k] = '0'
				if got[q.idx] {
					implSorted[k] = '1'
				}
			}
			c.Cmp("roi.PointQuery/seekSpan", "roi.pq "+spstr+" "+strings.Join(ps, ";"), string(implSorted), model)
			for k, p := range pts {
				want := inRoi(floorDiv(p[0], int32(bs)), floorDiv(p[1], int32(bs)), floorDiv(p[2], int32(bs)))
				if got[k] != want {
					c.Report("O", "C18 ptquery-membership", "point query disagrees with the ROI's spans", fmt.Sprintf("spans=%s blocksize=%d point=%v got=%v want=%v", spstr, bs, p, got[k], want))
				}
			}
		}
		// mask: a box around the ROI (also at negative offsets when the ROI is there)
		off := [3]int32{int32(r.Intn(bs)), int32(r.Intn(bs)), int32(r.Intn(bs))}
		if neg {
			off = [3]int32{-3*int32(bs) + int32(r.Intn(bs)), -int32(bs) - int32(r.Intn(bs)), -2*int32(bs) + int32(r.Intn(bs))}
		}
		size := [3]int32{int32(bs)*3 + int32(r.Intn(bs)), int32(bs)*2 + int32(r.Intn(bs)), int32(bs)*2 + int32(r.Intn(bs))}
		resp = Get(fmt.Sprintf("node/%s/%s/mask/0_1_2/%d_%d_%d/%d_%d_%d", uuid, name, size[0], size[1], size[2], off[0], off[1], off[2]))
		if resp.Code != 200 || len(resp.Body) != int(size[0]*size[1]*size[2]) {
			c.Report("O", "C18 mask-bad-response", "mask request failed", resp.String())
		} else {
			bad := 0
			var first string
			for z := int32(0); z < size[2]; z++ {
				for y := int32(0); y < size[1]; y++ {
					for x := int32(0); x < size[0]; x++ {
						want := inRoi(floorDiv(off[0]+x, int32(bs)), floorDiv(off[1]+y, int32(bs)), floorDiv(off[2]+z, int32(bs)))
						g := resp.Body[z*size[0]*size[1]+y*size[0]+x] == 1
						if g != want {
							if bad == 0 {
								first = fmt.Sprintf("voxel (%d,%d,%d): mask=%v spans say %v", off[0]+x, off[1]+y, off[2]+z, g, want)
							}
							bad++
						}
					}
				}
			}
			if bad > 0 {
				sig := "C18 mask-membership"
				if off[0] < 0 || off[1] < 0 || off[2] < 0 {
					sig = "C18 mask-membership negative-offset"
				}
				c.Report("O", sig, "ROI mask disagrees with the ROI's spans", fmt.Sprintf("spans=%s blocksize=%d offset=%v size=%v: %d voxels differ; first %s", spstr, bs, off, size, bad, first))
			}
		}
		// VoxelBoundsInside on random boxes
		var dsp []dvid.Span
		for _, s := range spans {
			dsp = append(dsp, dvid.Span{s[0], s[1], s[2], s[3]})
		}
		for k := 0; k < 10; k++ {
			mn := dvid.Point3d{int32(r.Intn(6*bs)) - int32(3*bs), int32(r.Intn(4*bs)) - int32(bs), int32(r.Intn(4*bs)) - int32(2*bs)}
			mx := dvid.Point3d{mn[0] + int32(r.Intn(2*bs)), mn[1] + int32(r.Intn(2*bs)), mn[2] + int32(r.Intn(2*bs))}
			in, _ := roi.VoxelBoundsInside(dvid.Extents3d{MinPoint: mn, MaxPoint: mx}, dvid.Point3d{int32(bs), int32(bs), int32(bs)}, dsp)
			want := false
			b0 := [3]int32{floorDiv(mn[0], int32(bs)), floorDiv(mn[1], int32(bs)), floorDiv(mn[2], int32(bs))}
			b1 := [3]int32{floorDiv(mx[0], int32(bs)), floorDiv(mx[1], int32(bs)), floorDiv(mx[2], int32(bs))}
			for bz := b0[2]; bz <= b1[2]; bz++ {
				for by := b0[1]; by <= b1[1]; by++ {
					for bx := b0[0]; bx <= b1[0]; bx++ {
						if inRoi(bx, by, bz) {
							want = true
						}
					}
				}
			}
			c.AskCmp("roi.VoxelBoundsInside", fmt.Sprintf("roi.inside %d,%d,%d %d,%d,%d %s", b0[0], b0[1], b0[2], b1[0], b1[1], b1[2], spstr), "ok "+b01(in))
			if in != want {
				c.Report("O", "C18 VoxelBoundsInside", "box/ROI intersection test disagrees with the spans", fmt.Sprintf("spans=%s box=%v..%v got=%v", spstr, mn, mx, in))
			}
		}
		c.Eval("roi "+spstr+fmt.Sprint(off, size), len(spans) > 0)
		c.Count(fmt.Sprintf("roi.spans.%d", len(spans)))
		if neg {
			c.Count("roi.negative")
		}
	}
}
