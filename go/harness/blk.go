package main

import (
	"bytes"
	"encoding/binary"
	"encoding/hex"
	"fmt"
	"sort"
	"strconv"
	"strings"

	"github.com/janelia-flyem/dvid/datatype/common/labels"
	"github.com/janelia-flyem/dvid/dvid"
)

// Shared pieces for the compressed-block properties (C09, C10): label-array generators aimed at the codec's
// data-dependent branches, the naive []uint64 reference, and the line-protocol form of a Block.

type vol struct {
	sx, sy, sz int
	a          []uint64
}

func (v *vol) bytes() []byte {
	b := make([]byte, len(v.a)*8)
	for i, l := range v.a {
		binary.LittleEndian.PutUint64(b[i*8:], l)
	}
	return b
}

func (v *vol) size() dvid.Point3d { return dvid.Point3d{int32(v.sx), int32(v.sy), int32(v.sz)} }

func volFromBytes(b []byte, size dvid.Point3d) *vol {
	v := &vol{int(size[0]), int(size[1]), int(size[2]), make([]uint64, len(b)/8)}
	for i := range v.a {
		v.a[i] = binary.LittleEndian.Uint64(b[i*8:])
	}
	return v
}

func fnvLabels(a []uint64) uint64 {
	h := uint64(14695981039346656037)
	for _, l := range a {
		for i := 0; i < 8; i++ {
			h = (h ^ ((l >> (8 * uint(i))) & 255)) * 1099511628211
		}
	}
	return h
}

var sbCounts = []int{1, 1, 1, 2, 2, 3, 3, 4, 5, 7, 8, 9, 15, 16, 17, 31, 32, 33, 63, 64, 65, 127, 128, 129, 255, 256, 257, 511, 512}

var labelEdges = []uint64{0, 1, 2, 255, 256, 65535, 65536, 1 << 32, 1<<32 + 1, 1<<63 - 1, 1 << 63, 1<<64 - 2, 1<<64 - 1}

func genPool(r *Rng, n int) []uint64 {
	seen := map[uint64]bool{}
	var pool []uint64
	for len(pool) < n {
		var l uint64
		switch r.Intn(6) {
		case 0:
			l = labelEdges[r.Intn(len(labelEdges))]
		case 1:
			l = r.U64()
		default:
			l = uint64(r.Intn(3*n + 4))
		}
		if !seen[l] {
			seen[l] = true
			pool = append(pool, l)
		}
	}
	return pool
}

var blockDims = []int{16, 16, 16, 24, 32, 32, 40, 48, 64}

func genDims(r *Rng, thorough bool) (int, int, int) {
	pick := func() int {
		d := blockDims[r.Intn(len(blockDims))]
		if !thorough && d > 32 && r.Chance(0.7) {
			d = 16
		}
		return d
	}
	if r.Chance(0.5) {
		d := pick()
		return d, d, d
	}
	return pick(), pick(), pick()
}

// fillSB writes one 8x8x8 sub-block using exactly n distinct labels drawn from pool.
func fillSB(r *Rng, v *vol, bx, by, bz int, ls []uint64) {
	n := len(ls)
	perm := make([]int, 512)
	for i := range perm {
		perm[i] = i
	}
	for i := 511; i > 0; i-- {
		j := r.Intn(i + 1)
		perm[i], perm[j] = perm[j], perm[i]
	}
	runny := r.Chance(0.5)
	cur := 0
	for i := 0; i < 512; i++ {
		var k int
		if runny {
			// runs along x with every label appearing: deterministic sweep plus random restarts
			if i%((512+n-1)/n) == 0 && cur < n {
				k = cur
				cur++
			} else {
				k = (cur - 1 + n) % n
				if r.Chance(0.1) {
					k = r.Intn(n)
				}
			}
		} else {
			p := perm[i]
			if p < n {
				k = p
			} else {
				k = r.Intn(n)
			}
		}
		x, y, z := i%8, (i/8)%8, i/64
		v.a[(bz*8+z)*v.sx*v.sy+(by*8+y)*v.sx+bx*8+x] = ls[k]
	}
	if runny {
		// guarantee all n appear: overwrite the first n voxels of a random permutation when some label is absent
		seen := map[uint64]bool{}
		for i := 0; i < 512; i++ {
			x, y, z := i%8, (i/8)%8, i/64
			seen[v.a[(bz*8+z)*v.sx*v.sy+(by*8+y)*v.sx+bx*8+x]] = true
		}
		if len(seen) < n {
			for i := 0; i < n; i++ {
				p := perm[i]
				x, y, z := p%8, (p/8)%8, p/64
				v.a[(bz*8+z)*v.sx*v.sy+(by*8+y)*v.sx+bx*8+x] = ls[i]
			}
		}
	}
}

// genVol: a label array for one block.  mode names the shape for the distribution record.
func genVol(r *Rng, c *Ctx, sx, sy, sz int) (*vol, string) {
	v := &vol{sx, sy, sz, make([]uint64, sx*sy*sz)}
	gx, gy, gz := sx/8, sy/8, sz/8
	mode := ""
	switch r.Intn(10) {
	case 0:
		mode = "solid"
		l := labelEdges[r.Intn(len(labelEdges))]
		if r.Bool() {
			l = r.U64()
		}
		for i := range v.a {
			v.a[i] = l
		}
	case 1:
		mode = "two-in-one-subblock"
		a, b := genPool(r, 2)[0], uint64(0)
		if r.Bool() {
			b = r.U64() | 1
		}
		if a == b {
			b = a + 1
		}
		for i := range v.a {
			v.a[i] = a
		}
		bx, by, bz := r.Intn(gx), r.Intn(gy), r.Intn(gz)
		nset := 1 + r.Intn(511)
		for i := 0; i < nset; i++ {
			p := r.Intn(512)
			x, y, z := p%8, (p/8)%8, p/64
			v.a[(bz*8+z)*sx*sy+(by*8+y)*sx+bx*8+x] = b
		}
	case 2:
		mode = "all-512"
		pool := genPool(r, 512+r.Intn(200))
		for bz := 0; bz < gz; bz++ {
			for by := 0; by < gy; by++ {
				for bx := 0; bx < gx; bx++ {
					off := r.Intn(len(pool) - 511)
					fillSB(r, v, bx, by, bz, pool[off:off+512])
				}
			}
		}
	case 3:
		mode = "noise-small-pool"
		pool := genPool(r, 2+r.Intn(6))
		for i := range v.a {
			v.a[i] = pool[r.Intn(len(pool))]
		}
	default:
		mode = "mixed-widths"
		pool := genPool(r, 600)
		for bz := 0; bz < gz; bz++ {
			for by := 0; by < gy; by++ {
				for bx := 0; bx < gx; bx++ {
					n := sbCounts[r.Intn(len(sbCounts))]
					if r.Chance(0.15) {
						n = 1 + r.Intn(512)
					}
					c.Count(fmt.Sprintf("sb-bits-%d", bitsForRef(n)))
					off := r.Intn(len(pool) - n + 1)
					ls := append([]uint64(nil), pool[off:off+n]...)
					for i := n - 1; i > 0; i-- {
						j := r.Intn(i + 1)
						ls[i], ls[j] = ls[j], ls[i]
					}
					fillSB(r, v, bx, by, bz, ls)
				}
			}
		}
	}
	if r.Chance(0.3) {
		// an edge label (0, 1, 2^63, 2^64-1, ...) laid over structural positions of the sub-blocks: the leading
		// voxels in raster order, a low-z slab, or whole sub-blocks
		l := labelEdges[r.Intn(len(labelEdges))]
		if r.Chance(0.3) {
			l = ^uint64(0)
		}
		shape := r.Intn(3)
		k := 1 + r.Intn(7)
		run := 1 + r.Intn(200)
		for bz := 0; bz < gz; bz++ {
			for by := 0; by < gy; by++ {
				for bx := 0; bx < gx; bx++ {
					if shape != 0 && !r.Chance(0.4) {
						continue
					}
					for i := 0; i < 512; i++ {
						x, y, z := i%8, (i/8)%8, i/64
						if (shape == 0 && z < k) || shape == 1 || (shape == 2 && i < run) {
							v.a[(bz*8+z)*sx*sy+(by*8+y)*sx+bx*8+x] = l
						}
					}
				}
			}
		}
		mode += "+edge-label-" + []string{"slab", "subblocks", "leading-run"}[shape]
	}
	c.Count("vol-" + mode)
	return v, mode
}

func bitsForRef(n int) int {
	b := 0
	for (1 << uint(b)) < n {
		b++
	}
	return b
}

func csvU64(a []uint64) string {
	if len(a) == 0 {
		return "-"
	}
	var sb strings.Builder
	for i, l := range a {
		if i > 0 {
			sb.WriteByte(',')
		}
		sb.WriteString(strconv.FormatUint(l, 10))
	}
	return sb.String()
}

// blockLine: `blk.load` for the exported fields of a Block.
func blockLine(b *labels.Block) string {
	ns := make([]uint64, len(b.NumSBLabels))
	for i, n := range b.NumSBLabels {
		ns[i] = uint64(n)
	}
	is := make([]uint64, len(b.SBIndices))
	for i, n := range b.SBIndices {
		is[i] = uint64(n)
	}
	vs := "-"
	if len(b.SBValues) > 0 {
		vs = hex.EncodeToString(b.SBValues)
	}
	return fmt.Sprintf("blk.load %d %d %d %s %s %s %s", b.Size[0]/8, b.Size[1]/8, b.Size[2]/8, csvU64(b.Labels), csvU64(ns), csvU64(is), vs)
}

func blockReplay(v *vol, extra string) string {
	return fmt.Sprintf("size: %d %d %d\nlabels(zyx, x fastest): %s\n%s", v.sx, v.sy, v.sz, csvU64(v.a), extra)
}

func countsRef(a []uint64) map[uint64]int {
	m := map[uint64]int{}
	for _, l := range a {
		if l != 0 {
			m[l]++
		}
	}
	return m
}

func countsStr(m map[uint64]int) string {
	if len(m) == 0 {
		return "-"
	}
	ks := make([]uint64, 0, len(m))
	for k := range m {
		ks = append(ks, k)
	}
	sort.Slice(ks, func(i, j int) bool { return ks[i] < ks[j] })
	var p []string
	for _, k := range ks {
		p = append(p, fmt.Sprintf("%d:%d", k, m[k]))
	}
	return strings.Join(p, ",")
}

// rlesRef: x-runs of voxels whose label is in set, in DVID coordinates, clipped to [minPt,maxPt], sorted.
func rlesRef(v *vol, off dvid.Point3d, set map[uint64]bool, lo, hi dvid.Point3d) []run {
	var out []run
	for z := 0; z < v.sz; z++ {
		for y := 0; y < v.sy; y++ {
			inRun := false
			var cur run
			for x := 0; x < v.sx; x++ {
				gx, gy, gz := off[0]+int32(x), off[1]+int32(y), off[2]+int32(z)
				in := set[v.a[z*v.sx*v.sy+y*v.sx+x]] && gx >= lo[0] && gx <= hi[0] && gy >= lo[1] && gy <= hi[1] && gz >= lo[2] && gz <= hi[2]
				if in {
					if inRun {
						cur.n++
					} else {
						cur = run{gx, gy, gz, 1}
						inRun = true
					}
				} else if inRun {
					out = append(out, cur)
					inRun = false
				}
			}
			if inRun {
				out = append(out, cur)
			}
		}
	}
	return out
}

func sortRuns(rs []run) {
	sort.Slice(rs, func(i, j int) bool {
		a, b := rs[i], rs[j]
		if a.z != b.z {
			return a.z < b.z
		}
		if a.y != b.y {
			return a.y < b.y
		}
		return a.x < b.x
	})
}

// voxelsOfRuns expands runs into a set of voxels (for comparison that is independent of run fragmentation).
func voxelsOfRuns(rs []run) map[[3]int32]int {
	m := map[[3]int32]int{}
	for _, r := range rs {
		for i := int32(0); i < r.n; i++ {
			m[[3]int32{r.x + i, r.y, r.z}]++
		}
	}
	return m
}

func sameVoxelSets(a, b map[[3]int32]int) (bool, string) {
	for k, n := range a {
		if n != 1 {
			return false, fmt.Sprintf("voxel %v emitted %d times", k, n)
		}
		if b[k] == 0 {
			return false, fmt.Sprintf("voxel %v emitted but not expected", k)
		}
	}
	for k := range b {
		if a[k] == 0 {
			return false, fmt.Sprintf("voxel %v expected but not emitted", k)
		}
	}
	return true, ""
}

func writeRLEsOf(b *labels.Block, coord dvid.ChunkPoint3d, set map[uint64]bool, bounds dvid.Bounds) ([]run, error) {
	var buf bytes.Buffer
	lbls := labels.Set{}
	for l := range set {
		lbls[l] = struct{}{}
	}
	op := labels.NewOutputOp(&buf)
	pb := labels.PositionedBlock{Block: *b, BCoord: coord.ToIZYXString()}
	if err := runWriter(op, &pb, func() { labels.WriteRLEs(lbls, op, bounds) }); err != nil {
		return nil, err
	}
	var rles dvid.RLEs
	if buf.Len() > 0 {
		if err := rles.UnmarshalBinary(buf.Bytes()); err != nil {
			return nil, err
		}
	}
	return fromRLEs(rles), nil
}

func writeBinaryOf(b *labels.Block, coord dvid.ChunkPoint3d, set map[uint64]bool) ([]labels.BinaryBlock, error) {
	var buf bytes.Buffer
	lbls := labels.Set{}
	var main uint64
	for l := range set {
		lbls[l] = struct{}{}
		main = l
	}
	op := labels.NewOutputOp(&buf)
	pb := labels.PositionedBlock{Block: *b, BCoord: coord.ToIZYXString()}
	if err := runWriter(op, &pb, func() { labels.WriteBinaryBlocks(main, lbls, op, dvid.Bounds{}) }); err != nil {
		return nil, err
	}
	if buf.Len() == 0 {
		return nil, nil
	}
	return labels.ReceiveBinaryBlocks(&buf)
}

// decodeOf: MakeLabelVolume as []uint64
func decodeOf(b *labels.Block) *vol {
	by, size := b.MakeLabelVolume()
	return volFromBytes(by, size)
}

func firstDiff(a, b []uint64) int {
	if len(a) != len(b) {
		return -2
	}
	for i := range a {
		if a[i] != b[i] {
			return i
		}
	}
	return -1
}

// safely: run f, turning a panic into an error string.
func safely(f func()) (perr string) {
	defer func() {
		if r := recover(); r != nil {
			perr = fmt.Sprint(r)
		}
	}()
	f()
	return ""
}

// runWriter runs one of the package's writer goroutines (which the server starts with a bare `go`) under a
// recover, so a panic in it is reported instead of killing the harness; in the server it kills the process.
func runWriter(op *labels.OutputOp, pb *labels.PositionedBlock, writer func()) error {
	pan := make(chan string, 1)
	go func() {
		defer func() {
			if r := recover(); r != nil {
				pan <- fmt.Sprint(r)
			}
		}()
		writer()
	}()
	op.Process(pb)
	fin := make(chan error, 1)
	go func() { fin <- op.Finish() }()
	select {
	case p := <-pan:
		panic("writer goroutine panicked (unrecovered in the server): " + p)
	case err := <-fin:
		return err
	}
}
