package main

import (
	"fmt"
	"strings"

	"github.com/janelia-flyem/dvid/datastore"
	"github.com/janelia-flyem/dvid/datatype/keyvalue"
	"github.com/janelia-flyem/dvid/dvid"
	"github.com/janelia-flyem/dvid/storage"
)

func init() { register("C01", runC01) }

// one DAG with K keys, each with its own placement of value / deletion / nothing over the nodes
type c01case struct {
	d       *tdag
	keys    []string
	entries []map[int]byte // per key: version -> 'V' / 'T'
	hist    []string
}

func (cs *c01case) entriesSpec(k int) string {
	b := make([]byte, cs.d.maxV()+1)
	for i := range b {
		b[i] = '-'
	}
	for v, e := range cs.entries[k] {
		b[v] = e
	}
	return string(b)
}

func valueFor(v int) string { return fmt.Sprintf("val@%d", v) }

func buildC01Case(r *Rng, size, nkeys int, name string, c *Ctx, fixedPlacement func(k int, n *tnode) byte) *c01case {
	cs := &c01case{}
	for k := 0; k < nkeys; k++ {
		cs.keys = append(cs.keys, fmt.Sprintf("key%d", k))
		cs.entries = append(cs.entries, map[int]byte{})
	}
	var data datastore.DataService
	place := func(n *tnode) {
		if data == nil {
			if resp := NewInstance(n.uuid, "keyvalue", name, nil); !resp.OK() {
				c.Report("H", "C01 cannot-create-instance", resp.String(), name)
			}
			data, _ = datastore.GetDataByUUIDName(dvid.UUID(n.uuid), dvid.InstanceName(name))
		}
		for k, key := range cs.keys {
			var e byte
			if fixedPlacement != nil {
				e = fixedPlacement(k, n)
			} else {
				switch x := r.Intn(10); {
				case x < 3:
					e = 'V'
				case x < 5:
					e = 'T'
				}
			}
			url := fmt.Sprintf("node/%s/%s/key/%s", n.uuid, name, key)
			// several operations on one datum within one version: the last one decides
			if fixedPlacement == nil && e != 0 && r.Chance(0.35) {
				if e == 'T' {
					Post(url, []byte("overwritten-"+valueFor(n.v)))
					cs.hist = append(cs.hist, fmt.Sprintf("POST key %s at v%d (to be deleted in the same version)", key, n.v))
					c.Count("place.value-then-deletion")
				} else {
					Delete(url)
					cs.hist = append(cs.hist, fmt.Sprintf("DELETE key %s at v%d (to be rewritten in the same version)", key, n.v))
					c.Count("place.deletion-then-value")
				}
			}
			switch e {
			case 'V':
				if r.Chance(0.2) && data != nil { // raw store path (what every other datatype uses)
					store, _ := datastore.GetOrderedKeyValueDB(data)
					ctx := datastore.NewVersionedCtx(data, dvid.VersionID(n.v+curDag.base))
					tk, _ := keyvalue.NewTKey(key)
					ser, _ := dvid.SerializeData([]byte(valueFor(n.v)), mkCompression(0, -1), dvid.NoChecksum)
					store.Put(ctx, tk, ser)
					c.Count("place.value.raw")
				} else {
					if resp := Post(url, []byte(valueFor(n.v))); !resp.OK() {
						c.Report("H", "C01 post-failed", resp.String(), url)
					}
					c.Count("place.value.http")
				}
				cs.entries[k][n.v] = 'V'
				cs.hist = append(cs.hist, fmt.Sprintf("POST key %s at v%d", key, n.v))
			case 'T':
				if resp := Delete(url); !resp.OK() {
					c.Report("H", "C01 delete-failed", resp.String(), url)
				}
				cs.entries[k][n.v] = 'T'
				cs.hist = append(cs.hist, fmt.Sprintf("DELETE key %s at v%d", key, n.v))
				c.Count("place.tombstone")
			default:
				c.Count("place.nothing")
			}
		}
	}
	cs.d = genDag(r, size, place, c)
	return cs
}

// readAll reads every key at every version through HTTP and through GetBestKeyVersion on permuted key
// lists; compares with the Lean mirror (X) and with the specification (O).
func (cs *c01case) readAll(r *Rng, name string, c *Ctx) {
	d := cs.d
	ps := d.parentsSpec()
	data, _ := datastore.GetDataByUUIDName(dvid.UUID(d.root), dvid.InstanceName(name))
	for k, key := range cs.keys {
		es := cs.entriesSpec(k)
		for _, n := range d.nodes {
			resp := Get(fmt.Sprintf("node/%s/%s/key/%s", n.uuid, name, key))
			impl := ""
			switch {
			case resp.Code == 200:
				impl = "ok found " + strings.TrimPrefix(string(resp.Body), "val@")
			case resp.Code == 404:
				impl = "ok none"
			default:
				impl = "err"
			}
			op := fmt.Sprintf("resolve %s %s %d", ps, es, n.v)
			model := c.Model.Ask(op)
			// what a point read observes (whether a conflict error is reported or dropped is a regenerated fact)
			modelObs := c.Model.Ask(fmt.Sprintf("resolve.point %s %s %d", ps, es, n.v))
			c.Cmp("datastore.findMatch via GET key", op, impl, modelObs)
			spec := d.specRead(cs.entries[k], n.v)
			if ms := c.Model.Ask(fmt.Sprintf("spec %s %s %d", ps, es, n.v)); strings.TrimPrefix(ms, "ok ") != spec {
				c.Report("H", "C01 spec-implementations-disagree", "Go oracle and Lean Spec.specRead differ", op+"\ngo: "+spec+"\nlean: "+ms)
			}
			// third path: the range scan over the interval holding exactly this key resolves the same entries;
			// it must list the key exactly when the point read finds a value (an error on both sides counts as agreement)
			if rr := Get(fmt.Sprintf("node/%s/%s/keyrange/%s/%s", n.uuid, name, key, key)); resp.Code == 200 || resp.Code == 404 {
				listed := rr.Code == 200 && strings.Contains(string(rr.Body), `"`+key+`"`)
				c.Count("range-vs-point")
				if rr.Code == 200 && listed != (resp.Code == 200) {
					c.Report("O", "C01 range-read-differs-from-point-read", "the range scan over a single key resolves the key's entries differently from the point read",
						fmt.Sprintf("%s\nGET key/%s -> %d ; GET keyrange/%s/%s -> %s\n%s", op, key, resp.Code, key, key, rr, strings.Join(cs.histFor(key), "\n")))
				}
			}
			// second path: GetBestKeyVersion on the raw key list in random order
			if data != nil {
				tk, _ := keyvalue.NewTKey(key)
				ctx := datastore.NewVersionedCtx(data, dvid.VersionID(n.v+d.base))
				var keys []storage.Key
				for v, e := range cs.entries[k] {
					if e == 'V' {
						keys = append(keys, ctx.ConstructKeyVersion(tk, dvid.VersionID(v+d.base)))
					} else {
						keys = append(keys, ctx.TombstoneKeyVersion(tk, dvid.VersionID(v+d.base)))
					}
				}
				for i := len(keys) - 1; i > 0; i-- {
					j := r.Intn(i + 1)
					keys[i], keys[j] = keys[j], keys[i]
				}
				best, berr := ctx.GetBestKeyVersion(keys)
				got := "ok none"
				if berr != nil {
					got = "err"
				} else if best != nil {
					v, _ := storage.VersionFromDataKey(best)
					got = fmt.Sprintf("ok found %d", int(v)-d.base)
				}
				c.Cmp("VersionedCtx.GetBestKeyVersion(permuted keys)", op, got, modelObs)
			}
			// O: the property itself on the implementation's answer
			nontrivial := d.maxMergeArity(n.v) >= 2 && len(cs.entries[k]) > 0
			okO := true
			what := ""
			switch {
			case strings.HasPrefix(spec, "found"):
				if impl != "ok "+spec {
					okO = false
				}
			case spec == "none":
				if impl != "ok none" {
					okO = false
				}
			case spec == "conflict":
				if strings.HasPrefix(impl, "ok found") {
					okO = false
				}
			}
			if !okO {
				// signature: the minimal shape class of the failure
				sig := ""
				switch {
				case strings.HasPrefix(impl, "ok found") && strings.HasPrefix(spec, "found"):
					sig = "C01 wrong-value"
					what = "read returns a value other than the unsuperseded live one"
					var got int
					fmt.Sscanf(impl, "ok found %d", &got)
					if cs.supersededAt(k, got, n.v) && d.maxMergeArity(n.v) >= 3 && model == impl {
						sig = "C01 merge3 last-found-superseded"
						what = "a 3+-parent merge returns the last match found although it was superseded (deleted) along another parent"
					}
				case strings.HasPrefix(impl, "ok found") && spec == "none":
					sig = "C01 deleted-value-returned"
					what = "read returns a value that a deletion in the lineage hides"
					var got int
					fmt.Sscanf(impl, "ok found %d", &got)
					if cs.supersededAt(k, got, n.v) && d.maxMergeArity(n.v) >= 3 && model == impl {
						sig = "C01 merge3 last-found-superseded"
						what = "a 3+-parent merge returns the last match found although it was superseded (deleted) along another parent"
					}
				case strings.HasPrefix(impl, "ok found") && spec == "conflict":
					sig = "C01 conflict-resolved-silently"
					what = "two unsuperseded live values remain but the read succeeds with one of them"
				case impl == "ok none" || impl == "err":
					sig = "C01 live-value-not-returned"
					what = "the unsuperseded live value is not returned"
					if model == "err" && d.innerConflict(cs.entries[k], n.v) {
						sig = "C01 inner-merge-conflict-before-supersession"
						what = "an inner merge that is conflicted by itself makes the read fail although a later parent supersedes one side (parent-order dependent)"
					}
				}
				c.Report("O", sig, what, fmt.Sprintf("%s\nkey=%s version=%d\nspec: %s\nimpl: %s (HTTP %d)\nlean mirror: %s\nhistory:\n  %s",
					op, key, n.v, spec, impl, resp.Code, model, strings.Join(cs.histFor(key), "\n  ")))
			}
			c.Eval(op, nontrivial)
			c.Count("read." + strings.SplitN(spec, " ", 2)[0])
		}
	}
}

func (cs *c01case) histFor(key string) []string {
	var out []string
	for _, n := range cs.d.nodes {
		out = append(out, fmt.Sprintf("node v%d parents=%v", n.v, n.parents))
	}
	for _, h := range cs.hist {
		if strings.Contains(h, " "+key+" ") {
			out = append(out, h)
		}
	}
	return out
}

// supersededAt: is the entry at version a superseded from the point of view of v?
func (cs *c01case) supersededAt(k, a, v int) bool {
	for b := range cs.d.ancestors(v) {
		if b != a && cs.entries[k][b] != 0 && cs.d.properAnc(b)[a] {
			return true
		}
	}
	return false
}

func runC01(c *Ctx) {
	c.Rule = "random DAGs built through the real manager (commit/newversion/branch/merge with 2-4 parents, parents may be ancestors of one another) on Badger; per DAG several keys each with an independent placement of value/deletion/nothing per node (HTTP POST/DELETE and raw store.Put); every key read at every version via HTTP GET and via GetBestKeyVersion on a permuted key list. non-trivial = the queried version has a merge in its ancestry and the key has entries; distinct by (parents, entries, version)"
	OpenServer()
	defer CloseServer()
	r := c.Rng
	// corpus first: the two shapes of DESIGN §4 C01 as fixed placements on hand-built DAGs
	c01Corpus(c)
	ndags, size, nkeys := 250, 10, 6
	if c.Thorough {
		ndags, size, nkeys = 1500, 12, 8
	}
	for i := 0; i < ndags; i++ {
		if i > 0 && i%100 == 0 { // fresh store now and then keeps Badger's memory bounded
			CloseServer()
			OpenServer()
		}
		name := fmt.Sprintf("kv%d", i)
		sz := 4 + r.Intn(size-3)
		cs := buildC01Case(r, sz, nkeys, name, c, nil)
		cs.readAll(r, name, c)
		c.Count(fmt.Sprintf("dag.size%d", len(cs.d.nodes)))
	}
}

// c01Corpus builds the two recorded shapes by hand through the real API.
func c01Corpus(c *Ctx) {
	r := c.Rng.Fork()
	// shape (i): root R; A child of R (value); B child of R on a branch (value); P2 child of A (nothing);
	// P3 child of A on a branch (deletion); M = merge[B, P2, P3]
	{
		cs := &c01case{keys: []string{"k"}, entries: []map[int]byte{{}}}
		d := newTDag()
		cs.d = d
		name := "corpus_i"
		NewInstance(d.root, "keyvalue", name, nil)
		put := func(n *tnode, e byte) {
			url := fmt.Sprintf("node/%s/%s/key/k", n.uuid, name)
			if e == 'V' {
				Post(url, []byte(valueFor(n.v)))
			} else {
				Delete(url)
			}
			cs.entries[0][n.v] = e
			cs.hist = append(cs.hist, fmt.Sprintf("%c key k at v%d", e, n.v))
		}
		R := d.nodes[0]
		d.commit(R)
		A := d.child(R)
		put(A, 'V')
		d.commit(A)
		B := d.child(R)
		put(B, 'V')
		d.commit(B)
		P2 := d.child(A)
		d.commit(P2)
		P3 := d.child(A)
		put(P3, 'T')
		d.commit(P3)
		if m := d.merge([]*tnode{B, P2, P3}); m == nil {
			c.Report("H", "C01 corpus-merge-failed", "cannot build corpus shape (i)", "")
		}
		cs.readAll(r, name, c)
	}
	// shape (ii): R; A child (value); B child on branch (value); T child of A (deletion); M1 = merge[A,B];
	// M2 = merge[M1, T]
	{
		cs := &c01case{keys: []string{"k"}, entries: []map[int]byte{{}}}
		d := newTDag()
		cs.d = d
		name := "corpus_ii"
		NewInstance(d.root, "keyvalue", name, nil)
		put := func(n *tnode, e byte) {
			url := fmt.Sprintf("node/%s/%s/key/k", n.uuid, name)
			if e == 'V' {
				Post(url, []byte(valueFor(n.v)))
			} else {
				Delete(url)
			}
			cs.entries[0][n.v] = e
			cs.hist = append(cs.hist, fmt.Sprintf("%c key k at v%d", e, n.v))
		}
		R := d.nodes[0]
		d.commit(R)
		A := d.child(R)
		put(A, 'V')
		d.commit(A)
		B := d.child(R)
		put(B, 'V')
		d.commit(B)
		T := d.child(A)
		put(T, 'T')
		d.commit(T)
		M1 := d.merge([]*tnode{A, B})
		if M1 != nil {
			d.commit(M1)
			d.merge([]*tnode{M1, T})
		} else {
			c.Report("H", "C01 corpus-merge-failed", "cannot build corpus shape (ii)", "")
		}
		cs.readAll(r, name, c)
	}
}
