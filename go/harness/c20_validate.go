package main

import "github.com/janelia-flyem/dvid/datatype/common/labels"

// validateBlock: the consistency check the server applies to a block received from a client.
func validateBlock(b *labels.Block) error { return b.Validate() }
