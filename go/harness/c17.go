package main

// C17 — image volumes return exactly the voxels that were written.
//
// O: an element-wise oracle (a map block coordinate -> block bytes per version, maintained from the requests
//    the harness issued) against every lossless read geometry of the HTTP API.
// X: the Lean transfer model (`ib.map`: which request byte receives which block byte, for every data shape)
//    against the real Voxels.ReadBlock / WriteBlock, whose byte-to-byte map is recovered by probing.

import (
	"bytes"
	"encoding/binary"
	"encoding/json"
	"fmt"
	"image"
	"image/png"
	"os"
	"strings"

	"github.com/janelia-flyem/dvid/datatype/imageblk"
	"github.com/janelia-flyem/dvid/dvid"
	"github.com/janelia-flyem/dvid/storage"
)

func init() { register("C17", runC17) }

type ibKind struct {
	typ string
	bpv int
}

var ibKinds = []ibKind{{"uint8blk", 1}, {"uint16blk", 2}, {"uint32blk", 4}, {"uint64blk", 8}, {"float32blk", 4}, {"rgba8blk", 4}}

type ibVer struct {
	uuid   string
	v      int
	locked bool
	blocks map[[3]int][]byte
	// bounding box of everything written at this version or an ancestor (voxel coordinates), nil until a write
	lo, hi *[3]int
}

type ibSess struct {
	c    *Ctx
	r    *Rng
	kind ibKind
	bs   [3]int
	bg   byte
	name string
	vers []*ibVer
	hist []string
	roi  map[[3]int]bool // blocks of the ROI instance "r" (nil if none)
	ch   *Child
	dead bool
}

// do: one request to the server process; a server that dies is a finding of its own (with the panic trace)
func (s *ibSess) do(method, path string, body []byte) Resp {
	if s.dead {
		return Resp{Code: -2, Body: []byte("server process is dead")}
	}
	r, ok := s.ch.HTTP(method, path, body)
	if !ok {
		s.dead = true
		tail := s.ch.StderrTail(14)
		site := "unknown"
		for _, ln := range strings.Split(tail, "\n") {
			if strings.Contains(ln, "/repo/") {
				site = strings.TrimSpace(ln)
				if i := strings.Index(site, "/repo/"); i >= 0 {
					site = site[i+6:]
				}
				if i := strings.Index(site, " "); i >= 0 {
					site = site[:i]
				}
				if i := strings.LastIndex(site, ":"); i >= 0 {
					site = site[:i]
				}
				break
			}
		}
		s.c.Report("O", "C17 server-died "+site, "the server process died while serving a request of the image-volume workload", fmt.Sprintf("%s %s\nstderr of the server process:\n%s\nhistory:\n%s\n", method, path, tail, s.history()))
	}
	return r
}
func (s *ibSess) get(path string) Resp               { return s.do("GET", path, nil) }
func (s *ibSess) post(path string, b []byte) Resp    { return s.do("POST", path, b) }
func (s *ibSess) postJSON(path string, v interface{}) Resp {
	b, _ := json.Marshal(v)
	return s.do("POST", path, b)
}

func (s *ibSess) log(f string, a ...interface{}) { s.hist = append(s.hist, fmt.Sprintf(f, a...)) }
func (s *ibSess) history() string {
	return fmt.Sprintf("instance %s type %s BlockSize %v Background %d\n", s.name, s.kind.typ, s.bs, s.bg) + strings.Join(s.hist, "\n")
}
func (s *ibSess) blockBytes() int { return s.bs[0] * s.bs[1] * s.bs[2] * s.kind.bpv }

func (s *ibSess) fail(sig, what, detail string) {
	if s.dead {
		return // already reported as a dead server
	}
	s.c.Report("O", sig, what, detail+"\nhistory:\n"+s.history()+"\n")
}

// voxel (x,y,z) of version p as bytes; background where no block was written
func (s *ibSess) voxel(p *ibVer, x, y, z int) []byte {
	bc := [3]int{fdivI(x, s.bs[0]), fdivI(y, s.bs[1]), fdivI(z, s.bs[2])}
	blk, ok := p.blocks[bc]
	if !ok {
		out := make([]byte, s.kind.bpv)
		for i := range out {
			out[i] = s.bg
		}
		return out
	}
	ox, oy, oz := x-bc[0]*s.bs[0], y-bc[1]*s.bs[1], z-bc[2]*s.bs[2]
	i := ((oz*s.bs[1]+oy)*s.bs[0] + ox) * s.kind.bpv
	return blk[i : i+s.kind.bpv]
}

// box: expected bytes of the box at off with size sz in x-fastest order
func (s *ibSess) box(p *ibVer, off, sz [3]int) []byte {
	out := make([]byte, 0, sz[0]*sz[1]*sz[2]*s.kind.bpv)
	for z := 0; z < sz[2]; z++ {
		for y := 0; y < sz[1]; y++ {
			for x := 0; x < sz[0]; x++ {
				out = append(out, s.voxel(p, off[0]+x, off[1]+y, off[2]+z)...)
			}
		}
	}
	return out
}

func (s *ibSess) noteWrite(p *ibVer, off, sz [3]int) {
	lo := off
	hi := [3]int{off[0] + sz[0] - 1, off[1] + sz[1] - 1, off[2] + sz[2] - 1}
	if p.lo == nil {
		p.lo, p.hi = &lo, &hi
		return
	}
	nl, nh := *p.lo, *p.hi
	for i := 0; i < 3; i++ {
		if lo[i] < nl[i] {
			nl[i] = lo[i]
		}
		if hi[i] > nh[i] {
			nh[i] = hi[i]
		}
	}
	p.lo, p.hi = &nl, &nh
}

func (s *ibSess) open() []*ibVer {
	var o []*ibVer
	for _, p := range s.vers {
		if !p.locked {
			o = append(o, p)
		}
	}
	return o
}

// genBlock: block content with structure (so that a shifted or transposed copy is visible) or noise
func (s *ibSess) genBlock(tag int) []byte {
	n := s.blockBytes()
	b := make([]byte, n)
	switch s.r.Intn(3) {
	case 0:
		copy(b, s.r.Bytes(n))
	case 1: // position code: every voxel differs from its neighbours along each axis
		i := 0
		for z := 0; z < s.bs[2]; z++ {
			for y := 0; y < s.bs[1]; y++ {
				for x := 0; x < s.bs[0]; x++ {
					for k := 0; k < s.kind.bpv; k++ {
						b[i] = byte(1 + (x*7+y*13+z*29+k*3+tag*5)%250)
						i++
					}
				}
			}
		}
	default:
		for i := range b {
			b[i] = byte(1 + (tag+i/977)%254)
		}
	}
	return b
}

// writeRaw: POST raw/0_1_2 of a block-aligned box of nb blocks per axis starting at block coordinate bc
func (s *ibSess) writeRaw(p *ibVer, bc, nb [3]int, mutate bool, withROI bool) {
	sz := [3]int{nb[0] * s.bs[0], nb[1] * s.bs[1], nb[2] * s.bs[2]}
	off := [3]int{bc[0] * s.bs[0], bc[1] * s.bs[1], bc[2] * s.bs[2]}
	// build per block, then lay out as one x-fastest box
	newBlocks := map[[3]int][]byte{}
	tag := s.r.Intn(200)
	for z := 0; z < nb[2]; z++ {
		for y := 0; y < nb[1]; y++ {
			for x := 0; x < nb[0]; x++ {
				newBlocks[[3]int{bc[0] + x, bc[1] + y, bc[2] + z}] = s.genBlock(tag + x + 3*y + 7*z)
			}
		}
	}
	tmp := &ibVer{blocks: newBlocks}
	body := s.box(tmp, off, sz)
	q := ""
	if mutate {
		q = "?mutate=true"
	}
	if withROI {
		if q == "" {
			q = "?roi=r"
		} else {
			q += "&roi=r"
		}
	}
	path := fmt.Sprintf("node/%s/%s/raw/0_1_2/%d_%d_%d/%d_%d_%d%s", p.uuid, s.name, sz[0], sz[1], sz[2], off[0], off[1], off[2], q)
	s.log("v%d POST raw/0_1_2/%d_%d_%d/%d_%d_%d%s (blocks %v + %v)", p.v, sz[0], sz[1], sz[2], off[0], off[1], off[2], q, bc, nb)
	s.c.Count("write raw")
	if mutate {
		s.c.Count("write raw mutate")
	}
	if bc[0] < 0 || bc[1] < 0 || bc[2] < 0 {
		s.c.Count("write at negative block coordinate")
	}
	r := s.post(path, body)
	if !r.OK() {
		s.fail("C17 write-refused raw", "a block-aligned raw write is refused", fmt.Sprintf("POST %s -> %s", path, r))
		return
	}
	for k, b := range newBlocks {
		if withROI && !s.roi[k] {
			s.c.Count("block masked by ROI")
			continue
		}
		p.blocks[k] = b
	}
	s.noteWrite(p, off, sz)
}

// writeBlocks: POST blocks/<bc>/<span>
func (s *ibSess) writeBlocks(p *ibVer, bc [3]int, span int, mutate bool) {
	var body []byte
	nb := map[[3]int][]byte{}
	for i := 0; i < span; i++ {
		b := s.genBlock(s.r.Intn(200))
		nb[[3]int{bc[0] + i, bc[1], bc[2]}] = b
		body = append(body, b...)
	}
	q := ""
	if mutate {
		q = "?mutate=true"
	}
	path := fmt.Sprintf("node/%s/%s/blocks/%d_%d_%d/%d%s", p.uuid, s.name, bc[0], bc[1], bc[2], span, q)
	s.log("v%d POST blocks/%d_%d_%d/%d%s", p.v, bc[0], bc[1], bc[2], span, q)
	s.c.Count("write blocks")
	r := s.post(path, body)
	if !r.OK() {
		s.fail("C17 write-refused blocks", "a block-stream write of whole blocks is refused", fmt.Sprintf("POST %s (%d bytes = %d blocks of %d bytes) -> %s", path, len(body), span, s.blockBytes(), r))
		return
	}
	for k, b := range nb {
		p.blocks[k] = b
	}
	s.noteWrite(p, [3]int{bc[0] * s.bs[0], bc[1] * s.bs[1], bc[2] * s.bs[2]}, [3]int{span * s.bs[0], s.bs[1], s.bs[2]})
}

func firstByteDiff(a, b []byte) int {
	n := len(a)
	if len(b) < n {
		n = len(b)
	}
	for i := 0; i < n; i++ {
		if a[i] != b[i] {
			return i
		}
	}
	if len(a) != len(b) {
		return n
	}
	return -1
}

func (s *ibSess) describe(p *ibVer, off, sz [3]int, byteIdx int, got, want []byte) string {
	vi := byteIdx / s.kind.bpv
	x, y, z := vi%sz[0], (vi/sz[0])%sz[1], vi/(sz[0]*sz[1])
	ax, ay, az := off[0]+x, off[1]+y, off[2]+z
	g, w := -1, -1
	if byteIdx < len(got) {
		g = int(got[byteIdx])
	}
	if byteIdx < len(want) {
		w = int(want[byteIdx])
	}
	_, written := p.blocks[[3]int{fdivI(ax, s.bs[0]), fdivI(ay, s.bs[1]), fdivI(az, s.bs[2])}]
	return fmt.Sprintf("version v%d box offset %v size %v: byte %d (voxel (%d,%d,%d), block (%d,%d,%d), written=%v) got %d want %d; lengths got %d want %d",
		p.v, off, sz, byteIdx, ax, ay, az, fdivI(ax, s.bs[0]), fdivI(ay, s.bs[1]), fdivI(az, s.bs[2]), written, g, w, len(got), len(want))
}

// readBox: GET raw/0_1_2 of an arbitrary box
func (s *ibSess) readBox(p *ibVer, off, sz [3]int) {
	path := fmt.Sprintf("node/%s/%s/raw/0_1_2/%d_%d_%d/%d_%d_%d", p.uuid, s.name, sz[0], sz[1], sz[2], off[0], off[1], off[2])
	r := s.get(path)
	want := s.box(p, off, sz)
	nontrivial := s.touches(p, off, sz) > 0
	s.c.Eval(fmt.Sprintf("%s %v box %v %v %x", s.kind.typ, s.bs, off, sz, fnvBytes(want)), nontrivial)
	s.c.Count("read box")
	s.countBox(p, off, sz)
	if !r.OK() {
		s.fail("C17 read-fails raw3d", "reading a 3-D box fails", fmt.Sprintf("GET %s -> %s", path, r))
		return
	}
	if i := firstByteDiff(r.Body, want); i != -1 {
		s.fail("C17 box-differs", "a 3-D box read does not return the voxels written (or background)", "GET "+path+"\n"+s.describe(p, off, sz, i, r.Body, want))
	}
}

func (s *ibSess) touches(p *ibVer, off, sz [3]int) int {
	n := 0
	for bz := fdivI(off[2], s.bs[2]); bz <= fdivI(off[2]+sz[2]-1, s.bs[2]); bz++ {
		for by := fdivI(off[1], s.bs[1]); by <= fdivI(off[1]+sz[1]-1, s.bs[1]); by++ {
			for bx := fdivI(off[0], s.bs[0]); bx <= fdivI(off[0]+sz[0]-1, s.bs[0]); bx++ {
				if _, ok := p.blocks[[3]int{bx, by, bz}]; ok {
					n++
				}
			}
		}
	}
	return n
}

func (s *ibSess) countBox(p *ibVer, off, sz [3]int) {
	t := s.touches(p, off, sz)
	total := (fdivI(off[2]+sz[2]-1, s.bs[2]) - fdivI(off[2], s.bs[2]) + 1) * (fdivI(off[1]+sz[1]-1, s.bs[1]) - fdivI(off[1], s.bs[1]) + 1) * (fdivI(off[0]+sz[0]-1, s.bs[0]) - fdivI(off[0], s.bs[0]) + 1)
	switch {
	case t == 0:
		s.c.Count("read wholly outside written data")
	case t < total:
		s.c.Count("read partly outside written data")
	default:
		s.c.Count("read inside written data")
	}
	if total > 1 {
		s.c.Count("read crossing block borders")
	}
	if off[0] < 0 || off[1] < 0 || off[2] < 0 {
		s.c.Count("read at negative offset")
	}
}

// decodePNG returns the raw little-endian voxel bytes of a 2-D image response
func (s *ibSess) decodePNG(b []byte, w, h int) ([]byte, string) {
	img, err := png.Decode(bytes.NewReader(b))
	if err != nil {
		return nil, "png: " + err.Error()
	}
	if img.Bounds().Dx() != w || img.Bounds().Dy() != h {
		return nil, fmt.Sprintf("image is %dx%d, want %dx%d", img.Bounds().Dx(), img.Bounds().Dy(), w, h)
	}
	bpv := s.kind.bpv
	out := make([]byte, 0, w*h*bpv)
	row := func(pix []byte, stride, y, n int) []byte { return pix[y*stride : y*stride+n] }
	switch m := img.(type) {
	case *image.Gray:
		if bpv != 1 {
			return nil, "gray image for a multi-byte voxel type"
		}
		for y := 0; y < h; y++ {
			out = append(out, row(m.Pix, m.Stride, y, w)...)
		}
	case *image.Gray16:
		if bpv != 2 {
			return nil, "gray16 image for a voxel type that is not 2 bytes"
		}
		for y := 0; y < h; y++ {
			r := row(m.Pix, m.Stride, y, 2*w)
			for x := 0; x < w; x++ {
				out = append(out, r[2*x+1], r[2*x]) // PNG is big-endian, DVID voxels little-endian
			}
		}
	case *image.NRGBA:
		if bpv != 4 {
			return nil, "8-bit RGBA image for a voxel type that is not 4 bytes"
		}
		for y := 0; y < h; y++ {
			out = append(out, row(m.Pix, m.Stride, y, 4*w)...)
		}
	case *image.RGBA: // PNG stores fully opaque images without alpha
		if bpv != 4 {
			return nil, "8-bit RGBA image for a voxel type that is not 4 bytes"
		}
		for y := 0; y < h; y++ {
			out = append(out, row(m.Pix, m.Stride, y, 4*w)...)
		}
	case *image.NRGBA64:
		if bpv != 8 {
			return nil, "16-bit RGBA image for a voxel type that is not 8 bytes"
		}
		for y := 0; y < h; y++ {
			out = append(out, row(m.Pix, m.Stride, y, 8*w)...)
		}
	case *image.RGBA64:
		if bpv != 8 {
			return nil, "16-bit RGBA image for a voxel type that is not 8 bytes"
		}
		for y := 0; y < h; y++ {
			out = append(out, row(m.Pix, m.Stride, y, 8*w)...)
		}
	default:
		return nil, fmt.Sprintf("unexpected image type %T", img)
	}
	return out, ""
}

// readSlice: GET raw/<plane> — plane 0 = xy, 1 = xz, 2 = yz
func (s *ibSess) readSlice(p *ibVer, plane int, off [3]int, w, h int) {
	names := []string{"0_1", "0_2", "1_2"}
	sz := [3]int{w, h, 1}
	switch plane {
	case 1:
		sz = [3]int{w, 1, h}
	case 2:
		sz = [3]int{1, w, h}
	}
	path := fmt.Sprintf("node/%s/%s/raw/%s/%d_%d/%d_%d_%d", p.uuid, s.name, names[plane], w, h, off[0], off[1], off[2])
	r := s.get(path)
	want := s.box(p, off, sz) // x-fastest over the degenerate box = row-major over (w,h) for every plane
	s.c.Eval(fmt.Sprintf("%s %v slice %s %v %dx%d %x", s.kind.typ, s.bs, names[plane], off, w, h, fnvBytes(want)), s.touches(p, off, sz) > 0)
	s.c.Count("read slice " + names[plane])
	s.countBox(p, off, sz)
	if !r.OK() {
		s.fail("C17 read-fails slice "+names[plane], "reading a 2-D slice fails", fmt.Sprintf("GET %s -> %s", path, r))
		return
	}
	got, e := s.decodePNG(r.Body, w, h)
	if e != "" {
		s.fail("C17 slice-undecodable "+names[plane], "a 2-D slice response is not the expected lossless image", "GET "+path+": "+e)
		return
	}
	// 4- and 8-byte voxels travel as RGBA pixels; PNG drops colour of fully transparent pixels only if the
	// encoder chooses to (Go's does not), so the comparison is exact.
	if i := firstByteDiff(got, want); i != -1 {
		s.fail("C17 slice-differs "+names[plane], "a 2-D slice read does not return the voxels written (or background)", "GET "+path+"\n"+s.describe(p, off, sz, i, got, want))
	}
}

// readBlocks: GET blocks/<bc>/<span>
func (s *ibSess) readBlocks(p *ibVer, bc [3]int, span int) {
	path := fmt.Sprintf("node/%s/%s/blocks/%d_%d_%d/%d", p.uuid, s.name, bc[0], bc[1], bc[2], span)
	r := s.get(path)
	var want []byte
	hit := 0
	for i := 0; i < span; i++ {
		b, ok := p.blocks[[3]int{bc[0] + i, bc[1], bc[2]}]
		if ok {
			hit++
			want = append(want, b...)
		} else {
			bg := make([]byte, s.blockBytes())
			for j := range bg {
				bg[j] = s.bg
			}
			want = append(want, bg...)
		}
	}
	s.c.Eval(fmt.Sprintf("%s %v blocks %v %d %x", s.kind.typ, s.bs, bc, span, fnvBytes(want)), hit > 0)
	s.c.Count("read blocks")
	if !r.OK() {
		s.fail("C17 read-fails blocks", "reading a block span fails", fmt.Sprintf("GET %s -> %s", path, r))
		return
	}
	if i := firstByteDiff(r.Body, want); i != -1 {
		s.fail("C17 blocks-differ", "a block-span read does not return the blocks written (or background)",
			fmt.Sprintf("GET %s: byte %d (block %d of the span, offset %d) differs; lengths got %d want %d", path, i, i/s.blockBytes(), i%s.blockBytes(), len(r.Body), len(want)))
	}
}

// parseBlockStream: (x,y,z,n int32 LE, n bytes)*
func parseBlockStream(b []byte) (map[[3]int][]byte, string) {
	out := map[[3]int][]byte{}
	for len(b) > 0 {
		if len(b) < 16 {
			return nil, "truncated block header"
		}
		x := int(int32(binary.LittleEndian.Uint32(b[0:])))
		y := int(int32(binary.LittleEndian.Uint32(b[4:])))
		z := int(int32(binary.LittleEndian.Uint32(b[8:])))
		n := int(int32(binary.LittleEndian.Uint32(b[12:])))
		b = b[16:]
		if n < 0 || n > len(b) {
			return nil, fmt.Sprintf("block (%d,%d,%d) announces %d bytes, %d left", x, y, z, n, len(b))
		}
		k := [3]int{x, y, z}
		if _, dup := out[k]; dup {
			return nil, fmt.Sprintf("block (%d,%d,%d) sent twice", x, y, z)
		}
		out[k] = b[:n]
		b = b[n:]
	}
	return out, ""
}

func (s *ibSess) cmpBlockSet(p *ibVer, what, path string, got map[[3]int][]byte, coords [][3]int) {
	want := map[[3]int][]byte{}
	for _, k := range coords {
		if b, ok := p.blocks[k]; ok {
			want[k] = b
		}
	}
	for k, b := range want {
		g, ok := got[k]
		if !ok {
			s.fail("C17 "+what+"-missing-block", "a block stream omits a written block", fmt.Sprintf("GET %s: block %v was written at v%d or an ancestor but is not in the stream (%d blocks sent)", path, k, p.v, len(got)))
			return
		}
		if i := firstByteDiff(g, b); i != -1 {
			s.fail("C17 "+what+"-block-differs", "a block stream returns other bytes than written", fmt.Sprintf("GET %s: block %v byte %d differs (lengths got %d want %d)", path, k, i, len(g), len(b)))
			return
		}
	}
	for k := range got {
		if _, ok := want[k]; !ok {
			s.fail("C17 "+what+"-extra-block", "a block stream contains a block that was never written or not requested", fmt.Sprintf("GET %s: unexpected block %v", path, k))
			return
		}
	}
}

func (s *ibSess) readSubvolBlocks(p *ibVer, bc, nb [3]int) {
	path := fmt.Sprintf("node/%s/%s/subvolblocks/%d_%d_%d/%d_%d_%d?compression=uncompressed", p.uuid, s.name, nb[0]*s.bs[0], nb[1]*s.bs[1], nb[2]*s.bs[2], bc[0]*s.bs[0], bc[1]*s.bs[1], bc[2]*s.bs[2])
	r := s.get(path)
	s.c.Count("read subvolblocks")
	var coords [][3]int
	for z := 0; z < nb[2]; z++ {
		for y := 0; y < nb[1]; y++ {
			for x := 0; x < nb[0]; x++ {
				coords = append(coords, [3]int{bc[0] + x, bc[1] + y, bc[2] + z})
			}
		}
	}
	s.c.Eval(fmt.Sprintf("%s %v subvolblocks %v %v v%d", s.kind.typ, s.bs, bc, nb, p.v), s.touches(p, [3]int{bc[0] * s.bs[0], bc[1] * s.bs[1], bc[2] * s.bs[2]}, [3]int{nb[0] * s.bs[0], nb[1] * s.bs[1], nb[2] * s.bs[2]}) > 0)
	if !r.OK() {
		s.fail("C17 read-fails subvolblocks", "reading a block-aligned subvolume as a block stream fails", fmt.Sprintf("GET %s -> %s", path, r))
		return
	}
	got, e := parseBlockStream(r.Body)
	if e != "" {
		s.fail("C17 subvolblocks-malformed", "the block stream is malformed", "GET "+path+": "+e)
		return
	}
	s.cmpBlockSet(p, "subvolblocks", path, got, coords)
}

func (s *ibSess) readSpecific(p *ibVer, coords [][3]int) {
	var parts []string
	for _, k := range coords {
		parts = append(parts, fmt.Sprintf("%d,%d,%d", k[0], k[1], k[2]))
	}
	path := fmt.Sprintf("node/%s/%s/specificblocks?compression=uncompressed&blocks=%s", p.uuid, s.name, strings.Join(parts, ","))
	r := s.get(path)
	s.c.Count("read specificblocks")
	s.c.Eval(fmt.Sprintf("%s %v specific %v v%d", s.kind.typ, s.bs, coords, p.v), true)
	if !r.OK() {
		s.fail("C17 read-fails specificblocks", "reading specific blocks fails", fmt.Sprintf("GET %s -> %s", path, r))
		return
	}
	got, e := parseBlockStream(r.Body)
	if e != "" {
		s.fail("C17 specificblocks-malformed", "the block stream is malformed", "GET "+path+": "+e)
		return
	}
	s.cmpBlockSet(p, "specificblocks", path, got, coords)
}

// checkExtents: the advertised extents cover every voxel written at this version or an ancestor
func (s *ibSess) checkExtents(p *ibVer) {
	if p.lo == nil {
		return
	}
	for _, ep := range []string{"info", "metadata"} {
		path := fmt.Sprintf("node/%s/%s/%s", p.uuid, s.name, ep)
		r := s.get(path)
		if !r.OK() {
			s.fail("C17 read-fails "+ep, "reading the instance "+ep+" fails", fmt.Sprintf("GET %s -> %s", path, r))
			return
		}
		var lo, hi []int
		if ep == "info" {
			var m struct {
				Extended struct {
					MinPoint []int
					MaxPoint []int
				}
			}
			json.Unmarshal(r.Body, &m)
			lo, hi = m.Extended.MinPoint, m.Extended.MaxPoint
		} else {
			var m struct {
				Axes []struct {
					Size   int
					Offset int
				}
			}
			json.Unmarshal(r.Body, &m)
			if len(m.Axes) == 3 {
				for _, a := range m.Axes {
					lo = append(lo, a.Offset)
					hi = append(hi, a.Offset+a.Size-1)
				}
			}
		}
		s.c.Eval(fmt.Sprintf("%s extents %s v%d %v %v", s.kind.typ, ep, p.v, lo, hi), true)
		s.c.Count("extents check")
		if len(lo) != 3 || len(hi) != 3 {
			s.fail("C17 extents-missing "+ep, "no extents are advertised although voxels were written", fmt.Sprintf("GET %s -> %s; written box %v..%v", path, trunc(string(r.Body)), *p.lo, *p.hi))
			return
		}
		for i := 0; i < 3; i++ {
			if lo[i] > p.lo[i] || hi[i] < p.hi[i] {
				s.fail("C17 extents-do-not-cover "+ep, "the advertised extents do not cover every written voxel", fmt.Sprintf("GET %s: extents %v..%v, written voxels span %v..%v (version v%d)", path, lo, hi, *p.lo, *p.hi, p.v))
				return
			}
		}
	}
}

func (s *ibSess) randBC(lo, hi int) [3]int {
	return [3]int{lo + s.r.Intn(hi-lo), lo + s.r.Intn(hi-lo), lo + s.r.Intn(hi-lo)}
}

func (s *ibSess) observe(p *ibVer, nReads int) {
	r := s.r
	span := func(i int) (int, int) { // voxel range of interest along axis i: blocks -3..3
		return -3 * s.bs[i], 3 * s.bs[i]
	}
	for k := 0; k < nReads; k++ {
		var off, sz [3]int
		for i := 0; i < 3; i++ {
			lo, hi := span(i)
			off[i] = lo + r.Intn(hi-lo)
			switch r.Intn(4) {
			case 0:
				sz[i] = 1 + r.Intn(3)
			case 1:
				sz[i] = s.bs[i] // block-sized, usually unaligned
			default:
				sz[i] = 1 + r.Intn(2*s.bs[i]+3)
			}
		}
		if r.Chance(0.2) {
			// a column: exactly one block wide on one axis (aligned), several blocks long on another
			a := r.Intn(3)
			if r.Bool() {
				a = 0 // rows of the request as long as rows of a block
			}
			off[a] = fdivI(off[a], s.bs[a]) * s.bs[a]
			sz[a] = s.bs[a]
			for _, b := range []int{(a + 1) % 3, (a + 2) % 3} {
				// long enough on the other axes to hold whole blocks, usually unaligned
				sz[b] = s.bs[b] + 1 + r.Intn(2*s.bs[b])
				if r.Chance(0.3) {
					sz[b] = s.bs[b]
				}
			}
			s.c.Count("read box: one-block-wide column")
		}
		if r.Chance(0.15) { // aligned on some axes
			for i := 0; i < 3; i++ {
				if r.Bool() {
					off[i] = fdivI(off[i], s.bs[i]) * s.bs[i]
				}
			}
		}
		s.readBox(p, off, sz)
	}
	for plane := 0; plane < 3; plane++ {
		for k := 0; k < (nReads+1)/2; k++ {
			var off [3]int
			for i := 0; i < 3; i++ {
				lo, hi := span(i)
				off[i] = lo + r.Intn(hi-lo)
			}
			a, b := 0, 1
			if plane == 1 {
				b = 2
			} else if plane == 2 {
				a, b = 1, 2
			}
			w, h := 1+r.Intn(2*s.bs[a]+5), 1+r.Intn(2*s.bs[b]+5)
			s.readSlice(p, plane, off, w, h)
		}
	}
	for k := 0; k < 3; k++ {
		s.readBlocks(p, s.randBC(-3, 3), 1+r.Intn(4))
		s.readSubvolBlocks(p, s.randBC(-3, 2), [3]int{1 + r.Intn(3), 1 + r.Intn(2), 1 + r.Intn(2)})
		var coords [][3]int
		seen := map[[3]int]bool{}
		for j := 0; j < 1+r.Intn(5); j++ {
			c := s.randBC(-3, 3)
			if !seen[c] {
				seen[c] = true
				coords = append(coords, c)
			}
		}
		s.readSpecific(p, coords)
	}
	s.checkExtents(p)
}

func (s *ibSess) run(nOps, nReads int) {
	r := s.r
	root := jsonField(s.postJSON("repos", map[string]string{"alias": "verif", "description": "verif"}).Body, "root")
	conf := map[string]string{"BlockSize": fmt.Sprintf("%d,%d,%d", s.bs[0], s.bs[1], s.bs[2])}
	if s.bg != 0 {
		conf["Background"] = fmt.Sprint(s.bg)
	}
	mk := func(typ, name string) Resp {
		m := map[string]string{"typename": typ, "dataname": name}
		for k, v := range conf {
			m[k] = v
		}
		return s.postJSON("repo/"+root+"/instance", m)
	}
	if rr := mk(s.kind.typ, s.name); !rr.OK() {
		s.c.Report("H", "C17 setup", "cannot create instance", rr.String())
		return
	}
	s.vers = []*ibVer{{uuid: root, v: 0, blocks: map[[3]int][]byte{}}}
	if s.roi != nil {
		if rr := mk("roi", "r"); !rr.OK() {
			s.c.Report("H", "C17 setup", "cannot create ROI instance", rr.String())
			return
		}
		var spans [][4]int
		for z := -2; z < 3; z++ {
			for y := -2; y < 3; y++ {
				if r.Chance(0.6) {
					x0 := -2 + r.Intn(4)
					x1 := x0 + r.Intn(3)
					spans = append(spans, [4]int{z, y, x0, x1})
					for x := x0; x <= x1; x++ {
						s.roi[[3]int{x, y, z}] = true
					}
				}
			}
		}
		if rr := s.postJSON("node/"+root+"/r/roi", spans); !rr.OK() {
			s.c.Report("H", "C17 setup", "cannot post ROI", rr.String())
			return
		}
		s.log("ROI r (block spans z,y,x0,x1): %v", spans)
	}
	s.log("new %s instance %q BlockSize %v", s.kind.typ, s.name, s.bs)
	// an unwritten volume reads as background everywhere
	s.observe(s.vers[0], 2)
	if s.roi != nil {
		// directed: ROI-restricted writes of boxes that lie wholly outside the region in z (no span of the ROI in
		// the box's block-z range), before and after a first write inside: nothing of them may be stored
		s.writeRaw(s.vers[0], [3]int{-1, -1, -3}, [3]int{2, 2, 1}, false, true)
		s.writeRaw(s.vers[0], [3]int{-2, -1, 0}, [3]int{3, 2, 1}, false, true)
		s.writeRaw(s.vers[0], [3]int{-2, -2, -3}, [3]int{3, 3, 1}, false, true)
		s.c.Count("write raw with ROI, box outside the ROI's z range")
		s.observe(s.vers[0], nReads)
	}
	for op := 0; op < nOps && !s.dead; op++ {
		open := s.open()
		if len(open) == 0 {
			break
		}
		p := open[r.Intn(len(open))]
		switch x := r.Intn(10); {
		case x < 4:
			nb := [3]int{1 + r.Intn(2), 1 + r.Intn(2), 1 + r.Intn(2)}
			s.writeRaw(p, s.randBC(-2, 2), nb, r.Chance(0.4), false)
		case x < 6:
			s.writeBlocks(p, s.randBC(-2, 2), 1+r.Intn(3), r.Chance(0.4))
		case x < 7 && s.roi != nil:
			nb := [3]int{1 + r.Intn(3), 1 + r.Intn(2), 1 + r.Intn(2)}
			bc := s.randBC(-2, 1)
			if r.Chance(0.35) {
				// a box that lies wholly below the region in z (the ROI has no span in the box's block-z range):
				// nothing of it may be written
				bc[2], nb[2] = -3, 1
				s.c.Count("write raw with ROI, box outside the ROI's z range")
			}
			s.writeRaw(p, bc, nb, r.Chance(0.4), true)
			s.c.Count("write raw with ROI")
		case x < 9:
			// commit and continue in a child (reads at the parent must not change)
			if len(s.vers) < 5 {
				s.postJSON("node/"+p.uuid+"/commit", map[string]string{"note": "c"})
				p.locked = true
				rr := s.postJSON("node/"+p.uuid+"/newversion", map[string]string{"note": "n"})
				cu := jsonField(rr.Body, "child")
				if !rr.OK() {
					s.c.Report("H", "C17 newversion", "cannot create version", rr.String())
					return
				}
				nv := &ibVer{uuid: cu, v: len(s.vers), blocks: map[[3]int][]byte{}, lo: p.lo, hi: p.hi}
				for k, b := range p.blocks {
					nv.blocks[k] = b
				}
				s.vers = append(s.vers, nv)
				s.log("v%d committed; v%d = new version of it", p.v, nv.v)
				s.c.Count("commit+newversion")
				if r.Chance(0.6) && len(s.vers) < 5 {
					// a sibling on a named branch: both stay open, so writes of one branch follow writes of the other
					rb := s.postJSON("node/"+p.uuid+"/branch", map[string]string{"branch": fmt.Sprintf("side%d", len(s.vers)), "note": "b"})
					if bu := jsonField(rb.Body, "child"); rb.OK() && bu != "" {
						sv := &ibVer{uuid: bu, v: len(s.vers), blocks: map[[3]int][]byte{}, lo: p.lo, hi: p.hi}
						for k, b := range p.blocks {
							sv.blocks[k] = b
						}
						s.vers = append(s.vers, sv)
						s.log("v%d = branch off v%d (sibling of v%d)", sv.v, p.v, nv.v)
						s.c.Count("branch sibling")
					}
				}
			}
		default:
			s.observe(s.vers[r.Intn(len(s.vers))], nReads)
		}
	}
	for _, p := range s.vers {
		if !s.dead {
			s.observe(p, nReads)
		}
	}
}

// ---- X: the transfer map of ReadBlock / WriteBlock against the Lean model ----------------------------------

// probeMap recovers, for a request geometry and one block, which request byte receives which block byte (read)
// or which block byte receives which request byte (write), by running the real transfer on index-coded buffers.
func probeMap(geom dvid.Geometry, values dvid.DataValues, bpv int, bs [3]int, bc [3]int, write bool) (out string, rerr error) {
	defer func() {
		if e := recover(); e != nil {
			out, rerr = "", fmt.Errorf("panic: %v", e)
		}
	}()
	nData := int(geom.NumVoxels()) * bpv
	nBlock := bs[0] * bs[1] * bs[2] * bpv
	idx := dvid.IndexZYX(dvid.ChunkPoint3d{int32(bc[0]), int32(bc[1]), int32(bc[2])})
	tk := imageblk.NewTKey(&idx)
	blockSize := dvid.Point3d{int32(bs[0]), int32(bs[1]), int32(bs[2])}
	stride := geom.Size().Value(0) * int32(bpv)
	srcN, dstN := nBlock, nData
	if write {
		srcN, dstN = nData, nBlock
	}
	// pass 0: which destination bytes are written; passes 1..3: the source index, one byte at a time
	res := make([]int, dstN)
	touched := make([]bool, dstN)
	for pass := 0; pass < 4; pass++ {
		src := make([]byte, srcN)
		dst := make([]byte, dstN)
		for i := range src {
			switch pass {
			case 0:
				src[i] = 1
			default:
				src[i] = byte(i >> uint(8*(pass-1)))
			}
		}
		var data, blk []byte
		if write {
			data, blk = src, dst
		} else {
			data, blk = dst, src
		}
		vox := imageblk.NewVoxels(geom, values, data, stride)
		kv := &storage.TKeyValue{K: tk, V: blk}
		var err error
		if write {
			err = vox.WriteBlock(kv, blockSize)
		} else {
			err = vox.ReadBlock(kv, blockSize, 0)
		}
		if err != nil {
			return "", err
		}
		for i, b := range dst {
			if pass == 0 {
				touched[i] = b == 1
			} else {
				res[i] |= int(b) << uint(8*(pass-1))
			}
		}
	}
	// canonical: maximal runs dst:src:len sorted by dst
	var sb strings.Builder
	n := 0
	for i := 0; i < dstN; {
		if !touched[i] {
			i++
			continue
		}
		j := i + 1
		for j < dstN && touched[j] && res[j] == res[i]+(j-i) {
			j++
		}
		if n > 0 {
			sb.WriteByte(',')
		}
		fmt.Fprintf(&sb, "%d:%d:%d", i, res[i], j-i)
		n++
		i = j
	}
	if n == 0 {
		return "ok -", nil
	}
	return "ok " + sb.String(), nil
}

func (c *Ctx) c17Transfer(n int) {
	r := c.Rng.Fork()
	shapes := []string{"vol", "xy", "xz", "yz"}
	for k := 0; k < n; k++ {
		kind := ibKinds[r.Intn(len(ibKinds))]
		bs := [3]int{2 + r.Intn(7), 2 + r.Intn(7), 2 + r.Intn(7)}
		if r.Chance(0.3) {
			bs = [3]int{8, 8, 8}
		}
		shape := r.Intn(4)
		var off, sz [3]int
		for i := 0; i < 3; i++ {
			off[i] = -2*bs[i] + r.Intn(4*bs[i])
			sz[i] = 1 + r.Intn(2*bs[i]+2)
		}
		var geom dvid.Geometry
		var err error
		offP := dvid.Point3d{int32(off[0]), int32(off[1]), int32(off[2])}
		switch shape {
		case 0:
			geom = dvid.NewSubvolume(offP, dvid.Point3d{int32(sz[0]), int32(sz[1]), int32(sz[2])})
		case 1:
			sz[2] = 1
			geom, err = dvid.NewOrthogSlice(dvid.XY, offP, dvid.Point2d{int32(sz[0]), int32(sz[1])})
		case 2:
			sz[1] = 1
			geom, err = dvid.NewOrthogSlice(dvid.XZ, offP, dvid.Point2d{int32(sz[0]), int32(sz[2])})
		case 3:
			sz[0] = 1
			geom, err = dvid.NewOrthogSlice(dvid.YZ, offP, dvid.Point2d{int32(sz[1]), int32(sz[2])})
		}
		if err != nil {
			c.Report("H", "C17 geometry", "cannot build geometry", err.Error())
			return
		}
		// a block that intersects the request (mostly), or a neighbour that does not
		var bc [3]int
		for i := 0; i < 3; i++ {
			lo, hi := fdivI(off[i], bs[i]), fdivI(off[i]+sz[i]-1, bs[i])
			bc[i] = lo + r.Intn(hi-lo+1)
		}
		write := r.Bool() && shape == 0 // the API writes 3-D boxes only
		values := dvid.DataValues{{T: dvid.T_uint8, Label: "v"}}
		switch kind.bpv {
		case 2:
			values = dvid.DataValues{{T: dvid.T_uint16, Label: "v"}}
		case 4:
			values = dvid.DataValues{{T: dvid.T_uint32, Label: "v"}}
		case 8:
			values = dvid.DataValues{{T: dvid.T_uint64, Label: "v"}}
		}
		impl, perr := probeMap(geom, values, kind.bpv, bs, bc, write)
		if perr != nil {
			impl = "err"
		}
		dir := "read"
		if write {
			dir = "write"
		}
		op := fmt.Sprintf("ib.map %s %s %d %d %d %d %d %d %d %d %d %d %d %d %d", dir, shapes[shape], kind.bpv, bs[0], bs[1], bs[2], off[0], off[1], off[2], sz[0], sz[1], sz[2], bc[0], bc[1], bc[2])
		c.Count("transfer map " + dir + " " + shapes[shape])
		c.Eval(op, impl != "ok -")
		c.AskCmp("C17-transfer-map", op, impl)
		// per-axis ComputeTransform against the model
		if !write {
			idx := dvid.IndexZYX(dvid.ChunkPoint3d{int32(bc[0]), int32(bc[1]), int32(bc[2])})
			vox := imageblk.NewVoxels(geom, values, make([]byte, int(geom.NumVoxels())*kind.bpv), geom.Size().Value(0)*int32(kind.bpv))
			bb, db, de, terr := vox.ComputeTransform(&storage.TKeyValue{K: imageblk.NewTKey(&idx)}, dvid.Point3d{int32(bs[0]), int32(bs[1]), int32(bs[2])})
			if terr == nil {
				for i := 0; i < 3; i++ {
					op := fmt.Sprintf("ib.axis %d %d %d %d", bs[i], off[i], sz[i], bc[i])
					c.AskCmp("C17-axis-transform", op, fmt.Sprintf("ok %d %d %d", bb.Value(uint8(i)), db.Value(uint8(i)), de.Value(uint8(i))))
				}
			}
		}
	}
}

func runC17(c *Ctx) {
	c.Rule = "a case is one read (3-D box, 2-D slice in xy/xz/yz, block span, block-aligned block stream, specific blocks, extents) of one version of an image volume after a generated history of block-aligned writes (raw ingest/mutate, block streams, ROI-masked) at mixed-sign block coordinates interleaved with commit/new version, compared voxel for voxel with what was written (background elsewhere); or one transfer map (which request byte is copied from/to which block byte) of the real ReadBlock/WriteBlock for a generated geometry against the Lean model. non-trivial = the read touches written data / the block intersects the request; distinct by geometry and content"
	c.c17Transfer(map[bool]int{false: 400, true: 4000}[c.Thorough])
	type cfg struct {
		kind ibKind
		bs   [3]int
		bg   byte
		roi  bool
	}
	var cfgs []cfg
	if c.Thorough {
		for _, k := range ibKinds {
			cfgs = append(cfgs, cfg{k, [3]int{16, 16, 16}, 0, false}, cfg{k, [3]int{8, 16, 24}, 0, true}, cfg{k, [3]int{32, 32, 32}, 0, false})
		}
		cfgs = append(cfgs, cfg{ibKinds[0], [3]int{16, 16, 16}, 7, true})
	} else {
		cfgs = []cfg{{ibKinds[0], [3]int{16, 16, 16}, 0, true}, {ibKinds[1], [3]int{8, 16, 24}, 0, false}, {ibKinds[3], [3]int{16, 16, 16}, 0, false},
			{ibKinds[5], [3]int{16, 8, 8}, 0, false}, {ibKinds[0], [3]int{16, 16, 16}, 7, false}, {ibKinds[4], [3]int{8, 8, 8}, 0, true}}
		// rotate the remaining types in by seed
		cfgs = append(cfgs, cfg{ibKinds[2], [3]int{16, 16, 16}, 0, false})
	}
	seeds := 1
	if c.Thorough {
		seeds = 3
	}
	n := 0
	for sd := 0; sd < seeds; sd++ {
		for _, cf := range cfgs {
			n++
			s := &ibSess{c: c, r: c.Rng.Fork(), kind: cf.kind, bs: cf.bs, bg: cf.bg, name: fmt.Sprintf("img%d", n)}
			dir := scratchDir("c17")
			ch, msg := StartChild(dir, nil)
			if ch == nil {
				c.Report("H", "C17 child", "cannot start server process", msg)
				os.RemoveAll(dir)
				return
			}
			s.ch = ch
			if cf.roi {
				s.setupROI()
			}
			nOps, nReads := 14, 5
			if c.Thorough {
				nOps, nReads = 30, 8
			}
			s.run(nOps, nReads)
			ch.Stop("EXIT")
			os.RemoveAll(dir)
			if len(c.Findings) > 6 {
				return
			}
		}
	}
}

// setupROI is called before run() creates the repo, so it only records the wish; the ROI instance itself is
// created lazily by ensureROI once the repo exists.
func (s *ibSess) setupROI() { s.roi = map[[3]int]bool{} }
