package main

import (
	"bytes"
	"fmt"

	"github.com/janelia-flyem/dvid/datatype/common/labels"
	"github.com/janelia-flyem/dvid/dvid"
)

func init() { register("C09", runC09) }

// checkViews: every direct view of block b against the uncompressed array v (oracle O) and against the
// Lean decoder run on b's exported fields (correspondence X).  site prefixes signatures so C10 can reuse it
// on blocks that came out of an operation.
func checkViews(c *Ctx, r *Rng, site string, b *labels.Block, v *vol, replayHead string) {
	rep := func(extra string) string { return blockReplay(v, replayHead+extra) }
	// decode
	var dec *vol
	if p := safely(func() { dec = decodeOf(b) }); p != "" {
		c.Report("O", site+" decode-panic", "MakeLabelVolume panics on a block the codec produced", rep("panic: "+p+"\n"))
		return
	}
	if i := firstDiff(dec.a, v.a); i != -1 {
		c.Report("O", site+" decode-differs", "decompressing the block does not return the array",
			rep(fmt.Sprintf("first differing voxel index %d: got %d want %d\n", i, at(dec.a, i), at(v.a, i))))
		return
	}
	// model on the same fields
	line := blockLine(b)
	ld := c.Model.Ask(line)
	if ld != "ok wf=1 nodup=1" && site == "C09" {
		c.Cmp(site+"-wf", trunc(line), "ok wf=1 nodup=1", ld)
	}
	c.Cmp(site+"-decode", trunc(line)+" ; blk.hash", fmt.Sprintf("ok %d %d", len(dec.a), fnvLabels(dec.a)), c.Model.Ask("blk.hash"))
	// marshal / unmarshal
	ser, _ := b.MarshalBinary()
	var b2 labels.Block
	if err := b2.UnmarshalBinary(append([]byte(nil), ser...)); err != nil {
		c.Report("O", site+" unmarshal-fails", "re-parsing a serialised block fails", rep("error: "+err.Error()+"\n"))
	} else {
		d2 := decodeOf(&b2)
		if i := firstDiff(d2.a, v.a); i != -1 || !b2.Size.Equals(b.Size) {
			c.Report("O", site+" unmarshal-differs", "serialising then re-parsing a block changes it", rep(fmt.Sprintf("first differing voxel %d\n", i)))
		}
		ser2, _ := b2.MarshalBinary()
		if !bytes.Equal(ser, ser2) {
			c.Report("O", site+" remarshal-differs", "re-serialising a re-parsed block gives other bytes", rep(""))
		}
	}
	// streaming decoder
	var wbuf bytes.Buffer
	if err := b.WriteLabelVolume(&wbuf); err != nil {
		c.Report("O", site+" writelabelvolume-error", "WriteLabelVolume fails", rep(err.Error()+"\n"))
	} else if !bytes.Equal(wbuf.Bytes(), v.bytes()) {
		c.Report("O", site+" writelabelvolume-differs", "WriteLabelVolume differs from the array", rep(""))
	}
	// point views
	npts := 40
	pts := make([]dvid.Point3d, 0, npts)
	for i := 0; i < npts; i++ {
		pts = append(pts, dvid.Point3d{int32(r.Intn(v.sx)), int32(r.Intn(v.sy)), int32(r.Intn(v.sz))})
	}
	// corners and sub-block borders
	pts = append(pts, dvid.Point3d{0, 0, 0}, dvid.Point3d{int32(v.sx - 1), int32(v.sy - 1), int32(v.sz - 1)}, dvid.Point3d{7, 7, 7}, dvid.Point3d{8, 8, 8})
	for k, pt := range pts {
		want := v.a[int(pt[2])*v.sx*v.sy+int(pt[1])*v.sx+int(pt[0])]
		var got uint64
		if p := safely(func() { got = b.Value(pt) }); p != "" {
			c.Report("O", site+" value-panic", "Block.Value panics", rep(fmt.Sprintf("point %v panic %s\n", pt, p)))
			break
		}
		if got != want {
			c.Report("O", site+" value-differs", "label at a point on the compressed form differs from the array", rep(fmt.Sprintf("point %v got %d want %d\n", pt, got, want)))
			break
		}
		if k < 6 {
			c.AskCmp(site+"-value", fmt.Sprintf("blk.value %d %d %d", pt[0], pt[1], pt[2]), fmt.Sprintf("ok %d", got))
		}
	}
	for _, pt := range []dvid.Point3d{{-1, 0, 0}, {0, int32(v.sy), 0}, {0, 0, int32(v.sz)}, {0, -5, 2}} {
		got := b.Value(pt)
		if got != 0 {
			c.Report("O", site+" value-outside", "Block.Value outside the block is not 0", rep(fmt.Sprintf("point %v got %d\n", pt, got)))
		}
		c.AskCmp(site+"-value", fmt.Sprintf("blk.value %d %d %d", pt[0], pt[1], pt[2]), fmt.Sprintf("ok %d", got))
	}
	var gpl []uint64
	if p := safely(func() { gpl = b.GetPointLabels(pts) }); p != "" {
		c.Report("O", site+" getpointlabels-panic", "GetPointLabels panics", rep(p+"\n"))
	} else {
		for k, pt := range pts {
			want := v.a[int(pt[2])*v.sx*v.sy+int(pt[1])*v.sx+int(pt[0])]
			if gpl[k] != want {
				c.Report("O", site+" getpointlabels-differs", "GetPointLabels differs from the array", rep(fmt.Sprintf("point %v got %d want %d\n", pt, gpl[k], want)))
				break
			}
		}
	}
	// counts
	want := countsRef(v.a)
	got := map[uint64]int{}
	if p := safely(func() {
		for l, n := range b.CalcNumLabels(nil) {
			if n != 0 {
				got[l] = int(n)
			}
		}
	}); p != "" {
		c.Report("O", site+" counts-panic", "CalcNumLabels panics", rep(p+"\n"))
	} else {
		if countsStr(got) != countsStr(want) {
			c.Report("O", site+" counts-differ", "per-label voxel counts on the compressed form differ from the array's", rep("got  "+trunc(countsStr(got))+"\nwant "+trunc(countsStr(want))+"\n"))
		}
		if len(want) < 3000 {
			c.Cmp(site+"-counts", trunc(line)+" ; blk.counts", "ok "+countsStr(got), c.Model.Ask("blk.counts"))
		}
	}
	// per-slot counts through the unexported getNumVoxels
	if len(b.Labels) > 0 {
		for k := 0; k < 3; k++ {
			i := r.Intn(len(b.Labels))
			var n uint64
			if p := safely(func() { n = labels.VerifGetNumVoxels(b, uint32(i)) }); p != "" {
				c.Report("O", site+" numvoxels-panic", "getNumVoxels panics", rep(p+"\n"))
				break
			}
			ans := c.Model.Ask(fmt.Sprintf("blk.numvox %d", i))
			var mn, ms uint64
			fmt.Sscanf(ans, "ok %d %d", &mn, &ms)
			c.Cmp(site+"-numvox", trunc(line)+fmt.Sprintf(" ; blk.numvox %d (first number)", i), fmt.Sprint(n), fmt.Sprint(mn))
			if site == "C09" {
				// encoder output has each label in one slot: the slot count is the label count
				if int(n) != want[b.Labels[i]] && b.Labels[i] != 0 || b.Labels[i] == 0 && int(n) != countZero(v.a) {
					c.Report("O", site+" numvoxels-differs", "getNumVoxels for a table slot differs from the number of voxels with that label",
						rep(fmt.Sprintf("slot %d label %d got %d want %d\n", i, b.Labels[i], n, map[bool]int{true: countZero(v.a), false: want[b.Labels[i]]}[b.Labels[i] == 0])))
				}
			}
		}
	}
	// sparse views
	coord := dvid.ChunkPoint3d{int32(r.Intn(7) - 3), int32(r.Intn(7) - 3), int32(r.Intn(7) - 3)}
	if r.Chance(0.3) {
		coord = dvid.ChunkPoint3d{int32(r.Intn(2000) - 1000), int32(r.Intn(2000) - 1000), int32(r.Intn(2000) - 1000)}
	}
	off := dvid.Point3d{coord[0] * int32(v.sx), coord[1] * int32(v.sy), coord[2] * int32(v.sz)}
	set := map[uint64]bool{}
	present := []uint64{}
	for l := range countsRef(v.a) {
		present = append(present, l)
		if len(present) > 64 {
			break
		}
	}
	sortU64(present)
	nset := 1 + r.Intn(3)
	for i := 0; i < nset && len(present) > 0; i++ {
		set[present[r.Intn(len(present))]] = true
	}
	if r.Chance(0.3) {
		// the whole label set of one multi-label sub-block (that sub-block is then fully covered by several
		// labels of the set, while other sub-blocks are covered partly or not at all)
		gx, gy, gz := v.sx/8, v.sy/8, v.sz/8
		for try := 0; try < 6; try++ {
			bx, by, bz := r.Intn(gx), r.Intn(gy), r.Intn(gz)
			sub := map[uint64]bool{}
			for i := 0; i < 512; i++ {
				x, y, z := i%8, (i/8)%8, i/64
				sub[v.a[(bz*8+z)*v.sx*v.sy+(by*8+y)*v.sx+bx*8+x]] = true
			}
			if len(sub) >= 2 && len(sub) <= 6 {
				set = sub
				c.Count("sparse-set = all labels of one sub-block")
				break
			}
		}
	}
	if r.Chance(0.2) {
		set[r.U64()|1<<62] = true // absent label
	}
	if len(set) == 0 {
		set[12345678901] = true
	}
	lo := dvid.Point3d{-1 << 30, -1 << 30, -1 << 30}
	hi := dvid.Point3d{1 << 30, 1 << 30, 1 << 30}
	var bounds dvid.Bounds
	if r.Chance(0.4) {
		ob := new(dvid.OptionalBounds)
		bounds.Voxel = ob
		bounds.Exact = true
		if r.Bool() {
			lo[0] = off[0] + int32(r.Intn(v.sx))
			ob.SetMinX(lo[0])
		}
		if r.Bool() {
			hi[0] = off[0] + int32(r.Intn(v.sx))
			ob.SetMaxX(hi[0])
		}
		if r.Bool() {
			lo[1] = off[1] + int32(r.Intn(v.sy))
			ob.SetMinY(lo[1])
		}
		if r.Bool() {
			hi[2] = off[2] + int32(r.Intn(v.sz))
			ob.SetMaxZ(hi[2])
		}
		c.Count("rle-bounded")
	}
	var gotRuns []run
	var rerr error
	if p := safely(func() { gotRuns, rerr = writeRLEsOf(b, coord, set, bounds) }); p != "" {
		c.Report("O", site+" rles-panic", "WriteRLEs panics", rep(p+"\n"))
	} else if rerr != nil {
		c.Report("O", site+" rles-error", "WriteRLEs fails", rep(rerr.Error()+"\n"))
	} else {
		wantRuns := rlesRef(v, off, set, lo, hi)
		if ok, why := sameVoxelSets(voxelsOfRuns(gotRuns), voxelsOfRuns(wantRuns)); !ok {
			c.Report("O", site+" rles-differ", "run-length sparse output differs from the array's", rep(fmt.Sprintf("block coord %v labels %v bounds lo %v hi %v: %s\n", coord, keysOf(set), lo, hi, why)))
		}
		// runs within one row must be maximal: no two emitted runs touch
		sortRuns(gotRuns)
		for i := 1; i < len(gotRuns); i++ {
			a, q := gotRuns[i-1], gotRuns[i]
			if a.y == q.y && a.z == q.z && a.x+a.n >= q.x {
				c.Report("O", site+" rles-fragmented", "WriteRLEs emits touching or overlapping runs in one row", rep(fmt.Sprintf("%v then %v\n", a, q)))
				break
			}
		}
	}
	var bbs []labels.BinaryBlock
	if p := safely(func() { bbs, rerr = writeBinaryOf(b, coord, set) }); p != "" {
		c.Report("O", site+" binary-panic", "WriteBinaryBlocks panics", rep(p+"\n"))
	} else if rerr != nil {
		c.Report("O", site+" binary-error", "WriteBinaryBlocks/ReceiveBinaryBlocks fails", rep(rerr.Error()+"\n"))
	} else {
		any := false
		for _, l := range v.a {
			if set[l] {
				any = true
				break
			}
		}
		inTable := false
		for _, l := range b.Labels {
			if set[l] {
				inTable = true
			}
		}
		if !inTable {
			if len(bbs) != 0 {
				c.Report("O", site+" binary-extra", "binary block written for labels not in the block", rep(""))
			}
		} else if len(bbs) != 1 {
			c.Report("O", site+" binary-count", fmt.Sprintf("expected one binary block, got %d", len(bbs)), rep(fmt.Sprintf("labels %v any=%v\n", keysOf(set), any)))
		} else {
			bb := bbs[0]
			if !bb.Offset.Equals(off) || !bb.Size.Equals(v.size()) {
				c.Report("O", site+" binary-header", "binary block offset/size wrong", rep(fmt.Sprintf("got %v %v want %v %v\n", bb.Offset, bb.Size, off, v.size())))
			} else {
				for i, l := range v.a {
					if bb.Voxels[i] != set[l] {
						c.Report("O", site+" binary-differs", "binary-block sparse output differs from the array's", rep(fmt.Sprintf("labels %v voxel index %d got %v want %v\n", keysOf(set), i, bb.Voxels[i], set[l])))
						break
					}
				}
			}
		}
	}
}

func at(a []uint64, i int) uint64 {
	if i >= 0 && i < len(a) {
		return a[i]
	}
	return 0
}

func countZero(a []uint64) int {
	n := 0
	for _, l := range a {
		if l == 0 {
			n++
		}
	}
	return n
}

func sortU64(a []uint64) {
	for i := 1; i < len(a); i++ {
		for j := i; j > 0 && a[j] < a[j-1]; j-- {
			a[j], a[j-1] = a[j-1], a[j]
		}
	}
}

func keysOf(m map[uint64]bool) []uint64 {
	var k []uint64
	for l := range m {
		k = append(k, l)
	}
	sortU64(k)
	return k
}

func trunc(s string) string {
	if len(s) > 300 {
		return s[:300] + "…"
	}
	return s
}

func runC09(c *Ctx) {
	c.Rule = "a case is one label array compressed with MakeBlock or SubvolumeToBlock and checked through every view; non-trivial when the block has at least one sub-block with 2 or more labels"
	r := c.Rng
	// primitives: bitsFor over every uint16 the format allows, getPackedValue on every (bit offset, width) pair
	for n := 0; n <= 600; n++ {
		c.AskCmp("C09-bitsfor", fmt.Sprintf("blk.bitsfor %d", n), fmt.Sprintf("ok %d", labels.VerifBitsFor(uint16(n))))
	}
	for _, n := range []int{1023, 1024, 1025, 32767, 32768, 32769, 65535} {
		c.AskCmp("C09-bitsfor", fmt.Sprintf("blk.bitsfor %d", n), fmt.Sprintf("ok %d", labels.VerifBitsFor(uint16(n))))
	}
	for bitPos := 0; bitPos < 8; bitPos++ {
		for bits := 1; bits <= 9; bits++ {
			for k := 0; k < 4; k++ {
				b0, b1 := byte(r.U64()), byte(r.U64())
				got := labels.VerifGetPackedValue([]byte{0, b0, b1}, uint32(8+bitPos), uint32(bits))
				c.AskCmp("C09-getpacked", fmt.Sprintf("blk.getpacked %d %d %d %d", b0, b1, bitPos, bits), fmt.Sprintf("ok %d", got))
				want := (uint32(b0)<<8 | uint32(b1)) >> uint(16-bitPos-bits) & (1<<uint(bits) - 1)
				if uint32(got) != want {
					c.Report("O", "C09 getpacked-differs", "getPackedValue is not the bit slice", fmt.Sprintf("bytes %d %d bitpos %d bits %d got %d want %d\n", b0, b1, bitPos, bits, got, want))
				}
				c.Eval(fmt.Sprintf("gp %d %d %d %d", b0, b1, bitPos, bits), true)
			}
		}
	}
	nblocks := 40
	if c.Thorough {
		nblocks = 500
	}
	for it := 0; it < nblocks; it++ {
		sx, sy, sz := genDims(r, c.Thorough)
		if it < 6 {
			// directed geometries: smallest, odd sub-block counts, non-cubic
			d := [][3]int{{16, 16, 16}, {24, 24, 24}, {16, 24, 40}, {32, 16, 24}, {24, 40, 56}, {64, 64, 64}}[it]
			sx, sy, sz = d[0], d[1], d[2]
		}
		v, mode := genVol(r, c, sx, sy, sz)
		c.Count(fmt.Sprintf("dims-%dx%dx%d", sx, sy, sz))
		var b *labels.Block
		var err error
		viaSub := r.Chance(0.3)
		if viaSub {
			// embed the block in a larger subvolume at a random block-aligned offset of a random subvolume origin
			c.Count("via-SubvolumeToBlock")
			nbx, nby, nbz := 1+r.Intn(2), 1+r.Intn(2), 1+r.Intn(2)
			ox, oy, oz := r.Intn(nbx), r.Intn(nby), r.Intn(nbz)
			big := &vol{sx * nbx, sy * nby, sz * nbz, nil}
			big.a = make([]uint64, big.sx*big.sy*big.sz)
			for i := range big.a {
				big.a[i] = r.U64()
			}
			for z := 0; z < sz; z++ {
				for y := 0; y < sy; y++ {
					copy(big.a[(oz*sz+z)*big.sx*big.sy+(oy*sy+y)*big.sx+ox*sx:], v.a[z*sx*sy+y*sx:z*sx*sy+y*sx+sx])
				}
			}
			bc := dvid.ChunkPoint3d{int32(r.Intn(9) - 4), int32(r.Intn(9) - 4), int32(r.Intn(9) - 4)}
			start := dvid.Point3d{(bc[0] - int32(ox)) * int32(sx), (bc[1] - int32(oy)) * int32(sy), (bc[2] - int32(oz)) * int32(sz)}
			sv := dvid.NewSubvolume(start, big.size())
			if p := safely(func() { b, err = labels.SubvolumeToBlock(sv, big.bytes(), dvid.IndexZYX(bc), v.size()) }); p != "" {
				c.Report("O", "C09 subvolumetoblock-panic", "SubvolumeToBlock panics", blockReplay(v, p+"\n"))
				continue
			}
		} else {
			if p := safely(func() { b, err = labels.MakeBlock(v.bytes(), v.size()) }); p != "" {
				c.Report("O", "C09 makeblock-panic", "MakeBlock panics", blockReplay(v, p+"\n"))
				continue
			}
		}
		canon := fmt.Sprintf("%d %d %d %s %x", sx, sy, sz, mode, fnvLabels(v.a))
		if err != nil {
			odd := (sx/8)*(sy/8)*(sz/8)%2 == 1
			if odd {
				c.Report("O", "C09 makeblock-fails-odd-subblock-count", "compressing a multi-label array fails when the number of 8x8x8 sub-blocks is odd (uint32 index list not 4-byte aligned)",
					blockReplay(v, "error: "+err.Error()+"\n"))
			} else {
				c.Report("O", "C09 makeblock-fails", "compressing a legal array fails", blockReplay(v, "error: "+err.Error()+"\n"))
			}
			c.Eval(canon, false)
			continue
		}
		c.Eval(canon, len(b.Labels) > 1)
		checkViews(c, r.Fork(), "C09", b, v, fmt.Sprintf("mode: %s viaSubvolume: %v\n", mode, viaSub))
		// counts against a previous block
		if it%3 == 0 {
			v2, _ := genVol(r, c, sx, sy, sz)
			if b2, err := labels.MakeBlock(v2.bytes(), v2.size()); err == nil {
				got := map[uint64]int{}
				for l, n := range b.CalcNumLabels(b2) {
					if n != 0 {
						got[l] = int(n)
					}
				}
				want := countsRef(v.a)
				for l, n := range countsRef(v2.a) {
					want[l] -= n
					if want[l] == 0 {
						delete(want, l)
					}
				}
				if countsStr(got) != countsStr(want) {
					c.Report("O", "C09 count-delta-differs", "CalcNumLabels(prev) differs from the difference of the arrays' counts", blockReplay(v, "prev "+blockReplay(v2, "")))
				}
			}
		}
	}
}
