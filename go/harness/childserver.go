package main

import (
	"bufio"
	"bytes"
	"encoding/hex"
	"fmt"
	"io"
	"net/http"
	"net/http/httptest"
	"os"
	"os/exec"
	"path/filepath"
	"strconv"
	"strings"
	"sync"
	"sync/atomic"
	"time"

	"github.com/blang/semver"

	"github.com/janelia-flyem/dvid/datastore"
	"github.com/janelia-flyem/dvid/dvid"
	"github.com/janelia-flyem/dvid/server"
	"github.com/janelia-flyem/dvid/storage"
	"github.com/janelia-flyem/dvid/storage/badger"
)

// ---- crashkv: a storage engine registered from the harness (no repo change).  It embeds the real Badger
// store and counts every write call; CRASH_AT=n makes the process exit immediately before write n, and
// CRASH_AFTER=n immediately after it. ----

var kvWrites int64
var crashBefore, crashAfter int64 = -1, -1
var writeLog *os.File

func noteWrite(kind string, key []byte) {
	n := atomic.AddInt64(&kvWrites, 1)
	if writeLog != nil {
		fmt.Fprintf(writeLog, "%d %s %s\n", n, kind, hex.EncodeToString(key))
	}
	if n == crashBefore {
		if writeLog != nil {
			writeLog.Sync()
		}
		os.Exit(77)
	}
}
func afterWrite() {
	if atomic.LoadInt64(&kvWrites) == crashAfter {
		if writeLog != nil {
			writeLog.Sync()
		}
		os.Exit(78)
	}
}

type crashEngine struct{ inner badger.Engine }

func (e crashEngine) GetName() string           { return "crashkv" }
func (e crashEngine) GetDescription() string    { return "badger with write counting and crash points" }
func (e crashEngine) IsDistributed() bool       { return false }
func (e crashEngine) GetSemVer() semver.Version { return e.inner.GetSemVer() }
func (e crashEngine) String() string            { return "crashkv" }
func (e crashEngine) NewStore(config dvid.StoreConfig) (dvid.Store, bool, error) {
	st, created, err := e.inner.NewStore(config)
	if err != nil {
		return nil, created, err
	}
	db, ok := st.(*badger.BadgerDB)
	if !ok {
		return nil, created, fmt.Errorf("crashkv: inner store is %T", st)
	}
	return &crashDB{db}, created, nil
}

type crashDB struct{ *badger.BadgerDB }

func (db *crashDB) Put(ctx storage.Context, tk storage.TKey, v []byte) error {
	noteWrite("put", ctx.ConstructKey(tk))
	err := db.BadgerDB.Put(ctx, tk, v)
	afterWrite()
	return err
}
func (db *crashDB) Delete(ctx storage.Context, tk storage.TKey) error {
	noteWrite("delete", ctx.ConstructKey(tk))
	err := db.BadgerDB.Delete(ctx, tk)
	afterWrite()
	return err
}
func (db *crashDB) RawPut(k storage.Key, v []byte) error {
	noteWrite("rawput", k)
	err := db.BadgerDB.RawPut(k, v)
	afterWrite()
	return err
}
func (db *crashDB) RawDelete(k storage.Key) error {
	noteWrite("rawdelete", k)
	err := db.BadgerDB.RawDelete(k)
	afterWrite()
	return err
}
func (db *crashDB) PutRange(ctx storage.Context, kvs []storage.TKeyValue) error {
	noteWrite("putrange", nil)
	err := db.BadgerDB.PutRange(ctx, kvs)
	afterWrite()
	return err
}
func (db *crashDB) DeleteRange(ctx storage.Context, a, b storage.TKey) error {
	noteWrite("deleterange", nil)
	err := db.BadgerDB.DeleteRange(ctx, a, b)
	afterWrite()
	return err
}
func (db *crashDB) DeleteAll(ctx storage.Context) error {
	noteWrite("deleteall", nil)
	err := db.BadgerDB.DeleteAll(ctx)
	afterWrite()
	return err
}

type crashBatch struct{ storage.Batch }

func (b *crashBatch) Commit() error {
	noteWrite("batchcommit", nil)
	err := b.Batch.Commit()
	afterWrite()
	return err
}
func (db *crashDB) NewBatch(ctx storage.Context) storage.Batch {
	return &crashBatch{db.BadgerDB.NewBatch(ctx)}
}
func (db *crashDB) Equal(c dvid.StoreConfig) bool { return db.BadgerDB.Equal(c) }

func init() {
	childModes["server"] = childServer
}

func registerCrashEngine() {
	e := storage.GetEngine("badger")
	be, ok := e.(badger.Engine)
	if !ok {
		fmt.Fprintf(os.Stderr, "child: badger engine not available (%T)\n", e)
		os.Exit(2)
	}
	storage.RegisterEngine(crashEngine{be})
}

// childServer: a real DVID server process on the given directory.  Line protocol on stdin/stdout:
//
//	H <method> <url> <bodyhex|->     -> "<code> <bodyhex|->"
//	DUMP                             -> manager dump with newlines as '|'
//	WRITES                           -> number of store writes so far
//	CRASHAT <n> / CRASHAFTER <n>     -> arm a crash point relative to the absolute write counter
//	MUTID <uuid>                     -> a new mutation id of the repo
//	SETTLE <uuid> <name>             -> block until the instance's background updates are done
//	SHUTDOWN                         -> clean stop (datastore.Shutdown; storage.Shutdown), exit 0
//	EXIT                             -> abrupt exit without any shutdown, exit 0
func childServer(args []string) {
	if len(args) < 1 {
		fmt.Fprintln(os.Stderr, "child server: need directory")
		os.Exit(2)
	}
	dir := args[0]
	mode := ""
	if len(args) > 1 {
		mode = args[1]
	}
	quietLogs()
	registerCrashEngine()
	if v := os.Getenv("CRASH_AT"); v != "" {
		crashBefore, _ = strconv.ParseInt(v, 10, 64)
	}
	if v := os.Getenv("CRASH_AFTER"); v != "" {
		crashAfter, _ = strconv.ParseInt(v, 10, 64)
	}
	if os.Getenv("WRITE_LOG") != "" {
		writeLog, _ = os.OpenFile(os.Getenv("WRITE_LOG"), os.O_CREATE|os.O_APPEND|os.O_WRONLY, 0o644)
	}
	os.MkdirAll(dir, 0o755)
	conf := filepath.Join(dir, "config.toml")
	rw := ""
	if mode == "readonly" || mode == "fullwrite" {
		rw = "rwmode = \"" + mode + "\"\n"
	}
	cache := ""
	if os.Getenv("VERIF_LM_CACHE") != "" {
		cache = "[cache]\n    [cache.labelmap]\n    size = 64\n"
	}
	if v := os.Getenv("VERIF_IID_START"); v != "" {
		rw += "instance_id_gen = \"sequential\"\ninstance_id_start = " + v + "\n"
	}
	toml := cache + fmt.Sprintf(`[server]
httpAddress = ":0"
rpcAddress = ":0"
shutdownDelay = 0
allowLabelmapSplit = true
%s
[logging]
logfile = %q
[backend]
    [backend.default]
    store = "main"
    log = "mutlog"
[store]
    [store.main]
    engine = "crashkv"
    path = %q
    [store.mutlog]
    engine = "filelog"
    path = %q
`, rw, filepath.Join(dir, "dvid.log"), filepath.Join(dir, "db"), filepath.Join(dir, "mutlog"))
	os.WriteFile(conf, []byte(toml), 0o644)
	fail := func(stage string, err error) {
		fmt.Printf("STARTFAIL %s %s\n", stage, strings.ReplaceAll(err.Error(), "\n", " "))
		os.Exit(3)
	}
	if err := server.LoadConfig(conf); err != nil {
		fail("loadconfig", err)
	}
	if err := server.Initialize(); err != nil {
		fail("serverinit", err)
	}
	quietLogs()
	backend, err := server.InitBackend()
	if err != nil {
		fail("backend", err)
	}
	datatypes := make(map[dvid.TypeString]struct{})
	for _, t := range datastore.Compiled {
		datatypes[t.GetTypeName()] = struct{}{}
	}
	initMetadata, err := storage.Initialize(dvid.Config{}, backend, datatypes)
	if err != nil {
		fail("storage", err)
	}
	if err := datastore.Initialize(initMetadata, server.DatastoreConfig()); err != nil {
		fail("datastore", err)
	}
	if tok := os.Getenv("ADMIN_TOKEN"); tok != "" {
		server.SetAdminToken(tok)
	}
	w := bufio.NewWriter(os.Stdout)
	fmt.Fprintf(w, "READY %d\n", atomic.LoadInt64(&kvWrites))
	w.Flush()
	rd := bufio.NewReaderSize(os.Stdin, 1<<24)
	for {
		ln, err := rd.ReadString('\n')
		ln = strings.TrimRight(ln, "\r\n")
		if ln == "" && err != nil {
			return
		}
		f := strings.Fields(ln)
		if len(f) == 0 {
			continue
		}
		switch f[0] {
		case "H":
			var body io.Reader = http.NoBody
			if len(f) > 3 && f[3] != "-" {
				b, _ := hex.DecodeString(f[3])
				body = bytes.NewReader(b)
			}
			req, rerr := http.NewRequest(f[1], f[2], body)
			if rerr != nil {
				fmt.Fprintf(w, "-1 %s\n", hex.EncodeToString([]byte(rerr.Error())))
				break
			}
			if tok := os.Getenv("SEND_TOKEN"); tok != "" {
				q := req.URL.Query()
				q.Set("admintoken", tok)
				req.URL.RawQuery = q.Encode()
			}
			rec := httptest.NewRecorder()
			func() {
				defer func() {
					if e := recover(); e != nil {
						rec.Code = 599
						rec.Body.WriteString(fmt.Sprintf("PANIC escaped handler: %v", e))
					}
				}()
				server.ServeSingleHTTP(rec, req)
			}()
			fmt.Fprintf(w, "%d %s\n", rec.Code, hxs(rec.Body.Bytes()))
		case "DUMP":
			fmt.Fprintf(w, "%s\n", strings.ReplaceAll(strings.TrimSpace(datastore.VerifManagerDump()), "\n", "|"))
		case "WRITES":
			fmt.Fprintf(w, "%d\n", atomic.LoadInt64(&kvWrites))
		case "CRASHAT":
			crashBefore, _ = strconv.ParseInt(f[1], 10, 64)
			fmt.Fprintln(w, "ok")
		case "CRASHAFTER":
			crashAfter, _ = strconv.ParseInt(f[1], 10, 64)
			fmt.Fprintln(w, "ok")
		case "MUTID":
			d, derr := datastore.GetDataByUUIDName(dvid.UUID(f[1]), dvid.InstanceName(f[2]))
			if derr != nil {
				fmt.Fprintf(w, "err %s\n", strings.ReplaceAll(derr.Error(), "\n", " "))
				break
			}
			fmt.Fprintf(w, "%d\n", d.NewMutationID())
		case "BURST": // BURST <POST|DELETE> <uuid> <inst> <n> <workers> <value prefix>: concurrent single-key requests on key/k<i>
			n, _ := strconv.Atoi(f[4])
			workers, _ := strconv.Atoi(f[5])
			var okN int64
			var bwg sync.WaitGroup
			next := int64(-1)
			for wk := 0; wk < workers; wk++ {
				bwg.Add(1)
				go func() {
					defer bwg.Done()
					for {
						i := int(atomic.AddInt64(&next, 1))
						if i >= n {
							return
						}
						var body io.Reader = http.NoBody
						if f[1] == "POST" {
							body = strings.NewReader(fmt.Sprintf("%s-%d", f[6], i))
						}
						req, _ := http.NewRequest(f[1], fmt.Sprintf("/api/node/%s/%s/key/k%d", f[2], f[3], i), body)
						rec := httptest.NewRecorder()
						server.ServeSingleHTTP(rec, req)
						if rec.Code == 200 {
							atomic.AddInt64(&okN, 1)
						}
					}
				}()
			}
			bwg.Wait()
			fmt.Fprintf(w, "ok %d\n", okN)
		case "TORN": // TORN <uuid> <inst> <n> <own prefix> <parent prefix>: classify key/k<i> at the version
			n, _ := strconv.Atoi(f[3])
			own, gone, torn, other, first := 0, 0, 0, 0, -1
			for i := 0; i < n; i++ {
				req, _ := http.NewRequest("GET", fmt.Sprintf("/api/node/%s/%s/key/k%d", f[1], f[2], i), http.NoBody)
				rec := httptest.NewRecorder()
				server.ServeSingleHTTP(rec, req)
				b := rec.Body.String()
				switch {
				case rec.Code == 404:
					gone++
				case rec.Code == 200 && b == fmt.Sprintf("%s-%d", f[4], i):
					own++
				case rec.Code == 200 && b == fmt.Sprintf("%s-%d", f[5], i):
					torn++
					if first < 0 {
						first = i
					}
				default:
					other++
				}
			}
			fmt.Fprintf(w, "own=%d gone=%d torn=%d other=%d first=%d\n", own, gone, torn, other, first)
		case "COPY": // COPY <uuid> <source> <target> <transmit mode>
			cfg := dvid.NewConfig()
			cfg.Set("transmit", f[4])
			if derr := datastore.CopyInstance(dvid.UUID(f[1]), dvid.InstanceName(f[2]), dvid.InstanceName(f[3]), cfg); derr != nil {
				fmt.Fprintf(w, "err %s\n", strings.ReplaceAll(derr.Error(), "\n", " "))
			} else {
				fmt.Fprintln(w, "ok")
			}
		case "IID":
			d, derr := datastore.GetDataByUUIDName(dvid.UUID(f[1]), dvid.InstanceName(f[2]))
			if derr != nil {
				fmt.Fprintf(w, "err %s\n", strings.ReplaceAll(derr.Error(), "\n", " "))
				break
			}
			fmt.Fprintf(w, "%d\n", d.InstanceID())
		case "SETTLE":
			if derr := datastore.BlockOnUpdating(dvid.UUID(f[1]), dvid.InstanceName(f[2])); derr != nil {
				fmt.Fprintf(w, "err %s\n", strings.ReplaceAll(derr.Error(), "\n", " "))
			} else {
				fmt.Fprintln(w, "ok")
			}
		case "SHUTDOWN":
			datastore.Shutdown()
			storage.Shutdown()
			fmt.Fprintln(w, "bye")
			w.Flush()
			os.Exit(0)
		case "EXIT":
			fmt.Fprintln(w, "bye")
			w.Flush()
			os.Exit(0)
		default:
			fmt.Fprintln(w, "bad-child-op")
		}
		w.Flush()
		if err != nil {
			return
		}
	}
}

func hxs(b []byte) string {
	if len(b) == 0 {
		return "-"
	}
	return hex.EncodeToString(b)
}

// ---- parent side ----

type Child struct {
	cmd   *exec.Cmd
	in    io.WriteCloser
	out   *bufio.Reader
	dir   string
	Ready string
	dead  bool
	exit  int
}

// StartChild launches a server child on dir with extra environment; returns nil + message if it fails to start.
func StartChild(dir string, env []string, extra ...string) (*Child, string) {
	args := append([]string{"-child", "server", dir}, extra...)
	cmd := exec.Command(os.Args[0], args...)
	cmd.Env = append(os.Environ(), "GOMEMLIMIT=3GiB")
	cmd.Env = append(cmd.Env, env...)
	in, _ := cmd.StdinPipe()
	out, _ := cmd.StdoutPipe()
	cmd.Stderr = io.Discard
	os.MkdirAll(dir, 0o755)
	if ef, err := os.OpenFile(filepath.Join(dir, "child.stderr"), os.O_CREATE|os.O_APPEND|os.O_WRONLY, 0o644); err == nil {
		cmd.Stderr = ef // a panic that escapes a handler goroutine is reported here
		defer ef.Close()
	}
	if os.Getenv("VERIF_VERBOSE") != "" {
		cmd.Stderr = os.Stderr
	}
	if err := cmd.Start(); err != nil {
		return nil, err.Error()
	}
	c := &Child{cmd: cmd, in: in, out: bufio.NewReaderSize(out, 1<<24), dir: dir}
	// the server prints a few informational lines on stdout while starting; skip to READY / STARTFAIL
	var seen []string
	for i := 0; i < 50; i++ {
		ln, ok := c.readLine(30 * time.Second)
		if ok && strings.HasPrefix(ln, "READY") {
			c.Ready = ln
			return c, ""
		}
		seen = append(seen, ln)
		if !ok || strings.HasPrefix(ln, "STARTFAIL") {
			break
		}
	}
	c.Kill()
	return nil, "child did not start: " + strings.Join(seen, " / ") + fmt.Sprintf(" (exit %d)", c.exit)
}

func (c *Child) readLine(timeout time.Duration) (string, bool) {
	type res struct {
		s   string
		err error
	}
	ch := make(chan res, 1)
	go func() {
		s, err := c.out.ReadString('\n')
		ch <- res{s, err}
	}()
	select {
	case r := <-ch:
		if r.err != nil {
			c.dead = true
			if werr := c.cmd.Wait(); werr != nil {
				if ee, ok := werr.(*exec.ExitError); ok {
					c.exit = ee.ExitCode()
				}
			}
			return strings.TrimRight(r.s, "\r\n"), r.s != ""
		}
		return strings.TrimRight(r.s, "\r\n"), true
	case <-time.After(timeout):
		c.Kill()
		return "TIMEOUT", false
	}
}

// Ask sends one protocol line; ok=false if the child died or timed out (c.exit holds its exit code).
func (c *Child) Ask(line string) (string, bool) {
	if c.dead {
		return "DEAD", false
	}
	if _, err := io.WriteString(c.in, line+"\n"); err != nil {
		c.dead = true
		c.cmd.Wait()
		return "DEAD", false
	}
	return c.readLine(120 * time.Second)
}

// AskT is Ask with its own time limit (the child is killed when it is exceeded)
func (c *Child) AskT(line string, timeout time.Duration) (string, bool) {
	if c.dead {
		return "DEAD", false
	}
	if _, err := io.WriteString(c.in, line+"\n"); err != nil {
		c.dead = true
		c.cmd.Wait()
		return "DEAD", false
	}
	return c.readLine(timeout)
}

func (c *Child) HTTP(method, path string, body []byte) (Resp, bool) {
	ln, ok := c.Ask(fmt.Sprintf("H %s %s %s", method, api(path), hxs(body)))
	if !ok {
		return Resp{Code: -2, Body: []byte(ln)}, false
	}
	f := strings.SplitN(ln, " ", 2)
	code, _ := strconv.Atoi(f[0])
	var b []byte
	if len(f) > 1 && f[1] != "-" {
		b, _ = hex.DecodeString(f[1])
	}
	r := Resp{Code: code, Body: b}
	if code >= 500 && (bytes.Contains(b, []byte("anic")) || code == 599) {
		panicMu.Lock()
		panicSeen = append(panicSeen, fmt.Sprintf("%s %s -> %s", method, path, r.String()))
		panicMu.Unlock()
	}
	return r, true
}

// StderrTail: the last lines the child wrote to stderr (a Go panic trace when it died of one), badger noise dropped
func (c *Child) StderrTail(n int) string {
	b, err := os.ReadFile(filepath.Join(c.dir, "child.stderr"))
	if err != nil {
		return ""
	}
	var keep []string
	for _, ln := range strings.Split(string(b), "\n") {
		if strings.HasPrefix(ln, "badger ") || strings.TrimSpace(ln) == "" {
			continue
		}
		keep = append(keep, ln)
	}
	// the head of a panic trace is what identifies it
	for i, ln := range keep {
		if strings.HasPrefix(ln, "panic:") || strings.HasPrefix(ln, "fatal error:") {
			keep = keep[i:]
			break
		}
	}
	if len(keep) > n {
		keep = keep[:n]
	}
	return strings.Join(keep, "\n")
}

func (c *Child) Stop(how string) {
	if c.dead {
		return
	}
	c.Ask(how) // SHUTDOWN or EXIT
	done := make(chan struct{})
	go func() { c.cmd.Wait(); close(done) }()
	select {
	case <-done:
	case <-time.After(20 * time.Second):
		c.cmd.Process.Kill()
	}
	c.dead = true
}

func (c *Child) Kill() {
	if c.cmd.Process != nil {
		c.cmd.Process.Kill()
	}
	c.cmd.Wait()
	c.dead = true
}

// scratchDir returns a fresh directory outside /repo and /verif; remove it with os.RemoveAll when done.
func scratchDir(tag string) string {
	d, err := os.MkdirTemp("", "verif-"+tag+"-")
	if err != nil {
		panic(err)
	}
	return d
}
