package main

import (
	"encoding/json"
	"fmt"
	"os"
	"path/filepath"
	"sort"
	"strconv"
	"strings"

	"github.com/janelia-flyem/dvid/dvid"
	"github.com/janelia-flyem/dvid/storage"
	_ "github.com/janelia-flyem/dvid/storage/filelog"
	"io"
	"time"
)

func init() { register("C04", runC04) }

func runC04(c *Ctx) {
	c.Rule = "(A) file logs: generated record lists appended through the real filelog engine, the file cut at every byte offset of the tail record (and mid-file), read back with ReadAll and StreamAll, compared with the Lean reader and with 'exactly the complete records'; (B) real server processes: a workload of repo/DAG/key-value/label operations, the process killed immediately before and immediately after the N-th store write for all N, restarted, then killed again during recovery start-up and restarted; after recovery every acknowledged operation must be visible, the interrupted one entirely present or absent, the manager state well formed. non-trivial = a torn tail or a crash point inside a multi-write operation; distinct by (records, cut) / (crash point, mode)"
	quietLogs()
	c04FileLog(c)
	c04Crash(c)
}

// ---- (A) file log framing --------------------------------------------------------------------

func c04FileLog(c *Ctx) {
	r := c.Rng.Fork()
	eng := storage.GetEngine("filelog")
	if eng == nil {
		c.Report("H", "C04 no-filelog-engine", "filelog engine not registered", "")
		return
	}
	n := 12
	if c.Thorough {
		n = 150
	}
	for it := 0; it < n; it++ {
		dir := scratchDir("c04log")
		var cfg dvid.StoreConfig
		cfg.Engine = "filelog"
		cfg.Config = dvid.NewConfig()
		cfg.Set("path", dir)
		st, _, err := eng.NewStore(cfg)
		if err != nil {
			c.Report("H", "C04 filelog-open", err.Error(), "")
			os.RemoveAll(dir)
			return
		}
		wl, ok1 := st.(storage.WriteLog)
		rl, ok2 := st.(storage.ReadLog)
		if !ok1 || !ok2 {
			c.Report("H", "C04 filelog-iface", fmt.Sprintf("%T", st), "")
			os.RemoveAll(dir)
			return
		}
		dataID, ver := dvid.UUID("d"), dvid.UUID("v")
		nrec := 1 + r.Intn(5)
		var recs []string
		var offsets []int
		total := 0
		for i := 0; i < nrec; i++ {
			typ := uint16(r.Intn(5))
			if r.Chance(0.2) {
				typ = uint16(r.U64())
			}
			var data []byte
			switch r.Intn(4) {
			case 0:
				data = nil
			case 1:
				data = r.Bytes(1 + r.Intn(4))
			default:
				data = r.Bytes(1 + r.Intn(40))
			}
			if err := wl.Append(dataID, ver, storage.LogMessage{EntryType: typ, Data: data}); err != nil {
				c.Report("H", "C04 filelog-append", err.Error(), "")
			}
			recs = append(recs, fmt.Sprintf("%d:%s", typ, hx(data)))
			offsets = append(offsets, total)
			total += 6 + len(data)
		}
		wl.CloseLog(dataID, ver)
		fname := filepath.Join(dir, "d-v")
		full, err := os.ReadFile(fname)
		if err != nil || len(full) != total {
			c.Report("H", "C04 filelog-file", fmt.Sprintf("len=%d want %d err=%v", len(full), total, err), "")
			os.RemoveAll(dir)
			continue
		}
		// every cut inside the tail record, plus a few cuts inside earlier records
		cuts := map[int]bool{total: true}
		for k := offsets[nrec-1]; k < total; k++ {
			cuts[k] = true
		}
		for k := 0; k < 4; k++ {
			cuts[r.Intn(total+1)] = true
		}
		var cl []int
		for k := range cuts {
			cl = append(cl, k)
		}
		sort.Ints(cl)
		for _, cut := range cl {
			os.WriteFile(fname, full[:cut], 0o644)
			// complete records in the first `cut` bytes
			var want []string
			for i := 0; i < nrec; i++ {
				end := total
				if i+1 < nrec {
					end = offsets[i+1]
				}
				if end <= cut {
					want = append(want, recs[i])
				}
			}
			wantS := "-"
			if len(want) > 0 {
				wantS = strings.Join(want, ",")
			}
			read := func(stream bool) (out string) {
				defer func() {
					if e := recover(); e != nil {
						out = fmt.Sprintf("PANIC(%v)", e)
					}
				}()
				var got []string
				if stream {
					ch := make(chan storage.LogMessage, 1000)
					done := make(chan struct{})
					go func() {
						defer func() { recover(); close(done) }()
						rl.StreamAll(dataID, ver, ch)
					}()
					for m := range ch {
						got = append(got, fmt.Sprintf("%d:%s", m.EntryType, hx(m.Data)))
					}
					<-done
				} else {
					msgs, err := rl.ReadAll(dataID, ver)
					if err != nil {
						return "err " + err.Error()
					}
					for _, m := range msgs {
						got = append(got, fmt.Sprintf("%d:%s", m.EntryType, hx(m.Data)))
					}
				}
				if len(got) == 0 {
					return "-"
				}
				return strings.Join(got, ",")
			}
			gotAll := read(false)
			tornTail := cut < total && cut > offsets[nrec-1]
			op := "flog.read " + hx(full[:cut])
			model := strings.TrimPrefix(c.Model.Ask(op), "ok ")
			// the model marks a torn record as TORN(..): the implementation then returns a padded record or panics;
			// compare only when the model has no torn item
			if !strings.Contains(model, "TORN") {
				c.Cmp("filelog.ReadAll", op, gotAll, model)
			}
			if gotAll != wantS {
				sig := "C04 filelog-torn-tail-returned"
				if strings.HasPrefix(gotAll, "PANIC") {
					sig = "C04 filelog-torn-tail-panic"
				}
				c.Report("O", sig, "reading a log whose tail record is torn yields something other than exactly the complete records",
					fmt.Sprintf("records appended: %s\nfile cut at byte %d of %d (tail record starts at %d)\nReadAll returned: %s\nexpected: %s\nfile bytes: %s", strings.Join(recs, ","), cut, total, offsets[nrec-1], gotAll, wantS, hx(full[:cut])))
			}
			gotStream := read(true)
			if gotStream != wantS {
				sig := "C04 filelog-torn-tail-returned (StreamAll)"
				if strings.HasPrefix(gotStream, "PANIC") {
					sig = "C04 filelog-torn-tail-panic (StreamAll)"
				}
				c.Report("O", sig, "streaming a log whose tail record is torn yields something other than exactly the complete records",
					fmt.Sprintf("records appended: %s\nfile cut at byte %d of %d\nStreamAll returned: %s\nexpected: %s", strings.Join(recs, ","), cut, total, gotStream, wantS))
			}
			c.Eval(fmt.Sprintf("flog %s cut=%d", strings.Join(recs, ","), cut), tornTail)
			if tornTail {
				c.Count("filelog.torn-tail")
			} else {
				c.Count("filelog.clean-cut")
			}
		}
		st.Close()
		os.RemoveAll(dir)
	}
}

// ---- (B) crash points on real server processes -----------------------------------------------

type wop struct {
	name   string
	method string
	path   func(w *wstate) string
	body   func(w *wstate) []byte
	post   func(w *wstate, r Resp)
}

type wstate struct {
	root, v2, v3, br, mg string
}

func workload() []wop {
	js := func(s string) func(*wstate) []byte { return func(*wstate) []byte { return []byte(s) } }
	return []wop{
		{"newrepo", "POST", func(w *wstate) string { return "repos" }, js(`{"alias":"a","description":"d"}`), func(w *wstate, r Resp) { w.root = jsonField(r.Body, "root") }},
		{"newinstance kv", "POST", func(w *wstate) string { return "repo/" + w.root + "/instance" }, js(`{"typename":"keyvalue","dataname":"kv"}`), nil},
		{"put a@root", "POST", func(w *wstate) string { return "node/" + w.root + "/kv/key/a" }, js(`a1`), nil},
		{"put b@root", "POST", func(w *wstate) string { return "node/" + w.root + "/kv/key/b" }, js(`b1`), nil},
		{"newinstance lm", "POST", func(w *wstate) string { return "repo/" + w.root + "/instance" }, js(`{"typename":"labelmap","dataname":"lm"}`), nil},
		{"nextlabel", "POST", func(w *wstate) string { return "node/" + w.root + "/lm/nextlabel/3" }, nil, nil},
		{"commit root", "POST", func(w *wstate) string { return "node/" + w.root + "/commit" }, js(`{"note":"c1"}`), nil},
		{"newversion", "POST", func(w *wstate) string { return "node/" + w.root + "/newversion" }, js(`{"note":"n"}`), func(w *wstate, r Resp) { w.v2 = jsonField(r.Body, "child") }},
		{"put a@v2", "POST", func(w *wstate) string { return "node/" + w.v2 + "/kv/key/a" }, js(`a2`), nil},
		{"delete b@v2", "DELETE", func(w *wstate) string { return "node/" + w.v2 + "/kv/key/b" }, nil, nil},
		{"put c@v2", "POST", func(w *wstate) string { return "node/" + w.v2 + "/kv/key/c" }, js(`c2`), nil},
		{"branch", "POST", func(w *wstate) string { return "node/" + w.root + "/branch" }, js(`{"branch":"dev","note":"b"}`), func(w *wstate, r Resp) { w.br = jsonField(r.Body, "child") }},
		{"put a@dev", "POST", func(w *wstate) string { return "node/" + w.br + "/kv/key/a" }, js(`a3`), nil},
		{"commit v2", "POST", func(w *wstate) string { return "node/" + w.v2 + "/commit" }, js(`{"note":"c2"}`), nil},
		{"commit dev", "POST", func(w *wstate) string { return "node/" + w.br + "/commit" }, js(`{"note":"c3"}`), nil},
		{"merge", "POST", func(w *wstate) string { return "repo/" + w.root + "/merge" }, func(w *wstate) []byte {
			return []byte(fmt.Sprintf(`{"mergeType":"conflict-free","parents":[%q,%q],"note":"m"}`, w.v2, w.br))
		}, func(w *wstate, r Resp) { w.mg = jsonField(r.Body, "child") }},
		{"put e@merge", "POST", func(w *wstate) string { return "node/" + w.mg + "/kv/key/e" }, js(`e4`), nil},
		{"newrepo 2", "POST", func(w *wstate) string { return "repos" }, js(`{"alias":"b","description":"d"}`), nil},
	}
}

// snapshot: API-level observables, version ids instead of uuids
func c04Snapshot(ch *Child) (string, string) {
	resp, ok := ch.HTTP("GET", "repos/info", nil)
	if !ok || !resp.OK() {
		return "", "repos/info failed: " + resp.String()
	}
	var repos map[string]struct {
		DAG struct {
			Nodes map[string]struct {
				Branch    string
				UUID      string
				VersionID int
				Locked    bool
				Parents   []int
				Children  []int
			}
		}
		DataInstances map[string]json.RawMessage
	}
	if err := json.Unmarshal(resp.Body, &repos); err != nil {
		return "", "repos/info not JSON: " + err.Error()
	}
	var lines []string
	type nd struct {
		uuid string
		v    int
		kv   bool
	}
	var nodes []nd
	for _, rp := range repos {
		_, hasKV := rp.DataInstances["kv"]
		var inst []string
		for name := range rp.DataInstances {
			inst = append(inst, name)
		}
		sort.Strings(inst)
		minV := 1 << 30
		for _, n := range rp.DAG.Nodes {
			if n.VersionID < minV {
				minV = n.VersionID
			}
		}
		lines = append(lines, fmt.Sprintf("repo@v%d instances=%v", minV, inst))
		for _, n := range rp.DAG.Nodes {
			lines = append(lines, fmt.Sprintf("node v%d locked=%v parents=%v children=%v branch=%q", n.VersionID, n.Locked, n.Parents, n.Children, n.Branch))
			nodes = append(nodes, nd{n.UUID, n.VersionID, hasKV})
		}
	}
	for _, n := range nodes {
		if !n.kv {
			continue
		}
		for _, k := range []string{"a", "b", "c", "d", "e"} {
			r, ok := ch.HTTP("GET", "node/"+n.uuid+"/kv/key/"+k, nil)
			if !ok {
				return "", "child died during snapshot"
			}
			if r.Code == 200 {
				lines = append(lines, fmt.Sprintf("kv v%d %s=%s", n.v, k, string(r.Body)))
			} else if r.Code != 404 {
				lines = append(lines, fmt.Sprintf("kv v%d %s=ERR(%d)", n.v, k, r.Code))
			}
		}
	}
	sort.Strings(lines)
	return strings.Join(lines, "\n"), ""
}

func c04Crash(c *Ctx) {
	r := c.Rng.Fork()
	ops := workload()
	// dry run: write counter before/after each op, snapshot after each op
	dir := scratchDir("c04dry")
	ch, msg := StartChild(dir, nil)
	if ch == nil {
		c.Report("H", "C04 child-start", msg, "")
		os.RemoveAll(dir)
		return
	}
	ws := &wstate{}
	writesAt := make([]int, len(ops)+1)
	snaps := make([]string, len(ops)+1)
	wr, _ := ch.Ask("WRITES")
	writesAt[0], _ = strconv.Atoi(wr)
	snaps[0], _ = c04Snapshot(ch)
	for i, op := range ops {
		var body []byte
		if op.body != nil {
			body = op.body(ws)
		}
		resp, ok := ch.HTTP(op.method, op.path(ws), body)
		if !ok || !resp.OK() {
			c.Report("H", "C04 dry-run-op-failed", op.name+": "+resp.String(), "")
			ch.Kill()
			os.RemoveAll(dir)
			return
		}
		if op.post != nil {
			op.post(ws, resp)
		}
		wr, _ := ch.Ask("WRITES")
		writesAt[i+1], _ = strconv.Atoi(wr)
		s, e := c04Snapshot(ch)
		if e != "" {
			c.Report("H", "C04 dry-run-snapshot", e, "")
		}
		snaps[i+1] = s
	}
	ch.Stop("SHUTDOWN")
	os.RemoveAll(dir)
	startupWrites := writesAt[0]
	total := writesAt[len(ops)]
	c.Extra["workload_writes"] = total - startupWrites
	c.Extra["startup_writes"] = startupWrites
	// crash points
	type cp struct {
		w    int
		mode string
	}
	var points []cp
	for w := startupWrites + 1; w <= total; w++ {
		points = append(points, cp{w, "CRASH_AT"}, cp{w, "CRASH_AFTER"})
	}
	// every store write of the workload is a crash point in both tiers (before and after it); the quick tier
	// adds the second crash during recovery for a sample only
	for _, p := range points {
		c04OneCrash(c, ops, writesAt, snaps, p.w, p.mode, r.Chance(0.2) || c.Thorough)
	}
	for _, ext := range []string{".mem", ".vlog"} {
		c04FileCreationCrash(c, ops, snaps, ext)
	}
	c04CeilingAfterRecovery(c)
	c04KillDuringSingleKeyWrites(c)
}

// c04KillDuringSingleKeyWrites: keys hold a value at a committed parent and an own value at the child; the process
// is killed while many single-key deletions (and, on other keys, re-writes) of the child are in flight.  After
// recovery every key must read at the child as before its request (own value) or as after it (gone / the new
// value) — never the parent's value showing through, which is the state between the two store entries a
// versioned delete touches.
func c04KillDuringSingleKeyWrites(c *Ctx) {
	r := c.Rng.Fork()
	rounds, n := 2, 12000
	if c.Thorough {
		rounds, n = 6, 30000
	}
	for round := 0; round < rounds; round++ {
		func() {
			dir := scratchDir("c04k")
			defer os.RemoveAll(dir)
			ch, msg := StartChild(dir, nil)
			if ch == nil {
				c.Report("H", "C04 child-start", msg, "")
				return
			}
			defer func() {
				if ch != nil {
					ch.Kill()
				}
			}()
			resp, _ := ch.HTTP("POST", "repos", []byte(`{"alias":"k","description":"d"}`))
			root := jsonField(resp.Body, "root")
			ch.HTTP("POST", "repo/"+root+"/instance", []byte(`{"typename":"keyvalue","dataname":"kv"}`))
			ch.AskT(fmt.Sprintf("BURST POST %s kv %d 8 parent", root, n), 120*time.Second)
			ch.HTTP("POST", "node/"+root+"/commit", []byte(`{"note":"c"}`))
			vr, _ := ch.HTTP("POST", "node/"+root+"/newversion", []byte(`{"note":"v"}`))
			child := jsonField(vr.Body, "child")
			if a, _ := ch.AskT(fmt.Sprintf("BURST POST %s kv %d 8 own", child, n), 120*time.Second); !strings.HasPrefix(a, "ok") {
				c.Report("H", "C04 burst-setup", a, "")
				return
			}
			delay := time.Duration(20+r.Intn(250)) * time.Millisecond
			io.WriteString(ch.in, fmt.Sprintf("BURST DELETE %s kv %d 8 -\n", child, n))
			time.Sleep(delay)
			ch.Kill()
			ch2, msg := StartChild(dir, nil)
			if ch2 == nil {
				c.Report("O", "C04 no-recovery", "the server does not start again after a kill during single-key deletions", msg)
				ch = nil
				return
			}
			ch = ch2
			a, _ := ch.AskT(fmt.Sprintf("TORN %s kv %d own parent", child, n), 120*time.Second)
			var own, gone, torn, other, first int
			fmt.Sscanf(a, "own=%d gone=%d torn=%d other=%d first=%d", &own, &gone, &torn, &other, &first)
			c.Eval(fmt.Sprintf("kill during single-key deletes round %d", round), gone > 0 && own > 0)
			c.Count("kill-during-deletes")
			if gone > 0 && own > 0 {
				c.Count("kill-during-deletes: kill landed inside the burst")
			}
			if torn > 0 || other > 0 {
				g, _ := ch.HTTP("GET", fmt.Sprintf("node/%s/kv/key/k%d", child, first), nil)
				c.Report("O", "C04 torn-single-key-delete", "after a kill during single-key deletions a key reads as neither before nor after its deletion",
					fmt.Sprintf("%d keys: value parent-<i> at the committed root, value own-<i> at the child; 8 concurrent workers DELETE key/k<i> at the child; process killed %v after the burst started; restarted on the same store\nat the child: %d keys still hold their own value, %d are gone, %d read the PARENT's value (neither state), %d read something else\nGET key/k%d at the child -> %s", n, delay, own, gone, torn, other, first, g))
			}
		}()
	}
}

// c04CeilingAfterRecovery: what a recovered process hands out must again be covered by what it persisted — a
// restart followed by a few mutation ids and a kill, repeated: no id may be handed out twice
func c04CeilingAfterRecovery(c *Ctx) {
	dir := scratchDir("c04m")
	defer os.RemoveAll(dir)
	ch, msg := StartChild(dir, nil)
	if ch == nil {
		c.Report("H", "C04 child-start", msg, "")
		return
	}
	defer func() {
		if ch != nil {
			ch.Kill()
		}
	}()
	resp, _ := ch.HTTP("POST", "repos", []byte(`{"alias":"m","description":"d"}`))
	root := jsonField(resp.Body, "root")
	ch.HTTP("POST", "repo/"+root+"/instance", []byte(`{"typename":"labelmap","dataname":"lm"}`))
	var issued []uint64
	hist := []string{}
	take := func(k int) bool {
		for i := 0; i < k; i++ {
			a, _ := ch.Ask("MUTID " + root + " lm")
			id, err := strconv.ParseUint(strings.TrimSpace(a), 10, 64)
			if err != nil {
				c.Report("H", "C04 mutid", a, "")
				return false
			}
			for _, o := range issued {
				if o == id {
					c.Report("O", "C04 id-reissued-after-recovery", "a mutation id handed out before a crash is handed out again after recovery",
						fmt.Sprintf("id %d\nhistory:\n  %s", id, strings.Join(hist, "\n  ")))
					return false
				}
			}
			issued = append(issued, id)
			hist = append(hist, fmt.Sprintf("mutation id %d", id))
		}
		return true
	}
	if !take(3) {
		return
	}
	for round, how := range []string{"SHUTDOWN", "kill", "kill", "SHUTDOWN", "kill"} {
		if how == "kill" {
			ch.Kill()
		} else {
			ch.Stop(how)
		}
		ch2, msg := StartChild(dir, nil)
		if ch2 == nil {
			ch = nil
			c.Report("O", "C04 no-restart-after-crash", "after a crash the next start did not succeed without manual repair", msg)
			return
		}
		ch = ch2
		hist = append(hist, "restart ("+how+")")
		c.Eval(fmt.Sprintf("ceiling after recovery round %d %s", round, how), true)
		c.Count("crash.ceiling-round")
		if !take(2 + round) {
			return
		}
	}
}

// c04FileCreationCrash: the process is killed between the creation and the sizing of the store's next memtable
// or value-log file (the engine creates the file, then extends it): what is left is a zero-length file with the
// next file id.  The next start must succeed and every acknowledged operation must be visible.
func c04FileCreationCrash(c *Ctx, ops []wop, snaps []string, ext string) {
	dir := scratchDir("c04f")
	defer os.RemoveAll(dir)
	tag := "killed while creating the next " + ext + " file"
	ch, msg := StartChild(dir, nil)
	if ch == nil {
		c.Report("H", "C04 child-start", msg, tag)
		return
	}
	ws := &wstate{}
	for _, op := range ops {
		var body []byte
		if op.body != nil {
			body = op.body(ws)
		}
		resp, ok := ch.HTTP(op.method, op.path(ws), body)
		if !ok || !resp.OK() {
			c.Report("H", "C04 op-failed", op.name+": "+resp.String(), tag)
			ch.Kill()
			return
		}
		if op.post != nil {
			op.post(ws, resp)
		}
	}
	want, _ := c04Snapshot(ch)
	ch.Kill()
	planted := 0
	filepath.Walk(dir, func(path string, info os.FileInfo, err error) error {
		if err != nil || !info.IsDir() {
			return nil
		}
		if _, e := os.Stat(filepath.Join(path, "MANIFEST")); e != nil {
			return nil
		}
		ents, _ := os.ReadDir(path)
		max, width := 0, 0
		for _, e := range ents {
			if filepath.Ext(e.Name()) == ext {
				stem := strings.TrimSuffix(e.Name(), ext)
				if n, err := strconv.Atoi(stem); err == nil {
					if n > max {
						max = n
					}
					width = len(stem)
				}
			}
		}
		if width > 0 {
			if f, e := os.Create(filepath.Join(path, fmt.Sprintf("%0*d%s", width, max+1, ext))); e == nil {
				f.Close()
				planted++
			}
		}
		return nil
	})
	if planted == 0 {
		c.Report("H", "C04 no-store-file", "no "+ext+" file found in the store directories", tag)
		return
	}
	ch2, msg := StartChild(dir, nil)
	c.Eval(tag, true)
	c.Count("crash.file-creation" + ext)
	if ch2 == nil {
		c.Report("O", "C04 no-restart-after-crash", "after a crash the next start did not succeed without manual repair",
			fmt.Sprintf("%s: the whole workload was acknowledged, the process killed, and a zero-length file with the next file id left in the store directory (the state between creating and sizing the file)\n%s", tag, msg))
		return
	}
	defer ch2.Kill()
	snap, e := c04Snapshot(ch2)
	if e != "" {
		c.Report("O", "C04 unreadable-after-crash", "after recovery the server cannot answer read requests", tag+": "+e)
		return
	}
	if snap != want {
		c.Report("O", "C04 not-atomic file-creation", "after a crash during the creation of a store file acknowledged work is missing",
			fmt.Sprintf("%s\nrecovered state:\n%s\n\nstate before the kill:\n%s", tag, indent(snap), indent(want)))
	}
}

func c04OneCrash(c *Ctx, ops []wop, writesAt []int, snaps []string, w int, mode string, doubleCrash bool) {
	dir := scratchDir("c04")
	defer os.RemoveAll(dir)
	tag := fmt.Sprintf("%s=%d", mode, w)
	ch, msg := StartChild(dir, []string{mode + "=" + strconv.Itoa(w)})
	if ch == nil {
		c.Report("H", "C04 child-start", msg, tag)
		return
	}
	ws := &wstate{}
	acked := 0
	died := false
	for i, op := range ops {
		var body []byte
		if op.body != nil {
			body = op.body(ws)
		}
		resp, ok := ch.HTTP(op.method, op.path(ws), body)
		if !ok {
			died = true
			acked = i
			break
		}
		if !resp.OK() {
			c.Report("H", "C04 op-failed", op.name+": "+resp.String(), tag)
			ch.Kill()
			return
		}
		if op.post != nil {
			op.post(ws, resp)
		}
		acked = i + 1
	}
	if !died {
		// the crash point was after the last write of the workload (CRASH_AFTER on the final write exits right
		// after it) or never reached
		ch.Kill()
	}
	interrupted := acked // index of the op in flight (== len(ops) if none)
	multi := interrupted < len(ops) && writesAt[interrupted+1]-writesAt[interrupted] > 1
	// recovery: optionally crash again during start-up, then start for real
	if doubleCrash {
		for k := 1; k <= 3; k++ {
			ch2, _ := StartChild(dir, []string{"CRASH_AT=" + strconv.Itoa(k)})
			if ch2 != nil {
				ch2.Kill() // start-up made fewer than k writes
				break
			}
			c.Count("crash.during-recovery")
		}
	}
	ch3, msg := StartChild(dir, nil)
	if ch3 == nil {
		c.Report("O", "C04 no-restart-after-crash", "after a crash the next start did not succeed without manual repair",
			fmt.Sprintf("%s (during op %d %q)\n%s", tag, interrupted, opName(ops, interrupted), msg))
		return
	}
	defer ch3.Kill()
	snap, e := c04Snapshot(ch3)
	if e != "" {
		c.Report("O", "C04 unreadable-after-crash", "after recovery the server cannot answer read requests", tag+": "+e)
		return
	}
	okBefore := snap == snaps[interrupted]
	okAfter := interrupted < len(ops) && snap == snaps[interrupted+1]
	if !okBefore && !okAfter {
		sig := "C04 not-atomic " + opName(ops, interrupted)
		c.Report("O", sig, "after a crash the state is neither the one before nor the one after the interrupted operation (acknowledged work lost, or an operation half applied)",
			fmt.Sprintf("%s: crashed during op %d %q (writes %d..%d of the dry run)\nrecovered state:\n%s\n\nstate before the op:\n%s\n\nstate after the op:\n%s",
				tag, interrupted, opName(ops, interrupted), writesAt[interrupted]+1, writesAt[min(interrupted+1, len(ops))], indent(snap), indent(snaps[interrupted]), indent(snapOr(snaps, interrupted+1))))
	}
	// metadata well formed (graph invariants on the manager dump)
	dump, _ := ch3.Ask("DUMP")
	ms := &mgrSess{c: c, names: map[string]string{}, real: map[string]string{}}
	ms.hist = []string{tag + " during " + opName(ops, interrupted)}
	ms.checkInv(normaliseDump(dump), "recovery after "+tag)
	// the server keeps working: a new repo can be created and gets fresh ids
	resp, ok := ch3.HTTP("POST", "repos", []byte(`{"alias":"z","description":"after crash"}`))
	if !ok || !resp.OK() {
		c.Report("O", "C04 unusable-after-crash", "after recovery a new repo cannot be created", tag+": "+resp.String())
	} else {
		dump2, _ := ch3.Ask("DUMP")
		ms.checkInv(normaliseDump(dump2), "new repo after recovery from "+tag)
	}
	c.Eval(tag, multi)
	c.Count("crash." + mode)
	if okBefore {
		c.Count("crash.outcome.absent")
	} else if okAfter {
		c.Count("crash.outcome.present")
	}
}

func normaliseDump(d string) string {
	var out []string
	for _, ln := range strings.Split(d, "|") {
		if strings.HasPrefix(ln, "repo uuid=") || ln == "" {
			continue
		}
		if i := strings.Index(ln, " mapkey="); i >= 0 {
			ln = ln[:i]
		}
		out = append(out, ln)
	}
	return strings.Join(out, "|")
}

func opName(ops []wop, i int) string {
	if i < len(ops) {
		return ops[i].name
	}
	return "(none)"
}
func snapOr(s []string, i int) string {
	if i < len(s) {
		return s[i]
	}
	return "(none)"
}
func indent(s string) string { return "  " + strings.ReplaceAll(s, "\n", "\n  ") }
func min(a, b int) int {
	if a < b {
		return a
	}
	return b
}
