package main

import (
	"crypto/sha256"
	"encoding/json"
	"fmt"
	"os"
	"regexp"
	"sort"
	"strings"
	"time"

	"github.com/janelia-flyem/dvid/datastore"
	"github.com/janelia-flyem/dvid/dvid"
	"github.com/janelia-flyem/dvid/storage"
)

func init() { register("C02", runC02) }

// dataKeysDigest: hash over every key-value pair in the data key space of the store (all instances)
func dataKeysDigest(uuid, inst string) (string, int) {
	d, err := datastore.GetDataByUUIDName(dvid.UUID(uuid), dvid.InstanceName(inst))
	if err != nil {
		return "err:" + err.Error(), 0
	}
	store, err := datastore.GetOrderedKeyValueDB(d)
	if err != nil {
		return "err:" + err.Error(), 0
	}
	minK, maxK := storage.DataKeyRange()
	maxK = append(maxK, 0xff, 0xff, 0xff, 0xff, 0xff)
	ch := make(chan *storage.KeyValue, 1000)
	h := sha256.New()
	n := 0
	done := make(chan struct{})
	go func() {
		for kv := range ch {
			if kv == nil {
				break
			}
			h.Write(kv.K)
			h.Write([]byte{0})
			h.Write(kv.V)
			h.Write([]byte{1})
			n++
		}
		close(done)
	}()
	store.RawRangeQuery(minK, maxK, false, ch, nil)
	<-done
	return fmt.Sprintf("%x", h.Sum(nil)[:12]), n
}

func runC02(c *Ctx) {
	c.Rule = "(a) every compiled data type instantiated here (keyvalue, labelmap, annotation, neuronjson, roi, uint8blk, labelsz) x every endpoint keyword its ServeHTTP dispatches on (extracted from the source) x methods POST/PUT/DELETE/PATCH x several URL tails and bodies, against a committed version holding data; node-level note/log/commit/branch/newversion/tag; the response class is compared with the gate model and the whole data key space is digested before and after every request (a refused or non-mutating request must not write); (b) generated histories over four data types: the read snapshot of each version taken when it is committed must equal its snapshot at the end of the history. non-trivial = a request with a mutating method on a committed node / a version with later activity in descendants or siblings; distinct by request or history"
	quietLogs()
	c02Gate(c)
	c02Stability(c)
}

func c02Gate(c *Ctx) {
	OpenServer()
	defer CloseServer()
	r := c.Rng.Fork()
	w := NewWorld(c, inproc{}, r, true, true, true)
	root := w.nodes[0]
	// more types
	NewInstance(w.root, "roi", "roi", map[string]string{"BlockSize": "32,32,32"})
	NewInstance(w.root, "uint8blk", "gray", map[string]string{"BlockSize": "32,32,32"})
	NewInstance(w.root, "labelsz", "lsz", nil)
	Post("node/"+w.root+"/roi/roi", []byte(`[[0,0,0,1],[0,1,0,0]]`))
	Post(fmt.Sprintf("node/%s/gray/raw/0_1_2/32_32_32/0_0_0", w.root), make([]byte, 32*32*32))
	for i := 0; i < 12; i++ {
		switch i % 4 {
		case 0:
			w.kvOp(root)
		case 1:
			w.lmIngest(root, false)
		case 2:
			w.annPost(root)
		default:
			w.njOp(root)
		}
	}
	w.commit(root)
	// keywords per type from the extractor
	var facts struct {
		Extra struct {
			EndpointKeywords []string `json:"endpointKeywords"`
		} `json:"extra"`
	}
	if b, err := os.ReadFile("out/facts.json"); err == nil {
		json.Unmarshal(b, &facts)
	}
	instOf := map[string]string{"keyvalue": "kv", "labelmap": "lm", "annotation": "ann", "neuronjson": "nj", "roi": "roi", "imageblk": "gray", "labelsz": "lsz"}
	type kwT struct{ typ, kw string }
	var kws []kwT
	for _, s := range facts.Extra.EndpointKeywords {
		p := strings.SplitN(s, "/", 2)
		if _, ok := instOf[p[0]]; ok && len(p) == 2 {
			kws = append(kws, kwT{p[0], p[1]})
		}
	}
	if len(kws) == 0 {
		c.Report("H", "C02 no-keywords", "out/facts.json has no endpoint keywords (run through bin/check)", "")
		return
	}
	for t := range instOf { // a keyword the type does not know
		kws = append(kws, kwT{t, "nosuchendpoint"})
	}
	sort.Slice(kws, func(i, j int) bool { return kws[i].typ+kws[i].kw < kws[j].typ+kws[j].kw })
	c.Extra["endpoint_keywords"] = len(kws)
	tails := []string{"", "/1", "/a", "/0_0_0", "/32_32_32/0_0_0", "/0_1_2/32_32_32/0_0_0", "/10/20"}
	bodies := [][]byte{nil, []byte(`[]`), []byte(`{}`), []byte(`[10,11]`), []byte(`{"a":1}`), make([]byte, 64)}
	methods := []string{"POST", "PUT", "DELETE", "PATCH", "Post"}
	if !c.Thorough {
		tails = tails[:5]
		bodies = bodies[:4]
	}
	before, nkeys := dataKeysDigest(w.root, "kv")
	c.Extra["data_keys"] = nkeys
	for _, k := range kws {
		inst := instOf[k.typ]
		for _, m := range methods {
			for ti, tail := range tails {
				body := bodies[(ti+len(k.kw))%len(bodies)]
				url := fmt.Sprintf("node/%s/%s/%s%s?u=tester", w.root, inst, k.kw, tail)
				resp := Do(m, api(url), body)
				lm := strings.ToLower(m)
				op := fmt.Sprintf("gate.instance %s %s %s", k.typ, k.kw, lm)
				model := c.Model.Ask(op)
				refused := resp.Code == 400 && strings.Contains(string(resp.Body), "of locked node")
				impl := "pass"
				if refused {
					impl = "deny"
				}
				if k.kw == "blobstore" {
					continue
				}
				c.Cmp("server.instanceSelector gate", op+" "+url, impl, strings.TrimPrefix(model, "ok "))
				after, _ := dataKeysDigest(w.root, "kv")
				if after != before {
					c.Report("O", fmt.Sprintf("C02 write-on-committed %s/%s %s", k.typ, k.kw, lm), "a request on a committed version changed stored data",
						fmt.Sprintf("%s %s body=%q -> %s\n(data key space digest changed)", m, url, string(body), resp.String()))
					before = after
				}
				c.Eval(m+" "+url, lm != "patch")
				c.Count("gate." + impl + "." + lm)
			}
		}
	}
	// node-level routes on the committed node
	for _, a := range []struct {
		action, body string
		allowed      bool
	}{{"note", `{"note":"x"}`, false}, {"log", `{"log":["x"]}`, false}, {"commit", `{"note":"again"}`, false}} {
		infoBefore := canonRepoInfo(Get("repo/" + w.root + "/info").Body)
		resp := Post("node/"+w.root+"/"+a.action, []byte(a.body))
		model := c.Model.Ask("gate.node " + a.action + " post")
		impl := "pass"
		if !resp.OK() {
			impl = "deny"
		}
		c.Cmp("server.nodeSelector gate", "gate.node "+a.action+" post", impl, strings.TrimPrefix(model, "ok "))
		if infoAfter := canonRepoInfo(Get("repo/" + w.root + "/info").Body); infoAfter != infoBefore {
			c.Report("O", "C02 node-state-changed "+a.action, "a committed version's note, log or commit state was changed", resp.String()+"\nbefore:\n"+infoBefore+"\nafter:\n"+infoAfter)
		}
		c.Eval("node "+a.action, true)
	}
	// creating child versions stays allowed
	if resp := Post("node/"+w.root+"/newversion", []byte(`{"note":"child"}`)); !resp.OK() {
		c.Report("O", "C02 child-refused", "creating a child version of a committed version was refused", resp.String())
	}
	if resp := Post("node/"+w.root+"/branch", []byte(`{"branch":"b1"}`)); !resp.OK() {
		c.Report("O", "C02 branch-refused", "creating a branch off a committed version was refused", resp.String())
	}
}

// c02Resolve: two committed branches hold different values for one key; POST resolve (conflict deletion before a
// merge) names one or two data instances, the conflicted one first or second.  Whatever it does to make the merge
// possible has to happen in new versions: every read at the two committed parents must stay as it was.
func c02Resolve(c *Ctx) {
	for _, order := range [][]string{{"kv2"}, {"kv2", "kv1"}, {"kv1", "kv2"}} {
		func() {
			OpenServer()
			defer CloseServer()
			root := NewRepo()
			NewInstance(root, "keyvalue", "kv1", nil)
			NewInstance(root, "keyvalue", "kv2", nil)
			Post("node/"+root+"/kv1/key/x", []byte("root x"))
			Post("node/"+root+"/kv2/key/k", []byte("root k"))
			Post("node/"+root+"/kv2/key/only", []byte("root only"))
			Commit(root)
			a, ra := Branch(root, "brA")
			b, rb := Branch(root, "brB")
			if !ra.OK() || !rb.OK() {
				return
			}
			Post("node/"+a+"/kv2/key/k", []byte("from A"))
			Post("node/"+b+"/kv2/key/k", []byte("from B"))
			Post("node/"+b+"/kv1/key/y", []byte("y at B"))
			Commit(a)
			Commit(b)
			reads := []string{"kv1/keys", "kv1/key/x", "kv1/key/y", "kv2/keys", "kv2/key/k", "kv2/key/only", "kv2/keyrangevalues/a/z?json=true"}
			snap := func() map[string]string {
				m := map[string]string{}
				for _, u := range []string{root, a, b} {
					for _, p := range reads {
						r := Get("node/" + u + "/" + p)
						m[map[string]string{root: "root", a: "A", b: "B"}[u]+":"+p] = fmt.Sprintf("%d %s", r.Code, strings.ReplaceAll(string(r.Body), u, "<uuid>"))
					}
				}
				return m
			}
			before := snap()
			body, _ := json.Marshal(map[string]interface{}{"data": order, "parents": []string{a, b}, "note": "r"})
			resp := Post("repo/"+root+"/resolve", body)
			after := snap()
			c.Eval(fmt.Sprintf("resolve %v -> %d", order, resp.Code), true)
			c.Count("stability.resolve")
			var ks []string
			for k := range before {
				ks = append(ks, k)
			}
			sort.Strings(ks)
			for _, k := range ks {
				if before[k] != after[k] {
					c.Report("O", "C02 committed-read-changed by-resolve", "a read at a committed version changed after a resolve request",
						fmt.Sprintf("root: kv1/x, kv2/k, kv2/only written and committed; branch A: kv2/k := from A; branch B: kv2/k := from B, kv1/y; both committed\nPOST repo/<root>/resolve {data: %v, parents: [A, B]} -> %s\nGET %s\n  before: %s\n  after:  %s", order, resp, k, before[k], after[k]))
					return
				}
			}
		}()
	}
}

var c02VerRe = regexp.MustCompile(`version [0-9]+`)
var c02HexRe = regexp.MustCompile(`[0-9a-f]{32}`)

// c02Roi: the full-ROI reads of a committed version while later versions replace, shrink, grow or delete the
// ROI.  The ROI instance keeps instance-wide (unversioned) extents; a committed version's reads must not follow them.
func c02Roi(c *Ctx) {
	r := c.Rng.Fork()
	for ep := 0; ep < 3; ep++ {
		func() {
			OpenServer()
			defer CloseServer()
			root := NewRepo()
			NewInstance(root, "roi", "roi", map[string]string{"BlockSize": "32,32,32"})
			z0 := r.Intn(200) - 100
			nz := 3 + r.Intn(4)
			mk := func(za, zb int) []byte {
				var spans [][4]int
				for z := za; z <= zb; z++ {
					for y := 0; y < 2+r.Intn(2); y++ {
						x := r.Intn(5)
						spans = append(spans, [4]int{z, 10 + y, x, x + r.Intn(4)})
					}
				}
				b, _ := json.Marshal(spans)
				return b
			}
			body := mk(z0, z0+nz-1)
			hist := []string{fmt.Sprintf("root: POST roi/roi spans over block z %d..%d: %s; commit", z0, z0+nz-1, trunc(string(body)))}
			if resp := Post("node/"+root+"/roi/roi", body); !resp.OK() {
				c.Report("H", "C02 roi-post", resp.String(), "")
				return
			}
			Commit(root)
			var pts [][3]int
			for z := z0 - 1; z <= z0+nz; z++ {
				for y := 10; y < 13; y++ {
					for x := 0; x < 8; x += 2 {
						pts = append(pts, [3]int{x*32 + 5, y*32 + 5, z*32 + 5})
					}
				}
			}
			pq, _ := json.Marshal(pts)
			snap := func() map[string]string {
				m := map[string]string{}
				g := Get("node/" + root + "/roi/roi")
				m["GET roi/roi"] = fmt.Sprintf("%d %s", g.Code, g.Body)
				q := Post("node/"+root+"/roi/ptquery", pq)
				m["POST roi/ptquery"] = fmt.Sprintf("%d %s", q.Code, q.Body)
				k := Get(fmt.Sprintf("node/%s/roi/mask/0_1_2/256_128_%d/0_320_%d", root, 32*(nz+2), 32*(z0-1)))
				m["GET roi/mask"] = fmt.Sprintf("%d %s", k.Code, fmt.Sprintf("%x", sha256.Sum256(k.Body)))
				for _, pq := range []string{"partition?batchsize=2", "partition?batchsize=2&optimized=true"} {
					pr := Get("node/" + root + "/roi/" + pq)
					m["GET roi/"+pq] = fmt.Sprintf("%d %s", pr.Code, pr.Body)
				}
				return m
			}
			before := snap()
			check := func(after string) bool {
				now := snap()
				c.Eval("roi committed reads after "+after, true)
				c.Count("stability.roi." + strings.Fields(after)[0])
				for _, k := range []string{"GET roi/roi", "POST roi/ptquery", "GET roi/mask", "GET roi/partition?batchsize=2", "GET roi/partition?batchsize=2&optimized=true"} {
					if before[k] != now[k] {
						c.Report("O", "C02 committed-read-changed roi", "a read of an ROI at a committed version changed after a later version edited the ROI",
							fmt.Sprintf("%s\n%s at the committed root\n  before: %s\n  after:  %s", strings.Join(hist, "\n"), k, trunc(before[k]), trunc(now[k])))
						return false
					}
				}
				return true
			}
			cur := root
			for step := 0; step < 4; step++ {
				var child string
				if step%2 == 0 {
					child, _ = NewVersion(cur)
				} else {
					var br Resp
					child, br = Branch(root, fmt.Sprintf("b%d", step))
					if !br.OK() {
						return
					}
				}
				if child == "" {
					return
				}
				var what string
				switch k := r.Intn(5); k {
				case 0: // strictly narrower z range
					what = fmt.Sprintf("POST roi over block z %d..%d (narrower)", z0+1, z0+nz-2)
					Post("node/"+child+"/roi/roi", mk(z0+1, z0+nz-2))
				case 1: // narrower on one side
					what = fmt.Sprintf("POST roi over block z %d..%d (narrower above)", z0, z0+nz-2)
					Post("node/"+child+"/roi/roi", mk(z0, z0+nz-2))
				case 2: // disjoint
					what = fmt.Sprintf("POST roi over block z %d..%d (disjoint)", z0+nz+3, z0+nz+4)
					Post("node/"+child+"/roi/roi", mk(z0+nz+3, z0+nz+4))
				case 3: // wider
					what = fmt.Sprintf("POST roi over block z %d..%d (wider)", z0-2, z0+nz+1)
					Post("node/"+child+"/roi/roi", mk(z0-2, z0+nz+1))
				default:
					what = "DELETE roi"
					Do("DELETE", "node/"+child+"/roi/roi", nil)
				}
				hist = append(hist, fmt.Sprintf("version %d (%s): %s", step+1, map[bool]string{true: "child of the previous", false: "new branch off the root"}[step%2 == 0], what))
				if !check(strings.Fields(what)[0] + " in a later version") {
					return
				}
				if step%2 == 0 {
					Commit(child)
					cur = child
				}
				if r.Intn(3) == 0 {
					datastore.CloseReopenTest()
					hist = append(hist, "datastore closed and reopened")
					if !check("reopen") {
						return
					}
				}
			}
		}()
	}
}

func c02Stability(c *Ctx) {
	c02Resolve(c)
	c02Roi(c)
	nh, steps := 3, 40
	if c.Thorough {
		nh, steps = 30, 60
	}
	for h := 0; h < nh; h++ {
		OpenServer()
		r := c.Rng.Fork()
		w := NewWorld(c, inproc{}, r, true, true, true)
		committedSnap := map[int]map[string]string{}
		filter := func(s map[string]string, v int) map[string]string {
			out := map[string]string{}
			p := fmt.Sprintf("v%d:", v)
			for k, x := range s {
				if strings.HasSuffix(k, ":lm/nextlabel") {
					continue // the label counter is repo-wide, not content of a version
				}
				if strings.HasPrefix(k, p) {
					out[k] = x
				}
			}
			return out
		}
		var pending []func()
		if h%2 == 0 {
			// directed: metadata of the neuronjson instance set at a version, the version committed, and the same
			// metadata replaced or deleted at its descendants on the same branch and on a named branch
			root := w.nodes[0]
			for _, typ := range []string{"json_schema", "schema", "schema_batch"} {
				if r.Chance(0.8) {
					w.njSchema(root, typ, true)
				}
			}
			pending = append(pending, func() {
				for _, br := range []bool{false, true} {
					if ch := w.child(root, br); ch != nil {
						for _, typ := range []string{"json_schema", "schema", "schema_batch"} {
							w.njSchema(ch, typ, r.Chance(0.6))
						}
					}
				}
			})
			c.Count("stability.directed-schema")
		}
		for s := 0; s < steps; s++ {
			if s == 3 && len(pending) > 0 {
				pending[0]()
			} else {
				w.Step()
			}
			for _, n := range w.nodes {
				if n.locked && committedSnap[n.v] == nil {
					committedSnap[n.v] = filter(w.Snapshot(), n.v)
					w.log("snapshot of committed v%d taken", n.v)
				}
			}
		}
		// directed: a version that is created and committed without a single request addressed to it has the
		// content of its parent; its first read comes only after its child was mutated (label merges, cleaves,
		// writes), and must equal the parent's committed snapshot
		var untouched, untouchedParent *wnode
		if len(committedSnap) > 0 || len(w.nodes) > 0 {
			var p *wnode
			for _, n := range w.nodes {
				if n.locked && committedSnap[n.v] != nil {
					p = n
				}
			}
			if p == nil {
				p = w.nodes[len(w.nodes)-1]
				w.commit(p)
				committedSnap[p.v] = filter(w.Snapshot(), p.v)
			}
			if a := w.child(p, true); a != nil {
				w.commit(a)
				if b := w.child(a, true); b != nil {
					for k := 0; k < 6; k++ {
						switch k % 3 {
						case 0:
							if !w.lmMerge(b) {
								w.lmIngest(b, false)
							}
						case 1:
							if !w.lmCleave(b) {
								w.lmMerge(b)
							}
						default:
							w.kvOp(b)
							w.annPost(b)
						}
					}
					untouched, untouchedParent = a, p
					c.Count("stability.untouched-committed-version")
				}
			}
		}
		// later history of other kinds: a merge of two committed versions with writes below it, a new data
		// instance, deletion of a data instance, and a reopening of the datastore (restart)
		{
			var locked []*wnode
			for _, n := range w.nodes {
				if n.locked {
					locked = append(locked, n)
				}
			}
			if len(locked) >= 2 {
				a, b := locked[r.Intn(len(locked))], locked[r.Intn(len(locked))]
				if a != b {
					if m, resp := Merge([]string{a.uuid, b.uuid}); resp.OK() && m != "" {
						for i := 0; i < 3; i++ {
							Post("node/"+m+"/kv/key/"+worldKeys[r.Intn(len(worldKeys))], []byte(fmt.Sprintf("below-merge-%d", i)))
						}
						w.log("merge of v%d and v%d, key-value writes at the merge node", a.v, b.v)
						c.Count("stability.merge")
					}
				}
			}
			extra := fmt.Sprintf("extra%d", h)
			if o := w.open(); len(o) > 0 && NewInstance(o[0].uuid, "keyvalue", extra, nil).OK() {
				Post("node/"+o[0].uuid+"/"+extra+"/key/x", []byte("x"))
				datastore.DeleteDataByName(dvid.UUID(w.root), dvid.InstanceName(extra), "")
				for i := 0; i < 100; i++ {
					if resp := NewInstance(o[0].uuid, "keyvalue", extra, nil); resp.OK() {
						break // the name is free again: the deletion has finished
					}
					time.Sleep(20 * time.Millisecond)
				}
				w.log("data instance %s created, written, deleted, created again", extra)
				c.Count("stability.instance-create-delete")
			}
			if h%2 == 1 {
				w.settle()
				datastore.CloseReopenTest()
				w.log("datastore closed and reopened")
				c.Count("stability.reopen")
			}
		}
		final := w.Snapshot()
		if untouched != nil {
			want := map[string]string{}
			pp, ap := fmt.Sprintf("v%d:", untouchedParent.v), fmt.Sprintf("v%d:", untouched.v)
			// error texts name the version id and the uuid of the request: masked on both sides
			mask := func(x string) string {
				if len(x) > 3 && (x[0] == '4' || x[0] == '5') && x[3] == ' ' {
					return x[:3] + " <error text>" // it quotes the request path; long texts are stored as a hash
				}
				return c02HexRe.ReplaceAllString(c02VerRe.ReplaceAllString(x, "version <n>"), "<uuid>")
			}
			// lm/maxlabel is kept per version and not inherited (recorded as outside the statements, DESIGN.md
			// section 5.2): it is not part of "the content of the parent"
			for k, x := range committedSnap[untouchedParent.v] {
				if !strings.HasSuffix(k, ":lm/maxlabel") {
					want[ap+strings.TrimPrefix(k, pp)] = mask(x)
				}
			}
			got := filter(final, untouched.v)
			for k, x := range got {
				if strings.HasSuffix(k, ":lm/maxlabel") {
					delete(got, k)
				} else {
					got[k] = mask(x)
				}
			}
			diffs := diffSnap(want, got)
			if len(diffs) > 0 {
				if len(diffs) > 3 {
					diffs = diffs[:3]
				}
				c.Report("O", "C02 committed-read-changed untouched-version", "a version committed without any change reads differently from its parent once its child was mutated",
					strings.Join(diffs, "\n")+"\n\nhistory:\n  "+strings.Join(w.hist, "\n  "))
			}
			c.Evals += len(want)
		}
		for v, snap := range committedSnap {
			diffs := diffSnap(snap, filter(final, v))
			bysig := map[string][]string{}
			for _, d := range diffs {
				key := strings.SplitN(d, "\n", 2)[0]
				bysig[c03Sig(key)] = append(bysig[c03Sig(key)], d)
			}
			for sig, ds := range bysig {
				if len(ds) > 3 {
					ds = ds[:3]
				}
				c.Report("O", "C02 committed-read-changed "+sig, "content readable at a committed version reads back differently after later activity",
					strings.Join(ds, "\n")+"\n\nhistory:\n  "+strings.Join(w.hist, "\n  "))
			}
			c.Evals += len(snap)
		}
		c.Eval(strings.Join(w.hist, ";"), len(committedSnap) > 0)
		c.CountN("stability.committed-versions", len(committedSnap))
		CloseServer()
	}
}
