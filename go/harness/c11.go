package main

// C11 — concurrent acknowledged mutations are never lost or half applied.
//
// The read-modify-write sequences named in the property carry a yield point (build tag verif) between their
// read and their write.  For each site the harness runs two (or N) requests concurrently with a barrier
// installed at that yield point: a request that reaches the point waits (bounded) until its peer has reached it
// too.  If no lock covers the sequence both are then between read and write at the same time — the lost-update
// interleaving, forced rather than hoped for; if a lock covers it the peer cannot arrive, the wait times out and
// the requests run one after the other.  Afterwards the quiescent state is compared with what the two
// acknowledged requests must produce in either sequential order.  The schedule model and the theorem that a
// covered sequence is serializable are in Lean (Props/C11); which sites are covered is a regenerated fact.

import (
	"encoding/json"
	"fmt"
	"sort"
	"strings"
	"sync"
	"time"

	"github.com/janelia-flyem/dvid/datastore"
	"github.com/janelia-flyem/dvid/dvid"
)

func init() { register("C11", runC11) }

type barrier struct {
	site    string
	n       int
	mu      sync.Mutex
	arrived int
	ch      chan struct{}
	timeout time.Duration
	met     bool
}

func newBarrier(site string, n int) *barrier {
	return &barrier{site: site, n: n, ch: make(chan struct{}), timeout: 400 * time.Millisecond}
}

func (b *barrier) yield(site string) {
	if site != b.site && !strings.Contains(b.site, "|"+site+"|") {
		return
	}
	b.mu.Lock()
	b.arrived++ // requests currently between read and write
	if b.arrived == b.n && !b.met {
		b.met = true
		close(b.ch)
	}
	b.mu.Unlock()
	select {
	case <-b.ch:
	case <-time.After(b.timeout):
	}
	b.mu.Lock()
	b.arrived--
	b.mu.Unlock()
}

// race runs the requests concurrently with a barrier at the site; returns the responses and whether all
// requests were inside the read-modify-write window at the same time
func race(site string, reqs []func() Resp) ([]Resp, bool) {
	b := newBarrier(site, len(reqs))
	dvid.VerifYieldFunc = b.yield
	out := make([]Resp, len(reqs))
	var wg sync.WaitGroup
	for i, f := range reqs {
		wg.Add(1)
		go func(i int, f func() Resp) {
			defer wg.Done()
			out[i] = f()
		}(i, f)
	}
	wg.Wait()
	dvid.VerifYieldFunc = nil
	return out, b.met
}

type c11Sess struct {
	c      *Ctx
	r      *Rng
	root   string
	wedged bool
}

func (s *c11Sess) report(site, what, detail string, met bool) {
	s.c.Report("O", "C11 lost-update "+site, what, fmt.Sprintf("site: %s\nboth requests were between read and write at the same time: %v\n%s\n", site, met, detail))
}

func annElemJSON(x, y, z int, kind string, tags []string) map[string]interface{} {
	return map[string]interface{}{"Pos": []int{x, y, z}, "Kind": kind, "Tags": tags, "Prop": map[string]string{"n": fmt.Sprint(x)}, "Rels": []interface{}{}}
}

func annPositions(b []byte) []string {
	var m map[string][]struct{ Pos [3]int }
	var out []string
	if json.Unmarshal(b, &m) == nil {
		for _, l := range m {
			for _, e := range l {
				out = append(out, fmt.Sprint(e.Pos))
			}
		}
	} else {
		var l []struct{ Pos [3]int }
		json.Unmarshal(b, &l)
		for _, e := range l {
			out = append(out, fmt.Sprint(e.Pos))
		}
	}
	sort.Strings(out)
	return out
}

// annotation: two element posts / a post and a delete / a post and a move in one block and one tag
func (s *c11Sess) annotation(n int) {
	name := fmt.Sprintf("ann%d", s.r.Intn(1<<30))
	NewInstance(s.root, "annotation", name, nil)
	base := "node/" + s.root + "/" + name + "/"
	post := func(elems ...map[string]interface{}) func() Resp {
		b, _ := json.Marshal(elems)
		return func() Resp { return Post(base+"elements", b) }
	}
	check := func(site, hist string, met bool, want []string, wantTag []string) {
		sort.Strings(want)
		sort.Strings(wantTag)
		got := annPositions(Get(base + "all-elements").Body)
		gotTag := annPositions(Get(base + "tag/t").Body)
		gotBox := annPositions(Get(base + "elements/64_64_64/0_0_0").Body)
		s.c.Eval(site+" "+hist, true)
		if fmt.Sprint(got) != fmt.Sprint(want) || fmt.Sprint(gotBox) != fmt.Sprint(want) {
			s.report(site, "an acknowledged annotation edit is missing from (or a deleted element still in) the element set", fmt.Sprintf("%s\nall-elements: %v\nelements in box: %v\nexpected (either order): %v", hist, got, gotBox, want), met)
		} else if fmt.Sprint(gotTag) != fmt.Sprint(wantTag) {
			s.report(site+" tag", "the tag index disagrees with the element set after concurrent acknowledged edits", fmt.Sprintf("%s\ntag/t: %v\nexpected: %v", hist, gotTag, wantTag), met)
		}
	}
	// (a) N posts of distinct elements into one block
	var reqs []func() Resp
	var want []string
	for i := 0; i < n; i++ {
		reqs = append(reqs, post(annElemJSON(3+5*i, 7, 9, "Note", []string{"t"})))
		want = append(want, fmt.Sprint([3]int{3 + 5*i, 7, 9}))
	}
	rs, met := race("annotation.StoreElements", reqs)
	s.c.Count(fmt.Sprintf("annotation store x%d window-overlapped=%v", n, met))
	hist := fmt.Sprintf("%d concurrent POST elements (one element each, same block, same tag): %v", n, rs)
	allOK := true
	for _, r := range rs {
		allOK = allOK && r.OK()
	}
	if allOK {
		check("annotation.StoreElements", hist, met, want, want)
	}
}

func mustJSON(v interface{}) []byte { b, _ := json.Marshal(v); return b }

// annotationRetag: N concurrent POSTs of an element at one position, each with another tag set.  Whatever
// order they take effect in, afterwards the element must be listed under exactly the tags it carries — the tag
// lists are part of the same read-modify-write as the block (the tags to erase are computed from the block read).
func (s *c11Sess) annotationRetag(n int) {
	name := fmt.Sprintf("annr%d", s.r.Intn(1<<30))
	NewInstance(s.root, "annotation", name, nil)
	base := "node/" + s.root + "/" + name + "/"
	Post(base+"elements", mustJSON([]map[string]interface{}{annElemJSON(4, 5, 6, "Note", []string{"t0"}), annElemJSON(8, 8, 8, "Note", []string{"t0", "t1"})}))
	var reqs []func() Resp
	tags := []string{"t0"}
	for i := 0; i < n; i++ {
		t := fmt.Sprintf("t%d", i+1)
		tags = append(tags, t)
		body := mustJSON([]map[string]interface{}{annElemJSON(4, 5, 6, "Note", []string{t})})
		reqs = append(reqs, func() Resp { return Post(base+"elements", body) })
	}
	rs, met := race("annotation.StoreElements", reqs)
	s.c.Count(fmt.Sprintf("annotation retag x%d window-overlapped=%v", n, met))
	for _, r := range rs {
		if !r.OK() {
			return
		}
	}
	var els []struct {
		Pos  [3]int
		Tags []string
	}
	json.Unmarshal(Get(base+"elements/64_64_64/0_0_0").Body, &els)
	var cur []string
	found := 0
	for _, e := range els {
		if e.Pos == [3]int{4, 5, 6} {
			cur = e.Tags
			found++
		}
	}
	s.c.Eval(fmt.Sprintf("annotation retag x%d", n), true)
	hist := fmt.Sprintf("stored (4,5,6) tags [t0]; %d concurrent POST elements of (4,5,6) with tags [t1] .. [t%d]: %v", n, n, rs)
	if found != 1 || len(cur) != 1 || cur[0] == "t0" {
		s.report("annotation.StoreElements retag", "after concurrent acknowledged re-posts of one position the element is not what any one of them stored", fmt.Sprintf("%s\nelement at (4,5,6): found %d, tags %v", hist, found, cur), met)
		return
	}
	for _, t := range tags {
		listed := false
		for _, p := range annPositions(Get(base + "tag/" + t).Body) {
			if p == fmt.Sprint([3]int{4, 5, 6}) {
				listed = true
			}
		}
		carries := cur[0] == t
		if listed != carries {
			s.report("annotation.StoreElements retag", "after concurrent acknowledged re-posts of one position the tag lists disagree with the element's tags (no sequential order of the requests produces that)",
				fmt.Sprintf("%s\nelement at (4,5,6) carries tags %v; listed under tag/%s: %v", hist, cur, t, listed), met)
			return
		}
	}
}

// annotation, mixed: a delete and a post whose windows are made to overlap at the post's yield point
func (s *c11Sess) annotationMixed() {
	name := fmt.Sprintf("annm%d", s.r.Intn(1<<30))
	NewInstance(s.root, "annotation", name, nil)
	base := "node/" + s.root + "/" + name + "/"
	Post(base+"elements", mustJSON([]map[string]interface{}{annElemJSON(1, 2, 3, "Note", []string{"t"}), annElemJSON(5, 6, 7, "Note", []string{"t"})}))
	// both sites share one barrier: whichever request reaches its yield point waits for the other
	b := newBarrier("*", 2)
	dvid.VerifYieldFunc = func(site string) {
		if site == "annotation.StoreElements" || site == "annotation.DeleteElement" || site == "annotation.MoveElement" {
			b.site = site
			b.yield(site)
		}
	}
	var r1, r2, r3 Resp
	var wg sync.WaitGroup
	wg.Add(2)
	go func() { defer wg.Done(); r1 = Delete(base + "element/1_2_3") }()
	go func() {
		defer wg.Done()
		r2 = Post(base+"elements", mustJSON([]map[string]interface{}{annElemJSON(9, 9, 9, "Note", []string{"t"})}))
	}()
	wg.Wait()
	met := b.met
	dvid.VerifYieldFunc = nil
	s.c.Count(fmt.Sprintf("annotation delete||store window-overlapped=%v", met))
	want := []string{fmt.Sprint([3]int{5, 6, 7}), fmt.Sprint([3]int{9, 9, 9})}
	sort.Strings(want)
	got := annPositions(Get(base + "all-elements").Body)
	gotTag := annPositions(Get(base + "tag/t").Body)
	s.c.Eval("annotation delete||store", true)
	if r1.OK() && r2.OK() && (fmt.Sprint(got) != fmt.Sprint(want) || fmt.Sprint(gotTag) != fmt.Sprint(want)) {
		s.report("annotation.DeleteElement||StoreElements", "after a concurrent acknowledged delete and post the element set or the tag index is not what either order produces",
			fmt.Sprintf("stored (1,2,3),(5,6,7); DELETE element/1_2_3 -> %s || POST elements [(9,9,9)] -> %s\nall-elements: %v\ntag/t: %v\nexpected: %v", r1, r2, got, gotTag, want), met)
	}
	// move || post
	b = newBarrier("*", 2)
	dvid.VerifYieldFunc = func(site string) {
		if site == "annotation.StoreElements" || site == "annotation.MoveElement" {
			b.yield("*")
		}
	}
	b.site = "*"
	wg.Add(2)
	go func() { defer wg.Done(); r1 = Post(base+"move/5_6_7/15_16_17", nil) }()
	go func() {
		defer wg.Done()
		r3 = Post(base+"elements", mustJSON([]map[string]interface{}{annElemJSON(21, 22, 23, "Note", []string{"t"})}))
	}()
	wg.Wait()
	met = b.met
	dvid.VerifYieldFunc = nil
	s.c.Count(fmt.Sprintf("annotation move||store window-overlapped=%v", met))
	want = []string{fmt.Sprint([3]int{9, 9, 9}), fmt.Sprint([3]int{15, 16, 17}), fmt.Sprint([3]int{21, 22, 23})}
	sort.Strings(want)
	got = annPositions(Get(base + "all-elements").Body)
	gotTag = annPositions(Get(base + "tag/t").Body)
	s.c.Eval("annotation move||store", true)
	if r1.OK() && r3.OK() && (fmt.Sprint(got) != fmt.Sprint(want) || fmt.Sprint(gotTag) != fmt.Sprint(want)) {
		s.report("annotation.MoveElement||StoreElements", "after a concurrent acknowledged move and post the element set or the tag index is not what either order produces",
			fmt.Sprintf("POST move/5_6_7/15_16_17 -> %s || POST elements [(21,22,23)] -> %s\nall-elements: %v\ntag/t: %v\nexpected: %v", r1, r3, got, gotTag, want), met)
	}
}

// labelmap: merges into one target
func (s *c11Sess) merges(n int) {
	name := fmt.Sprintf("lm%d", s.r.Intn(1<<30))
	NewInstance(s.root, "labelmap", name, map[string]string{"BlockSize": "32,32,32"})
	base := "node/" + s.root + "/" + name + "/"
	// n+1 supervoxels as slabs of one block: 1 = target, 2..n+1 merged one by one
	blk := make([]uint64, 32*32*32)
	for i := range blk {
		z := i / (32 * 32)
		blk[i] = uint64(1 + z*(n+1)/32)
	}
	Post(base+"raw/0_1_2/32_32_32/0_0_0", u64le(blk))
	datastoreSettle(s.root, name)
	var reqs []func() Resp
	for i := 0; i < n; i++ {
		body := []byte(fmt.Sprintf("[1,%d]", 2+i))
		reqs = append(reqs, func() Resp { return Post(base+"merge", body) })
	}
	rs, met := race("labelmap.MergeLabels", reqs)
	datastoreSettle(s.root, name)
	s.c.Count(fmt.Sprintf("labelmap merge x%d window-overlapped=%v", n, met))
	s.c.Eval(fmt.Sprintf("labelmap merges x%d", n), true)
	ok := true
	for _, r := range rs {
		ok = ok && r.OK()
	}
	if !ok {
		return
	}
	var o struct{ Voxels int }
	r1 := Get(base + "size/1")
	json.Unmarshal(r1.Body, &o)
	var svs []uint64
	r2 := Get(base + "supervoxels/1")
	json.Unmarshal(r2.Body, &svs)
	sort.Slice(svs, func(i, j int) bool { return svs[i] < svs[j] })
	var want []uint64
	for i := 0; i <= n; i++ {
		want = append(want, uint64(1+i))
	}
	lab := Get(base + "label/5_5_31")
	if o.Voxels != 32*32*32 || fmt.Sprint(svs) != fmt.Sprint(want) {
		s.report("labelmap.MergeLabels", "after concurrent acknowledged merges into one body its index misses merged supervoxels although the mapping shows them merged",
			fmt.Sprintf("supervoxels 1..%d in one block; %d concurrent POST merge [1,k]: %v\nGET size/1 -> %s (expected %d)\nGET supervoxels/1 -> %s (expected %v)\nGET label/5_5_31 -> %s", n+1, n, rs, r1, 32*32*32, r2, want, lab), met)
	}
}

func settleName(uuid, name string) {
	datastore.BlockOnUpdating(dvid.UUID(uuid), dvid.InstanceName(name))
}

// bodyOps: supervoxel splits and a cleave of one body, concurrently
func (s *c11Sess) bodyOps() {
	name := fmt.Sprintf("lb%d", s.r.Intn(1<<30))
	NewInstance(s.root, "labelmap", name, map[string]string{"BlockSize": "32,32,32"})
	base := "node/" + s.root + "/" + name + "/"
	blk := make([]uint64, 32*32*32)
	for i := range blk {
		z := i / (32 * 32)
		blk[i] = uint64(101 + z/8) // supervoxels 101..104, slabs of 8 planes
	}
	Post(base+"raw/0_1_2/32_32_32/0_0_0", u64le(blk))
	datastoreSettle(s.root, name)
	if r := Post(base+"merge", []byte("[101,102,103,104]")); !r.OK() {
		return
	}
	datastoreSettle(s.root, name)
	// sparse volume of the x < 16 half of a slab
	rle := func(sv int) []byte {
		z0 := (sv - 101) * 8
		var buf []byte
		buf = append(buf, 0, 3, 0, 0, 0, 0, 0, 0)
		n := 8 * 32
		buf = append(buf, byte(n), byte(n>>8), 0, 0)
		for z := z0; z < z0+8; z++ {
			for y := 0; y < 32; y++ {
				for _, v := range []int{0, y, z, 16} {
					buf = append(buf, byte(v), byte(v>>8), 0, 0)
				}
			}
		}
		return buf
	}
	reqs := []func() Resp{
		func() Resp { return Post(base+"split-supervoxel/102", rle(102)) },
		func() Resp { return Post(base+"split-supervoxel/103", rle(103)) },
		func() Resp { return Post(base+"cleave/101", []byte("[104]")) },
	}
	rs, met := race("|labelmap.SplitSupervoxel|labelmap.cleaveIndex|", reqs)
	datastoreSettle(s.root, name)
	s.c.Count(fmt.Sprintf("labelmap split-supervoxel x2 + cleave window-overlapped=%v", met))
	s.c.Eval("labelmap body ops", true)
	for _, r := range rs {
		if !r.OK() {
			return
		}
	}
	want := map[uint64]int{101: 8192}
	for _, r := range rs[:2] {
		var o struct{ SplitSupervoxel, RemainSupervoxel uint64 }
		json.Unmarshal(r.Body, &o)
		want[o.SplitSupervoxel] = 4096
		want[o.RemainSupervoxel] = 4096
	}
	var cl struct{ CleavedLabel uint64 }
	json.Unmarshal(rs[2].Body, &cl)
	r1 := Get(base + "supervoxel-sizes/101")
	var o struct {
		Supervoxels []uint64
		Sizes       []int
	}
	json.Unmarshal(r1.Body, &o)
	got := map[uint64]int{}
	for i := range o.Supervoxels {
		if i < len(o.Sizes) {
			got[o.Supervoxels[i]] = o.Sizes[i]
		}
	}
	r2 := Get(base + fmt.Sprintf("supervoxel-sizes/%d", cl.CleavedLabel))
	var o2 struct {
		Supervoxels []uint64
		Sizes       []int
	}
	json.Unmarshal(r2.Body, &o2)
	if fmt.Sprint(got) != fmt.Sprint(want) || len(o2.Supervoxels) != 1 || o2.Supervoxels[0] != 104 || o2.Sizes[0] != 8192 {
		s.report("labelmap.SplitSupervoxel||cleaveIndex", "after concurrent acknowledged supervoxel splits and a cleave of one body its index is not what any sequential order produces",
			fmt.Sprintf("body 101 = supervoxels 101..104 (8192 voxels each); POST split-supervoxel/102, split-supervoxel/103 (half each), cleave/101 [104] concurrently: %v\nGET supervoxel-sizes/101 -> %s\nexpected supervoxel sizes %v\nGET supervoxel-sizes/%d -> %s (expected [104]: [8192])", rs, r1, want, cl.CleavedLabel, r2), met)
	}
}

func datastoreSettle(uuid, name string) {
	done := make(chan struct{})
	go func() { settleName(uuid, name); close(done) }()
	select {
	case <-done:
	case <-time.After(20 * time.Second):
	}
}

// newVersion: at most one new child per branch
func (s *c11Sess) newVersions(n int) {
	root := NewRepo()
	Commit(root)
	var reqs []func() Resp
	for i := 0; i < n; i++ {
		reqs = append(reqs, func() Resp { return PostJSON("node/"+root+"/newversion", map[string]string{"note": "n"}) })
	}
	rs, met := race("datastore.newVersion", reqs)
	s.c.Count(fmt.Sprintf("newversion x%d window-overlapped=%v", n, met))
	s.c.Eval(fmt.Sprintf("newversion x%d", n), true)
	okc := 0
	for _, r := range rs {
		if r.OK() {
			okc++
		}
	}
	info := Get("repo/" + root + "/info")
	var ri struct {
		DAG struct {
			Nodes map[string]struct {
				Branch    string
				Parents   []int
				Children  []int
				VersionID int
			}
		}
	}
	json.Unmarshal(info.Body, &ri)
	kids, listed := 0, 0
	for u, nd := range ri.DAG.Nodes {
		if u != root && nd.Branch == "" {
			kids++
		}
		if u == root {
			listed = len(nd.Children)
		}
	}
	if okc != 1 || kids != 1 || listed != 1 {
		s.report("datastore.newVersion", "concurrent new-version requests on one parent: more than one child on the branch, or the parent's child list disagrees with the nodes",
			fmt.Sprintf("%d concurrent POST newversion on a committed root: %v\nacknowledged: %d (at most one child per branch allowed)\nnodes on the master branch besides the root: %d, children listed at the root: %d", n, rs, okc, kids, listed), met)
	}
}

// sameBranchName: N committed parents of one repo, N concurrent branch requests asking for the same new branch
// name, one per parent.  In any sequential order exactly the first is acknowledged (the name is then taken), so
// afterwards exactly one node may carry the name.
func (s *c11Sess) sameBranchName(n int) {
	root := NewRepo()
	Commit(root)
	var parents []string
	for i := 0; i < n; i++ {
		var u string
		var r Resp
		if i == 0 {
			u, r = NewVersion(root)
		} else {
			u, r = Branch(root, fmt.Sprintf("p%d", i))
		}
		if !r.OK() || u == "" {
			return
		}
		Commit(u)
		parents = append(parents, u)
	}
	var reqs []func() Resp
	for _, p := range parents {
		p := p
		reqs = append(reqs, func() Resp { return PostJSON("node/"+p+"/branch", map[string]string{"branch": "shared", "note": "n"}) })
	}
	rs, met := race("datastore.newVersion", reqs)
	s.c.Count(fmt.Sprintf("branch same name x%d window-overlapped=%v", n, met))
	s.c.Eval(fmt.Sprintf("branch same name x%d", n), true)
	okc := 0
	for _, r := range rs {
		if r.OK() {
			okc++
		}
	}
	info := Get("repo/" + root + "/info")
	var ri struct {
		DAG struct {
			Nodes map[string]struct{ Branch string }
		}
	}
	json.Unmarshal(info.Body, &ri)
	carry := 0
	for _, nd := range ri.DAG.Nodes {
		if nd.Branch == "shared" {
			carry++
		}
	}
	if okc != 1 || carry != 1 {
		s.report("datastore.newVersion branch-name", "concurrent branch requests for one new branch name on different parents: more than one was acknowledged, or several nodes carry the name (no sequential order allows that)",
			fmt.Sprintf("%d concurrent POST branch {branch: shared} on %d committed parents of one repo: %v\nacknowledged: %d, nodes carrying the branch name: %d", n, n, rs, okc, carry), met)
	}
}

// saveVsNewInstance: a request that saves the repo metadata (a node note) is held inside repoT.saveToStore, where it
// holds the repo's read lock, while a request that needs the repo's write lock (a new data instance) arrives.
// Both are acknowledged in either sequential order, so both must return; a request that never returns is a wedge.
func (s *c11Sess) saveVsNewInstance() {
	root := NewRepo()
	b := newBarrier("datastore.saveToStore", 2)
	b.timeout = 300 * time.Millisecond
	dvid.VerifYieldFunc = b.yield
	done := make(chan [2]Resp, 1)
	name := fmt.Sprintf("kvs%d", s.r.Intn(1<<30))
	go func() {
		var r1, r2 Resp
		var wg sync.WaitGroup
		wg.Add(2)
		go func() { defer wg.Done(); r1 = PostJSON("node/"+root+"/note", map[string]string{"note": "a note"}) }()
		go func() {
			defer wg.Done()
			time.Sleep(60 * time.Millisecond) // arrive while the first request is parked inside saveToStore
			r2 = PostJSON("repo/"+root+"/instance", map[string]string{"typename": "keyvalue", "dataname": name})
		}()
		wg.Wait()
		done <- [2]Resp{r1, r2}
	}()
	s.c.Eval("save vs new-instance", true)
	s.c.Count("save||new-instance")
	select {
	case rs := <-done:
		dvid.VerifYieldFunc = nil
		if !rs[0].OK() || !rs[1].OK() {
			s.report("datastore.saveToStore||newData", "a note and a new data instance requested concurrently are not both acknowledged", fmt.Sprintf("POST note -> %s ; POST instance -> %s", rs[0], rs[1]), b.met)
		}
	case <-time.After(15 * time.Second):
		dvid.VerifYieldFunc = nil
		s.c.Report("O", "C11 wedged datastore.saveToStore||newData", "two well-formed concurrent requests on one repo never return: the repo is wedged",
			"POST node/<root>/note (held inside repoT.saveToStore, which holds the repo's read lock) and, 60 ms later, POST repo/<root>/instance (needs the repo's write lock): neither request returned within 15 s.\nsaveToStore keeps its read lock while gob-encoding the repo, and repoT.GobEncode takes the same read lock again; with a writer queued in between, the second read lock waits for the writer and the writer for the first read lock.")
		s.wedged = true
	}
}

// neuronjson: partial updates of different fields of one annotation
func (s *c11Sess) neuronjson(n int) {
	name := fmt.Sprintf("nj%d", s.r.Intn(1<<30))
	NewInstance(s.root, "neuronjson", name, nil)
	base := "node/" + s.root + "/" + name + "/"
	Post(base+"key/5?u=tester", []byte(`{"bodyid":5,"a":1}`))
	var reqs []func() Resp
	for i := 0; i < n; i++ {
		body := []byte(fmt.Sprintf(`{"bodyid":5,"f%d":%d}`, i, i+10))
		reqs = append(reqs, func() Resp { return Post(base+"key/5?u=tester", body) })
	}
	rs, met := race("neuronjson.storeAndUpdate", reqs)
	s.c.Count(fmt.Sprintf("neuronjson update x%d window-overlapped=%v", n, met))
	s.c.Eval(fmt.Sprintf("neuronjson updates x%d", n), true)
	ok := true
	for _, r := range rs {
		ok = ok && r.OK()
	}
	if !ok {
		return
	}
	g := Get(base + "key/5")
	var m map[string]interface{}
	json.Unmarshal(g.Body, &m)
	var missing []string
	for i := 0; i < n; i++ {
		if _, found := m[fmt.Sprintf("f%d", i)]; !found {
			missing = append(missing, fmt.Sprintf("f%d", i))
		}
	}
	if _, found := m["a"]; !found {
		missing = append(missing, "a")
	}
	if len(missing) > 0 {
		s.report("neuronjson.storeAndUpdate", "after concurrent acknowledged partial updates of one neuron annotation a field of an acknowledged update is missing",
			fmt.Sprintf("key 5 = {a:1}; %d concurrent POST key/5 each setting its own field: %v\nGET key/5 -> %s\nmissing fields: %v", n, rs, g, missing), met)
	}
}

// neuronjsonStaggered: two updates of one annotation start together, a third arrives when the first has finished
// and the second is between its read and its write (a late arrival must still be serialised with the one inside)
func (s *c11Sess) neuronjsonStaggered() {
	name := fmt.Sprintf("njs%d", s.r.Intn(1<<30))
	NewInstance(s.root, "neuronjson", name, nil)
	base := "node/" + s.root + "/" + name + "/"
	Post(base+"key/77?u=tester", []byte(`{"bodyid":77,"base":"x"}`))
	b := newBarrier("neuronjson.storeAndUpdate", 2)
	dvid.VerifYieldFunc = b.yield
	var rs [4]Resp
	var wg sync.WaitGroup
	start := func(i int, delay time.Duration) {
		wg.Add(1)
		go func() {
			defer wg.Done()
			time.Sleep(delay)
			rs[i] = Post(base+"key/77?u=tester", []byte(fmt.Sprintf(`{"bodyid":77,"g%d":%d}`, i, i)))
		}()
	}
	start(0, 0)
	start(1, 20*time.Millisecond)
	start(2, b.timeout+150*time.Millisecond) // the first has timed out of the window and finished by then
	start(3, 2*b.timeout+300*time.Millisecond)
	wg.Wait()
	dvid.VerifYieldFunc = nil
	s.c.Count(fmt.Sprintf("neuronjson staggered window-overlapped=%v", b.met))
	s.c.Eval("neuronjson staggered updates", true)
	for _, r := range rs {
		if !r.OK() {
			return
		}
	}
	g := Get(base + "key/77")
	var m map[string]interface{}
	json.Unmarshal(g.Body, &m)
	var missing []string
	for _, f := range []string{"base", "g0", "g1", "g2", "g3"} {
		if _, found := m[f]; !found {
			missing = append(missing, f)
		}
	}
	if len(missing) > 0 {
		s.report("neuronjson.storeAndUpdate staggered", "after acknowledged partial updates of one neuron annotation, the later ones arriving while an earlier one was between read and write, a field of an acknowledged update is missing",
			fmt.Sprintf("key 77 = {base:x}; POST key/77 {g0}, {g1} together, {g2} and {g3} arriving later: %v\nGET key/77 -> %s\nmissing fields: %v", rs, g, missing), b.met)
	}
}

// keyvalue: N writers of one key (the value must be one of the written ones) and of distinct keys (all present)
func (s *c11Sess) keyvalue(n int) {
	name := fmt.Sprintf("kv%d", s.r.Intn(1<<30))
	NewInstance(s.root, "keyvalue", name, nil)
	base := "node/" + s.root + "/" + name + "/"
	var wg sync.WaitGroup
	for i := 0; i < n; i++ {
		wg.Add(1)
		go func(i int) {
			defer wg.Done()
			Post(base+"key/same", []byte(fmt.Sprintf("value-%d", i)))
			Post(base+fmt.Sprintf("key/k%d", i), []byte(fmt.Sprintf("own-%d", i)))
		}(i)
	}
	wg.Wait()
	v := string(Get(base + "key/same").Body)
	s.c.Eval("keyvalue same key", true)
	if !strings.HasPrefix(v, "value-") {
		s.report("keyvalue.put", "concurrent writes of one key leave a value nobody wrote", "GET key/same -> "+v, false)
	}
	for i := 0; i < n; i++ {
		if got := string(Get(base + fmt.Sprintf("key/k%d", i)).Body); got != fmt.Sprintf("own-%d", i) {
			s.report("keyvalue.put", "an acknowledged write of a key is missing after concurrent writes of other keys", fmt.Sprintf("GET key/k%d -> %q", i, got), false)
		}
	}
	s.c.Count("keyvalue concurrent writers")
}

// keyvaluePutDelete: a write and a deletion of one key race in a child version whose parent holds a value for
// the key.  Either order leaves the child with the new value or with no value; the parent's value showing through
// is what no order produces (both acknowledged mutations lost).  Many pairs, no forced schedule: the store's
// single-key operations have no yield point of their own.
func (s *c11Sess) keyvaluePutDelete(pairs int) {
	root := NewRepo()
	NewInstance(root, "keyvalue", "kvpd", nil)
	for i := 0; i < pairs; i++ {
		Post(fmt.Sprintf("node/%s/kvpd/key/k%d", root, i), []byte(fmt.Sprintf("parent-%d", i)))
	}
	Commit(root)
	child, r := NewVersion(root)
	if !r.OK() {
		return
	}
	base := "node/" + child + "/kvpd/"
	const width = 8
	type res struct{ p, d Resp }
	out := make([]res, pairs)
	for lo := 0; lo < pairs; lo += width {
		var wg sync.WaitGroup
		start := make(chan struct{})
		for i := lo; i < lo+width && i < pairs; i++ {
			wg.Add(2)
			go func(i int) {
				defer wg.Done()
				<-start
				out[i].p = Post(base+fmt.Sprintf("key/k%d", i), []byte(fmt.Sprintf("child-%d", i)))
			}(i)
			go func(i int) {
				defer wg.Done()
				<-start
				out[i].d = Delete(base + fmt.Sprintf("key/k%d", i))
			}(i)
		}
		close(start)
		wg.Wait()
	}
	s.c.Eval("keyvalue put||delete in a child version", true)
	s.c.Count("keyvalue put||delete pairs")
	bad := 0
	for i := 0; i < pairs; i++ {
		if !out[i].p.OK() || !out[i].d.OK() {
			continue
		}
		g := Get(base + fmt.Sprintf("key/k%d", i))
		if g.Code == 404 || (g.OK() && string(g.Body) == fmt.Sprintf("child-%d", i)) {
			continue
		}
		bad++
		if bad == 1 {
			s.report("keyvalue.put||delete", "after a concurrent acknowledged write and deletion of one key in a child version the key reads as neither order leaves it",
				fmt.Sprintf("parent (committed): key k%d = parent-%d; child: POST key/k%d child-%d -> %d || DELETE key/k%d -> %d\nGET key/k%d at the child -> %s (expected 404 or child-%d)", i, i, i, i, out[i].p.Code, i, out[i].d.Code, i, g, i), false)
		}
	}
	if bad > 0 {
		s.c.Count(fmt.Sprintf("keyvalue put||delete torn keys: %d of %d", bad, pairs))
	}
}

func runC11(c *Ctx) {
	c.Rule = "a case is one group of 2..N requests run concurrently with a barrier installed at the yield point of the read-modify-write sequence they share (annotation element store / delete / move in one block and tag, merges into one body, new-version on one parent, partial updates of one neuron annotation, key-value writes), followed by the comparison of the quiescent state with what the acknowledged requests produce in a sequential order. non-trivial = every group (the forced schedule is attempted for each; whether the requests really were between read and write at the same time is recorded per site in the distribution — on a covered site they cannot be); distinct by site and group size"
	OpenServer()
	defer CloseServer()
	s := &c11Sess{c: c, r: c.Rng.Fork(), root: NewRepo()}
	rounds := 2
	if c.Thorough {
		rounds = 12
	}
	for i := 0; i < rounds; i++ {
		n := 2
		if i > 0 {
			n = 2 + s.r.Intn(4)
		}
		s.annotation(n)
		s.annotationMixed()
		s.annotationRetag(n)
		s.merges(n)
		s.bodyOps()
		s.newVersions(n)
		s.sameBranchName(n)
		if !s.wedged {
			s.saveVsNewInstance()
		}
		if s.wedged {
			return // the process-wide manager is stuck: nothing after this can be trusted
		}
		s.neuronjson(n)
		s.neuronjsonStaggered()
		s.keyvalue(4 + n)
	}
	if c.Thorough {
		s.keyvaluePutDelete(8000)
	} else {
		s.keyvaluePutDelete(2500)
	}
}
