package main

import (
	"encoding/binary"
	"fmt"
	"os"
	"sort"
	"strings"

	"github.com/janelia-flyem/dvid/datatype/common/labels"
	"github.com/janelia-flyem/dvid/dvid"
)

func init() { register("C10", runC10) }

// the dead fast path is probed on every down-sampling case until its known disagreement has been reproduced
// once in this run (then on a sample), so that the recorded finding is reported by every run
var c10FastSeen bool

func voteRef(ls []uint64) uint64 {
	m := map[uint64]int{}
	for _, l := range ls {
		if l != 0 {
			m[l]++
		}
	}
	var w uint64
	wn := 0
	for l, n := range m {
		if n > wn || n == wn && l < w {
			w, wn = l, n
		}
	}
	return w
}

// downresRef: 2x down-sampling of hi into the (ox,oy,oz) octant of lo (same size arrays).
func downresInto(hi *vol, lo *vol, ox, oy, oz int) {
	for z := 0; z < hi.sz; z += 2 {
		for y := 0; y < hi.sy; y += 2 {
			for x := 0; x < hi.sx; x += 2 {
				var ls []uint64
				for o := 0; o < 8; o++ {
					ls = append(ls, hi.a[(z+o/4)*hi.sx*hi.sy+(y+(o/2)%2)*hi.sx+x+o%2])
				}
				lo.a[(z/2+oz*hi.sz/2)*lo.sx*lo.sy+(y/2+oy*hi.sy/2)*lo.sx+x/2+ox*hi.sx/2] = voteRef(ls)
			}
		}
	}
}

// genRunsIn: runs inside the block (local coordinates), mostly over voxels of `target`, some crossing
// sub-block borders, some single voxels, possibly the whole block or nothing.
func genRunsIn(r *Rng, v *vol, target uint64) []run {
	var rs []run
	switch r.Intn(8) {
	case 0:
		return nil
	case 1:
		for z := 0; z < v.sz; z++ {
			for y := 0; y < v.sy; y++ {
				rs = append(rs, run{0, int32(y), int32(z), int32(v.sx)})
			}
		}
		return rs
	case 2:
		x, y, z := r.Intn(v.sx), r.Intn(v.sy), r.Intn(v.sz)
		return []run{{int32(x), int32(y), int32(z), 1}}
	}
	n := 1 + r.Intn(40)
	used := map[[2]int]int{} // row -> next free x
	for i := 0; i < n; i++ {
		y, z := r.Intn(v.sy), r.Intn(v.sz)
		if r.Chance(0.6) {
			// aim at a voxel of the target
			for k := 0; k < 30; k++ {
				p := r.Intn(len(v.a))
				if v.a[p] == target {
					y, z = (p/v.sx)%v.sy, p/(v.sx*v.sy)
					break
				}
			}
		}
		x0 := used[[2]int{y, z}]
		if x0 >= v.sx {
			continue
		}
		x := x0 + r.Intn(v.sx-x0)
		l := 1 + r.Intn(v.sx-x)
		if r.Chance(0.5) && l > 12 {
			l = 1 + r.Intn(12)
		}
		rs = append(rs, run{int32(x), int32(y), int32(z), int32(l)})
		used[[2]int{y, z}] = x + l
	}
	return rs
}

func offsetRuns(rs []run, off dvid.Point3d) dvid.RLEs {
	out := make(dvid.RLEs, 0, len(rs))
	for _, r := range rs {
		out = append(out, dvid.NewRLE(dvid.Point3d{r.x + off[0], r.y + off[1], r.z + off[2]}, r.n))
	}
	return out
}

func inRuns(v *vol, rs []run) []bool {
	m := make([]bool, len(v.a))
	for _, r := range rs {
		for i := int32(0); i < r.n; i++ {
			m[int(r.z)*v.sx*v.sy+int(r.y)*v.sx+int(r.x+i)] = true
		}
	}
	return m
}

func presentLabels(v *vol, max int) []uint64 {
	m := map[uint64]bool{}
	var out []uint64
	for _, l := range v.a {
		if !m[l] {
			m[l] = true
			out = append(out, l)
		}
	}
	sortU64(out)
	if len(out) > max {
		// keep a spread
		step := len(out) / max
		var o2 []uint64
		for i := 0; i < len(out); i += step {
			o2 = append(o2, out[i])
		}
		out = o2
	}
	return out
}

func pickLabel(r *Rng, present []uint64, pAbsent float64) uint64 {
	if len(present) == 0 || r.Chance(pAbsent) {
		return 1<<40 + uint64(r.Intn(1000))
	}
	return present[r.Intn(len(present))]
}

func genEvenDims(r *Rng, thorough bool) (int, int, int) {
	for {
		sx, sy, sz := genDims(r, thorough)
		if (sx/8)*(sy/8)*(sz/8)%2 == 0 {
			return sx, sy, sz
		}
	}
}

func copyVol(v *vol) *vol { return &vol{v.sx, v.sy, v.sz, append([]uint64(nil), v.a...)} }

func pairsStr(m map[uint64]uint64) string {
	if len(m) == 0 {
		return "-"
	}
	ks := make([]uint64, 0, len(m))
	for k := range m {
		ks = append(ks, k)
	}
	sortU64(ks)
	var p []string
	for _, k := range ks {
		p = append(p, fmt.Sprintf("%d:%d", k, m[k]))
	}
	return strings.Join(p, ",")
}

func runC10(c *Ctx) {
	c.Rule = "a case is one operation (merge, replace, split, supervoxel split, down-sample) applied to a compressed block and compared voxel for voxel with the same operation on the array; non-trivial when the operation changed at least one voxel"
	r := c.Rng
	// the 2x2x2 vote in isolation: DownresLabels on a 2x2x2 array against the model's vote
	nv := 300
	if c.Thorough {
		nv = 5000
	}
	for i := 0; i < nv; i++ {
		pool := genPool(r, 1+r.Intn(4))
		if r.Chance(0.5) {
			pool = append(pool, 0)
		}
		ls := make([]uint64, 8)
		for k := range ls {
			ls[k] = pool[r.Intn(len(pool))]
		}
		hv := &vol{2, 2, 2, ls}
		lo, err := labels.DownresLabels(hv.bytes(), hv.size())
		if err != nil {
			c.Report("O", "C10 downreslabels-error", "DownresLabels fails on a 2x2x2 array", fmt.Sprint(ls, err))
			continue
		}
		got := binary.LittleEndian.Uint64(lo)
		if got != voteRef(ls) {
			c.Report("O", "C10 vote-differs", "the 2x2x2 vote is not the most frequent non-zero label with ties to the smaller label", fmt.Sprintf("labels %v got %d want %d\n", ls, got, voteRef(ls)))
		}
		c.AskCmp("C10-vote", "blk.vote "+csvU64(ls), fmt.Sprintf("ok %d", got))
		c.Eval("vote "+csvU64(ls), true)
	}
	// directed: a fast merge leaves one table slot listed twice in a sub-block; the replaced-voxel count of a
	// following ReplaceLabel must still be the true count
	for k := 0; k < 3; k++ {
		dv := &vol{16, 16, 16, make([]uint64, 4096)}
		for i := range dv.a {
			dv.a[i] = uint64(1 + r.Intn(4+k))
		}
		db, err := labels.MakeBlock(dv.bytes(), dv.size())
		if err != nil {
			c.Report("H", "C10 directed-makeblock", "MakeBlock failed", err.Error())
			break
		}
		mb, err := db.MergeLabels(labels.MergeOp{Target: 1, Merged: labels.Set{2: struct{}{}, 3: struct{}{}}})
		if err != nil {
			c.Report("O", "C10 merge-fails", "MergeLabels fails", err.Error())
			break
		}
		var want uint64
		for i, l := range dv.a {
			if l == 2 || l == 3 {
				dv.a[i] = 1
			}
			if dv.a[i] == 1 {
				want++
			}
		}
		c.Model.Ask(blockLine(db))
		c.Model.Ask("blk.merge 1 2,3")
		_, size, err := mb.ReplaceLabel(1, 99)
		hist := "MergeLabels target 1 merged [2 3]\nReplaceLabel 1 -> 99\n"
		if err != nil || size != want {
			c.Report("O", "C10 replace-size-differs", "ReplaceLabel reports a replaced-voxel count that is not the number of voxels it replaced",
				blockReplay(dv, hist+fmt.Sprintf("(array shown after the merge) reported %d, true %d, err %v\n", size, want, err)))
		}
		c.Cmp("C10-replace-size", hist, fmt.Sprintf("ok %d", size), c.Model.Ask("blk.replace1 1 99"))
		c.Eval(fmt.Sprintf("directed merge-then-replace %d", k), true)
	}
	// directed: table aliasing before a merge.  ReplaceLabel into a label that already exists leaves that label in
	// two table slots; a following merge must treat every slot (target before, between and after the slots,
	// target absent, target itself duplicated).
	for k := 0; k < 8; k++ {
		nl := 4 + r.Intn(4)
		dv := &vol{16, 16, 16, make([]uint64, 4096)}
		for i := range dv.a {
			dv.a[i] = uint64(1 + r.Intn(nl))
		}
		db, err := labels.MakeBlock(dv.bytes(), dv.size())
		if err != nil {
			c.Report("H", "C10 directed-makeblock", "MakeBlock failed", err.Error())
			break
		}
		from, to := uint64(1+r.Intn(nl)), uint64(1+r.Intn(nl))
		if from == to {
			to = from%uint64(nl) + 1
		}
		rb, _, err := db.ReplaceLabel(from, to)
		if err != nil {
			c.Report("O", "C10 replace-fails", "ReplaceLabel fails", err.Error())
			break
		}
		for i, l := range dv.a {
			if l == from {
				dv.a[i] = to
			}
		}
		hist := fmt.Sprintf("ReplaceLabel %d -> %d\n", from, to)
		for _, target := range []uint64{1, to, uint64(nl), 77} {
			merged := map[uint64]bool{to: true}
			if target == to {
				merged = map[uint64]bool{uint64(1 + r.Intn(nl)): true}
				delete(merged, to)
				if len(merged) == 0 {
					merged[to%uint64(nl)+1] = true
				}
			}
			if r.Bool() {
				x := uint64(1 + r.Intn(nl))
				if x != target {
					merged[x] = true
				}
			}
			delete(merged, target)
			if len(merged) == 0 {
				continue
			}
			set := labels.Set{}
			for l := range merged {
				set[l] = struct{}{}
			}
			h2 := hist + fmt.Sprintf("MergeLabels target %d merged %v\n", target, keysOf(merged))
			mb, err := rb.MergeLabels(labels.MergeOp{Target: target, Merged: set})
			if err != nil {
				c.Report("O", "C10 merge-fails", "MergeLabels fails", blockReplay(dv, h2+err.Error()))
				continue
			}
			want := copyVol(dv)
			for i, l := range want.a {
				if merged[l] {
					want.a[i] = target
				}
			}
			got := decodeOf(mb)
			if i := firstDiff(got.a, want.a); i != -1 {
				c.Report("O", "C10 merge-differs", "the operation on the compressed block differs from the operation on the array",
					blockReplay(dv, h2+fmt.Sprintf("(array shown after the replace) first differing voxel %d got %d want %d\n", i, at(got.a, i), at(want.a, i))))
			}
			c.Model.Ask(blockLine(rb))
			c.Model.Ask(fmt.Sprintf("blk.merge %d %s", target, csvU64(keysOf(merged))))
			c.Cmp("C10-merge", h2, fmt.Sprintf("ok %d %d", len(got.a), fnvLabels(got.a)), c.Model.Ask("blk.hash"))
			c.Eval("directed replace-then-merge "+h2, true)
		}
		// the same aliased table under a split: sizes and content for the doubled label and for its neighbours
		for _, target := range []uint64{to, 1, uint64(nl)} {
			rs := genRunsIn(r, dv, target)
			newLabel := uint64(1<<42) + uint64(r.Intn(1000))
			h2 := hist + fmt.Sprintf("Split target %d new %d runs(local) %s\n", target, newLabel, runsStr(rs))
			pb := labels.PositionedBlock{Block: *rb, BCoord: dvid.ChunkPoint3d{0, 0, 0}.ToIZYXString()}
			var sb *labels.Block
			var kept, split uint64
			var serr error
			if p := safely(func() {
				sb, kept, split, serr = pb.Split(labels.SplitOp{Target: target, NewLabel: newLabel, RLEs: offsetRuns(rs, dvid.Point3d{0, 0, 0})})
			}); p != "" || serr != nil {
				c.Report("O", "C10 split-fails", "Split fails or panics", blockReplay(dv, h2+p+fmt.Sprint(serr)+"\n"))
				continue
			}
			mask := inRuns(dv, rs)
			want := copyVol(dv)
			var wk, ws uint64
			for i, l := range dv.a {
				if l == target {
					if mask[i] {
						want.a[i] = newLabel
						ws++
					} else {
						wk++
					}
				}
			}
			c.Eval("directed replace-then-split "+h2, true)
			c.Count("op-split after aliasing replace")
			if wk+ws == 0 {
				continue
			}
			if sb == nil {
				c.Report("O", "C10 split-absent-target", "Split returns no block although the target label is in the block", blockReplay(dv, h2+"(array shown after the replace)\n"))
				continue
			}
			if kept != wk || split != ws {
				c.Report("O", "C10 split-sizes-differ", "Split reports kept/split sizes that are not the true counts", blockReplay(dv, h2+fmt.Sprintf("(array shown after the replace) reported kept %d split %d, true kept %d split %d\n", kept, split, wk, ws)))
			}
			if got := decodeOf(sb); firstDiff(got.a, want.a) != -1 {
				i := firstDiff(got.a, want.a)
				c.Report("O", "C10 split-differs", "the operation on the compressed block differs from the operation on the array",
					blockReplay(dv, h2+fmt.Sprintf("(array shown after the replace) first differing voxel %d got %d want %d\n", i, at(got.a, i), at(want.a, i))))
			}
		}
	}
	iters := 30
	if c.Thorough {
		iters = 400
	}
	for it := 0; it < iters; it++ {
		sx, sy, sz := genEvenDims(r, c.Thorough)
		v, mode := genVol(r, c, sx, sy, sz)
		b, err := labels.MakeBlock(v.bytes(), v.size())
		if err != nil {
			c.Report("H", "C10 makeblock", "MakeBlock failed on an even geometry", err.Error())
			continue
		}
		c.Model.Ask(blockLine(b))
		coord := dvid.ChunkPoint3d{int32(r.Intn(7) - 3), int32(r.Intn(7) - 3), int32(r.Intn(7) - 3)}
		off := dvid.Point3d{coord[0] * int32(sx), coord[1] * int32(sy), coord[2] * int32(sz)}
		history := fmt.Sprintf("mode: %s block coord %v\n", mode, coord)
		nops := 1 + r.Intn(3)
		for k := 0; k < nops && b != nil; k++ {
			present := presentLabels(v, 40)
			before := copyVol(v)
			var nb *labels.Block
			changed := false
			opName := ""
			modelSynced := true
			switch r.Intn(9) {
			case 0, 1: // merge
				opName = "merge"
				target := pickLabel(r, present, 0.35)
				merged := map[uint64]bool{}
				switch r.Intn(4) {
				case 0: // everything else
					for _, l := range present {
						if l != target {
							merged[l] = true
						}
					}
				case 1: // only absent labels
					merged[1<<41+uint64(r.Intn(100))] = true
				default:
					n := 1 + r.Intn(4)
					for i := 0; i < n; i++ {
						l := pickLabel(r, present, 0.2)
						if l != target {
							merged[l] = true
						}
					}
				}
				if len(merged) == 0 {
					merged[1<<41] = true
				}
				set := labels.Set{}
				for l := range merged {
					set[l] = struct{}{}
				}
				history += fmt.Sprintf("MergeLabels target %d merged %v\n", target, keysOf(merged))
				c.Count("op-merge")
				if p := safely(func() { nb, err = b.MergeLabels(labels.MergeOp{Target: target, Merged: set}) }); p != "" || err != nil {
					c.Report("O", "C10 merge-fails", "MergeLabels fails or panics", blockReplay(before, history+p+fmt.Sprint(err)+"\n"))
					nb = nil
					break
				}
				for i, l := range v.a {
					if merged[l] {
						v.a[i] = target
						changed = true
					}
				}
				c.Model.Ask(fmt.Sprintf("blk.merge %d %s", target, csvU64(keysOf(merged))))
			case 2: // replace one
				opName = "replace1"
				target := pickLabel(r, present, 0.2)
				newLabel := pickLabel(r, present, 0.5) // half the time an existing label: duplicates in the table
				if r.Chance(0.1) {
					newLabel = 0
				}
				history += fmt.Sprintf("ReplaceLabel %d -> %d\n", target, newLabel)
				c.Count("op-replace1")
				var size uint64
				if p := safely(func() { nb, size, err = b.ReplaceLabel(target, newLabel) }); p != "" || err != nil {
					c.Report("O", "C10 replace-fails", "ReplaceLabel fails or panics", blockReplay(before, history+p+fmt.Sprint(err)+"\n"))
					nb = nil
					break
				}
				var want uint64
				for i, l := range v.a {
					if l == target {
						v.a[i] = newLabel
						want++
					}
				}
				changed = want > 0 && target != newLabel
				if size != want {
					c.Report("O", "C10 replace-size-differs", "ReplaceLabel reports a replaced-voxel count that is not the number of voxels it replaced",
						blockReplay(before, history+fmt.Sprintf("reported %d, true %d\n", size, want)))
				}
				ans := c.Model.Ask(fmt.Sprintf("blk.replace1 %d %d", target, newLabel))
				c.Cmp("C10-replace-size", history, fmt.Sprintf("ok %d", size), ans)
			case 3: // replace many
				opName = "replaceN"
				m := map[uint64]uint64{}
				n := 1 + r.Intn(4)
				for i := 0; i < n; i++ {
					m[pickLabel(r, present, 0.2)] = pickLabel(r, present, 0.4) // chains when a value is also a key
				}
				if r.Chance(0.15) {
					m[0] = pickLabel(r, present, 0.5)
				}
				if r.Chance(0.15) {
					m[pickLabel(r, present, 0)] = 0
				}
				history += fmt.Sprintf("ReplaceLabels %s\n", pairsStr(m))
				c.Count("op-replaceN")
				var replaced bool
				if p := safely(func() { nb, replaced, err = b.ReplaceLabels(m) }); p != "" || err != nil {
					c.Report("O", "C10 replacelabels-fails", "ReplaceLabels fails or panics", blockReplay(before, history+p+fmt.Sprint(err)+"\n"))
					nb = nil
					break
				}
				hit := false
				for i, l := range v.a {
					if nl, ok := m[l]; ok {
						hit = true
						if nl != l {
							changed = true
						}
						v.a[i] = nl
					}
				}
				if hit && !replaced {
					c.Report("O", "C10 replacelabels-flag", "ReplaceLabels says nothing was replaced although voxels carried a mapped label", blockReplay(before, history))
				}
				c.Model.Ask("blk.replace " + pairsStr(m))
			case 4: // split by sparse volume
				opName = "split"
				target := pickLabel(r, present, 0.15)
				newLabel := uint64(1<<42) + uint64(r.Intn(1000))
				rs := genRunsIn(r, v, target)
				history += fmt.Sprintf("Split target %d new %d runs(local) %s\n", target, newLabel, runsStr(rs))
				c.Count("op-split")
				pb := labels.PositionedBlock{Block: *b, BCoord: coord.ToIZYXString()}
				op := labels.SplitOp{Target: target, NewLabel: newLabel, RLEs: offsetRuns(rs, off)}
				var kept, split uint64
				if p := safely(func() { nb, kept, split, err = pb.Split(op) }); p != "" || err != nil {
					c.Report("O", "C10 split-fails", "Split fails or panics", blockReplay(before, history+p+fmt.Sprint(err)+"\n"))
					nb = nil
					break
				}
				mask := inRuns(v, rs)
				var wk, ws uint64
				for i, l := range v.a {
					if l == target {
						if mask[i] {
							v.a[i] = newLabel
							ws++
						} else {
							wk++
						}
					}
				}
				changed = ws > 0
				if wk+ws == 0 {
					if nb != nil {
						c.Report("O", "C10 split-absent-target", "Split returns a block although the target label is not in the block", blockReplay(before, history))
					}
					nb = b // nothing happens
				} else if kept != wk || split != ws {
					c.Report("O", "C10 split-sizes-differ", "Split reports kept/split sizes that are not the true counts", blockReplay(before, history+fmt.Sprintf("reported kept %d split %d, true kept %d split %d\n", kept, split, wk, ws)))
				}
				// alternative path
				if it%4 == 0 {
					var fb *labels.Block
					var fk, fs uint64
					var ferr error
					p := safely(func() { fb, fk, fs, ferr = labels.VerifSplitFast(pb, op) })
					bad := ""
					if p != "" {
						bad = "panic: " + p
					} else if ferr != nil {
						bad = "error: " + ferr.Error()
					} else if wk+ws > 0 && (fb == nil || fk != wk || fs != ws) {
						bad = fmt.Sprintf("fast kept %d split %d, slow kept %d split %d", fk, fs, wk, ws)
					} else if fb != nil {
						if p2 := safely(func() {
							if i := firstDiff(decodeOf(fb).a, v.a); i != -1 {
								bad = fmt.Sprintf("first differing voxel %d", i)
							}
						}); p2 != "" {
							bad = "its result cannot be decoded: " + p2
						}
					}
					if bad != "" {
						c.Report("O", "C10 splitFast-disagrees-with-splitSlow", "the fast split path (splitFast, not called by any live code) disagrees with the slow one", blockReplay(before, history+bad+"\n"))
					}
				}
				modelSynced = false
			case 5: // supervoxel split (one)
				opName = "svsplit"
				sv := pickLabel(r, present, 0.15)
				// fresh ids, as the server issues them: never a label the block already holds (k is the op's index)
				splitL, remainL := uint64(1<<43)+uint64(1000*k+r.Intn(1000)), uint64(1<<44)+uint64(1000*k+r.Intn(1000))
				rs := genRunsIn(r, v, sv)
				withRuns := r.Chance(0.85)
				history += fmt.Sprintf("SplitSupervoxel sv %d split %d remain %d runs(local) %s inOp=%v\n", sv, splitL, remainL, runsStr(rs), withRuns)
				c.Count("op-svsplit")
				pb := labels.PositionedBlock{Block: *b, BCoord: coord.ToIZYXString()}
				op := labels.SplitSupervoxelOp{Supervoxel: sv, SplitSupervoxel: splitL, RemainSupervoxel: remainL, Split: dvid.BlockRLEs{}}
				if withRuns {
					op.Split[coord.ToIZYXString()] = offsetRuns(rs, off)
				} else {
					rs = nil
				}
				var kept, split uint64
				if p := safely(func() { nb, kept, split, err = pb.SplitSupervoxel(op) }); p != "" || err != nil {
					c.Report("O", "C10 svsplit-fails", "SplitSupervoxel fails or panics", blockReplay(before, history+p+fmt.Sprint(err)+"\n"))
					nb = nil
					break
				}
				mask := inRuns(v, rs)
				var wk, ws uint64
				for i, l := range v.a {
					if l == sv {
						if mask[i] {
							v.a[i] = splitL
							ws++
						} else {
							v.a[i] = remainL
							wk++
						}
					}
				}
				changed = wk+ws > 0
				if kept != wk || split != ws {
					c.Report("O", "C10 svsplit-sizes-differ", "SplitSupervoxel reports kept/split sizes that are not the true counts", blockReplay(before, history+fmt.Sprintf("reported kept %d split %d, true kept %d split %d\n", kept, split, wk, ws)))
				}
				modelSynced = false
			case 6: // supervoxel splits (many) and its statistics
				opName = "svsplits"
				rs := genRunsIn(r, v, pickLabel(r, present, 0))
				svs := map[uint64]labels.SVSplit{}
				n := 1 + r.Intn(3)
				for i := 0; i < n; i++ {
					l := pickLabel(r, present, 0.2)
					if l != 0 {
						svs[l] = labels.SVSplit{Split: uint64(1<<45) + uint64(16*k+2*i), Remain: uint64(1<<45) + uint64(16*k+2*i+1)}
					}
				}
				history += fmt.Sprintf("SplitSupervoxels %v runs(local) %s\n", svs, runsStr(rs))
				c.Count("op-svsplits")
				pb := labels.PositionedBlock{Block: *b, BCoord: coord.ToIZYXString()}
				// statistics first (on the unchanged block): every non-zero label under the runs gets a fresh pair
				next := uint64(1 << 46)
				newLabel := func() (uint64, error) { next++; return next, nil }
				sm := &labels.SVSplitMap{}
				var stats map[uint64]labels.SVSplitCount
				if p := safely(func() { stats, err = pb.SplitStats(offsetRuns(rs, off), sm, newLabel) }); p != "" || err != nil {
					c.Report("O", "C10 splitstats-fails", "SplitStats fails or panics", blockReplay(before, history+p+fmt.Sprint(err)+"\n"))
				} else {
					mask := inRuns(v, rs)
					want := map[uint64]uint32{}
					for i, l := range v.a {
						if mask[i] && l != 0 {
							want[l]++
						}
					}
					ok := len(want) == len(stats)
					for l, n := range want {
						if stats[l].Voxels != n {
							ok = false
						}
					}
					seen := map[uint64]bool{}
					for _, s := range stats {
						if seen[s.Split] || seen[s.Remain] || s.Split == s.Remain {
							ok = false
						}
						seen[s.Split], seen[s.Remain] = true, true
					}
					if !ok {
						c.Report("O", "C10 splitstats-differ", "SplitStats voxel counts per supervoxel differ from the array's, or new labels are reused", blockReplay(before, history+fmt.Sprintf("got %v want %v\n", stats, want)))
					}
					// DoSplitWithStats with the same map: voxels under runs -> Split, the rest of those supervoxels -> Remain
					var db *labels.Block
					var dc map[uint64]labels.SVSplitCount
					if p := safely(func() { db, dc, err = pb.DoSplitWithStats(labels.SplitOp{RLEs: offsetRuns(rs, off)}, sm, newLabel) }); p != "" || err != nil {
						c.Report("O", "C10 dosplit-fails", "DoSplitWithStats fails or panics", blockReplay(before, history+p+fmt.Sprint(err)+"\n"))
					} else {
						ref := copyVol(v)
						for i, l := range v.a {
							if s, ok := stats[l]; ok {
								if mask[i] {
									ref.a[i] = s.Split
								} else {
									ref.a[i] = s.Remain
								}
							}
						}
						if i := firstDiff(decodeOf(db).a, ref.a); i != -1 {
							c.Report("O", "C10 dosplit-differs", "DoSplitWithStats differs from the voxel-wise split", blockReplay(before, history+fmt.Sprintf("first differing voxel %d\n", i)))
						}
						for l, n := range want {
							if dc[l].Voxels != n {
								c.Report("O", "C10 dosplit-counts-differ", "DoSplitWithStats counts differ", blockReplay(before, history))
								break
							}
						}
					}
				}
				if p := safely(func() { nb, err = pb.SplitSupervoxels(offsetRuns(rs, off), svs) }); p != "" || err != nil {
					c.Report("O", "C10 svsplits-fails", "SplitSupervoxels fails or panics", blockReplay(before, history+p+fmt.Sprint(err)+"\n"))
					nb = nil
					break
				}
				mask := inRuns(v, rs)
				for i, l := range v.a {
					if s, ok := svs[l]; ok {
						changed = true
						if mask[i] {
							v.a[i] = s.Split
						} else {
							v.a[i] = s.Remain
						}
					}
				}
				modelSynced = false
			default: // down-sampling with this block as one of the octants
				opName = "downres"
				c.Count("op-downres")
				var oct [8]*labels.Block
				var octV [8]*vol
				desc := ""
				for o := 0; o < 8; o++ {
					switch r.Intn(4) {
					case 0:
						desc += "nil "
					case 1:
						l := pickLabel(r, present, 0.3)
						if r.Chance(0.3) {
							l = 0
						}
						octV[o] = &vol{sx, sy, sz, make([]uint64, sx*sy*sz)}
						for i := range octV[o].a {
							octV[o].a[i] = l
						}
						oct[o] = labels.MakeSolidBlock(l, v.size())
						desc += fmt.Sprintf("solid(%d) ", l)
					case 2:
						octV[o] = copyVol(v)
						oct[o] = b
						desc += "this "
					default:
						ov, _ := genVol(r, c, sx, sy, sz)
						ob, err := labels.MakeBlock(ov.bytes(), ov.size())
						if err == nil {
							octV[o], oct[o] = ov, ob
							desc += "random "
						} else {
							desc += "nil "
						}
					}
				}
				history += "Downres octants: " + desc + "\n"
				// receiving block: solid 0, solid label or this block's content
				recvV := copyVol(v)
				recv := b
				if r.Bool() {
					l := uint64(0)
					if r.Bool() {
						l = pickLabel(r, present, 0.5)
					}
					recv = labels.MakeSolidBlock(l, v.size())
					for i := range recvV.a {
						recvV.a[i] = l
					}
					history += fmt.Sprintf("receiver solid(%d)\n", l)
				} else {
					// Downres mutates its receiver: work on a re-parsed copy
					ser, _ := b.MarshalBinary()
					cp := new(labels.Block)
					cp.UnmarshalBinary(append([]byte(nil), ser...))
					recv = cp
					history += "receiver this block\n"
				}
				filled := true
				for o := 0; o < 8; o++ {
					if oct[o] == nil {
						filled = false
					}
				}
				want := copyVol(recvV)
				if filled {
					for i := range want.a {
						want.a[i] = 0
					}
				}
				for o := 0; o < 8; o++ {
					if octV[o] != nil {
						downresInto(octV[o], want, o%2, (o/2)%2, o/4)
					}
				}
				// fast path on a second copy (dead code in the server)
				var fast *labels.Block
				if it%5 == 0 || !c10FastSeen {
					ser, _ := recv.MarshalBinary()
					fast = new(labels.Block)
					if len(ser) >= 24 {
						fast.UnmarshalBinary(append([]byte(nil), ser...))
					} else {
						fast = nil
					}
				}
				if p := safely(func() { err = recv.Downres(oct) }); p != "" || err != nil {
					c.Report("O", "C10 downres-fails", "Downres fails or panics", blockReplay(before, history+p+fmt.Sprint(err)+"\n"))
					nb = nil
					break
				}
				got := decodeOf(recv)
				if i := firstDiff(got.a, want.a); i != -1 {
					c.Report("O", "C10 downres-differs", "block-domain down-sampling differs from the voxel-wise 2x2x2 vote", blockReplay(before, history+fmt.Sprintf("first differing voxel %d got %d want %d\n", i, at(got.a, i), at(want.a, i))))
				}
				if fast != nil {
					stdout := os.Stdout
					devnull, _ := os.Open(os.DevNull)
					os.Stdout = devnull
					var ferr error
					p := safely(func() { ferr = fast.DownresFast(oct) })
					os.Stdout = stdout
					devnull.Close()
					bad := ""
					if p != "" {
						bad = "panic: " + p
					} else if ferr != nil {
						c.Count("DownresFast-declines: " + trunc(ferr.Error()[:min(40, len(ferr.Error()))]))
					} else if p2 := safely(func() {
						if i := firstDiff(decodeOf(fast).a, want.a); i != -1 {
							bad = fmt.Sprintf("first differing voxel %d", i)
						}
					}); p2 != "" {
						bad = "its result cannot be decoded: " + p2
					}
					if bad != "" {
						c10FastSeen = true
						c.Report("O", "C10 DownresFast-disagrees-with-DownresSlow", "the block-domain fast down-sampling (DownresFast, not called by any live code) disagrees with the array-domain one", blockReplay(before, history+bad+"\n"))
					}
				}
				// array-domain on this block's array, against the model
				if sx*sy*sz <= 16*16*32 {
					lo, err := labels.DownresLabels(before.bytes(), before.size())
					if err != nil {
						c.Report("O", "C10 downreslabels-error", "DownresLabels fails", err.Error())
					} else {
						lv := volFromBytes(lo[:len(lo)/8*8], dvid.Point3d{int32(sx / 2), int32(sy / 2), int32(sz / 2)})
						c.AskCmp("C10-downreslabels", fmt.Sprintf("blk.downres %d %d %d %s", sx, sy, sz, csvU64(before.a)), fmt.Sprintf("ok %d %d", sx*sy*sz/8, fnvLabels(lv.a[:sx*sy*sz/8])))
					}
				}
				nb = recv
				v = want
				changed = true
				modelSynced = false
			}
			if nb == nil {
				break
			}
			c.Eval(fmt.Sprintf("%s %x %s", opName, fnvLabels(before.a), history), changed)
			// result, voxel for voxel
			got := decodeOf(nb)
			if i := firstDiff(got.a, v.a); i != -1 {
				c.Report("O", "C10 "+opName+"-differs", "the operation on the compressed block differs from the operation on the array",
					blockReplay(before, history+fmt.Sprintf("first differing voxel %d got %d want %d\n", i, at(got.a, i), at(v.a, i))))
				break
			}
			if modelSynced {
				c.Cmp("C10-"+opName, history, fmt.Sprintf("ok %d %d", len(got.a), fnvLabels(got.a)), c.Model.Ask("blk.hash"))
			}
			b = nb
			// every view of the result block still agrees with the array
			checkViews(c, r.Fork(), "C10-after-"+opName, b, v, history)
			// keep the model on the same block for the next operation
			ans := c.Model.Ask(blockLine(b))
			if strings.Contains(ans, "nodup=0") {
				c.Count("block-with-duplicate-slots-in-a-sub-block")
			}
		}
	}
	_ = sort.Ints
}
