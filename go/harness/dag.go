package main

import (
	"fmt"
	"sort"
	"strings"

	"github.com/janelia-flyem/dvid/datastore"
	"github.com/janelia-flyem/dvid/dvid"
)

// A version DAG built through the real manager (HTTP commit / newversion / branch / merge).
type tnode struct {
	uuid    string
	v       int // dvid.VersionID
	parents []int
	locked  bool
}

type tdag struct {
	base  int // version id of the root minus 1: the model sees ids relative to it
	root  string
	nodes []*tnode        // creation order
	byV   map[int]*tnode
	nb    int
}

func versionOf(uuid string) int {
	v, err := datastore.VersionFromUUID(dvid.UUID(uuid))
	if err != nil {
		return -1
	}
	return int(v)
}

// curDag is the DAG under construction (placement callbacks need its id base).
var curDag *tdag

func newTDag() *tdag {
	root := NewRepo()
	d := &tdag{root: root, byV: map[int]*tnode{}}
	d.base = versionOf(root) - 1
	curDag = d
	d.add(root, nil)
	return d
}

func (d *tdag) add(uuid string, parents []int) *tnode {
	n := &tnode{uuid: uuid, v: versionOf(uuid) - d.base, parents: parents}
	d.nodes = append(d.nodes, n)
	d.byV[n.v] = n
	return n
}

func (d *tdag) commit(n *tnode) bool {
	if n.locked {
		return true
	}
	if r := Commit(n.uuid); !r.OK() {
		return false
	}
	n.locked = true
	return true
}

// child creates a child of a committed node; the first child continues the parent's branch, later ones get
// a fresh branch name.
func (d *tdag) child(p *tnode) *tnode {
	hasChild := false
	for _, n := range d.nodes {
		for _, q := range n.parents {
			if q == p.v && len(n.parents) == 1 {
				hasChild = true
			}
		}
	}
	var uuid string
	var r Resp
	if !hasChild {
		uuid, r = NewVersion(p.uuid)
	}
	if hasChild || !r.OK() {
		d.nb++
		uuid, r = Branch(p.uuid, fmt.Sprintf("b%d_%d", p.v, d.nb))
	}
	if !r.OK() || uuid == "" {
		return nil
	}
	return d.add(uuid, []int{p.v})
}

func (d *tdag) merge(ps []*tnode) *tnode {
	var uuids []string
	var vs []int
	for _, p := range ps {
		uuids = append(uuids, p.uuid)
		vs = append(vs, p.v)
	}
	uuid, r := Merge(uuids)
	if !r.OK() || uuid == "" {
		return nil
	}
	return d.add(uuid, vs)
}

func (d *tdag) maxV() int {
	m := 0
	for _, n := range d.nodes {
		if n.v > m {
			m = n.v
		}
	}
	return m
}

// parentsSpec: the line-protocol encoding "_;_;1;1;2,3" indexed by version id
func (d *tdag) parentsSpec() string {
	parts := make([]string, d.maxV()+1)
	for i := range parts {
		parts[i] = "_"
	}
	for _, n := range d.nodes {
		if len(n.parents) > 0 {
			var ps []string
			for _, p := range n.parents {
				ps = append(ps, fmt.Sprint(p))
			}
			parts[n.v] = strings.Join(ps, ",")
		}
	}
	return strings.Join(parts, ";")
}

// ---- the C01 specification, computed independently in Go (oracle O) ----

func (d *tdag) ancestors(v int) map[int]bool {
	seen := map[int]bool{}
	var walk func(int)
	walk = func(x int) {
		if seen[x] {
			return
		}
		seen[x] = true
		if n := d.byV[x]; n != nil {
			for _, p := range n.parents {
				walk(p)
			}
		}
	}
	walk(v)
	return seen
}

func (d *tdag) properAnc(v int) map[int]bool {
	out := map[int]bool{}
	if n := d.byV[v]; n != nil {
		for _, p := range n.parents {
			for a := range d.ancestors(p) {
				out[a] = true
			}
		}
	}
	return out
}

// specRead: entries maps version -> 'V' or 'T'.  Returns ("none"|"found <a>"|"conflict").
func (d *tdag) specRead(entries map[int]byte, v int) string {
	anc := d.ancestors(v)
	var holders []int
	for a := range anc {
		if entries[a] != 0 {
			holders = append(holders, a)
		}
	}
	sort.Ints(holders)
	var live []int
	for _, a := range holders {
		superseded := false
		for _, b := range holders {
			if b != a && d.properAnc(b)[a] {
				superseded = true
			}
		}
		if !superseded && entries[a] == 'V' {
			live = append(live, a)
		}
	}
	switch len(live) {
	case 0:
		return "none"
	case 1:
		return fmt.Sprintf("found %d", live[0])
	}
	return "conflict"
}

// innerConflict reports whether some proper merge ancestor of v is conflicted by itself.
func (d *tdag) innerConflict(entries map[int]byte, v int) bool {
	for a := range d.ancestors(v) {
		if a == v {
			continue
		}
		if n := d.byV[a]; n != nil && len(n.parents) > 1 && d.specRead(entries, a) == "conflict" {
			return true
		}
	}
	return false
}

func (d *tdag) maxMergeArity(v int) int {
	m := 0
	for a := range d.ancestors(v) {
		if n := d.byV[a]; n != nil && len(n.parents) > m {
			m = len(n.parents)
		}
	}
	return m
}

// genDag grows a random DAG with the given number of nodes, biased toward diamonds, 3+-parent merges and
// merges whose parents are ancestors of one another.  `place` is called for every new node while it is
// still uncommitted (so HTTP writes are allowed).
func genDag(r *Rng, size int, place func(n *tnode), c *Ctx) *tdag {
	d := newTDag()
	place(d.nodes[0])
	for len(d.nodes) < size {
		var committed []*tnode
		for _, n := range d.nodes {
			if n.locked {
				committed = append(committed, n)
			}
		}
		k := r.Intn(10)
		switch {
		case len(committed) == 0 || k < 1:
			// commit an open node
			var open []*tnode
			for _, n := range d.nodes {
				if !n.locked {
					open = append(open, n)
				}
			}
			if len(open) == 0 {
				continue
			}
			d.commit(open[r.Intn(len(open))])
		case k < 5 || len(committed) < 2:
			p := committed[r.Intn(len(committed))]
			if n := d.child(p); n != nil {
				place(n)
				if r.Chance(0.8) {
					d.commit(n)
				}
				if c != nil {
					c.Count("dag.child")
				}
			}
		default:
			np := 2
			if r.Chance(0.45) {
				np = 3
			}
			if r.Chance(0.1) {
				np = 4
			}
			if np > len(committed) {
				np = len(committed)
			}
			perm := make([]int, len(committed))
			for i := range perm {
				perm[i] = i
			}
			for i := len(perm) - 1; i > 0; i-- {
				j := r.Intn(i + 1)
				perm[i], perm[j] = perm[j], perm[i]
			}
			var ps []*tnode
			for _, i := range perm[:np] {
				ps = append(ps, committed[i])
			}
			if n := d.merge(ps); n != nil {
				place(n)
				if r.Chance(0.8) {
					d.commit(n)
				}
				if c != nil {
					c.Count(fmt.Sprintf("dag.merge%d", np))
				}
			}
		}
	}
	return d
}
