package main

import (
	"bytes"
	"encoding/hex"
	"encoding/json"
	"fmt"
	"github.com/janelia-flyem/dvid/datastore"
	"sort"
	"strings"
	"time"

	dproto "github.com/janelia-flyem/dvid/datatype/common/proto"
	pb "google.golang.org/protobuf/proto"
)

func init() { register("C16", runC16) }

// ---- canonical forms ----------------------------------------------------------------------------

func canonAny(v interface{}) string {
	b, _ := json.Marshal(v) // encoding/json sorts map keys
	return string(b)
}

// parseNum keeps integers exact
func parseJSON(b []byte) (interface{}, error) {
	d := json.NewDecoder(bytes.NewReader(b))
	d.UseNumber()
	var v interface{}
	err := d.Decode(&v)
	return v, err
}

// canonList: a JSON list of objects or scalars put in a canonical element order (the two read paths iterate
// a Go map / a numerically sorted id list / the store's lexicographic key order).
func canonList(b []byte) string {
	v, err := parseJSON(b)
	if err != nil {
		return "unparsable:" + string(b)
	}
	l, ok := v.([]interface{})
	if !ok {
		return canonAny(v)
	}
	var ss []string
	for _, e := range l {
		ss = append(ss, canonAny(e))
	}
	sort.Strings(ss)
	return "[" + strings.Join(ss, ",") + "]"
}

func canonObj(b []byte) string {
	v, err := parseJSON(b)
	if err != nil {
		return "unparsable:" + string(b)
	}
	return canonAny(v)
}

// ---- generator ----------------------------------------------------------------------------------

var njFields = []string{"status", "type", "name", "group", "position", "tags", "soma", "extra"}
var njUsers = []string{"alice", "bob"}

func genNJValue(r *Rng, field string) interface{} {
	switch field {
	case "position":
		return []int{r.Intn(5), r.Intn(5), r.Intn(5)}
	case "tags":
		n := r.Intn(3)
		l := []string{}
		for i := 0; i < n; i++ {
			l = append(l, []string{"x", "y", "z", "re/q"}[r.Intn(4)])
		}
		return l
	case "soma":
		return map[string]interface{}{"r": r.Intn(3), "at": []int{r.Intn(3), 1}}
	case "group":
		return r.Intn(4)
	case "extra":
		switch r.Intn(4) {
		case 0:
			return 1.5
		case 1:
			return -7
		case 2:
			return true
		default:
			return []interface{}{1, "a", nil}
		}
	default:
		return []string{"Traced", "Anchor", "", "Orphan", "0"}[r.Intn(5)]
	}
}

type njSess struct {
	c        *Ctx
	r        *Rng
	root     string
	head     string // uuid of master head (in-memory path)
	versions []string
	hist     []string
	ids      []int
}

func (s *njSess) log(f string, a ...interface{}) { s.hist = append(s.hist, fmt.Sprintf(f, a...)) }
func (s *njSess) history() string                { return strings.Join(s.hist, "\n") }

// maskTimes replaces every *_time value by "T" (the clock is not part of the comparison)
func maskTimes(v interface{}) interface{} {
	switch x := v.(type) {
	case map[string]interface{}:
		o := map[string]interface{}{}
		for k, e := range x {
			if strings.HasSuffix(k, "_time") {
				o[k] = "T"
			} else {
				o[k] = maskTimes(e)
			}
		}
		return o
	case []interface{}:
		o := []interface{}{}
		for _, e := range x {
			o = append(o, maskTimes(e))
		}
		return o
	}
	return v
}

// objTokens: an annotation in the line-protocol form `field=kind:hex(json)` (kind n null, s string, o other), sorted
func objTokens(m map[string]interface{}) string {
	if len(m) == 0 {
		return "-"
	}
	ks := make([]string, 0, len(m))
	for k := range m {
		ks = append(ks, k)
	}
	sort.Strings(ks)
	var p []string
	for _, k := range ks {
		kind := "o"
		switch m[k].(type) {
		case nil:
			kind = "n"
		case string:
			kind = "s"
		}
		p = append(p, hex.EncodeToString([]byte(k))+"="+kind+":"+hex.EncodeToString([]byte(canonAny(m[k]))))
	}
	return strings.Join(p, ",")
}

func (s *njSess) getObj(uuid string, id int, show string) (map[string]interface{}, bool) {
	q := ""
	if show != "" {
		q = "?show=" + show
	}
	r := Get(fmt.Sprintf("node/%s/nj/key/%d%s", uuid, id, q))
	if r.Code == 404 {
		return nil, false
	}
	v, err := parseJSON(r.Body)
	if err != nil {
		return nil, false
	}
	m, _ := v.(map[string]interface{})
	return m, m != nil
}

var njQueries = []string{
	`{"status":"Traced"}`, `{"status":["Traced","Anchor"]}`, `{"status":"re/^T.*"}`, `{"group":2}`, `{"group":[1,3]}`,
	`{"name":"exists/1"}`, `{"name":"exists/0"}`, `{"tags":"x"}`, `{"tags":["re/^r","y"]}`, `{"position":3}`,
	`[{"status":"Traced"},{"type":"Anchor"}]`, `{"status":"Traced","group":1}`, `{"extra":1.5}`, `{"extra":-7}`, `{"status":""}`,
	`{"bodyid":[1000,1001,1002]}`, `{"soma":"exists/1"}`,
}

// reads: every read endpoint whose answer the property covers; element order canonicalised
func (s *njSess) reads(uuid string) map[string]string {
	out := map[string]string{}
	get := func(name, path string, list bool) {
		r := Get("node/" + uuid + "/nj/" + path)
		body := r.Body
		if r.Code >= 500 {
			body = reqIDre.ReplaceAll(body, []byte("request <id>"))
		}
		if r.Code == 200 {
			if list {
				out[name] = fmt.Sprintf("%d %s", r.Code, canonList(body))
			} else {
				out[name] = fmt.Sprintf("%d %s", r.Code, canonObj(body))
			}
		} else {
			out[name] = fmt.Sprintf("%d %s", r.Code, strings.ReplaceAll(string(body), uuid, "<uuid>"))
		}
	}
	get("keys", "keys", true)
	get("all", "all", true)
	get("all?show=all", "all?show=all", true)
	get("all?show=user", "all?show=user", true)
	get("all?fields=status,group", "all?fields=status,group", true)
	get("all?fields=status&show=time", "all?fields=status&show=time", true)
	get("fields", "fields", true)
	get("fields?counts=true", "fields?counts=true", false)
	for _, typ := range []string{"json_schema", "schema", "schema_batch"} {
		get(typ, typ, false)
	}
	for _, rg := range [][2]int{{0, 99999}, {1001, 1003}, {5, 1002}, {999, 1000}, {1003, 1001}, {20, 100}, {2, 30}} {
		get(fmt.Sprintf("keyrange/%d/%d", rg[0], rg[1]), fmt.Sprintf("keyrange/%d/%d", rg[0], rg[1]), true)
		get(fmt.Sprintf("keyrangevalues/%d/%d?json=true", rg[0], rg[1]), fmt.Sprintf("keyrangevalues/%d/%d?json=true", rg[0], rg[1]), false)
	}
	// open-ended and extreme range ends (the documented "0/a" idiom, the largest body id, non-numeric starts)
	for _, rg := range [][2]string{{"0", "a"}, {"0", "z"}, {"20", "18446744073709551615"}, {"0", "18446744073709551614"}, {"a", "z"}, {"1000", "1000"}, {"0", "0"}} {
		get("keyrange/"+rg[0]+"/"+rg[1], "keyrange/"+rg[0]+"/"+rg[1], true)
		get("keyrangevalues/"+rg[0]+"/"+rg[1]+"?json=true", "keyrangevalues/"+rg[0]+"/"+rg[1]+"?json=true", false)
	}
	for _, id := range s.ids {
		get(fmt.Sprintf("key/%d", id), fmt.Sprintf("key/%d", id), false)
		get(fmt.Sprintf("key/%d?show=all", id), fmt.Sprintf("key/%d?show=all", id), false)
		get(fmt.Sprintf("key/%d?fields=status,name&show=user", id), fmt.Sprintf("key/%d?fields=status,name&show=user", id), false)
	}
	// keyvalues with a JSON list of keys in the GET body
	{
		var ks []string
		for _, id := range s.ids {
			ks = append(ks, fmt.Sprintf("%q", fmt.Sprint(id)))
		}
		r := Do("GET", api("node/"+uuid+"/nj/keyvalues?json=true"), []byte("["+strings.Join(ks, ",")+"]"))
		out["keyvalues?json=true"] = fmt.Sprintf("%d %s", r.Code, canonObj(r.Body))
	}
	for _, q := range njQueries {
		for _, suffix := range []string{"", "?onlyid=true", "?show=all", "?fields=status"} {
			r := Post("node/"+uuid+"/nj/query"+suffix, []byte(q))
			name := "query" + suffix + " " + q
			if r.Code == 200 {
				out[name] = fmt.Sprintf("%d %s", r.Code, canonList(r.Body))
			} else {
				out[name] = fmt.Sprintf("%d %s", r.Code, strings.ReplaceAll(string(r.Body), uuid, "<uuid>"))
			}
		}
	}
	return out
}

// compare the in-memory head with its committed parent (store path) holding identical data
func (s *njSess) snapshotCompare() {
	parent := s.head
	// numbers with an integral value written in float or exponent notation (the head keeps what the JSON decoder
	// gave it, the store keeps the re-encoded text): posted as raw text, outside the model comparison
	if len(s.ids) > 0 && s.r.Chance(0.6) {
		for k := 0; k < 1+s.r.Intn(2); k++ {
			id := s.ids[s.r.Intn(len(s.ids))]
			f := []string{"group", "extra", "group"}[s.r.Intn(3)]
			v := fmt.Sprintf([]string{"%d.0", "%de0", "%d.00"}[s.r.Intn(3)], s.r.Intn(4))
			body := fmt.Sprintf(`{"bodyid":%d,%q:%s}`, id, f, v)
			r := Post(fmt.Sprintf("node/%s/nj/key/%d?u=alice", parent, id), []byte(body))
			s.log("POST key/%d %s -> %d", id, body, r.Code)
			s.c.Count("post: integral number in float notation")
		}
	}
	if r := Commit(parent); !r.OK() {
		s.c.Report("H", "C16 commit", r.String(), s.history())
		return
	}
	child, r := NewVersion(parent)
	if !r.OK() {
		s.c.Report("H", "C16 newversion", r.String(), s.history())
		return
	}
	s.log("commit, new version (head moves to the child; the parent is now read from the store)")
	s.head = child
	s.versions = append(s.versions, child)
	a, b := s.reads(parent), s.reads(child)
	names := make([]string, 0, len(a))
	for k := range a {
		names = append(names, k)
	}
	sort.Strings(names)
	for _, k := range names {
		s.c.Eval("cmp "+k+" "+a[k], len(s.hist) > 3)
		if a[k] != b[k] {
			ep := strings.SplitN(strings.SplitN(k, " ", 2)[0], "/", 2)[0]
			ep = strings.SplitN(ep, "?", 2)[0]
			if strings.Contains(k, "fields=") && strings.HasPrefix(k, "query") {
				ep = "query-with-fields"
			}
			s.c.Report("O", "C16 memory-vs-store "+ep, "the in-memory head and the store answer the same read differently for identical data",
				fmt.Sprintf("read: %s\nstore path (committed parent): %s\nmemory path (head child):      %s\nhistory:\n%s\n", k, trunc800(a[k]), trunc800(b[k]), s.history()))
		}
	}
}

func trunc800(s string) string {
	if len(s) > 800 {
		return s[:800] + "…"
	}
	return s
}

func (s *njSess) post(id int, obj map[string]interface{}, user string, replace bool, cond []string) {
	q := "?u=" + user
	if replace {
		q += "&replace=true"
	}
	if len(cond) > 0 {
		q += "&conditionals=" + strings.Join(cond, ",")
	}
	obj["bodyid"] = id
	body, _ := json.Marshal(obj)
	before, had := s.getObj(s.head, id, "all")
	r := Post(fmt.Sprintf("node/%s/nj/key/%d%s", s.head, id, q), body)
	s.log("POST key/%d%s %s -> %d", id, q, string(body), r.Code)
	if !r.OK() {
		s.c.Count("post-refused")
		return
	}
	for _, f := range cond {
		if ov, stored := before[f]; stored {
			if nv, given := obj[f]; given && nv != nil && canonAny(nv) != canonAny(ov) {
				s.c.Count("post: conditional on a stored field with another value")
				if bu, _ := before[f+"_user"].(string); bu != user {
					s.c.Count("post: conditional on a stored field with another value, by another user")
				}
			}
		}
	}
	after, ok := s.getObj(s.head, id, "all")
	if !ok {
		s.c.Report("O", "C16 post-lost", "a stored annotation cannot be read back", s.history())
		return
	}
	// model of the merge rules (X): updateJSON on (before, request) with the times masked
	var reqObj map[string]interface{}
	v, _ := parseJSON(body)
	reqObj, _ = v.(map[string]interface{})
	mb := "-"
	if had {
		mb = objTokens(maskTimes(before).(map[string]interface{}))
	}
	rep := "0"
	if replace {
		rep = "1"
	}
	cs := "-"
	if len(cond) > 0 {
		var hx []string
		for _, f := range cond {
			hx = append(hx, hex.EncodeToString([]byte(f)))
		}
		cs = strings.Join(hx, ",")
	}
	op := fmt.Sprintf("nj.update %s %s %s %s %s", mb, objTokens(reqObj), hex.EncodeToString([]byte(user)), rep, cs)
	s.c.Cmp("C16-updateJSON", op+"\nhistory:\n"+s.history(), "ok "+objTokens(maskTimes(after).(map[string]interface{})), s.c.Model.Ask(op))
	// oracle on the rules the property states
	if !replace {
		for f, ov := range before {
			if strings.HasSuffix(f, "_user") || strings.HasSuffix(f, "_time") {
				continue
			}
			if _, mentioned := reqObj[f]; !mentioned {
				if canonAny(after[f]) != canonAny(ov) {
					s.c.Report("O", "C16 partial-update-lost-field", "a partial update changed or dropped a field it does not mention",
						fmt.Sprintf("field %q before %s after %s\n%s", f, canonAny(ov), canonAny(after[f]), s.history()))
				}
			}
		}
	}
	// stamps change only when the value changes: a field whose value is what it was keeps its _user (and _time)
	// unless the request sets them explicitly
	for f, ov := range before {
		if f == "bodyid" || strings.HasSuffix(f, "_user") || strings.HasSuffix(f, "_time") {
			continue
		}
		av, still := after[f]
		if !still || canonAny(av) != canonAny(ov) {
			continue
		}
		for _, suf := range []string{"_user", "_time"} {
			if _, explicit := reqObj[f+suf]; explicit {
				continue
			}
			if bs, had := before[f+suf]; had && canonAny(after[f+suf]) != canonAny(bs) && !replace {
				s.c.Report("O", "C16 stamp-changed-without-value-change", "a field whose value did not change got a new "+suf+" stamp",
					fmt.Sprintf("field %q = %s before and after; %s%s before %s after %s\n%s", f, canonAny(ov), f, suf, canonAny(bs), canonAny(after[f+suf]), s.history()))
			}
		}
	}
	for f, nv := range reqObj {
		if nv == nil {
			if _, still := after[f]; still {
				s.c.Report("O", "C16 null-keeps-field", "a null in an update did not remove the field's value", fmt.Sprintf("field %q\n%s", f, s.history()))
			}
		}
	}
	s.c.Eval("post "+string(body)+q+" on "+mb, had)
}

func (s *njSess) genPost() {
	r := s.r
	id := s.ids[r.Intn(len(s.ids))]
	obj := map[string]interface{}{}
	n := 1 + r.Intn(3)
	for i := 0; i < n; i++ {
		f := njFields[r.Intn(len(njFields))]
		if r.Chance(0.2) {
			obj[f] = nil // delete the field
		} else {
			obj[f] = genNJValue(r, f)
		}
	}
	if r.Chance(0.3) {
		// repeat a stored value exactly
		if cur, ok := s.getObj(s.head, id, ""); ok {
			for f, v := range cur {
				if f != "bodyid" && r.Chance(0.5) {
					obj[f] = v
				}
			}
		}
	}
	if r.Chance(0.1) {
		f := njFields[r.Intn(3)]
		obj[f+"_user"] = "carol"
	}
	var cond []string
	if r.Chance(0.2) {
		cond = append(cond, njFields[r.Intn(len(njFields))])
	}
	if r.Chance(0.25) {
		// a conditional on a field this request carries (the stored value, if any, must win and keep its stamps)
		var fs []string
		for f, v := range obj {
			if v != nil && !strings.HasSuffix(f, "_user") && !strings.HasSuffix(f, "_time") {
				fs = append(fs, f)
			}
		}
		sort.Strings(fs)
		if len(fs) > 0 {
			cond = append(cond, fs[r.Intn(len(fs))])
		}
	}
	s.post(id, obj, njUsers[r.Intn(2)], r.Chance(0.2), cond)
}

func runC16(c *Ctx) {
	c.Rule = "a case is one read answered through the in-memory head and through the store for identical data (head child vs its committed parent) after a generated history of POST key (plain, replace, conditionals, nulls, repeated values, explicit _user), POST keyvalues, DELETE key, commits and new versions; or one POST whose stored result is compared with the Lean model of the field-merge rules; non-trivial after at least three writes"
	quietLogs()
	sessions, rounds := 2, 4
	if c.Thorough {
		sessions, rounds = 8, 10
	}
	for si := 0; si < sessions; si++ {
		func() {
			OpenServer()
			defer CloseServer()
			s := &njSess{c: c, r: c.Rng.Fork(), ids: []int{1000, 1001, 1002, 1003, 7, 25, 300}}
			s.root = NewRepo()
			s.head = s.root
			s.versions = []string{s.root}
			if r := NewInstance(s.root, "neuronjson", "nj", nil); !r.OK() {
				c.Report("H", "C16 instance", r.String(), "")
				return
			}
			for round := 0; round < rounds; round++ {
				nops := 6 + s.r.Intn(10)
				for i := 0; i < nops; i++ {
					if s.r.Chance(0.12) {
						// schema metadata of the version: set or deleted (the validation schema stays permissive, and a
						// second variant constrains one field's type so that some posts are refused on both paths alike)
						typ := []string{"json_schema", "schema", "schema_batch"}[s.r.Intn(3)]
						if s.r.Chance(0.8) {
							body := fmt.Sprintf(`{"type":"object","title":"%s-%d"}`, typ, s.r.Intn(1000))
							if typ == "json_schema" && s.r.Chance(0.4) {
								body = `{"type":"object","properties":{"group":{"type":["integer","string","null","array","object","number","boolean"]}},"title":"typed"}`
							}
							r := Post("node/"+s.head+"/nj/"+typ+"?u=alice", []byte(body))
							s.log("POST %s %s -> %d", typ, body, r.Code)
						} else {
							r := Delete("node/" + s.head + "/nj/" + typ + "?u=alice")
							s.log("DELETE %s -> %d", typ, r.Code)
						}
						c.Count("schema-op")
						continue
					}
					switch k := s.r.Intn(10); {
					case k < 7:
						s.genPost()
					case k < 8:
						id := s.ids[s.r.Intn(len(s.ids))]
						r := Delete(fmt.Sprintf("node/%s/nj/key/%d?u=alice", s.head, id))
						s.log("DELETE key/%d -> %d", id, r.Code)
						c.Count("delete")
					default:
						// batch (protobuf KeyValues), through the same merge rules
						kvs := &dproto.KeyValues{}
						desc := ""
						for j := 0; j < 2; j++ {
							id := s.ids[s.r.Intn(len(s.ids))]
							f := njFields[s.r.Intn(len(njFields))]
							val, _ := json.Marshal(map[string]interface{}{"bodyid": id, f: genNJValue(s.r, f)})
							kvs.Kvs = append(kvs.Kvs, &dproto.KeyValue{Key: fmt.Sprint(id), Value: val})
							desc += string(val) + " "
						}
						body, _ := pb.Marshal(kvs)
						r := Post("node/"+s.head+"/nj/keyvalues?u=bob", body)
						s.log("POST keyvalues (protobuf) %s-> %d", desc, r.Code)
						c.Count("keyvalues")
					}
				}
				s.snapshotCompare()
				if s.r.Bool() {
					// the head's in-memory database is rebuilt from the store (as at a restart), then read and
					// edited again: the rebuilt state has to answer like the one it replaces
					datastore.CloseReopenTest()
					s.log("datastore closed and reopened (the head's in-memory database is reloaded from the store)")
					c.Count("reload")
					a, b := s.reads(s.versions[len(s.versions)-2]), s.reads(s.head)
					for k := range a {
						s.c.Eval("reload cmp "+k, true)
						if a[k] != b[k] {
							ep := strings.SplitN(strings.SplitN(strings.SplitN(k, " ", 2)[0], "/", 2)[0], "?", 2)[0]
							s.c.Report("O", "C16 memory-vs-store-after-reload "+ep, "after the head's in-memory database was reloaded from the store it answers a read differently from the store",
								fmt.Sprintf("read: %s\nstore path (committed parent): %s\nmemory path (reloaded head):   %s\nhistory:\n%s\n", k, trunc800(a[k]), trunc800(b[k]), s.history()))
							break
						}
					}
				}
			}
		}()
	}
	// stamps change only when the value changes (needs the clock to advance: RFC3339 has one-second resolution)
	func() {
		OpenServer()
		defer CloseServer()
		root := NewRepo()
		NewInstance(root, "neuronjson", "nj", nil)
		post := func(q, body string) { Post("node/"+root+"/nj/key/5"+q, []byte(body)) }
		get := func() map[string]interface{} {
			r := Get("node/" + root + "/nj/key/5?show=all")
			v, _ := parseJSON(r.Body)
			m, _ := v.(map[string]interface{})
			return m
		}
		post("?u=alice", `{"bodyid":5,"status":"Traced","group":1,"tags":["x"]}`)
		a := get()
		time.Sleep(1100 * time.Millisecond)
		post("?u=bob", `{"bodyid":5,"status":"Traced","type":"T1","tags":["x"]}`)
		b := get()
		hist := "POST key/5?u=alice {status:Traced,group:1,tags:[x]}; 1.1 s later POST key/5?u=bob {status:Traced,type:T1,tags:[x]}\n"
		for _, f := range []string{"status", "group", "tags"} {
			if canonAny(a[f+"_time"]) != canonAny(b[f+"_time"]) || canonAny(a[f+"_user"]) != canonAny(b[f+"_user"]) {
				c.Report("O", "C16 stamp-changed-without-value-change", "a field's user/time stamp changed although its value did not",
					fmt.Sprintf("%sfield %s: before %v/%v after %v/%v\n", hist, f, a[f+"_user"], a[f+"_time"], b[f+"_user"], b[f+"_time"]))
			}
		}
		if canonAny(b["type_user"]) != `"bob"` {
			c.Report("O", "C16 new-field-stamp", "a newly set field did not get the caller as its user", hist+canonAny(b))
		}
		time.Sleep(1100 * time.Millisecond)
		post("?u=alice&replace=true", `{"bodyid":5,"status":"Traced","type":"T2"}`)
		d := get()
		hist += "1.1 s later POST key/5?u=alice&replace=true {status:Traced,type:T2}\n"
		if canonAny(d["status_time"]) != canonAny(b["status_time"]) || canonAny(d["status_user"]) != canonAny(b["status_user"]) {
			c.Report("O", "C16 stamp-changed-without-value-change", "a field's user/time stamp changed although its value did not (replace=true)",
				fmt.Sprintf("%sstatus: before %v/%v after %v/%v\n", hist, b["status_user"], b["status_time"], d["status_user"], d["status_time"]))
		}
		if _, ok := d["group"]; ok {
			c.Report("O", "C16 replace-kept-field", "replace=true kept a field the new value does not have", hist+canonAny(d))
		}
		if canonAny(d["type_time"]) == canonAny(b["type_time"]) {
			c.Report("O", "C16 stamp-not-updated", "a changed field kept its old time stamp", hist+canonAny(d))
		}
		// a conditional field that is already stored keeps its value — and therefore its stamps
		time.Sleep(1100 * time.Millisecond)
		post("?u=bob&conditionals=status,newf", `{"bodyid":5,"status":"Other","newf":"n1"}`)
		e := get()
		hist += "1.1 s later POST key/5?u=bob&conditionals=status,newf {status:Other,newf:n1}\n"
		if canonAny(e["status"]) != canonAny(d["status"]) {
			c.Report("O", "C16 conditional-overwrote-value", "a conditional field that was already stored was overwritten", hist+canonAny(e))
		} else if canonAny(e["status_time"]) != canonAny(d["status_time"]) || canonAny(e["status_user"]) != canonAny(d["status_user"]) {
			c.Report("O", "C16 stamp-changed-without-value-change", "a conditional field kept its stored value but got a new user/time stamp",
				fmt.Sprintf("%sstatus: before %v/%v after %v/%v\n", hist, d["status_user"], d["status_time"], e["status_user"], e["status_time"]))
		}
		if canonAny(e["newf"]) != `"n1"` || canonAny(e["newf_user"]) != `"bob"` {
			c.Report("O", "C16 conditional-new-field", "a conditional field that was not stored yet was not set with the caller's stamp", hist+canonAny(e))
		}
		c.Eval("stamps "+canonAny(maskTimes(e)), true)
	}()
}
