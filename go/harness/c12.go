package main

import (
	"bytes"
	"encoding/binary"
	"encoding/json"
	"fmt"
	"os"
	"regexp"
	"strconv"
	"strings"
	"time"

	"github.com/janelia-flyem/dvid/datatype/common/labels"
	"github.com/janelia-flyem/dvid/dvid"
)

func init() { register("C12", runC12) }

const mutStart = 1000000000

func runC12(c *Ctx) {
	c.Rule = "real server processes on a scratch store: mutation ids, label allocations (nextlabel) interleaved with announcements of arbitrary labels (maxlabel) and new versions, version/repo/instance ids; clean stops, abrupt exits and a crash armed exactly at the store write that persists the next mutation-id bound (stride boundary); ids collected across processes must be strictly increasing / pairwise distinct and equal the Lean state machines'. non-trivial = history contains a restart or crash; distinct by event sequence"
	nh := 2
	if c.Thorough {
		nh = 20
	}
	laggingCounters(c, "C12")
	for h := 0; h < nh; h++ {
		c12Mutids(c, h)
		c12Labels(c, h)
		c12Repositioned(c, h)
		c12Structural(c, h)
		c12IngestPaths(c, h)
	}
}

// c12IngestPaths: labels enter a label volume through real ingest and proofreading requests (raw voxel writes,
// supervoxel splits with caller-chosen split and remainder ids in either order, renumbering to a caller-chosen
// label), with restarts in between; after each of them a newly allocated label must be greater than every label
// present in the volume.
func c12IngestPaths(c *Ctx, h int) {
	r := c.Rng.Fork()
	dir := scratchDir("c12i")
	defer os.RemoveAll(dir)
	ch := mustChild(c, dir, nil)
	if ch == nil {
		return
	}
	defer func() {
		if ch != nil {
			ch.Kill()
		}
	}()
	resp, _ := ch.HTTP("POST", "repos", []byte(`{"alias":"i","description":"d"}`))
	uuid := jsonField(resp.Body, "root")
	if resp, _ := ch.HTTP("POST", "repo/"+uuid+"/instance", []byte(`{"typename":"labelmap","dataname":"lm","BlockSize":"32,32,32"}`)); !resp.OK() {
		c.Report("H", "C12 labelmap-create", resp.String(), "")
		return
	}
	var hist []string
	present := uint64(0)
	note := func(l uint64) {
		if l > present {
			present = l
		}
	}
	alloc := func(after string) bool {
		resp, ok := ch.HTTP("POST", "node/"+uuid+"/lm/nextlabel/1", nil)
		if !ok || !resp.OK() {
			c.Report("O", "C12 nextlabel-failed", "a next-label request failed", resp.String()+"\n"+strings.Join(hist, "\n"))
			return false
		}
		m := reStartEnd.FindStringSubmatch(string(resp.Body))
		if m == nil {
			return false
		}
		b, _ := strconv.ParseUint(m[1], 10, 64)
		hist = append(hist, fmt.Sprintf("nextlabel/1 -> %d", b))
		c.Eval("ingest-path "+after, true)
		c.Count("ingest-path." + strings.Fields(after)[0])
		if b <= present {
			c.Report("O", "C12 newlabel-not-above-present", "a newly allocated label is not greater than a label already present in the volume",
				fmt.Sprintf("after %s: allocated %d but label %d is present in the volume\nhistory:\n  %s", after, b, present, strings.Join(hist, "\n  ")))
			return false
		}
		note(b)
		return true
	}
	writeBlock := func(bx int, label uint64) bool {
		blk := make([]byte, 32*32*32*8)
		for i := 0; i < 32*32*32; i++ {
			binary.LittleEndian.PutUint64(blk[i*8:], label)
		}
		resp, _ := ch.HTTP("POST", fmt.Sprintf("node/%s/lm/raw/0_1_2/32_32_32/%d_0_0", uuid, 32*bx), blk)
		hist = append(hist, fmt.Sprintf("POST raw block (%d,0,0) all label %d -> %d", bx, label, resp.Code))
		ch.AskT("SETTLE "+uuid+" lm", 20*time.Second)
		if resp.OK() {
			note(label)
		}
		return resp.OK()
	}
	// POST blocks: a compressed block stream, with or without the indexing of the ingested labels
	postBlocks := func(bx int, label uint64, q string) bool {
		blk := labels.MakeSolidBlock(label, dvid.Point3d{32, 32, 32})
		ser, _ := blk.MarshalBinary()
		body := joinFrames([]frame{{int32(bx), 1, 0, gz(ser)}})
		resp, _ := ch.HTTP("POST", fmt.Sprintf("node/%s/lm/blocks%s", uuid, q), body)
		hist = append(hist, fmt.Sprintf("POST blocks%s block (%d,1,0) all label %d -> %d %s", q, bx, label, resp.Code, trunc(string(resp.Body))))
		ch.AskT("SETTLE "+uuid+" lm", 20*time.Second)
		if resp.OK() {
			note(label)
		}
		return resp.OK()
	}
	nblk := 0
	for round := 0; round < 4; round++ {
		q := []string{"?noindexing=true", "", "?noindexing=true&downres=true", "?downres=true"}[(round+h)%4]
		if postBlocks(nblk, present+20+uint64(r.Intn(2000)), q) {
			if !alloc("blocks" + q + " ingest") {
				return
			}
		}
		a := present + 100 + uint64(r.Intn(1000))
		if !writeBlock(nblk, a) || !alloc("raw write") {
			return
		}
		// split supervoxel a with caller-chosen ids, the remainder id above or below the split id
		s1 := present + 50 + uint64(r.Intn(500))
		s2 := s1 + 1 + uint64(r.Intn(60))
		splitID, remainID := s1, s2
		if round%2 == 1 {
			splitID, remainID = s2, s1
		}
		var buf bytes.Buffer
		buf.Write([]byte{0, 3, 0, 0})
		binary.Write(&buf, binary.LittleEndian, uint32(0))
		binary.Write(&buf, binary.LittleEndian, uint32(32*8))
		for z := 0; z < 8; z++ {
			for y := 0; y < 32; y++ {
				binary.Write(&buf, binary.LittleEndian, [4]int32{int32(32 * nblk), int32(y), int32(z), 16})
			}
		}
		resp, _ := ch.HTTP("POST", fmt.Sprintf("node/%s/lm/split-supervoxel/%d?split=%d&remain=%d", uuid, a, splitID, remainID), buf.Bytes())
		hist = append(hist, fmt.Sprintf("split-supervoxel/%d?split=%d&remain=%d -> %d %s", a, splitID, remainID, resp.Code, trunc(string(resp.Body))))
		ch.AskT("SETTLE "+uuid+" lm", 20*time.Second)
		if resp.OK() {
			note(splitID)
			note(remainID)
			if !alloc("split-supervoxel with explicit ids") {
				return
			}
		}
		// renumber the body to a caller-chosen label
		nl := present + 10 + uint64(r.Intn(300))
		body, _ := json.Marshal([]uint64{nl, a})
		resp, _ = ch.HTTP("POST", "node/"+uuid+"/lm/renumber", body)
		hist = append(hist, fmt.Sprintf("renumber %d -> %d: %d", a, nl, resp.Code))
		ch.AskT("SETTLE "+uuid+" lm", 20*time.Second)
		if resp.OK() {
			note(nl)
			if !alloc("renumber") {
				return
			}
		}
		nblk++
		if round%2 == 0 {
			how := "SHUTDOWN"
			if r.Bool() {
				how = "EXIT"
			}
			ch.Stop(how)
			ch = mustChild(c, dir, nil)
			if ch == nil {
				return
			}
			hist = append(hist, "restart ("+how+")")
			if !alloc("restart") {
				return
			}
		}
	}
}

// c12Structural: repo ids, version ids and data-instance ids across restarts.  Repos, data instances and
// versions are created in a generated order with clean stops and abrupt exits in between, so that every kind of
// allocation is at times the last one before a restart.  After every allocation: every repo, version and
// instance created so far still exists, repo ids and version ids are pairwise distinct (manager dump), and a new
// data instance is empty (it shares no instance id with an instance that holds data).
func c12Structural(c *Ctx, h int) {
	r := c.Rng.Fork()
	dir := scratchDir("c12s")
	defer os.RemoveAll(dir)
	ch := mustChild(c, dir, nil)
	if ch == nil {
		return
	}
	defer func() {
		if ch != nil {
			ch.Kill()
		}
	}()
	type repo struct {
		root  string
		open  string // uuid of an open version
		insts []string
	}
	var repos []*repo
	var uuids []string // every version created
	var hist []string
	restarts := 0
	fail := func(sig, what, detail string) {
		c.Report("O", "C12 "+sig, what, detail+"\nhistory:\n  "+strings.Join(hist, "\n  "))
	}
	check := func(after string) bool {
		dump, _ := ch.Ask("DUMP")
		ids := map[string]string{}
		vers := map[string]string{}
		present := map[string]bool{}
		for _, ln := range strings.Split(dump, "|") {
			var u string
			var id, v int
			if n, _ := fmt.Sscanf(ln, "repo uuid=%q id=%d", &u, &id); n == 2 {
				if o, dup := ids[fmt.Sprint(id)]; dup && o != u {
					fail("repo-id-issued-twice", "two repos share a repo id", fmt.Sprintf("after %s: repos %s and %s both have id %d", after, o, u, id))
					return false
				}
				ids[fmt.Sprint(id)] = u
				present[u] = true
			}
			if strings.HasPrefix(ln, "node ") {
				var ru string
				if n, _ := fmt.Sscanf(ln, "node repo=%q v=%d uuid=%q", &ru, &v, &u); n == 3 {
					if o, dup := vers[fmt.Sprint(v)]; dup && o != u {
						fail("version-id-issued-twice", "two versions share a version id", fmt.Sprintf("after %s: versions %s and %s both have id %d", after, o, u, v))
						return false
					}
					vers[fmt.Sprint(v)] = u
					present[u] = true
				}
			}
		}
		for _, rp := range repos {
			if !present[rp.root] {
				fail("repo-lost", "a repo created earlier is gone after a later allocation", fmt.Sprintf("after %s: repo %s is not in the manager's state", after, rp.root))
				return false
			}
			if resp, ok := ch.HTTP("GET", "repo/"+rp.root+"/info", nil); !ok || !resp.OK() {
				fail("repo-lost", "a repo created earlier is gone after a later allocation", fmt.Sprintf("after %s: GET repo/%s/info -> %s", after, rp.root, resp))
				return false
			}
		}
		for _, u := range uuids {
			if !present[u] {
				fail("version-lost", "a version created earlier is gone after a later allocation", fmt.Sprintf("after %s: version %s is not in the manager's state", after, u))
				return false
			}
		}
		return true
	}
	steps := 16
	if c.Thorough {
		steps = 30
	}
	for i := 0; i < steps; i++ {
		k := r.Intn(10)
		switch {
		case len(repos) == 0 || k < 3:
			resp, _ := ch.HTTP("POST", "repos", []byte(fmt.Sprintf(`{"alias":"r%d","description":"d"}`, len(repos))))
			root := jsonField(resp.Body, "root")
			if !resp.OK() || root == "" {
				fail("newrepo-fails", "a repo cannot be created", resp.String())
				return
			}
			repos = append(repos, &repo{root: root, open: root})
			uuids = append(uuids, root)
			hist = append(hist, "new repo "+root[:8])
			c.Count("structural.newrepo")
			if !check("new repo " + root[:8]) {
				return
			}
		case k < 5:
			rp := repos[r.Intn(len(repos))]
			name := fmt.Sprintf("kv%d", len(rp.insts))
			resp, _ := ch.HTTP("POST", "repo/"+rp.open+"/instance", []byte(fmt.Sprintf(`{"typename":"keyvalue","dataname":%q}`, name)))
			if !resp.OK() {
				fail("newinstance-fails", "a data instance cannot be created", resp.String())
				return
			}
			hist = append(hist, fmt.Sprintf("new instance %s in repo %s", name, rp.root[:8]))
			c.Count("structural.newinstance")
			if kr, _ := ch.HTTP("GET", "node/"+rp.open+"/"+name+"/keys", nil); kr.OK() && strings.TrimSpace(string(kr.Body)) != "[]" {
				fail("instance-id-issued-twice", "a newly created data instance is not empty: it shares its instance id with an instance that holds data",
					fmt.Sprintf("GET node/%s/%s/keys -> %s", rp.open[:8], name, kr))
				return
			}
			ch.HTTP("POST", "node/"+rp.open+"/"+name+"/key/mark", []byte(rp.root+name))
			rp.insts = append(rp.insts, name)
			if !check("new instance " + name) {
				return
			}
		case k < 7:
			rp := repos[r.Intn(len(repos))]
			ch.HTTP("POST", "node/"+rp.open+"/commit", []byte(`{"note":"c"}`))
			resp, _ := ch.HTTP("POST", "node/"+rp.open+"/newversion", []byte(`{"note":"n"}`))
			child := jsonField(resp.Body, "child")
			if !resp.OK() || child == "" {
				fail("newversion-fails", "a version cannot be created", resp.String())
				return
			}
			rp.open = child
			uuids = append(uuids, child)
			hist = append(hist, fmt.Sprintf("commit + new version %s in repo %s", child[:8], rp.root[:8]))
			c.Count("structural.newversion")
			if !check("new version " + child[:8]) {
				return
			}
		default:
			how := "SHUTDOWN"
			if r.Bool() {
				how = "kill"
				ch.Kill()
			} else {
				ch.Stop("SHUTDOWN")
			}
			ch = mustChild(c, dir, nil)
			if ch == nil {
				return
			}
			restarts++
			hist = append(hist, "restart ("+how+")")
			c.Count("structural.restart")
			if !check("restart") {
				return
			}
			// every instance still holds its own mark
			for _, rp := range repos {
				for _, name := range rp.insts {
					if kr, _ := ch.HTTP("GET", "node/"+rp.open+"/"+name+"/key/mark", nil); !kr.OK() || string(kr.Body) != rp.root+name {
						fail("instance-data-mixed", "after a restart a data instance does not hold the value written to it", fmt.Sprintf("GET node/%s/%s/key/mark -> %s", rp.open[:8], name, kr))
						return
					}
				}
			}
		}
	}
	c.Eval("structural "+strings.Join(hist, ";"), restarts > 0)
}

func mustChild(c *Ctx, dir string, env []string) *Child {
	ch, msg := StartChild(dir, env)
	if ch == nil {
		c.Report("O", "C12 restart-failed", "the server did not start again on its own stores", msg)
	}
	return ch
}

func jsonField(b []byte, key string) string {
	var m map[string]interface{}
	if json.Unmarshal(b, &m) != nil {
		return ""
	}
	switch v := m[key].(type) {
	case string:
		return v
	case float64:
		return strconv.FormatUint(uint64(v), 10)
	}
	return ""
}

func c12Mutids(c *Ctx, h int) {
	r := c.Rng.Fork()
	dir := scratchDir("c12m")
	defer os.RemoveAll(dir)
	ch := mustChild(c, dir, nil)
	if ch == nil {
		return
	}
	defer func() {
		if ch != nil {
			ch.Kill()
		}
	}()
	resp, _ := ch.HTTP("POST", "repos", []byte(`{"alias":"a","description":"d"}`))
	uuid := jsonField(resp.Body, "root")
	ch.HTTP("POST", "repo/"+uuid+"/instance", []byte(`{"typename":"keyvalue","dataname":"kv"}`))
	c.Model.Ask(fmt.Sprintf("mut.init %d 0", mutStart))
	var issued []uint64
	var hist []string
	events := 0
	// run lengths between restarts: short, around one stride, and between strides (a bound that is persisted
	// wrongly at a stride crossing only shows after a later restart)
	runLens := []int{1, 3, 99, 100, 101, 150, 199, 201, 5, 250, 102}
	sinceRestart, runIdx := 0, r.Intn(len(runLens))
	steps := 900 + r.Intn(300)
	for i := 0; i < steps; i++ {
		st := strings.Fields(c.Model.Ask("mut.state")) // ok cur saved persisted
		cur, _ := strconv.Atoi(st[1])
		saved, _ := strconv.Atoi(st[2])
		atBoundary := cur+1 >= saved
		k := r.Intn(100)
		switch {
		case atBoundary && k < 45:
			// crash exactly at the write that persists the new bound: arm the crash on the next store write
			wr, _ := ch.Ask("WRITES")
			n, _ := strconv.Atoi(wr)
			ch.Ask(fmt.Sprintf("CRASHAT %d", n+1))
			out, ok := ch.Ask("MUTID " + uuid + " kv")
			if ok {
				c.Report("O", "C12 mutid-boundary-without-persist", "an allocation at a stride boundary did not write the new bound first", fmt.Sprintf("cur=%d saved=%d got %s", cur, saved, out))
				id, _ := strconv.ParseUint(out, 10, 64)
				issued = append(issued, id)
				c.Model.Ask("mut.alloc")
			} else {
				hist = append(hist, "crash-in-alloc")
				c.Model.Ask(fmt.Sprintf("mut.restart %d", mutStart))
				ch = mustChild(c, dir, nil)
				if ch == nil {
					return
				}
				events++
				c.Count("mutid.crash-at-boundary")
			}
		case sinceRestart >= runLens[runIdx%len(runLens)] || k < 1:
			sinceRestart = 0
			runIdx++
			how := "SHUTDOWN"
			if r.Bool() {
				how = "EXIT"
			}
			ch.Stop(how)
			hist = append(hist, "restart("+how+")")
			c.Model.Ask(fmt.Sprintf("mut.restart %d", mutStart))
			ch = mustChild(c, dir, nil)
			if ch == nil {
				return
			}
			events++
			c.Count("mutid.restart." + how)
		default:
			out, ok := ch.Ask("MUTID " + uuid + " kv")
			if !ok {
				c.Report("H", "C12 child-died", out, strings.Join(hist, " "))
				return
			}
			id, err := strconv.ParseUint(out, 10, 64)
			if err != nil {
				c.Report("H", "C12 mutid-parse", out, "")
				return
			}
			issued = append(issued, id)
			sinceRestart++
			hist = append(hist, fmt.Sprint(id))
			c.AskCmp("repoT.newMutationID", "mut.alloc", fmt.Sprintf("ok %d", id))
			c.Count("mutid.alloc")
		}
	}
	for i := 1; i < len(issued); i++ {
		if issued[i] <= issued[i-1] {
			c.Report("O", "C12 mutid-not-increasing", "a mutation id was issued twice or out of order across restarts/crashes",
				fmt.Sprintf("id %d issued after %d\nhistory: %s", issued[i], issued[i-1], strings.Join(hist, " ")))
			break
		}
	}
	c.Evals += len(issued)
	c.Eval("mutids "+strings.Join(hist, " "), events > 0)
}

var reStartEnd = regexp.MustCompile(`"start": (\d+), "end": (\d+)`)

// c12Repositioned: after an administrator repositioned the label counter (set-nextlabel) labels handed out by
// cleaves (newLabel), by next-label requests (newLabels) and across clean / abrupt restarts are still never
// issued twice and strictly increase.
func c12Repositioned(c *Ctx, h int) {
	r := c.Rng.Fork()
	dir := scratchDir("c12n")
	defer os.RemoveAll(dir)
	ch := mustChild(c, dir, nil)
	if ch == nil {
		return
	}
	defer func() {
		if ch != nil {
			ch.Kill()
		}
	}()
	resp, _ := ch.HTTP("POST", "repos", []byte(`{"alias":"a","description":"d"}`))
	uuid := jsonField(resp.Body, "root")
	ch.HTTP("POST", "repo/"+uuid+"/instance", []byte(`{"typename":"labelmap","dataname":"lmx","BlockSize":"32,32,32"}`))
	// supervoxels 1..16 as slabs of two planes, merged into body 1: up to 15 cleaves are possible
	blk := make([]uint64, 32*32*32)
	for i := range blk {
		blk[i] = uint64(1 + (i/(32*32))/2)
	}
	if resp, _ := ch.HTTP("POST", "node/"+uuid+"/lmx/raw/0_1_2/32_32_32/0_0_0", u64le(blk)); !resp.OK() {
		c.Report("H", "C12 repositioned-setup", resp.String(), "")
		return
	}
	ch.AskT("SETTLE "+uuid+" lmx", 30*time.Second)
	ch.HTTP("POST", "node/"+uuid+"/lmx/merge", []byte("[1,2,3,4,5,6,7,8,9,10,11,12,13,14,15,16]"))
	ch.AskT("SETTLE "+uuid+" lmx", 30*time.Second)
	start := 1000 + r.Intn(5000)
	if resp, _ := ch.HTTP("POST", fmt.Sprintf("node/%s/lmx/set-nextlabel/%d", uuid, start), nil); !resp.OK() {
		c.Report("H", "C12 set-nextlabel", resp.String(), "")
		return
	}
	c.Model.Ask(fmt.Sprintf("nx.set %d", start))
	hist := []string{fmt.Sprintf("set-nextlabel/%d", start)}
	var issued []uint64
	nextSV, events := 2, 0
	for i := 0; i < 24; i++ {
		switch k := r.Intn(10); {
		case k < 4 && nextSV <= 16:
			resp, _ := ch.HTTP("POST", fmt.Sprintf("node/%s/lmx/cleave/1", uuid), []byte(fmt.Sprintf("[%d]", nextSV)))
			nextSV++
			if !resp.OK() {
				c.Report("H", "C12 cleave", resp.String(), strings.Join(hist, " "))
				return
			}
			l, _ := strconv.ParseUint(jsonField(resp.Body, "CleavedLabel"), 10, 64)
			c.AskCmp("labelmap.newLabel (repositioned counter)", "nx.one", fmt.Sprintf("ok %d", l))
			issued = append(issued, l)
			hist = append(hist, fmt.Sprintf("cleave->%d", l))
			c.Count("label.repositioned.cleave")
			ch.AskT("SETTLE "+uuid+" lmx", 30*time.Second)
		case k < 7:
			n := 1 + r.Intn(3)
			resp, _ := ch.HTTP("POST", fmt.Sprintf("node/%s/lmx/nextlabel/%d", uuid, n), nil)
			var o struct{ Start, End uint64 }
			json.Unmarshal(resp.Body, &o)
			if !resp.OK() {
				c.Report("H", "C12 nextlabel", resp.String(), strings.Join(hist, " "))
				return
			}
			c.AskCmp("labelmap.newLabels (repositioned counter)", fmt.Sprintf("nx.many %d", n), fmt.Sprintf("ok %d %d", o.Start, o.End))
			for l := o.Start; l <= o.End; l++ {
				issued = append(issued, l)
			}
			hist = append(hist, fmt.Sprintf("nextlabel/%d->%d..%d", n, o.Start, o.End))
			c.Count("label.repositioned.nextlabel")
		default:
			how := "SHUTDOWN"
			if r.Bool() {
				how = "EXIT"
			}
			ch.Stop(how)
			c.Model.Ask("nx.restart")
			ch = mustChild(c, dir, nil)
			if ch == nil {
				return
			}
			hist = append(hist, "restart("+how+")")
			events++
			c.Count("label.repositioned.restart." + how)
		}
	}
	for i := 1; i < len(issued); i++ {
		if issued[i] <= issued[i-1] {
			c.Report("O", "C12 label-not-increasing repositioned", "after set-nextlabel an allocated label was issued twice or out of order",
				fmt.Sprintf("issued %v\nhistory: %s", issued, strings.Join(hist, " ")))
			break
		}
	}
	c.Eval("repositioned "+strings.Join(hist, " "), events > 0)
}

func c12Labels(c *Ctx, h int) {
	r := c.Rng.Fork()
	dir := scratchDir("c12l")
	defer os.RemoveAll(dir)
	ch := mustChild(c, dir, nil)
	if ch == nil {
		return
	}
	defer func() {
		if ch != nil {
			ch.Kill()
		}
	}()
	resp, _ := ch.HTTP("POST", "repos", []byte(`{"alias":"a","description":"d"}`))
	uuid := jsonField(resp.Body, "root")
	if resp, _ := ch.HTTP("POST", "repo/"+uuid+"/instance", []byte(`{"typename":"labelmap","dataname":"lm"}`)); !resp.OK() {
		c.Report("H", "C12 labelmap-create", resp.String(), "")
		return
	}
	c.Model.Ask("lab.reset")
	type verT struct {
		uuid string
		v    int
	}
	// version ids: root = 1 in a fresh store
	cur := verT{uuid, 1}
	versions := []verT{cur}
	nextV := 2
	announced := uint64(0)
	var hist []string
	var issued [][2]uint64
	events := 0
	touched := map[int]bool{}
	for i := 0; i < 60; i++ {
		switch k := r.Intn(20); {
		case k < 8:
			n := 1 + r.Intn(5)
			resp, ok := ch.HTTP("POST", fmt.Sprintf("node/%s/lm/nextlabel/%d", cur.uuid, n), nil)
			if !ok || !resp.OK() {
				c.Report("O", "C12 nextlabel-failed", "a next-label request failed", resp.String()+" "+strings.Join(hist, " "))
				return
			}
			m := reStartEnd.FindStringSubmatch(string(resp.Body))
			if m == nil {
				c.Report("H", "C12 nextlabel-parse", string(resp.Body), "")
				return
			}
			b, _ := strconv.ParseUint(m[1], 10, 64)
			e, _ := strconv.ParseUint(m[2], 10, 64)
			c.AskCmp("labelmap.newLabels", fmt.Sprintf("lab.new %d %d", cur.v, n), fmt.Sprintf("ok %d %d", b, e))
			issued = append(issued, [2]uint64{b, e})
			hist = append(hist, fmt.Sprintf("nextlabel(v%d,%d)=%d..%d", cur.v, n, b, e))
			touched[cur.v] = true
			if b <= announced {
				c.Report("O", "C12 newlabel-not-above-present", "a newly allocated label is not greater than a label already present in the volume",
					fmt.Sprintf("allocated %d..%d but label %d was announced\nhistory: %s", b, e, announced, strings.Join(hist, " ")))
			}
			c.Count("label.nextlabel")
		case k < 13:
			// announce an arbitrary label (what every ingest path does through updateMaxLabel)
			lab := uint64(r.Intn(400))
			if r.Chance(0.2) {
				lab = uint64(r.Intn(1 << 20))
			}
			resp, _ := ch.HTTP("POST", fmt.Sprintf("node/%s/lm/maxlabel/%d", cur.uuid, lab), nil)
			if !resp.OK() {
				c.Report("H", "C12 maxlabel-post", resp.String(), "")
				return
			}
			c.Model.Ask(fmt.Sprintf("lab.ingest %d %d", cur.v, lab))
			if lab > announced {
				announced = lab
			}
			touched[cur.v] = true
			hist = append(hist, fmt.Sprintf("maxlabel(v%d,%d)", cur.v, lab))
			c.Count("label.announce")
		case k < 15:
			// commit and move to a child version
			ch.HTTP("POST", "node/"+cur.uuid+"/commit", []byte(`{"note":"c"}`))
			resp, _ := ch.HTTP("POST", "node/"+cur.uuid+"/newversion", []byte(`{"note":"n"}`))
			child := jsonField(resp.Body, "child")
			if child == "" {
				continue
			}
			cur = verT{child, nextV}
			nextV++
			versions = append(versions, cur)
			hist = append(hist, fmt.Sprintf("newversion->v%d", cur.v))
			c.Count("label.newversion")
		default:
			how := "SHUTDOWN"
			if r.Bool() {
				how = "EXIT"
			}
			ch.Stop(how)
			var vs []string
			for v := range touched {
				vs = append(vs, fmt.Sprint(v))
			}
			arg := "-"
			if len(vs) > 0 {
				arg = strings.Join(vs, ",")
			}
			c.Model.Ask("lab.restart " + arg)
			ch = mustChild(c, dir, nil)
			if ch == nil {
				return
			}
			hist = append(hist, "restart("+how+")")
			events++
			c.Count("label.restart." + how)
			// state rebuilt at start-up answers like the state it replaces
			resp, _ := ch.HTTP("GET", fmt.Sprintf("node/%s/lm/nextlabel", cur.uuid), nil)
			mm := strings.Fields(c.Model.Ask("lab.max"))
			want, _ := strconv.ParseUint(mm[1], 10, 64)
			if got := jsonField(resp.Body, "nextlabel"); got != fmt.Sprint(want+1) {
				c.Report("O", "C12 nextlabel-after-restart", "the label counter reloaded at start-up differs from the live one",
					fmt.Sprintf("GET nextlabel = %s, expected %d\nhistory: %s", got, want+1, strings.Join(hist, " ")))
			}
		}
	}
	for i := 1; i < len(issued); i++ {
		if issued[i][0] <= issued[i-1][1] {
			c.Report("O", "C12 label-not-increasing", "an allocated label was issued twice or out of order",
				fmt.Sprintf("range %v after %v\nhistory: %s", issued[i], issued[i-1], strings.Join(hist, " ")))
			break
		}
	}
	c.Eval("labels "+strings.Join(hist, " "), events > 0)
}
