package main

import (
	"encoding/hex"
	"encoding/json"
	"fmt"
	"regexp"
	"sort"
	"strings"

	"github.com/janelia-flyem/dvid/datastore"
	"github.com/janelia-flyem/dvid/dvid"
)

func init() { register("C07", runC07) }

type mgrSess struct {
	c        *Ctx
	names    map[string]string // real uuid -> model name ("g<v>" for generated ones)
	real     map[string]string // model name -> real uuid
	known    []string          // model-side uuid names usable as arguments
	assigned []string
	hist     []string
	nInst    int
}

func hs(s string) string {
	if s == "" {
		return "-"
	}
	return hex.EncodeToString([]byte(s))
}

var quoted = regexp.MustCompile(`"([^"]*)"`)

// implDump: the hook's dump with server-generated uuids renamed and the instance counter dropped.
func (ms *mgrSess) implDump() string {
	raw := datastore.VerifManagerDump()
	var lines []string
	for _, ln := range strings.Split(strings.TrimSpace(raw), "\n") {
		if ln == "" || strings.HasPrefix(ln, "repo uuid=") {
			continue
		}
		if i := strings.Index(ln, " mapkey="); i >= 0 {
			// a node stored under a map key different from its own version id would be a corruption
			var v, mk int
			fmt.Sscanf(ln[strings.Index(ln, " v=")+3:], "%d", &v)
			fmt.Sscanf(ln[i+8:], "%d", &mk)
			if v != mk {
				ms.c.Report("O", "C07 node-mapkey-mismatch", "a DAG node is stored under a version id other than its own", ln)
			}
			ln = ln[:i]
		}
		if strings.HasPrefix(ln, "counters ") {
			ln = ln[:strings.Index(ln, " instance=")]
		}
		ln = quoted.ReplaceAllStringFunc(ln, func(q string) string {
			s := q[1 : len(q)-1]
			// server-generated uuids also occur inside branch keys (root uuid + name) and tag branch names
			for real, n := range ms.names {
				if len(real) == 32 && real != n {
					s = strings.ReplaceAll(s, real, n)
				}
			}
			return `"` + s + `"`
		})
		lines = append(lines, ln)
	}
	sort.Strings(lines)
	return strings.Join(lines, "|")
}

func (ms *mgrSess) record(realUUID string) {
	if realUUID == "" {
		return
	}
	if _, ok := ms.names[realUUID]; ok {
		return
	}
	isAssigned := false
	for _, a := range ms.assigned {
		if a == realUUID {
			isAssigned = true
		}
	}
	name := realUUID
	if !isAssigned {
		v, err := datastore.VersionFromUUID(dvid.UUID(realUUID))
		if err != nil {
			return
		}
		name = fmt.Sprintf("g%d", v)
	}
	ms.names[realUUID] = name
	ms.real[name] = realUUID
	ms.known = append(ms.known, name)
}

func (ms *mgrSess) realOf(name string) string {
	if r, ok := ms.real[name]; ok {
		return r
	}
	return name
}

// invariants (oracle O) evaluated on the implementation's own state dump
func (ms *mgrSess) checkInv(dump string, lastOp string) {
	type node struct {
		repo, uuid, branch string
		v                  int
		parents, children  []int
		locked             bool
	}
	var nodes []node
	u2v := map[string]int{}
	v2u := map[int]string{}
	reNode := regexp.MustCompile(`^node repo="([^"]*)" v=(\d+) uuid="([^"]*)" parents=\[([^\]]*)\] children=\[([^\]]*)\] branch="([^"]*)" locked=(true|false)`)
	ints := func(s string) []int {
		var out []int
		for _, f := range strings.Fields(s) {
			var n int
			fmt.Sscanf(f, "%d", &n)
			out = append(out, n)
		}
		return out
	}
	for _, ln := range strings.Split(dump, "|") {
		if m := reNode.FindStringSubmatch(ln); m != nil {
			var v int
			fmt.Sscanf(m[2], "%d", &v)
			nodes = append(nodes, node{m[1], m[3], m[6], v, ints(m[4]), ints(m[5]), m[7] == "true"})
		} else if strings.HasPrefix(ln, "u2v ") {
			var u string
			var v int
			fmt.Sscanf(ln, "u2v %q %d", &u, &v)
			u2v[u] = v
		} else if strings.HasPrefix(ln, "v2u ") {
			var u string
			var v int
			fmt.Sscanf(ln, "v2u %d %q", &v, &u)
			v2u[v] = u
		}
	}
	fail := func(sig, what, detail string) {
		ms.c.Report("O", sig, what, detail+"\nlast request: "+lastOp+"\nhistory:\n  "+strings.Join(ms.hist, "\n  ")+"\nstate: "+strings.ReplaceAll(dump, "|", "\n  "))
	}
	byV := map[string]node{}
	uuidCount := map[string]int{}
	for _, n := range nodes {
		key := fmt.Sprintf("%s/%d", n.repo, n.v)
		byV[key] = n
		uuidCount[n.uuid]++
	}
	for _, n := range nodes {
		if uuidCount[n.uuid] > 1 {
			fail("C07 uuid-names-two-nodes", "one UUID names two DAG nodes", "uuid "+n.uuid)
		}
		if v, ok := u2v[n.uuid]; !ok || v != n.v {
			fail("C07 node-not-reachable-by-uuid", "a DAG node's UUID does not resolve to that node's version id", fmt.Sprintf("node v=%d uuid=%s resolves to %d (found=%v)", n.v, n.uuid, v, ok))
		}
		if u, ok := v2u[n.v]; !ok || u != n.uuid {
			fail("C07 version-map-mismatch", "a DAG node's version id does not resolve to that node's UUID", fmt.Sprintf("node v=%d uuid=%s; versionToUUID gives %q", n.v, n.uuid, u))
		}
		seenP := map[int]bool{}
		for _, p := range n.parents {
			pn, ok := byV[fmt.Sprintf("%s/%d", n.repo, p)]
			if !ok {
				fail("C07 dangling-parent", "a node has a parent that is not in its repo's graph", fmt.Sprintf("node v=%d parent %d", n.v, p))
				continue
			}
			if p >= n.v {
				fail("C07 parent-not-older", "a parent's version id is not smaller than its child's (cycle risk)", fmt.Sprintf("node v=%d parent %d", n.v, p))
			}
			if !pn.locked {
				fail("C07 child-of-uncommitted", "a version hangs off an uncommitted parent", fmt.Sprintf("node v=%d parent %d", n.v, p))
			}
			found := false
			for _, ch := range pn.children {
				if ch == n.v {
					found = true
				}
			}
			if !found {
				fail("C07 links-not-mirrored", "parent and child links do not mirror each other", fmt.Sprintf("node v=%d lists parent %d which does not list it as child", n.v, p))
			}
			if seenP[p] {
				fail("C07 duplicate-parent", "a node lists the same parent twice", fmt.Sprintf("node v=%d parents %v", n.v, n.parents))
			}
			seenP[p] = true
		}
		for _, ch := range n.children {
			cn, ok := byV[fmt.Sprintf("%s/%d", n.repo, ch)]
			if !ok {
				fail("C07 dangling-child", "a node lists a child that is not in the graph", fmt.Sprintf("node v=%d child %d", n.v, ch))
				continue
			}
			found := false
			for _, p := range cn.parents {
				if p == n.v {
					found = true
				}
			}
			if !found {
				fail("C07 links-not-mirrored", "parent and child links do not mirror each other", fmt.Sprintf("node v=%d lists child %d which does not list it as parent", n.v, ch))
			}
		}
		if len(n.parents) == 0 && n.uuid != n.repo {
			fail("C07 second-root", "a repo's graph has a second parentless node", fmt.Sprintf("node v=%d uuid=%s in repo %s", n.v, n.uuid, n.repo))
		}
	}
	// each named (non-master) branch is one linear chain with one head
	type bk struct{ repo, b string }
	groups := map[bk][]node{}
	for _, n := range nodes {
		if n.branch != "" {
			groups[bk{n.repo, n.branch}] = append(groups[bk{n.repo, n.branch}], n)
		}
	}
	for k, g := range groups {
		heads, starts := 0, 0
		inB := map[int]bool{}
		for _, n := range g {
			inB[n.v] = true
		}
		for _, n := range g {
			kids := 0
			for _, ch := range n.children {
				if inB[ch] {
					kids++
				}
			}
			if kids == 0 {
				heads++
			}
			if kids > 1 {
				fail("C07 branch-forks", "a named branch forks", fmt.Sprintf("branch %q node v=%d", k.b, n.v))
			}
			par := 0
			for _, p := range n.parents {
				if inB[p] {
					par++
				}
			}
			if par == 0 {
				starts++
			}
		}
		if heads != 1 || starts != 1 {
			fail("C07 branch-not-linear", "a named branch is not one chain with one head", fmt.Sprintf("branch %q heads=%d starts=%d", k.b, heads, starts))
		}
	}
	for u, v := range u2v {
		if v2u[v] != u {
			fail("C07 id-maps-disagree", "uuidToVersion and versionToUUID disagree", fmt.Sprintf("uuid %s -> %d -> %q", u, v, v2u[v]))
		}
	}
}

func (ms *mgrSess) pick(r *Rng) string {
	if len(ms.known) == 0 || r.Chance(0.05) {
		return []string{"nosuchuuid", "", "ffffffffffffffffffffffffffffffff"}[r.Intn(3)]
	}
	return ms.known[r.Intn(len(ms.known))]
}

var tagPool = []string{"v1", "release", "", "tagA", "x_y-z"}
var branchPool = []string{"dev", "fix", "master", "", "dev2", "tag-v1"}

func (ms *mgrSess) genAssign(r *Rng) string {
	switch r.Intn(4) {
	case 0: // duplicate of something that exists
		if len(ms.assigned) > 0 {
			return ms.assigned[r.Intn(len(ms.assigned))]
		}
		fallthrough
	case 1:
		return hex.EncodeToString(r.Bytes(16))
	case 2:
		return "nothex" + hex.EncodeToString(r.Bytes(13))
	default:
		if len(ms.known) > 0 { // the uuid of an existing node (generated ones are 32 hex too)
			return ms.realOf(ms.known[r.Intn(len(ms.known))])
		}
		return hex.EncodeToString(r.Bytes(16))
	}
}

// after: bookkeeping and comparisons after one request (response class and full manager state against the model,
// refused requests must leave the state unchanged, graph invariants)
func (ms *mgrSess) after(c *Ctx, op string, resp Resp, createdKey string, before string) (refused bool) {
	desc := op
	// which uuid did the server answer with?
	implResp := "err"
	if resp.Code == 200 {
		implResp = "ok"
		if createdKey != "" {
			var m map[string]string
			json.Unmarshal(resp.Body, &m)
			ms.record(m[createdKey])
		}
	} else if resp.Code == 404 && strings.Contains(string(resp.Body), "page not found") {
		implResp = "err" // unroutable uuid (empty): refused
	}
	ms.hist = append(ms.hist, fmt.Sprintf("%s -> %s", humanOp(op), resp.String()))
	model := c.Model.Ask(op)
	c.Cmp("repo manager response", desc, implResp, strings.SplitN(model, " ", 2)[0])
	after := ms.implDump()
	mdump := strings.TrimPrefix(c.Model.Ask("mgr.dump"), "ok ")
	c.Cmp("repo manager state (datastore.VerifManagerDump)", desc+"\nhistory:\n  "+strings.Join(ms.hist, "\n  "), after, mdump)
	if implResp == "err" {
		refused = true
		if before != after {
			sig := "C07 refused-request-changed-state " + strings.SplitN(op, " ", 2)[0]
			c.Report("O", sig, "a request answered with an error changed the graph, branch heads or identifier maps",
				"request: "+humanOp(op)+" -> "+resp.String()+"\nhistory:\n  "+strings.Join(ms.hist, "\n  ")+"\nbefore:\n  "+strings.ReplaceAll(before, "|", "\n  ")+"\nafter:\n  "+strings.ReplaceAll(after, "|", "\n  "))
		}
	}
	ms.checkInv(after, humanOp(op))
	return refused
}

// c07Directed: request sequences that random generation reaches only by luck
func c07Directed(c *Ctx) {
	type step struct {
		kind, node, arg string // kind: commit | newversion | branch | merge ; node: name of the node (r0 = root, cN = N-th created)
	}
	scenarios := [][]step{
		// a branch name must stay taken after its head got a child on another branch
		{{"commit", "r0", ""}, {"branch", "r0", "feature"}, {"commit", "c1", ""}, {"branch", "c1", "other"}, {"branch", "r0", "feature"}, {"branch", "c1", "feature"}},
		// ... and after its head was merged away
		{{"commit", "r0", ""}, {"branch", "r0", "feature"}, {"newversion", "r0", ""}, {"commit", "c1", ""}, {"commit", "c2", ""}, {"merge", "c1,c2", ""}, {"branch", "r0", "feature"}},
		// master: one child per branch, also after the child was extended
		{{"commit", "r0", ""}, {"newversion", "r0", ""}, {"commit", "c1", ""}, {"newversion", "c1", ""}, {"newversion", "r0", ""}, {"branch", "r0", ""}},
		// a merge whose parents are committed nodes of two different repos (either order, and with a third parent)
		{{"newrepo", "", ""}, {"commit", "r0", ""}, {"commit", "c1", ""}, {"merge", "r0,c1", ""}, {"merge", "c1,r0", ""},
			{"newversion", "r0", ""}, {"commit", "c2", ""}, {"branch", "r0", "side"}, {"commit", "c3", ""}, {"merge", "c2,c3,c1", ""}, {"merge", "c2,c3", ""}},
	}
	for _, sc := range scenarios {
		OpenServer()
		ms := &mgrSess{c: c, names: map[string]string{}, real: map[string]string{}}
		c.Model.Ask("mgr.reset")
		before := ms.implDump()
		resp := PostJSON("repos", map[string]string{"alias": "a", "description": "d"})
		ms.after(c, "mgr.newrepo none", resp, "root", before)
		name := func(n string) string { // r0 / cN -> model name of the node
			if len(ms.known) == 0 {
				return ""
			}
			if n == "r0" {
				return ms.known[0]
			}
			var k int
			fmt.Sscanf(n, "c%d", &k)
			if k < len(ms.known) {
				return ms.known[k]
			}
			return ms.known[len(ms.known)-1]
		}
		for _, st := range sc {
			before := ms.implDump()
			switch st.kind {
			case "newrepo":
				ms.after(c, "mgr.newrepo none", PostJSON("repos", map[string]string{"alias": "b", "description": "d"}), "root", before)
			case "commit":
				u := name(st.node)
				ms.after(c, "mgr.commit "+hs(u), PostJSON("node/"+ms.realOf(u)+"/commit", map[string]string{"note": "n"}), "", before)
			case "newversion":
				u := name(st.node)
				ms.after(c, "mgr.newversion "+hs(u)+" none", PostJSON("node/"+ms.realOf(u)+"/newversion", map[string]string{"note": "n"}), "child", before)
			case "branch":
				u := name(st.node)
				ms.after(c, "mgr.branch "+hs(u)+" "+hs(st.arg)+" none", PostJSON("node/"+ms.realOf(u)+"/branch", map[string]string{"note": "n", "branch": st.arg}), "child", before)
			case "merge":
				var real, hp []string
				for _, n := range strings.Split(st.node, ",") {
					u := name(n)
					real = append(real, ms.realOf(u))
					hp = append(hp, hs(u))
				}
				ms.after(c, "mgr.merge "+strings.Join(hp, ","), PostJSON("repo/"+real[0]+"/merge", map[string]interface{}{"mergeType": "conflict-free", "parents": real, "note": "m"}), "child", before)
			}
			c.Count("directed." + st.kind)
		}
		c.Eval("directed "+strings.Join(ms.hist, ";"), true)
		CloseServer()
	}
}

func runC07(c *Ctx) {
	c.Rule = "random sequences of repo-level requests through HTTP (new repo, commit, newversion, branch, tag, merge with 2-4 parents) and datastore.DeleteRepo, with fresh / caller-assigned / duplicate / malformed UUIDs and branch names, committed / uncommitted / unknown / repeated / foreign-repo parents; after every request the manager's state dump is compared with the Lean model (X) and the graph invariants are evaluated on it (O); a refused request must leave the dump unchanged. non-trivial = sequence contains a refused request or a merge; distinct by request sequence"
	nseq, maxLen := 150, 22
	if c.Thorough {
		nseq, maxLen = 2500, 30
	}
	r := c.Rng
	c07Directed(c)
	for s := 0; s < nseq; s++ {
		OpenServer()
		ms := &mgrSess{c: c, names: map[string]string{}, real: map[string]string{}}
		c.Model.Ask("mgr.reset")
		n := 4 + r.Intn(maxLen-3)
		refused, merges := 0, 0
		for i := 0; i < n; i++ {
			before := ms.implDump()
			var op string
			var resp Resp
			createdKey := ""
			if len(ms.known) > 0 && r.Chance(0.12) {
				// requests that do not concern the graph: notes, logs, repo description, data instance creation,
				// renaming and deletion (valid or refused) must leave graph, branch heads and identifier maps alone
				u := ms.pick(r)
				real := ms.realOf(u)
				kind := []string{"note", "node-log", "repo-log", "repo-info", "new-instance", "rename-instance", "delete-instance"}[r.Intn(7)]
				var resp Resp
				switch kind {
				case "note":
					resp = PostJSON("node/"+real+"/note", map[string]string{"note": "a note"})
				case "node-log":
					resp = PostJSON("node/"+real+"/log", map[string]interface{}{"log": []string{"line 1", "line 2"}})
				case "repo-log":
					resp = PostJSON("repo/"+real+"/log", map[string]interface{}{"log": []string{"repo line"}})
				case "repo-info":
					resp = PostJSON("repo/"+real+"/info", map[string]string{"alias": "renamed", "description": "other"})
				case "new-instance":
					ms.nInst++
					resp = PostJSON("repo/"+real+"/instance", map[string]string{"typename": "keyvalue", "dataname": fmt.Sprintf("kv%d", ms.nInst%3)})
				case "rename-instance":
					err := datastore.RenameData(dvid.UUID(real), dvid.InstanceName(fmt.Sprintf("kv%d", r.Intn(3))), dvid.InstanceName(fmt.Sprintf("kv%d", r.Intn(4))), "")
					resp = Resp{Code: 200}
					if err != nil {
						resp = Resp{Code: 400, Body: []byte(err.Error())}
					}
				default:
					err := datastore.DeleteDataByName(dvid.UUID(real), dvid.InstanceName(fmt.Sprintf("kv%d", r.Intn(3))), "")
					resp = Resp{Code: 200}
					if err != nil {
						resp = Resp{Code: 400, Body: []byte(err.Error())}
					}
				}
				ms.hist = append(ms.hist, fmt.Sprintf("%s at %s -> %d", kind, u, resp.Code))
				c.Count("req.neutral." + kind)
				if after := ms.implDump(); after != before {
					c.Report("O", "C07 graph-changed-by "+kind, "a request that does not concern the version graph changed the graph, a branch head or an identifier map",
						fmt.Sprintf("request: %s at %s -> %s\nbefore:\n%s\nafter:\n%s\nhistory:\n%s", kind, u, resp, before, after, strings.Join(ms.hist, "\n")))
				}
				continue
			}
			switch k := r.Intn(20); {
			case k < 2 || len(ms.known) == 0:
				a := "none"
				body := map[string]string{"alias": "a", "description": "d"}
				if r.Chance(0.3) {
					u := ms.genAssign(r)
					ms.assigned = append(ms.assigned, u)
					body["root"] = u
					a = hs(u)
					if n, ok := ms.names[u]; ok {
						a = hs(n) // an existing generated uuid passed as assignment: the model knows it by its name
					}
				}
				op = "mgr.newrepo " + a
				resp = PostJSON("repos", body)
				createdKey = "root"
				c.Count("req.newrepo")
			case k < 7:
				u := ms.pick(r)
				if u == "" {
					continue // an empty uuid in the URL path never reaches a DVID handler (the router answers 404)
				}
				op = "mgr.commit " + hs(u)
				resp = PostJSON("node/"+ms.realOf(u)+"/commit", map[string]string{"note": "n"})
				c.Count("req.commit")
			case k < 11:
				u := ms.pick(r)
				if u == "" {
					continue
				}
				a := "none"
				body := map[string]string{"note": "n"}
				if r.Chance(0.3) {
					x := ms.genAssign(r)
					ms.assigned = append(ms.assigned, x)
					body["uuid"] = x
					a = hs(x)
					if x == "" {
						a = "none" // the handlers treat an empty "uuid" as not given
					}
					if n, ok := ms.names[x]; ok {
						a = hs(n)
					}
				}
				op = "mgr.newversion " + hs(u) + " " + a
				resp = PostJSON("node/"+ms.realOf(u)+"/newversion", body)
				createdKey = "child"
				c.Count("req.newversion")
			case k < 14:
				u := ms.pick(r)
				if u == "" {
					continue
				}
				b := branchPool[r.Intn(len(branchPool))]
				a := "none"
				body := map[string]string{"note": "n", "branch": b}
				if r.Chance(0.2) {
					x := ms.genAssign(r)
					ms.assigned = append(ms.assigned, x)
					body["uuid"] = x
					a = hs(x)
					if x == "" {
						a = "none" // the handlers treat an empty "uuid" as not given
					}
					if n, ok := ms.names[x]; ok {
						a = hs(n)
					}
				}
				op = "mgr.branch " + hs(u) + " " + hs(b) + " " + a
				resp = PostJSON("node/"+ms.realOf(u)+"/branch", body)
				createdKey = "child"
				c.Count("req.branch")
			case k < 16:
				u := ms.pick(r)
				if u == "" {
					continue
				}
				t := tagPool[r.Intn(len(tagPool))]
				if r.Chance(0.25) && len(ms.known) > 0 { // a tag that is the uuid of an existing node
					t = ms.known[r.Intn(len(ms.known))]
				}
				ms.assigned = append(ms.assigned, ms.realOf(t))
				op = "mgr.tag " + hs(u) + " " + hs(t)
				resp = PostJSON("node/"+ms.realOf(u)+"/tag", map[string]string{"note": "n", "tag": ms.realOf(t)})
				createdKey = "child"
				c.Count("req.tag")
			case k < 19:
				np := 2 + r.Intn(3)
				var ps, real, hp []string
				for j := 0; j < np; j++ {
					u := ms.pick(r)
					if j > 0 && r.Chance(0.1) {
						u = ps[0] // repeated parent
					}
					ps = append(ps, u)
					real = append(real, ms.realOf(u))
					hp = append(hp, hs(u))
				}
				ok := true
				for _, u := range ps {
					if u == "" {
						ok = false // an empty fragment matches several uuids in MatchingUUID: handler-level lookup, not modelled
					}
				}
				if !ok {
					continue
				}
				op = "mgr.merge " + strings.Join(hp, ",")
				resp = PostJSON("repo/"+real[0]+"/merge", map[string]interface{}{"mergeType": "conflict-free", "parents": real, "note": "m"})
				createdKey = "child"
				merges++
				c.Count("req.merge")
			default:
				u := ms.pick(r)
				op = "mgr.delrepo " + hs(u)
				err := datastore.DeleteRepo(dvid.UUID(ms.realOf(u)), "")
				resp = Resp{Code: 200}
				if err != nil {
					resp = Resp{Code: 400, Body: []byte(err.Error())}
				}
				c.Count("req.deleterepo")
			}
			if ms.after(c, op, resp, createdKey, before) {
				refused++
			}
		}
		c.Eval(strings.Join(ms.hist, ";"), refused > 0 || merges > 0)
		CloseServer()
	}
}

func humanOp(op string) string {
	f := strings.Fields(op)
	for i := 1; i < len(f); i++ {
		if f[i] == "none" || f[i] == "-" {
			continue
		}
		var parts []string
		for _, p := range strings.Split(f[i], ",") {
			if b, err := hex.DecodeString(p); err == nil {
				parts = append(parts, string(b))
			} else {
				parts = append(parts, p)
			}
		}
		f[i] = strings.Join(parts, ",")
	}
	return strings.Join(f, " ")
}
